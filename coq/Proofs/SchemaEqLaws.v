(* C17: the structural equality of schemas / type references / atoms (model of
   schema/equals.go) is an equivalence relation and a congruence for [resolve]; and the
   decoders of the trusted glue invert the encoders.
   Statements: Proofs/SchemaEq_statements.v (all proved here exactly as stated). *)
From Coq Require Import List ZArith QArith String Bool.
From Coq Require Import Ascii Lia.
From SMD Require Import Base.Sexp Model.Value Model.Order Model.PathElem Model.PathSet Model.Schema Model.Codec.
Import ListNotations.
Local Open Scope bool_scope.

(* ------------------------------------------------------------------ *)
(* generic facts *)

Lemma and3_true : forall a b c : bool,
  a && b && c = true <-> a = true /\ b = true /\ c = true.
Proof.
  intros a b c. rewrite !andb_true_iff. tauto.
Qed.

Lemma eqb_sym_of_impl : forall (A : Type) (f : A -> A -> bool),
  (forall x y, f x y = true -> f y x = true) -> forall x y, f x y = f y x.
Proof.
  intros A f Himp x y.
  destruct (f x y) eqn:Exy; destruct (f y x) eqn:Eyx; try reflexivity.
  - apply Himp in Exy. congruence.
  - apply Himp in Eyx. congruence.
Qed.

(* ------------------------------------------------------------------ *)
(* leaf comparisons *)

Lemma string_eqb_sym : forall a b : string, String.eqb a b = String.eqb b a.
Proof.
  apply eqb_sym_of_impl. intros x y Hxy. apply String.eqb_eq in Hxy. subst y. apply String.eqb_refl.
Qed.

Lemma string_eqb_trans : forall a b c : string,
  String.eqb a b = true -> String.eqb b c = true -> String.eqb a c = true.
Proof.
  intros a b c Hab Hbc. apply String.eqb_eq in Hab. subst b. exact Hbc.
Qed.

Lemma scalar_eqb_eq : forall a b, scalar_eqb a b = true <-> a = b.
Proof.
  intros a b. split.
  - intros Hab. destruct a as [| | | |x]; destruct b as [| | | |y]; simpl in Hab; try discriminate; try reflexivity.
    apply String.eqb_eq in Hab. subst y. reflexivity.
  - intros Hab. subst b. destruct a as [| | | |x]; simpl; try reflexivity. apply String.eqb_refl.
Qed.

Lemma scalar_eqb_refl : forall a, scalar_eqb a a = true.
Proof. intros a. apply scalar_eqb_eq. reflexivity. Qed.

Lemma scalar_eqb_sym : forall a b, scalar_eqb a b = scalar_eqb b a.
Proof.
  apply eqb_sym_of_impl. intros x y Hxy. apply scalar_eqb_eq in Hxy. subst y. apply scalar_eqb_refl.
Qed.

Lemma scalar_eqb_trans : forall a b c,
  scalar_eqb a b = true -> scalar_eqb b c = true -> scalar_eqb a c = true.
Proof.
  intros a b c Hab Hbc. apply scalar_eqb_eq in Hab. subst b. exact Hbc.
Qed.

Lemma rel_eqb_eq : forall a b, rel_eqb a b = true <-> a = b.
Proof.
  intros a b. split.
  - intros Hab. destruct a as [| | | |x]; destruct b as [| | | |y]; simpl in Hab; try discriminate; try reflexivity.
    apply String.eqb_eq in Hab. subst y. reflexivity.
  - intros Hab. subst b. destruct a as [| | | |x]; simpl; try reflexivity. apply String.eqb_refl.
Qed.

Lemma rel_eqb_refl : forall a, rel_eqb a a = true.
Proof. intros a. apply rel_eqb_eq. reflexivity. Qed.

Lemma rel_eqb_sym : forall a b, rel_eqb a b = rel_eqb b a.
Proof.
  apply eqb_sym_of_impl. intros x y Hxy. apply rel_eqb_eq in Hxy. subst y. apply rel_eqb_refl.
Qed.

Lemma rel_eqb_trans : forall a b c,
  rel_eqb a b = true -> rel_eqb b c = true -> rel_eqb a c = true.
Proof.
  intros a b c Hab Hbc. apply rel_eqb_eq in Hab. subst b. exact Hbc.
Qed.

Lemma qeq_bool_refl : forall q, Qeq_bool q q = true.
Proof. intros q. apply Qeq_bool_iff. apply Qeq_refl. Qed.

Lemma qeq_bool_sym : forall a b, Qeq_bool a b = Qeq_bool b a.
Proof.
  apply eqb_sym_of_impl. intros x y Hxy. apply Qeq_bool_iff. apply Qeq_sym. apply Qeq_bool_iff. exact Hxy.
Qed.

Lemma qeq_bool_trans : forall a b c,
  Qeq_bool a b = true -> Qeq_bool b c = true -> Qeq_bool a c = true.
Proof.
  intros a b c Hab Hbc. apply Qeq_bool_iff. apply Qeq_bool_iff in Hab. apply Qeq_bool_iff in Hbc.
  exact (Qeq_trans _ _ _ Hab Hbc).
Qed.

Lemma bool_eqb_sym : forall a b : bool, Bool.eqb a b = Bool.eqb b a.
Proof. intros [] []; reflexivity. Qed.

Lemma bool_eqb_trans : forall a b c : bool,
  Bool.eqb a b = true -> Bool.eqb b c = true -> Bool.eqb a c = true.
Proof. intros [] [] []; simpl; auto. Qed.

(* ------------------------------------------------------------------ *)
(* the combinators, pointwise (so that they can be used under an induction) *)

Definition opt_all {A} (P : A -> Prop) (o : option A) : Prop :=
  match o with Some x => P x | None => True end.

Lemma opt_all_of_all : forall (A : Type) (P : A -> Prop), (forall x, P x) -> forall o, opt_all P o.
Proof. intros A P HP [x|]; simpl; auto. Qed.

Lemma Forall_of_all : forall (A : Type) (P : A -> Prop), (forall x, P x) -> forall l, Forall P l.
Proof. intros A P HP l. apply Forall_forall. intros x _. apply HP. Qed.

Lemma opt_eqb_refl_P : forall (A : Type) (f : A -> A -> bool) (o : option A),
  opt_all (fun x => f x x = true) o -> opt_eqb f o o = true.
Proof. intros A f [x|] Ho; simpl in *; auto. Qed.

Lemma opt_eqb_sym_P : forall (A : Type) (f : A -> A -> bool) (o : option A),
  opt_all (fun x => forall y, f x y = f y x) o -> forall o', opt_eqb f o o' = opt_eqb f o' o.
Proof. intros A f [x|] Ho [y|]; simpl in *; auto. Qed.

Lemma opt_eqb_trans_P : forall (A : Type) (f : A -> A -> bool) (o : option A),
  opt_all (fun x => forall y z, f x y = true -> f y z = true -> f x z = true) o ->
  forall o' o'', opt_eqb f o o' = true -> opt_eqb f o' o'' = true -> opt_eqb f o o'' = true.
Proof.
  intros A f [x|] Ho [y|] [z|] H1 H2; simpl in *; try discriminate; auto.
  exact (Ho y z H1 H2).
Qed.

Lemma list_eqb_refl_P : forall (A : Type) (f : A -> A -> bool) (l : list A),
  Forall (fun x => f x x = true) l -> list_eqb f l l = true.
Proof.
  intros A f l Hl. induction Hl as [|x l Hx Hl IH]; simpl; [reflexivity|].
  rewrite Hx, IH. reflexivity.
Qed.

Lemma list_eqb_sym_P : forall (A : Type) (f : A -> A -> bool) (l : list A),
  Forall (fun x => forall y, f x y = f y x) l -> forall l', list_eqb f l l' = list_eqb f l' l.
Proof.
  intros A f l Hl. induction Hl as [|x l Hx Hl IH]; intros [|y l']; simpl; try reflexivity.
  rewrite (Hx y), (IH l'). reflexivity.
Qed.

Lemma list_eqb_trans_P : forall (A : Type) (f : A -> A -> bool) (l : list A),
  Forall (fun x => forall y z, f x y = true -> f y z = true -> f x z = true) l ->
  forall l' l'', list_eqb f l l' = true -> list_eqb f l' l'' = true -> list_eqb f l l'' = true.
Proof.
  intros A f l Hl. induction Hl as [|x l Hx Hl IH]; intros [|y l'] [|z l''] H1 H2; simpl in *;
    try discriminate; try reflexivity.
  apply andb_true_iff in H1. destruct H1 as [H1a H1b].
  apply andb_true_iff in H2. destruct H2 as [H2a H2b].
  rewrite (Hx y z H1a H2a), (IH l' l'' H1b H2b). reflexivity.
Qed.

(* the unconditional forms *)
Lemma opt_eqb_refl : forall (A : Type) (f : A -> A -> bool), (forall x, f x x = true) ->
  forall o, opt_eqb f o o = true.
Proof. intros A f Hf o. apply opt_eqb_refl_P. apply opt_all_of_all. exact Hf. Qed.

Lemma opt_eqb_sym : forall (A : Type) (f : A -> A -> bool), (forall x y, f x y = f y x) ->
  forall o o', opt_eqb f o o' = opt_eqb f o' o.
Proof. intros A f Hf o. apply opt_eqb_sym_P. apply opt_all_of_all. exact Hf. Qed.

Lemma opt_eqb_trans : forall (A : Type) (f : A -> A -> bool),
  (forall x y z, f x y = true -> f y z = true -> f x z = true) ->
  forall o o' o'', opt_eqb f o o' = true -> opt_eqb f o' o'' = true -> opt_eqb f o o'' = true.
Proof. intros A f Hf o. apply opt_eqb_trans_P. apply opt_all_of_all. exact Hf. Qed.

Lemma list_eqb_refl : forall (A : Type) (f : A -> A -> bool), (forall x, f x x = true) ->
  forall l, list_eqb f l l = true.
Proof. intros A f Hf l. apply list_eqb_refl_P. apply Forall_of_all. exact Hf. Qed.

Lemma list_eqb_sym : forall (A : Type) (f : A -> A -> bool), (forall x y, f x y = f y x) ->
  forall l l', list_eqb f l l' = list_eqb f l' l.
Proof. intros A f Hf l. apply list_eqb_sym_P. apply Forall_of_all. exact Hf. Qed.

Lemma list_eqb_trans : forall (A : Type) (f : A -> A -> bool),
  (forall x y z, f x y = true -> f y z = true -> f x z = true) ->
  forall l l' l'', list_eqb f l l' = true -> list_eqb f l' l'' = true -> list_eqb f l l'' = true.
Proof. intros A f Hf l. apply list_eqb_trans_P. apply Forall_of_all. exact Hf. Qed.

(* ------------------------------------------------------------------ *)
(* value_deep_eqb *)

Definition kv_deep_eqb (a b : string * value) : bool :=
  String.eqb (fst a) (fst b) && value_deep_eqb (snd a) (snd b).

Lemma value_deep_eqb_list : forall l1 l2,
  value_deep_eqb (VList l1) (VList l2) = list_eqb value_deep_eqb l1 l2.
Proof.
  induction l1 as [|x xs IH]; intros [|y ys]; try reflexivity.
  specialize (IH ys). simpl in IH |- *. rewrite IH. reflexivity.
Qed.

Lemma value_deep_eqb_map : forall m1 m2,
  value_deep_eqb (VMap m1) (VMap m2) = list_eqb kv_deep_eqb m1 m2.
Proof.
  induction m1 as [|[k1 x] xs IH]; intros [|[k2 y] ys]; try reflexivity.
  specialize (IH ys). unfold kv_deep_eqb in IH |- *. simpl in IH |- *. rewrite IH. reflexivity.
Qed.

Lemma value_deep_eqb_refl : forall v, value_deep_eqb v v = true.
Proof.
  induction v as [|b|z|q|str|l IHl|m IHm] using value_ind'.
  - reflexivity.
  - simpl. apply Bool.eqb_reflx.
  - simpl. apply Z.eqb_refl.
  - simpl. apply qeq_bool_refl.
  - simpl. apply String.eqb_refl.
  - rewrite value_deep_eqb_list. apply list_eqb_refl_P. exact IHl.
  - rewrite value_deep_eqb_map. apply list_eqb_refl_P.
    apply (Forall_impl _ (P := fun kv => value_deep_eqb (snd kv) (snd kv) = true)); [|exact IHm].
    intros kv Hkv. unfold kv_deep_eqb. rewrite String.eqb_refl, Hkv. reflexivity.
Qed.

Lemma value_deep_eqb_sym : forall a b, value_deep_eqb a b = value_deep_eqb b a.
Proof.
  induction a as [|b|z|q|str|l IHl|m IHm] using value_ind'; intros b';
    destruct b' as [|b2|z2|q2|str2|l2|m2]; try reflexivity.
  - simpl. apply bool_eqb_sym.
  - simpl. apply Z.eqb_sym.
  - simpl. apply qeq_bool_sym.
  - simpl. apply string_eqb_sym.
  - rewrite !value_deep_eqb_list. apply list_eqb_sym_P. exact IHl.
  - rewrite !value_deep_eqb_map. apply list_eqb_sym_P.
    apply (Forall_impl _ (P := fun kv => forall y, value_deep_eqb (snd kv) y = value_deep_eqb y (snd kv)));
      [|exact IHm].
    intros kv Hkv y. unfold kv_deep_eqb. rewrite (string_eqb_sym (fst kv) (fst y)), (Hkv (snd y)). reflexivity.
Qed.

Lemma value_deep_eqb_trans : forall a b c,
  value_deep_eqb a b = true -> value_deep_eqb b c = true -> value_deep_eqb a c = true.
Proof.
  induction a as [|b|z|q|str|l IHl|m IHm] using value_ind'; intros b' c' Hab Hbc;
    destruct b' as [|b2|z2|q2|str2|l2|m2]; try discriminate Hab;
    destruct c' as [|b3|z3|q3|str3|l3|m3]; try discriminate Hbc.
  - reflexivity.
  - simpl in *. exact (bool_eqb_trans _ _ _ Hab Hbc).
  - simpl in *. apply Z.eqb_eq in Hab. subst z2. exact Hbc.
  - simpl in *. exact (qeq_bool_trans _ _ _ Hab Hbc).
  - simpl in *. exact (string_eqb_trans _ _ _ Hab Hbc).
  - rewrite value_deep_eqb_list in *. exact (list_eqb_trans_P _ _ l IHl l2 l3 Hab Hbc).
  - rewrite value_deep_eqb_map in *. refine (list_eqb_trans_P _ _ m _ m2 m3 Hab Hbc).
    apply (Forall_impl _ (P := fun kv => forall y z, value_deep_eqb (snd kv) y = true ->
                                          value_deep_eqb y z = true -> value_deep_eqb (snd kv) z = true));
      [|exact IHm].
    intros kv Hkv y z' H1 H2. unfold kv_deep_eqb in *.
    apply andb_true_iff in H1. destruct H1 as [H1a H1b].
    apply andb_true_iff in H2. destruct H2 as [H2a H2b].
    rewrite (string_eqb_trans _ _ _ H1a H2a), (Hkv _ _ H1b H2b). reflexivity.
Qed.

(* ------------------------------------------------------------------ *)
(* an induction principle for the mutual schema types that reaches through the nested
   [option]s and the nested [list sfield] *)

Section SchemaInd.
  Variables (Ptr : typeref -> Prop) (Pat : atom -> Prop) (Pli : listT -> Prop)
            (Pma : mapT -> Prop) (Psf : sfield -> Prop).
  Hypothesis Htr : forall n a r, Pat a -> Ptr (TR n a r).
  Hypothesis Hat : forall sc li ma, opt_all Pli li -> opt_all Pma ma -> Pat (Atom sc li ma).
  Hypothesis Hli : forall e r k, Ptr e -> Pli (ListT e r k).
  Hypothesis Hma : forall fs e r, Forall Psf fs -> Ptr e -> Pma (MapT fs e r).
  Hypothesis Hsf : forall n t d, Ptr t -> Psf (SField n t d).

  Fixpoint typeref_ind' (t : typeref) : Ptr t :=
    match t with
    | TR n a r => Htr n a r (atom_ind' a)
    end
  with atom_ind' (a : atom) : Pat a :=
    match a with
    | Atom sc li ma =>
        Hat sc li ma
          (match li return opt_all Pli li with Some l => listT_ind' l | None => I end)
          (match ma return opt_all Pma ma with Some m => mapT_ind' m | None => I end)
    end
  with listT_ind' (l : listT) : Pli l :=
    match l with
    | ListT e r k => Hli e r k (typeref_ind' e)
    end
  with mapT_ind' (m : mapT) : Pma m :=
    match m with
    | MapT fs e r =>
        Hma fs e r
          ((fix go (l : list sfield) : Forall Psf l :=
              match l with
              | [] => Forall_nil _
              | x :: xs => Forall_cons _ (sfield_ind' x) (go xs)
              end) fs)
          (typeref_ind' e)
    end
  with sfield_ind' (f : sfield) : Psf f :=
    match f with
    | SField n t d => Hsf n t d (typeref_ind' t)
    end.

  Lemma schema_mutind :
    (forall t, Ptr t) /\ (forall a, Pat a) /\ (forall l, Pli l) /\ (forall m, Pma m) /\ (forall f, Psf f).
  Proof.
    repeat split.
    - exact typeref_ind'.
    - exact atom_ind'.
    - exact listT_ind'.
    - exact mapT_ind'.
    - exact sfield_ind'.
  Qed.
End SchemaInd.

(* unfolding equations in terms of the combinators *)
Lemma tr_eqb_eq : forall n1 i1 r1 n2 i2 r2,
  tr_eqb (TR n1 i1 r1) (TR n2 i2 r2) =
  opt_eqb String.eqb n1 n2 && opt_eqb rel_eqb r1 r2 && atom_eqb i1 i2.
Proof. reflexivity. Qed.

Lemma atom_eqb_eq : forall s1 l1 m1 s2 l2 m2,
  atom_eqb (Atom s1 l1 m1) (Atom s2 l2 m2) =
  opt_eqb scalar_eqb s1 s2 && opt_eqb listT_eqb l1 l2 && opt_eqb mapT_eqb m1 m2.
Proof. intros s1 [x|] m1 s2 [y|] m2; destruct m1 as [u|]; destruct m2 as [w|]; reflexivity. Qed.

Lemma listT_eqb_eq : forall e1 r1 k1 e2 r2 k2,
  listT_eqb (ListT e1 r1 k1) (ListT e2 r2 k2) =
  tr_eqb e1 e2 && rel_eqb r1 r2 && list_eqb String.eqb k1 k2.
Proof. reflexivity. Qed.

Lemma mapT_eqb_eq : forall f1 e1 r1 f2 e2 r2,
  mapT_eqb (MapT f1 e1 r1) (MapT f2 e2 r2) =
  tr_eqb e1 e2 && rel_eqb r1 r2 && list_eqb sfield_eqb f1 f2.
Proof.
  intros f1 e1 r1 f2 e2 r2.
  change (mapT_eqb (MapT f1 e1 r1) (MapT f2 e2 r2)) with
    (tr_eqb e1 e2 && rel_eqb r1 r2 &&
     (fix go (f1 f2 : list sfield) {struct f1} : bool :=
        match f1, f2 with
        | [], [] => true
        | x :: xs, y :: ys => sfield_eqb x y && go xs ys
        | _, _ => false
        end) f1 f2).
  f_equal. revert f2. induction f1 as [|x xs IH]; intros [|y ys]; try reflexivity.
  simpl. rewrite <- (IH ys). reflexivity.
Qed.

Lemma sfield_eqb_eq : forall n1 t1 d1 n2 t2 d2,
  sfield_eqb (SField n1 t1 d1) (SField n2 t2 d2) =
  String.eqb n1 n2 && opt_eqb value_deep_eqb d1 d2 && tr_eqb t1 t2.
Proof. reflexivity. Qed.

(* ---- reflexivity ---- *)
Lemma schema_types_eqb_refl :
  (forall a, tr_eqb a a = true) /\ (forall a, atom_eqb a a = true) /\
  (forall a, listT_eqb a a = true) /\ (forall a, mapT_eqb a a = true) /\
  (forall a, sfield_eqb a a = true).
Proof.
  apply schema_mutind.
  - intros n a r Ha. rewrite tr_eqb_eq, Ha.
    rewrite (opt_eqb_refl _ _ String.eqb_refl), (opt_eqb_refl _ _ rel_eqb_refl). reflexivity.
  - intros sc li ma Hl Hm. rewrite atom_eqb_eq.
    rewrite (opt_eqb_refl _ _ scalar_eqb_refl), (opt_eqb_refl_P _ _ li Hl), (opt_eqb_refl_P _ _ ma Hm).
    reflexivity.
  - intros e r k He. rewrite listT_eqb_eq, He, rel_eqb_refl, (list_eqb_refl _ _ String.eqb_refl).
    reflexivity.
  - intros fs e r Hfs He. rewrite mapT_eqb_eq, He, rel_eqb_refl, (list_eqb_refl_P _ _ fs Hfs).
    reflexivity.
  - intros n t d Ht. rewrite sfield_eqb_eq, Ht, String.eqb_refl, (opt_eqb_refl _ _ value_deep_eqb_refl).
    reflexivity.
Qed.

(* ---- symmetry ---- *)
Lemma schema_types_eqb_sym :
  (forall a b, tr_eqb a b = tr_eqb b a) /\ (forall a b, atom_eqb a b = atom_eqb b a) /\
  (forall a b, listT_eqb a b = listT_eqb b a) /\ (forall a b, mapT_eqb a b = mapT_eqb b a) /\
  (forall a b, sfield_eqb a b = sfield_eqb b a).
Proof.
  apply schema_mutind.
  - intros n a r Ha [n2 a2 r2]. rewrite !tr_eqb_eq, (Ha a2).
    rewrite (opt_eqb_sym _ _ string_eqb_sym n n2), (opt_eqb_sym _ _ rel_eqb_sym r r2). reflexivity.
  - intros sc li ma Hl Hm [sc2 li2 ma2]. rewrite !atom_eqb_eq.
    rewrite (opt_eqb_sym _ _ scalar_eqb_sym sc sc2), (opt_eqb_sym_P _ _ li Hl li2),
      (opt_eqb_sym_P _ _ ma Hm ma2). reflexivity.
  - intros e r k He [e2 r2 k2]. rewrite !listT_eqb_eq, (He e2), (rel_eqb_sym r r2),
      (list_eqb_sym _ _ string_eqb_sym k k2). reflexivity.
  - intros fs e r Hfs He [fs2 e2 r2]. rewrite !mapT_eqb_eq, (He e2), (rel_eqb_sym r r2),
      (list_eqb_sym_P _ _ fs Hfs fs2). reflexivity.
  - intros n t d Ht [n2 t2 d2]. rewrite !sfield_eqb_eq, (Ht t2), (string_eqb_sym n n2),
      (opt_eqb_sym _ _ value_deep_eqb_sym d d2). reflexivity.
Qed.

(* ---- transitivity ---- *)
Lemma schema_types_eqb_trans :
  (forall a b c, tr_eqb a b = true -> tr_eqb b c = true -> tr_eqb a c = true) /\
  (forall a b c, atom_eqb a b = true -> atom_eqb b c = true -> atom_eqb a c = true) /\
  (forall a b c, listT_eqb a b = true -> listT_eqb b c = true -> listT_eqb a c = true) /\
  (forall a b c, mapT_eqb a b = true -> mapT_eqb b c = true -> mapT_eqb a c = true) /\
  (forall a b c, sfield_eqb a b = true -> sfield_eqb b c = true -> sfield_eqb a c = true).
Proof.
  apply schema_mutind.
  - intros n a r Ha [n2 a2 r2] [n3 a3 r3] Hab Hbc. rewrite tr_eqb_eq in *.
    apply and3_true in Hab. destruct Hab as (Hab1 & Hab2 & Hab3).
    apply and3_true in Hbc. destruct Hbc as (Hbc1 & Hbc2 & Hbc3).
    apply and3_true. split; [|split].
    + exact (opt_eqb_trans _ _ string_eqb_trans _ _ _ Hab1 Hbc1).
    + exact (opt_eqb_trans _ _ rel_eqb_trans _ _ _ Hab2 Hbc2).
    + exact (Ha _ _ Hab3 Hbc3).
  - intros sc li ma Hl Hm [sc2 li2 ma2] [sc3 li3 ma3] Hab Hbc. rewrite atom_eqb_eq in *.
    apply and3_true in Hab. destruct Hab as (Hab1 & Hab2 & Hab3).
    apply and3_true in Hbc. destruct Hbc as (Hbc1 & Hbc2 & Hbc3).
    apply and3_true. split; [|split].
    + exact (opt_eqb_trans _ _ scalar_eqb_trans _ _ _ Hab1 Hbc1).
    + exact (opt_eqb_trans_P _ _ li Hl _ _ Hab2 Hbc2).
    + exact (opt_eqb_trans_P _ _ ma Hm _ _ Hab3 Hbc3).
  - intros e r k He [e2 r2 k2] [e3 r3 k3] Hab Hbc. rewrite listT_eqb_eq in *.
    apply and3_true in Hab. destruct Hab as (Hab1 & Hab2 & Hab3).
    apply and3_true in Hbc. destruct Hbc as (Hbc1 & Hbc2 & Hbc3).
    apply and3_true. split; [|split].
    + exact (He _ _ Hab1 Hbc1).
    + exact (rel_eqb_trans _ _ _ Hab2 Hbc2).
    + exact (list_eqb_trans _ _ string_eqb_trans _ _ _ Hab3 Hbc3).
  - intros fs e r Hfs He [fs2 e2 r2] [fs3 e3 r3] Hab Hbc. rewrite mapT_eqb_eq in *.
    apply and3_true in Hab. destruct Hab as (Hab1 & Hab2 & Hab3).
    apply and3_true in Hbc. destruct Hbc as (Hbc1 & Hbc2 & Hbc3).
    apply and3_true. split; [|split].
    + exact (He _ _ Hab1 Hbc1).
    + exact (rel_eqb_trans _ _ _ Hab2 Hbc2).
    + exact (list_eqb_trans_P _ _ fs Hfs _ _ Hab3 Hbc3).
  - intros n t d Ht [n2 t2 d2] [n3 t3 d3] Hab Hbc. rewrite sfield_eqb_eq in *.
    apply and3_true in Hab. destruct Hab as (Hab1 & Hab2 & Hab3).
    apply and3_true in Hbc. destruct Hbc as (Hbc1 & Hbc2 & Hbc3).
    apply and3_true. split; [|split].
    + exact (string_eqb_trans _ _ _ Hab1 Hbc1).
    + exact (opt_eqb_trans _ _ value_deep_eqb_trans _ _ _ Hab2 Hbc2).
    + exact (Ht _ _ Hab3 Hbc3).
Qed.

(* ---- the delivered theorems, part 1 ---- *)
Theorem tr_eqb_refl : forall a, tr_eqb a a = true.
Proof. exact (proj1 schema_types_eqb_refl). Qed.
Theorem tr_eqb_sym : forall a b, tr_eqb a b = tr_eqb b a.
Proof. exact (proj1 schema_types_eqb_sym). Qed.
Theorem tr_eqb_trans : forall a b c, tr_eqb a b = true -> tr_eqb b c = true -> tr_eqb a c = true.
Proof. exact (proj1 schema_types_eqb_trans). Qed.
Theorem atom_eqb_refl : forall a, atom_eqb a a = true.
Proof. exact (proj1 (proj2 schema_types_eqb_refl)). Qed.
Theorem atom_eqb_sym : forall a b, atom_eqb a b = atom_eqb b a.
Proof. exact (proj1 (proj2 schema_types_eqb_sym)). Qed.
Theorem atom_eqb_trans : forall a b c, atom_eqb a b = true -> atom_eqb b c = true -> atom_eqb a c = true.
Proof. exact (proj1 (proj2 schema_types_eqb_trans)). Qed.

Lemma listT_eqb_refl : forall a, listT_eqb a a = true.
Proof. exact (proj1 (proj2 (proj2 schema_types_eqb_refl))). Qed.
Lemma listT_eqb_sym : forall a b, listT_eqb a b = listT_eqb b a.
Proof. exact (proj1 (proj2 (proj2 schema_types_eqb_sym))). Qed.
Lemma listT_eqb_trans : forall a b c, listT_eqb a b = true -> listT_eqb b c = true -> listT_eqb a c = true.
Proof. exact (proj1 (proj2 (proj2 schema_types_eqb_trans))). Qed.
Lemma mapT_eqb_refl : forall a, mapT_eqb a a = true.
Proof. exact (proj1 (proj2 (proj2 (proj2 schema_types_eqb_refl)))). Qed.
Lemma mapT_eqb_sym : forall a b, mapT_eqb a b = mapT_eqb b a.
Proof. exact (proj1 (proj2 (proj2 (proj2 schema_types_eqb_sym)))). Qed.
Lemma mapT_eqb_trans : forall a b c, mapT_eqb a b = true -> mapT_eqb b c = true -> mapT_eqb a c = true.
Proof. exact (proj1 (proj2 (proj2 (proj2 schema_types_eqb_trans)))). Qed.
Lemma sfield_eqb_refl : forall a, sfield_eqb a a = true.
Proof. exact (proj2 (proj2 (proj2 (proj2 schema_types_eqb_refl)))). Qed.
Lemma sfield_eqb_sym : forall a b, sfield_eqb a b = sfield_eqb b a.
Proof. exact (proj2 (proj2 (proj2 (proj2 schema_types_eqb_sym)))). Qed.
Lemma sfield_eqb_trans : forall a b c, sfield_eqb a b = true -> sfield_eqb b c = true -> sfield_eqb a c = true.
Proof. exact (proj2 (proj2 (proj2 (proj2 schema_types_eqb_trans)))). Qed.

Lemma typedef_eqb_refl : forall a, typedef_eqb a a = true.
Proof. intros a. unfold typedef_eqb. rewrite String.eqb_refl, atom_eqb_refl. reflexivity. Qed.
Lemma typedef_eqb_sym : forall a b, typedef_eqb a b = typedef_eqb b a.
Proof.
  intros a b. unfold typedef_eqb. rewrite (string_eqb_sym (fst a) (fst b)), (atom_eqb_sym (snd a) (snd b)).
  reflexivity.
Qed.
Lemma typedef_eqb_trans : forall a b c,
  typedef_eqb a b = true -> typedef_eqb b c = true -> typedef_eqb a c = true.
Proof.
  intros a b c Hab Hbc. unfold typedef_eqb in *.
  apply andb_true_iff in Hab. destruct Hab as [Hab1 Hab2].
  apply andb_true_iff in Hbc. destruct Hbc as [Hbc1 Hbc2].
  rewrite (string_eqb_trans _ _ _ Hab1 Hbc1), (atom_eqb_trans _ _ _ Hab2 Hbc2). reflexivity.
Qed.

Theorem schema_eqb_refl : forall a, schema_eqb a a = true.
Proof. intros a. unfold schema_eqb. apply list_eqb_refl. exact typedef_eqb_refl. Qed.
Theorem schema_eqb_sym : forall a b, schema_eqb a b = schema_eqb b a.
Proof. intros a b. unfold schema_eqb. apply list_eqb_sym. exact typedef_eqb_sym. Qed.
Theorem schema_eqb_trans : forall a b c, schema_eqb a b = true -> schema_eqb b c = true -> schema_eqb a c = true.
Proof. intros a b c. unfold schema_eqb. apply list_eqb_trans. exact typedef_eqb_trans. Qed.

(* ------------------------------------------------------------------ *)
(* part 2: equal schemas resolve every reference to equal atoms *)

Lemma schema_eqb_find_named : forall s1 s2 n,
  schema_eqb s1 s2 = true ->
  match find_named s1 n, find_named s2 n with
  | Some a1, Some a2 => atom_eqb a1 a2 = true
  | None, None => True
  | _, _ => False
  end.
Proof.
  unfold schema_eqb.
  induction s1 as [|[n1 a1] s1 IH]; intros [|[n2 a2] s2] n Heq; simpl in Heq; try discriminate Heq.
  - simpl. exact I.
  - apply andb_true_iff in Heq. destruct Heq as [Hd Hs].
    unfold typedef_eqb in Hd. simpl in Hd.
    apply andb_true_iff in Hd. destruct Hd as [Hn Ha].
    apply String.eqb_eq in Hn. subst n2.
    specialize (IH s2 n Hs). simpl.
    destruct (find_named s1 n) as [r1|]; destruct (find_named s2 n) as [r2|]; try contradiction.
    + exact IH.
    + destruct (String.eqb n n1); [exact Ha | exact I].
Qed.

Theorem schema_eqb_resolve : forall s1 s2 tr,
  schema_eqb s1 s2 = true ->
  match resolve s1 tr, resolve s2 tr with
  | Some a1, Some a2 => atom_eqb a1 a2 = true
  | None, None => True
  | _, _ => False
  end.
Proof.
  intros s1 s2 [[n|] a [r|]] Heq; simpl.
  - (* named, with override *)
    pose proof (schema_eqb_find_named s1 s2 n Heq) as Hf.
    destruct (find_named s1 n) as [[sc1 li1 ma1]|]; destruct (find_named s2 n) as [[sc2 li2 ma2]|];
      try contradiction; [|exact I].
    rewrite atom_eqb_eq in Hf. apply and3_true in Hf. destruct Hf as (Hsc & Hli & Hma).
    destruct ma1 as [[f1 e1 r1]|]; destruct ma2 as [[f2 e2 r2]|]; cbn [opt_eqb] in Hma; try discriminate Hma.
    + rewrite mapT_eqb_eq in Hma. apply and3_true in Hma. destruct Hma as (He & Hr & Hfs).
      rewrite atom_eqb_eq. apply and3_true. split; [|split].
      * exact Hsc.
      * exact Hli.
      * cbn [opt_eqb]. rewrite mapT_eqb_eq. apply and3_true. split; [|split].
        -- exact He.
        -- apply rel_eqb_refl.
        -- exact Hfs.
    + destruct li1 as [[e1 r1 k1]|]; destruct li2 as [[e2 r2 k2]|]; cbn [opt_eqb] in Hli; try discriminate Hli;
        [|exact I].
      rewrite listT_eqb_eq in Hli. apply and3_true in Hli. destruct Hli as (He & Hr & Hk).
      rewrite atom_eqb_eq. apply and3_true. split; [|split].
      * exact Hsc.
      * cbn [opt_eqb]. rewrite listT_eqb_eq. apply and3_true. split; [|split].
        -- exact He.
        -- apply rel_eqb_refl.
        -- exact Hk.
      * reflexivity.
  - (* named, no override *)
    exact (schema_eqb_find_named s1 s2 n Heq).
  - (* inlined, with override: both sides compute the same atom *)
    destruct a as [sc li ma]. destruct ma as [[f e r']|].
    + apply atom_eqb_refl.
    + destruct li as [[e r' k]|]; [apply atom_eqb_refl | exact I].
  - (* inlined, no override *)
    apply atom_eqb_refl.
Qed.

(* ------------------------------------------------------------------ *)
(* part 3: the decimal codec *)

Local Open Scope Z_scope.

Lemma digit_of_char : forall d, 0 <= d < 10 -> digit_of (digit_char d) = Some d.
Proof.
  intros d Hd.
  assert (Hc : d = 0 \/ d = 1 \/ d = 2 \/ d = 3 \/ d = 4 \/ d = 5 \/ d = 6 \/ d = 7 \/ d = 8 \/ d = 9) by lia.
  destruct Hc as [Hc|[Hc|[Hc|[Hc|[Hc|[Hc|[Hc|[Hc|[Hc|Hc]]]]]]]]]; subst d; reflexivity.
Qed.

Lemma parse_digits_cons : forall c r acc,
  parse_digits (String c r) acc =
  match digit_of c with Some d => parse_digits r (acc * 10 + d) | None => None end.
Proof. reflexivity. Qed.

Lemma show_pos_fuel_S : forall f z acc,
  show_pos_fuel (S f) z acc =
  if Z.ltb z 10 then String (digit_char z) acc
  else show_pos_fuel f (Z.div z 10) (String (digit_char (Z.modulo z 10)) acc).
Proof. reflexivity. Qed.

(* the digits printed in front of [acc] are read back as [z] *)
Lemma parse_show_pos_fuel : forall fuel z acc,
  0 <= z < 2 ^ Z.of_nat fuel ->
  exists k, forall a, parse_digits (show_pos_fuel fuel z acc) a = parse_digits acc (a * k + z).
Proof.
  induction fuel as [|f IH]; intros z acc Hz.
  - simpl in Hz. assert (Hz0 : z = 0) by lia. subst z. exists 1. intros a. simpl.
    f_equal. lia.
  - rewrite show_pos_fuel_S. destruct (Z.ltb z 10) eqn:Elt.
    + apply Z.ltb_lt in Elt. exists 10. intros a.
      rewrite parse_digits_cons, digit_of_char by lia. reflexivity.
    + apply Z.ltb_ge in Elt.
      rewrite Nat2Z.inj_succ, Z.pow_succ_r in Hz by lia.
      assert (Hp : 0 < 2 ^ Z.of_nat f) by (apply Z.pow_pos_nonneg; lia).
      assert (Hm : 0 <= z mod 10 < 10) by (apply Z.mod_pos_bound; lia).
      assert (Hdm : z = 10 * (z / 10) + z mod 10) by (apply Z.div_mod; lia).
      assert (Hq : 0 <= z / 10 < 2 ^ Z.of_nat f).
      { split.
        - apply Z.div_pos; lia.
        - apply Z.div_lt_upper_bound; lia. }
      destruct (IH (z / 10) (String (digit_char (z mod 10)) acc) Hq) as [k Hk].
      exists (k * 10). intros a. rewrite Hk, parse_digits_cons, digit_of_char by exact Hm.
      f_equal. lia.
Qed.

Definition starts_digit (s : string) : Prop :=
  match s with
  | String c _ => match digit_of c with Some _ => True | None => False end
  | EmptyString => False
  end.

Lemma show_pos_fuel_head : forall fuel z acc,
  0 <= z -> (fuel <> O \/ starts_digit acc) -> starts_digit (show_pos_fuel fuel z acc).
Proof.
  induction fuel as [|f IH]; intros z acc Hz Hor.
  - simpl. destruct Hor as [Hne|Hacc]; [congruence | exact Hacc].
  - rewrite show_pos_fuel_S. destruct (Z.ltb z 10) eqn:Elt.
    + apply Z.ltb_lt in Elt. simpl. rewrite digit_of_char by lia. exact I.
    + apply Z.ltb_ge in Elt. apply IH.
      * apply Z.div_pos; lia.
      * right. simpl. rewrite digit_of_char by (apply Z.mod_pos_bound; lia). exact I.
Qed.

Lemma parse_Z_starts_digit : forall s, starts_digit s -> parse_Z s = parse_digits s 0.
Proof.
  intros [|c r] Hs; [contradiction|].
  destruct c as [[] [] [] [] [] [] [] []]; simpl in Hs; try contradiction; reflexivity.
Qed.

Lemma fuel_enough : forall z, 0 <= z -> 0 <= z < 2 ^ Z.of_nat (S (Z.to_nat (Z.log2 z))).
Proof.
  intros z Hz. split; [exact Hz|].
  rewrite Nat2Z.inj_succ, Z2Nat.id by apply Z.log2_nonneg.
  destruct (Z.eq_dec z 0) as [Hz0|Hz0].
  - subst z. reflexivity.
  - apply Z.log2_spec. lia.
Qed.

Lemma parse_digits_show_pos : forall z, 0 <= z ->
  parse_digits (show_pos_fuel (S (Z.to_nat (Z.log2 z))) z EmptyString) 0 = Some z.
Proof.
  intros z Hz.
  destruct (parse_show_pos_fuel _ z EmptyString (fuel_enough z Hz)) as [k Hk].
  rewrite Hk. reflexivity.
Qed.

Theorem parse_show_Z : forall z, parse_Z (show_Z z) = Some z.
Proof.
  intros z. unfold show_Z. destruct (Z.ltb z 0) eqn:Elt.
  - apply Z.ltb_lt in Elt.
    assert (Hnz : 0 <= - z) by lia.
    pose proof (parse_digits_show_pos (- z) Hnz) as Hp.
    pose proof (show_pos_fuel_head (S (Z.to_nat (Z.log2 (- z)))) (- z) EmptyString Hnz
                  (or_introl (Nat.neq_succ_0 _))) as Hh.
    destruct (show_pos_fuel (S (Z.to_nat (Z.log2 (- z)))) (- z) EmptyString) as [|c r];
      [contradiction|].
    unfold parse_Z. rewrite Hp. f_equal. lia.
  - apply Z.ltb_ge in Elt.
    rewrite parse_Z_starts_digit.
    + apply parse_digits_show_pos. exact Elt.
    + apply show_pos_fuel_head; [exact Elt | left; apply Nat.neq_succ_0].
Qed.

Local Close Scope Z_scope.

(* ------------------------------------------------------------------ *)
(* part 3: values, path elements, paths *)

Lemma map_opt_map : forall (A B : Type) (enc : A -> B) (dec : B -> option A) (l : list A),
  Forall (fun x => dec (enc x) = Some x) l -> map_opt dec (map enc l) = Some l.
Proof.
  intros A B enc dec l Hl. induction Hl as [|x l Hx Hl IH]; simpl; [reflexivity|].
  rewrite Hx. simpl. rewrite IH. reflexivity.
Qed.

(* the decoder of the items of a map, as written inside [dec_value] *)
Definition dec_map_items : list sexp -> option (list (string * value)) :=
  fix go (l : list sexp) : option (list (string * value)) :=
    match l with
    | [] => Some []
    | SList [SAtom k; y] :: t => do v <- dec_value y; do r <- go t; Some ((k, v) :: r)
    | _ => None
    end.

Definition enc_kv (kv : string * value) : sexp := SList [SAtom (fst kv); enc_value (snd kv)].

Lemma dec_value_int : forall s,
  dec_value (SList [SAtom "i"%string; SAtom s]) = bind (parse_Z s) (fun z => Some (VInt z)).
Proof. reflexivity. Qed.

Lemma dec_value_float : forall n d,
  dec_value (SList [SAtom "d"%string; SAtom n; SAtom d]) =
  bind (parse_Z n) (fun n => bind (parse_Z d) (fun d =>
    match d with Zpos p => Some (VFloat (Qmake n p)) | _ => None end)).
Proof. reflexivity. Qed.

Lemma dec_value_str : forall s, dec_value (SList [SAtom "s"%string; SAtom s]) = Some (VStr s).
Proof. reflexivity. Qed.

(* the decoder of the items of a list, as written inside [dec_value] *)
Definition dec_list_items : list sexp -> option (list value) :=
  fix go (l : list sexp) : option (list value) :=
    match l with
    | [] => Some []
    | y :: t => do v <- dec_value y; do r <- go t; Some (v :: r)
    end.

Lemma dec_list_items_map_opt : forall items, dec_list_items items = map_opt dec_value items.
Proof.
  induction items as [|y t IH]; [reflexivity|].
  simpl. rewrite <- IH. reflexivity.
Qed.

Lemma dec_value_list : forall items,
  dec_value (SList (SAtom "l"%string :: items)) = bind (map_opt dec_value items) (fun l => Some (VList l)).
Proof.
  intros items. rewrite <- dec_list_items_map_opt. reflexivity.
Qed.

Lemma dec_value_map : forall items,
  dec_value (SList (SAtom "m"%string :: items)) = bind (dec_map_items items) (fun l => Some (VMap l)).
Proof. reflexivity. Qed.

Lemma dec_map_items_cons : forall k y t,
  dec_map_items (SList [SAtom k; y] :: t) =
  bind (dec_value y) (fun v => bind (dec_map_items t) (fun r => Some ((k, v) :: r))).
Proof. reflexivity. Qed.

Lemma enc_value_list : forall l, enc_value (VList l) = SList (SAtom "l"%string :: map enc_value l).
Proof. reflexivity. Qed.

Lemma enc_value_map : forall m, enc_value (VMap m) = SList (SAtom "m"%string :: map enc_kv m).
Proof. reflexivity. Qed.

Theorem dec_enc_value : forall v, dec_value (enc_value v) = Some v.
Proof.
  induction v as [|b|z|q|str|l IHl|m IHm] using value_ind'.
  - reflexivity.
  - destruct b; reflexivity.
  - change (enc_value (VInt z)) with (SList [SAtom "i"%string; SAtom (show_Z z)]).
    rewrite dec_value_int, parse_show_Z. reflexivity.
  - change (enc_value (VFloat q)) with
      (SList [SAtom "d"%string; SAtom (show_Z (Qnum q)); SAtom (show_Z (Zpos (Qden q)))]).
    rewrite dec_value_float, !parse_show_Z. destruct q as [qn qd]. reflexivity.
  - change (enc_value (VStr str)) with (SList [SAtom "s"%string; SAtom str]).
    apply dec_value_str.
  - rewrite enc_value_list, dec_value_list, (map_opt_map _ _ enc_value dec_value l IHl). reflexivity.
  - rewrite enc_value_map, dec_value_map.
    assert (Hitems : dec_map_items (map enc_kv m) = Some m).
    { induction IHm as [|[k x] m Hx Hm IH]; [reflexivity|].
      simpl in Hx. change (map enc_kv ((k, x) :: m)) with (SList [SAtom k; enc_value x] :: map enc_kv m).
      rewrite dec_map_items_cons, Hx. simpl. rewrite IH. reflexivity. }
    rewrite Hitems. reflexivity.
Qed.

Lemma dec_kv_eq : forall k y, dec_kv (SList [SAtom k; y]) = bind (dec_value y) (fun v => Some (k, v)).
Proof. reflexivity. Qed.

Lemma dec_enc_kv : forall kv, dec_kv (enc_kv kv) = Some kv.
Proof.
  intros [k v]. unfold enc_kv. rewrite dec_kv_eq. simpl. rewrite dec_enc_value. reflexivity.
Qed.

Lemma dec_pe_key : forall kvs,
  dec_pe (SList (SAtom "K"%string :: kvs)) = bind (map_opt dec_kv kvs) (fun l => Some (PEKey l)).
Proof. reflexivity. Qed.

Lemma dec_pe_value : forall y,
  dec_pe (SList [SAtom "V"%string; y]) = bind (dec_value y) (fun v => Some (PEValue v)).
Proof. reflexivity. Qed.

Lemma dec_pe_index : forall s,
  dec_pe (SList [SAtom "I"%string; SAtom s]) = bind (parse_Z s) (fun z => Some (PEIndex z)).
Proof. reflexivity. Qed.

Theorem dec_enc_pe : forall e, dec_pe (enc_pe e) = Some e.
Proof.
  intros [n|k|v|i].
  - reflexivity.
  - change (enc_pe (PEKey k)) with (SList (SAtom "K"%string :: map enc_kv k)).
    rewrite dec_pe_key, (map_opt_map _ _ enc_kv dec_kv k); [reflexivity|].
    apply Forall_of_all. exact dec_enc_kv.
  - change (enc_pe (PEValue v)) with (SList [SAtom "V"%string; enc_value v]).
    rewrite dec_pe_value, dec_enc_value. reflexivity.
  - change (enc_pe (PEIndex i)) with (SList [SAtom "I"%string; SAtom (show_Z i)]).
    rewrite dec_pe_index, parse_show_Z. reflexivity.
Qed.

Theorem dec_enc_path : forall p, dec_path (enc_path p) = Some p.
Proof.
  intros p. unfold enc_path.
  change (dec_path (SList (SAtom "p"%string :: map enc_pe p))) with (map_opt dec_pe (map enc_pe p)).
  apply map_opt_map. apply Forall_of_all. exact dec_enc_pe.
Qed.

(* ------------------------------------------------------------------ *)
