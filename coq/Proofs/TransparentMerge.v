(* Helper of Proofs/Transparent.v, level 2: what the merged object of an Apply inherits from
   its operands.
     - [merge_keeps]: merging a plain configuration into an object without an empty list
       gives an object without an empty list; merging a duplicate-free configuration into a
       duplicate-free object gives a duplicate-free object ([conforms .. false]);
   the proof follows the walker with the descent lemmas of Proofs/MergeDescent.v: a merged
   list is an interleaving of the merged right-hand members and the left-only members, so
   every path element occurs at most once in it when it does in the two operands. *)
From Coq Require Import List ZArith String Bool Arith Lia.
From SMD Require Import Model.Value Model.Order Model.PathElem Model.PathSet Model.Schema
  Model.Walk Model.Merge Spec.PathsAsSets Spec.RefValid Spec.Resolve Spec.Agree
  Proofs.OrderLaws Proofs.KeyLaws Proofs.PathSetLaws Proofs.SchemaOk Proofs.MergeLaws.
From SMD Require Import Proofs.FieldSetBase Proofs.FieldSetPaths Proofs.ResolveLaws
  Proofs.PesLaws Proofs.MergeBase Proofs.MergeLoop Proofs.MergeWalk Proofs.MergeConf
  Proofs.MergeInter Proofs.MergeVeqb Proofs.MergeDescent Proofs.MergeAgree.
From SMD Require Proofs.ExtractLaws Proofs.Visible.
Import ListNotations.
Open Scope bool_scope.

Notation no_empty_list := Visible.no_empty_list.

(* ================= occurrences and distinctness ================= *)

(* if no path element occurs twice among the members, the path elements are distinct *)
Lemma occ_all_distinct : forall s t l, forallb (has_pe s t) l = true -> items_wf s t l ->
  (forall e, wf_pe e = true -> (2 <=? List.length (occ s t e l)) = false) ->
  all_distinct (pes_of s t l) = true.
Proof.
  intros s t l. induction l as [|x l IH]; intros Hhp Hiw Hocc; [reflexivity|].
  cbn [forallb] in Hhp. apply andb_true_iff in Hhp. destruct Hhp as [Hx Hhp].
  pose proof (items_wf_cons _ _ _ _ Hiw) as [Hwx Hiw'].
  unfold has_pe in Hx. destruct (list_item_to_pe s t x) as [ex|] eqn:Ex; [|discriminate].
  assert (Hwex : wf_pe ex = true) by (apply Hwx; reflexivity).
  unfold pes_of. cbn [flat_map]. rewrite Ex. cbn [app]. fold (pes_of s t l).
  cbn [all_distinct]. apply andb_true_iff. split.
  - apply negb_true_iff. destruct (existsb (peeqb ex) (pes_of s t l)) eqn:Eex; [|reflexivity]. exfalso.
    apply existsb_exists in Eex. destruct Eex as (ey & Hin & Heq).
    destruct (pes_of_in s t l ey Hin) as (y & Hy & Hpey).
    assert (Hwey : wf_pe ey = true) by (apply (Hiw' y ey Hy Hpey)).
    pose proof (Hocc ex Hwex) as H2. rewrite occ_cons in H2. unfold pe_matches at 1 in H2.
    rewrite Ex, (peeqb_refl ex Hwex) in H2.
    assert (Hyo : In y (occ s t ex l)).
    { apply In_occ; [exact Hy|]. unfold pe_matches. rewrite Hpey.
      rewrite (peeqb_sym ey ex Hwey Hwex). exact Heq. }
    destruct (occ s t ex l); [destruct Hyo|]. cbn in H2. discriminate.
  - apply IH; auto. intros e He. pose proof (Hocc e He) as H2. rewrite occ_cons in H2.
    destruct (pe_matches s t e x); [|exact H2].
    cbn [List.length] in H2. destruct (occ s t e l) as [|a [|b r]]; try reflexivity.
    cbn in H2. discriminate.
Qed.

Lemma plain_nel : forall v, plain v = true -> no_empty_list v = true.
Proof.
  intros v. induction v as [|b|z|q0|str|l IHl|m IHm] using value_ind'; intros H; try reflexivity.
  - destruct l as [|x l]; [discriminate|].
    change (forallb plain (x :: l) = true) in H.
    change (forallb no_empty_list (x :: l) = true).
    rewrite forallb_forall in *. rewrite Forall_forall in IHl. intros y Hy. apply IHl; auto.
  - destruct m as [|kv m]; [discriminate|].
    change (forallb (fun kv => plain (snd kv)) (kv :: m) = true) in H.
    change (forallb (fun kv => no_empty_list (snd kv)) (kv :: m) = true).
    rewrite forallb_forall in *. rewrite Forall_forall in IHm. intros y Hy. apply IHm; auto.
Qed.

Lemma nel_list_of : forall l, l <> [] -> forallb no_empty_list l = true -> no_empty_list (VList l) = true.
Proof. intros [|x l] Hne H; [congruence|exact H]. Qed.

Lemma nel_list_in : forall l x, no_empty_list (VList l) = true -> In x l -> no_empty_list x = true.
Proof.
  intros l x H Hx. destruct l as [|y l]; [destruct Hx|].
  change (forallb no_empty_list (y :: l) = true) in H. rewrite forallb_forall in H. auto.
Qed.

Lemma nel_map_in : forall m k c, no_empty_list (VMap m) = true -> In (k, c) m -> no_empty_list c = true.
Proof.
  intros m k c H Hx. change (forallb (fun kv => no_empty_list (snd kv)) m = true) in H.
  rewrite forallb_forall in H. apply (H (k, c) Hx).
Qed.

Definition onel (o : option value) : Prop :=
  match o with Some v => no_empty_list v = true | None => True end.
Definition oplain (o : option value) : Prop :=
  match o with Some v => plain v = true | None => True end.

Lemma onel_dm : forall o k, onel o -> onel (assoc_get k (dm o)).
Proof.
  intros o k H. destruct (assoc_get k (dm o)) as [x|] eqn:E; [|exact I].
  apply assoc_get_in in E. destruct o as [[| | | | |l|m]|]; simpl in E; try destruct E.
  apply (nel_map_in m k x H E).
Qed.

Lemma oplain_dm : forall o k, oplain o -> oplain (assoc_get k (dm o)).
Proof.
  intros o k H. destruct (assoc_get k (dm o)) as [x|] eqn:E; [|exact I].
  apply assoc_get_in in E. destruct o as [[| | | | |l|m]|]; simpl in E; try destruct E.
  apply (plain_map_in m k x H E).
Qed.

Lemma onel_dl : forall o x, onel o -> In x (dl o) -> no_empty_list x = true.
Proof.
  intros o x H Hin. destruct o as [[| | | | |l|m]|]; simpl in Hin; try destruct Hin.
  apply (nel_list_in l x H Hin).
Qed.

Lemma oplain_dl : forall o x, oplain o -> In x (dl o) -> plain x = true.
Proof.
  intros o x H Hin. destruct o as [[| | | | |l|m]|]; simpl in Hin; try destruct Hin.
  apply (plain_list_in l x H Hin).
Qed.

Lemma conforms_null_dup : forall s tr d1 d2, conforms s tr d1 VNull = conforms s tr d2 VNull.
Proof. intros s tr d1 d2. rewrite !conforms_unf. destruct (resolve s tr) as [[sc li ma]|]; reflexivity. Qed.

(* ================= the merged object ================= *)

Section Keeps.
  Variables (s : schema) (R : typeref -> Prop).
  Hypothesis Hok : schema_ok s R.
  Hypothesis Hfam : family_refs s R.

  Lemma keeps_w : forall f tr lo ro out, R tr -> odepth lo + odepth ro < f ->
    oconf s tr true lo -> oconf s tr false ro -> (lo <> None \/ ro <> None) ->
    merge_w f s tr lo ro = (false, Some out) ->
    (onel lo -> oplain ro -> no_empty_list out = true) /\
    (oconf s tr false lo -> conforms s tr false out = true).
  Proof.
    induction f as [|f IH]; intros tr lo ro out HR Hd Hcl Hcr Hsome Hm; [lia|].
    destruct (merge_conf_w s R Hok Hfam (S f) tr lo ro out HR Hd Hcl Hcr Hm) as (Hco & Hwo & _).
    destruct ro as [r|].
    2:{ destruct lo as [l|]; [|destruct Hsome; congruence].
        destruct Hcl as [Hcl Hwl].
        rewrite (merge_absent_right s R Hok Hfam (S f) tr l HR) in Hm; auto; [|simpl in Hd; lia].
        inversion Hm; subst out. split; [intros H _; exact H|intros [H _]; exact H]. }
    destruct Hcr as [Hcr Hwr].
    destruct (merge_cases f s tr false lo r out Hcr Hm)
      as [Heq|[(a & mt & Hr & Hmt & Hna & Hne & Hshape & Hmm & Hhm)|(a & t & Hr & Hlt & Hna & Hne & Hshape & Hml & Hhl)]].
    - subst out. split; [intros _ Hp; apply plain_nel; exact Hp|intros _; exact Hcr].
    - (* granular map *)
      destruct (map_descent s R Hok Hfam f tr a mt lo (Some r) out HR Hr Hmt Hd Hcl
                  (conj Hcr Hwr) Hna Hne Hmm) as (g & Hout & Hkne & Hg).
      set (keys := keys_union (map fst (dm lo)) (map fst (dm (Some r)))) in *.
      assert (Hsub : forall k, In k keys ->
                (onel lo -> oplain (Some r) -> no_empty_list (g k) = true) /\
                (oconf s tr false lo -> conforms s (field_type mt k) false (g k) = true)).
      { intros k Hk.
        destruct (map_sub s R Hok f tr a mt lo (Some r) k HR Hr Hmt Hd Hcl (conj Hcr Hwr) Hne Hk)
          as (H1 & H2 & H3 & H4 & H5).
        destruct (IH (field_type mt k) _ _ (g k) H1 H2 H3 H4 H5 (Hg k Hk)) as [Hn Hc].
        split.
        - intros Hnl Hpl. apply Hn; [apply onel_dm; exact Hnl|apply oplain_dm; exact Hpl].
        - intros Hcf. apply Hc. apply (oconf_dm s tr false a mt lo k Hr Hmt Hcf). }
      subst out. split.
      + intros Hnl Hpl. change (forallb (fun kv => no_empty_list (snd kv)) (map (fun k => (k, g k)) keys) = true).
        apply forallb_forall. intros [k x] Hin. apply in_map_iff in Hin.
        destruct Hin as (k' & E & Hk). inversion E; subst k' x. cbn [snd].
        apply (proj1 (Hsub k Hk) Hnl Hpl).
      + intros Hcf. rewrite conforms_unf, Hr. destruct a as [sc li ma]. simpl in Hmt. subst ma.
        unfold conf_fields. apply forallb_forall. intros [k x] Hin. apply in_map_iff in Hin.
        destruct Hin as (k' & E & Hk). inversion E; subst k' x. cbn [fst snd].
        apply (proj2 (Hsub k Hk) Hcf).
    - (* granular list *)
      pose proof (list_rel_assoc t (Hfam tr a t HR Hr Hlt) Hna) as Hrel.
      destruct (list_descent s R Hok Hfam f tr a t lo (Some r) out HR Hr Hlt Hd Hcl
                  (conj Hcr Hwr) Hna Hne Hml) as (gR & tl & Hout & Htlne & Hil & HgR).
      destruct (list_descent_items s R Hok Hfam f tr a t lo (Some r) gR tl HR Hr Hlt Hd Hcl
                  (conj Hcr Hwr) Hrel Hil HgR) as (Hitems & HA).
      set (rl := dl (Some r)) in *.
      destruct (oconf_dl s tr a t true lo Hr Hlt Hrel Hcl) as (HpeL & HallL & HwL & _).
      destruct (oconf_dl s tr a t false (Some r) Hr Hlt Hrel (conj Hcr Hwr)) as (HpeR & HallR & HwR & HdisR).
      specialize (HdisR eq_refl). fold rl in HpeR, HallR, HwR, HdisR.
      pose proof (elem_ok s R Hok tr a t HR Hr Hlt) as Helem.
      pose proof (so_list s R Hok tr a t HR Hr Hlt) as HRelem.
      assert (HwfpeL : forall e, In e (pes_of s t (dl lo)) -> wf_pe e = true) by (apply pes_of_wf; auto).
      assert (HwfpeR : forall e, In e (pes_of s t rl) -> wf_pe e = true) by (apply pes_of_wf; auto).
      (* a merged right-hand member *)
      assert (HsubR : forall e, In e (pes_of s t rl) ->
                (onel lo -> oplain (Some r) -> no_empty_list (gR e) = true) /\
                (oconf s tr false lo -> conforms s (list_elem t) false (gR e) = true)).
      { intros e He. destruct (HA e He) as (c & Hinc & Hpec & Hlf & Hcc & Hwc & _ & _).
        destruct (obsL_ok s tr a t lo e Hr Hlt Hrel Hcl) as (Ho1 & Ho2 & _).
        pose proof (dl_depth_in (Some r) c Hinc) as Hdc.
        pose proof (HgR e He) as Hme. fold rl in Hme. rewrite Hlf in Hme.
        assert (Hdd : odepth (obsL s t (dl lo) e) + odepth (Some c) < f) by (simpl in *; lia).
        assert (Hsx : obsL s t (dl lo) e <> None \/ Some c <> None) by (right; discriminate).
        destruct (IH (list_elem t) _ _ (gR e) HRelem Hdd Ho1 (conj Hcc Hwc) Hsx Hme) as [Hn Hc].
        split.
        - intros Hnl Hpl. apply Hn; [|apply (oplain_dl (Some r) c Hpl Hinc)].
          destruct (obsL s t (dl lo) e) as [v|] eqn:Ev; [|exact I].
          destruct (obsL_cases s t (dl lo) e v Ev) as [[-> _]|(_ & Hinv & _)]; [reflexivity|].
          apply (onel_dl lo v Hnl Hinv).
        - intros Hcf. apply Hc.
          destruct (oconf_dl s tr a t false lo Hr Hlt Hrel Hcf) as (_ & HallL' & _ & _).
          destruct (obsL s t (dl lo) e) as [v|] eqn:Ev; [|exact I].
          destruct (obsL_cases s t (dl lo) e v Ev) as [[-> _]|(_ & Hinv & _)].
          + destruct Ho1 as [Hcn Hwn]. split; [|exact Hwn].
            rewrite (conforms_null_dup s (list_elem t) false true). exact Hcn.
          + split; [rewrite forallb_forall in HallL'; apply HallL'; exact Hinv|].
            rewrite forallb_forall in HwL. apply HwL. exact Hinv. }
      (* every member of the merged list *)
      assert (Hmem : forall x, In x (map snd tl) ->
                (exists e, In e (pes_of s t rl) /\ x = gR e) \/ In x (dl lo)).
      { intros x Hx. apply in_map_iff in Hx. destruct Hx as ([e0 y] & <- & Hin). cbn [snd].
        apply (interleave_in _ _ _ _ (e0, y) Hil) in Hin. destruct Hin as [Hin|Hin].
        - left. apply in_map_iff in Hin. destruct Hin as (e & E & He). inversion E; subst e0 y.
          exists e. auto.
        - right. apply filter_In in Hin. destruct Hin as [Hin _].
          apply (ipairs_in s t _ e0 y Hin). }
      subst out. split.
      + intros Hnl Hpl. apply nel_list_of; [apply map_snd_nonempty; exact Htlne|].
        apply forallb_forall. intros x Hx. destruct (Hmem x Hx) as [(e & He & ->)|Hin].
        * apply (proj1 (HsubR e He) Hnl Hpl).
        * apply (onel_dl lo x Hnl Hin).
      + intros Hcf.
        destruct (oconf_dl s tr a t false lo Hr Hlt Hrel Hcf) as (_ & HallL' & _ & HdisL).
        specialize (HdisL eq_refl).
        destruct (conf_list_assoc s tr a t true (map snd tl) Hr Hlt Hrel Hco) as (HpeO & _ & _).
        rewrite conforms_unf, Hr. destruct a as [sc li ma]. simpl in Hlt. subst li.
        rewrite Hrel, HpeO. cbn [andb orb].
        apply andb_true_iff. split.
        * apply forallb_forall. intros x Hx. destruct (Hmem x Hx) as [(e & He & ->)|Hin].
          -- apply (proj2 (HsubR e He) Hcf).
          -- rewrite forallb_forall in HallL'. apply HallL'. exact Hin.
        * assert (HwO : forallb wf_value (map snd tl) = true) by exact Hwo.
          apply occ_all_distinct; [exact HpeO| |].
          -- apply (items_wf_of s R Hok tr (Atom sc (Some t) ma) t (map snd tl) HR Hr eq_refl HwO).
          -- intros e He.
             destruct (lfind s t e rl) as [x|] eqn:Elf.
             ++ apply lfind_some in Elf. destruct Elf as [e' [Hin' Hee']].
                assert (Hine' : In e' (pes_of s t rl)).
                { rewrite <- ipairs_fst. apply in_map_iff. exists (e', x). auto. }
                pose proof (HwfpeR e' Hine') as He'.
                assert (He'e : peeqb e' e = true) by (rewrite (peeqb_sym e' e He' He); exact Hee').
                rewrite (occ_R s t (dl lo) rl gR tl HwfpeL HwfpeR HdisR Hil Hitems e e' He Hine' He'e).
                reflexivity.
             ++ rewrite (occ_L s t (dl lo) rl gR tl HwfpeL HwfpeR Hil Hitems e He Elf).
                apply (ExtractLaws.distinct_occ s t (dl lo) e HdisL); [|exact He].
                apply (items_wf_of s R Hok tr (Atom sc (Some t) ma) t (dl lo) HR Hr eq_refl HwL).
  Qed.

  Theorem merge_keeps : forall tr l r out, R tr -> wf_value l = true -> wf_value r = true ->
    conforms s tr true l = true -> conforms s tr false r = true ->
    merge s tr l r = Some (Some out) ->
    (no_empty_list l = true -> plain r = true -> no_empty_list out = true) /\
    (conforms s tr false l = true -> conforms s tr false out = true).
  Proof.
    intros tr l r out HR Hwl Hwr Hcl Hcr Hm. unfold merge in Hm.
    destruct (merge_w (merge_fuel l r) s tr (Some l) (Some r)) as [e o] eqn:E.
    destruct e; [discriminate|]. inversion Hm; subst o.
    destruct (keeps_w (merge_fuel l r) tr (Some l) (Some r) out HR) as [Hn Hc]; auto.
    - unfold merge_fuel. simpl. lia.
    - split; assumption.
    - split; assumption.
    - left. discriminate.
    - split; [exact Hn|]. intros H. apply Hc. split; assumption.
  Qed.
End Keeps.
