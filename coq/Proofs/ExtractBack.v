(* C07, first sentence, second half: "... and so does applying back what was extracted from
   the object for a manager's owned fields".  At a state satisfying the invariant of
   Proofs/History.v, extract from the live object the leaves of a manager's record with the
   key fields that locate them (ExtractItems(WithAppendKeyFields)) and apply the extract
   back under the same manager, without force: it succeeds, changes no field and no record.

   Statements: Proofs/ExtractBack_statements.v.  THE STATEMENT FOR ARBITRARY STATES IS FALSE AS
   WRITTEN; THE STATEMENT ALONG HISTORIES HOLDS WITH ONE ADDED HYPOTHESIS (validity of the extract).

   0. HISTORY (finding F27, repaired).  Before the repair of the extracting walker
      (typed/remove.go) both statements were refuted at a REACHABLE state.  Schema: a map whose
      entries are maps of numbers (no declared fields).  "a" applies {mmm: {k: {k: 5}}} and owns
      mmm.k (the key k of the outer map is not a declared field, so the field set records the
      entry itself) and mmm.k.k; "b" updates mmm.k.k to 6 and takes it over.  "a" now owns the
      entry mmm.k alone -- a LEAF OF THE RECORD THAT IS NOT A LEAF OF THE OBJECT.  The walker, on
      a map entry that is itself selected, recursed into the entry WITH THE SELECTION OF THE
      PARENT LEVEL: the selection {k} was looked up again inside the entry, found the inner
      field of the same name, and the extract was {mmm: {k: {k: 6}}}: plain, valid, applied back
      it made "a" co-owner of mmm.k.k.  The walker now descends with the selection BENEATH the
      entry (Model/Remove.v follows it): the extract on that witness is {mmm: {k: null}}
      [former_witness_extract], which is not plain, so the statements say nothing there (and
      applying that extract back changes no record, by evaluation [former_witness_apply_back]).
      The two theorems [.._as_stated_refuted] that stated the refutation are gone: they are no
      longer provable.
      More generally [ExtractBackSet.plain_extract_leaves_are_leaves]: with the repaired walker a
      leaf of the record that designates a granular node of the object is extracted as null
      (nothing is selected beneath it; the key fields ExtractItems adds cannot be what lies
      beneath it because the record holds the key fields of a member with the member
      [key_sync]), so IF THE EXTRACT IS A PLAIN VALID OBJECT, EVERY LEAF OF THE RECORD DESIGNATES A
      LEAF OF THE OBJECT.  The former hypothesis (i) [leaves_are_leaves] of the theorems below
      has therefore been DROPPED: it follows from the given hypothesis [plain ext] (and validity).
   1. The statement for arbitrary states satisfying [state_ok] is false for a harmless
      reason [extract_apply_back_needs_prefix_closed]: [state_ok] does not mention the flag
      [mr_applied] [state_ok_set_applied], so the record of an UPDATER with the flag set
      satisfies it; such a record may hold a field of a list member without the member
      (items[y].vv without items[y]); the extract spells out the member and its key, and the
      record grows by them.  No such state is reachable [reachable_applied_closed]: not an
      implementation issue.

   REPAIR.  Two conditions on the record S (Proofs/ExtractBackSet.v):
     (ii)  [prefix_closed]      S holds, with a member, every prefix of it that ends in a list
                                member or in a map key that is not a declared field;
     (iii) [interior_class]     a member of S with another member beneath it is such a path;
   and one on the extract: [conforms .. false ext] (the extract is a valid configuration; the
   given statement only says it is plain).  (ii) and (iii) speak of S and the schema only.
   ((i) [leaves_are_leaves]: every leaf of S designates a leaf of the live object -- no longer a
   hypothesis, see 0.; the definition and its checker [leaves_check] remain, they are used in
   [extract_apply_back_needs_prefix_closed].)
     [extract_apply_back]                  the statement + (ii) (iii) + validity of ext
     [extract_apply_back_along_histories]  the statement + validity of ext ONLY: (ii) and
                                           (iii) hold of every record last written by an Apply at
                                           every reachable state [reachable_applied_closed]
     [extract_apply_back_general], [.._along_histories_general]  the same for both values of
                                           [cfg_return_input_on_noop] (the statements assume false)
     [extract_apply_back_core]             (Proofs/ExtractBackCore.v) instead of (ii)-(iii): the
                                           field set of the extract is the record
     [extract_apply_back_record_condition_necessary]  that last hypothesis is NECESSARY (given
                                           the others): it is the weakest one; (ii)-(iii) are what
                                           makes it true [ExtractBackSet.extract_field_set_plain]
   WEAKEST?  - "field set of ext = record" is necessary and sufficient (previous line).
     - [mr_applied r = true] is necessary (the new record carries the flag; an updater's record
       fails (ii), see 1.).
     - (ii) cannot be dropped from [extract_apply_back]: [extract_apply_back_needs_prefix_closed]
       satisfies every other hypothesis, (i), (iii) and validity of the extract included.
     - validity of the extract: NOT known to be necessary; it is what [op_ok] asks of a
       configuration, and the theorems about Apply this proof rests on assume [op_ok].
       [dup_free] (Spec/Resolve.v) does not look inside atomic lists and maps: an atomic value
       with duplicate members of a nested list is copied into the extract, which then is
       not valid in the sense of [op_ok] although the apply goes through; so validity does
       not follow from the other hypotheses in general (this remark is not formalised).
       Not proved here: the theorem without it.
   UNUSED HYPOTHESES: none of the given ones ([dup_free] is used: the merge of the extract
   into the object gives the object back only for an object without duplicate members).

   Proof.  Proofs/ExtractBackMerge.v  merging the extract into the object gives the object
   back, syntactically [merge_extract_fixed]; ExtractBackNodes.v  the nodes of an extraction
   from an object that need not be plain; ExtractBackSet.v  the field set of the extract is
   the record; ExtractBackCore.v  the prune stage removes nothing when the previous record
   lies within the field set of the configuration, the comparison of the object with itself
   reports nothing, so no conflict and no record changes (generalising Reapply.second_apply);
   ExtractBackInv.v  (ii) and (iii) along histories; ExtractBackDup.v  facts about [dup_free].
   Compile in this order: ExtractBackDup, ExtractBackMerge, ExtractBackNodes, ExtractBackSet,
   ExtractBackCore, ExtractBackInv, ExtractBack.

   Non-vacuity: [extract_back_example] (the history of Proofs/History.v, manager "a", whose
   record lost a field of its list member to another manager: every hypothesis holds, the
   conclusion by the theorem and by evaluation). *)
From Coq Require Import List ZArith String Bool Arith Lia.
From SMD Require Import Model.Value Model.Order Model.PathElem Model.PathSet Model.Schema Model.Walk
  Model.Validate Model.FieldSet Model.Remove Model.Merge Model.Compare Model.Matcher Model.Reconcile
  Model.Updater
  Spec.PathsAsSets Spec.RefValid Spec.Resolve Spec.Agree Spec.RefDiff Spec.Examples
  Proofs.OrderLaws Proofs.PathSetLaws Proofs.SchemaOk Proofs.FieldSetBase Proofs.FieldSetPaths
  Proofs.FieldSetWf Proofs.FieldSetLaws Proofs.RemoveAbsent Proofs.RemoveWf Proofs.ResolveLaws
  Proofs.UpdaterLaws Proofs.UpdaterLaws2 Proofs.MergeLaws Proofs.MergeAgree
  Proofs.RemoveFrame Proofs.EnLaws Proofs.NodeSet Proofs.KeyFields Proofs.VeqbResolve
  Proofs.SetCheckers Proofs.ApplyEffect Proofs.RefDiffBoth Proofs.RefDiffLaws Proofs.RefDiffPresent
  Proofs.ApplyInv Proofs.History Proofs.Reapply.
From SMD Require Import Proofs.CompareLaws Proofs.KeySync Proofs.PartSel
  Proofs.ExtractBackDup Proofs.ExtractBackMerge Proofs.ExtractBackNodes Proofs.ExtractBackSet
  Proofs.ExtractBackCore Proofs.ExtractBackInv.
From SMD Require Proofs.MergeBase.
Import ListNotations.
Open Scope bool_scope.
Open Scope list_scope.

Local Arguments ps_has : simpl never.
Local Arguments ps_empty : simpl never.

Section ExtractBack.
  Variables (c : config) (R : typeref -> Prop) (ver : string).
  Let s := schema_of c ver.
  Let tr := tr_of c ver.

  (* Both values of the option [cfg_return_input_on_noop].
     CHANGED after the F27 repair: the hypothesis (i) [leaves_are_leaves s tr live (mr_set r)]
     has been dropped here and in the three theorems below; it follows from the other
     hypotheses [ExtractBackSet.plain_extract_leaves_are_leaves]. *)
  Theorem extract_apply_back_general : forall live mf mgr r,
    setting_ok c R ver -> state_ok c ver live mf ->
    dup_free s tr live = true ->
    mf_get mgr mf = Some r -> mr_applied r = true ->
    let ext := extract s tr true live (ps_leaves (mr_set r)) in
    plain ext = true -> conforms s tr false ext = true ->
    prefix_closed s tr (mr_set r) -> interior_class s tr (mr_set r) ->
    exists mf'',
      apply_op c (ver, live) (ver, ext) ver mf mgr false =
        UOk ((if cfg_return_input_on_noop c then Some (ver, live) else None), mf'') /\
      same_records mf mf''.
  Proof.
    intros live mf mgr r Hset Hst Hdf Hget Happl ext Hpl Hcx Hclosed Hcls.
    pose proof Hset as (Hni & Hcid & Hok & Hfam & Hpure & Htr & Hkp). fold s tr in Hok, Hfam, Hpure, Htr, Hkp.
    pose proof Hkp as [Hnd Hks].
    pose proof (so_wf c ver live mf Hst) as Hwl.
    destruct (live_valid_granular c ver live mf mgr r Hst Hget) as [Hcl _]. fold s tr in Hcl.
    destruct (state_ok_sync c ver live mf mgr r Hst Hget) as [Hpres Hsync]. fold s tr in Hpres, Hsync.
    pose proof (mf_ok_get mf mgr r (so_mf c ver live mf Hst) Hget) as Hrok.
    destruct (extract_as_remove_items s tr true live (ps_leaves (mr_set r))) as (T & ET). fold ext in ET.
    assert (Hwx : wf_value ext = true) by (rewrite ET; apply remove_items_wf; exact Hwl).
    destruct (to_field_set_ok_family s R tr ext Hok Htr Hfam Hwx (MergeBase.conforms_dup_mono s ext tr Hcx))
      as (set0 & Eset0 & _).
    pose proof (extract_field_set_plain s R tr live (mr_set r) set0 Hok Hfam Hnd Hks Htr Hwl Hcl Hdf Hrok
                  Hpres Hsync Hclosed Hcls Hpl Hcx Eset0) as Heq.
    apply (extract_apply_back_core c R ver live mf mgr r set0 Hset Hst Hdf Hget Happl Hpl Hcx Eset0 Heq).
  Qed.

  (* The statement of Proofs/ExtractBack_statements.v, with THREE added hypotheses (marked):
     the extract is a valid configuration, and (ii) (iii) of the header.  Without (ii) the
     statement is false at unreachable states.
     CHANGED after the F27 repair: (i) [leaves_are_leaves s tr live (mr_set r)] dropped. *)
  Theorem extract_apply_back : forall live mf mgr r,
    setting_ok c R ver -> state_ok c ver live mf ->
    dup_free s tr live = true ->
    cfg_return_input_on_noop c = false ->
    mf_get mgr mf = Some r -> mr_applied r = true ->
    let ext := extract s tr true live (ps_leaves (mr_set r)) in
    plain ext = true ->
    conforms s tr false ext = true ->                (* added *)
    prefix_closed s tr (mr_set r) ->                  (* added: (ii) *)
    interior_class s tr (mr_set r) ->                 (* added: (iii) *)
    exists mf'',
      apply_op c (ver, live) (ver, ext) ver mf mgr false = UOk (None, mf'') /\
      same_records mf mf''.
  Proof.
    intros live mf mgr r Hset Hst Hdf Hflag Hget Happl ext Hpl Hcx Hclosed Hcls.
    destruct (extract_apply_back_general live mf mgr r Hset Hst Hdf Hget Happl Hpl Hcx Hclosed Hcls)
      as (mf'' & H & Hs).
    fold ext in H. rewrite Hflag in H. exists mf''. split; assumption.
  Qed.

  (* at every state of every history: (ii) and (iii) are invariants.
     CHANGED after the F27 repair: (i) [leaves_are_leaves ..] dropped. *)
  Theorem extract_apply_back_along_histories_general : forall ops mgr r,
    setting_ok c R ver -> Forall (op_ok c ver) ops ->
    dup_free s tr (fst (run c ver ops)) = true ->
    mf_get mgr (snd (run c ver ops)) = Some r -> mr_applied r = true ->
    let ext := extract s tr true (fst (run c ver ops)) (ps_leaves (mr_set r)) in
    plain ext = true -> conforms s tr false ext = true ->
    exists mf'',
      apply_op c (ver, fst (run c ver ops)) (ver, ext) ver (snd (run c ver ops)) mgr false =
        UOk ((if cfg_return_input_on_noop c then Some (ver, fst (run c ver ops)) else None), mf'') /\
      same_records (snd (run c ver ops)) mf''.
  Proof.
    intros ops mgr r Hset Hall Hdf Hget Happl ext Hpl Hcx.
    destruct (reachable_applied_closed c R ver ops Hset Hall mgr r Hget Happl) as [Hclosed Hcls].
    apply (extract_apply_back_general (fst (run c ver ops)) (snd (run c ver ops)) mgr r Hset
             (reachable_states_ok c R ver ops Hset Hall) Hdf Hget Happl Hpl Hcx Hclosed Hcls).
  Qed.

  (* The statement of Proofs/ExtractBack_statements.v, with ONE added hypothesis (marked).
     CHANGED after the F27 repair: the second added hypothesis, (i)
     [leaves_are_leaves s tr (fst (run c ver ops)) (mr_set r)], has been dropped: with the
     repaired walker it follows from [plain ext] and the validity of the extract. *)
  Theorem extract_apply_back_along_histories : forall ops mgr r,
    setting_ok c R ver -> Forall (op_ok c ver) ops ->
    dup_free s tr (fst (run c ver ops)) = true ->
    cfg_return_input_on_noop c = false ->
    mf_get mgr (snd (run c ver ops)) = Some r -> mr_applied r = true ->
    let ext := extract s tr true (fst (run c ver ops)) (ps_leaves (mr_set r)) in
    plain ext = true ->
    conforms s tr false ext = true ->                               (* added *)
    exists mf'',
      apply_op c (ver, fst (run c ver ops)) (ver, ext) ver (snd (run c ver ops)) mgr false = UOk (None, mf'') /\
      same_records (snd (run c ver ops)) mf''.
  Proof.
    intros ops mgr r Hset Hall Hdf Hflag Hget Happl ext Hpl Hcx.
    destruct (extract_apply_back_along_histories_general ops mgr r Hset Hall Hdf Hget Happl Hpl Hcx)
      as (mf'' & H & Hs).
    fold ext in H. rewrite Hflag in H. exists mf''. split; assumption.
  Qed.

  (* Conversely: whatever configuration a manager applies, if no record changes then the
     field set of the configuration is the manager's record.  So the hypothesis
     "the field set of the extract is the record" of [extract_apply_back_core] is necessary. *)
  Theorem extract_apply_back_record_condition_necessary : forall live mf mgr r cfg force o mf'' set0,
    setting_ok c R ver -> state_ok c ver live mf -> op_ok c ver (HApply mgr cfg force) ->
    mf_get mgr mf = Some r ->
    to_field_set s tr cfg = Some set0 ->
    apply_op c (ver, live) (ver, cfg) ver mf mgr force = UOk (o, mf'') ->
    same_records mf mf'' ->
    ps_equals set0 (mr_set r) = true /\ mr_applied r = true.
  Proof.
    intros live mf mgr r cfg force o mf'' set0 Hset Hst Hop Hget Eset0 Happly Hsame.
    pose proof (state_ok_conforms c ver live mf _ Hst Hop) as Hcl.
    pose proof Hset as (Hni & Hcid & Hok & Hfam & Hpure & Htr & Hkp).
    destruct Hop as (Hwc & Hcc & Hpl & Hgr).
    pose proof (so_wf c ver live mf Hst) as Hwl. pose proof (so_mf c ver live mf Hst) as Hmf.
    pose proof (so_single c ver live mf Hst) as Hsv. pose proof (so_current c ver live mf Hst) as Hcur.
    assert (Hmine : forall r0, mf_get mgr mf = Some r0 -> applier_record_ok (schema_of c ver) (tr_of c ver) (mr_set r0)).
    { intros r0 Hg. apply (so_records c ver live mf Hst mgr r0 Hg). }
    assert (Hothers : forall m r0, m <> mgr -> mf_get m mf = Some r0 ->
              owns_live_keys (schema_of c ver) (tr_of c ver) live (mr_set r0)).
    { intros m r0 _ Hg. apply (so_records c ver live mf Hst m r0 Hg). }
    destruct (apply_unfold c R ver (ver, live) (ver, cfg) mf mgr force o mf''
                Hni Hcid Hok Hfam Htr Hkp eq_refl eq_refl Hsv Hmf Hcur Hmine Hothers
                Hwl Hwc Hcl Hcc Hpl Hgr Happly)
      as (set1 & px & n1 & cmp & n2 & Eset1 & Hset1ok & HwP & HcP & HagrP & Hupd & Hres).
    cbn [fst snd] in *. fold s tr in Eset1. rewrite Eset0 in Eset1. inversion Eset1; subst set1. clear Eset1.
    set (mfp := mf_set mgr {| mr_set := set0; mr_ver := ver; mr_applied := true |} mf) in *.
    assert (Hmfp : mf_ok mfp) by (apply mf_set_ok; assumption).
    assert (Hsvp : single_version ver mfp) by (apply mf_set_single; [assumption|reflexivity]).
    assert (Hcok : forall cmp0, compare_tv c (ver, live) (ver, px) = Some cmp0 -> cmp_ok cmp0).
    { intros cmp0 Hc0. unfold compare_tv in Hc0. cbn [fst snd] in Hc0.
      exact (compare_sets_ok _ R _ _ _ _ Hok Htr Hwl HwP Hc0). }
    destruct (update_core_records c n1 (ver, live) (ver, px) ver mfp mgr force mf'' cmp n2 Hni Hsvp Hmfp Hcok Hupd)
      as (_ & _ & _ & _ & _ & Hw & _).
    unfold mfp in Hw. rewrite mf_get_set_same in Hw. cbn [mr_set] in Hw.
    pose proof (Hsame mgr) as Hm. rewrite Hget, Hw in Hm.
    destruct (ps_empty set0); [contradiction|]. cbn [mr_set mr_applied] in Hm.
    destruct Hm as (_ & Ha & He). split; [|exact Ha].
    pose proof (mf_ok_get mf mgr r Hmf Hget) as Hrok.
    apply (ps_equals_ext set0 (mr_set r) Hset1ok Hrok). intros p Hp. symmetry.
    apply (ps_equals_ext (mr_set r) set0 Hrok Hset1ok); assumption.
  Qed.
End ExtractBack.

(* ================= a checker for (i) ================= *)

Definition leaves_check (s : schema) (tr : typeref) (v : value) (S : pset) : bool :=
  forallb (fun t => match resolve_path s tr v t with
                    | Some (RNode tr' x) => match kind_of s tr' x with KLeaf | KBad => true | _ => false end
                    | _ => false
                    end) (ps_elems (ps_leaves S)).

Lemma leaves_check_sound : forall s R tr v S, schema_ok s R -> R tr -> wf_value v = true ->
  ps_ok S = true -> leaves_check s tr v S = true -> leaves_are_leaves s tr v S.
Proof.
  intros s R tr v S Hok Htr Hw HS Hchk t Ht Hh.
  destruct (ps_leaves_spec S HS) as [Hlok _].
  rewrite (ps_has_elems _ t Hlok Ht) in Hh. unfold pmem in Hh. apply existsb_exists in Hh.
  destruct Hh as (t0 & Hin & Heq).
  pose proof (ps_elems_wf _ Hlok) as Hall. rewrite forallb_forall in Hall.
  rewrite (PartSel.resolve_patheqb s R Hok t t0 Heq Ht (Hall t0 Hin) v tr Htr Hw).
  unfold leaves_check in Hchk. rewrite forallb_forall in Hchk. specialize (Hchk t0 Hin).
  destruct (resolve_path s tr v t0) as [[tr' x|tr' xs]|]; try discriminate.
  exists tr', x. split; [reflexivity|]. unfold leafy. destruct (kind_of s tr' x); try discriminate; exact I.
Qed.

(* ================= the witness of the former refutation (F27) ================= *)

(* Before the repair of the walker this state refuted both statements (header, 0.); the two
   theorems [extract_apply_back_along_histories_as_stated_refuted] and
   [extract_apply_back_as_stated_refuted] have been deleted: they are no longer provable. *)
Section FormerWitness.
  Open Scope string_scope.

  (* a map of maps of numbers: the entries of both maps are keyed by undeclared names *)
  Definition m_num := TR None (Atom (Some SNumeric) None None) None.
  Definition m_inner := TR None (Atom None None (Some (MapT [] m_num RUnset))) None.
  Definition m_outer := TR None (Atom None None (Some (MapT [] m_inner RUnset))) None.
  Definition m_root : atom := Atom None None (Some (MapT [SField "mmm" m_outer None] empty_tr RUnset)).
  Definition m_schema : schema := [("root", m_root)].
  Definition m_rt := TR (Some "root") empty_atom None.
  Definition m_config : config :=
    mkConfig (fun _ => (m_schema, m_rt)) (fun _ _ _ v => COk v) None None false (fun l => l).
  Definition m_R (t : typeref) : Prop := In t [m_rt; m_outer; m_inner; m_num; empty_tr].

  Lemma m_setting_ok : setting_ok m_config m_R "v1".
  Proof.
    split; [split; reflexivity|]. split; [intros n from to v; reflexivity|].
    split.
    { constructor.
      - intros t a lt Ht Hr Ha. unfold m_R in Ht. FieldSetLaws.split_in Ht;
          vm_compute in Hr; inversion Hr; subst a; simpl in Ha; discriminate.
      - intros t a m k Ht Hr Ha. unfold m_R in Ht. FieldSetLaws.split_in Ht;
          vm_compute in Hr; inversion Hr; subst a; simpl in Ha; inversion Ha; subst m;
          unfold field_type; simpl;
          repeat (match goal with |- context [String.eqb ?x ?y] => destruct (String.eqb x y) end; simpl);
          unfold m_R; simpl; auto 10.
      - intros t a Ht Hr. unfold m_R in Ht. FieldSetLaws.split_in Ht;
          vm_compute in Hr; inversion Hr; subst a; reflexivity. }
    split.
    { intros t a lt Ht Hr Ha. unfold m_R in Ht. FieldSetLaws.split_in Ht;
        vm_compute in Hr; inversion Hr; subst a; simpl in Ha; discriminate. }
    split.
    { intros t sc lt ma Ht Hr. unfold m_R in Ht. FieldSetLaws.split_in Ht;
        vm_compute in Hr; inversion Hr. }
    split; [unfold m_R; simpl; auto|]. split.
    - intros t a lt k d Ht Hr Ha. unfold m_R in Ht. FieldSetLaws.split_in Ht;
        vm_compute in Hr; inversion Hr; subst a; simpl in Ha; discriminate.
    - intros t a lt k ea mt Ht Hr Ha. unfold m_R in Ht. FieldSetLaws.split_in Ht;
        vm_compute in Hr; inversion Hr; subst a; simpl in Ha; discriminate.
  Qed.

  (* "a" applies the nested entry, "b" updates the inner field *)
  Definition m_ops : list hop :=
    [ HApply "a" (VMap [("mmm", VMap [("k", VMap [("k", VInt 5)])])]) false;
      HUpdate "b" (VMap [("mmm", VMap [("k", VMap [("k", VInt 6)])])]) ].

  Definition m_live : value := VMap [("mmm", VMap [("k", VMap [("k", VInt 6)])])].
  Definition m_rec_a : mrec := mkRec (ps_of_paths [[PEField "mmm"; PEField "k"]]) "v1" true.
  Definition m_rec_b : mrec := mkRec (ps_of_paths [[PEField "mmm"; PEField "k"; PEField "k"]]) "v1" false.
  Lemma m_ops_ok : Forall (op_ok m_config "v1") m_ops.
  Proof. repeat constructor; try (vm_compute; reflexivity); vm_compute; exact I. Qed.

  Lemma m_run : run m_config "v1" m_ops = (m_live, [("a", m_rec_a); ("b", m_rec_b)]).
  Proof. vm_compute. reflexivity. Qed.

  Definition m_ext : value := extract m_schema m_rt true m_live (ps_leaves (mr_set m_rec_a)).

  (* the extract no longer contains the inner field, which "a" does not own: the entry mmm.k
     is selected with nothing selected beneath it, and a granular node is then extracted as
     null (before the repair: [m_ext = m_live]) *)
  Lemma former_witness_extract : m_ext = VMap [("mmm", VMap [("k", VNull)])].
  Proof. vm_compute. reflexivity. Qed.

  (* Every other hypothesis of [extract_apply_back_along_histories] of the statements file holds
     at that state, reached by two admissible operations, and (i) still fails there: mmm.k is a
     leaf of the record and not of the object.  But the extract is not plain: the statements
     say nothing. *)
  Theorem former_witness_not_plain :
    setting_ok m_config m_R "v1" /\ Forall (op_ok m_config "v1") m_ops /\
    dup_free (schema_of m_config "v1") (tr_of m_config "v1") (fst (run m_config "v1" m_ops)) = true /\
    cfg_return_input_on_noop m_config = false /\
    mf_get "a" (snd (run m_config "v1" m_ops)) = Some m_rec_a /\ mr_applied m_rec_a = true /\
    let ext := extract (schema_of m_config "v1") (tr_of m_config "v1") true (fst (run m_config "v1" m_ops))
                 (ps_leaves (mr_set m_rec_a)) in
    ~ leaves_are_leaves (schema_of m_config "v1") (tr_of m_config "v1") (fst (run m_config "v1" m_ops))
        (mr_set m_rec_a) /\
    plain ext = false.
  Proof.
    split; [exact m_setting_ok|]. split; [exact m_ops_ok|].
    rewrite m_run. cbn [fst snd].
    split; [vm_compute; reflexivity|]. split; [reflexivity|]. split; [reflexivity|]. split; [reflexivity|].
    cbv zeta. split.
    - intros H.
      destruct (H [PEField "mmm"; PEField "k"] eq_refl ltac:(vm_compute; reflexivity)) as (t' & x & Hres & Hl).
      vm_compute in Hres. inversion Hres; subst t' x. vm_compute in Hl. exact Hl.
    - vm_compute. reflexivity.
  Qed.

  (* outside the statements: applying that extract back changes no record either *)
  Example former_witness_apply_back :
    apply_op m_config ("v1", m_live) ("v1", m_ext) "v1" [("a", m_rec_a); ("b", m_rec_b)] "a" false
    = UOk (None, [("a", m_rec_a); ("b", m_rec_b)]).
  Proof. vm_compute. reflexivity. Qed.
End FormerWitness.

(* ================= (ii) cannot be dropped at states that are not reachable ================= *)

(* the invariant of Proofs/History.v does not see the flag [mr_applied] *)
Definition set_applied (mf : managed) : managed :=
  map (fun mr : string * mrec => (fst mr, mkRec (mr_set (snd mr)) (mr_ver (snd mr)) true)) mf.

Lemma mf_get_set_applied : forall m mf,
  mf_get m (set_applied mf) =
  match mf_get m mf with Some r => Some (mkRec (mr_set r) (mr_ver r) true) | None => None end.
Proof.
  intros m mf. unfold mf_get, set_applied. induction mf as [|[k r] mf IH]; [reflexivity|].
  simpl. destruct (String.eqb m k); [reflexivity|exact IH].
Qed.

Lemma sorted_keys_set_applied : forall mf, sorted_keys (set_applied mf) = sorted_keys mf.
Proof.
  induction mf as [|[k r] mf IH]; [reflexivity|]. destruct mf as [|[k' r'] mf']; [reflexivity|].
  change (set_applied ((k, r) :: (k', r') :: mf'))
    with ((k, mkRec (mr_set r) (mr_ver r) true) :: set_applied ((k', r') :: mf')).
  change (set_applied ((k', r') :: mf'))
    with ((k', mkRec (mr_set r') (mr_ver r') true) :: set_applied mf') in *.
  cbn [sorted_keys] in *. rewrite IH. reflexivity.
Qed.

Lemma forallb_map' : forall (A B : Type) (f : B -> bool) (g : A -> B) l,
  forallb f (map g l) = forallb (fun x => f (g x)) l.
Proof. intros A B f g l. induction l as [|x l IH]; [reflexivity|]. simpl. rewrite IH. reflexivity. Qed.

Lemma state_ok_set_applied : forall c ver live mf, state_ok c ver live mf -> state_ok c ver live (set_applied mf).
Proof.
  intros c ver live mf Hst.
  assert (Hg : forall m r', mf_get m (set_applied mf) = Some r' ->
            exists r, mf_get m mf = Some r /\ mr_set r' = mr_set r /\ mr_ver r' = mr_ver r).
  { intros m r' H. rewrite mf_get_set_applied in H. destruct (mf_get m mf) as [r|]; [|discriminate].
    inversion H; subst r'. exists r. auto. }
  constructor.
  - apply (so_wf c ver live mf Hst).
  - apply (so_conforms c ver live mf Hst).
  - destruct (so_mf c ver live mf Hst) as [H1 H2]. split; [rewrite sorted_keys_set_applied; exact H1|].
    unfold set_applied. rewrite forallb_map'. exact H2.
  - pose proof (so_single c ver live mf Hst) as H. unfold single_version, set_applied in *.
    rewrite forallb_map'. exact H.
  - intros m r' s' H. destruct (Hg m r' H) as (r & Hr & Es & _). rewrite Es.
    apply (so_current c ver live mf Hst m r s' Hr).
  - intros m r' H. destruct (Hg m r' H) as (r & Hr & Es & _). rewrite Es.
    apply (so_records c ver live mf Hst m r Hr).
  - intros m r' p H Hp Hh. destruct (Hg m r' H) as (r & Hr & Es & _). rewrite Es in Hh.
    apply (so_present c ver live mf Hst m r p Hr Hp Hh).
  - intros m r' H. destruct (Hg m r' H) as (r & Hr & Es & _). rewrite Es.
    apply (so_nonempty c ver live mf Hst m r Hr).
Qed.

Section Unreachable.
  Open Scope string_scope.

  (* the final state of the history of Proofs/History.v with every flag set: the record of
     "d" -- in truth an updater's -- holds the field vv of the member y without the member *)
  Definition u_rec_d : mrec :=
    mkRec (ps_of_paths [[PEField "items"; PEKey [("name", VStr "y")]; PEField "vv"]]) "v1" true.

  (* Every hypothesis of [extract_apply_back] of the statements file holds at that state for
     "d", and so do the validity of the extract, (i) and (iii); (ii) fails; the extract spells
     out the member y and its key, and the record of "d" grows by them. *)
  Theorem extract_apply_back_needs_prefix_closed :
    let live := hx_obj in let mf := set_applied hx_mf in
    setting_ok ex_config FieldSetLaws.ex_R "v1" /\ state_ok ex_config "v1" live mf /\
    dup_free (schema_of ex_config "v1") (tr_of ex_config "v1") live = true /\
    cfg_return_input_on_noop ex_config = false /\
    mf_get "d" mf = Some u_rec_d /\ mr_applied u_rec_d = true /\
    let ext := extract (schema_of ex_config "v1") (tr_of ex_config "v1") true live (ps_leaves (mr_set u_rec_d)) in
    plain ext = true /\
    conforms (schema_of ex_config "v1") (tr_of ex_config "v1") false ext = true /\
    leaves_are_leaves (schema_of ex_config "v1") (tr_of ex_config "v1") live (mr_set u_rec_d) /\
    interior_class (schema_of ex_config "v1") (tr_of ex_config "v1") (mr_set u_rec_d) /\
    ~ prefix_closed (schema_of ex_config "v1") (tr_of ex_config "v1") (mr_set u_rec_d) /\
    ~ (exists mf'',
         apply_op ex_config ("v1", live) ("v1", ext) "v1" mf "d" false = UOk (None, mf'') /\
         same_records mf mf'').
  Proof.
    cbv zeta.
    split; [exact ex_setting_ok|].
    split.
    { apply state_ok_set_applied.
      pose proof (reachable_states_ok ex_config FieldSetLaws.ex_R "v1" hx_ops ex_setting_ok hx_ops_ok) as H.
      rewrite hx_run in H. exact H. }
    split; [vm_compute; reflexivity|]. split; [reflexivity|]. split; [vm_compute; reflexivity|].
    split; [reflexivity|]. split; [vm_compute; reflexivity|]. split; [vm_compute; reflexivity|].
    split.
    { apply (leaves_check_sound _ FieldSetLaws.ex_R); try (vm_compute; reflexivity).
      - exact FieldSetLaws.ex_schema_ok.
      - exact FieldSetLaws.ex_R_root. }
    split.
    { (* a single member: nothing lies beneath a member *)
      intros q q2 Hw Hq2 H1 H2. exfalso.
      assert (Hok : ps_ok (mr_set u_rec_d) = true) by (vm_compute; reflexivity).
      apply ReconcileBase.wf_path_app in Hw. destruct Hw as [Hq Hwq2].
      assert (Hw : wf_path (q ++ q2)%list = true) by (apply ReconcileBase.wf_path_app; auto).
      rewrite (ps_has_elems _ q Hok Hq) in H1. rewrite (ps_has_elems _ (q ++ q2)%list Hok Hw) in H2.
      vm_compute ps_elems in H1, H2. unfold pmem in H1, H2. cbn [existsb] in H1, H2.
      rewrite orb_false_r in H1, H2.
      apply ExtractBase.patheqb_length in H1. apply ExtractBase.patheqb_length in H2.
      rewrite app_length in H2. destruct q2; [congruence|]. simpl in *. lia. }
    split.
    { intros H.
      assert (Hh : ps_has [PEField "items"; PEKey [("name", VStr "y")]] (mr_set u_rec_d) = true).
      { apply (H [PEField "items"; PEKey [("name", VStr "y")]] [PEField "vv"]);
          [reflexivity|discriminate|vm_compute; reflexivity|].
        left. exists [PEField "items"], (PEKey [("name", VStr "y")]). split; reflexivity. }
      vm_compute in Hh. discriminate. }
    intros (mf'' & H & Hs).
    assert (E : exists mfx, apply_op ex_config ("v1", hx_obj)
                  ("v1", extract (schema_of ex_config "v1") (tr_of ex_config "v1") true hx_obj
                           (ps_leaves (mr_set u_rec_d))) "v1" (set_applied hx_mf) "d" false = UOk (None, mfx) /\
                mf_get "d" mfx = Some (mkRec (ps_of_paths [[PEField "items"; PEKey [("name", VStr "y")]];
                                                           [PEField "items"; PEKey [("name", VStr "y")]; PEField "name"];
                                                           [PEField "items"; PEKey [("name", VStr "y")]; PEField "vv"]])
                                             "v1" true)).
    { eexists. split; vm_compute; reflexivity. }
    destruct E as (mfx & E1 & E2). rewrite E1 in H. inversion H; subst mf''.
    specialize (Hs "d"). rewrite E2 in Hs.
    change (mf_get "d" (set_applied hx_mf)) with (Some u_rec_d) in Hs.
    destruct Hs as (_ & _ & Hs). vm_compute in Hs. discriminate Hs.
  Qed.
End Unreachable.

(* ================= non-vacuity ================= *)

(* The history of Proofs/History.v (six operations, four managers).  At its final state the
   record of "a", written by its forced apply, is {aa, items[y], items[y].name}: "a" owned the
   whole member y, and "d" took the field vv of that member over by an update.  The extract
   for "a" is {aa: 2, items: [{name: y}]}; every hypothesis of
   [extract_apply_back_along_histories] holds; applying the extract back changes nothing --
   by the theorem, and by evaluation. *)
Section Example.
  Open Scope string_scope.

  Definition xb_ext : value := VMap [("aa", VInt 2); ("items", VList [VMap [("name", VStr "y")]])].

  Definition xb_rec : mrec :=
    mkRec (ps_of_paths [[PEField "aa"]; [PEField "items"; PEKey [("name", VStr "y")]];
                        [PEField "items"; PEKey [("name", VStr "y")]; PEField "name"]]) "v1" true.

  Example extract_back_example :
    mf_get "a" (snd (run ex_config "v1" hx_ops)) = Some xb_rec /\ mr_applied xb_rec = true /\
    extract ex_schema ex_rt true (fst (run ex_config "v1" hx_ops)) (ps_leaves (mr_set xb_rec)) = xb_ext /\
    (* by the theorem *)
    (exists mf'',
       apply_op ex_config ("v1", fst (run ex_config "v1" hx_ops)) ("v1", xb_ext) "v1"
                (snd (run ex_config "v1" hx_ops)) "a" false = UOk (None, mf'') /\
       same_records (snd (run ex_config "v1" hx_ops)) mf'') /\
    (* by evaluation: the very same records *)
    apply_op ex_config ("v1", hx_obj) ("v1", xb_ext) "v1" hx_mf "a" false = UOk (None, hx_mf).
  Proof.
    assert (Hget : mf_get "a" (snd (run ex_config "v1" hx_ops)) = Some xb_rec)
      by (rewrite hx_run; vm_compute; reflexivity).
    assert (Hdf : dup_free (schema_of ex_config "v1") (tr_of ex_config "v1") (fst (run ex_config "v1" hx_ops)) = true)
      by (rewrite hx_run; vm_compute; reflexivity).
    assert (Hx : extract (schema_of ex_config "v1") (tr_of ex_config "v1") true (fst (run ex_config "v1" hx_ops))
                   (ps_leaves (mr_set xb_rec)) = xb_ext)
      by (rewrite hx_run; vm_compute; reflexivity).
    split; [exact Hget|]. split; [reflexivity|]. split; [exact Hx|].
    split; [|vm_compute; reflexivity].
    pose proof (extract_apply_back_along_histories ex_config FieldSetLaws.ex_R "v1" hx_ops "a" xb_rec
                  ex_setting_ok hx_ops_ok Hdf eq_refl Hget eq_refl) as T.
    cbv zeta in T. rewrite Hx in T. apply T.
    - vm_compute. reflexivity.
    - vm_compute. reflexivity.
  Qed.
End Example.

