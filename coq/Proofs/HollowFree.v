(* C03, the clause "containers left without content by this disappear too".
   Statements: Proofs/HollowFree_statements.v.  ALL FOUR statements are FALSE as written; each is
   refuted below by a witness found by evaluating the model, and replaced by what is true.
   Helpers: Proofs/HollowFreeBase.v (removal), HollowFreeMerge.v (merge), HollowFreePrune.v (prune).

   THE FINDING.  typed/remove.go replaces a list / map ALL of whose members it dropped by nil,
   but writes that nil back into the parent (doMap: newMap[k] = val.Unstructured(); doList:
   newItems = append(newItems, item.Unstructured())).  So a container that a removal empties
   is NOT dropped: it is left behind as an explicit null ("items: null", "k: null").  The prune
   stage of Apply is a removal from the merged object, and the closure
   EnsureNamedFieldsAreMembers only adds the NAMED fields above an owned path, so:
     - the applier abandons a keyed-list member whose key it owned while another manager
       (through an Update) still owns a non-key field beneath it: the member goes, the list
       field stays in the closure of the other manager's set, the list is emptied and the
       object is left with  items: null   [apply_keeps_hollow_free_as_stated_refuted,
       hollow_free_along_histories_as_stated_refuted; a reachable state of ex_config];
     - updates are not needed: over a schema with a map of structs, "b" applies mm.k.a, "a"
       takes mm.k.a over (forced apply) and then abandons it: "b" still owns the entry mm.k,
       the struct is emptied and left as  mm: {k: null}   [hollow_free_applies_only_refuted].
   An EMPTY map or list, on the other hand, is never produced.

   DEFINITIONS.  [hollow_free] verbatim (in HollowFreeBase.v, [hollow_free_def]); [hop_plain]
   verbatim.  New: [no_empty] (no empty map / list anywhere; nulls allowed), [no_null],
   with  plain v = no_empty v && no_null v  [plain_split, hollow_free_iff];
   [covered s tr v T]: every container of v other than the root that T leaves in place (T holds
   neither its path nor a path above it) has a member that T leaves in place.

   1. remove_keeps_hollow_free  -- FALSE as stated [remove_keeps_hollow_free_as_stated_refuted]:
      removing mm.k from {mm: {k: 1}} gives {mm: null}.
      REPAIRED [remove_keeps_hollow_free]: added hypotheses  nice s tr v T  (the standing
      condition of Proofs/RemoveFrame.v),  sub_present s tr v T  (T mentions only paths of v)
      and  covered s tr v T.   [covered] is the WEAKEST possible hypothesis: for a plain object
      it is equivalent to the conclusion [remove_hollow_free_exact].
      Without any hypothesis: [remove_keeps_no_empty] (never an empty container), and
      [remove_nulls_are_emptied_containers]: every null in the result of removing T from a
      plain object sits at a container of the object, left in place by T, that was emptied.
   2. apply_keeps_hollow_free  -- FALSE as stated (witness above).  What is proved instead:
      [apply_keeps_no_empty]            the statement with [no_empty] for [hollow_free]
                                        (hypothesis and conclusion): holds at every state;
      [apply_hollow_free_exact]         the exact criterion: the result is the live object, the
                                        merged object M (plain), or  remove M T  for a nice T
                                        within M, and then it is hollow-free IFF T is covered;
      [apply_keeps_hollow_free_first]   the statement verbatim with the extra hypothesis "the
                                        applier has no record yet, or nothing is persisted";
      [apply_hollow_free_iff_no_null]   hollow-free iff null or without null;
      [apply_nulls_are_emptied_containers]  every null in the result of an apply at a
                                        hollow-free state sits at a container of the merged
                                        object: the clause fails ONLY in that the emptied
                                        container is replaced by null instead of being dropped.
      A hypothesis on the RECORDS that would give the verbatim conclusion is NOT proved.  The
      two witnesses show what it would have to exclude, and that reachable states ([state_ok])
      have both: (i) a path owned by another manager beneath a keyed-list member whose key only
      the applier owns, (ii) a container path owned by another manager with no owned leaf
      beneath it; "no updates" is not enough (witness 2), nor is it the fault of list members
      alone (witness 2 has no list).
   3. hollow_free_along_histories  -- FALSE as stated.  Proved: [no_empty_along_histories]
      (the statement with [no_empty] as the conclusion) and
      [hollow_free_along_histories_iff_no_null].
   4. emptied_containers_disappear  -- FALSE as stated
      [emptied_containers_disappear_as_stated_refuted]: [op_ok] lets an Update submit duplicate
      members of a keyed list; a list all of whose members are duplicates has no RNode beneath
      it (the group resolves to RDup), so the hypothesis holds of "items" while it is present.
      REPAIRED, three forms:
        (a) [emptied_containers_disappear_dups]: the hypothesis speaks of every node, a group
            of duplicates counting as a leaf ([rnode_is_leaf], as in Spec.Resolve.nodes);
        (b) [emptied_containers_disappear_nodup_result]: verbatim + "no path of the result
            designates a group of duplicates";
        (c) [emptied_containers_disappear]: verbatim + [Forall hop_nodup ops] (updates submit
            objects valid without duplicates); [apply_keeps_nodup] is the invariant.
      NOTE that the statement holds for a reason that does not express the clause: a null is
      itself a leaf, so an emptied container left as null falsifies the hypothesis.  In the
      intended reading the clause is false: [emptied_container_is_left_as_null] (the list
      "items" of the live object is a container, nothing beneath it is left in the result, and
      the result still has the path).
   Not proved: everything listed above is proved; the verbatim statements 1-4 are refuted, not
   proved.

   EXAMPLES (non-vacuity), at the final state of the history of Proofs/History.v:
   [no_empty_example] (theorem 3 and evaluation), [apply_example] (manager "c", who owns only
   mm.k, applies a configuration without "mm": the entry goes and the map goes with it; the
   result is hollow-free by evaluation, the removed set is covered by
   [apply_hollow_free_exact], and (M, T) satisfy every hypothesis of [remove_keeps_hollow_free]),
   [first_apply_example], [clause_example]. *)
From Coq Require Import List ZArith String Bool Arith Lia.
From SMD Require Import Model.Value Model.Order Model.PathElem Model.PathSet Model.Schema Model.Walk
  Model.Validate Model.FieldSet Model.Remove Model.Merge Model.Compare Model.Matcher Model.Reconcile
  Model.Updater
  Spec.PathsAsSets Spec.RefValid Spec.Resolve Spec.Agree Spec.RefDiff Spec.Examples
  Proofs.OrderLaws Proofs.PathSetLaws Proofs.SchemaOk Proofs.FieldSetBase Proofs.FieldSetPaths
  Proofs.FieldSetWf Proofs.FieldSetLaws Proofs.RemoveAbsent Proofs.RemoveWf Proofs.ResolveLaws
  Proofs.UpdaterLaws Proofs.UpdaterLaws2 Proofs.MergeLaws Proofs.MergeAgree
  Proofs.RemoveFrame Proofs.EnLaws Proofs.NodeSet Proofs.KeyFields Proofs.VeqbResolve
  Proofs.SetCheckers Proofs.ApplyEffect Proofs.RefDiffBoth Proofs.RefDiffLaws Proofs.RefDiffPresent
  Proofs.ApplyInv Proofs.History Proofs.Reapply.
From SMD Require Import Proofs.TreeFacts Proofs.PruneShape Proofs.ApplyPruneBase Proofs.ApplyPrune
  Proofs.HollowFreeBase Proofs.HollowFreeMerge Proofs.HollowFreePrune.
From SMD Require Proofs.Visible Proofs.TransparentMerge Proofs.TransparentRemove Proofs.ReconcileBase.
Import ListNotations.
Open Scope bool_scope.
Open Scope list_scope.

Local Arguments ps_has : simpl never.
Local Arguments ps_with_prefix : simpl never.
Local Arguments ps_empty : simpl never.

(* [hollow_free] is defined in Proofs/HollowFreeBase.v, verbatim: *)
Lemma hollow_free_def : forall v, hollow_free v = (v = VNull \/ plain v = true).
Proof. reflexivity. Qed.

Section HollowFree.
  Variables (c : config) (R : typeref -> Prop) (ver : string).
  Let s := schema_of c ver.
  Let tr := tr_of c ver.

  (* ================= 1. removal ================= *)

  (* what is true without any condition: removal never leaves an EMPTY container behind (it
     may leave a null) *)
  Theorem remove_keeps_no_empty : forall v T,
    no_empty v = true -> no_empty (remove s tr v T) = true.
  Proof. intros v T H. unfold remove. apply remove_no_empty. exact H. Qed.

  (* REPAIRED: the statement with the hypotheses [nice] (the standing condition of the
     removal theorems of Proofs/RemoveFrame.v), [sub_present] (T mentions only paths of v)
     and [covered] (every container that T leaves in place keeps a member) *)
  Theorem remove_keeps_hollow_free : forall v T,
    setting_ok c R ver -> wf_value v = true -> conforms s tr true v = true -> ps_ok T = true ->
    nice s tr v T -> sub_present s tr v T -> covered s tr v T ->
    hollow_free v -> hollow_free (remove s tr v T).
  Proof.
    intros v T Hset Hwf Hc _ Hn Hsp Hcov [->|Hpl].
    - left. unfold remove. apply remove_items_null.
    - destruct Hset as (_ & _ & Hok & Hfam & _ & Htr & Hnd & _).
      apply (remove_covered_plain s R Hok Hfam Hnd v tr true T Htr Hwf Hc Hn Hsp Hcov Hpl).
  Qed.

  (* [covered] is the weakest hypothesis: for a plain object it is equivalent to the conclusion *)
  Theorem remove_hollow_free_exact : forall v T,
    setting_ok c R ver -> wf_value v = true -> conforms s tr true v = true ->
    nice s tr v T -> sub_present s tr v T -> plain v = true ->
    (hollow_free (remove s tr v T) <-> covered s tr v T).
  Proof.
    intros v T Hset Hwf Hc Hn Hsp Hpl.
    destruct Hset as (_ & _ & Hok & Hfam & _ & Htr & Hnd & _).
    apply (remove_hollow_free_iff s R Hok Hfam Hnd v tr T Htr Hwf Hc Hn Hsp Hpl).
  Qed.

  (* where the nulls are: the only nulls in the result of a removal from a plain object are
     containers of the object that the removal emptied (and left in place) *)
  Theorem remove_nulls_are_emptied_containers : forall v T q tq,
    setting_ok c R ver -> wf_value v = true -> conforms s tr true v = true ->
    nice s tr v T -> sub_present s tr v T -> plain v = true ->
    wf_path q = true -> q <> [] ->
    resolve_path s tr (remove s tr v T) q = Some (RNode tq VNull) ->
    exists x, resolve_path s tr v q = Some (RNode tq x) /\ granular s tq x /\ touches q T = false.
  Proof.
    intros v T q tq Hset Hwf Hc Hn Hsp Hpl Hq Hne Hres.
    destruct Hset as (_ & _ & Hok & Hfam & _ & Htr & Hnd & _).
    apply (remove_nulls_are_emptied s R Hok Hfam Hnd v tr T q tq Htr Hwf Hc Hn Hsp Hpl Hq Hne Hres).
  Qed.

  (* ================= 2. one apply ================= *)

  (* the part of the statement that holds at every state: an apply never leaves an empty map
     or an empty list in the object *)
  Theorem apply_keeps_no_empty : forall live mf mgr cfg force o mf',
    setting_ok c R ver -> state_ok c ver live mf -> op_ok c ver (HApply mgr cfg force) ->
    no_empty live = true ->
    apply_op c (ver, live) (ver, cfg) ver mf mgr force = UOk (o, mf') ->
    no_empty (match o with Some t => snd t | None => live end) = true.
  Proof.
    intros live mf mgr cfg force o mf' Hset Hst Hop Hne Happly.
    pose proof (state_ok_conforms c ver live mf _ Hst Hop) as Hcl. fold s tr in Hcl.
    pose proof Hset as (Hni & Hcid & Hok & Hfam & Hpure & Htr & Hkp).
    fold s tr in Hok, Hfam, Hpure, Htr, Hkp.
    destruct Hop as (Hwc & Hcc & Hpl & Hgr). fold s tr in Hcc, Hgr.
    pose proof (so_wf c ver live mf Hst) as Hwl.
    destruct (apply_shape c ver live cfg mf mgr force o mf' Hni Hcid (so_single c ver live mf Hst)
                (so_mf c ver live mf Hst) (so_current c ver live mf Hst) Happly)
      as (M & set0 & n0 & pruned & n1 & Em & Eset0 & Eprune & Ho).
    fold s tr in Em, Eset0.
    destruct Ho as [[-> _]| ->]; [exact Hne|]. cbn [snd].
    apply (prune_no_empty c Hcid _ _ _ _ _ _ _ Eprune). cbn [snd].
    apply (proj1 (merge_hollow s R Hok Hfam tr live cfg M Htr Hwl Hwc Hcl Hcc Em Hpl) Hne).
  Qed.

  (* the merged object of an apply at a hollow-free state is plain *)
  Lemma apply_merged_plain : forall live mf mgr cfg force M,
    setting_ok c R ver -> state_ok c ver live mf -> op_ok c ver (HApply mgr cfg force) ->
    hollow_free live -> merge s tr live cfg = Some (Some M) -> plain M = true.
  Proof.
    intros live mf mgr cfg force M Hset Hst Hop Hhf Em.
    pose proof (state_ok_conforms c ver live mf _ Hst Hop) as Hcl. fold s tr in Hcl.
    pose proof Hset as (Hni & Hcid & Hok & Hfam & Hpure & Htr & Hkp).
    fold s tr in Hok, Hfam, Hpure, Htr, Hkp.
    destruct Hop as (Hwc & Hcc & Hpl & Hgr). fold s tr in Hcc, Hgr.
    pose proof (so_wf c ver live mf Hst) as Hwl.
    apply (proj2 (merge_hollow s R Hok Hfam tr live cfg M Htr Hwl Hwc Hcl Hcc Em Hpl) Hhf).
  Qed.

  (* the exact criterion: the result of an apply is the live object (nothing to persist),
     the merged object (the applier had no record), or the removal of a set T from the
     merged object; in the last case the result is hollow-free iff T is [covered] *)
  Theorem apply_hollow_free_exact : forall live mf mgr cfg force o mf',
    setting_ok c R ver -> state_ok c ver live mf -> op_ok c ver (HApply mgr cfg force) ->
    hollow_free live ->
    apply_op c (ver, live) (ver, cfg) ver mf mgr force = UOk (o, mf') ->
    let res := match o with Some t => snd t | None => live end in
    exists M, merge s tr live cfg = Some (Some M) /\ plain M = true /\
      (o = None \/ mf_get mgr mf = None -> hollow_free res) /\
      (o <> None -> mf_get mgr mf <> None ->
       exists T, nice s tr M T /\ sub_present s tr M T /\ res = remove s tr M T /\
                 (hollow_free res <-> covered s tr M T)).
  Proof.
    intros live mf mgr cfg force o mf' Hset Hst Hop Hhf Happly res.
    pose proof (state_ok_conforms c ver live mf _ Hst Hop) as Hcl. fold s tr in Hcl.
    pose proof Hset as (Hni & Hcid & Hok & Hfam & Hpure & Htr & Hkp).
    fold s tr in Hok, Hfam, Hpure, Htr, Hkp.
    pose proof Hkp as [Hnd Hks].
    pose proof Hop as (Hwc & Hcc & Hpl & Hgr). fold s tr in Hcc, Hgr.
    pose proof (so_wf c ver live mf Hst) as Hwl. pose proof (so_mf c ver live mf Hst) as Hmf.
    pose proof (so_single c ver live mf Hst) as Hsv. pose proof (so_current c ver live mf Hst) as Hcur.
    assert (Hmine : forall r, mf_get mgr mf = Some r -> applier_record_ok s tr (mr_set r)).
    { intros r Hg. apply (so_records c ver live mf Hst mgr r Hg). }
    assert (Hothers : forall m r, m <> mgr -> mf_get m mf = Some r -> owns_live_keys s tr live (mr_set r)).
    { intros m r _ Hg. apply (so_records c ver live mf Hst m r Hg). }
    destruct (run_setup c R ver live cfg mf mgr force o mf' Hni Hcid Hok Hfam Htr Hsv Hmf Hcur
                Hwl Hwc Hcl Hcc Happly)
      as (M & set0 & n0 & pruned & n1 & Em & Eset0 & HwM & HcM & Hlf & Eprune & Ho).
    fold s tr in Em, Eset0, HcM, Hlf.
    pose proof (apply_merged_plain live mf mgr cfg force M Hset Hst Hop Hhf Em) as HplM.
    exists M. split; [exact Em|]. split; [exact HplM|]. split.
    - intros [Hon|Hnone].
      + unfold res. rewrite Hon. exact Hhf.
      + destruct Ho as [[-> _]| ->]; [exact Hhf|]. unfold res. cbn [snd].
        rewrite Hnone in Eprune. unfold prune in Eprune. inversion Eprune; subst pruned. right. exact HplM.
    - intros Hosome Hlast.
      destruct Ho as [[Hon _]|Ho]; [congruence|]. subst o. unfold res. cbn [snd].
      destruct (mf_get mgr mf) as [last|] eqn:Elast; [|congruence]. clear Hlast.
      assert (Hset0ok : ps_ok set0 = true) by (apply (to_field_set_ok s R tr cfg set0 Hok Htr Hwc Eset0)).
      destruct (managers_sets s tr ver live mf mgr set0 Hsv Hmf Hset0ok Hothers)
        as (HU & HUcfg & HUown & Hmav & Htarget & _).
      set (mfp := mf_set mgr {| mr_set := set0; mr_ver := ver; mr_applied := true |} mf) in *.
      set (U := union_all mfp ps_empty_set) in *.
      assert (Hlv : mr_ver last = ver).
      { apply String.eqb_eq. apply (single_version_get ver mf mgr last Hsv Elast). }
      pose proof (mf_ok_get mf mgr last Hmf Elast) as Hlok.
      pose proof (Hmine last eq_refl) as Hlrec.
      pose proof (so_nonempty c ver live mf Hst mgr last Elast) as Hlne.
      destruct (prune_shape s R tr Hok Hfam Htr Hnd Hks live cfg M Hwc Hcc Hpl HwM HcM Hlf set0 U Eset0 HU
                  HUcfg HUown (fun _ => True) (fun _ _ _ => I) c ver Hcid eq_refl eq_refl n0 mfp mgr last
                  pruned n1 Hmav Htarget Hlv Hlok Hlrec Hlne I Eprune) as (T1 & Hn1 & _ & Hpruned).
      destruct (dangling_set s R tr Hok Hfam Htr Hnd Hks M HwM HcM T1 (mr_set last) Hn1 Hlok (proj1 Hlrec))
        as (HokT2 & HhasT2 & HnT2).
      set (T2 := dangling_T s tr M T1 (mr_set last)) in *.
      assert (Hsp2 : sub_present s tr M T2).
      { intros q Hq Hhas. rewrite (HhasT2 q Hq) in Hhas.
        apply andb_true_iff in Hhas. destruct Hhas as [Hhas _].
        apply andb_true_iff in Hhas. destruct Hhas as [Hhas _].
        apply (node_set_present s R Hok Hfam tr M q Htr HwM HcM Hq Hhas). }
      exists T2. split; [exact HnT2|]. split; [exact Hsp2|].
      subst pruned. cbn [snd]. split; [reflexivity|].
      apply (remove_hollow_free_iff s R Hok Hfam Hnd M tr T2 Htr HwM HcM HnT2 Hsp2 HplM).
  Qed.

  (* special case, without condition on the sets: an apply by a manager that has no record yet
     (its first apply; nothing can be pruned), or one that persists nothing *)
  Corollary apply_keeps_hollow_free_first : forall live mf mgr cfg force o mf',
    setting_ok c R ver -> state_ok c ver live mf -> op_ok c ver (HApply mgr cfg force) ->
    hollow_free live ->
    apply_op c (ver, live) (ver, cfg) ver mf mgr force = UOk (o, mf') ->
    o = None \/ mf_get mgr mf = None ->
    hollow_free (match o with Some t => snd t | None => live end).
  Proof.
    intros live mf mgr cfg force o mf' Hset Hst Hop Hhf Happly Hcase.
    destruct (apply_hollow_free_exact live mf mgr cfg force o mf' Hset Hst Hop Hhf Happly)
      as (M & _ & _ & H & _).
    apply H. exact Hcase.
  Qed.

  (* in general: the only hollow an apply can leave is a null *)
  Corollary apply_hollow_free_iff_no_null : forall live mf mgr cfg force o mf',
    setting_ok c R ver -> state_ok c ver live mf -> op_ok c ver (HApply mgr cfg force) ->
    hollow_free live ->
    apply_op c (ver, live) (ver, cfg) ver mf mgr force = UOk (o, mf') ->
    let res := match o with Some t => snd t | None => live end in
    hollow_free res <-> (res = VNull \/ no_null res = true).
  Proof.
    intros live mf mgr cfg force o mf' Hset Hst Hop Hhf Happly res.
    pose proof (apply_keeps_no_empty live mf mgr cfg force o mf' Hset Hst Hop
                  (hollow_free_no_empty live Hhf) Happly) as Hne.
    fold res in Hne. rewrite hollow_free_iff. tauto.
  Qed.

  (* and every null an apply leaves is a container of the merged object that the prune stage
     emptied: the clause "containers left without content disappear too" fails only in that the
     emptied container is replaced by null instead of being dropped *)
  Theorem apply_nulls_are_emptied_containers : forall live mf mgr cfg force o mf' q tq,
    setting_ok c R ver -> state_ok c ver live mf -> op_ok c ver (HApply mgr cfg force) ->
    hollow_free live ->
    apply_op c (ver, live) (ver, cfg) ver mf mgr force = UOk (o, mf') ->
    let res := match o with Some t => snd t | None => live end in
    wf_path q = true -> q <> [] -> resolve_path s tr res q = Some (RNode tq VNull) ->
    exists M x, merge s tr live cfg = Some (Some M) /\
      resolve_path s tr M q = Some (RNode tq x) /\ granular s tq x.
  Proof.
    intros live mf mgr cfg force o mf' q tq Hset Hst Hop Hhf Happly res Hq Hne Hres.
    pose proof (apply_step c R ver live mf mgr cfg force o mf' Hset Hst Hop Happly) as Hst'.
    fold res in Hst'. pose proof (so_wf c ver res mf' Hst') as Hwr.
    pose proof (state_ok_conforms c ver live mf _ Hst Hop) as Hcl. fold s tr in Hcl.
    pose proof Hset as (Hni & Hcid & Hok & Hfam & Hpure & Htr & Hkp).
    fold s tr in Hok, Hfam, Hpure, Htr, Hkp. pose proof Hkp as [Hnd Hks].
    pose proof Hop as (Hwc & Hcc & Hpl & Hgr). fold s tr in Hcc, Hgr.
    pose proof (so_wf c ver live mf Hst) as Hwl.
    destruct (apply_hollow_free_exact live mf mgr cfg force o mf' Hset Hst Hop Hhf Happly)
      as (M & Em & HplM & Hfirst & Hsecond).
    fold res in Hfirst, Hsecond.
    assert (Hnohf : ~ hollow_free res).
    { intros [Hnull|Hplr].
      - rewrite Hnull in Hres. destruct q; [congruence|]. rewrite resolve_null_cons in Hres. discriminate.
      - pose proof (plain_sub s R Hok q res tr tq VNull Htr Hwr Hq Hplr Hres) as H. discriminate. }
    destruct o as [t|]; [|exfalso; apply Hnohf; apply Hfirst; left; reflexivity].
    destruct (mf_get mgr mf) as [last|] eqn:Elast; [|exfalso; apply Hnohf; apply Hfirst; right; reflexivity].
    destruct Hsecond as (T & HnT & HspT & Eres & _); [discriminate|discriminate|].
    destruct (merge_conforms s R tr live cfg M Hok Hfam Htr Hwl Hwc Hcl Hcc Em) as [HcM HwM].
    rewrite Eres in Hres.
    destruct (remove_nulls_are_emptied s R Hok Hfam Hnd M tr T q tq Htr HwM HcM HnT HspT HplM Hq Hne Hres)
      as (x & Hx & Hg & _).
    exists M, x. auto.
  Qed.

  (* ================= 3. histories ================= *)

  (* what an update may submit here: a plain object *)
  Definition hop_plain (o : hop) : Prop :=
    match o with HUpdate _ obj => plain obj = true | _ => True end.

  Lemma step_keeps_no_empty : forall live mf o,
    setting_ok c R ver -> state_ok c ver live mf -> op_ok c ver o -> hop_plain o ->
    no_empty live = true -> no_empty (fst (hstep c ver (live, mf) o)) = true.
  Proof.
    intros live mf o Hset Hst Hop Hpl Hne. destruct o as [mgr cfg force|mgr obj]; cbn [hstep fst snd].
    - destruct (apply_op c (ver, live) (ver, cfg) ver mf mgr force) as [[o mf']|e] eqn:Happly; [|exact Hne].
      pose proof (apply_keeps_no_empty live mf mgr cfg force o mf' Hset Hst Hop Hne Happly) as H.
      destruct o as [t|]; exact H.
    - destruct (update_op c (ver, live) (ver, obj) ver mf mgr) as [[t mf']|e] eqn:Hupd; [|exact Hne].
      destruct (update_step c R ver live mf mgr obj t mf' Hset Hst Hop Hupd) as [-> _].
      cbn [fst snd]. apply plain_no_empty. exact Hpl.
  Qed.

  Lemma run_from_no_empty : forall ops st,
    setting_ok c R ver -> Forall (op_ok c ver) ops -> Forall hop_plain ops ->
    state_ok c ver (fst st) (snd st) -> no_empty (fst st) = true ->
    no_empty (fst (fold_left (hstep c ver) ops st)) = true.
  Proof.
    induction ops as [|o ops IH]; intros [live mf] Hset Hall Hpl Hst Hne; [exact Hne|].
    cbn [fold_left]. inversion Hall as [|? ? Ho Hrest]; subst. inversion Hpl as [|? ? Hp Hprest]; subst.
    cbn [fst snd] in Hst, Hne.
    apply IH; auto.
    - apply (step_preserves_state_ok c R ver live mf o Hset Hst Ho).
    - apply (step_keeps_no_empty live mf o Hset Hst Ho Hp Hne).
  Qed.

  (* the invariant that does hold along every history: never an empty map, never an empty list *)
  Theorem no_empty_along_histories : forall ops,
    setting_ok c R ver -> Forall (op_ok c ver) ops -> Forall hop_plain ops ->
    no_empty (fst (run c ver ops)) = true.
  Proof.
    intros ops Hset Hall Hpl. unfold run.
    apply run_from_no_empty; auto. apply (initial_state_ok c ver).
  Qed.

  (* hence: the live object of a history is hollow-free iff it holds no null beneath the root *)
  Corollary hollow_free_along_histories_iff_no_null : forall ops,
    setting_ok c R ver -> Forall (op_ok c ver) ops -> Forall hop_plain ops ->
    (hollow_free (fst (run c ver ops)) <->
     (fst (run c ver ops) = VNull \/ no_null (fst (run c ver ops)) = true)).
  Proof.
    intros ops Hset Hall Hpl. rewrite hollow_free_iff.
    pose proof (no_empty_along_histories ops Hset Hall Hpl). tauto.
  Qed.

  (* ================= 4. the clause ================= *)

  (* REPAIRED (a): a group of duplicate members counts as a leaf, as in [Spec.Resolve.nodes]
     and [rnode_is_leaf] *)
  Theorem emptied_containers_disappear_dups : forall ops mgr cfg force o mf' q,
    setting_ok c R ver -> Forall (op_ok c ver) ops -> Forall hop_plain ops ->
    op_ok c ver (HApply mgr cfg force) ->
    apply_op c (ver, fst (run c ver ops)) (ver, cfg) ver (snd (run c ver ops)) mgr force = UOk (o, mf') ->
    let res := match o with Some t => snd t | None => fst (run c ver ops) end in
    wf_path q = true ->
    (forall p n, wf_path p = true -> is_prefix q p = true -> resolve_path s tr res p = Some n ->
                 rnode_is_leaf s n = false) ->
    present s tr res q = false \/ q = [].
  Proof.
    intros ops mgr cfg force o mf' q Hset Hall _ Hop Happly res Hq Hnoleaf.
    destruct q as [|e0 q0]; [right; reflexivity|]. left. set (q := e0 :: q0) in *.
    pose proof (reachable_states_ok c R ver ops Hset Hall) as Hst.
    pose proof (apply_step c R ver _ _ mgr cfg force o mf' Hset Hst Hop Happly) as Hst'.
    fold res in Hst'.
    pose proof Hset as (_ & _ & Hok & Hfam & _ & Htr & _). fold s tr in Hok, Hfam, Htr.
    pose proof (so_wf c ver res mf' Hst') as Hwr.
    destruct (so_conforms c ver res mf' Hst') as [Hnull|Hcr].
    { rewrite Hnull. unfold present, q. rewrite resolve_null_cons. reflexivity. }
    fold s tr in Hcr.
    unfold present. destruct (resolve_path s tr res q) as [[tq x|tq xs]|] eqn:Eres; [| |reflexivity]; exfalso.
    - destruct (resolve_sub s R Hok Hfam q res tr true tq x Htr Hwr Hcr Hq Eres) as (Htq & Hwx & Hcx).
      destruct (leaf_beneath s R Hok Hfam (S (vdepth x)) tq true x (Nat.lt_succ_diag_r _) Htq Hwx Hcx)
        as (r & n & Hr & Hresr & Hleaf).
      assert (Hqr : wf_path (q ++ r) = true) by (apply ReconcileBase.wf_path_app; auto).
      rewrite (Hnoleaf (q ++ r) n Hqr) in Hleaf; [discriminate|apply is_prefix_app; exact Hq|].
      rewrite resolve_path_app, Eres. exact Hresr.
    - assert (Hl : rnode_is_leaf s (RDup tq xs) = false).
      { apply (Hnoleaf q _ Hq); [|exact Eres]. rewrite <- (app_nil_r q) at 2. apply is_prefix_app. exact Hq. }
      discriminate Hl.
  Qed.

  (* REPAIRED (b): the statement verbatim, for a result without duplicate list members *)
  Theorem emptied_containers_disappear_nodup_result : forall ops mgr cfg force o mf' q,
    setting_ok c R ver -> Forall (op_ok c ver) ops -> Forall hop_plain ops ->
    op_ok c ver (HApply mgr cfg force) ->
    apply_op c (ver, fst (run c ver ops)) (ver, cfg) ver (snd (run c ver ops)) mgr force = UOk (o, mf') ->
    let res := match o with Some t => snd t | None => fst (run c ver ops) end in
    (forall p tp xs, wf_path p = true -> resolve_path s tr res p <> Some (RDup tp xs)) ->
    wf_path q = true ->
    (forall p tp x, is_prefix q p = true -> resolve_path s tr res p = Some (RNode tp x) -> ~ leafy s tp x) ->
    present s tr res q = false \/ q = [].
  Proof.
    intros ops mgr cfg force o mf' q Hset Hall Hpl Hop Happly res Hdf Hq Hnoleaf.
    apply (emptied_containers_disappear_dups ops mgr cfg force o mf' q Hset Hall Hpl Hop Happly Hq).
    intros p [tp x|tp xs] Hp Hpre Hres.
    - pose proof (Hnoleaf p tp x Hpre Hres) as Hnl. unfold leafy in Hnl. cbn [rnode_is_leaf].
      destruct (kind_of s tp x); try reflexivity; exfalso; apply Hnl; exact I.
    - exfalso. apply (Hdf p tp xs Hp). exact Hres.
  Qed.

  (* REPAIRED (c): the statement verbatim, along histories whose updates submit no duplicate
     member of a set or keyed list ([conforms .. false]; [op_ok] asks [conforms .. true] only) *)
  Definition hop_nodup (o : hop) : Prop :=
    match o with HUpdate _ obj => conforms s tr false obj = true | _ => True end.

  (* the object has no duplicate member (null: the empty object) *)
  Definition nodup_obj (live : value) : Prop := live = VNull \/ conforms s tr false live = true.

  Lemma apply_keeps_nodup : forall live mf mgr cfg force o mf',
    setting_ok c R ver -> state_ok c ver live mf -> op_ok c ver (HApply mgr cfg force) ->
    nodup_obj live ->
    apply_op c (ver, live) (ver, cfg) ver mf mgr force = UOk (o, mf') ->
    nodup_obj (match o with Some t => snd t | None => live end).
  Proof.
    intros live mf mgr cfg force o mf' Hset Hst Hop Hndl Happly.
    pose proof (state_ok_conforms c ver live mf _ Hst Hop) as Hcl. fold s tr in Hcl.
    pose proof Hset as (Hni & Hcid & Hok & Hfam & Hpure & Htr & Hkp).
    fold s tr in Hok, Hfam, Hpure, Htr, Hkp.
    pose proof Hkp as [Hnd Hks].
    pose proof Hop as (Hwc & Hcc & Hpl & Hgr). fold s tr in Hcc, Hgr.
    pose proof (so_wf c ver live mf Hst) as Hwl. pose proof (so_mf c ver live mf Hst) as Hmf.
    pose proof (so_single c ver live mf Hst) as Hsv. pose proof (so_current c ver live mf Hst) as Hcur.
    assert (Hmine : forall r, mf_get mgr mf = Some r -> applier_record_ok s tr (mr_set r)).
    { intros r Hg. apply (so_records c ver live mf Hst mgr r Hg). }
    assert (Hothers : forall m r, m <> mgr -> mf_get m mf = Some r -> owns_live_keys s tr live (mr_set r)).
    { intros m r _ Hg. apply (so_records c ver live mf Hst m r Hg). }
    assert (Hfl : conforms s tr false live = true).
    { destruct Hndl as [->|H]; [|exact H].
      rewrite (TransparentMerge.conforms_null_dup s tr false true). exact Hcl. }
    destruct (run_setup c R ver live cfg mf mgr force o mf' Hni Hcid Hok Hfam Htr Hsv Hmf Hcur
                Hwl Hwc Hcl Hcc Happly)
      as (M & set0 & n0 & pruned & n1 & Em & Eset0 & HwM & HcM & Hlf & Eprune & Ho).
    fold s tr in Em, Eset0, HcM, Hlf.
    pose proof (proj2 (TransparentMerge.merge_keeps s R Hok Hfam tr live cfg M Htr Hwl Hwc Hcl Hcc Em) Hfl) as HvM.
    destruct Ho as [[-> _]| ->]; [exact Hndl|]. cbn [snd]. right.
    destruct (mf_get mgr mf) as [last|] eqn:Elast.
    2:{ unfold prune in Eprune. inversion Eprune; subst pruned. exact HvM. }
    assert (Hset0ok : ps_ok set0 = true) by (apply (to_field_set_ok s R tr cfg set0 Hok Htr Hwc Eset0)).
    destruct (managers_sets s tr ver live mf mgr set0 Hsv Hmf Hset0ok Hothers)
      as (HU & HUcfg & HUown & Hmav & Htarget & _).
    set (mfp := mf_set mgr {| mr_set := set0; mr_ver := ver; mr_applied := true |} mf) in *.
    set (U := union_all mfp ps_empty_set) in *.
    assert (Hlv : mr_ver last = ver).
    { apply String.eqb_eq. apply (single_version_get ver mf mgr last Hsv Elast). }
    pose proof (mf_ok_get mf mgr last Hmf Elast) as Hlok.
    pose proof (Hmine last eq_refl) as Hlrec.
    pose proof (so_nonempty c ver live mf Hst mgr last Elast) as Hlne.
    assert (Hstep : forall T, nice s tr M T -> conforms s tr false (remove s tr M T) = true).
    { intros T HnT. apply (TransparentRemove.remove_conforms_nodup s R Hok Hfam Hnd M tr T Htr HwM HvM HnT). }
    destruct (prune_shape s R tr Hok Hfam Htr Hnd Hks live cfg M Hwc Hcc Hpl HwM HcM Hlf set0 U Eset0 HU
                HUcfg HUown (fun _ => True) (fun _ _ _ => I) c ver Hcid eq_refl eq_refl n0 mfp mgr last
                pruned n1 Hmav Htarget Hlv Hlok Hlrec Hlne I Eprune) as (T1 & Hn1 & _ & Hpruned).
    destruct (dangling_set s R tr Hok Hfam Htr Hnd Hks M HwM HcM T1 (mr_set last) Hn1 Hlok (proj1 Hlrec))
      as (_ & _ & HnT2).
    subst pruned. cbn [snd]. apply Hstep. exact HnT2.
  Qed.

  Lemma run_from_nodup : forall ops st,
    setting_ok c R ver -> Forall (op_ok c ver) ops -> Forall hop_nodup ops ->
    state_ok c ver (fst st) (snd st) -> nodup_obj (fst st) ->
    nodup_obj (fst (fold_left (hstep c ver) ops st)).
  Proof.
    induction ops as [|o ops IH]; intros [live mf] Hset Hall Hnd Hst Hl; [exact Hl|].
    cbn [fold_left]. inversion Hall as [|? ? Ho Hrest]; subst. inversion Hnd as [|? ? Hn Hnrest]; subst.
    cbn [fst snd] in Hst, Hl.
    apply IH; auto.
    - apply (step_preserves_state_ok c R ver live mf o Hset Hst Ho).
    - destruct o as [mgr cfg force|mgr obj]; cbn [hstep fst snd].
      + destruct (apply_op c (ver, live) (ver, cfg) ver mf mgr force) as [[o mf']|e] eqn:Happly; [|exact Hl].
        pose proof (apply_keeps_nodup live mf mgr cfg force o mf' Hset Hst Ho Hl Happly) as H.
        destruct o as [t|]; exact H.
      + destruct (update_op c (ver, live) (ver, obj) ver mf mgr) as [[t mf']|e] eqn:Hupd; [|exact Hl].
        destruct (update_step c R ver live mf mgr obj t mf' Hset Hst Ho Hupd) as [-> _].
        cbn [fst snd]. right. exact Hn.
  Qed.

  Theorem emptied_containers_disappear : forall ops mgr cfg force o mf' q,
    setting_ok c R ver -> Forall (op_ok c ver) ops -> Forall hop_plain ops ->
    Forall hop_nodup ops ->
    op_ok c ver (HApply mgr cfg force) ->
    apply_op c (ver, fst (run c ver ops)) (ver, cfg) ver (snd (run c ver ops)) mgr force = UOk (o, mf') ->
    let res := match o with Some t => snd t | None => fst (run c ver ops) end in
    wf_path q = true ->
    (forall p tp x, is_prefix q p = true -> resolve_path s tr res p = Some (RNode tp x) -> ~ leafy s tp x) ->
    present s tr res q = false \/ q = [].
  Proof.
    intros ops mgr cfg force o mf' q Hset Hall Hpl Hnd Hop Happly res Hq Hnoleaf.
    apply (emptied_containers_disappear_nodup_result ops mgr cfg force o mf' q Hset Hall Hpl Hop Happly);
      [|exact Hq|exact Hnoleaf].
    fold res.
    pose proof (reachable_states_ok c R ver ops Hset Hall) as Hst.
    assert (Hl : nodup_obj (fst (run c ver ops))).
    { unfold run. apply run_from_nodup; auto; [apply (initial_state_ok c ver)|left; reflexivity]. }
    pose proof (apply_keeps_nodup _ _ mgr cfg force o mf' Hset Hst Hop Hl Happly) as Hres.
    fold res in Hres.
    pose proof (apply_step c R ver _ _ mgr cfg force o mf' Hset Hst Hop Happly) as Hst'.
    fold res in Hst'. pose proof (so_wf c ver res mf' Hst') as Hwr.
    pose proof Hset as (_ & _ & Hok & Hfam & _ & Htr & _). fold s tr in Hok, Hfam, Htr.
    intros p tp xs Hp Hr.
    destruct Hres as [Hnull|Hc].
    - rewrite Hnull in Hr. destruct p; [discriminate|]. rewrite resolve_null_cons in Hr. discriminate.
    - apply (Visible.DF_of_conforms s R Hok Hfam res tr Htr Hwr Hc p tp xs Hp Hr).
  Qed.
End HollowFree.

(* ================= refutations of the statements as written, and examples ================= *)
Section Concrete.
  Open Scope string_scope.
  Let F := PEField.
  Let K (n : string) := PEKey [("name", VStr n)].
  Let item (n : string) (v : Z) := VMap [("name", VStr n); ("vv", VInt v)].
  Let itemn (n : string) := VMap [("name", VStr n)].
  Let ex_R := FieldSetLaws.ex_R.

  (* ---------- 1. removal, as stated ---------- *)
  (* removing the only entry of the map "mm" leaves  mm: null  behind *)
  Definition rf_obj : value := VMap [("mm", VMap [("k", VInt 1)])].
  Definition rf_set : pset := ps_of_paths [[F "mm"; F "k"]].

  Theorem remove_keeps_hollow_free_as_stated_refuted :
    setting_ok ex_config ex_R "v1" /\ wf_value rf_obj = true /\
    conforms ex_schema ex_rt true rf_obj = true /\ ps_ok rf_set = true /\ hollow_free rf_obj /\
    remove ex_schema ex_rt rf_obj rf_set = VMap [("mm", VNull)] /\
    ~ hollow_free (remove ex_schema ex_rt rf_obj rf_set).
  Proof.
    split; [exact ex_setting_ok|]. split; [reflexivity|]. split; [vm_compute; reflexivity|].
    split; [vm_compute; reflexivity|]. split; [right; reflexivity|].
    split; [vm_compute; reflexivity|].
    intros [H|H]; vm_compute in H; discriminate.
  Qed.

  (* ---------- 2./3. one apply and histories, as stated ---------- *)
  (* "a" applies a list member (its key); "d" updates a non-key field of it; "a" applies a
     configuration without the list: the member goes (its key was a's), "d" still owns a
     field beneath it so the list field "items" stays in the closure of the owned set, the
     list is emptied -- and is left behind as  items: null *)
  Definition hf_ops2 : list hop :=
    [ HApply "a" (VMap [("items", VList [itemn "y"])]) false;
      HUpdate "d" (VMap [("items", VList [item "y" 7])]) ].
  Definition hf_cfg : value := VMap [("aa", VInt 2)].
  Definition hf_ops3 : list hop := hf_ops2 ++ [HApply "a" hf_cfg false].
  Definition hf_live : value := VMap [("items", VList [item "y" 7])].
  Definition hf_res : value := VMap [("aa", VInt 2); ("items", VNull)].

  Lemma hf_ops3_ok : Forall (op_ok ex_config "v1") hf_ops3.
  Proof. repeat constructor; try (vm_compute; reflexivity); vm_compute; exact I. Qed.
  Lemma hf_ops2_ok : Forall (op_ok ex_config "v1") hf_ops2.
  Proof. repeat constructor; try (vm_compute; reflexivity); vm_compute; exact I. Qed.
  Lemma hf_ops3_plain : Forall (hop_plain) hf_ops3.
  Proof. repeat constructor. Qed.
  Lemma hf_cfg_ok : op_ok ex_config "v1" (HApply "a" hf_cfg false).
  Proof. repeat split; try (vm_compute; reflexivity); vm_compute; exact I. Qed.

  Theorem apply_keeps_hollow_free_as_stated_refuted :
    exists live mf mf',
      run ex_config "v1" hf_ops2 = (live, mf) /\
      setting_ok ex_config ex_R "v1" /\ state_ok ex_config "v1" live mf /\
      op_ok ex_config "v1" (HApply "a" hf_cfg false) /\ hollow_free live /\
      apply_op ex_config ("v1", live) ("v1", hf_cfg) "v1" mf "a" false = UOk (Some ("v1", hf_res), mf') /\
      ~ hollow_free hf_res.
  Proof.
    pose proof (reachable_states_ok ex_config ex_R "v1" hf_ops2 ex_setting_ok hf_ops2_ok) as Hst.
    exists (fst (run ex_config "v1" hf_ops2)), (snd (run ex_config "v1" hf_ops2)). eexists.
    split; [apply surjective_pairing|]. split; [exact ex_setting_ok|]. split; [exact Hst|].
    split; [exact hf_cfg_ok|]. split; [right; vm_compute; reflexivity|].
    split; [vm_compute; reflexivity|].
    intros [H|H]; vm_compute in H; discriminate.
  Qed.

  Theorem hollow_free_along_histories_as_stated_refuted :
    setting_ok ex_config ex_R "v1" /\ Forall (op_ok ex_config "v1") hf_ops3 /\
    Forall hop_plain hf_ops3 /\
    fst (run ex_config "v1" hf_ops3) = hf_res /\
    ~ hollow_free (fst (run ex_config "v1" hf_ops3)).
  Proof.
    split; [exact ex_setting_ok|]. split; [exact hf_ops3_ok|]. split; [exact hf_ops3_plain|].
    assert (E : fst (run ex_config "v1" hf_ops3) = hf_res) by (vm_compute; reflexivity).
    split; [exact E|]. rewrite E. intros [H|H]; vm_compute in H; discriminate.
  Qed.

  (* updates are not to blame: with applies only, over a schema with a map of structs.  "b"
     applies an entry of the map with one field; "a" takes that field over (forced apply) and
     then abandons it: the entry mm.k is still owned by "b", its only field goes, and the
     emptied struct is left as  k: null *)
  Definition ao_st : atom :=
    Atom None None (Some (MapT [SField "a" ex_num None; SField "b" ex_num None] empty_tr RUnset)).
  Definition ao_mm_tr : typeref := TR None (Atom None None (Some (MapT [] (ex_named "st") RUnset))) None.
  Definition ao_root : atom :=
    Atom None None (Some (MapT [SField "aa" ex_num None; SField "mm" ao_mm_tr None] empty_tr RUnset)).
  Definition ao_schema : schema := [("root", ao_root); ("st", ao_st)].
  Definition ao_config : config :=
    mkConfig (fun _ => (ao_schema, ex_named "root")) (fun _ _ _ v => COk v) None None false (fun l => l).
  Definition ao_R (t : typeref) : Prop := In t [ex_named "root"; ex_named "st"; ex_num; ao_mm_tr; empty_tr].

  Lemma ao_setting_ok : setting_ok ao_config ao_R "v1".
  Proof.
    split; [split; reflexivity|]. split; [intros n from to v; reflexivity|].
    split.
    { constructor.
      - intros t0 a t Htr Hr Ha. unfold ao_R in Htr. FieldSetLaws.split_in Htr;
          vm_compute in Hr; inversion Hr; subst a; discriminate Ha.
      - intros t0 a m k Htr Hr Ha. unfold ao_R in *. FieldSetLaws.split_in Htr;
          vm_compute in Hr; inversion Hr; subst a; simpl in Ha; inversion Ha; subst m;
          unfold field_type; simpl;
          repeat (match goal with |- context [String.eqb ?x ?y] => destruct (String.eqb x y) end; simpl);
          auto 10.
      - intros t0 a Htr Hr. unfold ao_R in Htr. FieldSetLaws.split_in Htr;
          vm_compute in Hr; inversion Hr; subst a; reflexivity. }
    split.
    { intros t0 a t Htr Hr Ha. unfold ao_R in Htr. FieldSetLaws.split_in Htr;
        vm_compute in Hr; inversion Hr; subst a; discriminate Ha. }
    split.
    { intros t0 sc t ma Htr Hr. unfold ao_R in Htr. FieldSetLaws.split_in Htr;
        vm_compute in Hr; discriminate Hr. }
    split; [left; reflexivity|]. split.
    - intros t0 a t k d Htr Hr Ha. unfold ao_R in Htr. FieldSetLaws.split_in Htr;
        vm_compute in Hr; inversion Hr; subst a; discriminate Ha.
    - intros t0 a t k ea mt Htr Hr Ha. unfold ao_R in Htr. FieldSetLaws.split_in Htr;
        vm_compute in Hr; inversion Hr; subst a; discriminate Ha.
  Qed.

  Definition ao_ops : list hop :=
    [ HApply "b" (VMap [("mm", VMap [("k", VMap [("a", VInt 1)])])]) false;
      HApply "a" (VMap [("mm", VMap [("k", VMap [("a", VInt 2)])])]) true;
      HApply "a" (VMap [("aa", VInt 2)]) false ].
  Definition ao_res : value := VMap [("aa", VInt 2); ("mm", VMap [("k", VNull)])].

  Theorem hollow_free_applies_only_refuted :
    setting_ok ao_config ao_R "v1" /\ Forall (op_ok ao_config "v1") ao_ops /\
    Forall (hop_plain) ao_ops /\
    Forall (fun o => match o with HApply _ _ _ => True | _ => False end) ao_ops /\
    fst (run ao_config "v1" ao_ops) = ao_res /\
    ~ hollow_free (fst (run ao_config "v1" ao_ops)).
  Proof.
    split; [exact ao_setting_ok|].
    split; [repeat constructor; try (vm_compute; reflexivity); vm_compute; exact I|].
    split; [repeat constructor|]. split; [repeat constructor|].
    assert (E : fst (run ao_config "v1" ao_ops) = ao_res) by (vm_compute; reflexivity).
    split; [exact E|]. rewrite E. intros [H|H]; vm_compute in H; discriminate.
  Qed.

  (* the clause "containers left without content disappear too", in its intended reading, is
     refuted by the same apply: the list "items" of the live object is a container, nothing
     beneath it is left in the result, and the result still has the path (as a null) *)
  Theorem emptied_container_is_left_as_null :
    let live := fst (run ex_config "v1" hf_ops2) in
    let res := fst (run ex_config "v1" hf_ops3) in
    granular ex_schema ex_rt live /\
    (exists tq x, resolve_path ex_schema ex_rt live [F "items"] = Some (RNode tq x) /\ granular ex_schema tq x) /\
    (exists tq, resolve_path ex_schema ex_rt res [F "items"] = Some (RNode tq VNull)) /\
    (forall e, present ex_schema ex_rt res [F "items"; e] = false) /\
    present ex_schema ex_rt res [F "items"] = true.
  Proof.
    cbv zeta. split; [vm_compute; exact I|]. split.
    { eexists. eexists. split; [vm_compute; reflexivity|]. vm_compute. exact I. }
    split; [eexists; vm_compute; reflexivity|]. split; [|vm_compute; reflexivity].
    intros e.
    assert (E : fst (run ex_config "v1" hf_ops3) = hf_res) by (vm_compute; reflexivity).
    rewrite E. unfold present.
    change [F "items"; e] with (([F "items"] ++ [e])%list). rewrite resolve_path_app.
    assert (E1 : resolve_path ex_schema ex_rt hf_res [F "items"] =
                 Some (RNode (TR None (Atom None (Some (ListT (ex_named "item") RAssociative ["name"])) None) None) VNull))
      by (vm_compute; reflexivity).
    rewrite E1, resolve_null_cons. reflexivity.
  Qed.

  (* ---------- 4. the clause, as stated ---------- *)
  (* an update may submit duplicate members of a keyed list (conforms .. true); a list all of
     whose members are duplicates of one another has no RNode leaf beneath it *)
  Definition dp_obj : value := VMap [("items", VList [item "y" 7; item "y" 8])].
  Definition dp_ops : list hop := [HUpdate "d" dp_obj].
  Definition dp_res : value := VMap [("aa", VInt 2); ("items", VList [item "y" 7; item "y" 8])].
  Let dp_lt : listT := ListT (ex_named "item") RAssociative ["name"].
  Let dp_tl : typeref := TR None (Atom None (Some dp_lt) None) None.
  Let dp_l : list value := [item "y" 7; item "y" 8].

  Lemma dp_no_rnode : forall e rest tp x,
    resolve_path ex_schema dp_tl (VList dp_l) (e :: rest) <> Some (RNode tp x).
  Proof.
    intros e rest tp x. cbn [resolve_path].
    assert (Ek : kind_of ex_schema dp_tl (VList dp_l) = KList dp_lt dp_l) by reflexivity.
    rewrite Ek.
    assert (Eg : group_items ex_schema dp_lt dp_l [] = Some [(K "y", dp_l)]) by (vm_compute; reflexivity).
    destruct e as [n|key|v|i]; try discriminate; rewrite Eg; unfold lookup_group; cbn [find fst];
      (match goal with |- context [peeqb ?a ?b] => destruct (peeqb a b) end; [|discriminate]);
      unfold dp_l; destruct rest; discriminate.
  Qed.

  Theorem emptied_containers_disappear_as_stated_refuted :
    exists mf',
      setting_ok ex_config ex_R "v1" /\ Forall (op_ok ex_config "v1") dp_ops /\ Forall hop_plain dp_ops /\
      op_ok ex_config "v1" (HApply "a" hf_cfg false) /\
      apply_op ex_config ("v1", fst (run ex_config "v1" dp_ops)) ("v1", hf_cfg) "v1"
               (snd (run ex_config "v1" dp_ops)) "a" false = UOk (Some ("v1", dp_res), mf') /\
      wf_path [F "items"] = true /\
      (forall p tp x, is_prefix [F "items"] p = true ->
         resolve_path ex_schema ex_rt dp_res p = Some (RNode tp x) -> ~ leafy ex_schema tp x) /\
      ~ (present ex_schema ex_rt dp_res [F "items"] = false \/ [F "items"] = []).
  Proof.
    eexists. split; [exact ex_setting_ok|].
    split; [repeat constructor; vm_compute; reflexivity|]. split; [repeat constructor|].
    split; [exact hf_cfg_ok|]. split; [vm_compute; reflexivity|]. split; [reflexivity|]. split.
    - intros p tp x Hpre Hres.
      destruct p as [|e p']; [discriminate Hpre|].
      cbn [is_prefix] in Hpre. apply andb_true_iff in Hpre. destruct Hpre as [He _].
      apply SetCheckers.peeqb_field_inv in He. subst e.
      destruct p' as [|e2 rest].
      + vm_compute in Hres. inversion Hres; subst tp x. unfold leafy. vm_compute. intros [].
      + exfalso.
        change (PEField "items" :: e2 :: rest) with (([PEField "items"] ++ e2 :: rest)%list) in Hres.
        rewrite resolve_path_app in Hres.
        assert (E1 : resolve_path ex_schema ex_rt dp_res [PEField "items"] = Some (RNode dp_tl (VList dp_l)))
          by (vm_compute; reflexivity).
        rewrite E1 in Hres. exact (dp_no_rnode e2 rest tp x Hres).
    - intros [H|H]; [vm_compute in H; discriminate|discriminate].
  Qed.

  (* ---------- examples: the theorems at the final state of the history of Proofs/History.v ---------- *)
  Lemma hx_ops_plain : Forall hop_plain hx_ops.
  Proof. repeat constructor; vm_compute; reflexivity. Qed.

  (* the invariant, by the theorem and by evaluation *)
  Example no_empty_example :
    setting_ok ex_config ex_R "v1" /\ Forall (op_ok ex_config "v1") hx_ops /\ Forall hop_plain hx_ops /\
    no_empty (fst (run ex_config "v1" hx_ops)) = true /\
    fst (run ex_config "v1" hx_ops) = hx_obj /\ no_empty hx_obj = true /\ hollow_free hx_obj.
  Proof.
    split; [exact ex_setting_ok|]. split; [exact hx_ops_ok|]. split; [exact hx_ops_plain|].
    split; [exact (no_empty_along_histories ex_config ex_R "v1" hx_ops ex_setting_ok hx_ops_ok hx_ops_plain)|].
    split; [rewrite hx_run; reflexivity|]. split; [reflexivity|right; reflexivity].
  Qed.

  (* at that state manager "c" (who owns mm.k and nothing else) applies a configuration that no
     longer mentions the map "mm": its only entry goes, and the map goes WITH it (the closure
     of c's record contains the field "mm"): the result is hollow-free.  The theorem says that
     the removed set is covered; the result is also shown by evaluation *)
  Definition hx_cfg2 : value := VMap [("aa", VInt 2)].
  Definition hx_res2 : value := VMap [("aa", VInt 2); ("items", VList [item "y" 7; item "z" 3])].

  Lemma hx_state_ok : state_ok ex_config "v1" hx_obj hx_mf.
  Proof.
    pose proof (reachable_states_ok ex_config ex_R "v1" hx_ops ex_setting_ok hx_ops_ok) as H.
    rewrite hx_run in H. exact H.
  Qed.

  Lemma hx_cfg2_ok : op_ok ex_config "v1" (HApply "c" hx_cfg2 true).
  Proof. repeat split; try (vm_compute; reflexivity); vm_compute; exact I. Qed.

  Example apply_example :
    exists mf',
      apply_op ex_config ("v1", hx_obj) ("v1", hx_cfg2) "v1" hx_mf "c" true = UOk (Some ("v1", hx_res2), mf') /\
      present ex_schema ex_rt hx_obj [F "mm"] = true /\ present ex_schema ex_rt hx_res2 [F "mm"] = false /\
      hollow_free hx_res2 /\ no_empty hx_res2 = true /\
      exists M T, merge ex_schema ex_rt hx_obj hx_cfg2 = Some (Some M) /\ plain M = true /\
        wf_value M = true /\ conforms ex_schema ex_rt true M = true /\ ps_ok T = true /\
        nice ex_schema ex_rt M T /\ sub_present ex_schema ex_rt M T /\ covered ex_schema ex_rt M T /\
        hx_res2 = remove ex_schema ex_rt M T.
  Proof.
    eexists. split; [vm_compute; reflexivity|].
    split; [vm_compute; reflexivity|]. split; [vm_compute; reflexivity|].
    assert (Hhf : hollow_free hx_res2) by (right; reflexivity).
    split; [exact Hhf|].
    assert (Happly : exists mf', apply_op ex_config ("v1", hx_obj) ("v1", hx_cfg2) "v1" hx_mf "c" true
                       = UOk (Some ("v1", hx_res2), mf')) by (eexists; vm_compute; reflexivity).
    destruct Happly as (mf' & Happly).
    split.
    { exact (apply_keeps_no_empty ex_config ex_R "v1" hx_obj hx_mf "c" hx_cfg2 true _ mf'
               ex_setting_ok hx_state_ok hx_cfg2_ok eq_refl Happly). }
    destruct (apply_hollow_free_exact ex_config ex_R "v1" hx_obj hx_mf "c" hx_cfg2 true _ mf'
                ex_setting_ok hx_state_ok hx_cfg2_ok (or_intror eq_refl) Happly)
      as (M & Em & HplM & _ & Hex).
    destruct Hex as (T & HnT & HspT & Hres & Hiff); [discriminate|vm_compute; discriminate|].
    cbn [snd] in Hres, Hiff.
    pose proof ex_setting_ok as (_ & _ & Hok & Hfam & _ & Htr & _).
    assert (Hwl : wf_value hx_obj = true) by reflexivity.
    assert (Hwc : wf_value hx_cfg2 = true) by reflexivity.
    assert (Hcl : conforms ex_schema ex_rt true hx_obj = true) by (vm_compute; reflexivity).
    assert (Hcc : conforms ex_schema ex_rt false hx_cfg2 = true) by (vm_compute; reflexivity).
    destruct (merge_conforms ex_schema ex_R ex_rt hx_obj hx_cfg2 M Hok Hfam Htr Hwl Hwc Hcl Hcc Em) as [HcM HwM].
    exists M, T. split; [exact Em|]. split; [exact HplM|]. split; [exact HwM|]. split; [exact HcM|].
    split; [exact (n_ok _ _ _ _ HnT)|]. split; [exact HnT|]. split; [exact HspT|].
    split; [apply Hiff; exact Hhf|exact Hres].
  Qed.

  (* the first apply of a manager without record: [apply_keeps_hollow_free_first] *)
  Definition hx_cfg3 : value := VMap [("mm", VMap [("j", VInt 3)])].
  Example first_apply_example :
    (exists o mf', apply_op ex_config ("v1", hx_obj) ("v1", hx_cfg3) "v1" hx_mf "e" false = UOk (o, mf')) /\
    mf_get "e" hx_mf = None /\
    forall o mf', apply_op ex_config ("v1", hx_obj) ("v1", hx_cfg3) "v1" hx_mf "e" false = UOk (o, mf') ->
      hollow_free (match o with Some t => snd t | None => hx_obj end).
  Proof.
    split; [eexists; eexists; vm_compute; reflexivity|]. split; [reflexivity|].
    intros o mf' H.
    apply (apply_keeps_hollow_free_first ex_config ex_R "v1" hx_obj hx_mf "e" hx_cfg3 false o mf'
             ex_setting_ok hx_state_ok); auto.
    - repeat split; try (vm_compute; reflexivity); vm_compute; exact I.
    - right. reflexivity.
  Qed.

  (* the clause, in the repaired forms (a) and (c), for the apply of [apply_example] *)
  Lemma hx_ops_nodup : Forall (hop_nodup ex_config "v1") hx_ops.
  Proof. repeat constructor; vm_compute; reflexivity. Qed.

  Example clause_example :
    forall q, wf_path q = true ->
      ((forall p n, wf_path p = true -> is_prefix q p = true ->
          resolve_path ex_schema ex_rt hx_res2 p = Some n -> rnode_is_leaf ex_schema n = false) ->
       present ex_schema ex_rt hx_res2 q = false \/ q = []) /\
      ((forall p tp x, is_prefix q p = true ->
          resolve_path ex_schema ex_rt hx_res2 p = Some (RNode tp x) -> ~ leafy ex_schema tp x) ->
       present ex_schema ex_rt hx_res2 q = false \/ q = []).
  Proof.
    intros q Hq.
    assert (Happly : exists mf', apply_op ex_config ("v1", fst (run ex_config "v1" hx_ops)) ("v1", hx_cfg2) "v1"
                       (snd (run ex_config "v1" hx_ops)) "c" true
                       = UOk (Some ("v1", hx_res2), mf')) by (eexists; vm_compute; reflexivity).
    destruct Happly as (mf' & Happly). split; intros H.
    - exact (emptied_containers_disappear_dups ex_config ex_R "v1" hx_ops "c" hx_cfg2 true _ mf' q
               ex_setting_ok hx_ops_ok hx_ops_plain hx_cfg2_ok Happly Hq H).
    - exact (emptied_containers_disappear ex_config ex_R "v1" hx_ops "c" hx_cfg2 true _ mf' q
               ex_setting_ok hx_ops_ok hx_ops_plain hx_ops_nodup hx_cfg2_ok Happly Hq H).
  Qed.
End Concrete.

