(* Top-level mirrors of the inner loops of the field-set walker and of the remove/extract
   walker, with their unfolding equations; basic facts on atom dispatch. *)
From Coq Require Import List ZArith String Bool Arith Lia.
From SMD Require Import Model.Value Model.Order Model.PathElem Model.PathSet Model.Schema
  Model.Walk Model.FieldSet Model.Remove Spec.PathsAsSets Spec.RefValid Spec.Resolve
  Proofs.OrderLaws Proofs.PathSetLaws Proofs.ValidateLaws Proofs.SchemaOk.
Import ListNotations.
Open Scope bool_scope.

Section FsMirrors.
  Variables (s : schema).

  Section ListLoops.
    Variables (t : listT) (prefix : path).
    Fixpoint fs_pass1 (l : list value) (seen dups : pes) (acc : list path) (err : bool)
      {struct l} : pes * list path * bool :=
      match l with
      | [] => (dups, acc, err)
      | child :: rest =>
          let e := list_item_pe_or_zero s t child in
          if pes_has e seen then
            if pes_has e dups then fs_pass1 rest seen dups acc err
            else fs_pass1 rest seen (pes_insert e dups) (acc ++ [prefix ++ [e]]) err
          else fs_pass1 rest (pes_insert e seen) dups acc err
      end.

    Section Pass2.
    Variable dups : pes.
    Fixpoint fs_pass2 (l : list value) {struct l} : bool * list path :=
      match l with
      | [] => (false, [])
      | child :: rest =>
          let '(e2, r) := fs_pass2 rest in
          let e := list_item_pe_or_zero s t child in
          if pes_has e dups then (e2, r)
          else
            let '(e1, sub) := fs_paths s (list_elem t) (prefix ++ [e]) child in
            (e1 || e2, sub ++ [prefix ++ [e]] ++ r)
      end.
    End Pass2.
  End ListLoops.

  Definition fs_own (t : mapT) (p : path) (k : string) (child : value) : list path :=
    match child with
    | VNull => [p]
    | VMap [] => [p]
    | _ => if has_field t k then [] else [p]
    end.

  Section MapLoop.
    Variables (t : mapT) (prefix : path).
    Fixpoint fs_map_go (m : list (string * value)) {struct m} : bool * list path :=
      match m with
      | [] => (false, [])
      | (k, child) :: rest =>
          let p := prefix ++ [PEField k] in
          let '(e1, sub) := fs_paths s (field_type t k) p child in
          let own := fs_own t p k child in
          let '(e2, r) := fs_map_go rest in
          (e1 || e2, sub ++ own ++ r)
      end.
  End MapLoop.
End FsMirrors.

Lemma fs_paths_eq : forall s tr prefix v,
  fs_paths s tr prefix v =
  match resolve s tr with
  | None => (true, [])
  | Some a =>
      match handle_atom (deduce_atom a (Some v)) with
      | HInvalid => (true, [])
      | HScalar _ => (false, [prefix])
      | HList t =>
          if rel_is_atomic (list_rel t) then (false, [prefix])
          else
            match v with
            | VList l =>
                let '(dups, acc1, err1) := fs_pass1 s t prefix l [] [] [] false in
                let '(e2, r2) := fs_pass2 s t prefix dups l in
                (err1 || e2, acc1 ++ r2)
            | _ => (false, [])
            end
      | HMap t =>
          if rel_is_atomic (map_rel t) then (false, [prefix])
          else
            match v with
            | VMap m => fs_map_go s t prefix m
            | _ => (false, [])
            end
      end
  end.
Proof. intros s tr prefix v. destruct v; reflexivity. Qed.

Section RmMirrors.
  Variables (s : schema) (extract : bool) (toRemove : pset).

  Definition rm_has (e : pe) : bool := ps_has [e] toRemove.
  Definition rm_subset (e : pe) : pset := ps_with_prefix e toRemove.

  Section ListLoop.
    Variable t : listT.
    Fixpoint rm_list_go (l : list value) {struct l} : list value :=
      match l with
      | [] => []
      | item :: rest =>
          let e := list_item_pe_or_zero s t item in
          let has := rm_has e in
          let subset := rm_subset e in
          if has && negb extract then rm_list_go rest
          else if has && ps_empty subset then
            remove_items s extract (list_elem t) subset item :: rm_list_go rest
          else if negb (ps_empty subset) then
            remove_items s extract (list_elem t) subset item :: rm_list_go rest
          else if extract then rm_list_go rest
          else item :: rm_list_go rest
      end.
  End ListLoop.

  Section MapLoop.
    Variable t : mapT.
    Fixpoint rm_map_go (m : list (string * value)) {struct m} : list (string * value) :=
      match m with
      | [] => []
      | (k, val) :: rest =>
          let e := PEField k in
          let ft := field_type t k in
          if ps_has [e] toRemove then
            if extract then (k, remove_items s extract ft (ps_with_prefix e toRemove) val) :: rm_map_go rest
            else rm_map_go rest
          else
            let subset := ps_with_prefix e toRemove in
            if negb (ps_empty subset) then
              (k, remove_items s extract ft subset val) :: rm_map_go rest
            else if extract then rm_map_go rest
            else (k, val) :: rm_map_go rest
      end.
  End MapLoop.
End RmMirrors.

Lemma remove_items_eq : forall s extract tr toRemove v,
  remove_items s extract tr toRemove v =
  match resolve s tr with
  | None => VNull
  | Some a =>
      match handle_atom (deduce_atom a (Some v)) with
      | HInvalid => VNull
      | HScalar _ => v
      | HList t =>
          match v with
          | VList [] => VNull
          | VList l =>
              if rel_is_atomic (list_rel t) then (if extract then v else VNull)
              else let items := rm_list_go s extract toRemove t l in match items with [] => VNull | _ => VList items end
          | _ => VNull
          end
      | HMap t =>
          match v with
          | VMap [] => VNull
          | VMap m =>
              if rel_is_atomic (map_rel t) then (if extract then v else VNull)
              else let out := rm_map_go s extract toRemove t m in match out with [] => VNull | _ => VMap out end
          | _ => VNull
          end
      end
  end.
Proof.
  intros s extract tr toRemove v.
  destruct v as [| | | | |[|x l]|[|kv m]]; try reflexivity.
Qed.
