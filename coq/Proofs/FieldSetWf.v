(* Every path produced by the field-set walker (Model/FieldSet.v) on a well-formed value
   is well formed, relative to a set R of type references closed under descent
   (Proofs/SchemaOk.v); hence ToFieldSet yields a well-formed set. *)
From Coq Require Import List ZArith String Bool.
From SMD Require Import Model.Value Model.Order Model.PathElem Model.PathSet Model.Schema
  Model.Walk Model.FieldSet Proofs.OrderLaws Proofs.PathSetLaws Proofs.SchemaOk Proofs.ValidateLaws.
From SMD Require Proofs.CompareBase.
Import ListNotations.
Open Scope bool_scope.

Lemma wf_path_app1 : forall p e, wf_path p = true -> wf_pe e = true -> wf_path (p ++ [e]) = true.
Proof.
  intros p e Hp He. unfold wf_path in *. rewrite forallb_app, Hp. simpl. rewrite He. reflexivity.
Qed.

Theorem fs_paths_wf : forall s R, schema_ok s R -> forall v tr prefix,
  R tr -> wf_path prefix = true -> wf_value v = true ->
  forallb wf_path (snd (fs_paths s tr prefix v)) = true.
Proof.
  intros s R Hok v. induction v as [| b | z | q | str | l IH | kvs IH] using value_ind';
    intros tr prefix HR Hp Hwf; cbn [fs_paths];
    (destruct (resolve s tr) as [a|] eqn:Hres; [|reflexivity]);
    match goal with |- context [handle_atom ?x] => destruct (handle_atom x) as [t|sc|t|] eqn:Hh end;
    try reflexivity;
    try (destruct (rel_is_atomic _); try reflexivity);
    try (cbn [snd forallb]; rewrite Hp; reflexivity).
  - (* list *)
    assert (R (list_elem t)) as HRel.
    { apply CompareBase.handle_atom_list in Hh. apply CompareBase.deduce_list in Hh.
      eapply (so_list s R Hok); eassumption. }
    cbn [wf_value] in Hwf.
    match goal with |- context [?g l [] [] [] false] =>
      assert (forall l0 seen dups acc err, forallb wf_value l0 = true -> forallb wf_path acc = true ->
                forallb wf_path (snd (fst (g l0 seen dups acc err))) = true) as Hp1
    end.
    { clear IH. induction l0 as [|child rest IHl]; intros seen dups acc err Hl Hacc; [exact Hacc|].
      cbn [forallb] in Hl. apply andb_true_iff in Hl. destruct Hl as [Hc Hr].
      cbv beta iota zeta.
      pose proof (list_item_pe_or_zero_wf_el s R t child Hok HRel Hc) as Hwe.
      set (e := list_item_pe_or_zero s t child) in *.
      destruct (pes_has e seen); [|apply IHl; assumption].
      destruct (pes_has e dups); [apply IHl; assumption|].
      apply IHl; [exact Hr|]. rewrite forallb_app, Hacc. cbn [forallb].
      rewrite (wf_path_app1 prefix e Hp Hwe). reflexivity. }
    match goal with |- context [?g l [] [] [] false] =>
      specialize (Hp1 l [] [] [] false Hwf eq_refl); destruct (g l [] [] [] false) as [[dups acc1] err1]
    end.
    cbn [fst snd] in Hp1.
    match goal with |- context [let '(_, _) := ?g l in _] =>
      assert (forall l0, Forall (fun v : value => forall (tr : typeref) (prefix : path), R tr ->
                  wf_path prefix = true -> wf_value v = true ->
                  forallb wf_path (snd (fs_paths s tr prefix v)) = true) l0 ->
                forallb wf_value l0 = true -> forallb wf_path (snd (g l0)) = true) as Hp2
    end.
    { clear IH Hp1. induction l0 as [|child rest IHl]; intros HF Hl; [reflexivity|].
      inversion HF as [|x y Hchild Hrest]; subst.
      cbn [forallb] in Hl. apply andb_true_iff in Hl. destruct Hl as [Hc Hr].
      specialize (IHl Hrest Hr). cbv beta iota.
      match type of IHl with forallb wf_path (snd ?gr) = true => destruct gr as [e2 r] end.
      cbn [snd] in IHl.
      pose proof (list_item_pe_or_zero_wf_el s R t child Hok HRel Hc) as Hwe.
      cbv zeta.
      set (e := list_item_pe_or_zero s t child) in *.
      destruct (pes_has e dups); [exact IHl|].
      pose proof (Hchild (list_elem t) (prefix ++ [e]) HRel (wf_path_app1 prefix e Hp Hwe) Hc) as Hsub.
      destruct (fs_paths s (list_elem t) (prefix ++ [e]) child) as [e1 sub].
      cbn [snd] in *. rewrite !forallb_app. cbn [forallb].
      repeat (apply andb_true_iff; split); try assumption; try reflexivity. apply wf_path_app1; assumption. }
    specialize (Hp2 l IH Hwf).
    match type of Hp2 with forallb wf_path (snd ?gr) = true => destruct gr as [e2 r2] end.
    cbn [snd] in *. rewrite forallb_app. apply andb_true_iff; split; assumption.
  - (* map *)
    assert (forall k, R (field_type t k)) as HRf.
    { intros k. apply CompareBase.handle_atom_map in Hh. apply CompareBase.deduce_map in Hh.
      eapply (so_map s R Hok); eassumption. }
    cbn [wf_value] in Hwf. apply andb_true_iff in Hwf. destruct Hwf as [_ Hm].
    revert IH Hm. generalize kvs. clear kvs Hh.
    induction kvs as [|[k child] rest IHm]; intros HF Hm; [reflexivity|].
    inversion HF as [|x y Hchild Hrest]; subst. cbn [snd] in Hchild.
    cbn [forallb snd] in Hm. apply andb_true_iff in Hm. destruct Hm as [Hc Hr].
    specialize (IHm Hrest Hr). cbv beta iota.
    assert (wf_path (prefix ++ [PEField k]) = true) as Hpk by (apply wf_path_app1; [exact Hp|reflexivity]).
    pose proof (Hchild (field_type t k) (prefix ++ [PEField k]) (HRf k) Hpk Hc) as Hsub.
    destruct (fs_paths s (field_type t k) (prefix ++ [PEField k]) child) as [e1 sub].
    match type of IHm with forallb wf_path (snd ?gr) = true => destruct gr as [e2 r] end.
    cbn [snd] in *. rewrite !forallb_app.
    assert (forallb wf_path [prefix ++ [PEField k]] = true) as H1 by (cbn [forallb]; rewrite Hpk; reflexivity).
    repeat (apply andb_true_iff; split); try assumption.
    destruct child as [| | | | | |[|]]; try exact H1;
      destruct (has_field t k); try exact H1; reflexivity.
Qed.

Theorem to_field_set_ok : forall s R tr v fs, schema_ok s R -> R tr -> wf_value v = true ->
  to_field_set s tr v = Some fs -> ps_ok fs = true.
Proof.
  intros s R tr v fs Hok HR Hv H. unfold to_field_set in H.
  pose proof (fs_paths_wf s R Hok v tr [] HR eq_refl Hv) as Hw.
  destruct (fs_paths s tr [] v) as [e ps]. destruct e; [discriminate|].
  inversion H; subst fs. apply ps_of_paths_ok. exact Hw.
Qed.

