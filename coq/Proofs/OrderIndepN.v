(* C09 for any number of API versions: the result of the add-back loop of the prune stage
   (update.go, as repaired: the passes over the versions are repeated until a whole round
   adds nothing -- or leaves the object as the previous round left it) does not depend on
   the order in which the versions are visited, when the merged object has no empty list.

   Setting: identity converter, one schema and root type for every version label, a merged
   object M that is well formed, valid (no duplicate list members) and contains no empty
   list; the pruned object the loop starts from is [remove M T0] for a nice set T0; the
   set recorded at each version is well formed and owns the key fields of the list members
   of M it owns ([owns_live_keys], what makes every pass a nice removal).

   With N the node set of M and, for a removal set T, kept T = the members of N no prefix
   of which is in T:
     - [node_set_removed]   node_set (remove M T) = kept T
     - [kept_pass]          a pass for a version with recorded set U maps the kept set K
                            to { q in N : every non-empty prefix of q is in K or in en U },
                            a monotone inflationary operator
     - [exit_no_progress]   the second exit of the loop (same object as after the previous
                            round) is never taken after a round that raised the flag
     - [run_fixed]          a run of the loop that stops has reached a common fixed point of
                            the operators of all versions, and it is the least one above
                            kept T0 ([Kstar])
     - [remove_ext]         remove M T is determined by kept T (Proofs/RemoveExt.v)
     - [fuel_enough]        every round that continues the loop makes the kept set grow
                            (but, possibly, the first), and N has fewer members than M has
                            values (Proofs/NodeCount.v): the fuel 2 + value_size M suffices
   hence
     - [add_back_owned_order_independent]  two runs that end give the same object,
     - [add_back_owned_total]              every run ends,
     - [add_back_owned_deterministic]      both together,
     - [prune_order_independent]           the object the whole prune stage returns is the same
   (the conversion counters are not: the number of rounds depends on the order, see
   [ex3_results]; nor is the version label of the pruned object, the last version visited).

   The hypothesis on empty lists cannot be dropped.  The field-set walker records nothing
   for an empty list, so that a struct beneath which only empty lists are left is invisible
   to the loop, and a pass can undo what another pass added back.
     - [order_independence_needs_no_empty_list]: two orders, different pruned objects (with
       the same field set);
     - [add_back_oscillates_empty_list], [cx_round_cycle]: a round that leads back to the
       state it started from with the flag raised (update.go before its second repair: the
       loop does not come to an end; this was replayed on the Go implementation);
     - [apply_order_dependent_empty_list], [prune_order_independence_needs_no_empty_list]:
       with the second repair the loop stops on the object the LAST pass of the round leaves:
       the result of Apply -- object and managed fields -- depends on the order. *)
From Coq Require Import List ZArith String Bool Arith Lia Permutation.
From SMD Require Import Model.Value Model.Order Model.PathElem Model.PathSet Model.Schema Model.Walk
  Model.Validate Model.FieldSet Model.Remove Model.Merge Model.Compare Model.Matcher Model.Reconcile
  Model.Updater
  Spec.PathsAsSets Spec.RefValid Spec.Resolve Spec.Agree Spec.Examples
  Proofs.OrderLaws Proofs.PathSetLaws Proofs.SchemaOk Proofs.FieldSetBase Proofs.FieldSetShape
  Proofs.FieldSetPaths Proofs.FieldSetWf Proofs.FieldSetLaws Proofs.RemoveAbsent Proofs.RemoveWf
  Proofs.ResolveLaws Proofs.ReconcileBase Proofs.MergeBase
  Proofs.RemoveFrame Proofs.RemoveMono Proofs.EnLaws Proofs.NodeSet Proofs.KeyFields Proofs.VeqbResolve
  Proofs.ApplyEffect Proofs.PruneShape Proofs.OrderIndep Proofs.RemoveExt Proofs.Visible Proofs.NodeCount.
Import ListNotations.
Open Scope bool_scope.
Open Scope list_scope.

Local Arguments ps_has : simpl never.
Local Arguments ps_with_prefix : simpl never.
Local Arguments ps_empty : simpl never.

Section Static.
  Variables (s : schema) (R : typeref -> Prop) (tr : typeref).
  Hypothesis Hok : schema_ok s R.
  Hypothesis Hfam : family_refs s R.
  Hypothesis Htr : R tr.
  Hypothesis Hnd : keys_nodefault s R.
  Hypothesis Hks : keys_scalar s R.

  Variable M : value.
  Hypothesis HwM : wf_value M = true.
  Hypothesis HcM : conforms s tr true M = true.
  Hypothesis HNE : NE s tr M.
  Hypothesis HDF : DF s tr M.

  Let N := node_set s tr M.

  (* ---------- objects obtained by removal ---------- *)

  Lemma removed_ok : forall T, nice s tr M T ->
    wf_value (remove s tr M T) = true /\ conforms s tr true (remove s tr M T) = true /\
    NE s tr (remove s tr M T) /\ DF s tr (remove s tr M T).
  Proof.
    intros T Hn. split; [apply remove_wf; exact HwM|]. split.
    - apply (remove_conforms s R Hok Hfam Hnd M tr T Htr HwM HcM Hn).
    - split.
      + apply (remove_NE s R Hok Hfam Hnd tr M T Htr HwM HcM HNE HDF Hn).
      + apply (remove_DF s R Hok Hfam Hnd tr M T Htr HwM HcM HDF Hn).
  Qed.

  Lemma N_ok : ps_ok N = true.
  Proof. apply (node_set_ok s R Hok tr M Htr HwM). Qed.

  Lemma N_present : forall q, wf_path q = true -> ps_has q N = true -> present s tr M q = true.
  Proof. intros q Hq H. apply (node_set_present s R Hok Hfam tr M q Htr HwM HcM Hq H). Qed.

  Lemma N_visible : forall q, wf_path q = true -> q <> [] -> present s tr M q = true -> ps_has q N = true.
  Proof. intros q Hq Hne H. apply (visible s R Hok Hfam M tr q Htr HwM HcM HNE HDF Hq Hne H). Qed.

  Lemma firstn_nonnil' : forall (q : path) n, 1 <= n <= List.length q -> firstn n q <> [].
  Proof. intros q n Hn. apply firstn_nonnil; [lia|]. destruct q; [simpl in Hn; lia|discriminate]. Qed.

  Lemma N_prefix : forall q n, wf_path q = true -> ps_has q N = true -> 1 <= n <= List.length q ->
    ps_has (firstn n q) N = true.
  Proof.
    intros q n Hq H Hn.
    apply (node_set_prefix s R Hok Hfam M tr (firstn n q) (skipn n q) Htr HwM HcM HNE HDF).
    - rewrite firstn_skipn. exact Hq.
    - apply firstn_nonnil'. exact Hn.
    - rewrite firstn_skipn. exact H.
  Qed.

  (* ---------- the kept set of a removal ---------- *)

  Definition kept (T : pset) (q : path) : bool := ps_has q N && negb (touches q T).

  Theorem node_set_removed : forall T q, nice s tr M T -> wf_path q = true ->
    ps_has q (node_set s tr (remove s tr M T)) = kept T q.
  Proof.
    intros T q Hn Hq. destruct (removed_ok T Hn) as (HwP & HcP & HNEP & HDFP).
    destruct q as [|e q'].
    { unfold kept. rewrite !ps_has_nil. reflexivity. }
    set (q := e :: q') in *. assert (Hne : q <> []) by discriminate.
    unfold kept.
    destruct (ps_has q (node_set s tr (remove s tr M T))) eqn:EP.
    - pose proof (node_set_present s R Hok Hfam tr _ q Htr HwP HcP Hq EP) as HprP.
      assert (Hto : touches q T = false).
      { destruct (touches q T) eqn:E; [|reflexivity]. unfold remove in HprP.
        rewrite (remove_drops s R Hok Hfam Hnd q M tr true T Htr HwM HcM Hn Hq E) in HprP. discriminate. }
      pose proof (remove_mono s R Hok Hfam Hnd q M tr true T Htr HwM HcM Hn Hq Hne HprP) as HprM.
      rewrite (N_visible q Hq Hne HprM), Hto. reflexivity.
    - destruct (ps_has q N) eqn:EN; [|reflexivity].
      destruct (touches q T) eqn:Eto; [reflexivity|]. exfalso.
      pose proof (N_present q Hq EN) as HprM. unfold present in HprM.
      destruct (resolve_path s tr M q) as [n|] eqn:EM; [|discriminate].
      destruct (remove_keeps s R Hok Hfam Hnd q M tr true T n Htr HwM HcM Hn Hq Hne EM Eto) as (n' & Hn' & _).
      assert (HprP : present s tr (remove s tr M T) q = true).
      { unfold present, remove. rewrite Hn'. reflexivity. }
      rewrite (visible s R Hok Hfam _ tr q Htr HwP HcP HNEP HDFP Hq Hne HprP) in EP. discriminate.
  Qed.

  Lemma kept_in_N : forall T q, kept T q = true -> ps_has q N = true.
  Proof. intros T q H. unfold kept in H. apply andb_true_iff in H. apply H. Qed.

  Lemma kept_prefix : forall T q n, ps_ok T = true -> wf_path q = true -> kept T q = true ->
    1 <= n <= List.length q -> kept T (firstn n q) = true.
  Proof.
    intros T q n HT Hq H Hn. unfold kept in *. apply andb_true_iff in H. destruct H as [HN Hto].
    rewrite (N_prefix q n Hq HN Hn). cbn [andb]. apply negb_true_iff in Hto. apply negb_true_iff.
    apply (touches_false_prefix (firstn n q) (skipn n q) T HT); rewrite firstn_skipn; assumption.
  Qed.

  (* ---------- one pass ---------- *)

  (* the set one add-back pass for a version with recorded set U removes from M, when the
     pruned object it starts from is [remove M T] *)
  Definition passT (U T : pset) : pset :=
    ps_diff N (ps_union (node_set s tr (remove s tr M T)) (ps_en s tr U)).

  Lemma pass_spec : forall U T, nice s tr M T -> ps_ok U = true ->
    ps_ok (passT U T) = true /\
    forall q, wf_path q = true ->
      ps_has q (passT U T) = ps_has q N && negb (kept T q || ps_has q (ps_en s tr U)).
  Proof.
    intros U T Hn HU. destruct (removed_ok T Hn) as (HwP & HcP & _ & _).
    pose proof (node_set_ok s R Hok tr _ Htr HwP) as HokP.
    pose proof (ps_en_ok s U tr HU) as HokEU.
    destruct (ps_union_spec _ _ HokP HokEU) as [HokUn HhasUn].
    destruct (ps_diff_spec _ _ N_ok HokUn) as [HokT HhasT].
    split; [exact HokT|]. intros q Hq. unfold passT.
    rewrite (HhasT q Hq), (HhasUn q Hq), (node_set_removed T q Hn Hq). reflexivity.
  Qed.

  Lemma pass_sub_present : forall U T, nice s tr M T -> ps_ok U = true ->
    sub_present s tr M (passT U T).
  Proof.
    intros U T Hn HU q Hq Hhas. destruct (pass_spec U T Hn HU) as [_ Hspec].
    rewrite (Hspec q Hq) in Hhas. apply andb_true_iff in Hhas. apply (N_present q Hq). apply Hhas.
  Qed.

  Theorem pass_nice : forall U T, nice s tr M T -> ps_ok U = true -> owns_live_keys s tr M U ->
    nice s tr M (passT U T).
  Proof.
    intros U T Hn HU Hown. destruct (pass_spec U T Hn HU) as [HokT Hspec].
    apply (sub_present_nice s R Hok Hfam M tr true _ Htr HwM HcM HokT); [|apply pass_sub_present; auto].
    intros pre fl k rest Hwf Hin Hmem.
    destruct (touches (pre ++ [PEKey fl]) (passT U T)) eqn:Et; [reflexivity|]. exfalso.
    rewrite (Hspec _ Hwf) in Hmem. apply andb_true_iff in Hmem. destruct Hmem as [HinM Hnot].
    apply negb_true_iff in Hnot. apply orb_false_iff in Hnot. destruct Hnot as [HnotK HnotU].
    destruct (key_path_in_M s R tr Hok Hfam Htr Hks M HwM HcM pre fl k rest Hwf Hin HinM)
      as (-> & tk & x & Hres & Hsimple & HI).
    assert (HwI : wf_path (pre ++ [PEKey fl]) = true) by (eapply wf_path_key_prefix; eauto).
    pose proof (touches_false_has _ _ HokT HwI Et) as HI1.
    rewrite (Hspec _ HwI) in HI1. fold N in HI. rewrite HI in HI1. cbn [andb] in HI1.
    apply negb_false_iff in HI1. apply orb_true_iff in HI1. destruct HI1 as [HIK|HIU].
    - rewrite <- (node_set_removed T _ Hn HwI) in HIK.
      destruct (removed_ok T Hn) as (HwP & HcP & _ & _).
      pose proof (node_set_present s R Hok Hfam tr _ _ Htr HwP HcP HwI HIK) as Hpr.
      pose proof (key_item_kept s R tr Hok Hfam Htr Hnd M HwM HcM T pre fl k tk x Hn Hwf Hin Hres Hsimple Hpr) as Hk.
      rewrite (node_set_removed T _ Hn Hwf) in Hk. rewrite Hk in HnotK. discriminate.
    - rewrite (en_has_nonfield s tr U pre (PEKey fl) HU HwI I) in HIU.
      pose proof (Hown pre fl k Hwf Hin HIU (N_present _ Hwf HinM)) as HkU.
      rewrite (en_has_mono s tr U _ HU Hwf HkU) in HnotU. discriminate.
  Qed.

  (* the kept set after a pass, from the kept set before it *)
  Theorem kept_pass : forall U T q, nice s tr M T -> ps_ok U = true -> wf_path q = true ->
    (kept (passT U T) q = true <->
     ps_has q N = true /\
     forall n, 1 <= n <= List.length q ->
       kept T (firstn n q) || ps_has (firstn n q) (ps_en s tr U) = true).
  Proof.
    intros U T q Hn HU Hq. destruct (pass_spec U T Hn HU) as [HokT Hspec]. unfold kept at 1. split.
    - intros H. apply andb_true_iff in H. destruct H as [HN Hto]. apply negb_true_iff in Hto.
      split; [exact HN|]. intros n Hlen.
      assert (Hwn : wf_path (firstn n q) = true) by (apply wf_path_firstn; exact Hq).
      assert (Hno : ps_has (firstn n q) (passT U T) = false).
      { destruct (ps_has (firstn n q) (passT U T)) eqn:E; [|reflexivity].
        assert (Ht : touches q (passT U T) = true).
        { apply (touches_iff q _ HokT Hq). exists n. auto. }
        rewrite Ht in Hto. discriminate. }
      rewrite (Hspec _ Hwn), (N_prefix q n Hq HN Hlen) in Hno. cbn [andb] in Hno.
      apply negb_false_iff in Hno. exact Hno.
    - intros [HN Hall]. rewrite HN. cbn [andb]. apply negb_true_iff.
      destruct (touches q (passT U T)) eqn:Et; [|reflexivity]. exfalso.
      apply (touches_iff q _ HokT Hq) in Et. destruct Et as (n & Hlen & Hhas).
      assert (Hwn : wf_path (firstn n q) = true) by (apply wf_path_firstn; exact Hq).
      rewrite (Hspec _ Hwn), (Hall n Hlen), andb_false_r in Hhas. discriminate.
  Qed.

  Lemma kept_pass_mono : forall U T q, nice s tr M T -> ps_ok U = true -> wf_path q = true ->
    kept T q = true -> kept (passT U T) q = true.
  Proof.
    intros U T q Hn HU Hq H. apply (kept_pass U T q Hn HU Hq). split; [eapply kept_in_N; eauto|].
    intros n Hlen. rewrite (kept_prefix T q n (n_ok _ _ _ _ Hn) Hq H Hlen). reflexivity.
  Qed.

  (* two removals with the same kept set give the same object *)
  Theorem kept_determines : forall T1 T2, ps_ok T1 = true -> ps_ok T2 = true ->
    sub_present s tr M T1 -> sub_present s tr M T2 ->
    (forall q, wf_path q = true -> kept T1 q = kept T2 q) ->
    remove s tr M T1 = remove s tr M T2.
  Proof.
    intros T1 T2 H1 H2 Hs1 Hs2 Hk. unfold remove.
    apply (remove_ext s R Hok Hfam M tr true T1 T2 Htr HwM HcM H1 H2 Hs1 Hs2).
    intros q Hq Hne Hpr. pose proof (Hk q Hq) as H. unfold kept in H.
    rewrite (N_visible q Hq Hne Hpr) in H. cbn [andb] in H.
    destruct (touches q T1), (touches q T2); try reflexivity; discriminate.
  Qed.
End Static.

(* ================= extensionality of [ps_en] ================= *)

Lemma bool_eq_iff : forall a b : bool, (a = true <-> b = true) -> a = b.
Proof.
  intros [|] [|] [H1 H2]; try reflexivity.
  - symmetry. apply H1. reflexivity.
  - apply H2. reflexivity.
Qed.

Lemma en_ext : forall s tr A B, ps_ok A = true -> ps_ok B = true ->
  (forall p, wf_path p = true -> ps_has p A = ps_has p B) ->
  forall q, wf_path q = true -> ps_has q (ps_en s tr A) = ps_has q (ps_en s tr B).
Proof.
  intros s tr A B HA HB Hext q Hq.
  destruct q as [|e q']; [rewrite !ps_has_nil; reflexivity|].
  assert (Hne : e :: q' <> []) by discriminate.
  assert (Hone : forall A B, ps_ok A = true -> ps_ok B = true ->
            (forall p, wf_path p = true -> ps_has p A = ps_has p B) ->
            ps_has (e :: q') (ps_en s tr A) = true -> ps_has (e :: q') (ps_en s tr B) = true).
  { intros A0 B0 HA0 HB0 Hext0 H.
    apply (en_has_iff s _ tr A0 HA0 Hq Hne) in H. apply (en_has_iff s _ tr B0 HB0 Hq Hne).
    destruct H as [H|(pre & n & Hpe & Hnamed & r & Hrne & Hr & Hhas)].
    - left. rewrite <- Hext0; auto.
    - right. exists pre, n. split; [exact Hpe|]. split; [exact Hnamed|].
      exists r. split; [exact Hrne|]. split; [exact Hr|].
      rewrite <- Hext0; [exact Hhas|]. apply wf_path_app. auto. }
  apply bool_eq_iff. split; apply Hone; auto. intros p Hp. symmetry. apply Hext. exact Hp.
Qed.


(* ================= counting ================= *)

Lemma filter_len_le : forall (A : Type) (f g : A -> bool) l,
  (forall x, In x l -> g x = true -> f x = true) ->
  List.length (filter g l) <= List.length (filter f l).
Proof.
  intros A f g l. induction l as [|x l IH]; intros H; simpl; [lia|].
  assert (IH' : List.length (filter g l) <= List.length (filter f l))
    by (apply IH; intros y Hy; apply H; right; exact Hy).
  destruct (g x) eqn:Eg.
  - rewrite (H x (or_introl eq_refl) Eg). simpl. lia.
  - destruct (f x); simpl; lia.
Qed.

Lemma filter_len_all : forall (A : Type) (f : A -> bool) l, List.length (filter f l) <= List.length l.
Proof. intros A f l. induction l as [|x l IH]; simpl; [lia|]. destruct (f x); simpl; lia. Qed.

Lemma filter_len_lt : forall (A : Type) (f g : A -> bool) l,
  (forall x, In x l -> g x = true -> f x = true) ->
  (exists x, In x l /\ f x = true /\ g x = false) ->
  List.length (filter g l) < List.length (filter f l).
Proof.
  intros A f g l. induction l as [|x l IH]; intros H (y & Hy & Hfy & Hgy); [contradiction|].
  simpl.
  assert (Hle : List.length (filter g l) <= List.length (filter f l))
    by (apply filter_len_le; intros z Hz; apply H; right; exact Hz).
  destruct Hy as [->|Hy].
  - rewrite Hfy, Hgy. simpl. lia.
  - assert (IH' : List.length (filter g l) < List.length (filter f l)).
    { apply IH; [intros z Hz; apply H; right; exact Hz|exists y; auto]. }
    destruct (g x) eqn:Eg.
    + rewrite (H x (or_introl eq_refl) Eg). simpl. lia.
    + destruct (f x); simpl; lia.
Qed.

Lemma forallb_false_exists : forall (A : Type) (f : A -> bool) l,
  forallb f l = false -> exists x, In x l /\ f x = false.
Proof.
  intros A f l. induction l as [|x l IH]; intros H; [discriminate|].
  simpl in H. destruct (f x) eqn:E.
  - destruct (IH H) as (y & Hy & Hfy). exists y. split; [right; exact Hy|exact Hfy].
  - exists x. split; [left; reflexivity|exact E].
Qed.

Lemma touches_patheqb : forall T p q, ps_ok T = true -> wf_path p = true -> wf_path q = true ->
  patheqb p q = true -> touches p T = touches q T.
Proof.
  intros T p q HT Hp Hq Heq.
  assert (Hone : forall p q, wf_path p = true -> wf_path q = true -> patheqb p q = true ->
            touches p T = true -> touches q T = true).
  { intros p0 q0 Hp0 Hq0 Heq0 H. apply (touches_iff p0 T HT Hp0) in H. destruct H as (n & Hn & H).
    apply (touches_iff q0 T HT Hq0). exists n. split; [rewrite <- (patheqb_length _ _ Heq0); exact Hn|].
    rewrite <- (ps_has_patheqb T (firstn n p0) (firstn n q0) HT); auto.
    - apply wf_path_firstn. exact Hp0.
    - apply wf_path_firstn. exact Hq0.
    - apply patheqb_firstn. exact Heq0. }
  apply bool_eq_iff. split; [apply Hone; auto|apply Hone; auto].
  apply patheqb_sym_true; auto.
Qed.

(* ================= the loop ================= *)

Section Dynamic.
  Variables (s : schema) (R : typeref -> Prop) (tr : typeref).
  Hypothesis Hok : schema_ok s R.
  Hypothesis Hfam : family_refs s R.
  Hypothesis Htr : R tr.
  Hypothesis Hnd : keys_nodefault s R.
  Hypothesis Hks : keys_scalar s R.

  Variable M : value.
  Hypothesis HwM : wf_value M = true.
  Hypothesis HcM : conforms s tr true M = true.
  Hypothesis HNE : NE s tr M.
  Hypothesis HDF : DF s tr M.

  Variables (c : config) (mav : list (string * pset)).
  Hypothesis Hcid : conv_id c.
  Hypothesis Hsch : forall v, cfg_schema c v = (s, tr).
  Hypothesis HU : forall v U, assoc_get v mav = Some U ->
    ps_ok U = true /\ owns_live_keys s tr M U.

  Notation N := (node_set s tr M).
  Notation kept := (kept s tr M).
  Notation passT := (passT s tr M).
  Notation rm := (remove s tr M).
  Notation niceT := (nice s tr M).

  Definition fs (x : value) : pset := ps_of_paths (fsp s tr x).

  (* a pass that adds nothing, as the loop detects it *)
  Definition quietb (U T : pset) : bool := ps_equals (fs (rm (passT U T))) (fs (rm T)).

  Definition keq (T1 T2 : pset) : Prop := forall q, wf_path q = true -> kept T1 q = kept T2 q.

  Lemma keq_refl : forall T, keq T T.
  Proof. intros T q _. reflexivity. Qed.
  Lemma keq_sym : forall T1 T2, keq T1 T2 -> keq T2 T1.
  Proof. intros T1 T2 H q Hq. symmetry. apply H. exact Hq. Qed.
  Lemma keq_trans : forall T1 T2 T3, keq T1 T2 -> keq T2 T3 -> keq T1 T3.
  Proof. intros T1 T2 T3 H1 H2 q Hq. rewrite (H1 q Hq). apply H2. exact Hq. Qed.

  Lemma to_fs_any : forall v x, R tr -> wf_value x = true -> conforms s tr true x = true ->
    to_fs c (v, x) = Some (fs x).
  Proof.
    intros v x _ Hw Hc. unfold to_fs, schema_of, tr_of. cbn [fst snd]. rewrite Hsch. cbn [fst snd].
    rewrite to_field_set_eq, (fse_ok s R Hok Hfam x tr Htr Hw Hc). reflexivity.
  Qed.

  Lemma en_any : forall v S, en c v S = ps_en s tr S.
  Proof. intros v S. unfold en, schema_of, tr_of. rewrite Hsch. reflexivity. Qed.

  Lemma remove_tv_any : forall v x T, remove_tv c (v, x) T = (v, remove s tr x T).
  Proof. intros v x T. unfold remove_tv, schema_of, tr_of. cbn [fst snd]. rewrite Hsch. reflexivity. Qed.

  Lemma quiet_keq : forall U T, niceT T -> ps_ok U = true -> owns_live_keys s tr M U ->
    quietb U T = true -> keq (passT U T) T.
  Proof.
    intros U T Hn HUok Hown Hq q Hwq.
    pose proof (pass_nice s R tr Hok Hfam Htr Hnd Hks M HwM HcM HNE HDF U T Hn HUok Hown) as Hn'.
    destruct (removed_ok s R tr Hok Hfam Htr Hnd M HwM HcM HNE HDF T Hn) as (HwP & HcP & _ & _).
    destruct (removed_ok s R tr Hok Hfam Htr Hnd M HwM HcM HNE HDF _ Hn') as (HwP' & HcP' & _ & _).
    unfold quietb in Hq.
    pose proof (fs_ok s R Hok tr _ Htr HwP) as Hf. pose proof (fs_ok s R Hok tr _ Htr HwP') as Hf'.
    rewrite (ps_equals_ext _ _ Hf' Hf) in Hq.
    rewrite <- (node_set_removed s R tr Hok Hfam Htr Hnd M HwM HcM HNE HDF _ q Hn' Hwq).
    rewrite <- (node_set_removed s R tr Hok Hfam Htr Hnd M HwM HcM HNE HDF _ q Hn Hwq).
    unfold node_set. apply en_ext; auto.
  Qed.

  Lemma pass_keq : forall U T1 T2, niceT T1 -> niceT T2 -> ps_ok U = true ->
    keq T1 T2 -> keq (passT U T1) (passT U T2).
  Proof.
    intros U T1 T2 H1 H2 HUok Hk q Hq. apply bool_eq_iff.
    rewrite (kept_pass s R tr Hok Hfam Htr Hnd M HwM HcM HNE HDF U T1 q H1 HUok Hq).
    rewrite (kept_pass s R tr Hok Hfam Htr Hnd M HwM HcM HNE HDF U T2 q H2 HUok Hq).
    split; intros [HN Hall]; (split; [exact HN|]); intros n Hlen;
      [rewrite <- Hk|rewrite Hk]; auto; apply wf_path_firstn; exact Hq.
  Qed.

  (* ---------- one pass of the model ---------- *)

  Lemma afv_step : forall n lm lp v U T, niceT T -> ps_ok U = true -> owns_live_keys s tr M U ->
    add_back_for_version c n (lm, M) (lp, rm T) v U =
    UOk ((v, M), (v, rm (passT U T)), negb (quietb U T), S (S n)).
  Proof.
    intros n lm lp v U T Hn HUok Hown.
    pose proof (pass_nice s R tr Hok Hfam Htr Hnd Hks M HwM HcM HNE HDF U T Hn HUok Hown) as Hn'.
    destruct (removed_ok s R tr Hok Hfam Htr Hnd M HwM HcM HNE HDF T Hn) as (HwP & HcP & _ & _).
    destruct (removed_ok s R tr Hok Hfam Htr Hnd M HwM HcM HNE HDF _ Hn') as (HwP' & HcP' & _ & _).
    unfold add_back_for_version. rewrite !(convert_id c Hcid). cbn [snd].
    rewrite (to_fs_any v M Htr HwM HcM), (to_fs_any v (rm T) Htr HwP HcP).
    rewrite !en_any, remove_tv_any.
    change (ps_diff (ps_en s tr (fs M)) (ps_union (ps_en s tr (fs (rm T))) (ps_en s tr U)))
      with (passT U T).
    rewrite (to_fs_any v _ Htr HwP' HcP'). reflexivity.
  Qed.

  (* ---------- rounds, abstractly: removal sets and flags ---------- *)

  Definition astep (a : pset * bool) (v : string) : pset * bool :=
    match assoc_get v mav with
    | Some U => (passT U (fst a), snd a || negb (quietb U (fst a)))
    | None => a
    end.

  (* [hp]: the loop has a previous round to compare with (then the object it left is the
     one this round starts from, [rm T]) *)
  Fixpoint arounds (fuel : nat) (vs : list string) (T : pset) (hp : bool) : option pset :=
    match fuel with
    | O => None
    | S fuel' =>
        let a := fold_left astep vs (T, false) in
        if snd a && Nat.leb 2 (List.length vs) then
          if hp && veqb (rm T) (rm (fst a)) then Some (fst a)
          else arounds fuel' vs (fst a) true
        else Some (fst a)
    end.

  (* the [previous] argument of the model's loop is the object the round starts from *)
  Definition prev_ok (prev : option tv) (T : pset) (hp : bool) : Prop :=
    match prev with
    | None => hp = false
    | Some q => hp = true /\ snd q = rm T
    end.

  Definition rstep (acc : ures (tv * tv * bool * nat)) (v : string) : ures (tv * tv * bool * nat) :=
    match acc with
    | UErr e => UErr e
    | UOk (m, p, ch, n) =>
        match assoc_get v mav with
        | Some s0 =>
            match add_back_for_version c n m p v s0 with
            | UErr e => UErr e
            | UOk (m', p', added, n') => UOk (m', p', ch || added, n')
            end
        | None => acc
        end
    end.

  Lemma astep_nice : forall a v, niceT (fst a) -> niceT (fst (astep a v)).
  Proof.
    intros [T ch] v Hn. unfold astep. cbn [fst snd] in *.
    destruct (assoc_get v mav) as [U|] eqn:E; [|exact Hn]. cbn [fst].
    destruct (HU v U E) as [HUok Hown].
    apply (pass_nice s R tr Hok Hfam Htr Hnd Hks M HwM HcM HNE HDF U T Hn HUok Hown).
  Qed.

  Lemma afold_nice : forall vs a, niceT (fst a) -> niceT (fst (fold_left astep vs a)).
  Proof.
    induction vs as [|v vs IH]; intros a Hn; [exact Hn|]. cbn [fold_left].
    apply IH. apply astep_nice. exact Hn.
  Qed.

  Lemma round_sim : forall vs n lm lp T ch, niceT T ->
    exists lm' lp' n',
      fold_left rstep vs (UOk ((lm, M), (lp, rm T), ch, n)) =
      UOk ((lm', M), (lp', rm (fst (fold_left astep vs (T, ch)))),
           snd (fold_left astep vs (T, ch)), n').
  Proof.
    induction vs as [|v vs IH]; intros n lm lp T ch Hn.
    - exists lm, lp, n. reflexivity.
    - cbn [fold_left]. unfold rstep at 2, astep at 2 4. cbn [fst snd].
      destruct (assoc_get v mav) as [U|] eqn:E.
      + destruct (HU v U E) as [HUok Hown].
        rewrite (afv_step n lm lp v U T Hn HUok Hown).
        apply IH. apply (pass_nice s R tr Hok Hfam Htr Hnd Hks M HwM HcM HNE HDF U T Hn HUok Hown).
      + apply IH. exact Hn.
  Qed.

  Lemma rounds_sim : forall fuel vs n lm lp T prev hp, niceT T -> prev_ok prev T hp ->
    match arounds fuel vs T hp with
    | Some T' => exists lp' n',
        add_back_rounds fuel c mav vs n (lm, M) (lp, rm T) prev = UOk ((lp', rm T'), n')
    | None => add_back_rounds fuel c mav vs n (lm, M) (lp, rm T) prev = UErr EOther
    end.
  Proof.
    induction fuel as [|fuel IH]; intros vs n lm lp T prev hp Hn Hprev; [reflexivity|].
    cbn [arounds add_back_rounds].
    change (add_back_round c mav vs n (lm, M) (lp, rm T))
      with (fold_left rstep vs (UOk ((lm, M), (lp, rm T), false, n))).
    destruct (round_sim vs n lm lp T false Hn) as (lm' & lp' & n' & Hr). rewrite Hr.
    pose proof (afold_nice vs (T, false) Hn) as Hn1.
    destruct (snd (fold_left astep vs (T, false)) && (2 <=? List.length vs)).
    - cbn [snd].
      assert (Htest : match prev with
                      | Some q => veqb (snd q) (rm (fst (fold_left astep vs (T, false))))
                      | None => false
                      end = hp && veqb (rm T) (rm (fst (fold_left astep vs (T, false))))).
      { unfold prev_ok in Hprev. destruct prev as [q|].
        - destruct Hprev as [-> ->]. reflexivity.
        - rewrite Hprev. reflexivity. }
      rewrite Htest.
      destruct (hp && veqb (rm T) (rm (fst (fold_left astep vs (T, false))))).
      + exists lp', n'. reflexivity.
      + apply IH; [exact Hn1|]. split; reflexivity.
    - exists lp', n'. reflexivity.
  Qed.

  Lemma arounds_nice : forall fuel vs T hp T', niceT T -> arounds fuel vs T hp = Some T' -> niceT T'.
  Proof.
    induction fuel as [|fuel IH]; intros vs T hp T' Hn H; [discriminate|]. cbn [arounds] in H.
    pose proof (afold_nice vs (T, false) Hn) as Hn1.
    destruct (snd (fold_left astep vs (T, false)) && (2 <=? List.length vs)).
    - destruct (hp && veqb (rm T) (rm (fst (fold_left astep vs (T, false))))).
      + inversion H; subst. exact Hn1.
      + apply (IH vs _ true T' Hn1 H).
    - inversion H; subst. exact Hn1.
  Qed.

  (* ---------- the least common fixed point ---------- *)

  Variable T0 : pset.
  Hypothesis HT0 : niceT T0.

  (* q is a node of M every non-empty prefix of which is kept by T0 or owned at some version
     of the list *)
  Definition Kstar (vs : list string) (q : path) : Prop :=
    ps_has q N = true /\
    forall n, 1 <= n <= List.length q ->
      kept T0 (firstn n q) = true \/
      exists v U, In v vs /\ assoc_get v mav = Some U /\ ps_has (firstn n q) (ps_en s tr U) = true.

  Lemma Kstar_prefix : forall vs q m, wf_path q = true -> Kstar vs q -> 1 <= m <= List.length q ->
    Kstar vs (firstn m q).
  Proof.
    intros vs q m Hq [HN Hall] Hm. split.
    - apply (N_prefix s R tr Hok Hfam Htr M HwM HcM HNE HDF q m Hq HN Hm).
    - intros n Hn. rewrite firstn_length in Hn. rewrite firstn_firstn.
      replace (Nat.min n m) with n by lia. apply Hall. lia.
  Qed.

  Lemma Kstar_perm : forall vs1 vs2 q, (forall v, In v vs1 -> In v vs2) -> Kstar vs1 q -> Kstar vs2 q.
  Proof.
    intros vs1 vs2 q Hin [HN Hall]. split; [exact HN|]. intros n Hn.
    destruct (Hall n Hn) as [H|(v & U & Hv & HUv & Hhas)]; [left; exact H|].
    right. exists v, U. auto.
  Qed.

  (* the invariant of a run over the versions vs *)
  Definition Inv (vs : list string) (T : pset) : Prop :=
    niceT T /\
    (forall q, wf_path q = true -> kept T0 q = true -> kept T q = true) /\
    (forall q, wf_path q = true -> kept T q = true -> Kstar vs q).

  Lemma Inv_start : forall vs, Inv vs T0.
  Proof.
    intros vs. split; [exact HT0|]. split; [auto|]. intros q Hq Hk. split.
    - apply (kept_in_N s tr M T0 q Hk).
    - intros n Hn. left.
      apply (kept_prefix s R tr Hok Hfam Htr M HwM HcM HNE HDF T0 q n (n_ok _ _ _ _ HT0) Hq Hk Hn).
  Qed.

  Lemma Inv_step : forall vs a v, In v vs -> Inv vs (fst a) -> Inv vs (fst (astep a v)).
  Proof.
    intros vs [T ch] v Hv (Hn & Hlo & Hhi). unfold astep. cbn [fst snd] in *.
    destruct (assoc_get v mav) as [U|] eqn:E; [|split; auto]. cbn [fst].
    destruct (HU v U E) as [HUok Hown].
    split; [apply (pass_nice s R tr Hok Hfam Htr Hnd Hks M HwM HcM HNE HDF U T Hn HUok Hown)|]. split.
    - intros q Hq Hk.
      apply (kept_pass_mono s R tr Hok Hfam Htr Hnd M HwM HcM HNE HDF U T q Hn HUok Hq). auto.
    - intros q Hq Hk.
      apply (kept_pass s R tr Hok Hfam Htr Hnd M HwM HcM HNE HDF U T q Hn HUok Hq) in Hk.
      destruct Hk as [HN Hall]. split; [exact HN|]. intros n Hlen.
      assert (Hwn : wf_path (firstn n q) = true) by (apply wf_path_firstn; exact Hq).
      specialize (Hall n Hlen). apply orb_true_iff in Hall. destruct Hall as [Hk|He].
      + destruct (Hhi _ Hwn Hk) as [_ Hall'].
        specialize (Hall' (List.length (firstn n q))).
        rewrite firstn_all in Hall'. apply Hall'.
        rewrite firstn_length. lia.
      + right. exists v, U. auto.
  Qed.

  Lemma Inv_fold : forall vs ws a, (forall v, In v ws -> In v vs) -> Inv vs (fst a) ->
    Inv vs (fst (fold_left astep ws a)).
  Proof.
    intros vs ws. induction ws as [|w ws IH]; intros a Hsub HI; [exact HI|]. cbn [fold_left].
    apply IH; [intros v Hv; apply Hsub; right; exact Hv|].
    apply Inv_step; [apply Hsub; left; reflexivity|exact HI].
  Qed.

  (* a round whose flag stays down changed no kept set, so that its result is closed under
     the pass of every version of the round *)
  Lemma afold_quiet : forall ws T ch T', niceT T -> fold_left astep ws (T, ch) = (T', false) ->
    ch = false /\ keq T T' /\
    forall v U, In v ws -> assoc_get v mav = Some U -> keq (passT U T') T'.
  Proof.
    induction ws as [|w ws IH]; intros T ch T' Hn H.
    - simpl in H. inversion H; subst. split; [reflexivity|]. split; [apply keq_refl|]. intros v U [].
    - cbn [fold_left] in H. unfold astep at 2 in H. cbn [fst snd] in H.
      destruct (assoc_get w mav) as [U|] eqn:E.
      + destruct (HU w U E) as [HUok Hown].
        pose proof (pass_nice s R tr Hok Hfam Htr Hnd Hks M HwM HcM HNE HDF U T Hn HUok Hown) as Hn1.
        destruct (IH _ _ _ Hn1 H) as (Hch & Hk1 & Hcl).
        apply orb_false_iff in Hch. destruct Hch as [Hch Hq]. apply negb_false_iff in Hq.
        pose proof (quiet_keq U T Hn HUok Hown Hq) as Hk0.
        assert (Hk : keq T T') by (eapply keq_trans; [apply keq_sym; exact Hk0|exact Hk1]).
        split; [exact Hch|]. split; [exact Hk|].
        intros v U' [->|Hin] HU'; [|eapply Hcl; eauto].
        rewrite E in HU'. inversion HU'; subst U'.
        assert (Hn' : niceT T').
        { pose proof (afold_nice ws (passT U T, ch || negb (quietb U T)) Hn1) as Hx.
          rewrite H in Hx. exact Hx. }
        eapply keq_trans; [|exact Hk1]. apply keq_sym. apply pass_keq; auto.
      + destruct (IH _ _ _ Hn H) as (Hch & Hk1 & Hcl).
        split; [exact Hch|]. split; [exact Hk1|].
        intros v U' [->|Hin] HU'; [rewrite E in HU'; discriminate|eapply Hcl; eauto].
  Qed.

  (* a set that satisfies the invariant and is closed under every pass keeps all of Kstar *)
  Lemma closed_above : forall vs T, Inv vs T ->
    (forall v U, In v vs -> assoc_get v mav = Some U -> keq (passT U T) T) ->
    forall k q, List.length q <= k -> wf_path q = true -> Kstar vs q -> kept T q = true.
  Proof.
    intros vs T (Hn & Hlo & Hhi) Hcl. induction k as [|k IH]; intros q Hlen Hq HK.
    - destruct q; [|simpl in Hlen; lia]. destruct HK as [HN _]. rewrite ps_has_nil in HN. discriminate.
    - destruct q as [|e q'].
      { destruct HK as [HN _]. rewrite ps_has_nil in HN. discriminate. }
      set (q := e :: q') in *.
      assert (Hl1 : 1 <= List.length q <= List.length q) by (unfold q; simpl; lia).
      pose proof HK as [HN Hall].
      destruct (Hall (List.length q) Hl1) as [Hk|(v & U & Hv & HUv & Hhas)]; rewrite firstn_all in *.
      + apply Hlo; assumption.
      + destruct (HU v U HUv) as [HUok Hown].
        rewrite <- (Hcl v U Hv HUv q Hq).
        apply (kept_pass s R tr Hok Hfam Htr Hnd M HwM HcM HNE HDF U T q Hn HUok Hq).
        split; [exact HN|]. intros n Hn'.
        destruct (Nat.eq_dec n (List.length q)) as [->|Hneq].
        * rewrite firstn_all, Hhas. apply orb_true_r.
        * rewrite (IH (firstn n q)); [reflexivity| | |].
          -- rewrite firstn_length. lia.
          -- apply wf_path_firstn. exact Hq.
          -- apply Kstar_prefix; auto.
  Qed.

  Lemma afold_sub_present : forall ws a,
    (forall v, In v ws -> assoc_get v mav <> None) -> niceT (fst a) ->
    sub_present s tr M (fst a) \/ ws <> [] ->
    sub_present s tr M (fst (fold_left astep ws a)).
  Proof.
    induction ws as [|w ws IH]; intros [T ch] Hall Hn Hsp.
    - destruct Hsp as [H|H]; [exact H|congruence].
    - cbn [fold_left]. apply IH.
      + intros v Hv. apply Hall. right. exact Hv.
      + apply astep_nice. exact Hn.
      + left. unfold astep. cbn [fst snd] in *.
        destruct (assoc_get w mav) as [U|] eqn:E; [|exfalso; apply (Hall w (or_introl eq_refl) E)].
        cbn [fst]. destruct (HU w U E) as [HUok _].
        apply (pass_sub_present s R tr Hok Hfam Htr Hnd M HwM HcM HNE HDF U T Hn HUok).
  Qed.

  (* ---------- counting the members of N a removal does not keep ---------- *)

  Lemma kept_patheqb : forall T p q, ps_ok T = true -> wf_path p = true -> wf_path q = true ->
    patheqb p q = true -> kept T p = kept T q.
  Proof.
    intros T p q HT Hp Hq Heq. unfold OrderIndepN.kept.
    rewrite (ps_has_patheqb N p q (N_ok s R tr Hok Htr M HwM) Hp Hq Heq).
    rewrite (touches_patheqb T p q HT Hp Hq Heq). reflexivity.
  Qed.

  (* the two removals keep the same members of N, decided on the elements of N *)
  Definition keqb (T1 T2 : pset) : bool :=
    forallb (fun q => Bool.eqb (kept T1 q) (kept T2 q)) (ps_elems N).

  Lemma keqb_keq : forall T1 T2, ps_ok T1 = true -> ps_ok T2 = true -> keqb T1 T2 = true -> keq T1 T2.
  Proof.
    intros T1 T2 H1 H2 Hb q Hq.
    pose proof (N_ok s R tr Hok Htr M HwM) as HN.
    destruct (ps_has q N) eqn:EN.
    - rewrite (ps_has_elems N q HN Hq) in EN. unfold pmem in EN. apply existsb_exists in EN.
      destruct EN as (q' & Hin & Heq).
      assert (Hq' : wf_path q' = true).
      { pose proof (ps_elems_wf N HN) as Hw. rewrite forallb_forall in Hw. apply Hw. exact Hin. }
      rewrite (kept_patheqb T1 q q' H1 Hq Hq' Heq), (kept_patheqb T2 q q' H2 Hq Hq' Heq).
      unfold keqb in Hb. rewrite forallb_forall in Hb. apply Bool.eqb_prop. apply Hb. exact Hin.
    - unfold OrderIndepN.kept. rewrite EN. reflexivity.
  Qed.

  (* the members of N a removal does not keep *)
  Definition mu (T : pset) : nat :=
    List.length (filter (fun q => negb (kept T q)) (ps_elems N)).

  Lemma mu_bound : forall T, mu T <= List.length (ps_elems N).
  Proof. intros T. unfold mu. apply filter_len_all. Qed.

  Lemma elems_wf : forall q, In q (ps_elems N) -> wf_path q = true.
  Proof.
    intros q Hin. pose proof (ps_elems_wf N (N_ok s R tr Hok Htr M HwM)) as Hw.
    rewrite forallb_forall in Hw. apply Hw. exact Hin.
  Qed.

  Lemma mu_le : forall T T', (forall q, wf_path q = true -> kept T q = true -> kept T' q = true) ->
    mu T' <= mu T.
  Proof.
    intros T T' Hm. unfold mu. apply filter_len_le. intros q Hin Hg.
    apply negb_true_iff in Hg. apply negb_true_iff.
    destruct (kept T q) eqn:E; [|reflexivity]. rewrite (Hm q (elems_wf q Hin) E) in Hg. discriminate.
  Qed.

  Lemma mu_lt : forall T T', (forall q, wf_path q = true -> kept T q = true -> kept T' q = true) ->
    keqb T' T = false -> mu T' < mu T.
  Proof.
    intros T T' Hm Hb. unfold mu. apply filter_len_lt.
    - intros q Hin Hg. apply negb_true_iff in Hg. apply negb_true_iff.
      destruct (kept T q) eqn:E; [|reflexivity]. rewrite (Hm q (elems_wf q Hin) E) in Hg. discriminate.
    - unfold keqb in Hb. destruct (forallb_false_exists _ _ _ Hb) as (q & Hin & Hne).
      exists q. split; [exact Hin|].
      destruct (kept T q) eqn:E.
      + rewrite (Hm q (elems_wf q Hin) E) in Hne. discriminate.
      + destruct (kept T' q); [auto|discriminate].
  Qed.
  Lemma pass_mu_le : forall U T, niceT T -> ps_ok U = true -> mu (passT U T) <= mu T.
  Proof.
    intros U T Hn HUok. apply mu_le. intros q Hq Hk.
    apply (kept_pass_mono s R tr Hok Hfam Htr Hnd M HwM HcM HNE HDF U T q Hn HUok Hq Hk).
  Qed.

  (* a pass that the loop sees as adding something keeps more of N, when it starts from a
     removal of members of N *)
  Lemma pass_progress : forall U T, niceT T -> sub_present s tr M T -> ps_ok U = true ->
    owns_live_keys s tr M U -> quietb U T = false -> mu (passT U T) < mu T.
  Proof.
    intros U T Hn Hsp HUok Hown Hq.
    pose proof (pass_nice s R tr Hok Hfam Htr Hnd Hks M HwM HcM HNE HDF U T Hn HUok Hown) as Hn'.
    apply mu_lt.
    - intros q Hwq Hk.
      apply (kept_pass_mono s R tr Hok Hfam Htr Hnd M HwM HcM HNE HDF U T q Hn HUok Hwq Hk).
    - destruct (keqb (passT U T) T) eqn:Eb; [|reflexivity]. exfalso.
      pose proof (keqb_keq _ _ (n_ok _ _ _ _ Hn') (n_ok _ _ _ _ Hn) Eb) as Hk.
      pose proof (kept_determines s R tr Hok Hfam Htr M HwM HcM HNE HDF (passT U T) T
                    (n_ok _ _ _ _ Hn') (n_ok _ _ _ _ Hn)
                    (pass_sub_present s R tr Hok Hfam Htr Hnd M HwM HcM HNE HDF U T Hn HUok) Hsp Hk) as Heq.
      unfold quietb in Hq. rewrite Heq in Hq.
      destruct (removed_ok s R tr Hok Hfam Htr Hnd M HwM HcM HNE HDF T Hn) as (HwP & _).
      pose proof (fs_ok s R Hok tr _ Htr HwP) as Hf.
      assert (Ht : ps_equals (fs (rm T)) (fs (rm T)) = true) by (apply (ps_equals_ext _ _ Hf Hf); reflexivity).
      rewrite Ht in Hq. discriminate.
  Qed.

  Lemma afold_mu_le : forall ws a, niceT (fst a) -> mu (fst (fold_left astep ws a)) <= mu (fst a).
  Proof.
    induction ws as [|w ws IH]; intros [T ch] Hn; [simpl; lia|]. cbn [fold_left].
    pose proof (IH (astep (T, ch) w) (astep_nice (T, ch) w Hn)) as H1.
    assert (H2 : mu (fst (astep (T, ch) w)) <= mu T).
    { unfold astep. cbn [fst snd] in *. destruct (assoc_get w mav) as [U|] eqn:E; [|simpl; lia].
      cbn [fst]. destruct (HU w U E) as [HUok _]. apply pass_mu_le; auto. }
    cbn [fst] in *. lia.
  Qed.

  Lemma afold_progress : forall ws T ch, niceT T -> sub_present s tr M T ->
    snd (fold_left astep ws (T, ch)) = true ->
    ch = true \/ mu (fst (fold_left astep ws (T, ch))) < mu T.
  Proof.
    induction ws as [|w ws IH]; intros T ch Hn Hsp H; [left; exact H|].
    cbn [fold_left] in *.
    assert (Hstep : astep (T, ch) w =
              match assoc_get w mav with
              | Some U => (passT U T, ch || negb (quietb U T))
              | None => (T, ch)
              end) by reflexivity.
    rewrite Hstep in *. clear Hstep.
    destruct (assoc_get w mav) as [U|] eqn:E.
    - destruct (HU w U E) as [HUok Hown].
      pose proof (pass_nice s R tr Hok Hfam Htr Hnd Hks M HwM HcM HNE HDF U T Hn HUok Hown) as Hn'.
      pose proof (pass_sub_present s R tr Hok Hfam Htr Hnd M HwM HcM HNE HDF U T Hn HUok) as Hsp'.
      pose proof (pass_mu_le U T Hn HUok) as Hle.
      destruct (IH _ _ Hn' Hsp' H) as [Hch|Hlt]; [|right; lia].
      apply orb_true_iff in Hch. destruct Hch as [Hch|Hq]; [left; exact Hch|].
      apply negb_true_iff in Hq. right.
      pose proof (pass_progress U T Hn Hsp HUok Hown Hq) as Hlt.
      pose proof (afold_mu_le ws (passT U T, ch || negb (quietb U T)) Hn') as Hle2. cbn [fst] in Hle2. lia.
    - apply IH; auto.
  Qed.

  Lemma afold_sp : forall ws a, niceT (fst a) -> sub_present s tr M (fst a) ->
    sub_present s tr M (fst (fold_left astep ws a)).
  Proof.
    induction ws as [|w ws IH]; intros [T ch] Hn Hsp; [exact Hsp|]. cbn [fold_left].
    apply IH; [apply astep_nice; exact Hn|].
    unfold astep. cbn [fst snd] in *. destruct (assoc_get w mav) as [U|] eqn:E; [|exact Hsp].
    cbn [fst]. destruct (HU w U E) as [HUok _].
    apply (pass_sub_present s R tr Hok Hfam Htr Hnd M HwM HcM HNE HDF U T Hn HUok).
  Qed.

  (* ---------- the second exit of the loop ---------- *)

  (* presence is invariant under deep equality *)
  Lemma veqb_present_loc : forall a b q, wf_value a = true -> wf_value b = true ->
    conforms s tr true a = true -> conforms s tr true b = true -> veqb a b = true ->
    wf_path q = true -> present s tr a q = true -> present s tr b q = true.
  Proof.
    intros a b q Hwa Hwb Hca Hcb Hv Hq Hpr. unfold present in *.
    destruct (resolve_path s tr a q) as [n|] eqn:Ea; [|discriminate].
    destruct (veqb_resolve s R Hok Hfam q a b tr n Htr Hwa Hwb Hca Hcb Hv Hq Ea) as (n' & -> & _).
    reflexivity.
  Qed.

  (* equal objects come from removals that keep the same members of N *)
  Lemma veqb_keq : forall T1 T2, niceT T1 -> niceT T2 -> veqb (rm T1) (rm T2) = true -> keq T1 T2.
  Proof.
    intros T1 T2 H1 H2 Hv.
    destruct (removed_ok s R tr Hok Hfam Htr Hnd M HwM HcM HNE HDF T1 H1) as (Hw1 & Hc1 & HNE1 & HDF1).
    destruct (removed_ok s R tr Hok Hfam Htr Hnd M HwM HcM HNE HDF T2 H2) as (Hw2 & Hc2 & HNE2 & HDF2).
    assert (Hone : forall Ta Tb, niceT Ta -> niceT Tb ->
              wf_value (rm Ta) = true -> wf_value (rm Tb) = true ->
              conforms s tr true (rm Ta) = true -> conforms s tr true (rm Tb) = true ->
              NE s tr (rm Tb) -> DF s tr (rm Tb) -> veqb (rm Ta) (rm Tb) = true ->
              forall q, wf_path q = true -> kept Ta q = true -> kept Tb q = true).
    { intros Ta Tb Ha Hb Hwa Hwb Hca Hcb HNEb HDFb Hvab q Hq Hk.
      rewrite <- (node_set_removed s R tr Hok Hfam Htr Hnd M HwM HcM HNE HDF Ta q Ha Hq) in Hk.
      rewrite <- (node_set_removed s R tr Hok Hfam Htr Hnd M HwM HcM HNE HDF Tb q Hb Hq).
      pose proof (node_set_present s R Hok Hfam tr _ q Htr Hwa Hca Hq Hk) as Hpr.
      apply (visible s R Hok Hfam _ tr q Htr Hwb Hcb HNEb HDFb Hq (has_nonnil _ _ Hk)).
      apply (veqb_present_loc (rm Ta) (rm Tb) q Hwa Hwb Hca Hcb Hvab Hq Hpr). }
    intros q Hq. apply bool_eq_iff. split.
    - apply (Hone T1 T2); auto.
    - apply (Hone T2 T1); auto. rewrite (veqb_sym _ _ Hw2 Hw1). exact Hv.
  Qed.

  Lemma keq_mu : forall T1 T2, keq T1 T2 -> mu T1 = mu T2.
  Proof.
    intros T1 T2 Hk. unfold mu. f_equal. apply filter_ext_in. intros q Hin.
    rewrite (Hk q (elems_wf q Hin)). reflexivity.
  Qed.

  (* a round that starts from a removal of members of N and raises the flag does not leave
     the object it found: the second exit is never taken after such a round *)
  Lemma exit_no_progress : forall vs T, niceT T -> sub_present s tr M T ->
    snd (fold_left astep vs (T, false)) = true ->
    veqb (rm T) (rm (fst (fold_left astep vs (T, false)))) = false.
  Proof.
    intros vs T Hn Hsp Hch.
    destruct (veqb (rm T) (rm (fst (fold_left astep vs (T, false))))) eqn:Ev; [|reflexivity]. exfalso.
    pose proof (afold_nice vs (T, false) Hn) as Hn1.
    pose proof (keq_mu _ _ (veqb_keq _ _ Hn Hn1 Ev)) as Hmu.
    destruct (afold_progress vs T false Hn Hsp Hch) as [H|H]; [discriminate|lia].
  Qed.

  (* a run that stops has reached the least common fixed point *)
  Theorem run_fixed : forall fuel vs T hp T', 2 <= List.length vs ->
    (forall v, In v vs -> assoc_get v mav <> None) ->
    Inv vs T -> (hp = true -> sub_present s tr M T) -> arounds fuel vs T hp = Some T' ->
    niceT T' /\ sub_present s tr M T' /\
    forall q, wf_path q = true -> (kept T' q = true <-> Kstar vs q).
  Proof.
    induction fuel as [|fuel IH]; intros vs T hp T' Hlen Hall HI Hhp H; [discriminate|].
    cbn [arounds] in H.
    pose proof (Inv_fold vs vs (T, false) (fun v Hv => Hv) HI) as HI1.
    pose proof HI as (Hn & _).
    pose proof (exit_no_progress vs T Hn) as Hexit.
    pose proof (afold_sub_present vs (T, false) Hall Hn) as Hsp1.
    destruct (fold_left astep vs (T, false)) as [T1 ch1] eqn:Ef. cbn [fst snd] in *.
    assert (Hleb : (2 <=? List.length vs) = true) by (apply Nat.leb_le; exact Hlen).
    assert (Hsp : sub_present s tr M T1).
    { apply Hsp1. right. intros ->. simpl in Hlen. lia. }
    rewrite Hleb, andb_true_r in H. destruct ch1.
    - assert (Htest : hp && veqb (rm T) (rm T1) = false).
      { destruct hp; [|reflexivity]. cbn [andb]. apply Hexit; [apply Hhp|]; reflexivity. }
      rewrite Htest in H.
      apply (IH vs T1 true T' Hlen Hall HI1 (fun _ => Hsp) H).
    - inversion H; subst T'. clear H.
      destruct (afold_quiet vs T false T1 Hn Ef) as (_ & _ & Hcl).
      split; [apply HI1|]. split; [exact Hsp|].
      intros q Hq. split.
      + apply HI1. exact Hq.
      + intros HK. apply (closed_above vs T1 HI1 Hcl (List.length q) q (le_n _) Hq HK).
  Qed.

  (* two runs over permuted version lists *)
  Theorem runs_agree : forall f1 f2 vs1 vs2 T1 T2, Permutation vs1 vs2 -> 2 <= List.length vs1 ->
    (forall v, In v vs1 -> assoc_get v mav <> None) ->
    arounds f1 vs1 T0 false = Some T1 -> arounds f2 vs2 T0 false = Some T2 ->
    rm T1 = rm T2.
  Proof.
    intros f1 f2 vs1 vs2 T1 T2 Hperm Hlen Hall H1 H2.
    assert (Hlen2 : 2 <= List.length vs2) by (rewrite <- (Permutation_length Hperm); exact Hlen).
    assert (Hall2 : forall v, In v vs2 -> assoc_get v mav <> None).
    { intros v Hv. apply Hall. apply (Permutation_in v (Permutation_sym Hperm) Hv). }
    destruct (run_fixed f1 vs1 T0 false T1 Hlen Hall (Inv_start vs1) ltac:(discriminate) H1) as (Hn1 & Hs1 & Hk1).
    destruct (run_fixed f2 vs2 T0 false T2 Hlen2 Hall2 (Inv_start vs2) ltac:(discriminate) H2) as (Hn2 & Hs2 & Hk2).
    apply (kept_determines s R tr Hok Hfam Htr M HwM HcM HNE HDF T1 T2
             (n_ok _ _ _ _ Hn1) (n_ok _ _ _ _ Hn2) Hs1 Hs2).
    intros q Hq. apply bool_eq_iff. rewrite (Hk1 q Hq), (Hk2 q Hq). split.
    - apply Kstar_perm. intros v Hv. apply (Permutation_in v Hperm Hv).
    - apply Kstar_perm. intros v Hv. apply (Permutation_in v (Permutation_sym Hperm) Hv).
  Qed.

  (* ---------- the fuel suffices ---------- *)

  Lemma fuel_enough_sp : forall fuel vs T hp, niceT T -> sub_present s tr M T -> mu T < fuel ->
    arounds fuel vs T hp <> None.
  Proof.
    induction fuel as [|fuel IH]; intros vs T hp Hn Hsp Hmu; [lia|].
    cbn [arounds].
    destruct (snd (fold_left astep vs (T, false)) && (2 <=? List.length vs)) eqn:Ec; [|discriminate].
    destruct (hp && veqb (rm T) (rm (fst (fold_left astep vs (T, false))))); [discriminate|].
    apply andb_true_iff in Ec. destruct Ec as [Ech _].
    destruct (afold_progress vs T false Hn Hsp Ech) as [H|Hlt]; [discriminate|].
    apply IH.
    - apply (afold_nice vs (T, false) Hn).
    - apply (afold_sp vs (T, false) Hn Hsp).
    - lia.
  Qed.

  Lemma arounds_S : forall fuel vs T hp,
    arounds (S fuel) vs T hp =
    if snd (fold_left astep vs (T, false)) && Nat.leb 2 (List.length vs)
    then if hp && veqb (rm T) (rm (fst (fold_left astep vs (T, false))))
         then Some (fst (fold_left astep vs (T, false)))
         else arounds fuel vs (fst (fold_left astep vs (T, false))) true
    else Some (fst (fold_left astep vs (T, false))).
  Proof. reflexivity. Qed.

  (* the fuel of [add_back_owned] is enough *)
  Theorem fuel_enough : forall vs k, (forall v, In v vs -> assoc_get v mav <> None) ->
    List.length (ps_elems N) <= k -> arounds (S (S k)) vs T0 false <> None.
  Proof.
    intros vs k Hall Hk. rewrite arounds_S.
    destruct (snd (fold_left astep vs (T0, false)) && (2 <=? List.length vs)) eqn:Ec; [|discriminate].
    cbn [andb].
    apply andb_true_iff in Ec. destruct Ec as [_ Hlen]. apply Nat.leb_le in Hlen.
    apply fuel_enough_sp.
    - apply (afold_nice vs (T0, false) HT0).
    - apply (afold_sub_present vs (T0, false) Hall HT0). right. intros ->. simpl in Hlen. lia.
    - pose proof (afold_mu_le vs (T0, false) HT0) as H1. cbn [fst] in H1.
      pose proof (mu_bound T0). lia.
  Qed.
End Dynamic.



(* ================= the theorem on the model's add_back_owned ================= *)

Lemma assoc_remove_incl : forall (A : Type) k (l : list (string * A)) x,
  In x (assoc_remove k l) -> In x l.
Proof.
  intros A k l. induction l as [|[k' v'] l IH]; intros x H; [contradiction|].
  simpl in H. destruct (String.eqb k k'); [right; exact H|].
  destruct H as [H|H]; [left; exact H|right; apply IH; exact H].
Qed.

Lemma in_assoc_get : forall (A : Type) (l : list (string * A)) v U,
  In (v, U) l -> assoc_get v l <> None.
Proof.
  intros A l. induction l as [|[k' v'] l IH]; intros v U H; [contradiction|].
  simpl. destruct (String.eqb v k') eqn:E; [discriminate|].
  destruct H as [H|H]; [|apply (IH v U H)].
  inversion H; subst. rewrite String.eqb_refl in E. discriminate.
Qed.

(* the versions a round visits all have a recorded set *)
Lemma versions_recorded : forall (mav : list (string * pset)) pv others v,
  Permutation (map fst (assoc_remove pv mav)) others ->
  In v (match assoc_get pv mav with Some _ => [pv] | None => [] end ++ others) ->
  assoc_get v mav <> None.
Proof.
  intros mav pv others v Hperm Hin. apply in_app_or in Hin. destruct Hin as [Hin|Hin].
  - destruct (assoc_get pv mav) eqn:E; [|contradiction]. destruct Hin as [<-|[]]. rewrite E. discriminate.
  - apply (Permutation_in v (Permutation_sym Hperm)) in Hin.
    apply in_map_iff in Hin. destruct Hin as ([v' U] & Hv & Hin). simpl in Hv. subst v'.
    apply (in_assoc_get _ mav v U). apply (assoc_remove_incl _ pv mav _ Hin).
Qed.

Section Main.
  Variables (c : config) (s : schema) (R : typeref -> Prop) (tr : typeref).
  Hypothesis Hcid : conv_id c.
  Hypothesis Hsch : forall v, cfg_schema c v = (s, tr).
  Hypothesis Hok : schema_ok s R.
  Hypothesis Hfam : family_refs s R.
  Hypothesis Htr : R tr.
  Hypothesis Hnd : keys_nodefault s R.
  Hypothesis Hks : keys_scalar s R.

  Variables (M : value) (T0 : pset) (mf : managed).
  Hypothesis HwM : wf_value M = true.
  Hypothesis HvM : conforms s tr false M = true.
  Hypothesis HeM : no_empty_list M = true.
  Hypothesis HT0 : nice s tr M T0.
  Hypothesis Hsets : forall v U, assoc_get v (managed_at_version mf) = Some U ->
    ps_ok U = true /\ owns_live_keys s tr M U.

  Variables (pi1 pi2 : list string -> list string).
  Hypothesis Hpi1 : forall l, Permutation l (pi1 l).
  Hypothesis Hpi2 : forall l, Permutation l (pi2 l).

  Let HcM : conforms s tr true M = true := conforms_dup_mono s M tr HvM.
  Let HNE : NE s tr M := NE_of_nel s R Hok M tr Htr HwM HeM.
  Let HDF : DF s tr M := DF_of_conforms s R Hok Hfam M tr Htr HwM HvM.

  (* the versions a run visits, in order *)
  Definition visit (pi : list string -> list string) (pv : string) : list string :=
    match assoc_get pv (managed_at_version mf) with Some _ => [pv] | None => [] end
    ++ pi (map fst (assoc_remove pv (managed_at_version mf))).

  Lemma add_back_owned_abstract : forall pi n lm lp pv, (forall l, Permutation l (pi l)) ->
    match arounds s tr M (managed_at_version mf) (S (S (value_size M))) (visit pi pv) T0 false with
    | Some T' => exists lp' n',
        add_back_owned (with_order c pi) n (lm, M) (lp, remove s tr M T0) pv mf
        = UOk ((lp', remove s tr M T'), n')
    | None =>
        add_back_owned (with_order c pi) n (lm, M) (lp, remove s tr M T0) pv mf = UErr EOther
    end.
  Proof.
    intros pi n lm lp pv Hpi. unfold add_back_owned. cbn [cfg_version_order with_order snd].
    rewrite add_back_rounds_order. fold (visit pi pv).
    apply (rounds_sim s R tr Hok Hfam Htr Hnd Hks M HwM HcM HNE HDF c (managed_at_version mf)
             Hcid Hsch Hsets (S (S (value_size M))) (visit pi pv) n lm lp T0 None false HT0 eq_refl).
  Qed.

  (* C09, any number of versions: two runs that both come to an end give the same object *)
  Theorem add_back_owned_order_independent : forall n lm lp pv r1 n1 r2 n2,
    add_back_owned (with_order c pi1) n (lm, M) (lp, remove s tr M T0) pv mf = UOk (r1, n1) ->
    add_back_owned (with_order c pi2) n (lm, M) (lp, remove s tr M T0) pv mf = UOk (r2, n2) ->
    snd r1 = snd r2.
  Proof.
    intros n lm lp pv r1 n1 r2 n2 H1 H2.
    set (mav := managed_at_version mf) in *.
    destruct (le_gt_dec (List.length (assoc_remove pv mav)) 1) as [Hle|Hgt].
    - rewrite (add_back_order_irrelevant_le1 c pi1 pi2 n (lm, M) (lp, remove s tr M T0) pv mf Hpi1 Hpi2 Hle) in H1.
      rewrite H1 in H2. inversion H2; subst. reflexivity.
    - pose proof (add_back_owned_abstract pi1 n lm lp pv Hpi1) as A1.
      pose proof (add_back_owned_abstract pi2 n lm lp pv Hpi2) as A2.
      destruct (arounds s tr M (managed_at_version mf) (S (S (value_size M))) (visit pi1 pv) T0 false) as [T1|] eqn:E1;
        [|rewrite A1 in H1; discriminate].
      destruct (arounds s tr M (managed_at_version mf) (S (S (value_size M))) (visit pi2 pv) T0 false) as [T2|] eqn:E2;
        [|rewrite A2 in H2; discriminate].
      destruct A1 as (lp1 & n1' & A1). destruct A2 as (lp2 & n2' & A2).
      rewrite A1 in H1. rewrite A2 in H2. inversion H1; subst. inversion H2; subst. cbn [snd].
      assert (Hperm : Permutation (visit pi1 pv) (visit pi2 pv)).
      { unfold visit. apply Permutation_app_head.
        eapply Permutation_trans; [apply Permutation_sym; apply Hpi1|apply Hpi2]. }
      apply (runs_agree s R tr Hok Hfam Htr Hnd Hks M HwM HcM HNE HDF (managed_at_version mf) Hsets T0 HT0
               (S (S (value_size M))) (S (S (value_size M))) (visit pi1 pv) (visit pi2 pv) T1 T2 Hperm); auto.
      + unfold visit. rewrite app_length, <- (Permutation_length (Hpi1 _)), map_length. fold mav. lia.
      + intros v Hv. apply (versions_recorded (managed_at_version mf) pv _ v (Hpi1 _) Hv).
  Qed.

  (* the loop comes to an end within its fuel, whatever the order *)
  Theorem add_back_owned_total : forall pi n lm lp pv, (forall l, Permutation l (pi l)) ->
    exists T' lp' n', nice s tr M T' /\
      add_back_owned (with_order c pi) n (lm, M) (lp, remove s tr M T0) pv mf
      = UOk ((lp', remove s tr M T'), n').
  Proof.
    intros pi n lm lp pv Hpi. pose proof (add_back_owned_abstract pi n lm lp pv Hpi) as A.
    destruct (arounds s tr M (managed_at_version mf) (S (S (value_size M))) (visit pi pv) T0 false) as [T'|] eqn:E.
    - destruct A as (lp' & n' & A). exists T', lp', n'. split; [|exact A].
      apply (arounds_nice s R tr Hok Hfam Htr Hnd Hks M HwM HcM HNE HDF (managed_at_version mf) Hsets
               _ _ T0 false T' HT0 E).
    - exfalso.
      apply (fuel_enough s R tr Hok Hfam Htr Hnd Hks M HwM HcM HNE HDF (managed_at_version mf) Hsets T0 HT0
               (visit pi pv) (value_size M)); [| |exact E].
      + intros v Hv. apply (versions_recorded (managed_at_version mf) pv _ v (Hpi _) Hv).
      + pose proof (node_set_size s R Hok Hfam tr M Htr HwM HcM). lia.
  Qed.

  (* C09, any number of versions: both runs come to an end, with the same object *)
  Theorem add_back_owned_deterministic : forall n lm lp pv,
    exists P lp1 n1 lp2 n2,
      add_back_owned (with_order c pi1) n (lm, M) (lp, remove s tr M T0) pv mf = UOk ((lp1, P), n1) /\
      add_back_owned (with_order c pi2) n (lm, M) (lp, remove s tr M T0) pv mf = UOk ((lp2, P), n2) /\
      exists T', nice s tr M T' /\ P = remove s tr M T'.
  Proof.
    intros n lm lp pv.
    destruct (add_back_owned_total pi1 n lm lp pv Hpi1) as (T1 & lp1 & n1 & Hn1 & H1).
    destruct (add_back_owned_total pi2 n lm lp pv Hpi2) as (T2 & lp2 & n2 & Hn2 & H2).
    pose proof (add_back_owned_order_independent n lm lp pv _ _ _ _ H1 H2) as Heq. cbn [snd] in Heq.
    exists (remove s tr M T1), lp1, n1, lp2, n2. split; [exact H1|]. split; [rewrite Heq; exact H2|].
    exists T1. auto.
  Qed.
End Main.

(* ================= the prune stage ================= *)

(* The object the whole prune stage of Apply returns does not depend on the order either
   (the conversion counter does: the number of rounds can differ). *)
Section PruneStage.
  Variables (c : config) (s : schema) (R : typeref -> Prop) (tr : typeref).
  Hypothesis Hcid : conv_id c.
  Hypothesis Hsch : forall v, cfg_schema c v = (s, tr).
  Hypothesis Hok : schema_ok s R.
  Hypothesis Hfam : family_refs s R.
  Hypothesis Htr : R tr.
  Hypothesis Hnd : keys_nodefault s R.
  Hypothesis Hks : keys_scalar s R.

  Variables (M : value) (mf : managed) (last : mrec).
  Hypothesis HwM : wf_value M = true.
  Hypothesis HvM : conforms s tr false M = true.
  Hypothesis HeM : no_empty_list M = true.
  Hypothesis Hlok : ps_ok (mr_set last) = true.
  Hypothesis Hlrec : applier_record_ok s tr (mr_set last).
  Hypothesis Hsets : forall v U, assoc_get v (managed_at_version mf) = Some U ->
    ps_ok U = true /\ owns_live_keys s tr M U.

  Variables (pi1 pi2 : list string -> list string).
  Hypothesis Hpi1 : forall l, Permutation l (pi1 l).
  Hypothesis Hpi2 : forall l, Permutation l (pi2 l).

  Let HcM : conforms s tr true M = true := conforms_dup_mono s M tr HvM.
  Let HNE : NE s tr M := NE_of_nel s R Hok M tr Htr HwM HeM.
  Let HDF : DF s tr M := DF_of_conforms s R Hok Hfam M tr Htr HwM HvM.
  Let T0 : pset := ps_en s tr (mr_set last).
  Let HT0 : nice s tr M T0 := first_set_nice s R tr Hok Hfam Htr Hnd M HwM HcM (mr_set last) Hlok Hlrec.

  (* what follows the add-back loop: the dangling stage and the final conversion *)
  Definition prune_tail (mgr : string) (r : ures (tv * nat)) : ures (tv * nat) :=
    match r with
    | UErr e => UErr e
    | UOk (pruned1, n2) =>
        match add_back_dangling c n2 (mr_ver last, M) pruned1 last with
        | UErr e => UErr e
        | UOk (pruned2, n3) =>
            let target := match mf_get mgr mf with Some r => mr_ver r | None => mr_ver last end in
            let '(r4, n4) := convert c n3 pruned2 target in
            match r4 with
            | COk v => UOk ((target, v), n4)
            | _ => UErr EOther
            end
        end
    end.

  Lemma prune_unfold : forall pi n lm mgr, ps_empty (mr_set last) = false ->
    prune (with_order c pi) n (lm, M) mf mgr (Some last) =
    prune_tail mgr (add_back_owned (with_order c pi) (S n) (mr_ver last, M)
                      (mr_ver last, remove s tr M T0) (mr_ver last) mf).
  Proof.
    intros pi n lm mgr Hne. unfold prune. rewrite Hne.
    change (convert (with_order c pi)) with (convert c).
    rewrite (convert_id c Hcid). cbn [snd].
    change (remove_tv (with_order c pi)) with (remove_tv c).
    change (en (with_order c pi)) with (en c).
    rewrite (en_any s tr c Hsch), (remove_tv_any s tr c Hsch).
    unfold prune_tail.
    fold T0.
    match goal with
    | |- context [add_back_owned ?a ?b ?m ?p ?v ?f] =>
        destruct (add_back_owned a b m p v f) as [[pruned1 n2]|e]; [|reflexivity]
    end.
    change (add_back_dangling (with_order c pi)) with (add_back_dangling c).
    destruct (add_back_dangling c n2 (mr_ver last, M) pruned1 last) as [[pruned2 n3]|e]; [|reflexivity].
    change (convert (with_order c pi)) with (convert c). reflexivity.
  Qed.

  Lemma prune_tail_ok : forall mgr T', nice s tr M T' ->
    exists o, forall (lp : string) n2,
      prune_tail mgr (UOk ((lp, remove s tr M T'), n2)) = UOk (o, S (S n2)).
  Proof.
    intros mgr T' Hn.
    destruct (removed_ok s R tr Hok Hfam Htr Hnd M HwM HcM HNE HDF T' Hn) as (HwP & HcP & _ & _).
    eexists. intros lp n2. unfold prune_tail, add_back_dangling.
    rewrite (convert_id c Hcid). cbn [fst snd].
    rewrite (to_fs_any s R tr Hok Hfam Htr c Hsch _ _ Htr HwP HcP).
    rewrite (to_fs_any s R tr Hok Hfam Htr c Hsch _ _ Htr HwM HcM).
    rewrite !(en_any s tr c Hsch), (remove_tv_any s tr c Hsch).
    rewrite (convert_id c Hcid). cbn [snd]. reflexivity.
  Qed.

  Theorem prune_order_independent : forall n lm mgr,
    exists o n1 n2,
      prune (with_order c pi1) n (lm, M) mf mgr (Some last) = UOk (o, n1) /\
      prune (with_order c pi2) n (lm, M) mf mgr (Some last) = UOk (o, n2).
  Proof.
    intros n lm mgr. destruct (ps_empty (mr_set last)) eqn:Ee.
    - exists (lm, M), n, n. unfold prune. rewrite Ee. auto.
    - rewrite !(prune_unfold _ n lm mgr Ee).
      destruct (add_back_owned_deterministic c s R tr Hcid Hsch Hok Hfam Htr Hnd Hks M T0 mf HwM HvM HeM HT0 Hsets
                  pi1 pi2 Hpi1 Hpi2 (S n) (mr_ver last) (mr_ver last) (mr_ver last))
        as (P & lp1 & n1 & lp2 & n2 & H1 & H2 & T' & Hn' & ->).
      rewrite H1, H2.
      destruct (prune_tail_ok mgr T' Hn') as (o & Ho).
      exists o, (S (S n1)), (S (S n2)). split; apply Ho.
  Qed.
End PruneStage.

(* ================= examples ================= *)

(* Non-vacuity: three version labels over the example schema (identity converter).  The
   merged object has a list member owned at v1 and the field vv beneath it owned at v2 (the
   situation of the repaired defect); the applier, recorded at v3, previously applied the
   member, which is what the prune stage first removes.  Visiting v2 before v1 a single
   round does not bring vv back; repeated to a fixed point, both orders give back the whole
   merged object, in a different number of rounds. *)
Section Example3.
  Open Scope string_scope.
  Let F := PEField.
  Let ka := PEKey [("name", VStr "a")].

  Definition ex3_merged : value :=
    VMap [("aa", VInt 1); ("items", VList [VMap [("name", VStr "a"); ("vv", VInt 1)]])].
  Definition ex3_last : pset :=
    ps_of_paths [[F "items"; ka]; [F "items"; ka; F "name"]; [F "items"; ka; F "vv"]].
  Definition ex3_mf : managed :=
    [("ma", mkRec (ps_of_paths [[F "items"; ka]; [F "items"; ka; F "name"]]) "v1" false);
     ("mb", mkRec (ps_of_paths [[F "items"; ka; F "vv"]]) "v2" false);
     ("mc", mkRec (ps_of_paths [[F "aa"]]) "v3" true)].
  Definition ex3_T0 : pset := ps_en ex_schema ex_rt ex3_last.
  Definition ex3_pruned0 : value := remove ex_schema ex_rt ex3_merged ex3_T0.
  Definition ex3_run (pi : list string -> list string) : ures (tv * nat) :=
    add_back_owned (with_order ex_config pi) 0 ("v3", ex3_merged) ("v3", ex3_pruned0) "v3" ex3_mf.

  Example ex3_start : ex3_pruned0 = VMap [("aa", VInt 1)].
  Proof. vm_compute. reflexivity. Qed.

  (* the versions besides the pruned one are visited as v1, v2 or as v2, v1 *)
  Example ex3_orders :
    map fst (assoc_remove "v3" (managed_at_version ex3_mf)) = ["v1"; "v2"] /\
    rev ["v1"; "v2"] = ["v2"; "v1"].
  Proof. split; vm_compute; reflexivity. Qed.

  Example ex3_results :
    ex3_run (fun l => l) = UOk (("v2", ex3_merged), 12) /\
    ex3_run (@rev string) = UOk (("v1", ex3_merged), 18).
  Proof. split; vm_compute; reflexivity. Qed.

  (* one round only: the order matters (v3, v1, v2 against v3, v2, v1) *)
  Example ex3_single_round :
    add_back_round ex_config (managed_at_version ex3_mf) ["v3"; "v1"; "v2"] 0
      ("v3", ex3_merged) ("v3", ex3_pruned0)
    = UOk (("v2", ex3_merged), ("v2", ex3_merged), true, 6) /\
    add_back_round ex_config (managed_at_version ex3_mf) ["v3"; "v2"; "v1"] 0
      ("v3", ex3_merged) ("v3", ex3_pruned0)
    = UOk (("v1", ex3_merged),
           ("v1", VMap [("aa", VInt 1); ("items", VList [VMap [("name", VStr "a")]])]), true, 6).
  Proof. split; vm_compute; reflexivity. Qed.

  (* the hypotheses of the theorem hold for this example *)
  Example ex3_by_theorem : forall pi1 pi2,
    (forall l, Permutation l (pi1 l)) -> (forall l, Permutation l (pi2 l)) ->
    exists P lp1 n1 lp2 n2,
      ex3_run pi1 = UOk ((lp1, P), n1) /\ ex3_run pi2 = UOk ((lp2, P), n2) /\
      exists T', nice ex_schema ex_rt ex3_merged T' /\ P = remove ex_schema ex_rt ex3_merged T'.
  Proof.
    intros pi1 pi2 H1 H2.
    assert (Hn0 : nice ex_schema ex_rt ex3_merged ex3_T0).
    { apply (first_set_nice ex_schema FieldSetLaws.ex_R ex_rt FieldSetLaws.ex_schema_ok FieldSetLaws.ex_family
               FieldSetLaws.ex_R_root (proj1 ex_keys_plain) ex3_merged eq_refl eq_refl ex3_last).
      - vm_compute. reflexivity.
      - split.
        + apply SetCheckers.keys_closed_b_sound; vm_compute; reflexivity.
        + apply (SetCheckers.no_atomic_free ex_schema FieldSetLaws.ex_R FieldSetLaws.ex_schema_ok).
          * unfold FieldSetLaws.ex_R. simpl. tauto.
          * exact ex_no_atomic.
          * exact FieldSetLaws.ex_R_root. }
    apply (add_back_owned_deterministic ex_config ex_schema FieldSetLaws.ex_R ex_rt
             (fun _ _ _ _ => eq_refl) (fun _ => eq_refl)
             FieldSetLaws.ex_schema_ok FieldSetLaws.ex_family FieldSetLaws.ex_R_root
             (proj1 ex_keys_plain) (proj2 ex_keys_plain)
             ex3_merged ex3_T0 ex3_mf eq_refl eq_refl eq_refl Hn0); auto.
    intros v U Hget. apply MergeBase.assoc_get_in in Hget. vm_compute in Hget.
    destruct Hget as [H|[H|[H|[]]]]; inversion H; subst v U; (split; [vm_compute; reflexivity|]);
      unfold owns_live_keys; intros pre fl k;
      apply (SetCheckers.owns_live_keys_b_sound ex_schema FieldSetLaws.ex_R FieldSetLaws.ex_schema_ok
               ex_rt ex3_merged _ FieldSetLaws.ex_R_root); vm_compute; reflexivity.
  Qed.
End Example3.

(* The hypothesis that the merged object contains no empty list cannot be dropped.  The
   field-set walker records nothing for an empty list, so the struct c = {x: 1, y: []} below
   is invisible once x is removed: with the sets {g, g.c} at v1 and {z} at v2, v3, starting
   from the pruned object null, the pass for v1 yields {g: {c: {y: []}}} (same, empty, field
   set: nothing "added") and a later pass for another version removes it again.  Both runs
   stop after one round, with different objects -- and equal field sets. *)
Section EmptyList.
  Open Scope string_scope.
  Let F := PEField.

  Definition cx_c : atom :=
    Atom None None
      (Some (MapT [SField "x" ex_num None;
                   SField "y" (TR None (Atom None (Some (ListT ex_str RAssociative [])) None) None) None]
                  empty_tr RUnset)).
  Definition cx_g : atom :=
    Atom None None (Some (MapT [SField "c" (ex_named "c") None] empty_tr RUnset)).
  Definition cx_root : atom :=
    Atom None None (Some (MapT [SField "g" (ex_named "g") None; SField "z" ex_num None] empty_tr RUnset)).
  Definition cx_schema : schema := [("root", cx_root); ("g", cx_g); ("c", cx_c)].
  Definition cx_config : config :=
    mkConfig (fun _ => (cx_schema, ex_rt)) (fun _ _ _ v => COk v) None None false (fun l => l).

  Definition cx_merged : value :=
    VMap [("g", VMap [("c", VMap [("x", VInt 1); ("y", VList [])])])].
  Definition cx_mf : managed :=
    [("m1", mkRec (ps_of_paths [[F "g"; F "c"]]) "v1" false);
     ("m2", mkRec (ps_of_paths [[F "z"]]) "v2" false);
     ("m3", mkRec (ps_of_paths [[F "z"]]) "v3" false)].
  Definition cx_T0 : pset := ps_of_paths [[F "g"]].
  Definition cx_pruned0 : value := remove cx_schema ex_rt cx_merged cx_T0.
  Definition cx_run (pi : list string -> list string) : ures (tv * nat) :=
    add_back_owned (with_order cx_config pi) 0 ("v3", cx_merged) ("v3", cx_pruned0) "v3" cx_mf.

  Theorem add_back_order_dependent_empty_list :
    (* a valid object, with an empty list *)
    wf_value cx_merged = true /\ validate cx_schema false ex_rt cx_merged = false /\
    conforms cx_schema ex_rt false cx_merged = true /\ no_empty_list cx_merged = false /\
    (* the two orders *)
    map fst (assoc_remove "v3" (managed_at_version cx_mf)) = ["v1"; "v2"] /\
    cx_run (fun l => l) = UOk (("v2", VNull), 6) /\
    cx_run (@rev string) = UOk (("v1", VMap [("g", VMap [("c", VMap [("y", VList [])])])]), 6) /\
    (* the two results have the same field set *)
    to_field_set cx_schema ex_rt VNull
    = to_field_set cx_schema ex_rt (VMap [("g", VMap [("c", VMap [("y", VList [])])])]).
  Proof. repeat split; vm_compute; reflexivity. Qed.
  (* every other hypothesis of the theorem holds for this example *)
  Definition cx_y_tr : typeref := TR None (Atom None (Some (ListT ex_str RAssociative [])) None) None.
  Definition cx_R (t : typeref) : Prop :=
    In t [ex_rt; ex_named "g"; ex_named "c"; ex_num; ex_str; cx_y_tr; empty_tr].

  Lemma cx_schema_ok : schema_ok cx_schema cx_R.
  Proof.
    constructor.
    - intros t a lt Ht Hr Ha. unfold cx_R in *. FieldSetLaws.split_in Ht;
        vm_compute in Hr; inversion Hr; subst a; simpl in Ha; inversion Ha; subst lt;
        simpl; auto 10.
    - intros t a m k Ht Hr Ha. unfold cx_R in *. FieldSetLaws.split_in Ht;
        vm_compute in Hr; inversion Hr; subst a; simpl in Ha; inversion Ha; subst m;
        unfold field_type; simpl;
        repeat (match goal with |- context [String.eqb ?x ?y] => destruct (String.eqb x y) end; simpl);
        auto 10.
    - intros t a Ht Hr. unfold cx_R in *. FieldSetLaws.split_in Ht;
        vm_compute in Hr; inversion Hr; subst a; reflexivity.
  Qed.

  Lemma cx_family : family_refs cx_schema cx_R.
  Proof.
    intros t a lt Ht Hr Ha. unfold cx_R in *. FieldSetLaws.split_in Ht;
      vm_compute in Hr; inversion Hr; subst a; simpl in Ha; inversion Ha; subst lt; simpl; auto.
  Qed.

  Lemma cx_keys_nodefault : keys_nodefault cx_schema cx_R.
  Proof.
    intros t a lt k d Ht Hr Hal Hk. unfold cx_R in Ht.
    FieldSetLaws.split_in Ht; vm_compute in Hr; inversion Hr; subst a; simpl in Hal;
      try discriminate; inversion Hal; subst lt; simpl in Hk; contradiction.
  Qed.

  Lemma cx_keys_scalar : keys_scalar cx_schema cx_R.
  Proof.
    intros t a lt k ea mt Ht Hr Hal Hk Hre Ham. unfold cx_R in Ht.
    FieldSetLaws.split_in Ht; vm_compute in Hr; inversion Hr; subst a; simpl in Hal;
      try discriminate; inversion Hal; subst lt; simpl in Hk; contradiction.
  Qed.

  Lemma cx_R_root : cx_R ex_rt.
  Proof. unfold cx_R. simpl. auto. Qed.

  Lemma cx_no_atomic : forall t, cx_R t -> atomic_map_type cx_schema t = false.
  Proof. intros t Ht. unfold cx_R in Ht. FieldSetLaws.split_in Ht; reflexivity. Qed.

  Lemma cx_T0_nice : nice cx_schema ex_rt cx_merged cx_T0.
  Proof.
    assert (HokT : ps_ok cx_T0 = true) by (vm_compute; reflexivity).
    split; [exact HokT| |].
    - apply keys_closed_guarded; [exact HokT|].
      apply SetCheckers.keys_closed_b_sound; vm_compute; reflexivity.
    - apply (items_ok_of_free cx_schema cx_R cx_schema_ok cx_family cx_keys_nodefault
               cx_merged ex_rt true _ cx_R_root eq_refl eq_refl HokT).
      apply (SetCheckers.no_atomic_free cx_schema cx_R cx_schema_ok).
      + unfold cx_R. simpl. tauto.
      + exact cx_no_atomic.
      + exact cx_R_root.
  Qed.

  Lemma cx_sets_ok : forall v U, assoc_get v (managed_at_version cx_mf) = Some U ->
    ps_ok U = true /\ owns_live_keys cx_schema ex_rt cx_merged U.
  Proof.
    intros v U Hget. apply MergeBase.assoc_get_in in Hget. vm_compute in Hget.
    destruct Hget as [H|[H|[H|[]]]]; inversion H; subst v U; (split; [vm_compute; reflexivity|]);
      unfold owns_live_keys; intros pre fl k;
      apply (SetCheckers.owns_live_keys_b_sound cx_schema cx_R cx_schema_ok
               ex_rt cx_merged _ cx_R_root); vm_compute; reflexivity.
  Qed.

  (* the statement of [add_back_owned_order_independent] without the hypothesis on empty lists *)
  Definition order_independent_with_empty_lists : Prop :=
    forall (c : config) (s : schema) (R : typeref -> Prop) (tr : typeref),
      conv_id c -> (forall v, cfg_schema c v = (s, tr)) ->
      schema_ok s R -> family_refs s R -> R tr -> keys_nodefault s R -> keys_scalar s R ->
      forall (M : value) (T0 : pset) (mf : managed),
      wf_value M = true -> conforms s tr false M = true -> nice s tr M T0 ->
      (forall v U, assoc_get v (managed_at_version mf) = Some U ->
         ps_ok U = true /\ owns_live_keys s tr M U) ->
      forall pi1 pi2 : list string -> list string,
      (forall l, Permutation l (pi1 l)) -> (forall l, Permutation l (pi2 l)) ->
      forall n lm lp pv r1 n1 r2 n2,
      add_back_owned (with_order c pi1) n (lm, M) (lp, remove s tr M T0) pv mf = UOk (r1, n1) ->
      add_back_owned (with_order c pi2) n (lm, M) (lp, remove s tr M T0) pv mf = UOk (r2, n2) ->
      snd r1 = snd r2.

  Theorem order_independence_needs_no_empty_list : ~ order_independent_with_empty_lists.
  Proof.
    intros Hc.
    assert (Hfalse : snd ("v2", VNull) = snd ("v1", VMap [("g", VMap [("c", VMap [("y", VList [])])])])).
    { apply (Hc cx_config cx_schema cx_R ex_rt (fun _ _ _ _ => eq_refl) (fun _ => eq_refl)
               cx_schema_ok cx_family cx_R_root cx_keys_nodefault cx_keys_scalar
               cx_merged cx_T0 cx_mf eq_refl eq_refl cx_T0_nice cx_sets_ok
               (fun l => l) (@rev string) (fun l => Permutation_refl l) (fun l => Permutation_rev l)
               0 "v3" "v3" "v3" _ 6 _ 6); vm_compute; reflexivity. }
    discriminate Hfalse.
  Qed.
  (* With an empty list a pass can also UNDO what another pass of the same round added back:
     v2 owns g, v1 owns (a path beneath) g.c.  From {g: null} the pass for v1 adds g.c back,
     which leaves {g: {c: {y: []}}} and makes g invisible (empty field set); the pass for v2
     then adds g back as {g: null}.  Every round raises the flag, in whatever order: before the
     second repair of update.go (the loop also stops when a whole round leaves the object as
     the previous round left it) the loop did not come to an end; with it, it stops after two
     rounds -- on the object the LAST pass of the round leaves, which depends on the order, and
     so does its field set. *)
  Definition cx_mf_osc : managed :=
    [("m1", mkRec (ps_of_paths [[F "g"; F "c"; F "y"]]) "v1" false);
     ("m2", mkRec (ps_of_paths [[F "g"]]) "v2" false);
     ("m3", mkRec (ps_of_paths [[F "z"]]) "v3" false)].
  Definition cx_pruned_osc : value := remove cx_schema ex_rt cx_merged (ps_of_paths [[F "g"; F "c"; F "x"]]).

  Example add_back_oscillates_empty_list :
    cx_pruned_osc = VMap [("g", VMap [("c", VMap [("y", VList [])])])] /\
    (* one round from {g: null} leads back to {g: null}, with the flag raised *)
    add_back_round cx_config (managed_at_version cx_mf_osc) ["v3"; "v1"; "v2"] 0
      ("v3", cx_merged) ("v3", VMap [("g", VNull)])
    = UOk (("v2", cx_merged), ("v2", VMap [("g", VNull)]), true, 6) /\
    (* the loop stops after two rounds, on different objects with different field sets *)
    add_back_owned (with_order cx_config (fun l => l)) 0 ("v3", cx_merged) ("v3", cx_pruned_osc) "v3" cx_mf_osc
    = UOk (("v2", VMap [("g", VNull)]), 12) /\
    add_back_owned (with_order cx_config (@rev string)) 0 ("v3", cx_merged) ("v3", cx_pruned_osc) "v3" cx_mf_osc
    = UOk (("v1", cx_pruned_osc), 12) /\
    to_field_set cx_schema ex_rt (VMap [("g", VNull)]) = Some (ps_of_paths [[F "g"]]) /\
    to_field_set cx_schema ex_rt cx_pruned_osc = Some ps_empty_set.
  Proof. repeat split; vm_compute; reflexivity. Qed.

  (* The same through the whole Apply: three managers at three versions (identity converter)
       m2 applies  g: {}            at v2   (owns g)
       m1 applies  g: {c: {}}       at v1   (owns g.c)
       m3 applies  g: {c: {x: 1, y: []}}  at v3   (owns g.c.x; nothing is recorded for y)
       m3 applies  z: 1             at v3
     The last Apply prunes g.c.x, hence (closure under named parents) g; the pass for v2 adds
     g back as {g: null}, the pass for v1 adds g.c back, which leaves {g: {c: {y: []}}} and
     makes g invisible again.  (Regression: before the second repair of update.go this Apply
     did not come to an end.)  Now it does, and its result -- object and managed fields --
     depends on the order in which v1 and v2 are visited. *)
  Definition cx_live3 : tv := ("v1", cx_merged).
  Definition cx_mf3 : managed :=
    [("m1", mkRec (ps_of_paths [[F "g"; F "c"]]) "v1" true);
     ("m2", mkRec (ps_of_paths [[F "g"]]) "v2" true);
     ("m3", mkRec (ps_of_paths [[F "g"; F "c"; F "x"]]) "v3" true)].

  Example apply_order_dependent_empty_list :
    let a1 := apply_op cx_config ("v1", VMap []) ("v2", VMap [("g", VMap [])]) "v2" [] "m2" false in
    let mf1 := [("m2", mkRec (ps_of_paths [[F "g"]]) "v2" true)] in
    let live1 := ("v1", VMap [("g", VMap [])]) in
    let a2 := apply_op cx_config live1 ("v1", VMap [("g", VMap [("c", VMap [])])]) "v1" mf1 "m1" false in
    let mf2 := [("m1", mkRec (ps_of_paths [[F "g"; F "c"]]) "v1" true);
                ("m2", mkRec (ps_of_paths [[F "g"]]) "v2" true)] in
    let live2 := ("v1", VMap [("g", VMap [("c", VMap [])])]) in
    let a3 := apply_op cx_config live2 ("v3", cx_merged) "v3" mf2 "m3" false in
    a1 = UOk (Some live1, mf1) /\ a2 = UOk (Some live2, mf2) /\ a3 = UOk (Some cx_live3, cx_mf3) /\
    (* the versions other than v3 visited as v1, v2 *)
    apply_op (with_order cx_config (fun l => l)) cx_live3 ("v3", VMap [("z", VInt 1)]) "v3" cx_mf3 "m3" false
    = UOk (Some ("v3", VMap [("g", VNull); ("z", VInt 1)]),
           [("m2", mkRec (ps_of_paths [[F "g"]]) "v2" true);
            ("m3", mkRec (ps_of_paths [[F "z"]]) "v3" true)]) /\
    (* ... as v2, v1 *)
    apply_op (with_order cx_config (@rev string)) cx_live3 ("v3", VMap [("z", VInt 1)]) "v3" cx_mf3 "m3" false
    = UOk (Some ("v3", VMap [("z", VInt 1)]),
           [("m3", mkRec (ps_of_paths [[F "z"]]) "v3" true)]).
  Proof. repeat split; vm_compute; reflexivity. Qed.

  (* the prune stage of that last Apply *)
  Definition cx_merged4 : value :=
    VMap [("g", VMap [("c", VMap [("x", VInt 1); ("y", VList [])])]); ("z", VInt 1)].
  Definition cx_mfp4 : managed :=
    [("m1", mkRec (ps_of_paths [[F "g"; F "c"]]) "v1" true);
     ("m2", mkRec (ps_of_paths [[F "g"]]) "v2" true);
     ("m3", mkRec (ps_of_paths [[F "z"]]) "v3" true)].
  Definition cx_last4 : mrec := mkRec (ps_of_paths [[F "g"; F "c"; F "x"]]) "v3" true.
  Definition cx_cycle : tv := ("v2", VMap [("g", VNull); ("z", VInt 1)]).

  Example prune_order_dependent_empty_list :
    prune (with_order cx_config (fun l => l)) 0 ("v1", cx_merged4) cx_mfp4 "m3" (Some cx_last4)
    = UOk (("v3", VMap [("g", VNull); ("z", VInt 1)]), 15) /\
    prune (with_order cx_config (@rev string)) 0 ("v1", cx_merged4) cx_mfp4 "m3" (Some cx_last4)
    = UOk (("v3", VMap [("z", VInt 1)]), 15).
  Proof. split; vm_compute; reflexivity. Qed.

  (* from the state reached after the first round (order v3, v1, v2), a round leads back to
     the same state with the flag raised: the first exit is never taken, the second one is
     taken at once *)
  Lemma cx_first_round :
    add_back_round cx_config (managed_at_version cx_mfp4) ["v3"; "v1"; "v2"] 1
      ("v3", cx_merged4) ("v3", VMap [("z", VInt 1)])
    = UOk (("v2", cx_merged4), cx_cycle, true, 7).
  Proof. vm_compute. reflexivity. Qed.

  Lemma cx_round_cycle : forall n,
    add_back_round cx_config (managed_at_version cx_mfp4) ["v3"; "v1"; "v2"] n ("v2", cx_merged4) cx_cycle
    = UOk (("v2", cx_merged4), cx_cycle, true, S (S (S (S (S (S n)))))).
  Proof. intros n. vm_compute. reflexivity. Qed.

  Lemma cx_second_exit : forall fuel n,
    add_back_rounds (S fuel) cx_config (managed_at_version cx_mfp4) ["v3"; "v1"; "v2"] n
      ("v2", cx_merged4) cx_cycle (Some cx_cycle)
    = UOk (cx_cycle, S (S (S (S (S (S n)))))).
  Proof.
    intros fuel n. cbn [add_back_rounds]. rewrite cx_round_cycle.
    cbn [andb List.length Nat.leb].
    replace (veqb (snd cx_cycle) (snd cx_cycle)) with true by (vm_compute; reflexivity).
    reflexivity.
  Qed.

  (* every other hypothesis of [prune_order_independent] holds: the statement without the
     hypothesis on empty lists is false *)
  Lemma cx_merged4_sets_ok : forall v U, assoc_get v (managed_at_version cx_mfp4) = Some U ->
    ps_ok U = true /\ owns_live_keys cx_schema ex_rt cx_merged4 U.
  Proof.
    intros v U Hget. apply MergeBase.assoc_get_in in Hget. vm_compute in Hget.
    destruct Hget as [H|[H|[H|[]]]]; inversion H; subst v U; (split; [vm_compute; reflexivity|]);
      unfold owns_live_keys; intros pre fl k;
      apply (SetCheckers.owns_live_keys_b_sound cx_schema cx_R cx_schema_ok
               ex_rt cx_merged4 _ cx_R_root); vm_compute; reflexivity.
  Qed.

  Lemma cx_last4_ok : applier_record_ok cx_schema ex_rt (mr_set cx_last4).
  Proof.
    split.
    - apply SetCheckers.keys_closed_b_sound; vm_compute; reflexivity.
    - apply (SetCheckers.no_atomic_free cx_schema cx_R cx_schema_ok).
      + unfold cx_R. simpl. tauto.
      + exact cx_no_atomic.
      + exact cx_R_root.
  Qed.

  Definition prune_order_independent_with_empty_lists : Prop :=
    forall (c : config) (s : schema) (R : typeref -> Prop) (tr : typeref),
      conv_id c -> (forall v, cfg_schema c v = (s, tr)) ->
      schema_ok s R -> family_refs s R -> R tr -> keys_nodefault s R -> keys_scalar s R ->
      forall (M : value) (mf : managed) (last : mrec),
      wf_value M = true -> conforms s tr false M = true ->
      ps_ok (mr_set last) = true -> applier_record_ok s tr (mr_set last) ->
      (forall v U, assoc_get v (managed_at_version mf) = Some U ->
         ps_ok U = true /\ owns_live_keys s tr M U) ->
      forall pi1 pi2 : list string -> list string,
      (forall l, Permutation l (pi1 l)) -> (forall l, Permutation l (pi2 l)) ->
      forall n lm mgr o1 n1 o2 n2,
      prune (with_order c pi1) n (lm, M) mf mgr (Some last) = UOk (o1, n1) ->
      prune (with_order c pi2) n (lm, M) mf mgr (Some last) = UOk (o2, n2) ->
      o1 = o2.

  Theorem prune_order_independence_needs_no_empty_list : ~ prune_order_independent_with_empty_lists.
  Proof.
    intros Hc.
    assert (Hfalse : ("v3", VMap [("g", VNull); ("z", VInt 1)]) = ("v3", VMap [("z", VInt 1)])).
    { apply (Hc cx_config cx_schema cx_R ex_rt (fun _ _ _ _ => eq_refl) (fun _ => eq_refl)
               cx_schema_ok cx_family cx_R_root cx_keys_nodefault cx_keys_scalar
               cx_merged4 cx_mfp4 cx_last4 eq_refl eq_refl eq_refl cx_last4_ok cx_merged4_sets_ok
               (fun l => l) (@rev string) (fun l => Permutation_refl l) (fun l => Permutation_rev l)
               0 "v1" "m3" _ 15 _ 15); vm_compute; reflexivity. }
    discriminate Hfalse.
  Qed.
End EmptyList.

