(* C07 (extract and apply back), the core: at a state satisfying the invariant of
   Proofs/History.v, applying back -- same manager, no force -- a configuration
     - that is admissible ([op_ok]: valid, plain, granular),
     - whose field set is the manager's record, as a set of paths,
     - and which merges into the live object without changing it,
   succeeds, changes no field and no record.  [apply_back_general].
   [extract_apply_back_core]: the extract of a manager's record is such a configuration as
   soon as it is a valid plain object whose field set is the record; the merge clause is
   Proofs/ExtractBackMerge.v. *)
From Coq Require Import List ZArith String Bool Arith Lia.
From SMD Require Import Model.Value Model.Order Model.PathElem Model.PathSet Model.Schema Model.Walk
  Model.Validate Model.FieldSet Model.Remove Model.Merge Model.Compare Model.Matcher Model.Reconcile
  Model.Updater
  Spec.PathsAsSets Spec.RefValid Spec.Resolve Spec.Agree Spec.RefDiff Spec.Examples
  Proofs.OrderLaws Proofs.PathSetLaws Proofs.SchemaOk Proofs.FieldSetBase Proofs.FieldSetPaths
  Proofs.FieldSetWf Proofs.FieldSetLaws Proofs.RemoveAbsent Proofs.RemoveWf Proofs.ResolveLaws
  Proofs.UpdaterLaws Proofs.UpdaterLaws2 Proofs.MergeLaws Proofs.MergeAgree
  Proofs.RemoveFrame Proofs.EnLaws Proofs.NodeSet Proofs.KeyFields Proofs.VeqbResolve
  Proofs.SetCheckers Proofs.ApplyEffect Proofs.RefDiffBoth Proofs.RefDiffLaws Proofs.RefDiffPresent
  Proofs.ApplyInv Proofs.History Proofs.Reapply.
From SMD Require Import Proofs.CompareLaws Proofs.PruneShape Proofs.ApplyPruneBase Proofs.RemoveExt
  Proofs.RemoveBase Proofs.ReconcileTotal Proofs.PruneTotal Proofs.MergeFix Proofs.CompareTotal
  Proofs.FieldSetMirrors Proofs.ExtractLaws Proofs.MergeDescent Proofs.PartExtract
  Proofs.ExtractBackDup Proofs.ExtractBackMerge.
From SMD Require Proofs.MergeBase Proofs.TrieBase Proofs.ReconcileBase.
Import ListNotations.
Open Scope bool_scope.
Open Scope list_scope.

Local Arguments ps_has : simpl never.
Local Arguments ps_with_prefix : simpl never.
Local Arguments ps_empty : simpl never.

(* ================= the prune stage ================= *)

(* When every member of the applier's previous record is a member of the field set of the
   configuration, the prune stage succeeds and returns the merged object. *)
Section PruneSub.
  Variables (s : schema) (R : typeref -> Prop) (tr : typeref).
  Hypothesis Hok : schema_ok s R.
  Hypothesis Hfam : family_refs s R.
  Hypothesis Htr : R tr.
  Hypothesis Hnd : keys_nodefault s R.
  Hypothesis Hks : keys_scalar s R.

  Variables (live cfg M : value).
  Hypothesis Hwc : wf_value cfg = true.
  Hypothesis Hcc : conforms s tr false cfg = true.
  Hypothesis Hpl : plain cfg = true.
  Hypothesis Hroot : granular s tr cfg.
  Hypothesis HwM : wf_value M = true.
  Hypothesis HcM : conforms s tr true M = true.
  Hypothesis Hagr : AgrP s tr cfg M.
  Hypothesis Hlf : LeafP s tr (Some live) (Some cfg) M.

  Variables (set0 U : pset).
  Hypothesis Hset0 : to_field_set s tr cfg = Some set0.
  Hypothesis HU : ps_ok U = true.
  Hypothesis HUcfg : forall q, wf_path q = true -> ps_has q set0 = true -> ps_has q U = true.
  Hypothesis HUown : forall q, wf_path q = true -> ps_has q U = true ->
    ps_has q set0 = true \/
    exists S, ps_ok S = true /\ owns_live_keys s tr live S /\ ps_has q S = true /\
              forall q', wf_path q' = true -> ps_has q' S = true -> ps_has q' U = true.

  Variables (c : config) (ver : string).
  Hypothesis Hcid : conv_id c.
  Hypothesis Hsch : schema_of c ver = s.
  Hypothesis Htrr : tr_of c ver = tr.

  Lemma prune_sub_cfg : forall n mfp mgr last,
    managed_at_version mfp = [(ver, U)] ->
    (forall r, mf_get mgr mfp = Some r -> mr_ver r = ver) ->
    mr_ver last = ver -> ps_ok (mr_set last) = true -> applier_record_ok s tr (mr_set last) ->
    (forall q, wf_path q = true -> ps_has q (mr_set last) = true -> ps_has q set0 = true) ->
    exists n1, prune c n (ver, M) mfp mgr (Some last) = UOk ((ver, M), n1).
  Proof.
    intros n mfp mgr last Hmav Htarget Hlv Hlok Hlrec Hsub.
    pose proof (MergeBase.conforms_dup_mono s cfg tr Hcc) as Hcc'.
    destruct (ps_empty (mr_set last)) eqn:Ee.
    { exists n. unfold prune. rewrite Ee. reflexivity. }
    destruct (prune_total s R tr Hok Hfam Htr Hnd Hks live cfg M Hwc Hcc Hpl Hroot HwM HcM Hagr Hlf
                set0 U Hset0 HU HUcfg HUown c ver Hcid Hsch Htrr n mfp mgr last
                Hmav Htarget Hlv Hlok Hlrec Ee)
      as (T1 & n1 & Hn1 & Hsp1 & Hav1 & HnD & HspD & HavD & Epr).
    exists n1. rewrite Epr. f_equal. f_equal. f_equal.
    apply (memberless_remove s R Hok Hfam tr M _ Htr HwM HcM
             (merged_granular s R tr Hok Hfam Htr cfg M Hwc Hcc Hpl Hroot Hagr set0 Hset0)
             (n_ok _ _ _ _ HnD)).
    intros q Hq. destruct (ps_has q (dangling_T s tr M T1 (mr_set last))) eqn:Eh; [|reflexivity]. exfalso.
    destruct (dangling_set s R tr Hok Hfam Htr Hnd Hks M HwM HcM T1 (mr_set last) Hn1 Hlok (proj1 Hlrec))
      as (_ & Hchar & _).
    pose proof Eh as Eh'. rewrite (Hchar q Hq) in Eh'. apply andb_true_iff in Eh'. destruct Eh' as [_ Hen].
    destruct (en_has_prefix s tr (mr_set last) q Hlok Hq Hen) as (r & Hr & Hm).
    assert (Hqr : wf_path (q ++ r) = true) by (apply ReconcileBase.wf_path_app; auto).
    pose proof (field_set_paths_resolve s R tr cfg set0 (q ++ r) Hok Htr Hfam Hwc Hcc' Hset0 Hqr
                  (Hsub _ Hqr Hm)) as Hpr.
    apply present_prefix in Hpr. apply present_resolve in Hpr. destruct Hpr as (n0 & Hres).
    assert (Hne : q <> []) by (apply (has_nonnil _ _ Hen)).
    pose proof (HavD q n0 Hq Hne Hres) as Hto.
    rewrite (touches_self q _ (n_ok _ _ _ _ HnD) Hq Eh) in Hto. discriminate.
  Qed.
End PruneSub.

(* ================= applying back a configuration that changes nothing ================= *)

Section Back.
  Variables (c : config) (R : typeref -> Prop) (ver : string).
  Let s := schema_of c ver.
  Let tr := tr_of c ver.

  Lemma apply_back_general : forall live mf mgr r cfg set0,
    setting_ok c R ver -> state_ok c ver live mf -> op_ok c ver (HApply mgr cfg false) ->
    mf_get mgr mf = Some r -> mr_applied r = true ->
    to_field_set s tr cfg = Some set0 -> ps_equals set0 (mr_set r) = true ->
    merge s tr live cfg = Some (Some live) ->
    exists mf'',
      apply_op c (ver, live) (ver, cfg) ver mf mgr false =
        UOk ((if cfg_return_input_on_noop c then Some (ver, live) else None), mf'') /\
      same_records mf mf''.
  Proof.
    intros live mf mgr r cfg set0 Hset Hst Hop Hget Happl Eset0 Heq Em.
    pose proof (state_ok_conforms c ver live mf _ Hst Hop) as Hcr. fold s tr in Hcr.
    pose proof Hset as (Hni & Hcid & Hok & Hfam & Hpure & Htr & Hkp). fold s tr in Hok, Hfam, Hpure, Htr, Hkp.
    pose proof Hkp as [Hnd Hks].
    destruct Hop as (Hwc & Hcc & Hpl & Hgr). fold s tr in Hcc, Hgr.
    pose proof (so_wf c ver live mf Hst) as Hwr. pose proof (so_mf c ver live mf Hst) as Hmf.
    pose proof (so_single c ver live mf Hst) as Hsv.
    destruct (merge_facts s R Hok Hfam tr live cfg live Htr Hwr Hwc Hcr Hcc Hpl Em) as (_ & _ & Hagr & Hlf).
    pose proof (to_field_set_ok s R tr cfg set0 Hok Htr Hwc Eset0) as Hset0ok.
    pose proof (mf_ok_get mf mgr r Hmf Hget) as Hrok.
    assert (Hsame : forall p, wf_path p = true -> ps_has p set0 = ps_has p (mr_set r)).
    { apply (ps_equals_ext set0 (mr_set r) Hset0ok Hrok). exact Heq. }
    assert (Hne0 : ps_empty set0 = false).
    { destruct (ps_empty set0) eqn:Ee; [|reflexivity]. exfalso.
      destruct (ps_nonempty_has (mr_set r) Hrok (so_nonempty c ver live mf Hst mgr r Hget)) as (p & Hp & _ & Hh).
      rewrite <- (Hsame p Hp), (TrieBase.ps_empty_has set0 p Ee) in Hh. discriminate. }
    set (rec0 := mkRec set0 ver true) in *.
    set (mfp := mf_set mgr rec0 mf).
    assert (Hmfp : mf_ok mfp) by (apply mf_set_ok; assumption).
    assert (Hsvp : single_version ver mfp) by (apply mf_set_single; [assumption|reflexivity]).
    assert (Hothers : forall m r0, m <> mgr -> mf_get m mf = Some r0 -> owns_live_keys s tr live (mr_set r0)).
    { intros m r0 _ Hg. apply (so_records c ver live mf Hst m r0 Hg). }
    pose proof (managers_sets s tr ver live mf mgr set0 Hsv Hmf Hset0ok Hothers) as HM.
    cbv zeta in HM. fold rec0 in HM. fold mfp in HM.
    destruct HM as (HU & HUcfg & HUown & Hmav & Htarget & _).
    set (U := union_all mfp ps_empty_set) in *.
    (* reconciliation *)
    destruct (reconcile_managed_id c R ver live mf Hcid Hok Hfam Hpure Htr Hwr Hcr Hmf Hsv
                (so_nonempty c ver live mf Hst) (so_present c ver live mf Hst)) as (n0 & Erec).
    (* the prune stage returns the merged object *)
    assert (Hrv : mr_ver r = ver).
    { apply String.eqb_eq. apply (single_version_get ver mf mgr r Hsv Hget). }
    destruct (prune_sub_cfg s R tr Hok Hfam Htr Hnd Hks live cfg live Hwc Hcc Hpl Hgr Hwr Hcr Hagr Hlf
                set0 U Eset0 HU HUcfg HUown c ver Hcid eq_refl eq_refl n0 mfp mgr r
                Hmav Htarget Hrv Hrok (proj1 (so_records c ver live mf Hst mgr r Hget)))
      as (n1 & Epr).
    { intros q Hq Hh. rewrite (Hsame q Hq). exact Hh. }
    (* the records *)
    destruct (compare_total s R tr live live Hok Hfam Htr Hwr Hwr Hcr Hcr) as (cmp' & Hcmp).
    pose proof (compare_self s R tr live cmp' Hok Htr Hwr Hcmp) as Hsame0.
    unfold c3_is_same in Hsame0. apply andb_true_iff in Hsame0. destruct Hsame0 as [Hsame0 E3].
    apply andb_true_iff in Hsame0. destruct Hsame0 as [E1 E2].
    assert (Hcmp_tv : compare_tv c (ver, live) (ver, live) = Some cmp') by exact Hcmp.
    assert (Hc : cmp_ok cmp') by (apply (compare_sets_ok s R tr live live cmp' Hok Htr Hwr Hwr Hcmp)).
    destruct (update_quiet c n1 (ver, live) (ver, live) ver mfp mgr cmp' Hni Hsvp Hmfp Hcmp_tv Hc)
      as (mf2 & n2 & Eupd & Hw2 & Hoth2).
    { intros m r0 p _ _ _ _ _.
      rewrite (TrieBase.ps_empty_has _ p E1), (TrieBase.ps_empty_has _ p E2), (TrieBase.ps_empty_has _ p E3).
      auto. }
    { intros m r0 Hm Hg. unfold mfp in Hg. rewrite (mf_get_set_other m mgr rec0 mf Hm) in Hg.
      apply (so_nonempty c ver live mf Hst m r0 Hg). }
    exists mf2. split.
    - rewrite (apply_op_intro c ver live cfg mf mgr false mf n0 live set0 (ver, live) n1 mf2 cmp' n2
                 Hni Erec Em Eset0).
      + cbn [snd]. rewrite (veqb_refl live Hwr). destruct (cfg_return_input_on_noop c); reflexivity.
      + rewrite Hget. exact Epr.
      + exact Eupd.
    - intros m. destruct (String.eqb_spec m mgr) as [->|Hm].
      + rewrite Hw2. unfold mfp. rewrite mf_get_set_same. cbn [mr_set rec0]. rewrite Hget, Hne0.
        cbn [mr_ver mr_applied mr_set].
        split; [exact Hrv|]. split; [exact Happl|].
        apply (ps_equals_ext (mr_set r) set0 Hrok Hset0ok). intros p Hp. symmetry. apply Hsame. exact Hp.
      + pose proof (Hoth2 m Hm) as Ho. unfold mfp in Ho.
        rewrite (mf_get_set_other m mgr rec0 mf Hm) in Ho. exact Ho.
  Qed.
End Back.

(* ================= the extract ================= *)

(* ExtractItems, with or without the key fields, is the extracting walker run with some set *)
Lemma extract_as_remove_items : forall s tr wk v S,
  exists T, extract s tr wk v S = remove_items s true tr T v.
Proof.
  intros s tr wk v S. unfold extract. eexists. reflexivity.
Qed.

Section ExtractCore.
  Variables (c : config) (R : typeref -> Prop) (ver : string).
  Let s := schema_of c ver.
  Let tr := tr_of c ver.

  (* the live object of a state with a record is valid and granular *)
  Lemma live_valid_granular : forall live mf mgr r, state_ok c ver live mf -> mf_get mgr mf = Some r ->
    conforms s tr true live = true /\ granular s tr live.
  Proof.
    intros live mf mgr r Hst Hget.
    pose proof (mf_ok_get mf mgr r (so_mf c ver live mf Hst) Hget) as Hrok.
    destruct (ps_nonempty_has (mr_set r) Hrok (so_nonempty c ver live mf Hst mgr r Hget)) as (p & Hp & Hne & Hh).
    pose proof (so_present c ver live mf Hst mgr r p Hget Hp Hh) as Hpr. fold s tr in Hpr.
    pose proof (present_granular s tr live p Hne Hpr) as Hg. split; [|exact Hg].
    destruct (so_conforms c ver live mf Hst) as [E|H]; [|exact H].
    exfalso. subst live. unfold granular, kind_of in Hg.
    destruct (resolve s tr) as [[sc li ma]|]; contradiction.
  Qed.

  (* Extracting a manager's record and applying the extract back: if the extract is a valid
     plain object whose field set is the record, nothing changes.  Both values of the option
     [cfg_return_input_on_noop]. *)
  Theorem extract_apply_back_core : forall live mf mgr r set0,
    setting_ok c R ver -> state_ok c ver live mf ->
    dup_free s tr live = true ->
    mf_get mgr mf = Some r -> mr_applied r = true ->
    let ext := extract s tr true live (ps_leaves (mr_set r)) in
    plain ext = true ->
    conforms s tr false ext = true ->
    to_field_set s tr ext = Some set0 -> ps_equals set0 (mr_set r) = true ->
    exists mf'',
      apply_op c (ver, live) (ver, ext) ver mf mgr false =
        UOk ((if cfg_return_input_on_noop c then Some (ver, live) else None), mf'') /\
      same_records mf mf''.
  Proof.
    intros live mf mgr r set0 Hset Hst Hdf Hget Happl ext Hpl Hcx Eset0 Heq.
    pose proof Hset as (Hni & Hcid & Hok & Hfam & Hpure & Htr & Hkp). fold s tr in Hok, Hfam, Hpure, Htr, Hkp.
    pose proof Hkp as [Hnd Hks].
    pose proof (so_wf c ver live mf Hst) as Hwl.
    destruct (live_valid_granular live mf mgr r Hst Hget) as [Hcl Hgl].
    destruct (extract_as_remove_items s tr true live (ps_leaves (mr_set r))) as (T & ET).
    fold ext in ET.
    assert (Hwx : wf_value ext = true) by (rewrite ET; apply remove_items_wf; exact Hwl).
    assert (Hgx : granular s tr ext) by (rewrite ET in *; apply xt_granular; assumption).
    assert (Hop : op_ok c ver (HApply mgr ext false)).
    { split; [exact Hwx|]. split; [exact Hcx|]. split; [exact Hpl|exact Hgx]. }
    assert (Em : merge s tr live ext = Some (Some live)).
    { rewrite ET in *. apply (merge_extract_fixed s R tr live T Hok Hfam Hnd Hks Htr Hwl Hcl Hdf Hpl Hcx). }
    apply (apply_back_general c R ver live mf mgr r ext set0 Hset Hst Hop Hget Happl Eset0 Heq Em).
  Qed.
End ExtractCore.
