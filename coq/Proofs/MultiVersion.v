(* The along-every-history theorems (C01, C03, C04, C05, C06, C07) for MULTI-VERSION histories
   under the identity converter, as corollaries of transparency (Proofs/Transparent.v).

   Setting (Proofs/Transparent.v): [setting_ok c R ver] (no ignore configuration, identity
   converter, schema side conditions for the schema of [ver]), [one_schema c ver] (every label
   carries the schema of [ver]), [order_perm c] (the visiting order of the versions is a
   permutation).  A multi-version history is a list [ops] of [vhop = (label, hop)] with
   [Forall (vop_ok c ver) ops]; its state is [vrun c ver ops = ((label, object), records)], the
   records keeping the labels they were written at.  Below
       live := snd (fst (vrun c ver ops))        the object
       mf   := snd (vrun c ver ops)              the records, with their labels
   and an operation "at label v" is [apply_op c (fst (vrun ..)) (v, cfg) v mf mgr force] resp.
   [update_op c (fst (vrun ..)) (v, obj) v mf mgr].  The operation at the end is asked [op_ok]
   only (for an Apply this IS [vop_ok]; an Update needs no more here).  [s], [tr]: schema and
   root type of [ver], which are those of every label [one_schema_of].

   DELIVERED (all Qed, closed under the global context), each for every history, every label v:
   C01  mv_apply_takes_effect          a successful apply at v returns an object that [agrees]
                                       with the configuration (stated with the schema of v)
   C06  mv_owned_paths_present         every owned path of every record ([mf_get]) designates a node
        mv_every_record_present        the same for every entry of the list [In (m, r) mf]
        mv_records_ok                  [mf_ok mf] (unique sorted names, well-formed sets), no empty record
        mv_reachable_objects_valid     the object is valid (history not empty, or null valid)
        mv_reachable_objects_nodup     ... and valid WITHOUT duplicates, and holds no empty list
        mv_no_other_failure            an admissible operation at any label succeeds, or is a
                                       non-forced apply refused with a non-empty conflict list
        mv_errors_are_conflicts        the error of a step is such a list, and the step leaves the state
   C04  mv_forced_apply_succeeds       a forced apply at v succeeds
        mv_apply_conflicts_exact       the non-forced apply returns EXACTLY what the forced one
                                       returns (same object, same records, labels included), or
                                       fails with the conflicts the single-version theorem
                                       prescribes: the pairs (other manager m, path p of a record of
                                       m in mf, whatever its label) that the reference diff
                                       live -> result reports as modified or added
   C03  mv_apply_removes_abandoned     the abandoned-fields theorem, verbatim on (live, mf)
   C07  mv_reapply_general             after a successful apply at v, the same apply again, not
        mv_reapply_is_a_fixed_point    forced, at ANY label v2: succeeds, answers "nothing to
                                       persist" (option off), every record keeps its set and
                                       flag; LABELS: every other record keeps its label, the
                                       applier's record now carries v2 (so for v2 = v nothing at
                                       all changes: [same_records])
        mv_reapply_history_fixed_point the same in terms of [vrun (ops ++ [apply; apply])]
   C05  mv_apply_records_exact         records exact after an apply at v: the applier owns the
                                       field set of its configuration, flagged, AT LABEL v; every
                                       other record keeps its flag AND ITS LABEL and loses exactly
                                       the touched paths
        mv_update_records_exact        the same for an update at v (the object comes back as (v, obj))
        mv_apply_labels, mv_update_labels   the label facts alone
   Non-vacuity: [mv_example] -- the six-operation, three-label history [tx_ops] of
   Proofs/Transparent.v; at its final state manager "c" applies at a FOURTH label "v4"; every
   hypothesis holds; conclusions (C01, C04, C05, C06, C07) by the theorems and by evaluation;
   [mv_example_update]: an update at the fourth label (C05, C06);
   [mv_example_reapply_moves_label]: re-applying at another label moves the applier's label.

   HOW.  [Transparent.multi_version_apply_outcome] / [multi_version_update_outcome] relate the
   operation at [vrun ops] with the operation at [run (map snd ops)]: same object, records
   equal after [relabel ver], same error.  [relabel] keeps managers, sets and flags, so what
   the single-version theorems say through [mf_get] / [mr_set] / [mr_applied] is read on the
   multi-version records (Proofs/MultiVersionBase.v).  What transparency does NOT give --
   it forgets labels -- is proved directly on the model: [apply_vers], [update_vers]
   (MultiVersionBase.v: the actor's record carries the label of the operation, [update_core]
   keeps the label of every other record), and [noforce_ok_forced].

   NOT DONE / LIMITS.
   - Nothing of the six items is missing.  Not transported: C02 (not asked).
   - The restriction of Proofs/Transparent.v is inherited: the UPDATES of the history submit
     objects without duplicate members and without empty lists ([vop_ok]); the final
     operation is free of it.
   - C07: the single-version statement has [dup_free live] as an (unused) hypothesis; it is
     dropped here.  With v2 <> v the second apply is NOT a fixed point on labels (the applier's
     record moves to v2): [mv_example_reapply_moves_label]. *)
From Coq Require Import List ZArith String Bool Arith Lia Permutation.
From SMD Require Import Model.Value Model.Order Model.PathElem Model.PathSet Model.Schema Model.Walk
  Model.Validate Model.FieldSet Model.Remove Model.Merge Model.Compare Model.Matcher Model.Reconcile
  Model.Updater
  Spec.PathsAsSets Spec.RefValid Spec.Resolve Spec.Agree Spec.RefDiff Spec.Examples
  Proofs.OrderLaws Proofs.PathSetLaws Proofs.SchemaOk Proofs.FieldSetBase Proofs.FieldSetPaths
  Proofs.FieldSetWf Proofs.FieldSetLaws Proofs.RemoveAbsent Proofs.RemoveWf Proofs.ResolveLaws
  Proofs.UpdaterLaws Proofs.UpdaterLaws2 Proofs.MergeLaws Proofs.MergeAgree
  Proofs.RemoveFrame Proofs.EnLaws Proofs.NodeSet Proofs.KeyFields Proofs.VeqbResolve
  Proofs.SetCheckers Proofs.ApplyEffect Proofs.Visible Proofs.ApplyInv Proofs.History
  Proofs.TransparentPrune Proofs.TransparentCore Proofs.TransparentStep Proofs.Transparent
  Proofs.Reapply Proofs.ConflictsApply Proofs.NoOtherFailure Proofs.RecordsHistory
  Proofs.MultiVersionBase.
From SMD Require Proofs.ApplyPrune.
Import ListNotations.
Open Scope bool_scope.
Open Scope list_scope.

Local Arguments ps_has : simpl never.
Local Arguments ps_empty : simpl never.

Section MultiVersion.
  Variables (c : config) (R : typeref -> Prop) (ver : string).
  Let s := schema_of c ver.
  Let tr := tr_of c ver.

  (* ================= C01 ================= *)

  (* whatever the multi-version history, a successful apply at any label returns an object
     that agrees with the configuration *)
  Theorem mv_apply_takes_effect : forall ops v mgr cfg force o mf',
    setting_ok c R ver -> one_schema c ver -> order_perm c -> Forall (vop_ok c ver) ops ->
    op_ok c ver (HApply mgr cfg force) ->
    apply_op c (fst (vrun c ver ops)) (v, cfg) v (snd (vrun c ver ops)) mgr force = UOk (o, mf') ->
    agrees (schema_of c v) (tr_of c v) cfg
           (match o with Some t => snd t | None => snd (fst (vrun c ver ops)) end) = true.
  Proof.
    intros ops v mgr cfg force o mf' Hset Hone Hperm Hall Hop Happly.
    destruct (one_schema_of c ver v Hone) as [-> ->].
    destruct (mv_state c R ver ops Hset Hone Hperm Hall) as (Hl & _ & _ & Hops).
    destruct (mv_apply_ok c R ver ops v mgr cfg force o mf' Hset Hone Hperm Hall Hop Happly) as (o1 & H1 & Ho).
    rewrite (answer_same o o1 _ (fst (run c ver (map snd ops))) Ho Hl).
    apply (apply_takes_effect_along_histories c R ver (map snd ops) mgr cfg force o1 _ Hset Hops Hop H1).
  Qed.

  (* ================= C06 ================= *)

  (* every path of every record designates a node of the object *)
  Theorem mv_owned_paths_present : forall ops m r p,
    setting_ok c R ver -> one_schema c ver -> order_perm c -> Forall (vop_ok c ver) ops ->
    mf_get m (snd (vrun c ver ops)) = Some r -> wf_path p = true -> ps_has p (mr_set r) = true ->
    present s tr (snd (fst (vrun c ver ops))) p = true.
  Proof.
    intros ops m r p Hset Hone Hperm Hall Hg Hp Hh.
    destruct (mv_state c R ver ops Hset Hone Hperm Hall) as (Hl & Hm & _ & Hops).
    rewrite Hl.
    apply (owned_paths_present_along_histories c R ver (map snd ops) m (relab_rec ver r) p Hset Hops); auto.
    rewrite <- Hm. apply relabel_get_some. exact Hg.
  Qed.

  (* the records: names sorted and unique, sets well formed, none empty *)
  Theorem mv_records_ok : forall ops,
    setting_ok c R ver -> one_schema c ver -> order_perm c -> Forall (vop_ok c ver) ops ->
    mf_ok (snd (vrun c ver ops)) /\
    forall m r, mf_get m (snd (vrun c ver ops)) = Some r -> ps_empty (mr_set r) = false.
  Proof.
    intros ops Hset Hone Hperm Hall.
    pose proof (mv_state_ok c R ver ops Hset Hone Hperm Hall) as Hst. split.
    - apply (relabel_mf_ok ver). apply (so_mf _ _ _ _ Hst).
    - intros m r Hg.
      apply (so_nonempty _ _ _ _ Hst m (relab_rec ver r)). apply relabel_get_some. exact Hg.
  Qed.

  (* the same for every entry of the list of records, not only those [mf_get] finds *)
  Theorem mv_every_record_present : forall ops m r p,
    setting_ok c R ver -> one_schema c ver -> order_perm c -> Forall (vop_ok c ver) ops ->
    In (m, r) (snd (vrun c ver ops)) -> wf_path p = true -> ps_has p (mr_set r) = true ->
    present s tr (snd (fst (vrun c ver ops))) p = true.
  Proof.
    intros ops m r p Hset Hone Hperm Hall Hin Hp Hh.
    destruct (mv_records_ok ops Hset Hone Hperm Hall) as [[Hs _] _].
    apply (mv_owned_paths_present ops m r p Hset Hone Hperm Hall); auto.
    apply (in_assoc_get _ m r Hs Hin).
  Qed.

  (* the object is valid *)
  Theorem mv_reachable_objects_valid : forall ops,
    setting_ok c R ver -> one_schema c ver -> order_perm c -> Forall (vop_ok c ver) ops ->
    (ops <> [] \/ conforms s tr true VNull = true) ->
    conforms s tr true (snd (fst (vrun c ver ops))) = true.
  Proof.
    intros ops Hset Hone Hperm Hall Hne.
    destruct (mv_state c R ver ops Hset Hone Hperm Hall) as (Hl & _ & _ & Hops).
    rewrite Hl. apply (reachable_objects_valid c R ver (map snd ops) Hset Hops).
    destruct Hne as [Hne|Hn]; [left|right; exact Hn].
    intros E. apply Hne. destruct ops; [reflexivity|discriminate E].
  Qed.

  (* ... without duplicate members, and it holds no empty list (this is an invariant of the
     histories of Proofs/Transparent.v, whose updates submit such objects) *)
  Theorem mv_reachable_objects_nodup : forall ops,
    setting_ok c R ver -> one_schema c ver -> order_perm c -> Forall (vop_ok c ver) ops ->
    (ops <> [] \/ conforms s tr true VNull = true) ->
    conforms s tr false (snd (fst (vrun c ver ops))) = true /\
    no_empty_list (snd (fst (vrun c ver ops))) = true.
  Proof.
    intros ops Hset Hone Hperm Hall Hne.
    pose proof (mv_reachable_objects_valid ops Hset Hone Hperm Hall Hne) as Hv.
    destruct (runs_from_start c R ver ops Hset Hone Hperm Hall) as ([Hl _] & _ & Hnel & Hnd).
    rewrite <- Hl in Hnel, Hnd. split; [|exact Hnel].
    apply (nodup_conforms c ver _ Hv). exact Hnd.
  Qed.

  (* what an operation at the end of a multi-version history may answer *)
  Definition vstep_outcome_ok (st : tv * managed) (o : vhop) : Prop :=
    let v := fst o in
    match snd o with
    | HApply mgr cfg force =>
        (exists ob mf', apply_op c (fst st) (v, cfg) v (snd st) mgr force = UOk (ob, mf')) \/
        (force = false /\ exists cs, cs <> [] /\
           apply_op c (fst st) (v, cfg) v (snd st) mgr force = UErr (EConflict cs))
    | HUpdate mgr obj =>
        exists ob mf', update_op c (fst st) (v, obj) v (snd st) mgr = UOk (ob, mf')
    end.

  (* no operation on valid inputs, at any label, fails for a reason other than a reported
     conflict: never EOther, never EPanic *)
  Theorem mv_no_other_failure : forall ops o,
    setting_ok c R ver -> one_schema c ver -> order_perm c -> Forall (vop_ok c ver) ops ->
    op_ok c ver (snd o) ->
    vstep_outcome_ok (vrun c ver ops) o.
  Proof.
    intros ops [v h] Hset Hone Hperm Hall Hop. cbn [snd] in Hop.
    destruct (mv_state c R ver ops Hset Hone Hperm Hall) as (_ & _ & _ & Hops).
    pose proof (no_other_failure_along_histories c R ver (map snd ops) h Hset Hops Hop) as H.
    destruct h as [mgr cfg force|mgr obj]; cbn [vstep_outcome_ok step_outcome_ok fst snd] in *.
    - destruct H as [(o1 & mf1 & H)|(Hf & cs & Hne & H)].
      + left. destruct (mv_apply_ok_rev c R ver ops v mgr cfg force o1 mf1 Hset Hone Hperm Hall Hop H)
          as (o & mf' & H' & _). exists o, mf'. exact H'.
      + right. split; [exact Hf|]. exists cs. split; [exact Hne|].
        apply (mv_apply_err c R ver ops v mgr cfg force _ Hset Hone Hperm Hall Hop). exact H.
    - destruct H as (t1 & mf1 & H).
      destruct (mv_update_ok_rev c R ver ops v mgr obj t1 mf1 Hset Hone Hperm Hall H) as (t & mf' & H' & _).
      exists t, mf'. exact H'.
  Qed.

  (* the error of an operation, if any *)
  Definition vstep_error (st : tv * managed) (o : vhop) : option uerr :=
    let v := fst o in
    match snd o with
    | HApply mgr cfg force =>
        match apply_op c (fst st) (v, cfg) v (snd st) mgr force with UOk _ => None | UErr e => Some e end
    | HUpdate mgr obj =>
        match update_op c (fst st) (v, obj) v (snd st) mgr with UOk _ => None | UErr e => Some e end
    end.

  Corollary mv_errors_are_conflicts : forall ops o e,
    setting_ok c R ver -> one_schema c ver -> order_perm c -> Forall (vop_ok c ver) ops ->
    op_ok c ver (snd o) ->
    vstep_error (vrun c ver ops) o = Some e ->
    (exists cs, e = EConflict cs /\ cs <> []) /\
    (exists mgr cfg, snd o = HApply mgr cfg false) /\
    vstep c (vrun c ver ops) o = vrun c ver ops.
  Proof.
    intros ops [v h] e Hset Hone Hperm Hall Hop He.
    pose proof (mv_no_other_failure ops (v, h) Hset Hone Hperm Hall Hop) as H.
    destruct h as [mgr cfg force|mgr obj]; cbn [vstep_outcome_ok vstep_error vstep fst snd] in *.
    - destruct H as [(ob & mf' & H)|(-> & cs & Hne & H)]; rewrite H in He; [discriminate He|].
      inversion He; subst e. split; [exists cs; auto|]. split; [exists mgr, cfg; reflexivity|].
      rewrite H. reflexivity.
    - destruct H as (ob & mf' & H). rewrite H in He. discriminate He.
  Qed.

  (* ================= C04 ================= *)

  Theorem mv_forced_apply_succeeds : forall ops v mgr cfg,
    setting_ok c R ver -> one_schema c ver -> order_perm c -> Forall (vop_ok c ver) ops ->
    op_ok c ver (HApply mgr cfg true) ->
    exists o mf',
      apply_op c (fst (vrun c ver ops)) (v, cfg) v (snd (vrun c ver ops)) mgr true = UOk (o, mf').
  Proof.
    intros ops v mgr cfg Hset Hone Hperm Hall Hop.
    destruct (mv_state c R ver ops Hset Hone Hperm Hall) as (_ & _ & _ & Hops).
    destruct (forced_apply_succeeds_along_histories c R ver (map snd ops) mgr cfg Hset Hops Hop) as (o1 & mf1 & H).
    destruct (mv_apply_ok_rev c R ver ops v mgr cfg true o1 mf1 Hset Hone Hperm Hall Hop H) as (o & mf' & H' & _).
    exists o, mf'. exact H'.
  Qed.

  (* the non-forced apply at label v returns exactly what the forced one returns, or fails
     with exactly the conflicts the single-version theorem prescribes, read on the
     multi-version records (a record counts whatever its label) *)
  Theorem mv_apply_conflicts_exact : forall ops v mgr cfg o mf',
    setting_ok c R ver -> one_schema c ver -> order_perm c -> Forall (vop_ok c ver) ops ->
    op_ok c ver (HApply mgr cfg true) ->
    let live := snd (fst (vrun c ver ops)) in
    let mf := snd (vrun c ver ops) in
    apply_op c (fst (vrun c ver ops)) (v, cfg) v mf mgr true = UOk (o, mf') ->
    let res := match o with Some t => snd t | None => live end in
    let d := ref_diff s tr live res in
    let hits (m : string) (p : path) : Prop :=
      m <> mgr /\ (exists r, mf_get m mf = Some r /\ ps_has p (mr_set r) = true) /\
      (pmem p (rd_modified d) = true \/ pmem p (rd_added d) = true) in
    (apply_op c (fst (vrun c ver ops)) (v, cfg) v mf mgr false = UOk (o, mf') /\
     forall m p, wf_path p = true -> p <> [] -> ~ hits m p)
    \/
    (exists cs, apply_op c (fst (vrun c ver ops)) (v, cfg) v mf mgr false = UErr (EConflict cs) /\
                cs <> [] /\
                forall m p, wf_path p = true -> p <> [] ->
                  (conflict_listed cs m p = true <-> hits m p)).
  Proof.
    intros ops v mgr cfg o mf' Hset Hone Hperm Hall Hop live mf Happly res d hits.
    destruct (mv_state c R ver ops Hset Hone Hperm Hall) as (Hl & Hm & _ & Hops).
    destruct (mv_apply_ok c R ver ops v mgr cfg true o mf' Hset Hone Hperm Hall Hop Happly) as (o1 & H1 & Ho).
    pose proof (apply_conflicts_exact_along_histories c R ver (map snd ops) mgr cfg o1 (relabel ver mf')
                  Hset Hops Hop H1) as T.
    cbv zeta in T. fold s tr in T.
    rewrite <- (answer_same o o1 live _ Ho Hl) in T. fold res in T. rewrite <- Hl in T. fold live in T.
    fold d in T. rewrite <- Hm in T. fold mf in T.
    (* the prescribed pairs, on the relabelled and on the labelled records *)
    assert (Hhits : forall m p,
              (m <> mgr /\ (exists r, mf_get m (relabel ver mf) = Some r /\ ps_has p (mr_set r) = true) /\
               (pmem p (rd_modified d) = true \/ pmem p (rd_added d) = true)) <-> hits m p).
    { intros m p. unfold hits. rewrite (relabel_has ver m mf p). tauto. }
    assert (Hop0 : op_ok c ver (HApply mgr cfg false)) by exact Hop.
    destruct T as [[Hsame Hno]|(cs & Hcs & Hne & Hlist)].
    - left.
      destruct (mv_apply_ok_rev c R ver ops v mgr cfg false o1 (relabel ver mf') Hset Hone Hperm Hall Hop0)
        as (o' & mf'' & H' & _).
      { rewrite <- Hl, <- Hm. exact Hsame. }
      fold mf in H'. pose proof (noforce_ok_forced c _ _ _ _ _ _ H') as Hf.
      rewrite Happly in Hf. inversion Hf; subst o' mf''. split; [exact H'|].
      intros m p Hp Hpne Hh. apply (Hno m p Hp Hpne). apply (Hhits m p). exact Hh.
    - right. exists cs. split.
      + apply (mv_apply_err c R ver ops v mgr cfg false _ Hset Hone Hperm Hall Hop0).
        rewrite <- Hl, <- Hm. exact Hcs.
      + split; [exact Hne|]. intros m p Hp Hpne. rewrite (Hlist m p Hp Hpne). apply Hhits.
  Qed.

  (* ================= C03 ================= *)

  (* a path of the applier's previous record that the new configuration no longer mentions and
     that no other manager owns (at whatever label) is absent from the result -- with the
     proviso of the single-version theorem *)
  Theorem mv_apply_removes_abandoned : forall ops v mgr cfg force o mf' last fscfg p,
    setting_ok c R ver -> one_schema c ver -> order_perm c -> Forall (vop_ok c ver) ops ->
    op_ok c ver (HApply mgr cfg force) ->
    let live := snd (fst (vrun c ver ops)) in
    let mf := snd (vrun c ver ops) in
    apply_op c (fst (vrun c ver ops)) (v, cfg) v mf mgr force = UOk (o, mf') ->
    mf_get mgr mf = Some last ->
    to_field_set s tr cfg = Some fscfg ->
    wf_path p = true -> p <> [] ->
    ps_has p (mr_set last) = true ->
    (forall q, In q (map fst (nodes s tr cfg)) -> is_prefix p q = false) ->
    ps_has p (ps_en s tr (ApplyPrune.others_union mgr mf)) = false ->
    (present s tr live p = true ->
     exists r tr' x, wf_path r = true /\
       resolve_path s tr live (p ++ r) = Some (RNode tr' x) /\
       leafy s tr' x /\ x <> VList []) ->
    present s tr (match o with Some t => snd t | None => live end) p = false.
  Proof.
    intros ops v mgr cfg force o mf' last fscfg p Hset Hone Hperm Hall Hop live mf
           Happly Hlast Hfs Hp Hne Hpl Hnone Hnoto Hvis.
    destruct (mv_state c R ver ops Hset Hone Hperm Hall) as (Hl & Hm & _ & Hops).
    destruct (mv_apply_ok c R ver ops v mgr cfg force o mf' Hset Hone Hperm Hall Hop Happly) as (o1 & H1 & Ho).
    rewrite (answer_same o o1 live (fst (run c ver (map snd ops))) Ho Hl).
    apply (apply_removes_abandoned_along_histories c R ver (map snd ops) mgr cfg force o1 (relabel ver mf')
             (relab_rec ver last) fscfg p Hset Hops Hop H1); auto.
    - rewrite <- Hm. apply relabel_get_some. exact Hlast.
    - rewrite <- Hm. fold mf. rewrite relabel_others_union. exact Hnoto.
    - rewrite <- Hl. exact Hvis.
  Qed.

  (* ================= labels ================= *)

  (* the side conditions of MultiVersionBase.apply_vers / update_vers at a reachable state *)
  Lemma mv_labels_side : forall ops,
    setting_ok c R ver -> one_schema c ver -> order_perm c -> Forall (vop_ok c ver) ops ->
    conv_id c /\ (forall v, cfg_schema c v = (s, tr)) /\ no_ignore c /\
    sorted_keys (snd (vrun c ver ops)) = true /\
    (forall mr s', In mr (snd (vrun c ver ops)) ->
       reconcile_field_set s tr (mr_set (snd mr)) <> Some (Some s')).
  Proof.
    intros ops Hset Hone Hperm Hall.
    pose proof (mv_state_ok c R ver ops Hset Hone Hperm Hall) as Hst.
    destruct (mv_records_ok ops Hset Hone Hperm Hall) as [[Hs _] _].
    pose proof Hset as (Hni & Hcid & _).
    split; [exact Hcid|]. split; [exact (Hsch c ver Hone)|]. split; [exact Hni|]. split; [exact Hs|].
    exact (relab_state_current c ver _ _ Hst).
  Qed.

  (* what a successful Apply at label v does to the labels: the applier's record carries v,
     every other record keeps the label it had (whatever it was) *)
  Theorem mv_apply_labels : forall ops v mgr cfg force o mf',
    setting_ok c R ver -> one_schema c ver -> order_perm c -> Forall (vop_ok c ver) ops ->
    apply_op c (fst (vrun c ver ops)) (v, cfg) v (snd (vrun c ver ops)) mgr force = UOk (o, mf') ->
    (forall r', mf_get mgr mf' = Some r' -> mr_ver r' = v) /\
    (forall m r', m <> mgr -> mf_get m mf' = Some r' ->
       exists r, mf_get m (snd (vrun c ver ops)) = Some r /\ mr_ver r' = mr_ver r).
  Proof.
    intros ops v mgr cfg force o mf' Hset Hone Hperm Hall Happly.
    destruct (mv_labels_side ops Hset Hone Hperm Hall) as (Hcid & Hs1 & Hni & Hs & Hcur).
    apply (apply_vers c s tr Hcid Hs1 Hni _ cfg v _ mgr force o mf' Hs Hcur Happly).
  Qed.

  (* the same for an Update at label v; the object comes back with the label v *)
  Theorem mv_update_labels : forall ops v mgr obj t mf',
    setting_ok c R ver -> one_schema c ver -> order_perm c -> Forall (vop_ok c ver) ops ->
    update_op c (fst (vrun c ver ops)) (v, obj) v (snd (vrun c ver ops)) mgr = UOk (t, mf') ->
    t = (v, obj) /\
    (forall r', mf_get mgr mf' = Some r' -> mr_ver r' = v) /\
    (forall m r', m <> mgr -> mf_get m mf' = Some r' ->
       exists r, mf_get m (snd (vrun c ver ops)) = Some r /\ mr_ver r' = mr_ver r).
  Proof.
    intros ops v mgr obj t mf' Hset Hone Hperm Hall Hupd.
    destruct (mv_labels_side ops Hset Hone Hperm Hall) as (Hcid & Hs1 & Hni & Hs & Hcur).
    apply (update_vers c s tr Hcid Hs1 Hni _ obj v _ mgr t mf' Hs Hcur Hupd).
  Qed.

  (* ================= C07 ================= *)

  (* the state after a successful apply is the state of the history with that apply appended *)
  Lemma vrun_apply_app : forall ops v mgr cfg force o mf',
    apply_op c (fst (vrun c ver ops)) (v, cfg) v (snd (vrun c ver ops)) mgr force = UOk (o, mf') ->
    vrun c ver (ops ++ [(v, HApply mgr cfg force)]) =
      (match o with Some t => t | None => fst (vrun c ver ops) end, mf').
  Proof.
    intros ops v mgr cfg force o mf' H. rewrite vrun_app. unfold vstep. cbn [fst snd].
    rewrite H. destruct o; reflexivity.
  Qed.

  Lemma run_apply_app : forall ops1 mgr cfg force o1 mf1,
    apply_op c (ver, fst (run c ver ops1)) (ver, cfg) ver (snd (run c ver ops1)) mgr force = UOk (o1, mf1) ->
    run c ver (ops1 ++ [HApply mgr cfg force]) =
      (match o1 with Some t => snd t | None => fst (run c ver ops1) end, mf1).
  Proof.
    intros ops1 mgr cfg force o1 mf1 H. rewrite run_app. unfold hstep. rewrite H. destruct o1; reflexivity.
  Qed.

  Lemma vops_app_apply : forall ops v mgr cfg force,
    Forall (vop_ok c ver) ops -> op_ok c ver (HApply mgr cfg force) ->
    Forall (vop_ok c ver) (ops ++ [(v, HApply mgr cfg force)]).
  Proof.
    intros ops v mgr cfg force Hall Hop. apply Forall_app. split; [exact Hall|].
    constructor; [split; [exact Hop|exact I]|constructor].
  Qed.

  (* General form (both values of the option returnInputOnNoop): after a successful apply at
     label v, the same manager applying the same configuration again, not forced, at ANY label
     v2: the apply succeeds, answers "nothing to persist" (resp. the object it was given), and
     every record keeps its set and its flag; every other record keeps its label; the applier's
     record carries v2 *)
  Theorem mv_reapply_general : forall ops v v2 mgr cfg force o mf',
    setting_ok c R ver -> one_schema c ver -> order_perm c -> Forall (vop_ok c ver) ops ->
    op_ok c ver (HApply mgr cfg force) ->
    apply_op c (fst (vrun c ver ops)) (v, cfg) v (snd (vrun c ver ops)) mgr force = UOk (o, mf') ->
    let st' := match o with Some t => t | None => fst (vrun c ver ops) end in
    exists o2 mf'',
      apply_op c st' (v2, cfg) v2 mf' mgr false = UOk (o2, mf'') /\
      option_map snd o2 = (if cfg_return_input_on_noop c then Some (snd st') else None) /\
      same_records_upto_labels mf' mf'' /\
      (forall r'', mf_get mgr mf'' = Some r'' -> mr_ver r'' = v2) /\
      (forall m r'', m <> mgr -> mf_get m mf'' = Some r'' ->
         exists r', mf_get m mf' = Some r' /\ mr_ver r'' = mr_ver r').
  Proof.
    intros ops v v2 mgr cfg force o mf' Hset Hone Hperm Hall Hop Happly st'.
    set (ops' := ops ++ [(v, HApply mgr cfg force)]).
    pose proof (vops_app_apply ops v mgr cfg force Hall Hop) as Hall'. fold ops' in Hall'.
    pose proof (vrun_apply_app ops v mgr cfg force o mf' Happly) as Ev. fold ops' st' in Ev.
    destruct (mv_state c R ver ops Hset Hone Hperm Hall) as (Hl & Hm & Hst & Hops).
    destruct (mv_apply_ok c R ver ops v mgr cfg force o mf' Hset Hone Hperm Hall Hop Happly) as (o1 & H1 & Ho).
    set (res1 := match o1 with Some t => snd t | None => fst (run c ver (map snd ops)) end).
    assert (Er : run c ver (map snd ops') = (res1, relabel ver mf')).
    { unfold ops'. rewrite map_app.
      exact (run_apply_app (map snd ops) mgr cfg force o1 _ H1). }
    assert (Eres : snd st' = res1).
    { unfold st', res1. rewrite <- (answer_same o o1 _ _ Ho Hl). destruct o; reflexivity. }
    destruct (reapply_general c R ver _ _ mgr cfg force o1 (relabel ver mf') Hset Hst Hop H1)
      as (mf1 & H2 & Hsame).
    fold res1 in H2.
    assert (Hop0 : op_ok c ver (HApply mgr cfg false)) by exact Hop.
    destruct (mv_apply_ok_rev c R ver ops' v2 mgr cfg false
                (if cfg_return_input_on_noop c then Some (ver, res1) else None) mf1
                Hset Hone Hperm Hall' Hop0)
      as (o2 & mf'' & H' & Ho2 & Hmf'').
    { rewrite Er. cbn [fst snd]. exact H2. }
    rewrite Ev in H'. cbn [fst snd] in H'.
    exists o2, mf''. split; [exact H'|]. split.
    { rewrite Ho2, Eres. destruct (cfg_return_input_on_noop c); reflexivity. }
    split.
    { apply (relabel_same_records ver). rewrite Hmf''. exact Hsame. }
    pose proof (mv_apply_labels ops' v2 mgr cfg false o2 mf'' Hset Hone Hperm Hall') as Hlab.
    rewrite Ev in Hlab. cbn [fst snd] in Hlab. exact (Hlab H').
  Qed.

  (* the statement of the single-version theorem (option off: the answer is "nothing to
     persist"), with what happens to labels; for v2 = v nothing at all changes *)
  Theorem mv_reapply_is_a_fixed_point : forall ops v v2 mgr cfg force o mf',
    setting_ok c R ver -> one_schema c ver -> order_perm c -> Forall (vop_ok c ver) ops ->
    op_ok c ver (HApply mgr cfg force) ->
    cfg_return_input_on_noop c = false ->
    apply_op c (fst (vrun c ver ops)) (v, cfg) v (snd (vrun c ver ops)) mgr force = UOk (o, mf') ->
    let st' := match o with Some t => t | None => fst (vrun c ver ops) end in
    exists mf'',
      apply_op c st' (v2, cfg) v2 mf' mgr false = UOk (None, mf'') /\
      same_records_upto_labels mf' mf'' /\
      (forall r'', mf_get mgr mf'' = Some r'' -> mr_ver r'' = v2) /\
      (forall m r'', m <> mgr -> mf_get m mf'' = Some r'' ->
         exists r', mf_get m mf' = Some r' /\ mr_ver r'' = mr_ver r') /\
      (v2 = v -> same_records mf' mf'').
  Proof.
    intros ops v v2 mgr cfg force o mf' Hset Hone Hperm Hall Hop Hflag Happly st'.
    destruct (mv_reapply_general ops v v2 mgr cfg force o mf' Hset Hone Hperm Hall Hop Happly)
      as (o2 & mf'' & H2 & Ho2 & Hsame & Hmine & Hoth).
    fold st' in H2, Ho2. rewrite Hflag in Ho2.
    destruct o2 as [t2|]; [discriminate Ho2|].
    exists mf''. split; [exact H2|]. split; [exact Hsame|]. split; [exact Hmine|]. split; [exact Hoth|].
    intros ->. destruct (mv_apply_labels ops v mgr cfg force o mf' Hset Hone Hperm Hall Happly) as [Hmine1 _].
    intros m. specialize (Hsame m).
    destruct (mf_get m mf') as [r'|] eqn:E1; destruct (mf_get m mf'') as [r''|] eqn:E2; try exact Hsame.
    destruct Hsame as [Ha Hs]. split; [|split; [exact Ha|exact Hs]].
    destruct (String.eqb_spec m mgr) as [->|Hm].
    - rewrite (Hmine1 r' E1), (Hmine r'' E2). reflexivity.
    - destruct (Hoth m r'' Hm E2) as (r0 & E0 & Hv). rewrite E1 in E0. inversion E0; subst r0.
      symmetry. exact Hv.
  Qed.

  (* in terms of histories: appending the same apply (not forced, at any label) to a history
     whose last operation is a successful apply changes neither the object nor, up to the
     label of the applier's record, the records -- whatever the option *)
  Theorem mv_reapply_history_fixed_point : forall ops v v2 mgr cfg force o mf',
    setting_ok c R ver -> one_schema c ver -> order_perm c -> Forall (vop_ok c ver) ops ->
    op_ok c ver (HApply mgr cfg force) ->
    apply_op c (fst (vrun c ver ops)) (v, cfg) v (snd (vrun c ver ops)) mgr force = UOk (o, mf') ->
    snd (fst (vrun c ver (ops ++ [(v, HApply mgr cfg force); (v2, HApply mgr cfg false)])))
      = snd (fst (vrun c ver (ops ++ [(v, HApply mgr cfg force)]))) /\
    same_records_upto_labels
      (snd (vrun c ver (ops ++ [(v, HApply mgr cfg force)])))
      (snd (vrun c ver (ops ++ [(v, HApply mgr cfg force); (v2, HApply mgr cfg false)]))).
  Proof.
    intros ops v v2 mgr cfg force o mf' Hset Hone Hperm Hall Hop Happly.
    destruct (mv_reapply_general ops v v2 mgr cfg force o mf' Hset Hone Hperm Hall Hop Happly)
      as (o2 & mf'' & H2 & Ho2 & Hsame & _).
    pose proof (vrun_apply_app ops v mgr cfg force o mf' Happly) as Ev.
    set (st' := match o with Some t => t | None => fst (vrun c ver ops) end) in *.
    change (ops ++ [(v, HApply mgr cfg force); (v2, HApply mgr cfg false)])
      with (ops ++ ([(v, HApply mgr cfg force)] ++ [(v2, HApply mgr cfg false)])).
    rewrite app_assoc, (vrun_app c ver (ops ++ [(v, HApply mgr cfg force)])), Ev.
    unfold vstep. cbn [fst snd]. rewrite H2.
    destruct o2 as [t2|]; cbn [fst snd].
    - split; [|exact Hsame]. cbn [option_map] in Ho2.
      destruct (cfg_return_input_on_noop c); [|discriminate Ho2]. inversion Ho2. reflexivity.
    - split; [reflexivity|exact Hsame].
  Qed.

  (* ================= C05 ================= *)

  (* Apply at label v: the applier owns exactly the field set of its configuration, flagged as
     applied, AT THE LABEL v IT APPLIED AT; every other manager keeps its flag AND ITS LABEL
     and loses exactly what the apply changed, created or removed *)
  Theorem mv_apply_records_exact : forall ops v mgr cfg force o mf' fs,
    setting_ok c R ver -> one_schema c ver -> order_perm c -> Forall (vop_ok c ver) ops ->
    op_ok c ver (HApply mgr cfg force) ->
    let live := snd (fst (vrun c ver ops)) in
    let mf := snd (vrun c ver ops) in
    apply_op c (fst (vrun c ver ops)) (v, cfg) v mf mgr force = UOk (o, mf') ->
    to_field_set s tr cfg = Some fs ->
    let res := match o with Some t => snd t | None => live end in
    let d := ref_diff s tr live res in
    let touched (p : path) := pmem p (rd_removed d) || pmem p (rd_modified d) || pmem p (rd_added d) in
    (match mf_get mgr mf' with
     | Some r' => mr_applied r' = true /\ mr_ver r' = v /\
                  forall p, wf_path p = true -> p <> [] -> ps_has p (mr_set r') = ps_has p fs
     | None => ps_empty fs = true
     end) /\
    (forall m, m <> mgr ->
       forall p, wf_path p = true -> p <> [] ->
       match mf_get m mf with
       | Some r =>
           match mf_get m mf' with
           | Some r' => mr_applied r' = mr_applied r /\ mr_ver r' = mr_ver r /\
                        ps_has p (mr_set r') = (ps_has p (mr_set r) && negb (touched p))
           | None => (ps_has p (mr_set r) && negb (touched p)) = false
           end
       | None => mf_get m mf' = None
       end).
  Proof.
    intros ops v mgr cfg force o mf' fs Hset Hone Hperm Hall Hop. cbv zeta. intros Happly Hfs.
    destruct (mv_state c R ver ops Hset Hone Hperm Hall) as (Hl & Hm & _ & Hops).
    destruct (mv_apply_ok c R ver ops v mgr cfg force o mf' Hset Hone Hperm Hall Hop Happly) as (o1 & H1 & Ho).
    destruct (mv_apply_labels ops v mgr cfg force o mf' Hset Hone Hperm Hall Happly) as [Hmine Hoth].
    pose proof (apply_records_exact_along_histories c R ver (map snd ops) mgr cfg force o1 (relabel ver mf') fs
                  Hset Hops Hop H1 Hfs) as T.
    cbv zeta in T. fold s tr in T.
    rewrite <- (answer_same o o1 (snd (fst (vrun c ver ops))) _ Ho Hl) in T. rewrite <- Hl, <- Hm in T.
    destruct T as [Tm To]. split.
    - rewrite relabel_get in Tm. destruct (mf_get mgr mf') as [r'|] eqn:Eg; cbn [option_map] in Tm; [|exact Tm].
      cbn [relab_rec mr_applied mr_set mr_ver] in Tm. destruct Tm as (Ha & _ & Hs).
      split; [exact Ha|]. split; [exact (Hmine r' eq_refl)|exact Hs].
    - intros m Hmm p Hp Hne. specialize (To m Hmm p Hp Hne). rewrite !relabel_get in To.
      destruct (mf_get m (snd (vrun c ver ops))) as [r|] eqn:Er;
        destruct (mf_get m mf') as [r'|] eqn:Er'; cbn [option_map] in To.
      + cbn [relab_rec mr_applied mr_set mr_ver] in To. destruct To as (Ha & _ & Hs).
        split; [exact Ha|]. split; [|exact Hs].
        destruct (Hoth m r' Hmm Er') as (r0 & E0 & Hv). rewrite Er in E0. inversion E0; subst r0. exact Hv.
      + exact To.
      + discriminate To.
      + reflexivity.
  Qed.

  (* Update at label v: the submitted object comes back, with the label v; the updater owns
     what it owned minus what was removed plus what was changed or created, not flagged, AT
     THE LABEL v; every other manager loses exactly the touched fields and keeps its flag AND
     ITS LABEL; no record is empty *)
  Theorem mv_update_records_exact : forall ops v mgr obj t mf',
    setting_ok c R ver -> one_schema c ver -> order_perm c -> Forall (vop_ok c ver) ops ->
    op_ok c ver (HUpdate mgr obj) ->
    let live := snd (fst (vrun c ver ops)) in
    let mf := snd (vrun c ver ops) in
    update_op c (fst (vrun c ver ops)) (v, obj) v mf mgr = UOk (t, mf') ->
    let d := ref_diff s tr live obj in
    let touched (p : path) := pmem p (rd_removed d) || pmem p (rd_modified d) || pmem p (rd_added d) in
    t = (v, obj) /\
    (forall p, wf_path p = true -> p <> [] ->
       let before := match mf_get mgr mf with Some r => ps_has p (mr_set r) | None => false end in
       let after := (before && negb (pmem p (rd_removed d))) || pmem p (rd_modified d) || pmem p (rd_added d) in
       match mf_get mgr mf' with
       | Some r' => mr_applied r' = false /\ mr_ver r' = v /\ ps_has p (mr_set r') = after
       | None => after = false
       end) /\
    (forall m, m <> mgr ->
       forall p, wf_path p = true -> p <> [] ->
       match mf_get m mf with
       | Some r =>
           match mf_get m mf' with
           | Some r' => mr_applied r' = mr_applied r /\ mr_ver r' = mr_ver r /\
                        ps_has p (mr_set r') = (ps_has p (mr_set r) && negb (touched p))
           | None => (ps_has p (mr_set r) && negb (touched p)) = false
           end
       | None => mf_get m mf' = None
       end) /\
    (forall m r', mf_get m mf' = Some r' -> ps_empty (mr_set r') = false).
  Proof.
    intros ops v mgr obj t mf' Hset Hone Hperm Hall Hop. cbv zeta. intros Hupd.
    destruct (mv_state c R ver ops Hset Hone Hperm Hall) as (Hl & Hm & _ & Hops).
    destruct (mv_update_ok c R ver ops v mgr obj t mf' Hset Hone Hperm Hall Hupd) as (t1 & H1 & Ht).
    destruct (mv_update_labels ops v mgr obj t mf' Hset Hone Hperm Hall Hupd) as (Et & Hmine & Hoth).
    pose proof (update_records_exact_along_histories c R ver (map snd ops) mgr obj t1 (relabel ver mf')
                  Hset Hops Hop H1) as T.
    cbv zeta in T. fold s tr in T. rewrite <- Hl, <- Hm in T.
    destruct T as (_ & Tm & To & Tne). split; [exact Et|]. split; [|split].
    - intros p Hp Hne. specialize (Tm p Hp Hne). rewrite !relabel_get in Tm.
      assert (Eb : match option_map (relab_rec ver) (mf_get mgr (snd (vrun c ver ops))) with
                   | Some r => ps_has p (mr_set r) | None => false end =
                   match mf_get mgr (snd (vrun c ver ops)) with
                   | Some r => ps_has p (mr_set r) | None => false end).
      { destruct (mf_get mgr (snd (vrun c ver ops))); reflexivity. }
      rewrite Eb in Tm. clear Eb.
      destruct (mf_get mgr mf') as [r'|] eqn:Eg; cbn [option_map] in Tm; [|exact Tm].
      cbn [relab_rec mr_applied mr_set mr_ver] in Tm. destruct Tm as (Ha & _ & Hs).
      split; [exact Ha|]. split; [exact (Hmine r' eq_refl)|exact Hs].
    - intros m Hmm p Hp Hne. specialize (To m Hmm p Hp Hne). rewrite !relabel_get in To.
      destruct (mf_get m (snd (vrun c ver ops))) as [r|] eqn:Er;
        destruct (mf_get m mf') as [r'|] eqn:Er'; cbn [option_map] in To.
      + cbn [relab_rec mr_applied mr_set mr_ver] in To. destruct To as (Ha & _ & Hs).
        split; [exact Ha|]. split; [|exact Hs].
        destruct (Hoth m r' Hmm Er') as (r0 & E0 & Hv). rewrite Er in E0. inversion E0; subst r0. exact Hv.
      + exact To.
      + discriminate To.
      + reflexivity.
    - intros m r' Hg. apply (Tne m (relab_rec ver r')). apply relabel_get_some. exact Hg.
  Qed.
End MultiVersion.

(* ================= non-vacuity ================= *)

(* The history [tx_ops] of Proofs/Transparent.v: six operations by managers a, b, c at the three
   labels v1, v2, v3 (versions visited in reverse order).  Its final state: the object
   { aa: 2, items: [y(6)], mm: { k: 2 } }, records  a: mm.k at v1 (applied),
   b: aa, items[y], y.name, y.vv at v2 (update).
   At that state manager "c" applies AT A FOURTH LABEL "v4" the configuration
   { aa: 3, items: [ {name: y} ] }: it changes aa (owned by b at v2) and claims the member y
   (owned by b, unchanged).  Every hypothesis of the theorems holds.  Not forced the apply is
   refused with exactly one conflict pair (b, .aa); forced it succeeds.  The conclusions are
   obtained BY THE THEOREMS, and the outcome is confirmed by evaluation. *)
Section Example.
  Open Scope string_scope.
  Let F := PEField.
  Let K (n : string) := PEKey [("name", VStr n)].
  Let item (n : string) (v : Z) := VMap [("name", VStr n); ("vv", VInt v)].
  Let itemn (n : string) := VMap [("name", VStr n)].

  Definition mx_cfg : value := VMap [("aa", VInt 3); ("items", VList [itemn "y"])].
  Definition mx_res : value :=
    VMap [("aa", VInt 3); ("items", VList [item "y" 6]); ("mm", VMap [("k", VInt 2)])].
  Definition mx_set_b : pset :=
    ps_of_paths [[F "items"; K "y"]; [F "items"; K "y"; F "name"]; [F "items"; K "y"; F "vv"]].
  Definition mx_set_c : pset := ps_of_paths [[F "aa"]; [F "items"; K "y"]; [F "items"; K "y"; F "name"]].
  Definition mx_mf : managed :=
    [("a", mkRec tx_set_a "v1" true); ("b", mkRec mx_set_b "v2" false); ("c", mkRec mx_set_c "v4" true)].

  Lemma mx_op_ok : forall force, op_ok exr_config "v1" (HApply "c" mx_cfg force).
  Proof. intros force. repeat split; try (vm_compute; reflexivity); vm_compute; exact I. Qed.

  (* by evaluation *)
  Lemma mx_noforce :
    apply_op exr_config ("v1", tx_obj) ("v4", mx_cfg) "v4"
             [("a", mkRec tx_set_a "v1" true); ("b", mkRec tx_set_b "v2" false)] "c" false
    = UErr (EConflict [("b", [F "aa"])]).
  Proof. vm_compute. reflexivity. Qed.

  Lemma mx_forced :
    apply_op exr_config ("v1", tx_obj) ("v4", mx_cfg) "v4"
             [("a", mkRec tx_set_a "v1" true); ("b", mkRec tx_set_b "v2" false)] "c" true
    = UOk (Some ("v1", mx_res), mx_mf).
  Proof. vm_compute. reflexivity. Qed.

  Lemma mx_fs : to_field_set (schema_of exr_config "v1") (tr_of exr_config "v1") mx_cfg = Some mx_set_c.
  Proof. vm_compute. reflexivity. Qed.

  Example mv_example :
    (* the hypotheses *)
    setting_ok exr_config FieldSetLaws.ex_R "v1" /\ one_schema exr_config "v1" /\ order_perm exr_config /\
    Forall (vop_ok exr_config "v1") tx_ops /\
    map fst tx_ops = ["v1"; "v2"; "v3"; "v3"; "v2"; "v1"] /\
    (forall force, op_ok exr_config "v1" (HApply "c" mx_cfg force)) /\
    vrun exr_config "v1" tx_ops =
      (("v1", tx_obj), [("a", mkRec tx_set_a "v1" true); ("b", mkRec tx_set_b "v2" false)]) /\
    (* C06, by the theorem: the operation at the fourth label succeeds or is refused with conflicts *)
    vstep_outcome_ok exr_config (vrun exr_config "v1" tx_ops) ("v4", HApply "c" mx_cfg false) /\
    vstep_outcome_ok exr_config (vrun exr_config "v1" tx_ops) ("v4", HApply "c" mx_cfg true) /\
    (* C06, by the theorem: the path y.vv of the record of b (label v2) designates a node *)
    present ex_schema ex_rt tx_obj [F "items"; K "y"; F "vv"] = true /\
    (* C04, by the theorem: the forced apply succeeds *)
    (exists o mf', apply_op exr_config ("v1", tx_obj) ("v4", mx_cfg) "v4"
                     [("a", mkRec tx_set_a "v1" true); ("b", mkRec tx_set_b "v2" false)] "c" true = UOk (o, mf')) /\
    (* by the theorems, for whatever the forced apply returns *)
    (forall o mf',
       apply_op exr_config ("v1", tx_obj) ("v4", mx_cfg) "v4"
                [("a", mkRec tx_set_a "v1" true); ("b", mkRec tx_set_b "v2" false)] "c" true = UOk (o, mf') ->
       let res := match o with Some t => snd t | None => tx_obj end in
       let d := ref_diff ex_schema ex_rt tx_obj res in
       (* C01 *)
       agrees ex_schema ex_rt mx_cfg res = true /\
       (* C04: the one pair the non-forced apply lists is a path of the record b holds AT v2
          that the forced apply modifies; the member y, which c claims unchanged, is not hit *)
       ((exists r, mf_get "b" [("a", mkRec tx_set_a "v1" true); ("b", mkRec tx_set_b "v2" false)] = Some r /\
                   ps_has [F "aa"] (mr_set r) = true) /\
        (pmem [F "aa"] (rd_modified d) = true \/ pmem [F "aa"] (rd_added d) = true)) /\
       ~ (pmem [F "items"; K "y"] (rd_modified d) = true \/ pmem [F "items"; K "y"] (rd_added d) = true) /\
       (* C05: c's record carries the FOURTH label and the field set of the configuration; b keeps
          its label v2 and its flag and loses aa; a keeps its label v1 *)
       (exists rc, mf_get "c" mf' = Some rc /\ mr_ver rc = "v4" /\ mr_applied rc = true /\
                   ps_has [F "aa"] (mr_set rc) = true /\ ps_has [F "items"; K "y"; F "vv"] (mr_set rc) = false) /\
       (forall rb, mf_get "b" mf' = Some rb -> mr_ver rb = "v2" /\ mr_applied rb = false) /\
       (forall ra, mf_get "a" mf' = Some ra -> mr_ver ra = "v1" /\ mr_applied ra = true) /\
       (* C07: c applies the same configuration again at v4, not forced: nothing changes *)
       (exists o2 mf'',
          apply_op exr_config (match o with Some t => t | None => ("v1", tx_obj) end) ("v4", mx_cfg) "v4" mf' "c" false
            = UOk (o2, mf'') /\ o2 = None /\ same_records mf' mf'')) /\
    (* by evaluation *)
    apply_op exr_config ("v1", tx_obj) ("v4", mx_cfg) "v4"
             [("a", mkRec tx_set_a "v1" true); ("b", mkRec tx_set_b "v2" false)] "c" false
      = UErr (EConflict [("b", [F "aa"])]) /\
    apply_op exr_config ("v1", tx_obj) ("v4", mx_cfg) "v4"
             [("a", mkRec tx_set_a "v1" true); ("b", mkRec tx_set_b "v2" false)] "c" true
      = UOk (Some ("v1", mx_res), mx_mf).
  Proof.
    pose proof exr_setting_ok as Hset. pose proof exr_one_schema as Hone.
    pose proof exr_order_perm as Hperm. pose proof tx_ops_ok as Hall.
    split; [exact Hset|]. split; [exact Hone|]. split; [exact Hperm|]. split; [exact Hall|].
    split; [reflexivity|]. split; [exact mx_op_ok|]. split; [exact tx_vrun|].
    split.
    { apply (mv_no_other_failure exr_config FieldSetLaws.ex_R "v1" tx_ops _ Hset Hone Hperm Hall).
      exact (mx_op_ok false). }
    split.
    { apply (mv_no_other_failure exr_config FieldSetLaws.ex_R "v1" tx_ops _ Hset Hone Hperm Hall).
      exact (mx_op_ok true). }
    split.
    { pose proof (mv_owned_paths_present exr_config FieldSetLaws.ex_R "v1" tx_ops "b" (mkRec tx_set_b "v2" false)
                    [F "items"; K "y"; F "vv"] Hset Hone Hperm Hall) as T.
      rewrite tx_vrun in T. cbn [fst snd] in T. apply T; vm_compute; reflexivity. }
    split.
    { pose proof (mv_forced_apply_succeeds exr_config FieldSetLaws.ex_R "v1" tx_ops "v4" "c" mx_cfg
                    Hset Hone Hperm Hall (mx_op_ok true)) as T.
      rewrite tx_vrun in T. cbn [fst snd] in T. exact T. }
    split; [|split; [exact mx_noforce|exact mx_forced]].
    intros o mf' Happly res d.
    (* C01 *)
    pose proof (mv_apply_takes_effect exr_config FieldSetLaws.ex_R "v1" tx_ops "v4" "c" mx_cfg true o mf'
                  Hset Hone Hperm Hall (mx_op_ok true)) as T1.
    rewrite tx_vrun in T1. cbn [fst snd] in T1. specialize (T1 Happly).
    split; [exact T1|].
    (* C04 *)
    pose proof (mv_apply_conflicts_exact exr_config FieldSetLaws.ex_R "v1" tx_ops "v4" "c" mx_cfg o mf'
                  Hset Hone Hperm Hall (mx_op_ok true)) as T4.
    cbv zeta in T4. rewrite tx_vrun in T4. cbn [fst snd] in T4. specialize (T4 Happly).
    change (schema_of exr_config "v1") with ex_schema in T4. change (tr_of exr_config "v1") with ex_rt in T4.
    fold res in T4. fold d in T4.
    destruct T4 as [[Hsame _]|(cs & Hcs & _ & Hlist)].
    { rewrite mx_noforce in Hsame. discriminate Hsame. }
    rewrite mx_noforce in Hcs. inversion Hcs; subst cs. clear Hcs.
    assert (Hp1 : wf_path [F "aa"] = true) by reflexivity.
    assert (Hp2 : wf_path [F "items"; K "y"] = true) by reflexivity.
    assert (Hl1 : conflict_listed [("b", [F "aa"])] "b" [F "aa"] = true) by (vm_compute; reflexivity).
    destruct (proj1 (Hlist "b" [F "aa"] Hp1 ltac:(intros Hnil; discriminate Hnil)) Hl1) as (_ & Hrec & Hd).
    split; [split; [exact Hrec|exact Hd]|].
    split.
    { intros Hd2.
      assert (Hbad : conflict_listed [("b", [F "aa"])] "b" [F "items"; K "y"] = true).
      { apply (Hlist "b" [F "items"; K "y"] Hp2 ltac:(intros Hnil; discriminate Hnil)).
        split; [intros Hab; discriminate Hab|]. split; [|exact Hd2].
        exists (mkRec tx_set_b "v2" false). split; vm_compute; reflexivity. }
      vm_compute in Hbad. discriminate Hbad. }
    (* C05 *)
    pose proof (mv_apply_records_exact exr_config FieldSetLaws.ex_R "v1" tx_ops "v4" "c" mx_cfg true o mf' mx_set_c
                  Hset Hone Hperm Hall (mx_op_ok true)) as T5.
    cbv zeta in T5. rewrite tx_vrun in T5. cbn [fst snd] in T5. specialize (T5 Happly mx_fs).
    destruct T5 as [T5c T5o].
    split.
    { destruct (mf_get "c" mf') as [rc|]; [|vm_compute in T5c; discriminate T5c].
      exists rc. split; [reflexivity|]. destruct T5c as (Ha & Hv & Hs).
      split; [exact Hv|]. split; [exact Ha|].
      rewrite (Hs [F "aa"] eq_refl ltac:(discriminate)),
              (Hs [F "items"; K "y"; F "vv"] eq_refl ltac:(discriminate)).
      split; vm_compute; reflexivity. }
    split.
    { intros rb Hg.
      pose proof (T5o "b" ltac:(discriminate) [F "aa"] eq_refl ltac:(discriminate)) as T.
      change (mf_get "b" [("a", mkRec tx_set_a "v1" true); ("b", mkRec tx_set_b "v2" false)])
        with (Some (mkRec tx_set_b "v2" false)) in T.
      cbv iota beta in T. rewrite Hg in T. destruct T as (Ha & Hv & _). split; [exact Hv|exact Ha]. }
    split.
    { intros ra Hg.
      pose proof (T5o "a" ltac:(discriminate) [F "aa"] eq_refl ltac:(discriminate)) as T.
      change (mf_get "a" [("a", mkRec tx_set_a "v1" true); ("b", mkRec tx_set_b "v2" false)])
        with (Some (mkRec tx_set_a "v1" true)) in T.
      cbv iota beta in T. rewrite Hg in T. destruct T as (Ha & Hv & _). split; [exact Hv|exact Ha]. }
    (* C07 *)
    pose proof (mv_reapply_is_a_fixed_point exr_config FieldSetLaws.ex_R "v1" tx_ops "v4" "v4" "c" mx_cfg true o mf'
                  Hset Hone Hperm Hall (mx_op_ok true) eq_refl) as T7.
    cbv zeta in T7. rewrite tx_vrun in T7. cbn [fst snd] in T7.
    destruct (T7 Happly) as (mf'' & H2 & _ & _ & _ & Hsame).
    exists None, mf''. split; [exact H2|]. split; [reflexivity|exact (Hsame eq_refl)].
  Qed.

  (* re-applying at ANOTHER label is not a fixed point on labels: the applier's record moves
     to the label of the second apply (by the theorem and by evaluation); sets, flags and the
     other labels stay *)
  Example mv_example_reapply_moves_label :
    (forall o mf',
       apply_op exr_config ("v1", tx_obj) ("v4", mx_cfg) "v4"
                [("a", mkRec tx_set_a "v1" true); ("b", mkRec tx_set_b "v2" false)] "c" true = UOk (o, mf') ->
       exists mf'',
         apply_op exr_config (match o with Some t => t | None => ("v1", tx_obj) end) ("v3", mx_cfg) "v3" mf' "c" false
           = UOk (None, mf'') /\
         same_records_upto_labels mf' mf'' /\
         (forall r, mf_get "c" mf'' = Some r -> mr_ver r = "v3")) /\
    apply_op exr_config ("v1", mx_res) ("v3", mx_cfg) "v3" mx_mf "c" false =
      UOk (None, [("a", mkRec tx_set_a "v1" true); ("b", mkRec mx_set_b "v2" false); ("c", mkRec mx_set_c "v3" true)]).
  Proof.
    split; [|vm_compute; reflexivity].
    intros o mf' Happly.
    pose proof (mv_reapply_is_a_fixed_point exr_config FieldSetLaws.ex_R "v1" tx_ops "v4" "v3" "c" mx_cfg true o mf'
                  exr_setting_ok exr_one_schema exr_order_perm tx_ops_ok (mx_op_ok true) eq_refl) as T7.
    cbv zeta in T7. rewrite tx_vrun in T7. cbn [fst snd] in T7.
    destruct (T7 Happly) as (mf'' & H2 & Hsame & Hmine & _).
    exists mf''. split; [exact H2|]. split; [exact Hsame|exact Hmine].
  Qed.
  (* an UPDATE at the fourth label, at the same state: manager "d" writes aa := 7.  By the
     theorem: the object comes back labelled v4; d's record carries v4, is not flagged and holds
     aa; b keeps its label v2 and loses aa.  The update succeeds by C06 and by evaluation. *)
  Definition ux_obj : value :=
    VMap [("aa", VInt 7); ("items", VList [item "y" 6]); ("mm", VMap [("k", VInt 2)])].

  Lemma ux_op_ok : op_ok exr_config "v1" (HUpdate "d" ux_obj).
  Proof. split; vm_compute; reflexivity. Qed.

  Local Ltac eval_rhs H :=
    match type of H with
    | ?a = ?b => let v := eval vm_compute in b in change (a = v) in H
    end.

  Example mv_example_update :
    vstep_outcome_ok exr_config (vrun exr_config "v1" tx_ops) ("v4", HUpdate "d" ux_obj) /\
    (forall t mf',
       update_op exr_config ("v1", tx_obj) ("v4", ux_obj) "v4"
                 [("a", mkRec tx_set_a "v1" true); ("b", mkRec tx_set_b "v2" false)] "d" = UOk (t, mf') ->
       t = ("v4", ux_obj) /\
       (exists rd, mf_get "d" mf' = Some rd /\ mr_ver rd = "v4" /\ mr_applied rd = false /\
                   ps_has [F "aa"] (mr_set rd) = true /\ ps_has [F "mm"; F "k"] (mr_set rd) = false) /\
       (exists rb, mf_get "b" mf' = Some rb /\ mr_ver rb = "v2" /\ mr_applied rb = false /\
                   ps_has [F "aa"] (mr_set rb) = false /\ ps_has [F "items"; K "y"; F "vv"] (mr_set rb) = true)) /\
    (exists mf', update_op exr_config ("v1", tx_obj) ("v4", ux_obj) "v4"
                   [("a", mkRec tx_set_a "v1" true); ("b", mkRec tx_set_b "v2" false)] "d"
                 = UOk (("v4", ux_obj), mf')).
  Proof.
    pose proof exr_setting_ok as Hset. pose proof exr_one_schema as Hone.
    pose proof exr_order_perm as Hperm. pose proof tx_ops_ok as Hall.
    split.
    { apply (mv_no_other_failure exr_config FieldSetLaws.ex_R "v1" tx_ops _ Hset Hone Hperm Hall).
      exact ux_op_ok. }
    split; [|eexists; vm_compute; reflexivity].
    intros t mf' Hupd.
    pose proof (mv_update_records_exact exr_config FieldSetLaws.ex_R "v1" tx_ops "v4" "d" ux_obj t mf'
                  Hset Hone Hperm Hall ux_op_ok) as T.
    cbv zeta in T. rewrite tx_vrun in T. cbn [fst snd] in T.
    destruct (T Hupd) as (Et & Tm & To & _). clear T.
    split; [exact Et|]. split.
    - pose proof (Tm [F "aa"] eq_refl ltac:(discriminate)) as T1.
      pose proof (Tm [F "mm"; F "k"] eq_refl ltac:(discriminate)) as T2.
      destruct (mf_get "d" mf') as [rd|]; [|vm_compute in T1; discriminate T1].
      exists rd. split; [reflexivity|].
      destruct T1 as (Ha & Hv & T1). destruct T2 as (_ & _ & T2). eval_rhs T1. eval_rhs T2. auto.
    - pose proof (To "b" ltac:(discriminate) [F "aa"] eq_refl ltac:(discriminate)) as T1.
      pose proof (To "b" ltac:(discriminate) [F "items"; K "y"; F "vv"] eq_refl ltac:(discriminate)) as T2.
      change (mf_get "b" [("a", mkRec tx_set_a "v1" true); ("b", mkRec tx_set_b "v2" false)])
        with (Some (mkRec tx_set_b "v2" false)) in T1, T2.
      cbv iota beta in T1, T2.
      destruct (mf_get "b" mf') as [rb|]; [|vm_compute in T2; discriminate T2].
      exists rb. split; [reflexivity|].
      destruct T1 as (Ha & Hv & T1). destruct T2 as (_ & _ & T2). eval_rhs T1. eval_rhs T2.
      cbn [mr_ver mr_applied] in Ha, Hv. auto.
  Qed.
End Example.

(* ================= assumptions ================= *)
