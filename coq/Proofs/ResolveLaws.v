(* The reference notions of Spec/Resolve.v and Spec/Agree.v, reduced to statements about
   [resolve_path]: one-step resolution of a list member through [occ], soundness of
   the node enumeration, and [agrees] / [leaf_nodes] from path-quantified relations. *)
From Coq Require Import List ZArith String Bool Arith Lia.
From SMD Require Import Model.Value Model.Order Model.PathElem Model.PathSet Model.Schema
  Model.Walk Spec.PathsAsSets Spec.RefValid Spec.Resolve Spec.Agree
  Proofs.OrderLaws Proofs.KeyLaws Proofs.PathSetLaws Proofs.ValidateLaws Proofs.SchemaOk
  Proofs.FieldSetMirrors Proofs.FieldSetBase Proofs.FieldSetShape Proofs.FieldSetPaths.
Import ListNotations.
Open Scope bool_scope.

Definition ohas_leaf (s : schema) (tr : typeref) (o : option value) (p : path) (n : rnode) : bool :=
  match o with Some v => has_leaf s tr v p n | None => false end.

(* ---------- auxiliary: representatives of a grouping are pairwise distinct ---------- *)
Fixpoint reps_nodup (g : list (pe * list value)) : Prop :=
  match g with
  | [] => True
  | (r, _) :: g' => (forall r' xs', In (r', xs') g' -> peeqb r r' = false) /\ reps_nodup g'
  end.

Lemma g_ins_in : forall e x acc r ys, In (r, ys) (g_ins e x acc) ->
  r = e \/ exists ys', In (r, ys') acc.
Proof.
  intros e x acc. induction acc as [|[r0 xs0] acc IH]; simpl; intros r ys Hin.
  - destruct Hin as [Heq|[]]. inversion Heq; subst. left. reflexivity.
  - destruct (peeqb r0 e) eqn:E.
    + destruct Hin as [Heq|Hin].
      * inversion Heq; subst. right. exists xs0. left. reflexivity.
      * right. exists ys. right. exact Hin.
    + destruct Hin as [Heq|Hin].
      * inversion Heq; subst. right. exists ys. left. reflexivity.
      * destruct (IH r ys Hin) as [H|(ys' & H)]; [left; exact H|].
        right. exists ys'. right. exact H.
Qed.

Lemma g_ins_nodup : forall e x acc, reps_nodup acc -> reps_nodup (g_ins e x acc).
Proof.
  intros e x acc. induction acc as [|[r0 xs0] acc IH]; simpl; intros Hnd.
  - split; [intros r' xs' []|exact I].
  - destruct Hnd as [Hhd Htl]. destruct (peeqb r0 e) eqn:E; simpl.
    + split; assumption.
    + split; [|apply IH; exact Htl].
      intros r' xs' Hin. destruct (g_ins_in e x acc r' xs' Hin) as [H|(ys' & H)].
      * subst r'. exact E.
      * apply (Hhd r' ys' H).
Qed.

Lemma group_items_nodup : forall s t l acc g, reps_nodup acc ->
  group_items s t l acc = Some g -> reps_nodup g.
Proof.
  intros s t l. induction l as [|x l IH]; intros acc g Hnd Hg.
  - simpl in Hg. inversion Hg; subst. exact Hnd.
  - rewrite group_items_cons in Hg.
    destruct (list_item_to_pe s t x) as [e|]; [|discriminate].
    apply (IH (g_ins e x acc) g); [apply g_ins_nodup; exact Hnd|exact Hg].
Qed.

Lemma lookup_group_in : forall g e xs, reps_wf g -> reps_nodup g -> In (e, xs) g ->
  lookup_group e g = Some xs.
Proof.
  induction g as [|[r ys] g IH]; intros e xs Hwf Hnd Hin; [contradiction|].
  inversion Hwf as [|? ? Hr Hwf']; subst. simpl in Hr. destruct Hnd as [Hhd Htl].
  rewrite lookup_group_cons. destruct Hin as [Heq|Hin].
  - inversion Heq; subst. rewrite (peeqb_refl e Hr). reflexivity.
  - rewrite (Hhd e xs Hin). apply IH; assumption.
Qed.

Lemma values_eqb'_refl : forall xs, (forall x, In x xs -> wf_value x = true) ->
  values_eqb' xs xs = true.
Proof.
  induction xs as [|x xs IH]; intros H; [reflexivity|]. simpl.
  rewrite (veqb_refl x) by (apply H; left; reflexivity). simpl.
  apply IH. intros y Hy. apply H. right. exact Hy.
Qed.

Lemma pe_matches_keyval : forall s t e x, pe_matches s t e x = true -> is_keyval e = true.
Proof.
  intros s t e x H. unfold pe_matches in H.
  destruct (list_item_to_pe s t x) as [ex|] eqn:Ex; [|discriminate].
  rewrite <- (peeqb_keyval ex e H). eapply lipe_keyval; eauto.
Qed.

Section ResolveLaws.
  Variables (s : schema) (R : typeref -> Prop).
  Hypothesis Hok : schema_ok s R.

  (* one-step resolution of a member of a granular list, through occurrences *)
  Lemma resolve_path_list_occ : forall tr v t l e rest,
    R tr -> wf_value v = true -> kind_of s tr v = KList t l -> wf_pe e = true ->
    resolve_path s tr v (e :: rest) =
    if forallb (has_pe s t) l && is_keyval e then
      match occ s t e l with
      | [] => None
      | [x] => resolve_path s (list_elem t) x rest
      | x :: y :: more =>
          match rest with [] => Some (RDup (list_elem t) (x :: y :: more)) | _ => None end
      end
    else None.
  Proof.
    intros tr v t l e rest Htr Hwf Ek He.
    destruct (kind_list_inv _ _ _ _ _ Ek) as (a & Hr & Hal & Hv & _ & _). subst v.
    assert (Hte : R (list_elem t)) by (eapply (so_list s R Hok); eauto).
    assert (Hiw : items_wf s t l) by (eapply items_wf_R; eauto).
    destruct (is_keyval e) eqn:Ekv.
    - rewrite andb_true_r. rewrite (resolve_path_list _ _ _ _ _ _ _ Ek Ekv).
      destruct (forallb (has_pe s t) l) eqn:Eh.
      + destruct (group_items_nil_spec s t l Hiw Eh) as (g & Hg & Hgw & Hlk).
        rewrite Hg, (Hlk e He). destruct (occ s t e l) as [|x [|y more]]; reflexivity.
      + rewrite (group_items_none s t l [] Eh). reflexivity.
    - rewrite andb_false_r. apply (resolve_path_list_other _ _ _ _ _ _ _ Ek Ekv).
  Qed.

  (* what a path designates is well formed, hence equal to itself *)
  Lemma resolve_path_eqb_refl : forall p v tr n,
    R tr -> wf_value v = true -> wf_path p = true ->
    resolve_path s tr v p = Some n -> rnode_eqb n n = true.
  Proof.
    induction p as [|e p IH]; intros v tr n Htr Hwf Hp Hres.
    - simpl in Hres. inversion Hres; subst. simpl. apply veqb_refl. exact Hwf.
    - apply wf_path_cons in Hp. destruct Hp as [He Hp].
      destruct (kind_of s tr v) eqn:Ek.
      + rewrite resolve_path_leaf in Hres by (rewrite Ek; exact I). discriminate.
      + destruct (kind_map_inv _ _ _ _ _ Ek) as (a & Hr & Ham & Hv & _ & _). subst v.
        destruct e as [k|k|k|k];
          try (rewrite (resolve_path_map_other _ _ _ _ _ _ _ Ek) in Hres by exact I; discriminate).
        rewrite (resolve_path_map _ _ _ _ _ _ _ Ek) in Hres.
        destruct (assoc_get k m) as [c|] eqn:Eg; [|discriminate].
        apply (IH c (field_type t k) n); auto.
        * eapply (so_map s R Hok); eauto.
        * simpl in Hwf. apply andb_true_iff in Hwf. eapply assoc_get_wf; [apply Hwf|exact Eg].
      + rewrite (resolve_path_list_occ tr v t l e p Htr Hwf Ek He) in Hres.
        destruct (kind_list_inv _ _ _ _ _ Ek) as (a & Hr & Hal & Hv & _ & _). subst v.
        assert (Hte : R (list_elem t)) by (eapply (so_list s R Hok); eauto).
        destruct (forallb (has_pe s t) l && is_keyval e); [|discriminate].
        destruct (occ s t e l) as [|x [|y more]] eqn:Eocc; [discriminate| |].
        * apply (IH x (list_elem t) n); auto.
          assert (Hx : In x (occ s t e l)) by (rewrite Eocc; simpl; auto).
          apply occ_In in Hx. eapply wf_value_list_in; eauto. apply Hx.
        * destruct p; [|discriminate]. inversion Hres; subst n. unfold rnode_eqb.
          rewrite <- Eocc. apply values_eqb'_refl. intros z Hz.
          apply occ_In in Hz. eapply wf_value_list_in; eauto. apply Hz.
      + rewrite resolve_path_leaf in Hres by (rewrite Ek; exact I). discriminate.
  Qed.

  Lemma nodes_fuel_sound : forall f v tr prefix p b,
    R tr -> wf_value v = true -> In (p, b) (nodes_fuel f s tr v prefix) ->
    exists p', p = prefix ++ p' /\ p' <> [] /\ wf_path p' = true /\
      exists n, resolve_path s tr v p' = Some n /\ (b = true -> rnode_is_leaf s n = true).
  Proof.
    induction f as [|f IH]; intros v tr prefix p b Htr Hwf Hin; [contradiction|].
    simpl in Hin. destruct (kind_of s tr v) eqn:Ek; try contradiction.
    - (* map *)
      destruct (kind_map_inv _ _ _ _ _ Ek) as (a & Hr & Ham & Hv & _ & _). subst v.
      apply in_flat_map in Hin. destruct Hin as ([k c] & Hkc & Hin). simpl in Hin.
      assert (Hget : assoc_get k m = Some c).
      { apply assoc_get_in_sorted; auto. simpl in Hwf. apply andb_true_iff in Hwf. apply Hwf. }
      assert (Hct : R (field_type t k)) by (eapply (so_map s R Hok); eauto).
      assert (Hwc : wf_value c = true) by (eapply wf_value_map_in; eauto).
      destruct Hin as [Heq|Hin].
      + inversion Heq; subst. exists [PEField k]. split; [reflexivity|].
        split; [discriminate|]. split; [reflexivity|].
        exists (RNode (field_type t k) c). split.
        * rewrite (resolve_path_map _ _ _ _ _ _ _ Ek), Hget. reflexivity.
        * intros Hb. simpl. exact Hb.
      + destruct (IH c (field_type t k) (prefix ++ [PEField k]) p b Hct Hwc Hin)
          as (p' & Hp & Hne & Hwp & n & Hres & Hleaf).
        exists (PEField k :: p'). split; [rewrite Hp, <- app_assoc; reflexivity|].
        split; [discriminate|]. split; [apply wf_path_cons; split; [reflexivity|exact Hwp]|].
        exists n. split; [|exact Hleaf].
        rewrite (resolve_path_map _ _ _ _ _ _ _ Ek), Hget. exact Hres.
    - (* list *)
      destruct (kind_list_inv _ _ _ _ _ Ek) as (a & Hr & Hal & Hv & _ & _). subst v.
      assert (Hte : R (list_elem t)) by (eapply (so_list s R Hok); eauto).
      assert (Hiw : items_wf s t l) by (eapply items_wf_R; eauto).
      destruct (group_items s t l []) as [g|] eqn:Eg; [|contradiction].
      destruct (group_items_some s t l g Hiw Eg) as (Hhas & Hgw & Hlk).
      assert (Hnd : reps_nodup g) by (apply (group_items_nodup s t l [] g I Eg)).
      apply in_flat_map in Hin. destruct Hin as ([e xs] & Hexs & Hin). simpl in Hin.
      assert (He : wf_pe e = true).
      { unfold reps_wf in Hgw. rewrite Forall_forall in Hgw. apply (Hgw (e, xs) Hexs). }
      pose proof (lookup_group_in g e xs Hgw Hnd Hexs) as Hl.
      rewrite (Hlk e He) in Hl.
      assert (Hocc : occ s t e l = xs /\ xs <> []).
      { destruct (occ s t e l) as [|o os]; [discriminate|]. inversion Hl; subst.
        split; [reflexivity|discriminate]. }
      destruct Hocc as [Hocc Hxne].
      assert (Hkv : is_keyval e = true).
      { destruct xs as [|x0 xs0]; [contradiction Hxne; reflexivity|].
        assert (Hx : In x0 (occ s t e l)) by (rewrite Hocc; left; reflexivity).
        apply occ_In in Hx. destruct Hx as [_ Hx]. eapply pe_matches_keyval; eauto. }
      pose proof (resolve_path_list_occ tr (VList l) t l e) as Hstep.
      destruct xs as [|x [|y more]].
      + contradiction Hxne; reflexivity.
      + assert (Hx : In x (occ s t e l)) by (rewrite Hocc; left; reflexivity).
        apply occ_In in Hx. destruct Hx as [Hxl _].
        assert (Hwx : wf_value x = true) by (eapply wf_value_list_in; eauto).
        destruct Hin as [Heq|Hin].
        * inversion Heq; subst p b. exists [e]. split; [reflexivity|].
          split; [discriminate|]. split; [simpl; rewrite He; reflexivity|].
          exists (RNode (list_elem t) x). split.
          -- rewrite (Hstep [] Htr Hwf Ek He), Hhas, Hkv, Hocc. reflexivity.
          -- intros Hb. simpl. exact Hb.
        * destruct (IH x (list_elem t) (prefix ++ [e]) p b Hte Hwx Hin)
            as (p' & Hp & Hne & Hwp & n & Hres & Hleaf).
          exists (e :: p'). split; [rewrite Hp, <- app_assoc; reflexivity|].
          split; [discriminate|]. split; [apply wf_path_cons; split; assumption|].
          exists n. split; [|exact Hleaf].
          rewrite (Hstep p' Htr Hwf Ek He), Hhas, Hkv, Hocc. exact Hres.
      + destruct Hin as [Heq|[]]. inversion Heq; subst p b. exists [e].
        split; [reflexivity|]. split; [discriminate|].
        split; [simpl; rewrite He; reflexivity|].
        exists (RDup (list_elem t) (x :: y :: more)). split; [|reflexivity].
        rewrite (Hstep [] Htr Hwf Ek He), Hhas, Hkv, Hocc. reflexivity.
  Qed.

  (* every enumerated node is a non-empty well-formed path that resolves, and the leaf
     flag is the leaf test on what it designates *)
  Lemma nodes_sound : forall v tr p b,
    R tr -> wf_value v = true -> In (p, b) (nodes s tr v) ->
    p <> [] /\ wf_path p = true /\
    exists n, resolve_path s tr v p = Some n /\ (b = true -> rnode_is_leaf s n = true).
  Proof.
    intros v tr p b Htr Hwf Hin. unfold nodes in Hin.
    destruct (nodes_fuel_sound _ _ _ _ _ _ Htr Hwf Hin) as (p' & Hp & Hne & Hwp & n & Hres & Hleaf).
    simpl in Hp. subst p'. split; [exact Hne|]. split; [exact Hwp|].
    exists n. split; assumption.
  Qed.

  (* r's nodes are present in out, with r's value at leaves *)
  Definition AgrP (tr : typeref) (r out : value) : Prop :=
    forall p c, wf_path p = true -> resolve_path s tr r p = Some c ->
      exists o, resolve_path s tr out p = Some o /\
                (rnode_is_leaf s c = true -> rnode_eqb c o = true).

  Lemma agrees_of_AgrP : forall tr r out,
    R tr -> wf_value r = true -> AgrP tr r out -> agrees s tr r out = true.
  Proof.
    intros tr r out Htr Hwf HA. unfold agrees. apply andb_true_iff. split.
    - apply forallb_forall. intros [p b] Hin. simpl.
      destruct (nodes_sound r tr p b Htr Hwf Hin) as (Hne & Hwp & c & Hres & Hleaf).
      destruct (HA p c Hwp Hres) as (o & Ho & Heq).
      rewrite Ho, Hres. destruct b; [|reflexivity]. apply Heq. apply Hleaf. reflexivity.
    - destruct (kind_of s tr r) eqn:Ek; try reflexivity.
      destruct (HA [] (RNode tr r) eq_refl eq_refl) as (o & Ho & Heq).
      simpl in Ho. inversion Ho; subst o. simpl in Heq. rewrite Ek in Heq.
      apply Heq. reflexivity.
  Qed.

  (* every leaf of out (the root included) is a leaf of ro or of lo *)
  Definition LeafP (tr : typeref) (lo ro : option value) (out : value) : Prop :=
    forall p n, wf_path p = true -> resolve_path s tr out p = Some n ->
      rnode_is_leaf s n = true ->
      ohas_leaf s tr ro p n = true \/ ohas_leaf s tr lo p n = true.

  Lemma leaves_of_LeafP : forall tr l r out,
    R tr -> wf_value out = true -> LeafP tr (Some l) (Some r) out ->
    forallb (fun pn : path * rnode =>
               has_leaf s tr r (fst pn) (snd pn) || has_leaf s tr l (fst pn) (snd pn))
            (leaf_nodes s tr out) = true.
  Proof.
    intros tr l r out Htr Hwf HL. unfold leaf_nodes. apply forallb_forall.
    intros [p n] Hin. simpl. apply in_flat_map in Hin.
    destruct Hin as ([p0 b] & Hin0 & Hin1). simpl in Hin1.
    destruct b; [|contradiction].
    destruct (resolve_path s tr out p0) as [n0|] eqn:Eres; [|contradiction].
    destruct Hin1 as [Heq|[]]. inversion Heq; subst p0 n0.
    destruct (nodes_sound out tr p true Htr Hwf Hin0) as (Hne & Hwp & n' & Hres & Hleaf).
    rewrite Eres in Hres. inversion Hres; subst n'.
    destruct (HL p n Hwp Eres (Hleaf eq_refl)) as [H|H]; simpl in H; rewrite H.
    - reflexivity.
    - apply orb_true_r.
  Qed.
End ResolveLaws.

