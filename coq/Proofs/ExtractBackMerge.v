(* C07 (extract and apply back), merging: merging into a valid duplicate-free object what
   the extracting walker (typed/remove.go with extract = true) takes out of it -- whatever
   the selection -- gives the object back, SYNTACTICALLY (same members in the same order),
   provided the extraction is a plain valid object (no null, no empty list or map: the
   walker turns an empty list or map into a null, and drops the key fields that are not
   selected, so neither is automatic).
     [back_w]               the statement on the fuelled walker;
     [merge_extract_fixed]  merge x (remove_items true T x) = x. *)
From Coq Require Import List ZArith String Bool Arith Lia.
From SMD Require Import Model.Value Model.Order Model.PathElem Model.PathSet Model.Schema
  Model.Walk Model.FieldSet Model.Remove Model.Merge Spec.PathsAsSets Spec.RefValid Spec.Resolve
  Spec.Agree
  Proofs.OrderLaws Proofs.KeyLaws Proofs.PathSetLaws Proofs.ValidateLaws Proofs.SchemaOk
  Proofs.FieldSetMirrors Proofs.FieldSetBase Proofs.FieldSetShape Proofs.FieldSetPaths
  Proofs.RemoveBase Proofs.ExtractBase Proofs.ExtractLaws Proofs.RemoveAbsent Proofs.RemoveWf
  Proofs.ResolveLaws Proofs.ReconcileBase Proofs.RemoveFrame Proofs.RemoveExt Proofs.KeyFields.
From SMD Require Import Proofs.MergeLaws Proofs.PesLaws Proofs.MergeBase Proofs.MergeLoop
  Proofs.MergeWalk Proofs.MergeConf Proofs.MergeInter Proofs.MergeVeqb Proofs.MergeDescent
  Proofs.MergeAgree Proofs.PartExtract Proofs.ExtractBackDup.
Import ListNotations.
Open Scope bool_scope.

Local Arguments ps_has : simpl never.
Local Arguments ps_with_prefix : simpl never.
Local Arguments ps_empty : simpl never.

(* ------------------------------------------------------------------ *)
(* generic list facts *)
Lemma interleave_split : forall (A : Type) (p : A -> bool) (l : list A),
  interleave (filter p l) (filter (fun x => negb (p x)) l) l.
Proof.
  intros A p l. induction l as [|x l IH]; simpl; [constructor|].
  destruct (p x); simpl; constructor; exact IH.
Qed.

Lemma map_pair_id : forall (A B : Type) (l : list (A * B)), map (fun x => (fst x, snd x)) l = l.
Proof.
  intros A B l. induction l as [|[a b] l IH]; simpl; [reflexivity|]. rewrite IH. reflexivity.
Qed.

(* the members of a list with pairwise distinct path elements: one that fails a test and
   one that passes it have different path elements *)
Lemma distinct_split : forall (p : pe * value -> bool) (tl : list (pe * value)) x y,
  (forall z, In z tl -> wf_pe (fst z) = true) ->
  all_distinct (map fst tl) = true ->
  In x (filter (fun z => negb (p z)) tl) -> In y (filter p tl) -> peeqb (fst x) (fst y) = false.
Proof.
  intros p tl. induction tl as [|z tl IH]; intros x y Hw Hd Hx Hy; [destruct Hx|].
  cbn [map all_distinct] in Hd. apply andb_true_iff in Hd. destruct Hd as [Hz Hd].
  apply negb_true_iff in Hz.
  assert (Hw' : forall z', In z' tl -> wf_pe (fst z') = true) by (intros z' Hz'; apply Hw; right; exact Hz').
  cbn [filter] in Hx, Hy. destruct (p z) eqn:Ep; cbn [negb] in Hx.
  - destruct Hy as [Hy|Hy].
    + subst y. apply filter_In in Hx. destruct Hx as [Hx _].
      destruct (peeqb (fst x) (fst z)) eqn:E; [|reflexivity]. exfalso.
      rewrite (peeqb_sym (fst x) (fst z)) in E by (auto; apply Hw; left; reflexivity).
      assert (Hex : existsb (peeqb (fst z)) (map fst tl) = true).
      { apply existsb_exists. exists (fst x). split; [apply in_map; exact Hx|exact E]. }
      congruence.
    + apply IH; auto.
  - destruct Hx as [Hx|Hx].
    + subst x. apply filter_In in Hy. destruct Hy as [Hy _].
      destruct (peeqb (fst z) (fst y)) eqn:E; [|reflexivity]. exfalso.
      assert (Hex : existsb (peeqb (fst z)) (map fst tl) = true).
      { apply existsb_exists. exists (fst y). split; [apply in_map; exact Hy|exact E]. }
      congruence.
    + apply IH; auto.
Qed.

(* ------------------------------------------------------------------ *)
(* what extraction makes of a scalar-typed value: the value itself *)
Lemma xt_scalar_type : forall s tr sc T v, resolve s tr = Some (Atom (Some sc) None None) ->
  remove_items s true tr T v = v.
Proof.
  intros s tr sc T v Hr. rewrite remove_items_eq, Hr.
  destruct v; reflexivity.
Qed.

Section Back.
  Variables (s : schema) (R : typeref -> Prop).
  Hypothesis Hok : schema_ok s R.
  Hypothesis Hfam : family_refs s R.
  Hypothesis Hnd : keys_nodefault s R.
  Hypothesis Hks : keys_scalar s R.

  (* a list member that is extracted and still has a path element keeps its path element *)
  Lemma xt_same_pe : forall tr a t dup c T e e', R tr -> resolve s tr = Some a -> atom_list a = Some t ->
    conforms s (list_elem t) dup c = true ->
    list_item_to_pe s t c = Some e ->
    list_item_to_pe s t (remove_items s true (list_elem t) T c) = Some e' -> e' = e.
  Proof.
    intros tr a t dup c T e e' Htr Hr Hlt Hcc He He'.
    unfold list_item_to_pe in He, He'.
    destruct (negb (rel_is_assoc (list_rel t))); [discriminate|].
    destruct (list_keys t) as [|k0 ks] eqn:Ekeys.
    - (* a set member is a scalar *)
      assert (Hs : is_scalar c = true) by (destruct c; simpl in He; try discriminate; reflexivity).
      pose proof Hcc as Hcc'. rewrite conforms_eq in Hcc'.
      destruct (resolve s (list_elem t)) as [[sc li ma]|] eqn:Er; [|discriminate].
      assert (Hx : remove_items s true (list_elem t) T c = c).
      { rewrite remove_items_eq, Er.
        destruct c; try discriminate; (destruct sc; [reflexivity|discriminate]). }
      rewrite Hx, He in He'. inversion He'. reflexivity.
    - destruct c as [| | | | |lx|m]; try (simpl in He; discriminate).
      pose proof Hcc as Hcc'. rewrite conforms_eq in Hcc'.
      destruct (resolve s (list_elem t)) as [[sc li ma]|] eqn:Er; [|discriminate].
      destruct ma as [t'|]; [|discriminate].
      destruct m as [|kv0 m0].
      { (* the empty map is extracted as null, which has no path element *)
        rewrite remove_items_eq, Er in He'. simpl in He'. discriminate. }
      assert (Hmne : kv0 :: m0 <> []) by discriminate.
      remember (kv0 :: m0) as m eqn:Em. clear Em kv0 m0.
      rewrite (remove_items_vmap' s true (list_elem t) T sc li t' m Er Hmne) in He'.
      destruct (rel_is_atomic (map_rel t')); [rewrite He in He'; inversion He'; reflexivity|].
      rewrite rm_map_go_xt in He'.
      destruct (flat_map (xt_entry s T t') m) as [|o out] eqn:Eout; [simpl in He'; discriminate|].
      rewrite <- Eout in He'.
      rewrite ValidateLaws.keyed_item_to_pe_eq in He, He'.
      rewrite Ekeys in He, He'.
      destruct (ValidateLaws.keyed_go s t m (k0 :: ks)) as [fl|] eqn:Eg; [|discriminate].
      destruct (ValidateLaws.keyed_go s t (flat_map (xt_entry s T t') m) (k0 :: ks)) as [fl'|] eqn:Eg'; [|discriminate].
      assert (Hexpl : forall k, In k (k0 :: ks) -> assoc_get k (flat_map (xt_entry s T t') m) <> None).
      { apply (keyed_go_explicit s t _ (k0 :: ks) fl' Eg').
        intros k' d Hk'. apply (Hnd tr a t k' d Htr Hr Hlt). rewrite Ekeys. exact Hk'. }
      assert (Hsame : forall k, In k (k0 :: ks) ->
                assoc_get k (flat_map (xt_entry s T t') m) = assoc_get k m).
      { intros k Hk. pose proof (Hexpl k Hk) as Hne. rewrite xt_map_assoc_get in Hne |- *.
        destruct (assoc_get k m) as [ck|] eqn:Eck; [|reflexivity].
        destruct (Hks tr a t k (Atom sc li (Some t')) t' Htr Hr Hlt ltac:(rewrite Ekeys; exact Hk) Er eq_refl)
          as [sck Hrk].
        unfold xt_value in *.
        destruct (ps_has [PEField k] T).
        - rewrite (xt_scalar_type s _ sck _ ck Hrk). reflexivity.
        - destruct (negb (ps_empty (ps_with_prefix (PEField k) T))); [|congruence].
          rewrite (xt_scalar_type s _ sck _ ck Hrk). reflexivity. }
      rewrite (keyed_go_ext s t _ m (k0 :: ks) Hsame), Eg in Eg'. inversion Eg'; subst fl'.
      congruence.
  Qed.

  (* the extraction of a list, member by member *)
  Definition xkeep (T : pset) (t : listT) (it : pe * value) : bool :=
    match xt_item s T t (snd it) with [] => false | _ => true end.

  Lemma xt_item_cases : forall T t c, xt_item s T t c = [] \/
    exists T', xt_item s T t c = [remove_items s true (list_elem t) T' c].
  Proof.
    intros T t c. unfold xt_item. cbv zeta.
    destruct (ps_has [list_item_pe_or_zero s t c] T && ps_empty (ps_with_prefix (list_item_pe_or_zero s t c) T)).
    - right. eexists. reflexivity.
    - destruct (negb (ps_empty (ps_with_prefix (list_item_pe_or_zero s t c) T))).
      + right. eexists. reflexivity.
      + left. reflexivity.
  Qed.

  Lemma xt_list_pairs : forall tr a t dup T l, R tr -> resolve s tr = Some a -> atom_list a = Some t ->
    forallb (has_pe s t) l = true -> forallb (conforms s (list_elem t) dup) l = true ->
    forallb (has_pe s t) (flat_map (xt_item s T t) l) = true ->
    ipairs s t (flat_map (xt_item s T t) l) =
    flat_map (fun it : pe * value => map (fun y => (fst it, y)) (xt_item s T t (snd it))) (ipairs s t l).
  Proof.
    intros tr a t dup T l Htr Hr Hlt. induction l as [|c l IH]; intros Hpe Hcs Hpe'; [reflexivity|].
    cbn [forallb] in Hpe, Hcs. apply andb_true_iff in Hpe. destruct Hpe as [Hc Hpe].
    apply andb_true_iff in Hcs. destruct Hcs as [Hcc Hcs].
    cbn [flat_map] in Hpe' |- *. rewrite forallb_app in Hpe'. apply andb_true_iff in Hpe'.
    destruct Hpe' as [Hpe1 Hpe2].
    unfold ipairs at 1. rewrite flat_map_app. fold (ipairs s t (xt_item s T t c)).
    fold (ipairs s t (flat_map (xt_item s T t) l)). rewrite (IH Hpe Hcs Hpe2).
    unfold has_pe in Hc. destruct (list_item_to_pe s t c) as [e|] eqn:Ee; [|discriminate].
    change (ipairs s t (c :: l)) with
      ((match list_item_to_pe s t c with Some e => [(e, c)] | None => [] end) ++ ipairs s t l).
    rewrite Ee. cbn [app flat_map fst snd]. f_equal.
    destruct (xt_item_cases T t c) as [E|(T' & E)]; rewrite E in *; [reflexivity|].
    cbn [forallb] in Hpe1. rewrite andb_true_r in Hpe1. unfold has_pe in Hpe1.
    destruct (list_item_to_pe s t (remove_items s true (list_elem t) T' c)) as [e'|] eqn:Ee'; [|discriminate].
    pose proof (xt_same_pe tr a t dup c T' e e' Htr Hr Hlt Hcc Ee Ee') as Heq. subst e'.
    unfold ipairs. cbn [flat_map map]. rewrite Ee'. reflexivity.
  Qed.

  Lemma back_w : forall f tr x T, R tr ->
    vdepth x + vdepth (remove_items s true tr T x) < f ->
    conforms s tr true x = true -> dup_free s tr x = true -> wf_value x = true ->
    plain (remove_items s true tr T x) = true ->
    conforms s tr false (remove_items s true tr T x) = true ->
    merge_w f s tr (Some x) (Some (remove_items s true tr T x)) = (false, Some x).
  Proof.
    induction f as [|f IH]; intros tr x T HR Hd Hc Hdf Hw Hpl Hcy; [lia|].
    pose proof (remove_items_wf s true x tr T Hw) as Hwy.
    destruct (conforms_resolve s tr true x Hc) as [a [Hr Hne]].
    pose proof Hc as Hc'. rewrite conforms_unf, Hr in Hc'. destruct a as [sc li ma].
    assert (Hself : is_scalar x = true -> remove_items s true tr T x = x ->
              merge_w (S f) s tr (Some x) (Some (remove_items s true tr T x)) = (false, Some x)).
    { intros Hs E. rewrite E in *.
      assert (Hcf : conforms s tr false x = true).
      { rewrite conforms_eq in Hc |- *. rewrite Hr in *. destruct x; try discriminate; exact Hc. }
      apply (merge_self_w s R Hok Hfam (S f) tr x HR); auto. lia. }
    destruct x as [|b|z|q|str|l|m].
    - (* null: extracted as null *)
      exfalso. assert (E : remove_items s true tr T VNull = VNull).
      { rewrite remove_items_eq, Hr. destruct (handle_atom (deduce_atom (Atom sc li ma) (Some VNull))); reflexivity. }
      rewrite E in Hpl. discriminate.
    - apply Hself; [reflexivity|]. rewrite remove_items_eq, Hr. destruct sc; [reflexivity|discriminate].
    - apply Hself; [reflexivity|]. rewrite remove_items_eq, Hr. destruct sc; [reflexivity|discriminate].
    - apply Hself; [reflexivity|]. rewrite remove_items_eq, Hr. destruct sc; [reflexivity|discriminate].
    - apply Hself; [reflexivity|]. rewrite remove_items_eq, Hr. destruct sc; [reflexivity|discriminate].
    - (* list *)
      destruct li as [t|]; [|discriminate].
      destruct l as [|x0 l0].
      { exfalso. rewrite remove_items_eq, Hr in Hpl. simpl in Hpl. discriminate. }
      assert (Hlne : x0 :: l0 <> []) by discriminate.
      remember (x0 :: l0) as l eqn:El. clear El x0 l0.
      rewrite (remove_items_vlist' s true tr T sc t ma l Hr Hlne) in *.
      destruct (rel_is_atomic (list_rel t)) eqn:Hna.
      { rewrite merge_w_S, Hr. unfold merge_top. rewrite atom_eqb_refl.
        rewrite (deduce_conf_list (Atom sc (Some t) ma) l t eq_refl). simpl handle.
        unfold merge_list. rewrite Hna. reflexivity. }
      rewrite rm_list_go_xt in *.
      set (ly := flat_map (xt_item s T t) l) in *.
      assert (Hlyne : ly <> []) by (intros E; rewrite E in Hpl; discriminate).
      assert (Ey : match ly with [] => VNull | v :: l1 => VList (v :: l1) end = VList ly)
        by (destruct ly; [congruence|reflexivity]).
      rewrite Ey in *. clear Ey.
      pose proof (list_rel_assoc t (Hfam tr _ t HR Hr eq_refl) Hna) as Hrel.
      destruct (conf_list_assoc s tr _ t true l Hr eq_refl Hrel Hc) as (Hpe & Hall & _).
      pose proof (kind_of_list s tr _ t l Hr eq_refl Hna Hlne) as Ekl.
      destruct (dup_free_list s R Hok tr (VList l) t l HR Hw Ekl Hdf) as (_ & Hdis & Hdfl).
      destruct (conf_list_assoc s tr _ t false ly Hr eq_refl Hrel Hcy) as (HpeY & HallY & HdisY).
      specialize (HdisY eq_refl).
      pose proof (elem_ok s R Hok tr _ t HR Hr eq_refl) as Helem.
      pose proof (so_list s R Hok tr _ t HR Hr eq_refl) as HRelem.
      assert (Hwl : forallb wf_value l = true) by exact Hw.
      assert (HwY : forallb wf_value ly = true) by exact Hwy.
      assert (Hwfpe : forall e, In e (pes_of s t l) -> wf_pe e = true) by (apply pes_of_wf; auto).
      assert (HwfpeY : forall e, In e (pes_of s t ly) -> wf_pe e = true) by (apply pes_of_wf; auto).
      (* the pairs of the extraction *)
      pose proof (xt_list_pairs tr _ t true T l HR Hr eq_refl Hpe Hall HpeY) as Hpairs. fold ly in Hpairs.
      set (tl := ipairs s t l) in *.
      set (A := filter (xkeep T t) tl).
      set (B := filter (fun it => negb (xkeep T t it)) tl).
      assert (Hil : interleave A B tl) by (apply interleave_split).
      assert (HpesY : pes_of s t ly = map fst A).
      { rewrite <- ipairs_fst, Hpairs. unfold A. clear. induction tl as [|[e c] tl IH]; [reflexivity|].
        cbn [flat_map filter]. unfold xkeep at 1. cbn [fst snd].
        rewrite map_app, IH.
        destruct (xt_item_cases T t c) as [E|(T' & E)]; rewrite E; reflexivity. }
      assert (HinY : forall e c, In (e, c) A -> exists T', In (e, remove_items s true (list_elem t) T' c) (ipairs s t ly) /\
                        In (remove_items s true (list_elem t) T' c) ly).
      { intros e c Hin. unfold A in Hin. apply filter_In in Hin. destruct Hin as [Hin Hk].
        unfold xkeep in Hk. cbn [snd] in Hk.
        destruct (xt_item_cases T t c) as [E|(T' & E)]; rewrite E in Hk; [discriminate|].
        exists T'. assert (H1 : In (e, remove_items s true (list_elem t) T' c) (ipairs s t ly)).
        { rewrite Hpairs. apply in_flat_map. exists (e, c). split; [exact Hin|].
          cbn [fst snd]. rewrite E. left. reflexivity. }
        split; [exact H1|]. apply (ipairs_in s t ly _ _ H1). }
      rewrite merge_w_S, Hr. unfold merge_top. rewrite atom_eqb_refl.
      rewrite (deduce_conf_list (Atom sc (Some t) ma) ly t eq_refl). simpl handle.
      unfold merge_list. rewrite Hna.
      assert (Hnem : is_empty_l (deref_list (Some (VList l))) = false) by (destruct l; [congruence|reflexivity]).
      rewrite Hnem. simpl orb. cbv iota.
      change (dl (Some (VList l))) with l. change (dl (Some (VList ly))) with ly.
      destruct (index_nodup s t false ly [] [] false (pem_ok_nil _) HwfpeY HpeY HdisY)
        as [oR [HidxR [HoR HgetR]]].
      { intros e _. apply pem_get_nil. }
      destruct (index_nodup s t true l [] [] false (pem_ok_nil _) Hwfpe Hpe Hdis)
        as [oL [HidxL [HoL HgetL]]].
      { intros e _. apply pem_get_nil. }
      rewrite HidxR. cbv beta iota. rewrite HidxL. cbv beta iota. simpl orb. cbv iota. simpl app.
      destruct (pop_shared (shared_order oL (pes_of s t ly))) as [ns so].
      rewrite (ipairs_combine s t l Hpe). fold tl.
      set (M := merge_w f s (list_elem t)).
      change (fun _ : pe => M) with (mi_of M).
      rewrite HpesY.
      rewrite <- (map_pair_id _ _ tl) at 1.
      assert (Hwtl : forall z, In z tl -> wf_pe (fst z) = true).
      { intros [e c] Hz. apply Hwfpe. rewrite <- ipairs_fst. apply in_map_iff. exists (e, c). auto. }
      rewrite (loop_replay M oL oR HoR fst A B tl Hil).
      + simpl app. unfold tl. rewrite (ipairs_snd s t l Hpe). destruct l; [congruence|reflexivity].
      + (* the members that are extracted *)
        intros [e c] Hx. cbn [fst snd].
        assert (Hxtl : In (e, c) tl) by (unfold A in Hx; apply filter_In in Hx; apply Hx).
        pose proof (Hwtl _ Hxtl) as He. cbn [fst] in He.
        destruct (HinY e c Hx) as (T' & HinP & HinL).
        pose proof (ipairs_in s t l e c Hxtl) as [Hinc Hpec].
        assert (HgR : pem_get e oR = Some (remove_items s true (list_elem t) T' c)).
        { rewrite (HgetR e He), (lfind_in s t ly e _ HwfpeY HdisY HinP). reflexivity. }
        assert (HgL : pem_get e oL = Some c).
        { rewrite (HgetL e He), (lfind_in s t l e c Hwfpe Hdis Hxtl). reflexivity. }
        split; [exact He|]. split; [exact He|]. split; [apply peeqb_refl; exact He|].
        split; [rewrite HgR; discriminate|].
        rewrite HgL, HgR. unfold M.
        assert (Hcc : conforms s (list_elem t) true c = true)
          by (rewrite forallb_forall in Hall; apply Hall; exact Hinc).
        apply IH; auto.
        * pose proof (vdepth_list_in l c Hinc). pose proof (vdepth_list_in ly _ HinL). lia.
        * apply (wf_list_in l c Hw Hinc).
        * apply (plain_list_in ly _ Hpl HinL).
        * rewrite forallb_forall in HallY. apply HallY. exact HinL.
      + (* the members that are not *)
        intros [e c] Hx. cbn [fst snd].
        assert (Hxtl : In (e, c) tl) by (unfold B in Hx; apply filter_In in Hx; apply Hx).
        pose proof (Hwtl _ Hxtl) as He. cbn [fst] in He.
        pose proof (ipairs_in s t l e c Hxtl) as [Hinc Hpec].
        split; [exact He|]. split; [reflexivity|]. split.
        * rewrite (HgetR e He), pem_get_nil.
          destruct (lfind s t e ly) as [v|] eqn:El; [|reflexivity]. exfalso.
          apply lfind_some in El. destruct El as [e' [Hin' Hee']].
          assert (Hin2 : In e' (map fst A)).
          { rewrite <- HpesY, <- ipairs_fst. apply in_map_iff. exists (e', v). auto. }
          apply in_map_iff in Hin2. destruct Hin2 as [[e2 c2] [E2 Hin2]]. cbn [fst] in E2. subst e2.
          assert (Hd0 : all_distinct (map fst tl) = true) by (unfold tl; rewrite ipairs_fst; exact Hdis).
          pose proof (distinct_split (xkeep T t) tl (e, c) (e', c2) Hwtl Hd0 Hx Hin2) as Hne0.
          cbn [fst] in Hne0. congruence.
        * unfold M. apply (merge_absent_right s R Hok Hfam); auto.
          -- pose proof (vdepth_list_in l c Hinc). lia.
          -- rewrite forallb_forall in Hall. apply Hall. exact Hinc.
          -- apply (wf_list_in l c Hw Hinc).
      + unfold tl. rewrite (ipairs_length s t l Hpe). simpl. lia.
    - (* map *)
      destruct ma as [t|]; [|discriminate].
      destruct m as [|kv0 m0].
      { exfalso. rewrite remove_items_eq, Hr in Hpl. simpl in Hpl. discriminate. }
      assert (Hmne : kv0 :: m0 <> []) by discriminate.
      remember (kv0 :: m0) as m eqn:Em. clear Em kv0 m0.
      rewrite (remove_items_vmap' s true tr T sc li t m Hr Hmne) in *.
      destruct (rel_is_atomic (map_rel t)) eqn:Hna.
      { rewrite merge_w_S, Hr. unfold merge_top. rewrite atom_eqb_refl.
        rewrite (deduce_conf_map (Atom sc li (Some t)) m t eq_refl). simpl handle.
        unfold merge_map. rewrite Hna. reflexivity. }
      pose proof (kind_of_map s tr _ t m Hr eq_refl Hna Hmne) as Ekm.
      rewrite rm_map_go_xt in *.
      set (my := flat_map (xt_entry s T t) m) in *.
      assert (Hmyne : my <> []) by (intros E; rewrite E in Hpl; discriminate).
      assert (Ey : match my with [] => VNull | v :: l1 => VMap (v :: l1) end = VMap my)
        by (destruct my; [congruence|reflexivity]).
      rewrite Ey in *. clear Ey.
      rewrite merge_w_S, Hr. unfold merge_top. rewrite atom_eqb_refl.
      rewrite (deduce_conf_map (Atom sc li (Some t)) my t eq_refl). simpl handle.
      unfold merge_map. rewrite Hna.
      assert (Hnem : is_empty_l (deref_map (Some (VMap m))) = false) by (destruct m; [congruence|reflexivity]).
      rewrite Hnem. simpl orb. cbv iota.
      change (dm (Some (VMap m))) with m. change (dm (Some (VMap my))) with my.
      assert (Hget : forall k, assoc_get k my = match assoc_get k m with
                                                 | None => None | Some c => xt_value s T t k c end)
        by (intros k; apply xt_map_assoc_get).
      assert (Hkeys : keys_union (map fst m) (map fst my) = map fst m).
      { apply keys_union_absorb.
        - apply sorted_keys_ssorted. apply (wf_map_sorted m Hw).
        - apply sorted_keys_ssorted. apply (wf_map_sorted my Hwy).
        - intros k Hk. apply assoc_get_in_keys in Hk.
          destruct (assoc_get k m) as [c|] eqn:Ec.
          + apply assoc_get_In in Ec. apply in_map_iff. exists (k, c). auto.
          + exfalso. apply Hk. rewrite Hget, Ec. reflexivity. }
      rewrite Hkeys.
      set (g := fun k => match assoc_get k m with Some x => x | None => VNull end).
      rewrite (fold_map_ok f s t m my g).
      + assert (Hreb : map (fun k => (k, g k)) (map fst m) = m).
        { apply map_rebuild. intros k x Hin. unfold g.
          rewrite (assoc_get_sorted_in m k x (wf_map_sorted m Hw) Hin). reflexivity. }
        simpl app. rewrite Hreb. destruct m; [congruence|reflexivity].
      + intros k Hk.
        pose proof (assoc_get_in_keys _ m k Hk) as Hsome. unfold g.
        destruct (assoc_get k m) as [c|] eqn:Ec; [|congruence].
        pose proof (oconf_dm s tr true _ t (Some (VMap m)) k Hr eq_refl (conj Hc Hw)) as Hsub.
        change (dm (Some (VMap m))) with m in Hsub. rewrite Ec in Hsub. destruct Hsub as [Hcx Hwx].
        pose proof (assoc_get_in _ k m c Ec) as Hinm.
        pose proof (dup_free_map s tr (VMap m) t m k c Ekm Hdf Hinm) as Hdfc.
        pose proof (vdepth_map_in m k c Hinm) as Hdc.
        assert (HRk : R (field_type t k)) by (apply (so_map s R Hok tr _ t k HR Hr eq_refl)).
        rewrite Hget, Ec.
        destruct (xt_value s T t k c) as [c'|] eqn:Ev.
        * assert (Hgy : assoc_get k my = Some c') by (rewrite Hget, Ec; exact Ev).
          pose proof (assoc_get_in _ k my c' Hgy) as Hiny.
          pose proof (vdepth_map_in my k c' Hiny) as Hdy.
          pose proof (oconf_dm s tr false _ t (Some (VMap my)) k Hr eq_refl (conj Hcy Hwy)) as Hsuby.
          change (dm (Some (VMap my))) with my in Hsuby. rewrite Hgy in Hsuby. destruct Hsuby as [Hcy' Hwy'].
          pose proof (plain_map_in my k c' Hpl Hiny) as Hpy'.
          unfold xt_value in Ev.
          destruct (ps_has [PEField k] T).
          -- inversion Ev; subst c'. apply IH; auto. lia.
          -- destruct (negb (ps_empty (ps_with_prefix (PEField k) T))); [|discriminate].
             inversion Ev; subst c'. apply IH; auto. lia.
        * apply (merge_absent_right s R Hok Hfam); auto. lia.
  Qed.
End Back.

(* merging the extraction back gives the object, syntactically *)
Theorem merge_extract_fixed : forall s R tr x T,
  schema_ok s R -> family_refs s R -> keys_nodefault s R -> keys_scalar s R -> R tr ->
  wf_value x = true -> conforms s tr true x = true -> dup_free s tr x = true ->
  plain (remove_items s true tr T x) = true ->
  conforms s tr false (remove_items s true tr T x) = true ->
  merge s tr x (remove_items s true tr T x) = Some (Some x).
Proof.
  intros s R tr x T Hok Hfam Hnd Hks Htr Hw Hc Hdf Hpl Hcy.
  apply merge_of_w. apply (back_w s R Hok Hfam Hnd Hks); auto.
  unfold merge_fuel. lia.
Qed.

(* a plain extraction of a granular object is granular *)
Lemma xt_granular : forall s tr T x, granular s tr x ->
  plain (remove_items s true tr T x) = true -> granular s tr (remove_items s true tr T x).
Proof.
  intros s tr T x Hg Hpl. unfold granular in Hg.
  destruct (kind_of s tr x) as [|t m|t l|] eqn:Ek; try contradiction.
  - destruct (kind_map_inv _ _ _ _ _ Ek) as (a & Hr & Ham & Hv & Hna & Hne). subst x.
    destruct a as [sc li ma]. simpl in Ham. subst ma.
    rewrite (remove_items_vmap' s true tr T sc li t m Hr Hne), Hna in *.
    destruct (rm_map_go s true T t m) as [|o out] eqn:Eo; [discriminate|].
    unfold granular. rewrite (kind_of_map s tr _ t (o :: out) Hr eq_refl Hna); [exact I|discriminate].
  - destruct (kind_list_inv _ _ _ _ _ Ek) as (a & Hr & Hal & Hv & Hna & Hne). subst x.
    destruct a as [sc li ma]. simpl in Hal. subst li.
    rewrite (remove_items_vlist' s true tr T sc t ma l Hr Hne), Hna in *.
    destruct (rm_list_go s true T t l) as [|o out] eqn:Eo; [discriminate|].
    unfold granular. rewrite (kind_of_list s tr _ t (o :: out) Hr eq_refl Hna); [exact I|discriminate].
Qed.

