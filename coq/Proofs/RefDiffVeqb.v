(* The reference diff (Spec/RefDiff.v) of two objects that are equal in the sense of
   value.Equals ([veqb]: integers and floats of the same numeric value are equal) reports
   nothing; hence, by C11 ([compare_refines_ref_diff_restricted]), the comparison of two such
   objects reports nothing at any non-empty well-formed path.  Used for the "nothing to
   persist" answer of Apply (Proofs/ConflictsApply.v). *)
From Coq Require Import List ZArith String Bool Arith Lia.
From SMD Require Import Model.Value Model.Order Model.PathElem Model.PathSet Model.Schema Model.Walk
  Model.Validate Model.Merge Model.Compare Spec.PathsAsSets Spec.RefValid Spec.Resolve Spec.RefDiff
  Proofs.OrderLaws Proofs.KeyLaws Proofs.ValidateLaws Proofs.SchemaOk Proofs.FieldSetBase Proofs.FieldSetPaths
  Proofs.CompareBase Proofs.CompareTotal Proofs.RefDiffBase Proofs.RefDiffOneSided Proofs.RefDiffBoth
  Proofs.RefDiffPresent Proofs.RefDiffLaws Proofs.MergeVeqbAux Proofs.VeqbResolve.
Import ListNotations.
Open Scope bool_scope.
Open Scope list_scope.

Lemma fold_rd_empty : forall (A : Type) (F : A -> rdiff) (l : list A),
  (forall x, In x l -> F x = rd_empty) ->
  fold_left (fun acc x => rd_app acc (F x)) l rd_empty = rd_empty.
Proof.
  intros A F l. induction l as [|x l IH]; intros H; [reflexivity|].
  cbn [fold_left]. rewrite (H x (or_introl eq_refl)). cbn. apply IH.
  intros y Hy. apply H. right. exact Hy.
Qed.

Lemma values_eqb_dup_F2 : forall xs ys, Forall2 (fun x y => veqb x y = true) xs ys ->
  values_eqb_dup xs ys = true.
Proof.
  intros xs ys H. induction H as [|x y xs ys Hxy _ IH]; [reflexivity|].
  cbn [values_eqb_dup]. rewrite Hxy, IH. reflexivity.
Qed.

(* equal values are seen the same way *)
Lemma kind_leaf_veqb : forall s tr l r, veqb l r = true ->
  kind_of s tr l = KLeaf -> kind_of s tr r = KLeaf.
Proof.
  intros s tr l r Hv. unfold kind_of. destruct (resolve s tr) as [[sc li ma]|]; [|discriminate].
  destruct l as [|b|z|q|str|l1|m1]; destruct r as [|b2|z2|q2|str2|l2|m2];
    try (simpl in Hv; discriminate Hv); try (intros H; exact H).
  - destruct li as [t|]; [|discriminate]. destruct (rel_is_atomic (list_rel t)); [reflexivity|].
    destruct l1 as [|x l1]; [|discriminate]. destruct l2 as [|y l2]; [reflexivity|].
    simpl in Hv. discriminate Hv.
  - destruct ma as [t|]; [|discriminate]. destruct (rel_is_atomic (map_rel t)); [reflexivity|].
    destruct m1 as [|x m1]; [|discriminate]. destruct m2 as [|y m2]; [reflexivity|].
    simpl in Hv. discriminate Hv.
Qed.

Section RDV.
  Variables (s : schema) (R : typeref -> Prop).
  Hypothesis Hok : schema_ok s R.
  Hypothesis Hfam : family_refs s R.

  Theorem ref_diff_fuel_veqb : forall f q tr l r, R tr ->
    wf_value l = true -> wf_value r = true ->
    conforms s tr true l = true -> conforms s tr true r = true ->
    veqb l r = true ->
    ref_diff_fuel f s tr q l r = rd_empty.
  Proof.
    induction f as [|f IHf]; intros q tr l r Htr Hl Hr Cl Cr Hv; [reflexivity|].
    rewrite ref_diff_fuel_S. unfold ref_body.
    destruct (conf_resolve s tr true l Cl) as [a Hres].
    destruct (kind_of s tr l) as [|t lm|t ll|] eqn:Kl.
    - rewrite (kind_leaf_veqb s tr l r Hv Kl). rewrite (veqb_sym r l Hr Hl), Hv. reflexivity.
    - (* two maps *)
      destruct (kind_map_inv _ _ _ _ _ Kl) as (a0 & Hr0 & Ham & Hva & Hna & Hne). subst l.
      destruct r as [| | | | |l2|m2]; try (simpl in Hv; discriminate Hv).
      destruct (veqb_map_facts lm m2 Hl Hr Hv) as [Hkeys Hget].
      assert (Hne2 : m2 <> []).
      { intros ->. destruct lm; [congruence|discriminate]. }
      assert (Kr : kind_of s tr (VMap m2) = KMap t m2).
      { unfold kind_of. rewrite Hr0. destruct a0 as [sc li ma]. simpl in Ham. subst ma.
        rewrite Hna. destruct m2; [congruence|reflexivity]. }
      rewrite Kr.
      destruct (map_side s R Hok tr a (VMap lm) t lm Htr Hres Hl Cl Kl) as [_ Hcl].
      destruct (map_side s R Hok tr a (VMap m2) t m2 Htr Hres Hr Cr Kr) as [_ Hcr].
      unfold rd_maps. apply fold_rd_empty. intros k _. unfold rd_map_G.
      destruct (assoc_get k lm) as [x|] eqn:E1.
      + destruct (Hget k x E1) as (y & E2 & Hxy). rewrite E2.
        destruct (Hcl k x E1) as (A1 & A2 & A3 & _). destruct (Hcr k y E2) as (_ & B2 & B3 & _).
        apply IHf; auto.
      + destruct (assoc_get k m2) as [y|] eqn:E2; [|reflexivity]. exfalso.
        pose proof (assoc_get_some_key m2 k y E2) as Hin. rewrite <- Hkeys in Hin.
        destruct (assoc_get_In_keys lm k Hin) as (x & Ex). congruence.
    - (* two lists *)
      destruct (kind_list_inv _ _ _ _ _ Kl) as (a0 & Hr0 & Hal & Hva & Hna & Hne). subst l.
      destruct r as [| | | | |l2|m2]; try (simpl in Hv; discriminate Hv).
      pose proof Hv as Hv2. rewrite veqb_list in Hv2. apply all2b_F2 in Hv2.
      assert (Hne2 : l2 <> []).
      { intros ->. inversion Hv2; subst. congruence. }
      assert (Kr : kind_of s tr (VList l2) = KList t l2).
      { unfold kind_of. rewrite Hr0. destruct a0 as [sc li ma]. simpl in Hal. subst li.
        rewrite Hna. destruct l2; [congruence|reflexivity]. }
      rewrite Kr.
      destruct (list_side s R Hok Hfam tr a (VList ll) t ll Htr Hres Hl Cl Kl)
        as (Hat & Hiwl & Hhl & (gl & Hgl) & Hcl).
      destruct (list_side s R Hok Hfam tr a (VList l2) t l2 Htr Hres Hr Cr Kr)
        as (_ & Hiwr & Hhr & (gr & Hgr) & Hcr).
      assert (Hte : R (list_elem t)) by (eapply (so_list s R Hok); eauto).
      unfold rd_lists. rewrite Hgl, Hgr.
      destruct (group_items_some s t ll gl Hiwl Hgl) as (_ & Wl & Lkl).
      destruct (group_items_some s t l2 gr Hiwr Hgr) as (_ & Wr & Lkr).
      apply fold_rd_empty. intros e Hin.
      assert (He : wf_pe e = true).
      { unfold rd_all in Hin. apply in_app_iff in Hin.
        unfold reps_wf in Wl, Wr. rewrite Forall_forall in Wl, Wr.
        destruct Hin as [Hin|Hin]; apply in_map_iff in Hin; destruct Hin as (ex & E & Hin); subst e.
        - apply (Wl ex Hin).
        - apply filter_In in Hin. apply (Wr ex (proj1 Hin)). }
      unfold rd_list_G. rewrite (Lkl e He), (Lkr e He).
      assert (Hocc : Forall2 (fun x y => veqb x y = true) (occ s t e ll) (occ s t e l2)).
      { unfold occ. apply F2_filter; [exact Hv2|]. intros x y Hx Hy Hxy.
        rewrite forallb_forall in Hhl, Hhr.
        pose proof (Hhl x Hx) as H1. pose proof (Hhr y Hy) as H2. unfold has_pe in H1, H2.
        unfold pe_matches.
        destruct (list_item_to_pe s t x) as [ex|] eqn:Ex; [|discriminate].
        destruct (list_item_to_pe s t y) as [ey|] eqn:Ey; [|discriminate].
        pose proof (item_pe_veqb s t x y ex ey (elem_defaults_R s R Hok t Hte)
                      (wf_value_list_in ll x Hl Hx) (wf_value_list_in l2 y Hr Hy) Hxy Ex Ey) as Heq.
        apply peeqb_cong_l; auto; [apply (Hiwl x ex Hx Ex)|apply (Hiwr y ey Hy Ey)]. }
      destruct (occ s t e ll) as [|x [|x' more]] eqn:Eo1;
        destruct (occ s t e l2) as [|y [|y' more2]] eqn:Eo2;
        try (inversion Hocc; fail);
        try (inversion Hocc as [|? ? ? ? _ Hbad]; inversion Hbad; fail).
      + reflexivity.
      + inversion Hocc as [|? ? ? ? Hxy _]; subst.
        assert (Hx : In x (occ s t e ll)) by (rewrite Eo1; left; reflexivity).
        assert (Hy : In y (occ s t e l2)) by (rewrite Eo2; left; reflexivity).
        apply occ_In in Hx. apply occ_In in Hy. destruct Hx as [Hx _]. destruct Hy as [Hy _].
        destruct (Hcl x Hx) as (A1 & A2 & A3 & _). destruct (Hcr y Hy) as (_ & B2 & B3 & _).
        apply IHf; auto.
      + rewrite (values_eqb_dup_F2 _ _ Hocc). reflexivity.
    - destruct (kind_of s tr r); reflexivity.
  Qed.

  Corollary ref_diff_veqb : forall tr l r, R tr ->
    wf_value l = true -> wf_value r = true ->
    conforms s tr true l = true -> conforms s tr true r = true ->
    veqb l r = true ->
    ref_diff s tr l r = rd_empty.
  Proof. intros tr l r Htr Hl Hr Cl Cr Hv. unfold ref_diff. apply ref_diff_fuel_veqb; auto. Qed.

  Corollary ref_diff_same : forall tr l, R tr -> wf_value l = true -> conforms s tr true l = true ->
    ref_diff s tr l l = rd_empty.
  Proof. intros tr l Htr Hl Cl. apply ref_diff_veqb; auto. apply veqb_refl. exact Hl. Qed.

  (* the comparison of equal objects reports nothing *)
  Corollary compare_veqb_quiet : lists_pure s R -> forall tr l r c, R tr ->
    wf_value l = true -> wf_value r = true ->
    conforms s tr true l = true -> conforms s tr true r = true ->
    veqb l r = true -> compare s tr l r = Some c ->
    forall p, wf_path p = true -> p <> [] ->
      ps_has p (removed c) = false /\ ps_has p (modified c) = false /\ ps_has p (added c) = false.
  Proof.
    intros Hpure tr l r c Htr Hl Hr Cl Cr Hv Hc p Hp Hne.
    destruct (compare_refines_ref_diff_restricted s R tr l r c Hok Hfam Hpure Htr Hl Hr Cl Cr Hc p Hp Hne)
      as (E1 & E2 & E3).
    rewrite (ref_diff_veqb tr l r Htr Hl Hr Cl Cr Hv) in E1, E2, E3.
    cbn in E1, E2, E3. auto.
  Qed.
End RDV.

