(* C14, partition: what a set S of leaf paths of an object's field set (key fields of list
   members excluded) is for the object, and the removal clause.
     - [sel_leafy]: every member of S designates a single leaf node of the object;
     - [sel_guarded], [sel_nice]: S is a nice removal set (Proofs/RemoveFrame.v);
     - [remove_part]: removing S leaves no member of S and keeps every other leaf. *)
From Coq Require Import List ZArith String Bool Arith Lia.
From SMD Require Import Model.Value Model.Order Model.PathElem Model.PathSet Model.Schema Model.Walk
  Model.Validate Model.FieldSet Model.Remove
  Spec.PathsAsSets Spec.RefValid Spec.Resolve Spec.Agree
  Proofs.OrderLaws Proofs.KeyLaws Proofs.PathSetLaws Proofs.ValidateLaws Proofs.SchemaOk
  Proofs.FieldSetMirrors Proofs.FieldSetBase Proofs.FieldSetShape Proofs.FieldSetPaths
  Proofs.FieldSetLaws Proofs.RemoveBase Proofs.ExtractBase Proofs.ExtractLaws Proofs.RemoveAbsent
  Proofs.RemoveWf Proofs.ResolveLaws Proofs.ReconcileBase Proofs.RemoveFrame Proofs.RemoveMono
  Proofs.EnLaws Proofs.NodeSet Proofs.KeyFields Proofs.TreeFacts.
From SMD Require Proofs.MergeBase Proofs.MergeAgree Proofs.ApplyEffect.
Import ListNotations.
Open Scope bool_scope.
Open Scope list_scope.

Local Arguments ps_has : simpl never.
Local Arguments ps_with_prefix : simpl never.
Local Arguments ps_empty : simpl never.

(* every member designates a single leaf node *)
Definition sel_leaves (s : schema) (tr : typeref) (v : value) (T : pset) : Prop :=
  forall p, wf_path p = true -> ps_has p T = true ->
    exists tr' x, resolve_path s tr v p = Some (RNode tr' x) /\ leafy s tr' x.

(* no member is a key field of a list member *)
Definition no_key_field (T : pset) : Prop :=
  forall p, wf_path p = true -> ps_has p T = true ->
    forall pre fl k, p = pre ++ [PEKey fl; PEField k] -> ~ In k (map fst fl).

Section PartBase.
  Variables (s : schema) (R : typeref -> Prop).
  Hypothesis Hok : schema_ok s R.
  Hypothesis Hfam : family_refs s R.
  Hypothesis Hnd : keys_nodefault s R.
  Hypothesis Hks : keys_scalar s R.

  Lemma sel_sub_present : forall tr v T, sel_leaves s tr v T -> sub_present s tr v T.
  Proof.
    intros tr v T Hsel p Hp Hhas. destruct (Hsel p Hp Hhas) as (tr' & x & Hres & _).
    unfold present. rewrite Hres. reflexivity.
  Qed.

  (* a leaf of the field set of a plain object designates a leaf node *)
  Lemma fs_leaf_leafy : forall tr v fs p, R tr -> wf_value v = true ->
    conforms s tr false v = true -> plain v = true ->
    to_field_set s tr v = Some fs -> wf_path p = true -> ps_has p (ps_leaves fs) = true ->
    exists tr' x, resolve_path s tr v p = Some (RNode tr' x) /\ leafy s tr' x.
  Proof.
    intros tr v fs p Htr Hwf Hc Hpl Hfs Hp Hhas.
    pose proof (MergeBase.conforms_dup_mono s v tr Hc) as Hc'.
    destruct (to_field_set_ok_family s R tr v Hok Htr Hfam Hwf Hc') as (fs' & Hfs' & Hfsok).
    rewrite Hfs in Hfs'. inversion Hfs'; subst fs'. clear Hfs'.
    destruct (ps_leaves_spec fs Hfsok) as [_ Hlv]. rewrite (Hlv p Hp) in Hhas.
    apply andb_true_iff in Hhas. destruct Hhas as [Hin Hnone]. apply negb_true_iff in Hnone.
    assert (Hne : p <> []) by (intros ->; rewrite ps_has_nil in Hin; discriminate).
    pose proof (field_set_paths_resolve s R tr v fs p Hok Htr Hfam Hwf Hc' Hfs Hp Hin) as Hpr.
    unfold present in Hpr.
    destruct (resolve_path s tr v p) as [[tr' x|tr' xs]|] eqn:Eres; [|exfalso|discriminate].
    2:{ exact (conforms_no_dup s R Hok Hfam p v tr tr' xs Htr Hwf Hc Hp Eres). }
    exists tr', x. split; [reflexivity|].
    destruct (leafy_or_granular s tr' x) as [Hl|Hg]; [exact Hl|]. exfalso.
    destruct (resolve_sub s R Hok Hfam p v tr false tr' x Htr Hwf Hc Hp Eres) as (Htr' & Hwx & Hcx).
    pose proof (ApplyEffect.plain_sub s R Hok p v tr tr' x Htr Hwf Hp Hpl Eres) as Hplx.
    destruct (plain_visible_value s R Hok Hfam x tr' Htr' Hwx Hcx Hplx)
      as (r & tr'' & y & Hr & Hresr & Hly & Hyne).
    assert (Hrne : r <> []).
    { intros ->. simpl in Hresr. inversion Hresr; subst tr'' y.
      unfold leafy in Hly. unfold granular in Hg. destruct (kind_of s tr' x); contradiction. }
    assert (Hpr' : wf_path (p ++ r) = true) by (apply wf_path_app; auto).
    assert (Hres' : resolve_path s tr v (p ++ r) = Some (RNode tr'' y)).
    { rewrite resolve_path_app, Eres. exact Hresr. }
    assert (Hprne : p ++ r <> []) by (intros E; apply app_eq_nil in E; destruct E; congruence).
    pose proof (fsp_leaf_mem s R Hok Hfam (p ++ r) v tr tr'' y Htr Hwf Hc' Hpr' Hprne Hres' Hly Hyne) as Hmem.
    rewrite to_field_set_eq in Hfs. destruct (fse s tr v); [discriminate|]. inversion Hfs; subst fs.
    rewrite <- (fs_has s R Hok tr v (p ++ r) Htr Hwf Hpr' Hprne) in Hmem.
    rewrite (ps_has_elems _ (p ++ r) Hfsok Hpr') in Hmem.
    unfold pmem in Hmem. apply existsb_exists in Hmem. destruct Hmem as (q & Hq & Heq).
    assert (Hwq : wf_path q = true).
    { pose proof (ps_elems_wf _ Hfsok) as Hall. rewrite forallb_forall in Hall. auto. }
    assert (Hpp : proper_prefix p q = true).
    { rewrite <- (proper_prefix_cong p (p ++ r) q Hp Hpr' Hwq Heq). unfold proper_prefix.
      rewrite (is_prefix_app p r Hp). rewrite app_length. simpl.
      destruct r as [|r0 r']; [congruence|]. simpl.
      replace (Nat.eqb (List.length p) (List.length p + S (List.length r'))) with false; [reflexivity|].
      symmetry. apply Nat.eqb_neq. lia. }
    assert (existsb (fun q0 => proper_prefix p q0) (ps_elems (ps_of_paths (fsp s tr v))) = true).
    { apply existsb_exists. exists q. auto. }
    congruence.
  Qed.

  Section Sel.
    Variables (tr : typeref) (v : value) (S : pset).
    Hypothesis Htr : R tr.
    Hypothesis Hwf : wf_value v = true.
    Hypothesis Hc : conforms s tr false v = true.
    Hypothesis HS : ps_ok S = true.
    Hypothesis Hsel : sel_leaves s tr v S.
    Hypothesis Hnk : no_key_field S.

    Lemma sel_guarded : keys_guarded S.
    Proof.
      intros pre fl k rest Hp Hk Hhas. exfalso.
      pose proof (sel_sub_present tr v S Hsel _ Hp Hhas) as Hpr.
      destruct (key_field_leaf s R Hok Hfam Hks pre fl k rest v tr false Htr Hwf Hc Hp Hk Hpr)
        as [-> _].
      apply (Hnk _ Hp Hhas pre fl k eq_refl Hk).
    Qed.

    Lemma sel_nice : nice s tr v S.
    Proof.
      apply (sub_present_nice s R Hok Hfam v tr false S Htr Hwf Hc HS sel_guarded).
      apply sel_sub_present. exact Hsel.
    Qed.

    (* 1a: no member of S is left *)
    Lemma remove_part_drops : forall p, wf_path p = true -> ps_has p S = true ->
      present s tr (remove s tr v S) p = false.
    Proof.
      intros p Hp Hhas. unfold remove.
      apply (remove_drops s R Hok Hfam Hnd p v tr false S Htr Hwf Hc sel_nice Hp).
      apply touches_self; auto.
    Qed.

    Lemma not_touched : forall p, wf_path p = true ->
      (forall q, ps_has q S = true -> is_prefix q p = false) -> touches p S = false.
    Proof.
      intros p Hp Hno. destruct (touches p S) eqn:Et; [|reflexivity]. exfalso.
      apply (touches_iff p S HS Hp) in Et. destruct Et as (n & Hn & Hhas).
      pose proof (Hno _ Hhas) as Hf. rewrite (is_prefix_firstn n p Hp) in Hf. discriminate.
    Qed.

    (* 1b: every node of v that S does not touch designates the same thing afterwards *)
    Lemma remove_part_keeps : forall p n, wf_path p = true -> p <> [] ->
      resolve_path s tr v p = Some n -> rnode_is_leaf s n = true -> touches p S = false ->
      has_leaf s tr (remove s tr v S) p n = true.
    Proof.
      intros p n Hp Hne Hres Hleaf Hto. unfold remove.
      destruct (remove_keeps s R Hok Hfam Hnd p v tr false S n Htr Hwf Hc sel_nice Hp Hne Hres Hto)
        as (n' & Hres' & Hsame).
      rewrite (Hsame (or_introl (sel_sub_present tr v S Hsel)) Hleaf) in Hres'.
      apply (MergeAgree.has_leaf_refl s R Hok tr _ p n Htr); auto.
      apply remove_items_wf. exact Hwf.
    Qed.
  End Sel.
End PartBase.
