(* C07: the no-op signal.  Apply under ReturnInputOnNoop computes the same object and
   ownership; only the final test differs. *)
From Coq Require Import List ZArith String Bool.
From SMD Require Import Model.Value Model.Order Model.PathSet Model.Updater.
Import ListNotations.

Definition with_return_input (c : config) : config :=
  mkConfig (cfg_schema c) (cfg_convert c) (cfg_ignored_fields c) (cfg_ignore_filter c) true (cfg_version_order c).

Lemma add_back_rounds_rio : forall fuel c mav vs n m p prev,
  add_back_rounds fuel (with_return_input c) mav vs n m p prev = add_back_rounds fuel c mav vs n m p prev.
Proof.
  induction fuel as [|fuel IH]; intros c mav vs n m p prev; [reflexivity|].
  simpl.
  change (add_back_round (with_return_input c) mav vs n m p) with (add_back_round c mav vs n m p).
  destruct (add_back_round c mav vs n m p) as [[[[m' p'] ch] n']|e]; [|reflexivity].
  rewrite IH. reflexivity.
Qed.

Lemma prune_rio : forall c n merged mf mgr last,
  prune (with_return_input c) n merged mf mgr last = prune c n merged mf mgr last.
Proof.
  intros c n merged mf mgr last. unfold prune.
  destruct last as [last|]; [|reflexivity].
  destruct (ps_empty (mr_set last)); [reflexivity|].
  change (convert (with_return_input c)) with (convert c).
  destruct (convert c n merged (mr_ver last)) as [r1 n1].
  destruct r1 as [mv| |]; try reflexivity.
  change (remove_tv (with_return_input c)) with (remove_tv c).
  change (en (with_return_input c)) with (en c).
  unfold add_back_owned.
  change (cfg_version_order (with_return_input c)) with (cfg_version_order c).
  rewrite add_back_rounds_rio.
  reflexivity.
Qed.

Theorem noop_signal_exact : forall c live cfg ver mf mgr force o mf',
  cfg_return_input_on_noop c = false ->
  apply_op c live cfg ver mf mgr force = UOk (o, mf') ->
  exists pruned,
    apply_op (with_return_input c) live cfg ver mf mgr force = UOk (Some pruned, mf') /\
    (o = None <-> veqb (snd live) (snd pruned) = true) /\
    (o <> None -> o = Some pruned).
Proof.
  intros c live cfg ver mf mgr force o mf' Hflag H.
  unfold apply_op in *. simpl.
  change (cfg_schema (with_return_input c)) with (cfg_schema c) in *.
  destruct (reconcile_managed c 0 live mf) as [[mf0 n0]|e] eqn:Hrec.
  2: discriminate.
  assert (Hrec' : reconcile_managed (with_return_input c) 0 live mf = UOk (mf0, n0)) by exact Hrec.
  rewrite Hrec'.
  unfold schema_of, tr_of in *. simpl.
  destruct (Merge.merge (fst (cfg_schema c (fst live))) (snd (cfg_schema c (fst live))) (snd live) (snd cfg)) as [[nv|]|]; try discriminate.
  unfold to_fs, schema_of, tr_of in *. simpl.
  destruct (FieldSet.to_field_set (fst (cfg_schema c (fst cfg))) (snd (cfg_schema c (fst cfg))) (snd cfg)) as [set0|]; try discriminate.
  change (ignore_filter_for (with_return_input c) ver) with (ignore_filter_for c ver).
  destruct (ignore_filter_for c ver) as [f|]; try discriminate.
  rewrite prune_rio.
  destruct (prune c n0 (fst live, nv) (mf_set mgr {| mr_set := set0; mr_ver := ver; mr_applied := true |} mf0) mgr (mf_get mgr mf0)) as [[pruned n1]|e]; try discriminate.
  change (update_core (with_return_input c)) with (update_core c).
  destruct (update_core c n1 live pruned ver (mf_set mgr {| mr_set := filter_set f set0; mr_ver := ver; mr_applied := true |} mf0) mgr force) as [[[mf2 cmp] n2]|e]; try discriminate.
  rewrite Hflag in H. simpl in H.
  exists pruned.
  destruct (veqb (snd live) (snd pruned)) eqn:Heq; inversion H; subst; simpl.
  - split; [reflexivity|]. split; [tauto|]. intros Hn; exfalso; apply Hn; reflexivity.
  - split; [reflexivity|]. split; [split; discriminate|]. intros _; reflexivity.
Qed.
