(* Serialisation laws, part 1: top-level mirrors of the nested loops of Model/Serialize.v,
   and the effect of one parsing step on a well-formed state. *)
From Coq Require Import List ZArith String Bool Arith Lia Permutation.
From SMD Require Import Base.Search Model.Value Model.Order Model.PathElem Model.PathSet Model.Serialize
  Spec.PathsAsSets Proofs.OrderLaws Proofs.SearchLaws Proofs.KeyLaws Proofs.PesLaws Proofs.TrieBase.
Import ListNotations.
Open Scope bool_scope.

(* ---------- induction on trees ---------- *)
Section jtree_ind'.
  Variable P : jtree -> Prop.
  Hypothesis H : forall ms, Forall (fun km => P (snd km)) ms -> P (JObj ms).
  Fixpoint jtree_ind' (t : jtree) : P t :=
    match t with
    | JObj ms =>
        H ms ((fix go (l : list (jkey * jtree)) : Forall (fun km => P (snd km)) l :=
                 match l with
                 | [] => Forall_nil _
                 | km :: r => Forall_cons _ (jtree_ind' (snd km)) (go r)
                 end) ms)
    end.
End jtree_ind'.

(* ---------- emit ---------- *)
Section EmitList.
  Variable T : Type.
  Variable f : bool -> pset -> T.
  Variable leaf : T.
  Fixpoint emit_list (cs : list (pe * pset)) : pes -> list (jkey * T) :=
    fix go (ms : pes) : list (jkey * T) :=
      match ms, cs with
      | [], [] => []
      | m :: ms', [] => (JPe m, leaf) :: go ms'
      | [], (c, sub) :: cs' => (JPe c, f false sub) :: emit_list cs' []
      | m :: ms', (c, sub) :: cs' =>
          match pecmp m c with
          | Lt => (JPe m, leaf) :: go ms'
          | Gt => (JPe c, f false sub) :: emit_list cs' ms
          | Eq => (JPe c, f true sub) :: emit_list cs' ms'
          end
      end.

  Lemma emit_list_nil_nil : emit_list [] [] = [].
  Proof. reflexivity. Qed.
  Lemma emit_list_m_nil : forall m ms, emit_list [] (m :: ms) = (JPe m, leaf) :: emit_list [] ms.
  Proof. reflexivity. Qed.
  Lemma emit_list_nil_c : forall c sub cs,
    emit_list ((c, sub) :: cs) [] = (JPe c, f false sub) :: emit_list cs [].
  Proof. reflexivity. Qed.
  Lemma emit_list_cons : forall m ms c sub cs,
    emit_list ((c, sub) :: cs) (m :: ms) =
      match pecmp m c with
      | Lt => (JPe m, leaf) :: emit_list ((c, sub) :: cs) ms
      | Gt => (JPe c, f false sub) :: emit_list cs (m :: ms)
      | Eq => (JPe c, f true sub) :: emit_list cs ms
      end.
  Proof. reflexivity. Qed.
End EmitList.
Arguments emit_list {T} f leaf cs ms.

Definition is_nilnil (ms : pes) (cs : list (pe * pset)) : bool :=
  match ms, cs with [], [] => true | _, _ => false end.

Definition self_part (b : bool) (ms : pes) (cs : list (pe * pset)) : list (jkey * jtree) :=
  if b && negb (is_nilnil ms cs) then [(JSelf, JObj [])] else [].

Lemma emit_unfold : forall b ms cs,
  emit b (PSet ms cs) = JObj (self_part b ms cs ++ emit_list emit (JObj []) cs ms).
Proof. reflexivity. Qed.

(* ---------- parse ---------- *)
Definition pres : Type := (option pset * bool * bool)%type.

Definition norm (o : option pset) : pset := match o with Some c => c | None => ps_empty_set end.

Definition add_member (e : pe) (children : option pset) : option pset :=
  let cur := norm children in
  let m := ps_members cur in
  let appendOK := match last_pe m with None => true | Some x => peless x e end in
  Some (PSet (if appendOK then m ++ [e] else pes_insert e m) (ps_children cur)).

Definition add_child (e : pe) (g : pset) (c1 : option pset) : option pset :=
  let cur := norm c1 in
  let cs := ps_children cur in
  let appendOK := match last_child cs with None => true | Some x => peless x e end in
  Some (PSet (ps_members cur) (if appendOK then cs ++ [(e, g)] else set_child e g cs)).

Definition pstep (e : pe) (grand : option pset) (cim : bool) (children : option pset) : option pset :=
  let c1 := if cim then add_member e children else children in
  match grand with Some g => add_child e g c1 | None => c1 end.

Fixpoint parse_go (l : list (jkey * jtree)) (children : option pset) (isMember err : bool)
  {struct l} : pres :=
  match l with
  | [] => (children, isMember, err)
  | (k, sub) :: rest =>
      if err then (children, isMember, err) else
      match k with
      | JSelf => parse_go rest children true err
      | JUnknown => parse_go rest children isMember err
      | JBad => parse_go rest children isMember true
      | JPe e =>
          let '(grand, cim, err') := parse sub in
          parse_go rest (pstep e grand cim children) isMember (err || err')
      end
  end.

Definition finish (r : pres) : pres :=
  let '(children, isMember, err) := r in
  (children, match children with None => true | Some _ => isMember end, err).

Lemma parse_unfold : forall l, parse (JObj l) = finish (parse_go l None false false).
Proof. reflexivity. Qed.

(* the loop over abstract actions: a key with the result of parsing its subtree *)
Fixpoint run (l : list (jkey * pres)) (children : option pset) (isMember err : bool)
  {struct l} : pres :=
  match l with
  | [] => (children, isMember, err)
  | (k, r) :: rest =>
      if err then (children, isMember, err) else
      match k with
      | JSelf => run rest children true err
      | JUnknown => run rest children isMember err
      | JBad => run rest children isMember true
      | JPe e =>
          let '(grand, cim, err') := r in
          run rest (pstep e grand cim children) isMember (err || err')
      end
  end.

Definition act_of (km : jkey * jtree) : jkey * pres := (fst km, parse (snd km)).

Lemma parse_go_run : forall l c i e, parse_go l c i e = run (map act_of l) c i e.
Proof.
  induction l as [|[k sub] rest IH]; intros c i e; [reflexivity|].
  cbn [parse_go map run act_of fst snd]. destruct e; [reflexivity|].
  destruct k; try apply IH.
  destruct (parse sub) as [[grand cim] err']. apply IH.
Qed.

Lemma parse_run : forall l, parse (JObj l) = finish (run (map act_of l) None false false).
Proof. intros l. rewrite parse_unfold, parse_go_run. reflexivity. Qed.

Lemma run_err : forall l c i, run l c i true = (c, i, true).
Proof. intros [|[k r] rest] c i; reflexivity. Qed.

(* ---------- last elements ---------- *)
Lemma last_pe_nil : forall l, last_pe l = None -> l = [].
Proof.
  intros l H. unfold last_pe in H. destruct (rev l) eqn:E; [|discriminate].
  rewrite <- (rev_involutive l), E. reflexivity.
Qed.

Lemma last_pe_Some : forall l x, last_pe l = Some x -> exists l', l = l' ++ [x].
Proof.
  intros l x H. unfold last_pe in H. destruct (rev l) as [|y r] eqn:E; [discriminate|].
  inversion H; subst. exists (rev r). rewrite <- (rev_involutive l), E. reflexivity.
Qed.

Lemma last_child_nil : forall l, last_child l = None -> l = [].
Proof.
  intros l H. unfold last_child in H. destruct (rev l) as [|[y s] r] eqn:E; [|discriminate].
  rewrite <- (rev_involutive l), E. reflexivity.
Qed.

Lemma last_child_Some : forall l x, last_child l = Some x -> exists l' s, l = l' ++ [(x, s)].
Proof.
  intros l x H. unfold last_child in H. destruct (rev l) as [|[y s] r] eqn:E; [discriminate|].
  inversion H; subst. exists (rev r), s. rewrite <- (rev_involutive l), E. reflexivity.
Qed.

Lemma last_pe_app : forall l x, last_pe (l ++ [x]) = Some x.
Proof. intros l x. unfold last_pe. rewrite rev_unit. reflexivity. Qed.

Lemma last_child_app : forall l x s, last_child (l ++ [(x, s)]) = Some x.
Proof. intros l x s. unfold last_child. rewrite rev_unit. reflexivity. Qed.

Section Last.
  Context {A : Type}.
  Variable key : A -> pe.

  (* in a sorted list, everything is below whatever is above the last element *)
  Lemma ksorted_last_below : forall l x e, ksorted key (l ++ [x]) -> pecmp (key x) e = Lt ->
    Forall (fun a => pecmp (key a) e = Lt) (l ++ [x]).
  Proof.
    intros l x e Hs Hx. apply ksorted_app in Hs. destruct Hs as (_ & _ & Hc).
    apply Forall_app. split; [|constructor; auto].
    rewrite Forall_forall in *. intros a Ha. specialize (Hc a Ha). inversion Hc; subst.
    apply (pecmp_trans_lt _ (key x)); auto.
  Qed.

  Lemma gloc_all_below : forall e l, ksorted key l -> Forall (fun a => pecmp (key a) e = Lt) l ->
    gloc key e l = List.length l.
  Proof.
    intros e l Hs Hb. destruct (gloc_split key e l Hs) as (Hn & _ & Hhi).
    apply (skipn_nil_iff _ _ l Hn).
    destruct (skipn (gloc key e l) l) as [|y t] eqn:Hsk; [reflexivity|].
    exfalso. inversion Hhi as [|? ? Hy _]; subst. apply Hy.
    rewrite Forall_forall in Hb. apply Hb.
    rewrite <- (firstn_skipn (gloc key e l) l), Hsk. apply in_or_app. simpl. auto.
  Qed.

  Lemma ksorted_snoc : forall l x, ksorted key l -> Forall (fun a => pecmp (key a) (key x) = Lt) l ->
    ksorted key (l ++ [x]).
  Proof.
    intros l x Hs Hb. apply ksorted_app. split; [auto|]. split; [simpl; split; [constructor|exact I]|].
    eapply Forall_impl; [|exact Hb]. intros a Ha. constructor; auto.
  Qed.
End Last.

Lemma pes_insert_append : forall e l, ksorted idk l -> Forall (fun a => pecmp a e = Lt) l ->
  pes_insert e l = l ++ [e].
Proof.
  intros e l Hs Hb. unfold pes_insert. rewrite pes_loc_gloc.
  rewrite (gloc_all_below idk e l Hs Hb), Nat.eqb_refl. reflexivity.
Qed.

Lemma pem_insert_append : forall (A : Type) e (v : A) l, ksorted fst l ->
  Forall (fun a => pecmp (fst a) e = Lt) l -> pem_insert e v l = l ++ [(e, v)].
Proof.
  intros A e v l Hs Hb. unfold pem_insert. rewrite pem_loc_gloc.
  rewrite (gloc_all_below fst e l Hs Hb).
  assert (Hn : nth_error l (List.length l) = None) by (apply nth_error_None; lia).
  rewrite Hn. reflexivity.
Qed.

(* ---------- one step, on a well-formed state: both paths are the insertion ---------- *)
Lemma add_member_ins : forall e m c, sorted_pes m = true ->
  add_member e (Some (PSet m c)) = Some (PSet (pes_insert e m) c).
Proof.
  intros e m c Hs. unfold add_member. cbn [norm ps_members ps_children].
  apply sorted_pes_iff in Hs.
  destruct (last_pe m) as [x|] eqn:El.
  - destruct (peless x e) eqn:Hx; [|reflexivity].
    destruct (last_pe_Some m x El) as [l' ->].
    rewrite pes_insert_append; auto.
    apply (ksorted_last_below idk); auto. apply peless_iff. exact Hx.
  - apply last_pe_nil in El. subst m. reflexivity.
Qed.

Lemma add_child_ins : forall e g m c, ksorted fst c ->
  add_child e g (Some (PSet m c)) = Some (PSet m (pem_insert e g c)).
Proof.
  intros e g m c Hs. unfold add_child, set_child. cbn [norm ps_members ps_children].
  destruct (last_child c) as [x|] eqn:El.
  - destruct (peless x e) eqn:Hx; [|reflexivity].
    destruct (last_child_Some c x El) as (l' & s & ->).
    rewrite pem_insert_append; auto.
    apply (ksorted_last_below fst); auto. apply peless_iff. exact Hx.
  - apply last_child_nil in El. subst c. reflexivity.
Qed.

Lemma add_member_norm : forall e st, add_member e st = add_member e (Some (norm st)).
Proof. intros e [c|]; reflexivity. Qed.
Lemma add_child_norm : forall e g st, add_child e g st = add_child e g (Some (norm st)).
Proof. intros e g [c|]; reflexivity. Qed.

(* well-formed state: the set so far is ok and, when present, not empty *)
Definition stok (st : option pset) : Prop :=
  ps_ok (norm st) = true /\ forall c, st = Some c -> ps_empty c = false.

Definition good_grand (grand : option pset) : Prop :=
  forall g, grand = Some g -> ps_ok g = true /\ ps_empty g = false.

Lemma stok_None : stok None.
Proof. split; [reflexivity|discriminate]. Qed.

Lemma pset_eta : forall s, s = PSet (ps_members s) (ps_children s).
Proof. intros [m c]; reflexivity. Qed.

Lemma add_member_ok : forall e st, stok st -> wf_pe e = true -> stok (add_member e st).
Proof.
  intros e st [Hok _] He. rewrite add_member_norm. destruct (norm st) as [m c].
  pose proof Hok as Hok'. apply ps_ok_PSet in Hok'. destruct Hok' as (H1 & H2 & H3 & H4).
  rewrite add_member_ins by auto. split.
  - cbn [norm]. apply ps_ok_PSet. destruct (pes_insert_sorted e m H1 H2 He). tauto.
  - intros c0 E. inversion E; subst. cbn [ps_empty].
    destruct (pes_insert e m) eqn:Ei; [|reflexivity]. exfalso. exact (pes_insert_nonempty e m Ei).
Qed.

Lemma add_child_ok : forall e g st, stok st -> wf_pe e = true -> ps_ok g = true -> ps_empty g = false ->
  stok (add_child e g st).
Proof.
  intros e g st [Hok _] He Hg Hne. rewrite add_child_norm. destruct (norm st) as [m c].
  pose proof Hok as Hok'. apply ps_ok_PSet in Hok'. destruct Hok' as (H1 & H2 & H3 & H4).
  rewrite add_child_ins by auto.
  destruct (pem_insert_facts _ e g c (proj2 (sorted_fst_iff _ c) H3) (cok_wfkeys c H4) He) as (Hs & Hw & _).
  split.
  - cbn [norm]. apply ps_ok_PSet. repeat split; auto.
    rewrite Forall_forall in *. intros a Ha. apply pem_insert_In in Ha.
    destruct Ha as [[Hv Hk]|Ha]; [|auto].
    destruct a as [k v]. simpl in *. subst v. split; [|split]; simpl; auto.
    destruct Hk as [->|Hk]; auto. apply in_map_iff in Hk. destruct Hk as (x & <- & Hx).
    apply (H4 x Hx).
  - intros c0 E. inversion E; subst. cbn [ps_empty].
    destruct m; [|reflexivity].
    destruct (pem_insert_has _ e g c) as [k Hk].
    destruct (forallb _ (pem_insert e g c)) eqn:Ef; [|reflexivity].
    rewrite forallb_forall in Ef. specialize (Ef _ Hk). simpl in Ef. congruence.
Qed.

Lemma pstep_ok : forall e grand cim st, stok st -> wf_pe e = true -> good_grand grand ->
  stok (pstep e grand cim st).
Proof.
  intros e grand cim st Hst He Hg. unfold pstep.
  assert (H1 : stok (if cim then add_member e st else st)).
  { destruct cim; auto. apply add_member_ok; auto. }
  destruct grand as [g|]; auto. destruct (Hg g eq_refl). apply add_child_ok; auto.
Qed.

(* ---------- membership after one step ---------- *)
Lemma add_member_has_one : forall e x st, stok st -> wf_pe e = true -> wf_pe x = true ->
  ps_has [x] (norm (add_member e st)) = peeqb x e || ps_has [x] (norm st).
Proof.
  intros e x st Hst He Hx. pose proof (add_member_ok e st Hst He) as [Hok' _].
  destruct Hst as [Hok _]. rewrite add_member_norm in *. destruct (norm st) as [m c].
  pose proof Hok as Hok2. apply ps_ok_PSet in Hok2. destruct Hok2 as (H1 & H2 & H3 & H4).
  rewrite add_member_ins in * by auto. cbn [norm] in *.
  rewrite !ps_has_one by auto. apply pes_insert_mem; auto.
Qed.

Lemma add_member_has_more : forall e x p0 p' st,
  ps_has (x :: p0 :: p') (norm (add_member e st)) = ps_has (x :: p0 :: p') (norm st).
Proof. intros e x p0 p' st. reflexivity. Qed.

Lemma add_child_has_one : forall e g x st,
  ps_has [x] (norm (add_child e g st)) = ps_has [x] (norm st).
Proof. intros e g x st. reflexivity. Qed.

Lemma add_child_has_more : forall e g x p0 p' st, stok st -> wf_pe e = true -> wf_pe x = true ->
  ps_ok g = true -> ps_empty g = false ->
  ps_has (x :: p0 :: p') (norm (add_child e g st)) =
    if peeqb x e then ps_has (p0 :: p') g else ps_has (x :: p0 :: p') (norm st).
Proof.
  intros e g x p0 p' st Hst He Hx Hg Hne. pose proof (add_child_ok e g st Hst He Hg Hne) as [Hok' _].
  destruct Hst as [Hok _]. rewrite add_child_norm in *. destruct (norm st) as [m c].
  pose proof Hok as Hok2. apply ps_ok_PSet in Hok2. destruct Hok2 as (H1 & H2 & H3 & H4).
  rewrite add_child_ins in * by auto. cbn [norm] in *.
  rewrite !ps_has_more by auto.
  destruct (pem_insert_facts _ e g c (proj2 (sorted_fst_iff _ c) H3) (cok_wfkeys c H4) He) as (_ & _ & Hl).
  rewrite (Hl x Hx). destruct (peeqb x e); [|reflexivity].
  unfold chas. rewrite gins_new_pem_snd. reflexivity.
Qed.

Lemma pstep_has_one : forall e grand cim x st, stok st -> wf_pe e = true -> wf_pe x = true ->
  ps_has [x] (norm (pstep e grand cim st)) = (cim && peeqb x e) || ps_has [x] (norm st).
Proof.
  intros e grand cim x st Hst He Hx. unfold pstep.
  assert (H : ps_has [x] (norm (if cim then add_member e st else st)) =
              (cim && peeqb x e) || ps_has [x] (norm st)).
  { destruct cim; [|reflexivity]. apply add_member_has_one; auto. }
  destruct grand as [g|]; auto.
Qed.

Lemma pstep_has_more : forall e grand cim x p0 p' st, stok st -> wf_pe e = true -> wf_pe x = true ->
  good_grand grand ->
  ps_has (x :: p0 :: p') (norm (pstep e grand cim st)) =
    match grand with
    | Some g => if peeqb x e then ps_has (p0 :: p') g else ps_has (x :: p0 :: p') (norm st)
    | None => ps_has (x :: p0 :: p') (norm st)
    end.
Proof.
  intros e grand cim x p0 p' st Hst He Hx Hg. unfold pstep.
  assert (H1 : stok (if cim then add_member e st else st)).
  { destruct cim; auto. apply add_member_ok; auto. }
  assert (H2 : ps_has (x :: p0 :: p') (norm (if cim then add_member e st else st)) =
               ps_has (x :: p0 :: p') (norm st)).
  { destruct cim; reflexivity. }
  destruct grand as [g|]; auto. destruct (Hg g eq_refl).
  rewrite add_child_has_more by auto. rewrite H2. reflexivity.
Qed.
