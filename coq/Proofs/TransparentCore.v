(* Helper of Proofs/Transparent.v, level 2: the stages of Apply / Update other than prune
   commute with relabelling the records, under the identity converter with one schema for
   every version label and no ignore configuration:
     - [relab_*]: relabelling commutes with the operations on record maps;
     - [update_core_labels]: update_core compares the two objects once per version label,
       every comparison is the same, so the conflicts, the removed sets and the records it
       returns do not depend on the labels (nor on the conversion counter);
     - [reconcile_labels]: the opening reconciliation. *)
From Coq Require Import List ZArith String Bool Arith Lia Permutation.
From SMD Require Import Model.Value Model.Order Model.PathElem Model.PathSet Model.Schema Model.Walk
  Model.Validate Model.FieldSet Model.Remove Model.Merge Model.Compare Model.Matcher Model.Reconcile
  Model.Updater
  Spec.PathsAsSets Spec.RefValid Spec.Resolve Spec.Agree Spec.RefDiff
  Proofs.OrderLaws Proofs.PathSetLaws Proofs.SchemaOk
  Proofs.EnLaws Proofs.UpdaterLaws Proofs.UpdaterLaws2 Proofs.ApplyEffect Proofs.TransparentPrune.
Import ListNotations.
Open Scope bool_scope.
Open Scope list_scope.

Local Arguments ps_has : simpl never.
Local Arguments ps_empty : simpl never.

(* ================= relabelling and the operations on record maps ================= *)

Lemma relab_fst : forall ver mf, map fst (relab ver mf) = map fst mf.
Proof. intros ver mf. unfold relab. rewrite map_map. reflexivity. Qed.

Lemma relab_cons : forall ver mr mf,
  relab ver (mr :: mf) = (fst mr, relab_rec ver (snd mr)) :: relab ver mf.
Proof. reflexivity. Qed.

Lemma relab_app : forall ver a b, relab ver (a ++ b) = relab ver a ++ relab ver b.
Proof. intros ver a b. unfold relab. apply map_app. Qed.

Lemma relab_get : forall ver m mf, mf_get m (relab ver mf) = option_map (relab_rec ver) (mf_get m mf).
Proof.
  intros ver m mf. unfold mf_get. induction mf as [|[k r] mf IH]; [reflexivity|].
  rewrite relab_cons. cbn [assoc_get fst snd]. destruct (String.eqb m k); [reflexivity|exact IH].
Qed.

Lemma relab_set : forall ver m r mf,
  relab ver (mf_set m r mf) = mf_set m (relab_rec ver r) (relab ver mf).
Proof.
  intros ver m r mf. unfold mf_set. induction mf as [|[k r0] mf IH]; [reflexivity|].
  rewrite relab_cons. cbn [assoc_set fst snd].
  destruct (String.compare m k); rewrite ?relab_cons; cbn [fst snd]; try reflexivity.
  rewrite IH. reflexivity.
Qed.

Lemma relab_del : forall ver m mf, relab ver (mf_del m mf) = mf_del m (relab ver mf).
Proof.
  intros ver m mf. unfold mf_del. induction mf as [|[k r0] mf IH]; [reflexivity|].
  rewrite relab_cons. cbn [assoc_remove fst snd].
  destruct (String.eqb m k); [reflexivity|]. rewrite relab_cons, IH. reflexivity.
Qed.

Lemma relab_filter_nonempty : forall ver mf,
  relab ver (filter nonempty_rec mf) = filter nonempty_rec (relab ver mf).
Proof.
  intros ver mf. induction mf as [|[k r] mf IH]; [reflexivity|].
  rewrite relab_cons. cbn [filter fst snd].
  assert (E : nonempty_rec (k, relab_rec ver r) = nonempty_rec (k, r)) by reflexivity.
  rewrite E. destruct (nonempty_rec (k, r)); [rewrite relab_cons, IH; reflexivity|exact IH].
Qed.

Lemma relab_usub : forall ver mf ms, relab ver (usub mf ms) = usub (relab ver mf) ms.
Proof.
  intros ver mf ms. unfold usub. rewrite relab_get.
  destruct (mf_get (fst ms) mf) as [r|]; [|reflexivity].
  cbn [option_map]. rewrite relab_set. reflexivity.
Qed.

Lemma relab_fold_usub : forall ver L mf,
  relab ver (fold_left usub L mf) = fold_left usub L (relab ver mf).
Proof.
  intros ver L. induction L as [|ms L IH]; intros mf; [reflexivity|].
  cbn [fold_left]. rewrite IH, relab_usub. reflexivity.
Qed.

Lemma relab_cgen : forall ver w cmp mf,
  flat_map (cgen w cmp) (relab ver mf) = flat_map (cgen w cmp) mf.
Proof.
  intros ver w cmp mf. induction mf as [|[k r] mf IH]; [reflexivity|].
  rewrite relab_cons. cbn [flat_map]. rewrite IH. reflexivity.
Qed.

Lemma relab_rgen : forall ver w cmp mf,
  flat_map (rgen w cmp) (relab ver mf) = flat_map (rgen w cmp) mf.
Proof.
  intros ver w cmp mf. induction mf as [|[k r] mf IH]; [reflexivity|].
  rewrite relab_cons. cbn [flat_map]. rewrite IH. reflexivity.
Qed.

Lemma relab_upost : forall ver mf vs vs' cs rs n n',
  relab ver (upost (mkUpd mf vs cs rs n)) = upost (mkUpd (relab ver mf) vs' cs rs n').
Proof.
  intros. unfold upost. cbn [us_managers us_conflicts us_removed].
  rewrite relab_filter_nonempty, !relab_fold_usub. reflexivity.
Qed.

Lemma sorted_keys_fst : forall (A B : Type) (l : list (string * A)) (l' : list (string * B)),
  map fst l = map fst l' -> sorted_keys l = sorted_keys l'.
Proof.
  intros A B l. induction l as [|[k a] l IH]; intros [|[k' b] l'] H; try discriminate; [reflexivity|].
  cbn [map fst] in H. inversion H as [[Hk Hl]]. subst k'.
  destruct l as [|[k1 a1] l1]; destruct l' as [|[k2 b2] l2]; try discriminate; [reflexivity|].
  cbn [map fst] in Hl. inversion Hl as [[Hk1 Hl1]]. subst k2.
  change (str_ltb k k1 && sorted_keys ((k1, a1) :: l1) = str_ltb k k1 && sorted_keys ((k1, b2) :: l2)).
  f_equal. apply IH. cbn [map fst]. rewrite Hl1. reflexivity.
Qed.

Lemma relab_mf_ok : forall ver mf, mf_ok (relab ver mf) <-> mf_ok mf.
Proof.
  intros ver mf. unfold mf_ok.
  rewrite (sorted_keys_fst _ _ (relab ver mf) mf (relab_fst ver mf)).
  assert (E : forallb (fun mr : string * mrec => ps_ok (mr_set (snd mr))) (relab ver mf) =
              forallb (fun mr : string * mrec => ps_ok (mr_set (snd mr))) mf).
  { unfold relab. rewrite forallb_map'. reflexivity. }
  rewrite E. tauto.
Qed.

Lemma relab_in : forall ver mr mf, In mr mf -> In (fst mr, relab_rec ver (snd mr)) (relab ver mf).
Proof. intros ver mr mf H. unfold relab. apply in_map_iff. exists mr. auto. Qed.

Lemma relab_single : forall ver mf, single_version ver (relab ver mf).
Proof.
  intros ver mf. unfold single_version, relab. rewrite forallb_map'. apply forallb_forall.
  intros mr _. cbn [snd mr_ver]. apply String.eqb_refl.
Qed.

Lemma relab_idem : forall ver mf, single_version ver mf -> relab ver mf = mf.
Proof.
  intros ver mf H. unfold single_version in H. induction mf as [|[k r] mf IH]; [reflexivity|].
  cbn [forallb] in H. apply andb_true_iff in H. destruct H as [Hv Hl].
  rewrite relab_cons, (IH Hl). cbn [fst snd] in *. apply String.eqb_eq in Hv.
  destruct r as [st v ap]. cbn in *. subst v. reflexivity.
Qed.

(* ================= update_core ================= *)

Lemma assoc_get_app : forall (A : Type) v (a b : list (string * A)),
  assoc_get v (a ++ b) = match assoc_get v a with Some y => Some y | None => assoc_get v b end.
Proof.
  intros A v a b. induction a as [|[k z] a IH]; [reflexivity|]. cbn [assoc_get app].
  destruct (String.eqb v k); [reflexivity|exact IH].
Qed.

Section UCore.
  Variables (c : config) (s : schema) (tr : typeref).
  Hypothesis Hcid : conv_id c.
  Hypothesis Hsch : forall v, cfg_schema c v = (s, tr).
  Hypothesis Hni : no_ignore c.

  Lemma compare_tv_any : forall a b, compare_tv c a b = compare s tr (snd a) (snd b).
  Proof. intros a b. unfold compare_tv, schema_of, tr_of. rewrite Hsch. reflexivity. Qed.

  Variables (old new : tv) (w : string) (cmp : comparison3).
  Hypothesis Hcmp : compare s tr (snd old) (snd new) = Some cmp.

  (* every comparison recorded so far is the one comparison *)
  Definition all_cmp (vs : list (string * comparison3)) : Prop :=
    forall v x, assoc_get v vs = Some x -> x = cmp.

  Lemma ustep_multi : forall mf0 vs cs rs n mr, all_cmp vs ->
    exists vs' n', all_cmp vs' /\
      ustep c old new w (UOk (mkUpd mf0 vs cs rs n)) mr =
      UOk (mkUpd mf0 vs' (cs ++ cgen w cmp mr) (rs ++ rgen w cmp mr) n').
  Proof.
    intros mf0 vs cs rs n mr Hall. unfold ustep, cgen, rgen.
    destruct (String.eqb (fst mr) w).
    - exists vs, n. split; [exact Hall|]. rewrite !app_nil_r. reflexivity.
    - cbn [us_versions us_n us_managers us_conflicts us_removed].
      destruct (assoc_get (mr_ver (snd mr)) vs) as [x|] eqn:Ex.
      + rewrite (Hall _ x Ex). exists vs, n. split; [exact Hall|].
        unfold with_cmp, cset. cbn [us_managers us_versions us_conflicts us_removed us_n].
        destruct (ps_empty (ps_inter (mr_set (snd mr)) (ps_union (modified cmp) (added cmp))));
          destruct (ps_empty (removed cmp)); rewrite ?app_nil_r; reflexivity.
      + rewrite !(convert_id c Hcid). cbn [snd].
        rewrite compare_tv_any. cbn [snd]. rewrite Hcmp.
        rewrite (no_ignore_filter c _ Hni), filter_cmp_none.
        exists (vs ++ [(mr_ver (snd mr), cmp)]), (S (S n)). split.
        * intros v x Hg. rewrite assoc_get_app in Hg. destruct (assoc_get v vs) as [y|] eqn:Ey.
          -- inversion Hg; subst y. apply (Hall v x Ey).
          -- cbn [assoc_get] in Hg. destruct (String.eqb v (mr_ver (snd mr))); [|discriminate].
             inversion Hg. reflexivity.
        * unfold with_cmp, cset. cbn [us_managers us_versions us_conflicts us_removed us_n].
          destruct (ps_empty (ps_inter (mr_set (snd mr)) (ps_union (modified cmp) (added cmp))));
            destruct (ps_empty (removed cmp)); rewrite ?app_nil_r; reflexivity.
  Qed.

  Lemma fold_multi : forall l mf0 vs cs rs n, all_cmp vs ->
    exists vs' n',
      fold_left (ustep c old new w) l (UOk (mkUpd mf0 vs cs rs n)) =
      UOk (mkUpd mf0 vs' (cs ++ flat_map (cgen w cmp) l) (rs ++ flat_map (rgen w cmp) l) n').
  Proof.
    induction l as [|a l IH]; intros mf0 vs cs rs n Hall.
    - exists vs, n. cbn [fold_left flat_map]. rewrite !app_nil_r. reflexivity.
    - cbn [fold_left flat_map].
      destruct (ustep_multi mf0 vs cs rs n a Hall) as (vs1 & n1 & Hall1 & E1). rewrite E1.
      destruct (IH mf0 vs1 (cs ++ cgen w cmp a) (rs ++ rgen w cmp a) n1 Hall1) as (vs2 & n2 & E2). rewrite E2.
      exists vs2, n2. rewrite <- !app_assoc. reflexivity.
  Qed.
End UCore.

(* the closed form: what update_core returns does not depend on the labels *)
Lemma update_core_closed : forall c s tr, conv_id c -> (forall v, cfg_schema c v = (s, tr)) ->
  no_ignore c ->
  forall n old new version mf w force,
    match compare s tr (snd old) (snd new) with
    | None => update_core c n old new version mf w force = UErr EOther
    | Some cmp =>
        exists vs' n',
          update_core c n old new version mf w force =
          ufinish cmp force (mkUpd mf vs' (flat_map (cgen w cmp) mf) (flat_map (rgen w cmp) mf) n')
    end.
Proof.
  intros c s tr Hcid Hsch Hni n old new version mf w force.
  rewrite update_core_unfold, (compare_tv_any c s tr Hsch).
  destruct (compare s tr (snd old) (snd new)) as [cmp|] eqn:Hcmp; [|reflexivity].
  rewrite (no_ignore_filter c version Hni), filter_cmp_none. unfold ufold.
  destruct (fold_multi c s tr Hcid Hsch Hni old new w cmp Hcmp mf mf [(version, cmp)] [] [] n)
    as (vs' & n' & E).
  { intros v x Hg. cbn [assoc_get] in Hg. destruct (String.eqb v version); [|discriminate].
    inversion Hg. reflexivity. }
  rewrite E. exists vs', n'. reflexivity.
Qed.

(* outcomes of two runs that differ in labels only *)
Definition same_outcome3 (ver : string) (a b : ures (managed * comparison3 * nat)) : Prop :=
  match a, b with
  | UOk (mfa, ca, _), UOk (mfb, cb, _) => relab ver mfa = mfb /\ ca = cb
  | UErr ea, UErr eb => ea = eb
  | _, _ => False
  end.

Theorem update_core_labels : forall c s tr ver, conv_id c -> (forall v, cfg_schema c v = (s, tr)) ->
  no_ignore c ->
  forall n n' lo lo' x ln ln' y version version' mf w force,
    same_outcome3 ver (update_core c n (lo, x) (ln, y) version mf w force)
                      (update_core c n' (lo', x) (ln', y) version' (relab ver mf) w force).
Proof.
  intros c s tr ver Hcid Hsch Hni n n' lo lo' x ln ln' y version version' mf w force.
  pose proof (update_core_closed c s tr Hcid Hsch Hni n (lo, x) (ln, y) version mf w force) as A.
  pose proof (update_core_closed c s tr Hcid Hsch Hni n' (lo', x) (ln', y) version' (relab ver mf) w force) as B.
  cbn [snd] in A, B.
  destruct (compare s tr x y) as [cmp|].
  - destruct A as (vs1 & n1 & ->). destruct B as (vs2 & n2 & ->).
    rewrite relab_cgen, relab_rgen. unfold ufinish. cbn [us_conflicts us_n].
    destruct (negb force && negb match flat_map (cgen w cmp) mf with [] => true | _ :: _ => false end).
    + reflexivity.
    + cbn [same_outcome3]. split; [|reflexivity]. apply relab_upost.
  - rewrite A, B. reflexivity.
Qed.

(* ================= the opening reconciliation ================= *)

Section Reconcile.
  Variables (c : config) (s : schema) (tr : typeref).
  Hypothesis Hcid : conv_id c.
  Hypothesis Hsch : forall v, cfg_schema c v = (s, tr).

  Definition rec_current (mr : string * mrec) : bool :=
    match reconcile_field_set s tr (mr_set (snd mr)) with Some None => true | _ => false end.

  Lemma fold_rstep_labels : forall live (l res : managed) n,
    (forall mr s', In mr l -> reconcile_field_set s tr (mr_set (snd mr)) <> Some (Some s')) ->
    fold_left (rstep c live) l (UOk (res, n)) =
    if forallb rec_current l then @UOk (managed * nat) (res ++ l, List.length l + n) else UErr EOther.
  Proof.
    intros live l. induction l as [|mr l IH]; intros res n Hrec.
    - cbn. rewrite app_nil_r. reflexivity.
    - cbn [fold_left forallb]. unfold rstep at 2. rewrite (convert_id c Hcid).
      unfold schema_of, tr_of. rewrite Hsch. cbn [fst snd]. unfold rec_current at 1.
      destruct (reconcile_field_set s tr (mr_set (snd mr))) as [[s'|]|] eqn:Er.
      + exfalso. apply (Hrec mr s' (or_introl eq_refl) Er).
      + rewrite IH by (intros x s' Hx; apply Hrec; right; exact Hx).
        cbn [andb]. destruct (forallb rec_current l); [|reflexivity].
        rewrite <- app_assoc. cbn [List.length app]. f_equal. f_equal. lia.
      + cbn [andb]. apply fold_rstep_err.
  Qed.

  Lemma reconcile_closed : forall live mf n,
    (forall mr s', In mr mf -> reconcile_field_set s tr (mr_set (snd mr)) <> Some (Some s')) ->
    reconcile_managed c n live mf =
    if forallb rec_current mf then UOk (mf, List.length mf + n) else UErr EOther.
  Proof. intros live mf n Hrec. exact (fold_rstep_labels live mf [] n Hrec). Qed.

  Lemma rec_current_relab : forall ver l, forallb rec_current (relab ver l) = forallb rec_current l.
  Proof. intros ver l. unfold relab. rewrite forallb_map'. reflexivity. Qed.

  (* both reconciliations fail, or both return the records they were given *)
  Theorem reconcile_labels : forall ver live live' mf,
    (forall mr s', In mr mf -> reconcile_field_set s tr (mr_set (snd mr)) <> Some (Some s')) ->
    (reconcile_managed c O live mf = UErr EOther /\
     reconcile_managed c O live' (relab ver mf) = UErr EOther) \/
    (exists n0, reconcile_managed c O live mf = UOk (mf, n0) /\
                reconcile_managed c O live' (relab ver mf) = UOk (relab ver mf, n0)).
  Proof.
    intros ver live live' mf Hrec.
    assert (Hrec' : forall mr s', In mr (relab ver mf) ->
              reconcile_field_set s tr (mr_set (snd mr)) <> Some (Some s')).
    { intros mr s' Hin. unfold relab in Hin. apply in_map_iff in Hin.
      destruct Hin as (mr0 & <- & Hin0). cbn [snd mr_set]. apply Hrec. exact Hin0. }
    rewrite (reconcile_closed live mf 0 Hrec), (reconcile_closed live' (relab ver mf) 0 Hrec').
    rewrite rec_current_relab. destruct (forallb rec_current mf).
    - right. exists (List.length mf + 0). unfold relab at 2. rewrite map_length. auto.
    - left. auto.
  Qed.
End Reconcile.
