(* C18: laws of Set / Delete on the unstructured view (Model/MapOps.v): exactly one
   binding changes, sortedness is kept, and an update below a path changes nothing that
   the path does not lead to. *)
From Coq Require Import List ZArith String Bool Arith Lia.
From SMD Require Import Model.Value Model.Order Model.MapOps Proofs.OrderLaws.
Import ListNotations.
Open Scope bool_scope.

Lemma eqb_compare_eq : forall a b, String.eqb a b = true <-> String.compare a b = Eq.
Proof. intros a b. rewrite String.eqb_eq. symmetry. apply str_cmp_eq. Qed.

(* ---- Set ---- *)
Theorem get_set_same : forall k v m, vmap_get k (vmap_set k v m) = Some v.
Proof.
  intros k v m. induction m as [|[k' x] rest IH]; simpl.
  - rewrite String.eqb_refl. reflexivity.
  - destruct (String.compare k k') eqn:E; simpl.
    + rewrite String.eqb_refl. reflexivity.
    + rewrite String.eqb_refl. reflexivity.
    + destruct (String.eqb_spec k k') as [H|H].
      * subst. rewrite str_cmp_refl in E. discriminate.
      * exact IH.
Qed.

Theorem get_set_other : forall k k' v m, k' <> k -> vmap_get k' (vmap_set k v m) = vmap_get k' m.
Proof.
  intros k k' v m Hne. induction m as [|[k2 x] rest IH]; simpl.
  - destruct (String.eqb_spec k' k) as [H|H]; [contradiction|reflexivity].
  - destruct (String.compare k k2) eqn:E; simpl.
    + apply str_cmp_eq in E. subst k2.
      destruct (String.eqb_spec k' k) as [H|H]; [contradiction|reflexivity].
    + destruct (String.eqb_spec k' k) as [H|H]; [contradiction|reflexivity].
    + destruct (String.eqb k' k2); [reflexivity|exact IH].
Qed.

Lemma keys_gt_set : forall a k v m, String.compare a k = Lt -> keys_gt a m -> keys_gt a (vmap_set k v m).
Proof.
  intros a k v m Hak Hm. induction m as [|[k2 x] rest IH]; simpl.
  - constructor; [exact Hak|constructor].
  - inversion Hm as [|p t Hp Ht]; subst. destruct (String.compare k k2).
    + constructor; [exact Hak|exact Ht].
    + constructor; [exact Hak|exact Hm].
    + constructor; [exact Hp|apply IH; exact Ht].
Qed.

Lemma sorted_of_gt : forall k v (m : list (string * value)), sorted_keys m = true -> keys_gt k m ->
  sorted_keys ((k, v) :: m) = true.
Proof.
  intros k v m Hs Hg. destruct m as [|[k2 x] rest]; [reflexivity|].
  change (str_ltb k k2 && sorted_keys ((k2, x) :: rest) = true).
  inversion Hg as [|p t Hp Ht]; subst. simpl in Hp. unfold str_ltb. rewrite Hp, Hs. reflexivity.
Qed.

Theorem set_sorted : forall k v m, sorted_keys m = true -> sorted_keys (vmap_set k v m) = true.
Proof.
  intros k v m. induction m as [|[k2 x] rest IH]; intros Hs; [reflexivity|].
  destruct (sorted_keys_cons rest k2 x Hs) as [Hr Hg]. simpl.
  destruct (String.compare k k2) eqn:E.
  - apply str_cmp_eq in E. subst k2. apply sorted_of_gt; assumption.
  - apply sorted_of_gt; [exact Hs|]. constructor; [exact E|].
    eapply keys_gt_trans; [exact E|exact Hg].
  - apply sorted_of_gt; [apply IH; exact Hr|].
    apply keys_gt_set; [apply str_cmp_gt_lt; exact E|exact Hg].
Qed.

(* ---- Delete ---- *)
Lemma get_gt_none : forall k (m : list (string * value)), keys_gt k m -> vmap_get k m = None.
Proof.
  intros k m H. induction H as [|[k' v'] t Hk Ht IH]; simpl; auto.
  simpl in Hk. destruct (String.eqb_spec k k') as [E|E].
  - subst. rewrite str_cmp_refl in Hk. discriminate.
  - exact IH.
Qed.

Theorem get_delete_same : forall k m, sorted_keys m = true -> vmap_get k (vmap_delete k m) = None.
Proof.
  intros k m. induction m as [|[k2 x] rest IH]; intros Hs; [reflexivity|].
  destruct (sorted_keys_cons rest k2 x Hs) as [Hr Hg]. simpl.
  destruct (String.eqb_spec k k2) as [E|E].
  - subst. apply get_gt_none. exact Hg.
  - simpl. destruct (String.eqb_spec k k2) as [E'|_]; [contradiction|]. apply IH. exact Hr.
Qed.

Theorem get_delete_other : forall k k' m, k' <> k -> vmap_get k' (vmap_delete k m) = vmap_get k' m.
Proof.
  intros k k' m Hne. induction m as [|[k2 x] rest IH]; [reflexivity|]. simpl.
  destruct (String.eqb_spec k k2) as [E|E].
  - subst k2. destruct (String.eqb_spec k' k) as [H|H]; [contradiction|reflexivity].
  - simpl. destruct (String.eqb k' k2); [reflexivity|exact IH].
Qed.

Lemma keys_gt_delete : forall a k m, keys_gt a m -> keys_gt a (vmap_delete k m).
Proof.
  intros a k m Hm. induction m as [|[k2 x] rest IH]; simpl; [constructor|].
  inversion Hm as [|p t Hp Ht]; subst. destruct (String.eqb k k2); [exact Ht|].
  constructor; [exact Hp|apply IH; exact Ht].
Qed.

Theorem delete_sorted : forall k m, sorted_keys m = true -> sorted_keys (vmap_delete k m) = true.
Proof.
  intros k m. induction m as [|[k2 x] rest IH]; intros Hs; [reflexivity|].
  destruct (sorted_keys_cons rest k2 x Hs) as [Hr Hg]. simpl.
  destruct (String.eqb k k2); [exact Hr|].
  apply sorted_of_gt; [apply IH; exact Hr|apply keys_gt_delete; exact Hg].
Qed.

(* deleting what is not there, and setting what is already there, change nothing *)
Theorem delete_absent : forall k m, vmap_get k m = None -> vmap_delete k m = m.
Proof.
  intros k m. induction m as [|[k2 x] rest IH]; intros H; [reflexivity|]. simpl in *.
  destruct (String.eqb k k2); [discriminate|]. rewrite IH by exact H. reflexivity.
Qed.

(* ---- updates below a path ---- *)
Lemma list_update_nth_same : forall n f l l' x, list_update n f l = Some l' -> nth_error l n = Some x ->
  nth_error l' n = f x.
Proof.
  induction n as [|n IH]; intros f l l' x Hu Hn; destruct l as [|y rest]; simpl in *; try discriminate.
  - inversion Hn; subst y. destruct (f x) as [z|]; [|discriminate]. inversion Hu; subst. reflexivity.
  - destruct (list_update n f rest) as [r|] eqn:E; [|discriminate]. inversion Hu; subst. simpl.
    eapply IH; eassumption.
Qed.

Lemma list_update_nth_other : forall n f l l' i, list_update n f l = Some l' -> i <> n ->
  nth_error l' i = nth_error l i.
Proof.
  induction n as [|n IH]; intros f l l' i Hu Hi; destruct l as [|y rest]; simpl in *; try discriminate.
  - destruct (f y) as [z|]; [|discriminate]. inversion Hu; subst. destruct i; [contradiction|reflexivity].
  - destruct (list_update n f rest) as [r|] eqn:E; [|discriminate]. inversion Hu; subst.
    destruct i; [reflexivity|]. simpl. eapply IH; [exact E|]. intros H. apply Hi. subst. reflexivity.
Qed.

(* [q] leaves [p]: at some position the two paths take different steps *)
Fixpoint diverges (p q : list mstep) : Prop :=
  match p, q with
  | MKey a :: p', MKey b :: q' => a <> b \/ (a = b /\ diverges p' q')
  | MIdx a :: p', MIdx b :: q' => a <> b \/ (a = b /\ diverges p' q')
  | _ :: _, _ :: _ => True
  | _, _ => False
  end.

(* an update at p changes nothing that p does not lead to *)
Theorem update_at_frame : forall p f v v' q,
  update_at p f v = Some v' -> diverges p q -> lookup_at q v' = lookup_at q v.
Proof.
  induction p as [|st p IH]; intros f v v' q Hu Hd; [destruct q; destruct Hd|].
  destruct st as [k|n]; destruct q as [|[k2|n2] q]; try (destruct Hd; fail); simpl in Hu.
  - destruct v as [| | | | | |m]; try discriminate.
    destruct (vmap_get k m) as [child|] eqn:Eg; [|discriminate].
    destruct (update_at p f child) as [child'|] eqn:Eu; [|discriminate].
    inversion Hu; subst v'. simpl. destruct Hd as [Hne|[Heq Hd]].
    + rewrite get_set_other by (intros H; apply Hne; symmetry; exact H). reflexivity.
    + subst k2. rewrite get_set_same, Eg. eapply IH; eassumption.
  - destruct v as [| | | | | |m]; try discriminate.
    destruct (vmap_get k m) as [child|]; [|discriminate].
    destruct (update_at p f child); [|discriminate]. inversion Hu; subst. reflexivity.
  - destruct v as [| | | | |l|]; try discriminate.
    destruct (list_update n (update_at p f) l) as [l'|]; [|discriminate]. inversion Hu; subst. reflexivity.
  - destruct v as [| | | | |l|]; try discriminate.
    destruct (list_update n (update_at p f) l) as [l'|] eqn:El; [|discriminate].
    inversion Hu; subst v'. simpl. destruct Hd as [Hne|[Heq Hd]].
    + rewrite (list_update_nth_other _ _ _ _ n2 El) by (intros H; apply Hne; symmetry; exact H). reflexivity.
    + subst n2. destruct (nth_error l n) as [x|] eqn:En.
      * rewrite (list_update_nth_same _ _ _ _ x El En).
        destruct (update_at p f x) as [x'|] eqn:Ex.
        -- eapply IH; eassumption.
        -- exfalso. clear -El En Ex. revert l l' El En. induction n as [|n IHn]; intros l l' El En;
             destruct l as [|y rest]; simpl in *; try discriminate.
           ++ inversion En; subst. rewrite Ex in El. discriminate.
           ++ destruct (list_update n (update_at p f) rest) eqn:E2; [|discriminate]. eapply IHn; eassumption.
      * exfalso. clear -El En. revert l l' El En. induction n as [|n IHn]; intros l l' El En;
          destruct l as [|y rest]; simpl in *; try discriminate.
        destruct (list_update n (update_at p f) rest) eqn:E2; [|discriminate]. eapply IHn; eassumption.
Qed.

(* and at p itself the map is the old one with [f] applied *)
Theorem update_at_target : forall p f v v',
  update_at p f v = Some v' ->
  exists m, lookup_at p v = Some (VMap m) /\ lookup_at p v' = Some (VMap (f m)).
Proof.
  induction p as [|st p IH]; intros f v v' Hu; simpl in Hu.
  - destruct v as [| | | | | |m]; try discriminate. inversion Hu; subst. exists m. split; reflexivity.
  - destruct st as [k|n].
    + destruct v as [| | | | | |m]; try discriminate.
      destruct (vmap_get k m) as [child|] eqn:Eg; [|discriminate].
      destruct (update_at p f child) as [child'|] eqn:Eu; [|discriminate].
      inversion Hu; subst v'. destruct (IH f child child' Eu) as [m0 [H1 H2]].
      exists m0. simpl. rewrite Eg, get_set_same. split; assumption.
    + destruct v as [| | | | |l|]; try discriminate.
      destruct (list_update n (update_at p f) l) as [l'|] eqn:El; [|discriminate].
      inversion Hu; subst v'. simpl.
      assert (Hx : exists x x', nth_error l n = Some x /\ update_at p f x = Some x' /\ nth_error l' n = Some x').
      { clear -El. revert l l' El. induction n as [|n IHn]; intros l l' El; destruct l as [|y rest]; simpl in *; try discriminate.
        - destruct (update_at p f y) as [z|] eqn:E; [|discriminate]. inversion El; subst. exists y, z. auto.
        - destruct (list_update n (update_at p f) rest) as [r|] eqn:E; [|discriminate]. inversion El; subst.
          simpl. eapply IHn. exact E. }
      destruct Hx as [x [x' [Hn [Hux Hn']]]]. destruct (IH f x x' Hux) as [m0 [H1 H2]].
      exists m0. rewrite Hn, Hn'. split; assumption.
Qed.
