(* The set  en (to_field_set v)  -- EnsureNamedFieldsAreMembers of the field set of an
   object, the set the updater's prune stage computes with -- against the nodes of v:
     - [node_set_present]: every member is a path of v;
     - [node_set_has]: every non-empty prefix of a path to a visible leaf of v (any leaf but
       an empty list, which the field-set walker does not record) is a member. *)
From Coq Require Import List ZArith String Bool Arith Lia.
From SMD Require Import Model.Value Model.Order Model.PathElem Model.PathSet Model.Schema
  Model.Walk Model.FieldSet Model.Remove Spec.PathsAsSets Spec.RefValid Spec.Resolve Spec.Agree
  Proofs.OrderLaws Proofs.KeyLaws Proofs.PathSetLaws Proofs.ValidateLaws Proofs.SchemaOk
  Proofs.FieldSetMirrors Proofs.FieldSetBase Proofs.FieldSetShape Proofs.FieldSetPaths
  Proofs.FieldSetLaws Proofs.RemoveBase Proofs.ExtractBase Proofs.ExtractLaws Proofs.RemoveAbsent
  Proofs.ResolveLaws Proofs.RemoveFrame Proofs.EnLaws.
Import ListNotations.
Open Scope bool_scope.
Open Scope list_scope.

Local Arguments ps_has : simpl never.
Local Arguments ps_empty : simpl never.

Definition node_set (s : schema) (tr : typeref) (v : value) : pset :=
  ps_en s tr (ps_of_paths (fsp s tr v)).

Lemma pmem_nil_nil : forall L, pmem [] ([[]] ++ L) = true.
Proof. reflexivity. Qed.

Section NodeSet.
  Variables (s : schema) (R : typeref -> Prop).
  Hypothesis Hok : schema_ok s R.
  Hypothesis Hfam : family_refs s R.

  (* ---------- the inserted paths, by kind ---------- *)

  Lemma fsp_kmap : forall tr v t m, kind_of s tr v = KMap t m ->
    fsp s tr v = flat_map (entry_paths s t) m.
  Proof.
    intros tr v t m Ek.
    destruct (kind_map_inv _ _ _ _ _ Ek) as (a & Hr & Ham & Hv & Hna & _). subst v.
    destruct a as [sc li ma]. simpl in Ham. subst ma.
    unfold fsp. rewrite fs_paths_nil_eq, Hr, handle_vmap, Hna. reflexivity.
  Qed.

  Lemma fsp_klist : forall tr v t l, kind_of s tr v = KList t l ->
    fsp s tr v =
    (let '(dups, acc1, _) := fs_pass1 s t [] l [] [] [] false in
     (acc1 ++ flat_map (item_paths s t dups) l)%list).
  Proof.
    intros tr v t l Ek.
    destruct (kind_list_inv _ _ _ _ _ Ek) as (a & Hr & Hal & Hv & Hna & _). subst v.
    destruct a as [sc li ma]. simpl in Hal. subst li.
    unfold fsp. rewrite fs_paths_nil_eq, Hr, handle_vlist, Hna.
    destruct (fs_pass1 s t [] l [] [] [] false) as [[d acc1] err1]. reflexivity.
  Qed.

  Lemma conforms_kind_not_bad : forall tr dup v, conforms s tr dup v = true -> kind_of s tr v <> KBad.
  Proof.
    intros tr dup v Hc. rewrite conforms_eq in Hc. unfold kind_of.
    destruct (resolve s tr) as [[sc li ma]|]; [|discriminate].
    destruct v as [| | | | |l|m]; try discriminate;
      try (destruct sc; [discriminate|discriminate Hc]).
    - destruct li as [t|]; [|discriminate]. destruct (rel_is_atomic (list_rel t)); [discriminate|].
      destruct l; discriminate.
    - destruct ma as [t|]; [|discriminate]. destruct (rel_is_atomic (map_rel t)); [discriminate|].
      destruct m; discriminate.
  Qed.

  (* what the walker records for a leaf *)
  Lemma fsp_leaf_paths : forall tr dup v, conforms s tr dup v = true -> leafy s tr v ->
    v = VNull \/ v = VMap [] \/ v = VList [] \/ fsp s tr v = [[]].
  Proof.
    intros tr dup v Hc Hl. pose proof Hc as Hc'. rewrite conforms_eq in Hc'.
    unfold leafy, kind_of in Hl. unfold fsp. rewrite fs_paths_nil_eq.
    destruct (resolve s tr) as [[sc li ma]|] eqn:Er; [|discriminate].
    destruct v as [| | | | |l|m]; auto;
      try (destruct sc; [|discriminate]; right; right; right; reflexivity).
    - destruct li as [t|]; [|discriminate]. destruct l as [|x l]; [auto|].
      right. right. right. rewrite handle_vlist.
      destruct (rel_is_atomic (list_rel t)); [reflexivity|contradiction].
    - destruct ma as [t|]; [|discriminate]. destruct m as [|kv m]; [auto|].
      right. right. right. rewrite handle_vmap.
      destruct (rel_is_atomic (map_rel t)); [reflexivity|contradiction].
  Qed.

  Lemma pmem_flat_map_in : forall (A : Type) (F : A -> list path) (l : list A) x q,
    In x l -> pmem q (F x) = true -> pmem q (flat_map F l) = true.
  Proof.
    intros A F l x q Hx Hq. unfold pmem in *. rewrite existsb_flat_map.
    apply existsb_exists. exists x. auto.
  Qed.

  (* a set member is a scalar *)
  Lemma pe_value_scalar : forall t x ex ev, list_item_to_pe s t x = Some ex ->
    peeqb ex (PEValue ev) = true -> is_scalar x = true.
  Proof.
    intros t x ex ev Hex Heq. unfold list_item_to_pe in Hex.
    destruct (negb (rel_is_assoc (list_rel t))); [discriminate|].
    destruct (list_keys t).
    - destruct x; simpl in Hex; try discriminate; reflexivity.
    - destruct x as [| | | | |l'|m]; try (simpl in Hex; discriminate).
      rewrite keyed_item_to_pe_eq in Hex. destruct (keyed_go s t m (list_keys t)); [|discriminate].
      inversion Hex; subst ex. discriminate.
  Qed.

  Lemma scalar_leafy : forall tr x, is_scalar x = true -> leafy s tr x.
  Proof.
    intros tr x Hs. unfold leafy, kind_of. destruct (resolve s tr) as [[sc li ma]|]; [|exact I].
    destruct x; try discriminate; destruct sc; exact I.
  Qed.

  (* ---------- members of a list, located ---------- *)

  Lemma list_member_paths : forall tr dup t l e x0, R tr -> wf_value (VList l) = true ->
    conforms s tr dup (VList l) = true -> kind_of s tr (VList l) = KList t l ->
    wf_pe e = true -> occ s t e l = [x0] ->
    exists ex0, list_item_to_pe s t x0 = Some ex0 /\ peeqb ex0 e = true /\ In x0 l /\
      forall rest, pmem rest (fsp s (list_elem t) x0 ++ [[]]) = true ->
        pmem (e :: rest) (fsp s tr (VList l)) = true.
  Proof.
    intros tr dup t l e x0 Htr Hwf Hc Ek He Eo.
    destruct (conf_list_facts s R Hok Hfam tr dup t l Htr Hc Ek)
      as (sc & ma & Hr & Hte & Hna & Hlne & Hhp & Hcs & _).
    assert (Hiw : items_wf s t l) by (eapply items_wf_R; eauto).
    assert (Hxo : In x0 (occ s t e l)) by (rewrite Eo; left; reflexivity).
    apply occ_In in Hxo. destruct Hxo as [Hx Hm]. unfold pe_matches in Hm.
    destruct (list_item_to_pe s t x0) as [ex0|] eqn:Ex; [|discriminate].
    assert (Hwex : wf_pe ex0 = true) by (apply (Hiw x0 ex0 Hx Ex)).
    exists ex0. repeat split; auto. intros rest Hrest.
    rewrite (fsp_klist tr _ t l Ek).
    destruct (pass1_spec s t [] l [] [] [] false eq_refl eq_refl eq_refl eq_refl Hiw Hhp)
      as (d & new & Heq & Hsd & Hwd & Hmem & Hnew).
    rewrite Heq. cbn [app]. rewrite pmem_app. apply orb_true_iff. right.
    apply (pmem_flat_map_in _ _ l x0 _ Hx).
    rewrite (item_paths_some s t d x0 ex0 Ex).
    assert (Ed : pes_has ex0 d = false).
    { rewrite (pes_has_spec ex0 d Hsd Hwd Hwex), (Hmem ex0 Hwex).
      rewrite (occ_cong s t l ex0 e Hiw Hwex He Hm), Eo. reflexivity. }
    rewrite Ed, pmem_cons_map.
    rewrite (peeqb_sym e ex0 He Hwex), Hm. exact Hrest.
  Qed.

  (* one step down a path that goes on *)
  Lemma fsp_step : forall tr v e rest n, R tr -> wf_value v = true ->
    conforms s tr true v = true -> wf_pe e = true -> rest <> [] ->
    resolve_path s tr v (e :: rest) = Some n ->
    exists ct c, R ct /\ wf_value c = true /\ conforms s ct true c = true /\
      resolve_path s ct c rest = Some n /\ ct = en_child_tr (atom_at s tr) e /\
      (forall q, resolve_path s tr v (e :: q) = resolve_path s ct c q) /\
      (pmem rest (fsp s ct c) = true -> pmem (e :: rest) (fsp s tr v) = true).
  Proof.
    intros tr v e rest n Htr Hwf Hc He Hne Hres.
    destruct (kind_of s tr v) as [|t m|t l|] eqn:Ek.
    - rewrite resolve_path_leaf in Hres by (rewrite Ek; exact I). discriminate.
    - destruct (kind_map_inv _ _ _ _ _ Ek) as (a & Hr & Ham & Hv & Hna & Hmne). subst v.
      destruct e as [k|fl|ev|i];
        try (rewrite (resolve_path_map_other _ _ _ _ _ _ _ Ek) in Hres by exact I; discriminate).
      rewrite (resolve_path_map _ _ _ _ _ _ _ Ek) in Hres.
      destruct (assoc_get k m) as [c|] eqn:Eg; [|discriminate].
      pose proof (assoc_get_In m k c Eg) as Hin.
      destruct a as [sc li ma]. simpl in Ham. subst ma.
      exists (field_type t k), c. repeat split.
      + apply (so_map s R Hok tr _ t k Htr Hr eq_refl).
      + apply (wf_value_map_in m k c Hwf Hin).
      + rewrite conforms_eq, Hr in Hc. eapply cmap_each_in; eauto.
      + exact Hres.
      + unfold atom_at. rewrite Hr. reflexivity.
      + intros q. rewrite (resolve_path_map _ _ _ _ _ _ _ Ek), Eg. reflexivity.
      + intros Hmem. rewrite (fsp_kmap tr _ t m Ek).
        apply (pmem_flat_map_in _ _ m (k, c) _ Hin).
        unfold entry_paths. cbn [fst snd]. rewrite pmem_cons_map. simpl. rewrite String.eqb_refl.
        rewrite pmem_app, Hmem. reflexivity.
    - destruct (kind_list_inv _ _ _ _ _ Ek) as (a & Hr0 & Hal & Hv & _ & _). subst v.
      destruct (conf_list_facts s R Hok Hfam tr true t l Htr Hc Ek)
        as (sc & ma & Hr & Hte & Hna & Hlne & Hhp & Hcs & _).
      destruct (is_keyval e) eqn:Ekv;
        [|rewrite (resolve_path_list_other _ _ _ _ _ _ _ Ek Ekv) in Hres; discriminate].
      pose proof (resolve_path_list_occ s R Hok tr (VList l) t l e) as Hocc.
      rewrite (Hocc rest Htr Hwf Ek He), Hhp, Ekv in Hres. cbn [andb] in Hres.
      destruct (occ s t e l) as [|x0 [|y more]] eqn:Eo; [discriminate| |destruct rest; [congruence|discriminate]].
      destruct (list_member_paths tr true t l e x0 Htr Hwf Hc Ek He Eo)
        as (ex0 & Ex & Hm & Hx & Hpaths).
      assert (Hkey : exists fl, e = PEKey fl).
      { destruct e as [k|fl|ev|i]; try discriminate; [exists fl; reflexivity|]. exfalso.
        pose proof (pe_value_scalar t x0 ex0 ev Ex Hm) as Hs.
        destruct rest as [|r0 r']; [congruence|].
        rewrite resolve_path_leaf in Hres; [discriminate|]. apply scalar_leafy. exact Hs. }
      destruct Hkey as (fl & ->).
      exists (list_elem t), x0. repeat split; auto.
      + apply (wf_value_list_in l x0 Hwf Hx).
      + rewrite forallb_forall in Hcs. exact (Hcs x0 Hx).
      + unfold atom_at. rewrite Hr. reflexivity.
      + intros q. rewrite (Hocc q Htr Hwf Ek He), Hhp. reflexivity.
      + intros Hmem. apply Hpaths. rewrite pmem_app, Hmem. reflexivity.
    - rewrite resolve_path_leaf in Hres by (rewrite Ek; exact I). discriminate.
  Qed.

  (* ---------- the three kinds of direct members ---------- *)

  (* a visible leaf *)
  Lemma fsp_leaf_mem : forall q v tr tr' x, R tr -> wf_value v = true ->
    conforms s tr true v = true -> wf_path q = true -> q <> [] ->
    resolve_path s tr v q = Some (RNode tr' x) -> leafy s tr' x -> x <> VList [] ->
    pmem q (fsp s tr v) = true.
  Proof.
    induction q as [|e rest IH]; intros v tr tr' x Htr Hwf Hc Hq Hne Hres Hl Hx; [congruence|].
    apply wf_path_cons in Hq. destruct Hq as [He Hrest].
    destruct rest as [|r0 rest'].
    - (* the last step *)
      destruct (kind_of s tr v) as [|t m|t l|] eqn:Ek.
      + rewrite resolve_path_leaf in Hres by (rewrite Ek; exact I). discriminate.
      + destruct (kind_map_inv _ _ _ _ _ Ek) as (a & Hr & Ham & Hv & Hna & Hmne). subst v.
        destruct e as [k|fl|ev|i];
          try (rewrite (resolve_path_map_other _ _ _ _ _ _ _ Ek) in Hres by exact I; discriminate).
        rewrite (resolve_path_map _ _ _ _ _ _ _ Ek) in Hres.
        destruct (assoc_get k m) as [c|] eqn:Eg; [|discriminate].
        simpl in Hres. inversion Hres; subst tr' x. clear Hres.
        pose proof (assoc_get_In m k c Eg) as Hin.
        destruct a as [sc li ma]. simpl in Ham. subst ma.
        assert (Hcc : conforms s (field_type t k) true c = true).
        { rewrite conforms_eq, Hr in Hc. eapply cmap_each_in; eauto. }
        rewrite (fsp_kmap tr _ t m Ek).
        apply (pmem_flat_map_in _ _ m (k, c) _ Hin).
        unfold entry_paths. cbn [fst snd]. rewrite pmem_cons_map. simpl. rewrite String.eqb_refl.
        rewrite pmem_app. cbn [andb].
        destruct (fsp_leaf_paths (field_type t k) true c Hcc Hl) as [->|[->|[->|Hf]]];
          [rewrite orb_true_iff; right; reflexivity
          |rewrite orb_true_iff; right; reflexivity
          |congruence
          |rewrite Hf; reflexivity].
      + destruct (kind_list_inv _ _ _ _ _ Ek) as (a & Hr0 & Hal & Hv & _ & _). subst v.
        destruct (conf_list_facts s R Hok Hfam tr true t l Htr Hc Ek)
          as (sc & ma & Hr & Hte & Hna & Hlne & Hhp & Hcs & _).
        destruct (is_keyval e) eqn:Ekv;
          [|rewrite (resolve_path_list_other _ _ _ _ _ _ _ Ek Ekv) in Hres; discriminate].
        rewrite (resolve_path_list_occ s R Hok tr _ t l e [] Htr Hwf Ek He), Hhp, Ekv in Hres.
        cbn [andb] in Hres.
        destruct (occ s t e l) as [|x0 [|y more]] eqn:Eo; try discriminate.
        destruct (list_member_paths tr true t l e x0 Htr Hwf Hc Ek He Eo)
          as (ex0 & Ex & Hm & Hx0 & Hpaths).
        apply Hpaths. rewrite pmem_app. apply orb_true_iff. right. reflexivity.
      + rewrite resolve_path_leaf in Hres by (rewrite Ek; exact I). discriminate.
    - destruct (fsp_step tr v e (r0 :: rest') _ Htr Hwf Hc He ltac:(discriminate) Hres)
        as (ct & c & Hct & Hwc & Hcc & Hres' & _ & _ & Hup).
      apply Hup. apply (IH c ct tr' x); auto. discriminate.
  Qed.

  (* a list member *)
  Lemma fsp_item_mem : forall (pre : path) v tr e n, R tr -> wf_value v = true ->
    conforms s tr true v = true -> wf_path (pre ++ [e]) = true -> is_keyval e = true ->
    resolve_path s tr v (pre ++ [e]) = Some n -> (exists tr' x, n = RNode tr' x) ->
    pmem (pre ++ [e]) (fsp s tr v) = true.
  Proof.
    induction pre as [|e0 pre IH]; intros v tr e n Htr Hwf Hc Hq Ekv Hres Hn.
    - simpl app in *. apply wf_path_cons in Hq. destruct Hq as [He _].
      destruct Hn as (tr' & x & ->).
      destruct (kind_of s tr v) as [|t m|t l|] eqn:Ek.
      + rewrite resolve_path_leaf in Hres by (rewrite Ek; exact I). discriminate.
      + rewrite (resolve_path_map_other _ _ _ _ _ _ _ Ek) in Hres; [discriminate|].
        destruct e; try discriminate; exact I.
      + destruct (kind_list_inv _ _ _ _ _ Ek) as (a & Hr0 & Hal & Hv & _ & _). subst v.
        destruct (conf_list_facts s R Hok Hfam tr true t l Htr Hc Ek)
          as (sc & ma & Hr & Hte & Hna & Hlne & Hhp & Hcs & _).
        rewrite (resolve_path_list_occ s R Hok tr _ t l e [] Htr Hwf Ek He), Hhp, Ekv in Hres.
        cbn [andb] in Hres.
        destruct (occ s t e l) as [|x0 [|y more]] eqn:Eo; try discriminate.
        destruct (list_member_paths tr true t l e x0 Htr Hwf Hc Ek He Eo)
          as (ex0 & Ex & Hm & Hx0 & Hpaths).
        apply Hpaths. rewrite pmem_app. apply orb_true_iff. right. reflexivity.
      + rewrite resolve_path_leaf in Hres by (rewrite Ek; exact I). discriminate.
    - cbn [app] in *. pose proof Hq as Hq'. apply wf_path_cons in Hq'. destruct Hq' as [He0 Hrest].
      destruct (fsp_step tr v e0 (pre ++ [e]) n Htr Hwf Hc He0 ltac:(destruct pre; discriminate) Hres)
        as (ct & c & Hct & Hwc & Hcc & Hres' & _ & _ & Hup).
      apply Hup. apply (IH c ct e n); auto.
  Qed.

  (* a key of a map that is not a declared field *)
  Lemma fsp_unnamed_mem : forall (pre : path) v tr k n, R tr -> wf_value v = true ->
    conforms s tr true v = true -> wf_path (pre ++ [PEField k]) = true ->
    resolve_path s tr v (pre ++ [PEField k]) = Some n ->
    named s (en_type s tr pre) k = false ->
    pmem (pre ++ [PEField k]) (fsp s tr v) = true.
  Proof.
    induction pre as [|e0 pre IH]; intros v tr k n Htr Hwf Hc Hq Hres Hnamed.
    - simpl app in *. simpl in Hnamed.
      destruct (kind_of s tr v) as [|t m|t l|] eqn:Ek.
      + rewrite resolve_path_leaf in Hres by (rewrite Ek; exact I). discriminate.
      + destruct (kind_map_inv _ _ _ _ _ Ek) as (a & Hr & Ham & Hv & Hna & Hmne). subst v.
        rewrite (resolve_path_map _ _ _ _ _ _ _ Ek) in Hres.
        destruct (assoc_get k m) as [c|] eqn:Eg; [|discriminate].
        pose proof (assoc_get_In m k c Eg) as Hin.
        destruct a as [sc li ma]. simpl in Ham. subst ma.
        unfold named, atom_at in Hnamed. rewrite Hr in Hnamed.
        rewrite (fsp_kmap tr _ t m Ek).
        apply (pmem_flat_map_in _ _ m (k, c) _ Hin).
        unfold entry_paths. cbn [fst snd]. rewrite pmem_cons_map. simpl. rewrite String.eqb_refl.
        rewrite pmem_app. apply orb_true_iff. right. unfold own0. rewrite Hnamed.
        destruct c as [| | | | |l'|m']; try reflexivity. destruct m'; reflexivity.
      + rewrite (resolve_path_list_other _ _ _ _ _ _ _ Ek) in Hres by reflexivity. discriminate.
      + rewrite resolve_path_leaf in Hres by (rewrite Ek; exact I). discriminate.
    - cbn [app] in *. pose proof Hq as Hq'. apply wf_path_cons in Hq'. destruct Hq' as [He0 Hrest].
      destruct (fsp_step tr v e0 (pre ++ [PEField k]) n Htr Hwf Hc He0
                  ltac:(destruct pre; discriminate) Hres)
        as (ct & c & Hct & Hwc & Hcc & Hres' & Hty & _ & Hup).
      apply Hup. apply (IH c ct k n); auto. simpl in Hnamed. rewrite <- Hty in Hnamed. exact Hnamed.
  Qed.

  (* ---------- the node set ---------- *)

  Lemma fs_ok : forall tr v, R tr -> wf_value v = true -> ps_ok (ps_of_paths (fsp s tr v)) = true.
  Proof. intros tr v Htr Hwf. apply ps_of_paths_ok. apply (fsp_wf_all s R Hok); auto. Qed.

  Lemma fs_has : forall tr v p, R tr -> wf_value v = true -> wf_path p = true -> p <> [] ->
    ps_has p (ps_of_paths (fsp s tr v)) = pmem p (fsp s tr v).
  Proof.
    intros tr v p Htr Hwf Hp Hne. apply ps_has_of_paths; auto. apply (fsp_wf_all s R Hok); auto.
  Qed.

  Lemma node_set_ok : forall tr v, R tr -> wf_value v = true -> ps_ok (node_set s tr v) = true.
  Proof. intros tr v Htr Hwf. apply ps_en_ok. apply fs_ok; auto. Qed.

  Theorem node_set_present : forall tr v p, R tr -> wf_value v = true ->
    conforms s tr true v = true -> wf_path p = true ->
    ps_has p (node_set s tr v) = true -> present s tr v p = true.
  Proof.
    intros tr v p Htr Hwf Hc Hp Hhas.
    destruct (en_has_prefix s tr _ p (fs_ok tr v Htr Hwf) Hp Hhas) as (r & Hr & Hmem).
    apply (present_prefix s tr v p r).
    assert (Hpr : wf_path (p ++ r) = true) by (apply ReconcileBase.wf_path_app; auto).
    rewrite fs_has in Hmem; auto.
    2:{ intros E. apply app_eq_nil in E. destruct E as [-> _]. rewrite ps_has_nil in Hhas. discriminate. }
    unfold pmem in Hmem. apply existsb_exists in Hmem. destruct Hmem as (q & Hq & Heq).
    assert (Hwq : wf_path q = true).
    { pose proof (fsp_wf_all s R Hok v tr Htr Hwf) as Hall. rewrite forallb_forall in Hall. auto. }
    rewrite (present_patheqb s R Hok (p ++ r) q Heq Hpr Hwq v tr Htr Hwf).
    apply (fsp_present s R Hok Hfam v tr q Htr Hwf Hc Hq).
  Qed.

  Theorem node_set_has : forall (p r : path) tr v tr' x, R tr -> wf_value v = true ->
    conforms s tr true v = true -> wf_path (p ++ r) = true -> p <> [] ->
    resolve_path s tr v (p ++ r) = Some (RNode tr' x) -> leafy s tr' x -> x <> VList [] ->
    ps_has p (node_set s tr v) = true.
  Proof.
    intros p r tr v tr' x Htr Hwf Hc Hpr Hne Hres Hl Hx.
    pose proof (fs_ok tr v Htr Hwf) as Hfs.
    pose proof Hpr as Hpr'. apply ReconcileBase.wf_path_app in Hpr'. destruct Hpr' as [Hp Hr].
    assert (Hprne : p ++ r <> []) by (intros E; apply app_eq_nil in E; destruct E; congruence).
    pose proof (fsp_leaf_mem (p ++ r) v tr tr' x Htr Hwf Hc Hpr Hprne Hres Hl Hx) as Hleaf.
    destruct r as [|r0 r'].
    { rewrite app_nil_r in *. apply en_has_mono; auto. rewrite fs_has; auto. }
    destruct (exists_last Hne) as (pre & e & ->).
    assert (Hnode : exists n, resolve_path s tr v (pre ++ [e]) = Some n /\ exists t1 x1, n = RNode t1 x1).
    { rewrite resolve_path_app in Hres.
      destruct (resolve_path s tr v (pre ++ [e])) as [[t1 x1|t1 xs]|]; try discriminate.
      exists (RNode t1 x1). split; [reflexivity|]. exists t1, x1. reflexivity. }
    destruct Hnode as (n & Hn & Hnn).
    unfold node_set.
    destruct e as [k|fl|ev|i].
    - destruct (named s (en_type s tr pre) k) eqn:Enamed.
      + apply en_has_iff; auto. right. exists pre, k. split; [reflexivity|]. split; [exact Enamed|].
        exists (r0 :: r'). split; [discriminate|]. split; [exact Hr|]. rewrite fs_has; auto.
      + apply en_has_mono; auto. rewrite fs_has; auto.
        apply (fsp_unnamed_mem pre v tr k n); auto.
    - apply en_has_mono; auto. rewrite fs_has; auto. apply (fsp_item_mem pre v tr _ n); auto.
    - apply en_has_mono; auto. rewrite fs_has; auto. apply (fsp_item_mem pre v tr _ n); auto.
    - exfalso. rewrite resolve_path_app in Hn.
      destruct (resolve_path s tr v pre) as [[t1 x1|t1 xs]|]; try discriminate.
      destruct (kind_of s t1 x1) as [|t m|t l|] eqn:Ek.
      + rewrite resolve_path_leaf in Hn by (rewrite Ek; exact I). discriminate.
      + rewrite (resolve_path_map_other _ _ _ _ _ _ _ Ek) in Hn by exact I. discriminate.
      + rewrite (resolve_path_list_other _ _ _ _ _ _ _ Ek) in Hn by reflexivity. discriminate.
      + rewrite resolve_path_leaf in Hn by (rewrite Ek; exact I). discriminate.
  Qed.

  (* the set the updater computes: to_field_set followed by EnsureNamedFieldsAreMembers *)
  Lemma to_field_set_node_set : forall tr v fs, R tr -> wf_value v = true ->
    conforms s tr true v = true -> to_field_set s tr v = Some fs ->
    ps_en s tr fs = node_set s tr v.
  Proof.
    intros tr v fs Htr Hwf Hc Hfs. rewrite to_field_set_eq in Hfs.
    destruct (fse s tr v); [discriminate|]. inversion Hfs; subst fs. reflexivity.
  Qed.
End NodeSet.
