(* On conforming operands (and a schema whose reachable lists are associative or atomic)
   the comparing walker reports no error. *)
From Coq Require Import List ZArith String Bool Arith Lia.
From SMD Require Import Model.Value Model.Order Model.PathElem Model.PathSet Model.Schema
  Model.Walk Model.Validate Model.Merge Model.Compare Spec.PathsAsSets Spec.RefValid
  Proofs.OrderLaws Proofs.KeyLaws Proofs.PesLaws Proofs.PathSetLaws Proofs.ValidateLaws
  Proofs.SchemaOk Proofs.CompareBase Proofs.CompareWf.
Import ListNotations.
Open Scope bool_scope.

Definition od (o : option value) : nat := match o with Some v => vdepth v | None => 0 end.

Lemma vdepth_list_In : forall l x, In x l -> vdepth x < vdepth (VList l).
Proof.
  intros l x H. simpl. apply Nat.lt_succ_r. induction l as [|y l IH]; [destruct H|].
  simpl. destruct H as [H|H]; [subst; apply Nat.le_max_l|].
  etransitivity; [apply IH; exact H|apply Nat.le_max_r].
Qed.

Lemma vdepth_map_get : forall (m : list (string * value)) k x, assoc_get k m = Some x ->
  vdepth x < vdepth (VMap m).
Proof.
  intros m k x H. simpl. apply Nat.lt_succ_r. induction m as [|[k' y] m IH]; [discriminate|].
  simpl in *. destruct (String.eqb k k').
  - inversion H; subst. apply Nat.le_max_l.
  - etransitivity; [apply IH; exact H|apply Nat.le_max_r].
Qed.

Lemma assoc_get_In_keys : forall (m : list (string * value)) k, In k (map fst m) ->
  exists x, assoc_get k m = Some x.
Proof.
  induction m as [|[k' y] m IH]; intros k H; [destruct H|].
  simpl in *. destruct (String.eqb k k') eqn:E.
  - eauto.
  - destruct H as [H|H]; [subst; rewrite String.eqb_refl in E; discriminate|auto].
Qed.

Lemma existsb_none : forall (A : Type) (f : A -> bool) l, (forall x, In x l -> f x = false) ->
  existsb f l = false.
Proof.
  intros A f l H. induction l as [|a l IH]; simpl; auto.
  rewrite (H a (or_introl eq_refl)). apply IH. intros x Hx. apply H. right. exact Hx.
Qed.

(* ---- consequences of conformance ---- *)
Lemma conf_resolve : forall s tr dup v, conforms s tr dup v = true -> exists a, resolve s tr = Some a.
Proof.
  intros s tr dup v H. rewrite conforms_eq in H. destruct (resolve s tr) as [a|]; [eauto|discriminate].
Qed.

Lemma conf_list_inv : forall s tr a l, resolve s tr = Some a ->
  conforms s tr true (VList l) = true ->
  exists t, atom_list a = Some t /\
    forallb (fun x => conforms s (list_elem t) true x) l = true /\
    (list_rel t = RAssociative -> forallb (has_pe s t) l = true).
Proof.
  intros s tr a l Hres H. rewrite conforms_eq, Hres in H. destruct a as [sc li ma].
  destruct li as [t|]; [|discriminate]. exists t. split; [reflexivity|].
  destruct (list_rel t) eqn:Erel; try (split; [exact H|discriminate]).
  apply andb_true_iff in H. destruct H as [H _]. apply andb_true_iff in H. destruct H as [H1 H2].
  auto.
Qed.

Lemma conf_map_inv : forall s tr a m, resolve s tr = Some a ->
  conforms s tr true (VMap m) = true ->
  exists t, atom_map a = Some t /\ cmap_each s true t m = true.
Proof.
  intros s tr a m Hres H. rewrite conforms_eq, Hres in H. destruct a as [sc li ma].
  destruct ma as [t|]; [|discriminate]. exists t. auto.
Qed.

Lemma cmap_each_get : forall s dup t m k x, cmap_each s dup t m = true ->
  assoc_get k m = Some x -> conforms s (field_type t k) dup x = true.
Proof.
  intros s dup t m k x. induction m as [|[k' y] m IH]; simpl; intros H Hg; [discriminate|].
  apply andb_true_iff in H. destruct H as [H1 H2].
  destruct (String.eqb k k') eqn:E.
  - apply String.eqb_eq in E. subst k'. inversion Hg; subst y.
    unfold has_field, field_type in *. destruct (find_field (map_fields t) k); auto.
    apply andb_true_iff in H1. tauto.
  - auto.
Qed.

Lemma scalar_ok_validate : forall t v, scalar_ok t v = true -> validate_scalar t (Some v) = false.
Proof. intros [] []; simpl; intros H; try discriminate; reflexivity. Qed.

Lemma handle_of_conf : forall s tr a v, resolve s tr = Some a -> conforms s tr true v = true ->
  match handle_atom (deduce_atom a (Some v)) with
  | HMap t => atom_map a = Some t
  | HList t => atom_list a = Some t
  | HScalar t => validate_scalar t (Some v) = false
  | HInvalid => False
  end.
Proof.
  intros s tr a v Hres H. rewrite conforms_eq, Hres in H.
  destruct a as [[sc|] [li|] [ma|]]; destruct v; simpl in *; try discriminate; try reflexivity;
    try (destruct sc; simpl in *; try discriminate; reflexivity).
Qed.

Lemma elem_res_total : forall (PL PR : value -> Prop) item pp e L Rr,
  (forall lc rc, match lc with Some v => PL v | None => True end ->
                 match rc with Some v => PR v | None => True end ->
                 isSome lc || isSome rc = true -> fst (item e lc rc) = false) ->
  Forall PL L -> Forall PR Rr ->
  fst (elem_res item pp e L Rr) = false.
Proof.
  intros PL PR item pp e L Rr Hitem HL HR.
  destruct L as [|lv [|lv2 L]]; destruct Rr as [|rv [|rv2 Rr]]; cbn [elem_res];
    try reflexivity;
    try (inversion HL; subst); try (inversion HR; subst);
    try (apply Hitem; simpl; auto; fail).
  - assert (Hi : fst (item e (Some lv) None) = false) by (apply Hitem; simpl; auto).
    destruct (item e (Some lv) None). exact Hi.
  - assert (Hi : fst (item e None (Some rv)) = false) by (apply Hitem; simpl; auto).
    destruct (item e None (Some rv)). exact Hi.
Qed.

Section BodyTotal.
  Variables (s : schema) (R : typeref -> Prop).
  Hypothesis Hok : schema_ok s R.
  Hypothesis Hfam : family_refs s R.

  Definition conf_ov (tr : typeref) (o : option value) : bool :=
    match o with Some v => conforms s tr true v | None => true end.

  Variable n : nat.
  Variable rec : typeref -> path -> option value -> option value -> bool * cmpacc.
  Hypothesis Hrec : forall tr p l r, R tr -> wf_ov l = true -> wf_ov r = true ->
    conf_ov tr l = true -> conf_ov tr r = true -> isSome l || isSome r = true ->
    od l + od r < n -> fst (rec tr p l r) = false.

  Variable p : path.
  Variables lhs rhs : option value.
  Variable tr : typeref.
  Variable a : atom.
  Hypothesis HR : R tr.
  Hypothesis Hres : resolve s tr = Some a.
  Hypothesis Hl : wf_ov lhs = true.
  Hypothesis Hr : wf_ov rhs = true.
  Hypothesis Cl : conf_ov tr lhs = true.
  Hypothesis Cr : conf_ov tr rhs = true.
  Hypothesis Hfuel : od lhs + od rhs < S n.

  Definition goodv (te : typeref) (o : option value) (x : value) : Prop :=
    wf_value x = true /\ conforms s te true x = true /\ vdepth x < od o.

  Lemma side_list : forall o t, wf_ov o = true -> conf_ov tr o = true ->
    atom_list a = Some t -> list_rel t = RAssociative ->
    forallb (has_pe s t) (ol (deref_list o)) = true /\
    Forall (goodv (list_elem t) o) (ol (deref_list o)).
  Proof.
    intros o t Ho Co Ht Hrel.
    destruct o as [v|]; [|split; [reflexivity|constructor]].
    destruct v; try (split; [reflexivity|constructor]).
    simpl in *. destruct (conf_list_inv s tr a l Hres Co) as (t' & Ht' & C1 & C2).
    rewrite Ht in Ht'. inversion Ht'; subst t'. split; [auto|].
    apply Forall_forall. intros x Hx. rewrite forallb_forall in Ho, C1.
    split; [auto|split; [auto|]]. apply (vdepth_list_In l x Hx).
  Qed.

  Lemma side_map : forall o t k x, wf_ov o = true -> conf_ov tr o = true ->
    atom_map a = Some t -> assoc_get k (ol (deref_map o)) = Some x ->
    goodv (field_type t k) o x.
  Proof.
    intros o t k x Ho Co Ht Hg.
    destruct o as [v|]; [|discriminate]. destruct v; try discriminate.
    simpl in *. destruct (conf_map_inv s tr a kvs Hres Co) as (t' & Ht' & C1).
    rewrite Ht in Ht'. inversion Ht'; subst t'.
    apply andb_true_iff in Ho. destruct Ho as [_ Ho].
    split; [eapply assoc_get_wf; eauto|split].
    - eapply cmap_each_get; eauto.
    - eapply vdepth_map_get; eauto.
  Qed.

  Lemma rec_good : forall te q lc rc, R te ->
    match lc with Some v => goodv te lhs v | None => True end ->
    match rc with Some v => goodv te rhs v | None => True end ->
    isSome lc || isSome rc = true -> fst (rec te q lc rc) = false.
  Proof.
    intros te q lc rc HRe Glc Grc Hsome.
    apply Hrec; auto.
    - destruct lc; simpl; auto. apply Glc.
    - destruct rc; simpl; auto. apply Grc.
    - destruct lc; simpl; auto. apply Glc.
    - destruct rc; simpl; auto. apply Grc.
    - destruct lc as [x|], rc as [y|]; simpl in *; try discriminate.
      + destruct Glc as (_ & _ & G1). destruct Grc as (_ & _ & G2). lia.
      + destruct Glc as (_ & _ & G1). lia.
      + destruct Grc as (_ & _ & G2). lia.
  Qed.

  Lemma do_leaf_total : fst (fst (do_leaf p lhs rhs)) = false.
  Proof. reflexivity. Qed.

  Lemma handle_list_total : forall t, atom_list a = Some t ->
    fst (fst (handle_list rec s p lhs rhs t)) = false.
  Proof.
    intros t Ht. unfold handle_list.
    destruct (rel_is_atomic (list_rel t)) eqn:Eat; [reflexivity|]. simpl orb.
    destruct (is_emp (deref_list lhs) && is_emp (deref_list rhs)); [reflexivity|].
    assert (Hrel : list_rel t = RAssociative).
    { destruct (Hfam tr a t HR Hres Ht) as [H|H]; auto. rewrite H in Eat. discriminate. }
    assert (HRe : R (list_elem t)) by (eapply (so_list s R Hok); eauto).
    pose proof (item_pe_wf_elem s R Hok t) as Hpe. specialize (fun c e => Hpe c e HRe).
    pose proof (deref_list_wf _ Hl) as Hll. pose proof (deref_list_wf _ Hr) as Hrl.
    destruct (side_list lhs t Hl Cl Ht Hrel) as [SL1 SL2].
    destruct (side_list rhs t Hr Cr Ht Hrel) as [SR1 SR2].
    destruct (gather_values s t (ol (deref_list lhs)) [] [] false) as [[lV o1] e1] eqn:El.
    destruct (gather_values s t (ol (deref_list rhs)) [] [] false) as [[rV ro] e2] eqn:Er.
    destruct (gather_spec s t Hpe _ _ _ _ Hll El) as (L1 & L2 & L3 & L4 & L5 & L6 & L7).
    destruct (gather_spec s t Hpe _ _ _ _ Hrl Er) as (R1 & R2 & R3 & R4 & R5 & R6 & R7).
    rewrite fold_acc_step. cbn [fst snd].
    assert (E1 : e1 = false).
    { rewrite L7. apply existsb_none. intros x Hx. rewrite forallb_forall in SL1.
      specialize (SL1 x Hx). unfold has_pe in SL1. destruct (list_item_to_pe s t x); [reflexivity|discriminate]. }
    assert (E2 : e2 = false).
    { rewrite R7. apply existsb_none. intros x Hx. rewrite forallb_forall in SR1.
      specialize (SR1 x Hx). unfold has_pe in SR1. destruct (list_item_to_pe s t x); [reflexivity|discriminate]. }
    rewrite E1, E2. simpl orb.
    apply existsb_none. intros e He.
    assert (Hwe : wf_pe e = true) by (exact (all_pes_wf lV o1 ro L3 R3 e He)).
    unfold list_F.
    apply (elem_res_total (goodv (list_elem t) lhs) (goodv (list_elem t) rhs)).
    - intros lc rc Glc Grc Hsome. apply rec_good; auto.
    - rewrite (L5 e Hwe). rewrite Forall_forall in *. intros x Hx. apply SL2. eapply grp_In; eauto.
    - rewrite (R5 e Hwe). rewrite Forall_forall in *. intros x Hx. apply SR2. eapply grp_In; eauto.
  Qed.

  Lemma handle_map_total : forall t, atom_map a = Some t ->
    fst (fst (handle_map rec p lhs rhs t)) = false.
  Proof.
    intros t Ht. unfold handle_map.
    destruct (rel_is_atomic (map_rel t) || (is_emp (deref_map lhs) && is_emp (deref_map rhs)));
      [reflexivity|].
    rewrite fold_acc_step. cbn [fst snd]. simpl orb.
    apply existsb_none. intros k Hk. unfold map_F.
    assert (HRe : R (field_type t k)) by (eapply (so_map s R Hok); eauto).
    apply rec_good; auto.
    - destruct (assoc_get k (ol (deref_map lhs))) as [x|] eqn:E; auto. eapply side_map; eauto.
    - destruct (assoc_get k (ol (deref_map rhs))) as [x|] eqn:E; auto. eapply side_map; eauto.
    - apply keys_union_In in Hk. destruct Hk as [Hk|Hk]; apply assoc_get_In_keys in Hk;
        destruct Hk as [x Hx]; rewrite Hx; simpl; auto. apply orb_true_r.
  Qed.

  Lemma cmp_handle_total : forall o v, o = lhs \/ o = rhs -> o = Some v ->
    fst (fst (cmp_handle rec s p lhs rhs (handle_atom (deduce_atom a o)))) = false.
  Proof.
    intros o v Ho Hv.
    assert (Cv : conforms s tr true v = true).
    { destruct Ho; subst o; [rewrite Hv in Cl; exact Cl|rewrite Hv in Cr; exact Cr]. }
    pose proof (handle_of_conf s tr a v Hres Cv) as Hh. rewrite <- Hv in Hh.
    destruct (handle_atom (deduce_atom a o)) as [t|t|t|]; cbn [cmp_handle].
    - apply handle_map_total; auto.
    - assert (Hand : validate_scalar t lhs && validate_scalar t rhs = false).
      { destruct Ho; subst o; rewrite Hh; [reflexivity|apply andb_false_r]. }
      rewrite Hand. reflexivity.
    - apply handle_list_total; auto.
    - destruct Hh.
  Qed.

  Lemma cmp_dispatch_total : isSome lhs || isSome rhs = true ->
    fst (fst (cmp_dispatch rec s p lhs rhs a)) = false.
  Proof.
    intros Hsome.
    pose proof (fun v => cmp_handle_total lhs v (or_introl eq_refl)) as HA.
    pose proof (fun v => cmp_handle_total rhs v (or_intror eq_refl)) as HB.
    unfold cmp_dispatch. revert HA HB Hsome. generalize lhs rhs.
    intros [lv|] [rv|] HA HB Hsome; try discriminate.
    - specialize (HA lv eq_refl). specialize (HB rv eq_refl).
      destruct (atom_eqb (deduce_atom a (Some lv)) (deduce_atom a (Some rv))); [exact HB|].
      destruct (cmp_handle rec s p (Some lv) (Some rv) (handle_atom (deduce_atom a (Some lv)))) as [[e1 c1] l1].
      destruct (cmp_handle rec s p (Some lv) (Some rv) (handle_atom (deduce_atom a (Some rv)))) as [[e2 c2] l2].
      simpl in *. subst. reflexivity.
    - exact (HA lv eq_refl).
    - exact (HB rv eq_refl).
  Qed.

  Lemma compare_body_total : isSome lhs || isSome rhs = true ->
    fst (compare_body rec s p lhs rhs tr) = false.
  Proof.
    intros Hsome. unfold compare_body. rewrite Hres.
    pose proof (cmp_dispatch_total Hsome) as Hd.
    destruct (cmp_dispatch rec s p lhs rhs a) as [[e c] lf]. simpl in Hd. subst e.
    revert Hsome. generalize lhs rhs. intros [lv|] [rv|] Hsome; try reflexivity. discriminate.
  Qed.
End BodyTotal.

Theorem compare_w_total : forall s R, schema_ok s R -> family_refs s R ->
  forall f tr p l r, R tr -> wf_ov l = true -> wf_ov r = true ->
  conf_ov s tr l = true -> conf_ov s tr r = true -> isSome l || isSome r = true ->
  od l + od r < f -> fst (compare_w f s tr p l r) = false.
Proof.
  intros s R Hok Hfam f. induction f as [|f IH]; intros tr p l r HR Hl Hr Cl Cr Hsome Hfuel.
  - lia.
  - rewrite compare_w_S.
    assert (Hres : exists a, resolve s tr = Some a).
    { destruct l as [lv|]; [eapply conf_resolve; exact Cl|].
      destruct r as [rv|]; [eapply conf_resolve; exact Cr|discriminate]. }
    destruct Hres as [a Hres].
    apply (compare_body_total s R Hok Hfam f (compare_w f s)) with (a := a); auto.
Qed.
