(* Auxiliary facts for Proofs/MergeVeqb.v: pointwise relations on lists, value.Equals on
   maps with sorted keys, field lists related name by name (and their stable sort), the
   key field list of a keyed-list item, path elements of equal items, and the index loop
   on two sequences whose path elements are pairwise equal. *)
From Coq Require Import List ZArith String Bool Arith Lia.
From SMD Require Import Model.Value Model.Order Model.PathElem Model.PathSet Model.Schema
  Model.Walk Model.Merge Spec.RefValid Proofs.OrderLaws Proofs.KeyLaws Proofs.PesLaws
  Proofs.SchemaOk Proofs.MergeBase Proofs.MergeLoop.
Import ListNotations.
Open Scope bool_scope.

(* ------------------------------------------------------------------ *)
(* Forall2 *)
Lemma F2_impl : forall (A B : Type) (P Q : A -> B -> Prop), (forall a b, P a b -> Q a b) ->
  forall l1 l2, Forall2 P l1 l2 -> Forall2 Q l1 l2.
Proof.
  intros A B P Q HPQ l1 l2 H. induction H as [|x y l1 l2 Hxy H IH]; constructor; auto.
Qed.

Lemma F2_in_both : forall (A B : Type) (P : A -> B -> Prop) l1 l2, Forall2 P l1 l2 ->
  Forall2 (fun x y => P x y /\ In x l1 /\ In y l2) l1 l2.
Proof.
  intros A B P l1 l2 H. induction H as [|x y l1 l2 Hxy H IH].
  - constructor.
  - constructor.
    + simpl. auto.
    + apply (F2_impl _ _ (fun a b => P a b /\ In a l1 /\ In b l2)); [|exact IH].
      intros a b (H1 & H2 & H3). simpl. auto.
Qed.

Lemma F2_map_fst : forall (A B C D : Type) (P : A -> C -> Prop) (l1 : list (A * B)) (l2 : list (C * D)),
  Forall2 (fun a b => P (fst a) (fst b)) l1 l2 -> Forall2 P (map fst l1) (map fst l2).
Proof.
  intros A B C D P l1 l2 H. induction H as [|x y l1 l2 Hxy H IH]; simpl; constructor; auto.
Qed.

Lemma F2_length : forall (A B : Type) (P : A -> B -> Prop) l1 l2, Forall2 P l1 l2 ->
  List.length l1 = List.length l2.
Proof.
  intros A B P l1 l2 H. induction H as [|x y l1 l2 Hxy H IH]; simpl; congruence.
Qed.

Lemma all2b_F2 : forall (A : Type) (eqb : A -> A -> bool) l1 l2, all2b eqb l1 l2 = true ->
  Forall2 (fun x y => eqb x y = true) l1 l2.
Proof.
  intros A eqb l1. induction l1 as [|x l1 IH]; intros [|y l2] H; simpl in H; try discriminate.
  - constructor.
  - apply andb_true_iff in H. destruct H as [H1 H2]. constructor; auto.
Qed.

(* ------------------------------------------------------------------ *)
(* strictly sorted lists of strings *)
Lemma ssorted_notin : forall x t, Forall (fun y => String.compare x y = Lt) t -> ~ In x t.
Proof.
  intros x t H Hin. rewrite Forall_forall in H. specialize (H x Hin).
  rewrite str_cmp_refl in H. discriminate.
Qed.

Lemma ssorted_NoDup : forall l, ssorted l -> NoDup l.
Proof.
  induction l as [|x l IH]; intros H; [constructor|].
  destruct H as [Hx Hl]. constructor; [apply ssorted_notin; exact Hx|apply IH; exact Hl].
Qed.

Lemma ssorted_incl_eq : forall a b, ssorted a -> ssorted b ->
  List.length a = List.length b -> incl a b -> a = b.
Proof.
  induction a as [|x a IH]; intros b Ha Hb Hlen Hincl.
  - destruct b; [reflexivity|discriminate].
  - destruct b as [|y b]; [discriminate|].
    pose proof Ha as Ha0. destruct Ha as [Hx Ha]. destruct Hb as [Hy Hb].
    assert (Exy : x = y).
    { destruct (string_dec x y) as [E|E]; [exact E|exfalso].
      assert (Hxb : In x b).
      { destruct (Hincl x (or_introl eq_refl)) as [H|H]; [congruence|exact H]. }
      pose proof (proj1 (Forall_forall _ _) Hy x Hxb) as Hyx. simpl in Hyx.
      assert (Hinc' : incl (x :: a) b).
      { intros z Hz. destruct (Hincl z Hz) as [H|H]; [|exact H]. subst z. exfalso.
        destruct Hz as [Hz|Hz]; [congruence|].
        pose proof (proj1 (Forall_forall _ _) Hx y Hz) as Hxy. simpl in Hxy.
        pose proof (str_cmp_trans _ _ _ Hyx Hxy) as Hyy. rewrite str_cmp_refl in Hyy. discriminate. }
      pose proof (NoDup_incl_length (ssorted_NoDup _ Ha0) Hinc') as Hle.
      simpl in Hlen, Hle. lia. }
    subst y. f_equal. apply IH; auto.
    intros z Hz. destruct (Hincl z (or_intror Hz)) as [H|H]; [|exact H]. subst z. exfalso.
    apply (ssorted_notin x a Hx Hz).
Qed.

(* ------------------------------------------------------------------ *)
(* value.Equals on maps *)
Lemma meqf_get : forall eqb m2 m1, meqf eqb m2 m1 = true ->
  forall k v, In (k, v) m1 -> exists v', assoc_get k m2 = Some v' /\ eqb v v' = true.
Proof.
  intros eqb m2 m1. induction m1 as [|[k0 v0] m1 IH]; intros H k v Hin; [destruct Hin|].
  rewrite meqf_cons in H. destruct (assoc_get k0 m2) as [v'|] eqn:E; [|discriminate].
  apply andb_true_iff in H. destruct H as [H1 H2].
  destruct Hin as [Hin|Hin].
  - inversion Hin; subst. exists v'. auto.
  - apply IH; auto.
Qed.

Lemma veqb_map_facts : forall m1 m2, wf_value (VMap m1) = true -> wf_value (VMap m2) = true ->
  veqb (VMap m1) (VMap m2) = true ->
  map fst m1 = map fst m2 /\
  forall k v1, assoc_get k m1 = Some v1 ->
    exists v2, assoc_get k m2 = Some v2 /\ veqb v1 v2 = true.
Proof.
  intros m1 m2 W1 W2 H. rewrite veqb_map in H. apply andb_true_iff in H. destruct H as [Hlen Hm].
  apply Nat.eqb_eq in Hlen.
  pose proof (meqf_get veqb m2 m1 Hm) as Hget.
  split.
  - apply ssorted_incl_eq.
    + apply sorted_keys_ssorted. apply wf_map_sorted. exact W1.
    + apply sorted_keys_ssorted. apply wf_map_sorted. exact W2.
    + rewrite !map_length. exact Hlen.
    + intros k Hk. apply in_map_iff in Hk. destruct Hk as [[k' v] [E Hin]]. simpl in E. subst k'.
      destruct (Hget k v Hin) as [v' [Hv' _]]. apply (assoc_get_some_keys _ m2 k v' Hv').
  - intros k v1 Hk. apply Hget. apply assoc_get_in. exact Hk.
Qed.

(* ------------------------------------------------------------------ *)
(* field lists related position by position *)
Definition nm (a b : string * value) : Prop := fst a = fst b.
Definition flr (a b : string * value) : Prop := fst a = fst b /\ veqb (snd a) (snd b) = true.

Section FlRel.
  Variable P : string * value -> string * value -> Prop.
  Hypothesis HP : forall a b, P a b -> fst a = fst b.

  Lemma fl_insert_F2 : forall A B a b, Forall2 P A B -> P a b ->
    Forall2 P (fl_insert a A) (fl_insert b B).
  Proof.
    intros A B a b H Hab. induction H as [|y y' A B Hy H IH]; simpl.
    - constructor; auto.
    - rewrite <- (HP _ _ Hy), <- (HP _ _ Hab).
      destruct (str_ltb (fst y) (fst a)).
      + constructor; auto.
      + constructor; auto.
  Qed.

  Lemma fl_sort_F2 : forall A B, Forall2 P A B -> Forall2 P (fl_sort A) (fl_sort B).
  Proof.
    intros A B H. induction H as [|a b A B Hab H IH]; [constructor|].
    change (fl_sort (a :: A)) with (fl_insert a (fl_sort A)).
    change (fl_sort (b :: B)) with (fl_insert b (fl_sort B)).
    apply fl_insert_F2; auto.
  Qed.
End FlRel.

Lemma fl_sort_nm : forall A B, Forall2 nm A B -> Forall2 nm (fl_sort A) (fl_sort B).
Proof. apply fl_sort_F2. intros a b H. exact H. Qed.

Lemma fl_sort_flr : forall A B, Forall2 flr A B -> Forall2 flr (fl_sort A) (fl_sort B).
Proof. apply fl_sort_F2. intros a b [H _]. exact H. Qed.

Section FlRelInv.
  Variable P : string * value -> string * value -> Prop.

  Lemma fl_insert_F2_inv : forall A B a b, Forall2 nm A B -> nm a b ->
    Forall2 P (fl_insert a A) (fl_insert b B) -> P a b /\ Forall2 P A B.
  Proof.
    intros A B a b H. induction H as [|y y' A B Hy H IH]; simpl; intros Hab HF.
    - inversion HF; subst. split; auto.
    - unfold nm in Hy, Hab. rewrite <- Hy, <- Hab in HF.
      destruct (str_ltb (fst y) (fst a)).
      + inversion HF as [|? ? ? ? Hyy HF']; subst.
        destruct (IH Hab HF') as [H1 H2]. split; [exact H1|constructor; auto].
      + inversion HF as [|? ? ? ? Hyy HF']; subst. split; auto.
  Qed.

  Lemma fl_sort_F2_inv : forall A B, Forall2 nm A B ->
    Forall2 P (fl_sort A) (fl_sort B) -> Forall2 P A B.
  Proof.
    intros A B H. induction H as [|a b A B Hab H IH]; intros HF; [constructor|].
    change (fl_sort (a :: A)) with (fl_insert a (fl_sort A)) in HF.
    change (fl_sort (b :: B)) with (fl_insert b (fl_sort B)) in HF.
    destruct (fl_insert_F2_inv (fl_sort A) (fl_sort B) a b (fl_sort_nm A B H) Hab HF) as [H1 H2].
    constructor; auto.
  Qed.
End FlRelInv.

Lemma fl_eqb_F2 : forall A B, fl_eqb A B = true <-> Forall2 flr A B.
Proof.
  induction A as [|[n1 v1] A IH]; intros [|[n2 v2] B]; simpl; split; intros H;
    try discriminate; try (constructor; fail); try (inversion H; fail).
  - apply andb_true_iff in H. destruct H as [H H3].
    apply andb_true_iff in H. destruct H as [H1 H2]. apply String.eqb_eq in H1.
    constructor; [split; simpl; auto|apply IH; exact H3].
  - inversion H as [|? ? ? ? [E V] HF]; subst. simpl in E, V. subst n2.
    rewrite String.eqb_refl, V. simpl. apply IH. exact HF.
Qed.

(* ------------------------------------------------------------------ *)
(* the key field list of a keyed-list item *)
Definition kval (s : schema) (t : listT) (m : list (string * value)) (k : string) : option value :=
  match assoc_get k m with
  | Some v => Some v
  | None => match key_default s t k with Some (Some d) => Some d | _ => None end
  end.

Lemma keyed_go_kval : forall s t m k ks,
  keyed_go s t m (k :: ks) =
  match kval s t m k with
  | Some v => match keyed_go s t m ks with Some r => Some ((k, v) :: r) | None => None end
  | None => None
  end.
Proof.
  intros s t m k ks. unfold kval. simpl.
  destruct (assoc_get k m); [reflexivity|].
  destruct (key_default s t k) as [[d|]|]; reflexivity.
Qed.

Lemma kval_wf : forall s t m k v, elem_defaults_ok s t ->
  forallb (fun kv => wf_value (snd kv)) m = true -> kval s t m k = Some v -> wf_value v = true.
Proof.
  intros s t m k v Hd Hm. unfold kval.
  destruct (assoc_get k m) as [x|] eqn:E.
  - intros H. inversion H; subst. apply (assoc_get_wf' k m v Hm E).
  - destruct (key_default s t k) as [[d|]|] eqn:Ed; try discriminate.
    intros H. inversion H; subst. apply (key_default_wf' s t k v Hd Ed).
Qed.

Lemma keyed_go_nm : forall s t mx my keys fx fy,
  keyed_go s t mx keys = Some fx -> keyed_go s t my keys = Some fy -> Forall2 nm fx fy.
Proof.
  intros s t mx my keys. induction keys as [|k ks IH]; intros fx fy Hx Hy.
  - simpl in Hx, Hy. inversion Hx; inversion Hy; subst. constructor.
  - rewrite keyed_go_kval in Hx, Hy.
    destruct (kval s t mx k) as [a|]; [|discriminate].
    destruct (kval s t my k) as [b|]; [|discriminate].
    destruct (keyed_go s t mx ks) as [rx|]; [|discriminate].
    destruct (keyed_go s t my ks) as [ry|]; [|discriminate].
    inversion Hx; inversion Hy; subst. constructor; [reflexivity|]. apply IH; reflexivity.
Qed.

(* from the key values to the field lists *)
Lemma keyed_go_rel : forall s t mx my keys,
  (forall k, In k keys -> exists a b,
     kval s t mx k = Some a /\ kval s t my k = Some b /\ veqb a b = true) ->
  exists fx fy, keyed_go s t mx keys = Some fx /\ keyed_go s t my keys = Some fy /\ Forall2 flr fx fy.
Proof.
  intros s t mx my keys. induction keys as [|k ks IH]; intros H.
  - exists [], []. simpl. repeat split. constructor.
  - destruct IH as [fx [fy [Hx [Hy HF]]]]; [intros k' Hk'; apply H; right; exact Hk'|].
    destruct (H k (or_introl eq_refl)) as [a [b [Ha [Hb Hab]]]].
    exists ((k, a) :: fx), ((k, b) :: fy). rewrite !keyed_go_kval, Ha, Hb, Hx, Hy.
    repeat split. constructor; [split; simpl; auto|exact HF].
Qed.

(* and back *)
Lemma keyed_go_rel_inv : forall s t mx my keys fx fy,
  keyed_go s t mx keys = Some fx -> keyed_go s t my keys = Some fy -> Forall2 flr fx fy ->
  forall k, In k keys -> exists a b,
     kval s t mx k = Some a /\ kval s t my k = Some b /\ veqb a b = true.
Proof.
  intros s t mx my keys. induction keys as [|k ks IH]; intros fx fy Hx Hy HF k' Hk'; [destruct Hk'|].
  rewrite keyed_go_kval in Hx, Hy.
  destruct (kval s t mx k) as [a|] eqn:Ea; [|discriminate].
  destruct (kval s t my k) as [b|] eqn:Eb; [|discriminate].
  destruct (keyed_go s t mx ks) as [rx|] eqn:Ex; [|discriminate].
  destruct (keyed_go s t my ks) as [ry|] eqn:Ey; [|discriminate].
  inversion Hx; inversion Hy; subst. inversion HF as [|? ? ? ? [_ Hab] HF']; subst. simpl in Hab.
  destruct Hk' as [Hk'|Hk'].
  - subst k'. exists a, b. auto.
  - apply (IH rx ry eq_refl eq_refl HF' k' Hk').
Qed.

(* ------------------------------------------------------------------ *)
(* path elements of list items *)
Lemma list_item_cases : forall s t c e, list_item_to_pe s t c = Some e ->
  rel_is_assoc (list_rel t) = true /\
  ((list_keys t = [] /\ set_item_to_pe c = Some e) \/
   (list_keys t <> [] /\ keyed_item_to_pe s t c = Some e)).
Proof.
  intros s t c e. unfold list_item_to_pe.
  destruct (rel_is_assoc (list_rel t)); simpl; [|discriminate].
  intros H. split; [reflexivity|].
  destruct (list_keys t) as [|k0 ks]; [left; auto|right; split; [discriminate|exact H]].
Qed.

Lemma list_item_keyed : forall s t c, rel_is_assoc (list_rel t) = true -> list_keys t <> [] ->
  list_item_to_pe s t c = keyed_item_to_pe s t c.
Proof.
  intros s t c Ha Hk. unfold list_item_to_pe. rewrite Ha. simpl.
  destruct (list_keys t); [congruence|reflexivity].
Qed.

Lemma keyed_item_map : forall s t c e, keyed_item_to_pe s t c = Some e ->
  exists m fl, c = VMap m /\ keyed_go s t m (list_keys t) = Some fl /\ e = PEKey (fl_sort fl).
Proof.
  intros s t c e H. destruct c as [| | | | |l|m]; try (simpl in H; discriminate).
  rewrite keyed_item_to_pe_eq in H.
  destruct (keyed_go s t m (list_keys t)) as [fl|] eqn:E; [|discriminate].
  inversion H; subst. exists m, fl. auto.
Qed.

Lemma set_item_scalar : forall c e, set_item_to_pe c = Some e -> is_scalar c = true /\ e = PEValue c.
Proof.
  intros c e H. destruct c; simpl in H; try discriminate; inversion H; auto.
Qed.

(* equal items have equal path elements *)
Lemma item_pe_veqb : forall s t x y ex ey, elem_defaults_ok s t ->
  wf_value x = true -> wf_value y = true -> veqb x y = true ->
  list_item_to_pe s t x = Some ex -> list_item_to_pe s t y = Some ey -> peeqb ex ey = true.
Proof.
  intros s t x y ex ey Hd Wx Wy Hv Hx Hy.
  destruct (list_item_cases s t x ex Hx) as [_ [[Hk Hsx]|[Hk Hkx]]];
    destruct (list_item_cases s t y ey Hy) as [_ [[Hk' Hsy]|[Hk' Hky]]]; try congruence.
  - apply set_item_scalar in Hsx. apply set_item_scalar in Hsy.
    destruct Hsx as [_ Ex]. destruct Hsy as [_ Ey]. subst ex ey. exact Hv.
  - destruct (keyed_item_map s t x ex Hkx) as [mx [fx [Ex [Hgx Eex]]]].
    destruct (keyed_item_map s t y ey Hky) as [my [fy [Ey [Hgy Eey]]]].
    subst x y ex ey. simpl. apply fl_eqb_F2. apply fl_sort_flr.
    destruct (veqb_map_facts mx my Wx Wy Hv) as [Hkeys Hget].
    simpl in Wx, Wy. apply andb_true_iff in Wx. apply andb_true_iff in Wy.
    destruct Wx as [_ Wx]. destruct Wy as [_ Wy].
    destruct (keyed_go_rel s t mx my (list_keys t)) as [fx' [fy' [Hx' [Hy' HF]]]].
    + intros k Hkin.
      assert (Hax : exists a, kval s t mx k = Some a).
      { clear - Hgx Hkin. revert fx Hgx. induction (list_keys t) as [|k' ks IH]; intros fx Hgx; [destruct Hkin|].
        rewrite keyed_go_kval in Hgx. destruct (kval s t mx k') as [a|] eqn:Ea; [|discriminate].
        destruct (keyed_go s t mx ks) as [r|]; [|discriminate].
        destruct Hkin as [E|Hkin]; [subst; eauto|]. apply (IH Hkin r eq_refl). }
      destruct Hax as [a Ha]. unfold kval in Ha |- *.
      destruct (assoc_get k mx) as [vx|] eqn:Evx.
      * inversion Ha; subst vx. destruct (Hget k a Evx) as [v2 [Hv2 Hav2]].
        rewrite Hv2. exists a, v2. auto.
      * assert (Evy : assoc_get k my = None).
        { apply assoc_get_notin_keys. rewrite <- Hkeys. intros Hin.
          apply (assoc_get_in_keys _ mx k Hin). exact Evx. }
        rewrite Evy. destruct (key_default s t k) as [[d|]|] eqn:Ed; try discriminate.
        inversion Ha; subst a. exists d, d. repeat split.
        apply veqb_refl. apply (key_default_wf' s t k d Hd Ed).
    + rewrite Hgx in Hx'. rewrite Hgy in Hy'. inversion Hx'; inversion Hy'; subst. exact HF.
Qed.

(* ------------------------------------------------------------------ *)
(* pairwise equal sequences of path elements *)
Definition pe_rel (a b : pe) : Prop := peeqb a b = true /\ wf_pe a = true /\ wf_pe b = true.

Lemma existsb_peeqb_F2 : forall e1 e2 t1 t2, wf_pe e1 = true -> wf_pe e2 = true ->
  peeqb e1 e2 = true -> Forall2 pe_rel t1 t2 ->
  existsb (peeqb e1) t1 = existsb (peeqb e2) t2.
Proof.
  intros e1 e2 t1 t2 W1 W2 He H. induction H as [|x y t1 t2 (Hxy & Wx & Wy) H IH]; [reflexivity|].
  simpl. rewrite IH. f_equal.
  rewrite (peeqb_cong_l x e1 e2 Wx W1 W2 He).
  apply (peeqb_cong_r e2 x y W2 Wx Wy Hxy).
Qed.

Lemma all_distinct_F2 : forall t1 t2, Forall2 pe_rel t1 t2 -> all_distinct t1 = all_distinct t2.
Proof.
  intros t1 t2 H. induction H as [|x y t1 t2 (Hxy & Wx & Wy) H IH]; [reflexivity|].
  simpl. rewrite IH, (existsb_peeqb_F2 x y t1 t2 Wx Wy Hxy H). reflexivity.
Qed.

Section Items2.
  Variables (s : schema) (t : listT).

  Lemma ipairs_F2 : forall (P : value -> value -> Prop) l1 l2, Forall2 P l1 l2 ->
    forallb (has_pe s t) l1 = true -> forallb (has_pe s t) l2 = true ->
    Forall2 (fun lp rp => P (snd lp) (snd rp) /\
                          list_item_to_pe s t (snd lp) = Some (fst lp) /\
                          list_item_to_pe s t (snd rp) = Some (fst rp))
      (ipairs s t l1) (ipairs s t l2).
  Proof.
    intros P l1 l2 H. induction H as [|x y l1 l2 Hxy H IH]; intros H1 H2; [constructor|].
    simpl in H1, H2. apply andb_true_iff in H1. apply andb_true_iff in H2.
    destruct H1 as [Hx H1]. destruct H2 as [Hy H2]. unfold has_pe in Hx, Hy.
    simpl.
    destruct (list_item_to_pe s t x) as [ex|] eqn:Ex; [|discriminate].
    destruct (list_item_to_pe s t y) as [ey|] eqn:Ey; [|discriminate].
    simpl. constructor; [simpl; auto|apply IH; auto].
  Qed.
End Items2.

(* ------------------------------------------------------------------ *)
(* the index loop when the two sequences of path elements are pairwise equal *)
Section Loop2.
  Variable mi : pe -> option value -> option value -> bool * option value.
  Variables oL oR : pem value.

  Lemma loop_eq_id : forall (prs rcs : list (pe * value)),
    Forall2 (fun lp rp => peeqb (fst lp) (fst rp) = true /\
               mi (fst lp) (pem_get (fst lp) oL) (pem_get (fst lp) oR) = (false, Some (snd rp)))
      prs rcs ->
    forall fuel ns so merged out err, List.length prs < fuel ->
    merge_loop mi oL oR fuel prs (map fst rcs) ns so merged out err
    = Some (rev out ++ map snd rcs, err).
  Proof.
    intros prs rcs H. induction H as [|[lpe lc] [rpe rc] prs rcs [Heq Hm] H IH];
      intros fuel ns so merged out err Hf;
      (destruct fuel as [|fuel]; [simpl in Hf; lia|]); rewrite merge_loop_S.
    - simpl. rewrite app_nil_r. reflexivity.
    - simpl map. unfold loop_body. simpl in Heq, Hm. rewrite Heq, Hm.
      destruct (pop_shared so) as [ns' so'].
      rewrite IH by (simpl in Hf; lia).
      simpl. rewrite <- app_assoc, orb_false_r. reflexivity.
  Qed.
End Loop2.

(* a scalar that conforms is accepted by the scalar member of the atom *)
Lemma conforms_scalar : forall s tr dup sc li ma v, resolve s tr = Some (Atom sc li ma) ->
  is_scalar v = true -> conforms s tr dup v = true ->
  exists st, sc = Some st /\ scalar_ok st v = true.
Proof.
  intros s tr dup sc li ma v Hr Hs Hc. rewrite conforms_unf, Hr in Hc.
  destruct v; simpl in Hs; try discriminate;
    (destruct sc as [st|]; [exists st; auto|discriminate]).
Qed.
