(* scratch: executable tests of the candidate invariant on concrete histories *)
From Coq Require Import List ZArith String Bool Arith Lia.
From SMD Require Import Model.Value Model.Order Model.PathElem Model.PathSet Model.Schema Model.Walk
  Model.Validate Model.FieldSet Model.Remove Model.Merge Model.Compare Model.Matcher Model.Reconcile
  Model.Updater
  Spec.PathsAsSets Spec.RefValid Spec.Resolve Spec.Agree Spec.RefDiff Spec.Examples
  Proofs.FieldSetBase Proofs.EnLaws Proofs.KeyFields Proofs.SetCheckers Proofs.RemoveFrame.
Import ListNotations.
Open Scope string_scope.
Open Scope bool_scope.

Inductive hop : Type :=
| HApply (mgr : string) (cfg : value) (force : bool)
| HUpdate (mgr : string) (obj : value).

Definition hstep (c : config) (ver : string) (st : value * managed) (o : hop) : value * managed :=
  match o with
  | HApply mgr cfg force =>
      match apply_op c (ver, fst st) (ver, cfg) ver (snd st) mgr force with
      | UOk (Some t, mf') => (snd t, mf')
      | UOk (None, mf') => (fst st, mf')
      | UErr _ => st
      end
  | HUpdate mgr obj =>
      match update_op c (ver, fst st) (ver, obj) ver (snd st) mgr with
      | UOk (t, mf') => (snd t, mf')
      | UErr _ => st
      end
  end.

Definition hfail (c : config) (ver : string) (st : value * managed) (o : hop) : bool :=
  match o with
  | HApply mgr cfg force =>
      match apply_op c (ver, fst st) (ver, cfg) ver (snd st) mgr force with
      | UOk _ => false | UErr _ => true end
  | HUpdate mgr obj =>
      match update_op c (ver, fst st) (ver, obj) ver (snd st) mgr with
      | UOk _ => false | UErr _ => true end
  end.

Definition op_ok_b (s : schema) (tr : typeref) (o : hop) : bool :=
  match o with
  | HApply _ cfg _ => wf_value cfg && conforms s tr false cfg && plain cfg &&
                      match kind_of s tr cfg with KMap _ _ | KList _ _ => true | _ => false end
  | HUpdate _ obj => wf_value obj && conforms s tr true obj
  end.

Definition atomic_items_free_b (s : schema) (tr : typeref) (S : pset) : bool :=
  forallb (fun q : path =>
    forallb (fun i =>
      match nth_error q i with
      | Some e => if is_keyval e && Nat.ltb (Datatypes.S i) (List.length q)
                  then negb (atomic_map_type s (en_type s tr (firstn (Datatypes.S i) q))) else true
      | None => true
      end) (seq 0 (List.length q))) (ps_elems S).

Definition current_b (s : schema) (tr : typeref) (S : pset) : bool :=
  match reconcile_field_set s tr S with Some (Some _) => false | _ => true end.

Record chk : Type := mkChk { k_wf : bool; k_conf : bool; k_cur : bool; k_kc : bool; k_aif : bool; k_olk : bool; k_pres : bool; k_ne : bool }.

Definition rec_chk (s : schema) (tr : typeref) (live : value) (S : pset) : chk :=
  mkChk (wf_value live) (conforms s tr true live) (current_b s tr S) (keys_closed_b S) (atomic_items_free_b s tr S)
        (owns_live_keys_b s tr live S) (forallb (fun p => present s tr live p) (ps_elems S)) (negb (ps_empty S)).

Definition chk_ok (k : chk) : bool := k_wf k && k_conf k && k_cur k && k_kc k && k_aif k && k_olk k && k_pres k && k_ne k.

Definition state_chk (s : schema) (tr : typeref) (st : value * managed) : list (string * chk) :=
  map (fun mr : string * mrec => (fst mr, rec_chk s tr (fst st) (mr_set (snd mr)))) (snd st).

Definition state_ok_b (s : schema) (tr : typeref) (st : value * managed) : bool :=
  wf_value (fst st) && conforms s tr true (fst st) &&
  forallb (fun mk : string * chk => chk_ok (snd mk)) (state_chk s tr st).

(* run, reporting for each step: op admissible?, failed?, state ok after? *)
Fixpoint trace (c : config) (ver : string) (st : value * managed) (ops : list hop)
  : list (bool * bool * bool) :=
  match ops with
  | [] => []
  | o :: rest =>
      let st' := hstep c ver st o in
      (op_ok_b (schema_of c ver) (tr_of c ver) o, hfail c ver st o,
       state_ok_b (schema_of c ver) (tr_of c ver) st') :: trace c ver st' rest
  end.

Definition run (c : config) (ver : string) (ops : list hop) := fold_left (hstep c ver) ops (VNull, []).

Definition show (st : value * managed) := (fst st, map (fun mr : string * mrec => (fst mr, ps_elems (mr_set (snd mr)))) (snd st)).

(* ---------- a richer schema ---------- *)
Definition t_str := ex_str.
Definition t_num := ex_num.
Definition t_sub : atom :=
  Atom None None (Some (MapT [SField "id" t_num None; SField "w" t_num None] empty_tr RUnset)).
Definition t_item : atom :=
  Atom None None (Some (MapT [SField "name" t_str None; SField "vv" t_num None;
                              SField "tags" (TR None (Atom None (Some (ListT t_str RAssociative [])) None) None) None;
                              SField "sub" (TR None (Atom None (Some (ListT (ex_named "sub") RAssociative ["id"])) None) None) None;
                              SField "am" (TR None (Atom None None (Some (MapT [] t_num RAtomic))) None) None]
                             empty_tr RUnset)).
Definition t_aitem : atom :=
  Atom None None (Some (MapT [SField "name" t_str None; SField "vv" t_num None] empty_tr RAtomic)).
Definition t_pair : atom :=
  Atom None None (Some (MapT [SField "a" t_str None; SField "b" t_num None; SField "c" t_num None] empty_tr RUnset)).
Definition t_root : atom :=
  Atom None None
    (Some (MapT [SField "aa" t_num None;
                 SField "items" (TR None (Atom None (Some (ListT (ex_named "item") RAssociative ["name"])) None) None) None;
                 SField "mm" (TR None (Atom None None (Some (MapT [] t_num RUnset))) None) None;
                 SField "at" (TR None (Atom None None (Some (MapT [] t_num RAtomic))) None) None;
                 SField "al" (TR None (Atom None (Some (ListT t_str RAtomic [])) None) None) None;
                 SField "ai" (TR None (Atom None (Some (ListT (ex_named "aitem") RAssociative ["name"])) None) None) None;
                 SField "pairs" (TR None (Atom None (Some (ListT (ex_named "pair") RAssociative ["a"; "b"])) None) None) None]
                empty_tr RUnset)).
Definition t_schema : schema := [("root", t_root); ("item", t_item); ("sub", t_sub); ("aitem", t_aitem); ("pair", t_pair)].
Definition t_rt := ex_named "root".
Definition t_config : config :=
  mkConfig (fun _ => (t_schema, t_rt)) (fun _ _ _ v => COk v) None None false (fun l => l).

Definition T ops := trace t_config "v1" (VNull, []) ops.
Definition Rn ops := show (run t_config "v1" ops).
Definition Ck ops := state_chk t_schema t_rt (run t_config "v1" ops).

Definition item (n : string) (vv : Z) := VMap [("name", VStr n); ("vv", VInt vv)].
Definition itemn (n : string) := VMap [("name", VStr n)].

Definition h1 : list hop :=
  [ HApply "a" (VMap [("aa", VInt 1); ("items", VList [item "x" 1; item "y" 2])]) false;
    HUpdate "b" (VMap [("aa", VInt 1); ("items", VList [item "x" 5; item "y" 2; item "z" 3]); ("mm", VMap [("k", VInt 1)])]);
    HApply "c" (VMap [("items", VList [itemn "x"; item "w" 1])]) false;
    HApply "a" (VMap [("aa", VInt 2); ("items", VList [itemn "y"])]) true;
    HUpdate "d" (VMap [("aa", VInt 2); ("items", VList [item "y" 7; item "z" 3; itemn "x"])]);
    HApply "c" (VMap [("mm", VMap [("k", VInt 2)])]) true ].

(* ---------- exhaustive search over a pool ---------- *)
Fixpoint seqs {A} (pool : list A) (n : nat) : list (list A) :=
  match n with
  | O => [[]]
  | S n' => flat_map (fun o => map (fun r => o :: r) (seqs pool n')) pool
  end.

Definition all_ok (c : config) (ver : string) (ops : list hop) : bool :=
  forallb (fun t : bool * bool * bool => snd t) (trace c ver (VNull, []) ops).

Definition first_bad (c : config) (ver : string) (pool : list hop) (n : nat) : option (list hop) :=
  find (fun ops => negb (all_ok c ver ops)) (seqs pool n).

Definition count_fail (c : config) (ver : string) (pool : list hop) (n : nat) : nat * nat :=
  (List.length (seqs pool n),
   fold_left (fun acc ops => acc + List.length (filter (fun t : bool * bool * bool => snd (fst t)) (trace c ver (VNull, []) ops))) (seqs pool n) 0).

Definition dupx := VMap [("items", VList [item "x" 1; item "x" 2])].
Definition onex := VMap [("items", VList [item "x" 1])].
Definition onex2 := VMap [("items", VList [item "x" 2; item "y" 1])].
Definition subx := VMap [("items", VList [VMap [("name", VStr "x"); ("sub", VList [VMap [("id", VInt 1); ("w", VInt 1)]])]])].
Definition subx2 := VMap [("items", VList [VMap [("name", VStr "x"); ("sub", VList [VMap [("id", VInt 1); ("w", VInt 2)]; VMap [("id", VInt 2)]])]])].
Definition aix := VMap [("ai", VList [item "x" 1])].
Definition aix2 := VMap [("ai", VList [item "x" 2; item "y" 2])].
Definition pr1 := VMap [("pairs", VList [VMap [("a", VStr "p"); ("b", VInt 1); ("c", VInt 1)]])].
Definition pr2 := VMap [("pairs", VList [VMap [("a", VStr "p"); ("b", VFloat (QArith_base.Qmake 1 1)); ("c", VInt 2)]])].
Definition atm := VMap [("al", VList [VStr "a"]); ("at", VMap [("k", VInt 1)])].
Definition atm2 := VMap [("al", VList [VStr "b"]); ("at", VMap [("j", VInt 1); ("k", VInt 2)]); ("items", VList [VMap [("am", VMap [("q", VInt 1)]); ("name", VStr "x")]])].
Definition emp := VMap [("items", VList []); ("mm", VMap [])].
Definition nul := VMap [("aa", VNull); ("items", VNull)].

Definition objs := [dupx; onex; onex2; subx; subx2; aix; aix2; pr1; pr2; atm; atm2; emp; nul].

Definition pool (objs : list value) : list hop :=
  flat_map (fun o => app [HUpdate "a" o; HUpdate "b" o]
                     (if op_ok_b t_schema t_rt (HApply "a" o true) then [HApply "a" o true; HApply "b" o true; HApply "b" o false] else [])) objs.
