(* C19: the include-pattern filter keeps exactly the paths compatible with one of its
   patterns (Spec/Patterns.v).  Proofs in Proofs/IncludeFilter.v (the filter against the
   abstract semantics of a matcher), Proofs/IncludeOrder.v (sorted member lists, sm_find,
   sm_sort) and Proofs/IncludeDenote.v (Merge and the reference semantics). *)
From Coq Require Import List ZArith String Bool Arith Lia.
From SMD Require Import Base.Search Model.Value Model.Order Model.PathElem Model.PathSet Model.Matcher
  Spec.PathsAsSets Spec.Patterns Proofs.OrderLaws Proofs.PathSetLaws.
From SMD Require Proofs.TrieBase Proofs.IncludeFilter Proofs.IncludeOrder Proofs.IncludeDenote.
Import ListNotations.
Open Scope bool_scope.

Definition wf_pattern (p : list pematcher) : bool := forallb wf_pm p.

Theorem include_filter_exact : forall pats s,
  ps_ok s = true -> forallb wf_pattern pats = true ->
  ps_ok (ps_filter_include s (include_matcher (map prefix_matcher pats))) = true /\
  forall p, wf_path p = true ->
    ps_has p (ps_filter_include s (include_matcher (map prefix_matcher pats)))
    = ps_has p s && include_keeps pats p.
Proof.
  intros pats s Hok Hpats.
  assert (Hwf : IncludeDenote.pats_wf pats).
  { unfold IncludeDenote.pats_wf. rewrite Forall_forall. rewrite forallb_forall in Hpats.
    intros x Hx. exact (Hpats x Hx). }
  assert (Hm : IncludeFilter.sm_wf (include_matcher (map prefix_matcher pats))).
  { apply (IncludeDenote.include_matcher_keeps pats [] Hwf eq_refl). }
  destruct (IncludeFilter.filter_include_keeps s Hok _ Hm) as [R1 R2].
  split; [exact R1|].
  intros p Hp. rewrite (R2 p Hp).
  destruct (IncludeDenote.include_matcher_keeps pats p Hwf Hp) as [_ Hk]. rewrite Hk.
  destruct p as [|e rest]; [|reflexivity].
  rewrite TrieBase.ps_has_nil. reflexivity.
Qed.

