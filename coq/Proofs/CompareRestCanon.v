(* Objects equal up to the order of the members of sets and associative lists
   ([veq_assoc], Spec/Resolve.v) have an empty reference diff (Spec/RefDiff.v) -- for
   duplicate-free objects over a schema whose key fields are of scalar types
   ([keys_scalar], Proofs/KeyFields.v).  Without the latter the statement is false: see
   Proofs/CompareRest.v. *)
From Coq Require Import List ZArith String Bool Arith Lia.
From SMD Require Import Model.Value Model.Order Model.PathElem Model.PathSet Model.Schema Model.Walk
  Model.Validate Model.Merge Model.Compare Spec.PathsAsSets Spec.RefValid Spec.Resolve Spec.RefDiff
  Proofs.OrderLaws Proofs.KeyLaws Proofs.ValidateLaws Proofs.SchemaOk Proofs.FieldSetBase Proofs.FieldSetPaths
  Proofs.CompareBase Proofs.CompareTotal Proofs.RefDiffBase Proofs.RefDiffOneSided Proofs.RefDiffBoth
  Proofs.RefDiffPresent Proofs.RefDiffLaws Proofs.RefDiffChar Proofs.VeqbResolve Proofs.RemoveFrame
  Proofs.KeyFields Proofs.SameLeaves Proofs.RefDiffVeqb.
From SMD Require Proofs.MergeBase Proofs.MergeVeqbAux.
Import ListNotations.
Open Scope bool_scope.
Open Scope list_scope.

Lemma sorted_keys_map_val : forall (A B : Type) (h : string * A -> B) (m : list (string * A)),
  sorted_keys (map (fun kv => (fst kv, h kv)) m) = sorted_keys m.
Proof.
  intros A B h m. induction m as [|[k v] m IH]; [reflexivity|].
  destruct m as [|[k' v'] m']; [reflexivity|].
  change (map (fun kv => (fst kv, h kv)) ((k, v) :: (k', v') :: m'))
    with ((k, h (k, v)) :: map (fun kv => (fst kv, h kv)) ((k', v') :: m')).
  cbn [sorted_keys map fst] in *. rewrite IH. reflexivity.
Qed.

Lemma F2_in_r : forall (A B : Type) (P : A -> B -> Prop) l1 l2 y, Forall2 P l1 l2 -> In y l2 ->
  exists x, In x l1 /\ P x y.
Proof.
  intros A B P l1 l2 y H. induction H as [|a b l1 l2 Hab _ IH]; intros Hin; [destruct Hin|].
  destruct Hin as [->|Hin]; [exists a; split; [left; reflexivity|exact Hab]|].
  destruct (IH Hin) as (x & Hx & Hp). exists x. split; [right; exact Hx|exact Hp].
Qed.

(* the canonical form of a well-formed value is well formed *)
Lemma canon_fuel_wf : forall f s tr v, wf_value v = true -> wf_value (canon_fuel f s tr v) = true.
Proof.
  induction f as [|f IH]; intros s tr v Hw; [exact Hw|].
  cbn [canon_fuel]. destruct (kind_of s tr v) as [|t m|t l|] eqn:Ek; try exact Hw.
  - destruct (kind_map_inv _ _ _ _ _ Ek) as (a & _ & _ & Hv & _ & _). subst v.
    cbn [wf_value] in *. apply andb_true_iff in Hw. destruct Hw as [Hs Hall].
    apply andb_true_iff. split.
    + rewrite (sorted_keys_map_val value value (fun kv => canon_fuel f s (field_type t (fst kv)) (snd kv)) m).
      exact Hs.
    + apply forallb_forall. intros kv Hin. apply in_map_iff in Hin. destruct Hin as (kv0 & <- & Hin).
      cbn [snd]. apply IH. rewrite forallb_forall in Hall. apply (Hall kv0 Hin).
  - destruct (kind_list_inv _ _ _ _ _ Ek) as (a & _ & _ & Hv & _ & _). subst v.
    cbn [wf_value] in *. apply forallb_forall. intros y Hy.
    apply in_map_iff in Hy. destruct Hy as ([e y0] & E & Hy). cbn [snd] in E. subst y0.
    apply (proj1 (psort_in _ _)) in Hy. apply in_map_iff in Hy. destruct Hy as (x & E & Hx).
    rewrite forallb_forall in Hw. pose proof (Hw x Hx) as Hwx.
    injection E as _ Ey. subst y.
    match goal with |- context [if ?c then _ else _] => destruct c end; [exact Hwx|apply IH; exact Hwx].
Qed.

Lemma canon_wf : forall s tr v, wf_value v = true -> wf_value (canon s tr v) = true.
Proof. intros s tr v. unfold canon. apply canon_fuel_wf. Qed.

(* values of a scalar type are their own canonical form *)
Lemma canon_scalar_type : forall s tr sc v, resolve s tr = Some (Atom (Some sc) None None) ->
  canon s tr v = v.
Proof.
  intros s tr sc v Hr. apply canon_leafy. unfold leafy, kind_of. rewrite Hr. destruct v; exact I.
Qed.

Lemma canon_list_shape : forall s tr v t l, kind_of s tr v = KList t l -> exists l', canon s tr v = VList l'.
Proof. intros s tr v t l Ek. unfold canon. cbn [canon_fuel]. rewrite Ek. eexists. reflexivity. Qed.

Lemma keyed_go_canon : forall s t (h : string -> value -> value) m keys,
  (forall k v, In k keys -> h k v = v) ->
  keyed_go s t (map (fun kv : string * value => (fst kv, h (fst kv) (snd kv))) m) keys = keyed_go s t m keys.
Proof.
  intros s t h m keys. induction keys as [|k ks IH]; intros Hh; [reflexivity|].
  cbn [keyed_go]. rewrite assoc_get_map_val.
  rewrite IH by (intros k' v Hk'; apply Hh; right; exact Hk').
  destruct (assoc_get k m) as [v|]; [|reflexivity]. cbn [option_map].
  rewrite (Hh k v (or_introl eq_refl)). reflexivity.
Qed.

Section VA.
  Variables (s : schema) (R : typeref -> Prop).
  Hypothesis Hok : schema_ok s R.
  Hypothesis Hfam : family_refs s R.
  Hypothesis Hks : keys_scalar s R.

  (* the canonical form of a list member has the member's path element *)
  Lemma lipe_canon : forall tr a t x, R tr -> resolve s tr = Some a -> atom_list a = Some t ->
    list_item_to_pe s t (canon s (list_elem t) x) = list_item_to_pe s t x.
  Proof.
    intros tr a t x Htr Hr Hal. unfold list_item_to_pe.
    destruct (negb (rel_is_assoc (list_rel t))); [reflexivity|].
    destruct (kind_of s (list_elem t) x) as [|t' m|t' l'|] eqn:Ek.
    - rewrite canon_leafy by (unfold leafy; rewrite Ek; exact I). reflexivity.
    - rewrite (canon_map s _ _ _ _ Ek).
      destruct (kind_map_inv _ _ _ _ _ Ek) as (ea & Hre & Ham & Hv & _ & _). subst x.
      destruct (list_keys t) as [|k0 ks] eqn:Ekeys; [reflexivity|].
      rewrite !keyed_item_to_pe_eq, Ekeys.
      rewrite (keyed_go_canon s t (fun k c => canon s (field_type t' k) c) m (k0 :: ks)); [reflexivity|].
      intros k v Hk. rewrite <- Ekeys in Hk.
      destruct (Hks tr a t k ea t' Htr Hr Hal Hk Hre Ham) as (sc & Hrk).
      apply (canon_scalar_type s _ sc v Hrk).
    - destruct (canon_list_shape s _ _ _ _ Ek) as (l2 & ->).
      destruct (kind_list_inv _ _ _ _ _ Ek) as (ea & _ & _ & Hv & _ & _). subst x.
      destruct (list_keys t); reflexivity.
    - rewrite canon_leafy by (unfold leafy; rewrite Ek; exact I). reflexivity.
  Qed.
  (* the canonical form of a container is not a leaf *)
  Lemma kind_canon_map : forall tr v t m, kind_of s tr v = KMap t m ->
    kind_of s tr (canon s tr v) <> KLeaf.
  Proof.
    intros tr v t m Ek. rewrite (canon_map s _ _ _ _ Ek).
    destruct (kind_map_inv _ _ _ _ _ Ek) as (a & Hr & Ham & _ & Hna & Hne).
    unfold kind_of. rewrite Hr. destruct a as [sc li ma]. simpl in Ham. subst ma. rewrite Hna.
    destruct m as [|kv m]; [congruence|]. cbn [map]. discriminate.
  Qed.

  Lemma psort_cons_ne : forall x l, psort (x :: l) <> [].
  Proof.
    intros x l. unfold psort. cbn [fold_right]. destruct (fold_right insert_by_pe [] l) as [|y t]; cbn [insert_by_pe].
    - discriminate.
    - destruct (peless (fst y) (fst x)); discriminate.
  Qed.

  Lemma kind_canon_list : forall tr v t l, kind_of s tr v = KList t l ->
    kind_of s tr (canon s tr v) <> KLeaf.
  Proof.
    intros tr v t l Ek. unfold canon. cbn [canon_fuel]. rewrite Ek.
    destruct (kind_list_inv _ _ _ _ _ Ek) as (a & Hr & Hal & _ & Hna & Hne).
    unfold kind_of. rewrite Hr. destruct a as [sc li ma]. simpl in Hal. subst li. rewrite Hna.
    destruct l as [|x l]; [congruence|]. cbn [map].
    match goal with |- context [fold_right insert_by_pe [] (?h :: ?tl)] =>
      pose proof (psort_cons_ne h tl) as Hp; unfold psort in Hp;
      destruct (fold_right insert_by_pe [] (h :: tl)) as [|z zs]; [congruence|] end.
    cbn [map]. discriminate.
  Qed.

  Theorem ref_diff_fuel_veq_assoc : forall f q tr l r, R tr ->
    wf_value l = true -> wf_value r = true ->
    conforms s tr false l = true -> conforms s tr false r = true ->
    veq_assoc s tr l r = true ->
    ref_diff_fuel f s tr q l r = rd_empty.
  Proof.
    induction f as [|f IHf]; intros q tr l r Htr Hl Hr Cl Cr Hv; [reflexivity|].
    pose proof (MergeBase.conforms_dup_mono s l tr Cl) as Cl'.
    pose proof (MergeBase.conforms_dup_mono s r tr Cr) as Cr'.
    rewrite ref_diff_fuel_S. unfold ref_body. unfold veq_assoc in Hv.
    destruct (conf_resolve s tr true l Cl') as [a Hres].
    pose proof (conf_not_bad s tr a Hres l Cl') as Nl.
    pose proof (conf_not_bad s tr a Hres r Cr') as Nr.
    pose proof (canon_wf s tr l Hl) as Wcl. pose proof (canon_wf s tr r Hr) as Wcr.
    destruct (kind_of s tr l) as [|t lm|t ll|] eqn:Kl; [| | |contradiction Nl; reflexivity];
      (destruct (kind_of s tr r) as [|t2 rm|t2 rl|] eqn:Kr; [| | |contradiction Nr; reflexivity]).
    - (* leaf, leaf *)
      rewrite (canon_leafy s tr l), (canon_leafy s tr r) in Hv by (unfold leafy; rewrite ?Kl, ?Kr; exact I).
      rewrite (veqb_sym r l Hr Hl), Hv. reflexivity.
    - (* leaf, map *)
      exfalso. rewrite (canon_leafy s tr l) in Hv by (unfold leafy; rewrite Kl; exact I).
      apply (kind_canon_map tr r t2 rm Kr). apply (kind_leaf_veqb s tr l _ Hv Kl).
    - (* leaf, list *)
      exfalso. rewrite (canon_leafy s tr l) in Hv by (unfold leafy; rewrite Kl; exact I).
      apply (kind_canon_list tr r t2 rl Kr). apply (kind_leaf_veqb s tr l _ Hv Kl).
    - (* map, leaf *)
      exfalso. rewrite (canon_leafy s tr r) in Hv by (unfold leafy; rewrite Kr; exact I).
      rewrite (veqb_sym _ r Wcl Hr) in Hv.
      apply (kind_canon_map tr l t lm Kl). apply (kind_leaf_veqb s tr r _ Hv Kr).
    - (* map, map *)
      destruct (map_side s R Hok tr a l t lm Htr Hres Hl Cl' Kl) as [Ht _].
      destruct (map_side s R Hok tr a r t2 rm Htr Hres Hr Cr' Kr) as [Ht2 _].
      rewrite Ht in Ht2. inversion Ht2; subst t2. clear Ht2.
      rewrite (canon_map s tr l t lm Kl) in Hv, Wcl. rewrite (canon_map s tr r t rm Kr) in Hv, Wcr.
      destruct (MergeVeqbAux.veqb_map_facts _ _ Wcl Wcr Hv) as [Hkeys Hget].
      assert (Hkeys' : map fst lm = map fst rm).
      { rewrite !map_map in Hkeys. exact Hkeys. }
      unfold rd_maps. apply fold_rd_empty. intros k _. unfold rd_map_G.
      destruct (assoc_get k lm) as [x|] eqn:E1.
      + specialize (Hget k (canon s (field_type t k) x)).
        rewrite !(assoc_get_map_val (fun k c => canon s (field_type t k) c)), E1 in Hget.
        destruct (Hget eq_refl) as (v2 & Hv2 & Hxy).
        destruct (assoc_get k rm) as [y|] eqn:E2; [|discriminate].
        cbn [option_map] in Hv2. inversion Hv2; subst v2.
        destruct (map_child_ok s R Hok tr false t l lm k x Htr Hl Cl Kl (RemoveAbsent.assoc_get_In _ _ _ E1))
          as (Rc & Wx & Cx & _ & _).
        destruct (map_child_ok s R Hok tr false t r rm k y Htr Hr Cr Kr (RemoveAbsent.assoc_get_In _ _ _ E2))
          as (_ & Wy & Cy & _ & _).
        apply IHf; auto.
      + destruct (assoc_get k rm) as [y|] eqn:E2; [|reflexivity]. exfalso.
        pose proof (assoc_get_some_key rm k y E2) as Hin. rewrite <- Hkeys' in Hin.
        destruct (assoc_get_In_keys lm k Hin) as (x & Ex). congruence.
    - (* map, list *)
      exfalso. rewrite (canon_map s tr l t lm Kl) in Hv.
      destruct (canon_list_shape s tr r t2 rl Kr) as (l2 & E2). rewrite E2 in Hv.
      simpl in Hv. discriminate Hv.
    - (* list, leaf *)
      exfalso. rewrite (canon_leafy s tr r) in Hv by (unfold leafy; rewrite Kr; exact I).
      rewrite (veqb_sym _ r Wcl Hr) in Hv.
      apply (kind_canon_list tr l t ll Kl). apply (kind_leaf_veqb s tr r _ Hv Kr).
    - (* list, map *)
      exfalso. rewrite (canon_map s tr r t2 rm Kr) in Hv.
      destruct (canon_list_shape s tr l t ll Kl) as (l2 & E2). rewrite E2 in Hv.
      simpl in Hv. discriminate Hv.
    - (* list, list *)
      destruct (list_side s R Hok Hfam tr a l t ll Htr Hres Hl Cl' Kl) as (Ht & Hiwl & Hhl & (gl & Hgl) & _).
      destruct (list_side s R Hok Hfam tr a r t2 rl Htr Hres Hr Cr' Kr) as (Ht2 & Hiwr & Hhr & (gr & Hgr) & _).
      rewrite Ht in Ht2. inversion Ht2; subst t2. clear Ht2.
      destruct (list_ok s R Hok Hfam tr false t l ll Htr Hl Cl Kl) as (_ & Rte & _ & _ & Hml & Hdl).
      destruct (list_ok s R Hok Hfam tr false t r rl Htr Hr Cr Kr) as (_ & _ & _ & _ & Hmr & Hdr).
      cbn [orb] in Hdl, Hdr.
      assert (S1 : forall x, In x ll -> occ s t (pe_of s t x) ll = [x]).
      { intros x Hx. apply distinct_single; assumption. }
      assert (S2 : forall y, In y rl -> occ s t (pe_of s t y) rl = [y]).
      { intros y Hy. apply distinct_single; assumption. }
      rewrite (canon_list s tr l t ll Kl Hhl S1), (canon_list s tr r t rl Kr Hhr S2) in Hv.
      rewrite veqb_list in Hv. apply MergeVeqbAux.all2b_F2 in Hv.
      set (et := list_elem t) in *.
      (* a member and its canonical form have the same path element *)
      assert (PE : forall L x, forallb (has_pe s t) L = true -> items_wf s t L -> In x L ->
                list_item_to_pe s t (canon s et x) = Some (pe_of s t x) /\ wf_pe (pe_of s t x) = true).
      { intros L x HhL HiL Hx. destruct (pe_of_facts s t L x HhL HiL Hx) as (E & W & _).
        split; [|exact W]. unfold et. rewrite (lipe_canon tr a t x Htr Hres Ht). exact E. }
      assert (KEY : forall x y, In x ll -> In y rl -> veqb (canon s et x) (canon s et y) = true ->
                peeqb (pe_of s t x) (pe_of s t y) = true).
      { intros x y Hx Hy Hxy.
        destruct (PE ll x Hhl Hiwl Hx) as (Ex & _). destruct (PE rl y Hhr Hiwr Hy) as (Ey & _).
        apply (MergeVeqbAux.item_pe_veqb s t (canon s et x) (canon s et y) _ _
                 (elem_defaults_R s R Hok t Rte)
                 (canon_wf s et x (proj1 (Hml x Hx))) (canon_wf s et y (proj1 (Hmr y Hy))) Hxy Ex Ey). }
      assert (INL : forall L z, In z (map snd (psort (map (fun x => (pe_of s t x, canon s et x)) L))) <->
                exists x, In x L /\ z = canon s et x).
      { intros L z. rewrite in_map_iff. split.
        - intros ([e z0] & E & Hin). cbn [snd] in E. subst z0. apply (proj1 (psort_in _ _)) in Hin.
          apply in_map_iff in Hin. destruct Hin as (x & E & Hx). inversion E; subst. exists x. auto.
        - intros (x & Hx & ->). exists (pe_of s t x, canon s et x). split; [reflexivity|].
          apply (proj2 (psort_in _ _)). apply in_map_iff. exists x. auto. }
      assert (M1 : forall x, In x ll -> exists y, In y rl /\ veqb (canon s et x) (canon s et y) = true /\
                peeqb (pe_of s t x) (pe_of s t y) = true).
      { intros x Hx.
        destruct (F2_in_l _ _ _ _ _ (canon s et x) Hv) as (z & Hz & Hxz).
        { apply (proj2 (INL ll _)). exists x. auto. }
        apply (proj1 (INL rl z)) in Hz. destruct Hz as (y & Hy & ->).
        exists y. split; [exact Hy|]. split; [exact Hxz|]. apply KEY; assumption. }
      assert (M2 : forall y, In y rl -> exists x, In x ll /\ veqb (canon s et x) (canon s et y) = true /\
                peeqb (pe_of s t x) (pe_of s t y) = true).
      { intros y Hy.
        destruct (F2_in_r _ _ _ _ _ (canon s et y) Hv) as (z & Hz & Hzy).
        { apply (proj2 (INL rl _)). exists y. auto. }
        apply (proj1 (INL ll z)) in Hz. destruct Hz as (x & Hx & ->).
        exists x. split; [exact Hx|]. split; [exact Hzy|]. apply KEY; assumption. }
      (* the members at a path element *)
      assert (OCC : forall L e x, forallb (has_pe s t) L = true -> items_wf s t L ->
                (forall z, In z L -> occ s t (pe_of s t z) L = [z]) ->
                wf_pe e = true -> In x L -> peeqb (pe_of s t x) e = true -> occ s t e L = [x]).
      { intros L e x HhL HiL SL He Hx Hpe.
        destruct (pe_of_facts s t L x HhL HiL Hx) as (_ & W & _).
        rewrite (occ_cong s t L e (pe_of s t x) HiL He W), (SL x Hx); [reflexivity|].
        rewrite (peeqb_sym e _ He W). exact Hpe. }
      unfold rd_lists. rewrite Hgl, Hgr. apply fold_rd_empty. intros e Hin.
      pose proof (all_wfR s t ll rl gl gr Hiwl Hiwr Hgl Hgr e Hin) as He.
      unfold rd_list_G. rewrite (LklR s t ll gl Hiwl Hgl e He), (LklR s t rl gr Hiwr Hgr e He).
      destruct (occ s t e ll) as [|x xs] eqn:Eo1.
      + destruct (occ s t e rl) as [|y ys] eqn:Eo2; [reflexivity|]. exfalso.
        assert (Hy : In y (occ s t e rl)) by (rewrite Eo2; left; reflexivity).
        apply occ_In in Hy. destruct Hy as [Hy Hmy].
        rewrite (matches_pe_of s t rl e y Hhr Hy) in Hmy.
        destruct (M2 y Hy) as (x & Hx & _ & Hxy).
        destruct (pe_of_facts s t ll x Hhl Hiwl Hx) as (_ & Wx & _).
        destruct (pe_of_facts s t rl y Hhr Hiwr Hy) as (_ & Wy & _).
        pose proof (MergeBase.peeqb_trans _ _ _ Wx Wy He Hxy Hmy) as Hxe.
        rewrite (OCC ll e x Hhl Hiwl S1 He Hx Hxe) in Eo1. discriminate.
      + assert (Hx : In x (occ s t e ll)) by (rewrite Eo1; left; reflexivity).
        apply occ_In in Hx. destruct Hx as [Hx Hmx].
        rewrite (matches_pe_of s t ll e x Hhl Hx) in Hmx.
        destruct (M1 x Hx) as (y & Hy & Hcxy & Hxy).
        destruct (pe_of_facts s t ll x Hhl Hiwl Hx) as (_ & Wx & _).
        destruct (pe_of_facts s t rl y Hhr Hiwr Hy) as (_ & Wy & _).
        assert (Hye : peeqb (pe_of s t y) e = true).
        { apply (MergeBase.peeqb_trans _ (pe_of s t x) _ Wy Wx He); [|exact Hmx].
          rewrite (peeqb_sym _ _ Wy Wx). exact Hxy. }
        pose proof (OCC ll e x Hhl Hiwl S1 He Hx Hmx) as O1. rewrite Eo1 in O1.
        injection O1 as O1. subst xs.
        rewrite (OCC rl e y Hhr Hiwr S2 He Hy Hye). cbv beta iota zeta.
        destruct (Hml x Hx) as (Wvx & Cx & _). destruct (Hmr y Hy) as (Wvy & Cy & _).
        apply IHf; auto.
  Qed.

  Corollary ref_diff_veq_assoc : forall tr l r, R tr ->
    wf_value l = true -> wf_value r = true ->
    conforms s tr false l = true -> conforms s tr false r = true ->
    veq_assoc s tr l r = true ->
    ref_diff s tr l r = rd_empty.
  Proof. intros tr l r Htr Hl Hr Cl Cr Hv. unfold ref_diff. apply ref_diff_fuel_veq_assoc; auto. Qed.
End VA.
