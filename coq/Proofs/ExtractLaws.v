(* Extracting the leaves of an object's field set gives the object back. *)
From Coq Require Import List ZArith String Bool Arith Lia.
From SMD Require Import Model.Value Model.Order Model.PathElem Model.PathSet Model.Schema
  Model.Walk Model.FieldSet Model.Remove Spec.PathsAsSets Spec.RefValid Spec.Resolve
  Proofs.OrderLaws Proofs.KeyLaws Proofs.PathSetLaws Proofs.ValidateLaws Proofs.SchemaOk
  Proofs.FieldSetMirrors Proofs.FieldSetBase Proofs.FieldSetShape Proofs.FieldSetPaths
  Proofs.RemoveBase Proofs.ExtractBase.
Import ListNotations.
Open Scope bool_scope.

Lemma remove_items_vlist' : forall s extract tr T sc t ma l,
  resolve s tr = Some (Atom sc (Some t) ma) -> l <> [] ->
  remove_items s extract tr T (VList l) =
  if rel_is_atomic (list_rel t) then (if extract then VList l else VNull)
  else match rm_list_go s extract T t l with [] => VNull | items => VList items end.
Proof.
  intros s extract tr T sc t ma l Hr Hne. destruct l as [|x l]; [contradiction|].
  apply (remove_items_vlist _ _ _ _ _ _ _ _ _ Hr).
Qed.

Lemma remove_items_vmap' : forall s extract tr T sc li t m,
  resolve s tr = Some (Atom sc li (Some t)) -> m <> [] ->
  remove_items s extract tr T (VMap m) =
  if rel_is_atomic (map_rel t) then (if extract then VMap m else VNull)
  else match rm_map_go s extract T t m with [] => VNull | out => VMap out end.
Proof.
  intros s extract tr T sc li t m Hr Hne. destruct m as [|kv m]; [contradiction|].
  apply (remove_items_vmap _ _ _ _ _ _ _ _ _ Hr).
Qed.

(* ---------- distinct members ---------- *)
Lemma occ_in_pes_of : forall s t e l y, In y (occ s t e l) ->
  exists ey, list_item_to_pe s t y = Some ey /\ peeqb ey e = true /\ In ey (pes_of s t l) /\ In y l.
Proof.
  intros s t e l y H. apply occ_In in H. destruct H as [Hy Hm]. unfold pe_matches in Hm.
  destruct (list_item_to_pe s t y) as [ey|] eqn:Ey; [|discriminate].
  exists ey. repeat split; auto. unfold pes_of. apply in_flat_map. exists y. split; [exact Hy|].
  rewrite Ey. simpl. auto.
Qed.

Lemma distinct_occ : forall s t l e, all_distinct (pes_of s t l) = true -> items_wf s t l ->
  wf_pe e = true -> (2 <=? List.length (occ s t e l)) = false.
Proof.
  intros s t l e. induction l as [|x l IH]; intros Hd Hiw He; [reflexivity|].
  apply items_wf_cons in Hiw. destruct Hiw as [Hwx Hiw].
  rewrite occ_cons. unfold pe_matches. unfold pes_of in Hd. simpl in Hd. fold (pes_of s t l) in Hd.
  destruct (list_item_to_pe s t x) as [ex|] eqn:Ex; [|apply IH; auto].
  simpl in Hd. apply andb_true_iff in Hd. destruct Hd as [Hnx Hd].
  destruct (peeqb ex e) eqn:Exe; [|apply IH; auto].
  destruct (occ s t e l) as [|y r] eqn:Eocc; [reflexivity|]. exfalso.
  assert (Hy : In y (occ s t e l)) by (rewrite Eocc; simpl; auto).
  destruct (occ_in_pes_of s t e l y Hy) as (ey & Hey & Heye & Hin & Hyl).
  assert (Hwex : wf_pe ex = true) by (apply Hwx; reflexivity).
  assert (Hwey : wf_pe ey = true) by (apply (Hiw y ey Hyl Hey)).
  apply negb_true_iff in Hnx.
  assert (existsb (peeqb ex) (pes_of s t l) = true).
  { apply existsb_exists. exists ey. split; [exact Hin|].
    rewrite (peeqb_cong_r ex ey e Hwex Hwey He Heye). exact Exe. }
  congruence.
Qed.

Section Extract.
  Variables (s : schema) (R : typeref -> Prop).
  Hypothesis Hok : schema_ok s R.
  (* every list reached is associative or atomic: the members of any other granular list
     all get the zero path element (Model/Walk.v) and the laws below fail *)
  Hypothesis Hfam : family_refs s R.

  (* what the field-set walker does on a granular list without duplicates *)
  Lemma list_shape_distinct : forall tr sc t ma l,
    R tr -> resolve s tr = Some (Atom sc (Some t) ma) -> rel_is_atomic (list_rel t) = false ->
    wf_value (VList l) = true -> conforms s tr false (VList l) = true ->
    fse s tr (VList l) = false ->
    exists d, fsp s tr (VList l) = flat_map (item_paths s t d) l /\
      forallb (has_pe s t) l = true /\ existsb (item_err s t d) l = false /\
      (forall e, wf_pe e = true -> pes_has e d = false) /\
      (forall e, wf_pe e = true -> (2 <=? List.length (occ s t e l)) = false) /\
      items_wf s t l /\ forallb (fun x => conforms s (list_elem t) false x) l = true.
  Proof.
    intros tr sc t ma l Htr Hr Hat Hwf Hc Hfse.
    assert (Hte : R (list_elem t)) by (eapply (so_list s R Hok); eauto; reflexivity).
    assert (Hiw : items_wf s t l) by (eapply items_wf_R; eauto).
    unfold fse in Hfse. unfold fsp. rewrite fs_paths_nil_eq, Hr, handle_vlist, Hat in *.
    assert (Hrel : list_rel t = RAssociative).
    { destruct (Hfam tr _ t Htr Hr eq_refl) as [H|H]; [exact H|]. rewrite H in Hat. discriminate. }
    rewrite conforms_eq, Hr, Hrel in Hc.
    apply andb_true_iff in Hc. destruct Hc as [Hc Hdist]. simpl in Hdist.
    apply andb_true_iff in Hc. destruct Hc as [Hhas Hconf].
    destruct (pass1_spec s t [] l [] [] [] false eq_refl eq_refl eq_refl eq_refl Hiw Hhas)
      as (d & new & Heq & Hsd & Hwd & Hmem & Hnew).
    rewrite Heq in *. simpl in Hfse. simpl. pose proof Hfse as Hie.
    assert (Hocc : forall e, wf_pe e = true -> (2 <=? List.length (occ s t e l)) = false).
    { intros e He. apply distinct_occ; auto. }
    assert (Hnew0 : new = []).
    { destruct new as [|q new']; [reflexivity|]. exfalso.
      destruct (Hnew q (or_introl eq_refl)) as (e & _ & He & H3).
      rewrite (Hocc e He) in H3. simpl in H3. discriminate. }
    subst new. exists d. simpl. repeat split; auto.
    intros e He. rewrite (pes_has_spec e d Hsd Hwd He), (Hmem e He), (Hocc e He). reflexivity.
  Qed.

  Lemma map_shape : forall tr sc li t m,
    resolve s tr = Some (Atom sc li (Some t)) -> rel_is_atomic (map_rel t) = false ->
    fsp s tr (VMap m) = flat_map (entry_paths s t) m /\
    fse s tr (VMap m) = existsb (entry_err s t) m.
  Proof.
    intros tr sc li t m Hr Hat. unfold fsp, fse.
    rewrite fs_paths_nil_eq, Hr, handle_vmap, Hat. split; reflexivity.
  Qed.

  Lemma plain_list_in : forall l x, plain (VList l) = true -> In x l -> plain x = true.
  Proof.
    intros l x H Hx. destruct l as [|y l']; [contradiction|].
    change (forallb plain (y :: l') = true) in H. rewrite forallb_forall in H. auto.
  Qed.

  Lemma plain_map_in : forall m k c, plain (VMap m) = true -> In (k, c) m -> plain c = true.
  Proof.
    intros m k c H Hx. destruct m as [|y m']; [contradiction|].
    change (forallb (fun kv => plain (snd kv)) (y :: m') = true) in H.
    rewrite forallb_forall in H. apply (H (k, c) Hx).
  Qed.

  Lemma plain_list_ne : forall l, plain (VList l) = true -> l <> [].
  Proof. intros l H ->. discriminate. Qed.
  Lemma plain_map_ne : forall m, plain (VMap m) = true -> m <> [].
  Proof. intros m H ->. discriminate. Qed.

  Lemma fsp_nonempty : forall v tr, R tr -> wf_value v = true -> conforms s tr false v = true ->
    plain v = true -> fse s tr v = false -> fsp s tr v <> [].
  Proof.
    intros v. induction v as [|b|z|q0|str|l IHl|m IHm] using value_ind'; intros tr Htr Hwf Hc Hpl Hfse;
      try discriminate;
      pose proof Hc as Hc'; rewrite conforms_eq in Hc';
      (destruct (resolve s tr) as [[sc li ma]|] eqn:Er; [|discriminate]);
      try (destruct sc; [|discriminate]; unfold fsp; rewrite fs_paths_nil_eq, Er; simpl; discriminate).
    - destruct li as [t|]; [|discriminate].
      destruct (rel_is_atomic (list_rel t)) eqn:Eat.
      { unfold fsp. rewrite fs_paths_nil_eq, Er, handle_vlist, Eat. discriminate. }
      destruct (list_shape_distinct tr sc t ma l Htr Er Eat Hwf Hc Hfse)
        as (d & Hfsp & Hhas & _ & Hd & _ & Hiw & _).
      rewrite Hfsp. destruct l as [|x l']; [discriminate|].
      simpl in Hhas. apply andb_true_iff in Hhas. destruct Hhas as [Hx _]. unfold has_pe in Hx.
      destruct (list_item_to_pe s t x) as [e|] eqn:Ee; [|discriminate].
      cbn [flat_map]. rewrite (item_paths_some s t d x e Ee).
      rewrite (Hd e (Hiw x e (or_introl eq_refl) Ee)).
      destruct (fsp s (list_elem t) x); discriminate.
    - destruct ma as [t|]; [|discriminate].
      destruct (rel_is_atomic (map_rel t)) eqn:Eat.
      { unfold fsp. rewrite fs_paths_nil_eq, Er, handle_vmap, Eat. discriminate. }
      destruct (map_shape tr sc li t m Er Eat) as [Hfsp Hfe]. rewrite Hfsp.
      destruct m as [|[k c] m']; [discriminate|].
      inversion IHm as [|? ? IHc _]; subst. simpl in IHc.
      assert (Hin : In (k, c) ((k, c) :: m')) by (simpl; auto).
      assert (fsp s (field_type t k) c <> []).
      { apply IHc.
        - eapply (so_map s R Hok); eauto.
        - eapply wf_value_map_in; eauto.
        - eapply cmap_each_in; eauto.
        - eapply plain_map_in; eauto.
        - rewrite Hfe in Hfse. apply (existsb_false_in _ _ _ (k, c) Hfse Hin). }
      simpl. unfold entry_paths at 1. simpl.
      destruct (fsp s (field_type t k) c); [contradiction|discriminate].
  Qed.

  (* a member is either a leaf (its only path is the empty one and extraction keeps it
     whole) or granular (it has paths, all non-empty) *)
  Lemma child_class : forall v tr, R tr -> wf_value v = true -> conforms s tr false v = true ->
    plain v = true -> fse s tr v = false ->
    (fsp s tr v = [[]] /\ forall T, remove_items s true tr T v = v) \/
    (fsp s tr v <> [] /\ forall q, In q (fsp s tr v) -> q <> []).
  Proof.
    intros v tr Htr Hwf Hc Hpl Hfse.
    pose proof (fsp_nonempty v tr Htr Hwf Hc Hpl Hfse) as Hne.
    pose proof Hc as Hc'. rewrite conforms_eq in Hc'.
    destruct (resolve s tr) as [[sc li ma]|] eqn:Er; [|discriminate].
    destruct v as [|b|z|q0|str|l|m]; try discriminate;
      try (left; destruct sc; [|discriminate]; split;
           [unfold fsp; rewrite fs_paths_nil_eq, Er; reflexivity
           |intros T; rewrite remove_items_eq, Er; reflexivity]).
    - destruct li as [t|]; [|discriminate].
      destruct (rel_is_atomic (list_rel t)) eqn:Eat.
      + left. split.
        * unfold fsp. rewrite fs_paths_nil_eq, Er, handle_vlist, Eat. reflexivity.
        * intros T. rewrite (remove_items_vlist' _ _ _ _ _ _ _ _ Er (plain_list_ne l Hpl)), Eat.
          reflexivity.
      + right. split; [exact Hne|].
        destruct (list_shape_distinct tr sc t ma l Htr Er Eat Hwf Hc Hfse) as (d & Hfsp & _).
        rewrite Hfsp. intros q Hq. apply in_flat_map in Hq. destruct Hq as (x & _ & Hq).
        unfold item_paths in Hq. cbv zeta in Hq.
        destruct (pes_has (list_item_pe_or_zero s t x) d); [contradiction|]. apply in_map_iff in Hq.
        destruct Hq as (q' & <- & _). discriminate.
    - destruct ma as [t|]; [|discriminate].
      destruct (rel_is_atomic (map_rel t)) eqn:Eat.
      + left. split.
        * unfold fsp. rewrite fs_paths_nil_eq, Er, handle_vmap, Eat. reflexivity.
        * intros T. rewrite (remove_items_vmap' _ _ _ _ _ _ _ _ Er (plain_map_ne m Hpl)), Eat.
          reflexivity.
      + right. split; [exact Hne|].
        destruct (map_shape tr sc li t m Er Eat) as [Hfsp _].
        rewrite Hfsp. intros q Hq. apply in_flat_map in Hq. destruct Hq as (kv & _ & Hq).
        unfold entry_paths in Hq. apply in_map_iff in Hq.
        destruct Hq as (q' & <- & _). discriminate.
  Qed.
End Extract.

Section ExtractMain.
  Variables (s : schema) (R : typeref -> Prop).
  Hypothesis Hok : schema_ok s R.
  Hypothesis Hfam : family_refs s R.

  Lemma leaves_of_child : forall T L e X Y,
    leaves_of T L -> wf_pe e = true ->
    (forall p, leafmem L (e :: p) = leafmem (X ++ Y) p) -> (forall q, In q Y -> q = []) ->
    leaves_of (ps_with_prefix e T) X /\ ps_has [e] T = leafmem (X ++ Y) [].
  Proof.
    intros T L e X Y [HTok Hl] He Hg HY.
    destruct (ps_with_prefix_spec e T HTok He) as [Hwok Hw]. split; [split; [exact Hwok|]|].
    - intros p Hp Hne. rewrite (Hw p Hp Hne).
      rewrite (Hl (e :: p)) by (try apply wf_path_cons; auto; discriminate).
      rewrite Hg. apply leafmem_app_nils; auto.
    - rewrite (Hl [e]) by (try (apply wf_path_cons; split; auto); discriminate). apply Hg.
  Qed.

  Theorem extract_gen : forall v tr T, R tr -> wf_value v = true ->
    conforms s tr false v = true -> plain v = true -> fse s tr v = false ->
    leaves_of T (fsp s tr v) -> remove_items s true tr T v = v.
  Proof.
    intros v. induction v as [|b|z|q0|str|l IHl|m IHm] using value_ind';
      intros tr T Htr Hwf Hc Hpl Hfse Hlv; try discriminate;
      pose proof Hc as Hc'; rewrite conforms_eq in Hc';
      (destruct (resolve s tr) as [[sc li ma]|] eqn:Er; [|discriminate]);
      try (destruct sc; [|discriminate]; rewrite remove_items_eq, Er; reflexivity).
    - (* list *)
      destruct li as [t|]; [|discriminate].
      pose proof (plain_list_ne l Hpl) as Hne.
      rewrite (remove_items_vlist' _ _ _ _ _ _ _ _ Er Hne).
      destruct (rel_is_atomic (list_rel t)) eqn:Eat; [reflexivity|].
      assert (Hgo : rm_list_go s true T t l = l).
      2:{ rewrite Hgo. destruct l; [contradiction|reflexivity]. }
      destruct (list_shape_distinct s R Hok Hfam tr sc t ma l Htr Er Eat Hwf Hc Hfse)
        as (d & Hfsp & Hhas & Hie & Hd & Hocc & Hiw & Hconf).
      assert (Hte : R (list_elem t)) by (eapply (so_list s R Hok); eauto; reflexivity).
      apply rm_list_go_id. intros x rest Hx.
      rewrite forallb_forall in Hhas. pose proof (Hhas x Hx) as Hxe. unfold has_pe in Hxe.
      destruct (list_item_to_pe s t x) as [e|] eqn:Ee; [|discriminate].
      assert (He : wf_pe e = true) by (apply (Hiw x e Hx Ee)).
      assert (Hwx : wf_value x = true) by (eapply wf_value_list_in; eauto).
      assert (Hcx : conforms s (list_elem t) false x = true).
      { rewrite forallb_forall in Hconf. apply Hconf. exact Hx. }
      assert (Hpx : plain x = true) by (eapply plain_list_in; eauto).
      assert (Hfx : fse s (list_elem t) x = false).
      { pose proof (existsb_false_in _ _ _ x Hie Hx) as H. rewrite (item_err_some s t d x e Ee), (Hd e He) in H. exact H. }
      assert (Hgrp : forall p, leafmem (fsp s tr (VList l)) (e :: p)
                               = leafmem (fsp s (list_elem t) x ++ [[]]) p).
      { rewrite Hfsp. apply (group_leafmem _ (item_paths s t d) l x e); auto.
        - rewrite (item_paths_some s t d x e Ee), (Hd e He). reflexivity.
        - intros i Hi. pose proof (Hhas i Hi) as Hie'. unfold has_pe in Hie'.
          destruct (list_item_to_pe s t i) as [ei|] eqn:Eei; [|discriminate].
          assert (Hei : wf_pe ei = true) by (apply (Hiw i ei Hi Eei)).
          destruct (peeqb e ei) eqn:Eeq.
          + left.
            assert (Hxo : In x (occ s t e l)).
            { apply In_occ; [exact Hx|]. unfold pe_matches. rewrite Ee. apply peeqb_refl. exact He. }
            assert (Hio : In i (occ s t e l)).
            { apply In_occ; [exact Hi|]. unfold pe_matches. rewrite Eei.
              rewrite (peeqb_sym ei e Hei He). exact Eeq. }
            rewrite (length_lt2_in _ _ _ Hxo (Hocc e He)) in Hio.
            destruct Hio as [Hio|[]]. auto.
          + right. intros q Hq. rewrite (item_paths_some s t d i ei Eei), (Hd ei Hei) in Hq.
            apply in_map_iff in Hq. destruct Hq as (q' & <- & _). exists ei, q'. auto. }
      destruct (leaves_of_child T _ e _ [[]] Hlv He Hgrp) as [Hsub Hhase].
      { intros q [<-|[]]. reflexivity. }
      unfold rm_list_step. rewrite (list_item_pe_or_zero_some s t x e Ee). cbv zeta.
      unfold rm_has, rm_subset.
      destruct (child_class s R Hok Hfam x (list_elem t) Hte Hwx Hcx Hpx Hfx) as [[Hleaf Hrm]|[Hgne Hgq]].
      + (* leaf member *)
        rewrite Hleaf in Hhase, Hsub.
        assert (Hh : ps_has [e] T = true).
        { rewrite Hhase. apply (leafmem_nil_leaf [[]]). intros q [<-|[]]; reflexivity. }
        rewrite Hh.
        rewrite (leaves_of_empty _ _ Hsub).
        2:{ intros p Hp. apply leafmem_only_nils; auto. intros q [<-|[]]. reflexivity. }
        simpl. rewrite Hrm. reflexivity.
      + (* granular member *)
        assert (Hh : ps_has [e] T = false).
        { rewrite Hhase. apply leafmem_nil_granular; auto. }
        rewrite Hh.
        rewrite (leaves_of_nonempty _ _ Hsub Hgne (fsp_wf_all s R Hok x _ Hte Hwx) Hgq).
        simpl. f_equal. rewrite Forall_forall in IHl. apply (IHl x Hx); auto.
    - (* map *)
      destruct ma as [t|]; [|discriminate].
      pose proof (plain_map_ne m Hpl) as Hne.
      rewrite (remove_items_vmap' _ _ _ _ _ _ _ _ Er Hne).
      destruct (rel_is_atomic (map_rel t)) eqn:Eat; [reflexivity|].
      assert (Hgo : rm_map_go s true T t m = m).
      2:{ rewrite Hgo. destruct m; [contradiction|reflexivity]. }
      destruct (map_shape s tr sc li t m Er Eat) as [Hfsp Hfe].
      rewrite Hfe in Hfse.
      apply rm_map_go_id. intros [k c] rest Hkc.
      assert (Hft : R (field_type t k)) by (eapply (so_map s R Hok); eauto; reflexivity).
      assert (Hwc : wf_value c = true) by (eapply wf_value_map_in; eauto).
      assert (Hcc : conforms s (field_type t k) false c = true) by (eapply cmap_each_in; eauto).
      assert (Hpc : plain c = true) by (eapply plain_map_in; eauto).
      assert (Hfc : fse s (field_type t k) c = false)
        by (apply (existsb_false_in _ _ _ (k, c) Hfse Hkc)).
      assert (Hsorted : sorted_keys m = true).
      { simpl in Hwf. apply andb_true_iff in Hwf. apply Hwf. }
      assert (Hgrp : forall p, leafmem (fsp s tr (VMap m)) (PEField k :: p)
                               = leafmem (fsp s (field_type t k) c ++ own0 t k c) p).
      { rewrite Hfsp. apply (group_leafmem _ (entry_paths s t) m (k, c) (PEField k)); auto.
        intros [k' c'] Hi. destruct (String.eqb k k') eqn:Ek.
        - left. apply String.eqb_eq in Ek. subst k'.
          pose proof (assoc_get_in_sorted m k c Hsorted Hkc) as H1.
          pose proof (assoc_get_in_sorted m k c' Hsorted Hi) as H2.
          rewrite H1 in H2. inversion H2. reflexivity.
        - right. intros q Hq. unfold entry_paths in Hq. simpl in Hq.
          apply in_map_iff in Hq. destruct Hq as (q' & <- & _). exists (PEField k'), q'. auto. }
      destruct (leaves_of_child T _ (PEField k) _ (own0 t k c) Hlv eq_refl Hgrp) as [Hsub Hhase].
      { intros q Hq. eapply own0_in; eauto. }
      unfold rm_map_step. cbn [fst snd].
      destruct (child_class s R Hok Hfam c (field_type t k) Hft Hwc Hcc Hpc Hfc) as [[Hleaf Hrm]|[Hgne Hgq]].
      + rewrite Hleaf in Hhase, Hsub.
        assert (Hh : ps_has [PEField k] T = true).
        { rewrite Hhase. apply (leafmem_nil_leaf (own0 t k c)). intros q Hq; eapply own0_in; eauto. }
        rewrite Hh, Hrm. reflexivity.
      + assert (Hh : ps_has [PEField k] T = false).
        { rewrite Hhase. apply leafmem_nil_granular; auto. }
        rewrite Hh.
        rewrite (leaves_of_nonempty _ _ Hsub Hgne (fsp_wf_all s R Hok c _ Hft Hwc) Hgq).
        simpl. f_equal. f_equal. rewrite Forall_forall in IHm. apply (IHm (k, c) Hkc); auto.
  Qed.
End ExtractMain.
