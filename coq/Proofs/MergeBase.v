(* Groundwork for the laws of the merging walker (Model/Merge.v): top-level mirrors of
   the local functions of [merge_w] with one-step unfolding lemmas, depth/fuel facts,
   reflexivity of the schema equalities, facts about [conforms], path elements of list
   items, [index_list_pes], [keys_union] and the map fold. *)
From Coq Require Import List ZArith QArith String Bool Arith Lia.
From SMD Require Import Model.Value Model.Order Model.PathElem Model.PathSet Model.Schema
  Model.Walk Model.Merge Spec.RefValid Proofs.OrderLaws Proofs.KeyLaws Proofs.PesLaws
  Proofs.SchemaOk.
Import ListNotations.
Close Scope Q_scope.
Open Scope nat_scope.
Open Scope bool_scope.

(* ------------------------------------------------------------------ *)
(* mirrors *)

Definition is_empty_l {A : Type} (x : option (list A)) : bool :=
  match x with None | Some [] => true | _ => false end.

Definition dm (v : option value) : list (string * value) :=
  match deref_map v with Some x => x | None => [] end.
Definition dl (v : option value) : list value :=
  match deref_list v with Some x => x | None => [] end.

Definition do_leaf (lhs rhs : option value) : bool * option value := (false, keep_rhs lhs rhs).

Definition osnoc {A : Type} (l : list A) (o : option A) : list A :=
  match o with Some x => l ++ [x] | None => l end.

Definition map_step (f : nat) (s : schema) (t : mapT) (lm rm : list (string * value))
  (acc : bool * list (string * value)) (k : string) : bool * list (string * value) :=
  let '(e1, o) := merge_w f s (field_type t k) (assoc_get k lm) (assoc_get k rm) in
  (fst acc || e1, match o with Some x => snd acc ++ [(k, x)] | None => snd acc end).

Definition merge_map (f : nat) (s : schema) (t : mapT) (lhs rhs : option value) : bool * option value :=
  if rel_is_atomic (map_rel t) || (is_empty_l (deref_map lhs) && is_empty_l (deref_map rhs))
  then do_leaf lhs rhs
  else
    let '(e, out) :=
      fold_left (map_step f s t (dm lhs) (dm rhs))
        (keys_union (map fst (dm lhs)) (map fst (dm rhs))) (false, []) in
    (e, match out with [] => None | _ => Some (VMap out) end).

Definition shared_order (observedLHS : pem value) (rhsPEs : list pe) : list pe :=
  filter (fun e => match pem_get e observedLHS with Some _ => true | None => false end) rhsPEs.

Definition merge_list (f : nat) (s : schema) (t : listT) (lhs rhs : option value) : bool * option value :=
  if rel_is_atomic (list_rel t) || (is_empty_l (deref_list lhs) && is_empty_l (deref_list rhs))
  then do_leaf lhs rhs
  else
    let '(rhsPEs, observedRHS, rerr) := index_list_pes s t false (dl rhs) [] [] false in
    let '(lhsPEs, observedLHS, lerr) := index_list_pes s t true (dl lhs) [] [] false in
    if rerr || lerr then (true, None)
    else
      let '(ns, so) := pop_shared (shared_order observedLHS rhsPEs) in
      match merge_loop (fun (e : pe) (lc rc : option value) => merge_w f s (list_elem t) lc rc)
              observedLHS observedRHS
              (2 * (List.length (dl lhs) + List.length (dl rhs)) + 2)
              (combine lhsPEs (dl lhs)) rhsPEs ns so [] [] false with
      | None => (true, None)
      | Some (out, e) => (e, match out with [] => None | _ => Some (VList out) end)
      end.

Definition handle (f : nat) (s : schema) (lhs rhs : option value) (h : handled) : bool * option value :=
  match h with
  | HInvalid => (true, None)
  | HScalar t => if validate_scalar t lhs && validate_scalar t rhs then (true, None) else do_leaf lhs rhs
  | HList t => merge_list f s t lhs rhs
  | HMap t => merge_map f s t lhs rhs
  end.

Definition merge_top (f : nat) (s : schema) (a : atom) (lhs rhs : option value) : bool * option value :=
  let alhs := deduce_atom a lhs in
  let arhs := deduce_atom a rhs in
  match rhs with
  | None => handle f s lhs rhs (handle_atom alhs)
  | Some _ =>
      match lhs with
      | None => handle f s lhs rhs (handle_atom arhs)
      | Some _ =>
          if atom_eqb alhs arhs then handle f s lhs rhs (handle_atom arhs)
          else
            let '(e1, _) := handle f s lhs rhs (handle_atom alhs) in
            let '(e2, o) := handle f s lhs rhs (handle_atom arhs) in
            (e1 || e2, o)
      end
  end.

Lemma merge_w_S : forall f s tr lhs rhs,
  merge_w (S f) s tr lhs rhs =
  match lhs, rhs with
  | None, None => (true, None)
  | _, _ =>
      match resolve s tr with
      | None => (true, None)
      | Some a => merge_top f s a lhs rhs
      end
  end.
Proof. reflexivity. Qed.

Lemma merge_w_0 : forall s tr lhs rhs, merge_w 0 s tr lhs rhs = (true, None).
Proof. reflexivity. Qed.

(* ------------------------------------------------------------------ *)
(* one iteration of the index loop *)
Section LoopBody.
  Variable merge_item : pe -> option value -> option value -> bool * option value.
  Variable observedLHS observedRHS : pem value.

  Definition loop_state_fun :=
    list (pe * value) -> list pe -> option pe -> list pe -> pem unit -> list value -> bool ->
    option (list value * bool).

  Definition loop_third (rec : loop_state_fun) (lhs' : list (pe * value)) (rhs : list pe)
    (nextShared : option pe) (sharedOrder : list pe) (mergedRHS : pem unit)
    (out : list value) (err : bool) : option (list value * bool) :=
    match rhs with
    | rpe :: rrest =>
        let '(e, o) := merge_item rpe (pem_get rpe observedLHS) (pem_get rpe observedRHS) in
        let '(ns, so) :=
          match nextShared with
          | Some n => if peeqb n rpe then pop_shared sharedOrder else (nextShared, sharedOrder)
          | None => (nextShared, sharedOrder)
          end in
        rec lhs' rrest ns so (pem_insert rpe tt mergedRHS)
          (match o with Some x => x :: out | None => out end) (err || e)
    | [] => rec lhs' rhs nextShared sharedOrder mergedRHS out err
    end.

  Definition loop_second (rec : loop_state_fun) (lhs : list (pe * value)) (rhs : list pe)
    (nextShared : option pe) (sharedOrder : list pe) (mergedRHS : pem unit)
    (out : list value) (err : bool) : option (list value * bool) :=
    match lhs with
    | (lpe, lchild) :: lrest =>
        match pem_get lpe observedRHS with
        | None =>
            let '(e, o) := merge_item lpe (Some lchild) None in
            rec lrest rhs nextShared sharedOrder mergedRHS
              (match o with Some x => x :: out | None => out end) (err || e)
        | Some _ =>
            match pem_get lpe mergedRHS with
            | Some _ => loop_third rec lrest rhs nextShared sharedOrder mergedRHS out err
            | None => loop_third rec lhs rhs nextShared sharedOrder mergedRHS out err
            end
        end
    | [] => loop_third rec lhs rhs nextShared sharedOrder mergedRHS out err
    end.

  Definition loop_body (rec : loop_state_fun) (lhs : list (pe * value)) (rhs : list pe)
    (nextShared : option pe) (sharedOrder : list pe) (mergedRHS : pem unit)
    (out : list value) (err : bool) : option (list value * bool) :=
    match lhs, rhs with
    | [], [] => Some (rev out, err)
    | (lpe, _) :: lrest, rpe :: rrest =>
        if peeqb lpe rpe then
          let '(e, o) := merge_item lpe (pem_get lpe observedLHS) (pem_get lpe observedRHS) in
          let '(ns, so) := pop_shared sharedOrder in
          rec lrest rrest ns so (pem_insert lpe tt mergedRHS)
            (match o with Some x => x :: out | None => out end) (err || e)
        else
          match pem_get lpe observedRHS with
          | Some _ =>
              if opt_pe_eqb_neg nextShared lpe then
                rec lrest rhs nextShared sharedOrder mergedRHS out err
              else loop_second rec lhs rhs nextShared sharedOrder mergedRHS out err
          | None => loop_second rec lhs rhs nextShared sharedOrder mergedRHS out err
          end
    | _, _ => loop_second rec lhs rhs nextShared sharedOrder mergedRHS out err
    end.

  Lemma merge_loop_S : forall fuel lhs rhs ns so merged out err,
    merge_loop merge_item observedLHS observedRHS (S fuel) lhs rhs ns so merged out err =
    loop_body (merge_loop merge_item observedLHS observedRHS fuel) lhs rhs ns so merged out err.
  Proof.
    intros fuel lhs rhs ns so merged out err.
    destruct lhs as [|[lpe lchild] lrest]; destruct rhs as [|rpe rrest].
    - reflexivity.
    - cbn [merge_loop loop_body loop_second loop_third].
      destruct (merge_item rpe (pem_get rpe observedLHS) (pem_get rpe observedRHS)) as [e o].
      destruct ns as [n|]; [destruct (peeqb n rpe)|]; try destruct (pop_shared so); reflexivity.
    - cbn [merge_loop loop_body loop_second loop_third].
      destruct (pem_get lpe observedRHS).
      + destruct (pem_get lpe merged); reflexivity.
      + destruct (merge_item lpe (Some lchild) None) as [e o]. reflexivity.
    - cbn [merge_loop loop_body loop_second loop_third].
      destruct (peeqb lpe rpe).
      + destruct (merge_item lpe (pem_get lpe observedLHS) (pem_get lpe observedRHS)) as [e o].
        destruct (pop_shared so). reflexivity.
      + destruct (pem_get lpe observedRHS).
        * destruct (opt_pe_eqb_neg ns lpe); [reflexivity|].
          destruct (pem_get lpe merged);
          destruct (merge_item rpe (pem_get rpe observedLHS) (pem_get rpe observedRHS)) as [e o];
          (destruct ns as [n|]; [destruct (peeqb n rpe)|]; try destruct (pop_shared so); reflexivity).
        * destruct (merge_item lpe (Some lchild) None) as [e o]. reflexivity.
  Qed.
End LoopBody.

(* ------------------------------------------------------------------ *)
(* path-element maps *)
Definition pem_ok {A : Type} (l : pem A) : Prop :=
  sorted_fst l = true /\ forallb (fun ec => wf_pe (fst ec)) l = true.

Lemma pem_ok_nil : forall A : Type, pem_ok (@nil (pe * A)).
Proof. intros A. split; reflexivity. Qed.

Lemma pem_get_nil : forall (A : Type) e, pem_get e (@nil (pe * A)) = None.
Proof.
  intros A e. unfold pem_get. destruct (pem_loc e (@nil (pe * A))); reflexivity.
Qed.

Lemma pem_ins_ok : forall (A : Type) e (v : A) l, pem_ok l -> wf_pe e = true ->
  pem_ok (pem_insert e v l) /\
  forall x, wf_pe x = true ->
    pem_get x (pem_insert e v l) = if peeqb x e then Some v else pem_get x l.
Proof.
  intros A e v l [Hs Hw] He.
  destruct (pem_insert_facts A e v l Hs Hw He) as (H1 & H2 & _).
  split.
  - split; [apply sorted_fst_iff; exact H1|apply wf_keys_iff; exact H2].
  - intros x Hx. apply (pem_get_insert A e x v l Hs Hw He Hx).
Qed.

Lemma pem_get_cong : forall (A : Type) x y (l : pem A), pem_ok l ->
  wf_pe x = true -> wf_pe y = true -> peeqb x y = true -> pem_get x l = pem_get y l.
Proof.
  intros A x y l [Hs Hw] Hx Hy Hxy.
  apply sorted_fst_iff in Hs. apply wf_keys_iff in Hw.
  rewrite !pem_get_look by assumption.
  rewrite (klook_cong fst x y l Hx Hy Hw Hxy). reflexivity.
Qed.

Lemma peeqb_trans : forall a b c, wf_pe a = true -> wf_pe b = true -> wf_pe c = true ->
  peeqb a b = true -> peeqb b c = true -> peeqb a c = true.
Proof.
  intros a b c Ha Hb Hc Hab Hbc. rewrite (peeqb_cong_l c a b Hc Ha Hb Hab). exact Hbc.
Qed.

(* ------------------------------------------------------------------ *)
(* depth *)
Definition odepth (o : option value) : nat :=
  match o with Some v => vdepth v | None => 0 end.

Lemma vdepth_pos : forall v, 1 <= vdepth v.
Proof. intros v. destruct v; simpl; lia. Qed.

Lemma vdepth_list_in : forall l x, In x l -> vdepth x < vdepth (VList l).
Proof.
  intros l x Hin. simpl. apply Nat.lt_succ_r.
  induction l as [|y l IH]; simpl; [destruct Hin|].
  destruct Hin as [Heq|Hin].
  - subst. apply Nat.le_max_l.
  - etransitivity; [apply IH; exact Hin|apply Nat.le_max_r].
Qed.

Lemma vdepth_map_in : forall m k x, In (k, x) m -> vdepth x < vdepth (VMap m).
Proof.
  intros m k x Hin. simpl. apply Nat.lt_succ_r.
  induction m as [|y m IH]; simpl; [destruct Hin|].
  destruct Hin as [Heq|Hin].
  - subst. apply Nat.le_max_l.
  - etransitivity; [apply IH; exact Hin|apply Nat.le_max_r].
Qed.

Lemma assoc_get_in : forall (A : Type) k (m : list (string * A)) x, assoc_get k m = Some x -> In (k, x) m.
Proof.
  intros A k m x. induction m as [|[k' v'] m IH]; simpl; intros H; [discriminate|].
  destruct (String.eqb_spec k k') as [E|E].
  - inversion H; subst. left. reflexivity.
  - right. apply IH. exact H.
Qed.

Lemma dm_depth : forall o k, odepth (assoc_get k (dm o)) <= odepth o.
Proof.
  intros o k. destruct (assoc_get k (dm o)) as [x|] eqn:E; simpl; [|lia].
  apply assoc_get_in in E. destruct o as [[| | | | |l|m]|]; simpl in E; try destruct E.
  apply Nat.lt_le_incl. apply (vdepth_map_in m k x E).
Qed.

Lemma dm_depth_lt : forall o k, dm o <> [] -> odepth (assoc_get k (dm o)) < odepth o.
Proof.
  intros o k Hne. destruct o as [[| | | | |l|m]|]; simpl in Hne; try (exfalso; apply Hne; reflexivity).
  destruct (assoc_get k (dm (Some (VMap m)))) as [x|] eqn:E; simpl odepth at 1.
  - apply assoc_get_in in E. apply (vdepth_map_in m k x E).
  - apply (vdepth_pos (VMap m)).
Qed.

Lemma dl_depth_in : forall o x, In x (dl o) -> vdepth x < odepth o.
Proof.
  intros o x Hin. destruct o as [[| | | | |l|m]|]; simpl in Hin; try destruct Hin.
  apply (vdepth_list_in l x Hin).
Qed.

Lemma dl_depth_null : forall o, dl o <> [] -> 1 < odepth o.
Proof.
  intros o Hne. destruct o as [[| | | | |l|m]|]; simpl in Hne; try (exfalso; apply Hne; reflexivity).
  destruct l as [|x l]; [exfalso; apply Hne; reflexivity|].
  pose proof (vdepth_list_in (x :: l) x (or_introl eq_refl)) as H.
  pose proof (vdepth_pos x). simpl odepth. lia.
Qed.

(* ------------------------------------------------------------------ *)
(* reflexivity of the schema equalities *)
Lemma rel_eqb_refl : forall r, rel_eqb r r = true.
Proof. intros []; simpl; auto. apply String.eqb_refl. Qed.

Lemma scalar_eqb_refl : forall r, scalar_eqb r r = true.
Proof. intros []; simpl; auto. apply String.eqb_refl. Qed.

Lemma value_deep_eqb_refl : forall v, value_deep_eqb v v = true.
Proof.
  induction v as [|b|z|q|str|l IHl|m IHm] using value_ind'; simpl.
  - reflexivity.
  - apply Bool.eqb_reflx.
  - apply Z.eqb_refl.
  - apply Qeq_bool_iff. apply Qeq_refl.
  - apply String.eqb_refl.
  - induction IHl as [|x l Hx Hl IH]; [reflexivity|]. rewrite Hx. simpl. exact IH.
  - induction IHm as [|[k x] m Hx Hm IH]; [reflexivity|]. simpl in Hx.
    rewrite String.eqb_refl, Hx. simpl. exact IH.
Qed.

Lemma list_eqb_refl : forall (A : Type) (f : A -> A -> bool), (forall x, f x x = true) ->
  forall l, list_eqb f l l = true.
Proof. intros A f Hf l. induction l as [|x l IH]; simpl; auto. rewrite Hf, IH. reflexivity. Qed.

Lemma opt_eqb_refl : forall (A : Type) (f : A -> A -> bool), (forall x, f x x = true) ->
  forall o, opt_eqb f o o = true.
Proof. intros A f Hf [x|]; simpl; auto. Qed.

Fixpoint tr_eqb_refl (a : typeref) : tr_eqb a a = true
with atom_eqb_refl (a : atom) : atom_eqb a a = true
with listT_eqb_refl (a : listT) : listT_eqb a a = true
with mapT_eqb_refl (a : mapT) : mapT_eqb a a = true
with sfield_eqb_refl (a : sfield) : sfield_eqb a a = true.
Proof.
  - destruct a as [n i r]. simpl.
    rewrite (opt_eqb_refl _ _ String.eqb_refl), (opt_eqb_refl _ _ rel_eqb_refl), atom_eqb_refl.
    reflexivity.
  - destruct a as [sc li ma]. simpl.
    rewrite (opt_eqb_refl _ _ scalar_eqb_refl).
    destruct li as [t|]; [rewrite listT_eqb_refl|]; (destruct ma as [m|]; [rewrite mapT_eqb_refl|]);
      reflexivity.
  - destruct a as [e r k]. simpl.
    rewrite tr_eqb_refl, rel_eqb_refl, (list_eqb_refl _ _ String.eqb_refl). reflexivity.
  - destruct a as [fs e r]. simpl. rewrite tr_eqb_refl, rel_eqb_refl. simpl.
    induction fs as [|x fs IH]; [reflexivity|]. rewrite sfield_eqb_refl. simpl. exact IH.
  - destruct a as [n t d]. simpl.
    rewrite String.eqb_refl, (opt_eqb_refl _ _ value_deep_eqb_refl), tr_eqb_refl. reflexivity.
Qed.

(* ------------------------------------------------------------------ *)
(* the reference validator, unfolded *)
Definition has_pe (s : schema) (t : listT) (x : value) : bool :=
  match list_item_to_pe s t x with Some _ => true | None => false end.
Definition pes_of (s : schema) (t : listT) (l : list value) : list pe :=
  flat_map (fun x => match list_item_to_pe s t x with Some e => [e] | None => [] end) l.
Definition conf_fields (s : schema) (dup : bool) (t : mapT) (m : list (string * value)) : bool :=
  forallb (fun kv => conforms s (field_type t (fst kv)) dup (snd kv)) m.

Section Each.
  Variables (s : schema) (dup : bool).
  Section EachL.
    Variable tr' : typeref.
    Fixpoint each_l (l : list value) {struct l} : bool :=
      match l with
      | [] => true
      | x :: rest => conforms s tr' dup x && each_l rest
      end.
  End EachL.
  Section EachM.
    Variable t : mapT.
    Fixpoint each_m (m : list (string * value)) {struct m} : bool :=
      match m with
      | [] => true
      | (k, x) :: rest =>
          (if has_field t k then conforms s (field_type t k) dup x
           else negb (is_empty_tr (map_elem t)) && conforms s (map_elem t) dup x)
          && each_m rest
      end.
  End EachM.
End Each.

Lemma conforms_raw : forall s tr dup v,
  conforms s tr dup v =
  match resolve s tr with
  | None => false
  | Some (Atom sc li ma as a) =>
      match v with
      | VNull => atom_nonempty a
      | VList l =>
          match li with
          | None => false
          | Some t =>
              match list_rel t with
              | RAssociative =>
                  forallb (has_pe s t) l && each_l s dup (list_elem t) l
                  && (dup || all_distinct (pes_of s t l))
              | _ => each_l s dup (list_elem t) l
              end
          end
      | VMap m =>
          match ma with
          | None => false
          | Some t => each_m s dup t m
          end
      | _ =>
          match sc with
          | Some t => scalar_ok t v
          | None => false
          end
      end
  end.
Proof. intros s tr dup v. destruct v; reflexivity. Qed.

Lemma conforms_empty_tr : forall s tr dup v, is_empty_tr tr = true -> conforms s tr dup v = false.
Proof.
  intros s tr dup v H. destruct tr as [[n|] a [r|]]; simpl in H; try discriminate.
  destruct a as [[sc|] [li|] [ma|]]; simpl in H; try discriminate.
  rewrite conforms_raw. simpl. destruct v; reflexivity.
Qed.

Lemma each_l_forallb : forall s dup tr' l, each_l s dup tr' l = forallb (conforms s tr' dup) l.
Proof. intros s dup tr' l. induction l as [|x l IH]; simpl; congruence. Qed.

Lemma each_m_fields : forall s dup t m, each_m s dup t m = conf_fields s dup t m.
Proof.
  intros s dup t m. unfold conf_fields. induction m as [|[k x] m IH]; simpl; [reflexivity|].
  rewrite IH. f_equal. unfold field_type, has_field.
  destruct (find_field (map_fields t) k) as [f|]; [reflexivity|].
  destruct (is_empty_tr (map_elem t)) eqn:E; simpl; [|reflexivity].
  symmetry. apply conforms_empty_tr. exact E.
Qed.

Lemma conforms_unf : forall s tr dup v,
  conforms s tr dup v =
  match resolve s tr with
  | None => false
  | Some (Atom sc li ma as a) =>
      match v with
      | VNull => atom_nonempty a
      | VList l =>
          match li with
          | None => false
          | Some t =>
              match list_rel t with
              | RAssociative =>
                  forallb (has_pe s t) l && forallb (conforms s (list_elem t) dup) l
                  && (dup || all_distinct (pes_of s t l))
              | _ => forallb (conforms s (list_elem t) dup) l
              end
          end
      | VMap m =>
          match ma with
          | None => false
          | Some t => conf_fields s dup t m
          end
      | _ =>
          match sc with
          | Some t => scalar_ok t v
          | None => false
          end
      end
  end.
Proof.
  intros s tr dup v. rewrite conforms_raw.
  destruct (resolve s tr) as [[sc li ma]|]; [|reflexivity].
  destruct v; try reflexivity.
  destruct ma as [t|]; [|reflexivity]. apply each_m_fields.
Qed.

Lemma conforms_resolve : forall s tr dup v, conforms s tr dup v = true ->
  exists a, resolve s tr = Some a /\ atom_nonempty a = true.
Proof.
  intros s tr dup v H. rewrite conforms_unf in H.
  destruct (resolve s tr) as [[sc li ma]|]; [|discriminate].
  exists (Atom sc li ma). split; [reflexivity|].
  destruct v; destruct sc, li, ma; try reflexivity; discriminate.
Qed.

Lemma conforms_dup_mono : forall s v tr, conforms s tr false v = true -> conforms s tr true v = true.
Proof.
  intros s v. induction v as [|b|z|q|str|l IHl|m IHm] using value_ind'; intros tr;
    rewrite !conforms_unf; destruct (resolve s tr) as [[sc li ma]|]; auto.
  - destruct li as [t|]; auto.
    assert (Hall : forallb (conforms s (list_elem t) false) l = true ->
                   forallb (conforms s (list_elem t) true) l = true).
    { intros H. rewrite forallb_forall in *. rewrite Forall_forall in IHl.
      intros x Hx. apply IHl; auto. }
    destruct (list_rel t); auto.
    intros H. apply andb_true_iff in H. destruct H as [H _].
    apply andb_true_iff in H. destruct H as [H1 H2].
    rewrite H1, (Hall H2). reflexivity.
  - destruct ma as [t|]; auto. unfold conf_fields. intros H.
    rewrite forallb_forall in *. rewrite Forall_forall in IHm.
    intros kv Hkv. apply IHm; auto.
Qed.

Lemma conforms_dup_any : forall s v tr dup, conforms s tr false v = true -> conforms s tr dup v = true.
Proof. intros s v tr [] H; [apply conforms_dup_mono|]; exact H. Qed.

Lemma scalar_ok_validate : forall t v, scalar_ok t v = true -> validate_scalar t (Some v) = false.
Proof. intros t v H. destruct t, v; simpl in *; try discriminate; reflexivity. Qed.

Lemma scalar_ok_is_scalar : forall t v, scalar_ok t v = true -> is_scalar v = true.
Proof. intros t v H. destruct t, v; simpl in *; try discriminate; reflexivity. Qed.

(* optional operands *)
Definition oconf (s : schema) (tr : typeref) (dup : bool) (o : option value) : Prop :=
  match o with
  | None => True
  | Some v => conforms s tr dup v = true /\ wf_value v = true
  end.

Lemma oconf_mono : forall s tr o, oconf s tr false o -> oconf s tr true o.
Proof. intros s tr [v|] H; simpl in *; auto. destruct H. split; auto. apply conforms_dup_mono; auto. Qed.

(* which handler a conforming value is sent to *)
Definition hfrom (a : atom) (h : handled) : Prop :=
  match a, h with
  | Atom sc li ma, HMap mt => ma = Some mt
  | Atom sc li ma, HList t => li = Some t
  | Atom sc li ma, HScalar t => sc = Some t
  | _, HInvalid => False
  end.

Lemma hfrom_deduce : forall a o, atom_nonempty a = true -> hfrom a (handle_atom (deduce_atom a o)).
Proof.
  intros [[sc|] [li|] [ma|]] [v|] H; simpl in *; try discriminate; try reflexivity;
    destruct (is_scalar v); simpl; try reflexivity;
    destruct (is_list v); simpl; try reflexivity;
    destruct (is_map v); simpl; reflexivity.
Qed.

Lemma deduce_scalar_valid : forall s tr dup a o t,
  resolve s tr = Some a -> oconf s tr dup o ->
  handle_atom (deduce_atom a o) = HScalar t -> validate_scalar t o = false.
Proof.
  intros s tr dup a o t Hr Hc Hh. destruct o as [v|]; [|reflexivity].
  destruct Hc as [Hc _]. rewrite conforms_unf, Hr in Hc. destruct a as [sc li ma].
  destruct v; try reflexivity.
  1-4: destruct sc as [t'|]; [|discriminate]; simpl in Hh; inversion Hh; subst;
       apply scalar_ok_validate; exact Hc.
  - destruct li as [t'|]; [|discriminate]. simpl in Hh. discriminate.
  - destruct ma as [t'|]; [|discriminate]. simpl in Hh. discriminate.
Qed.

Lemma deduce_conf_list : forall a l t, atom_list a = Some t ->
  handle_atom (deduce_atom a (Some (VList l))) = HList t.
Proof. intros [sc li ma] l t H. simpl in H. subst. reflexivity. Qed.

Lemma deduce_conf_map : forall a m t, atom_map a = Some t ->
  handle_atom (deduce_atom a (Some (VMap m))) = HMap t.
Proof. intros [sc li ma] l t H. simpl in H. subst. reflexivity. Qed.

Lemma deduce_same_kind_list : forall a l l', atom_list a <> None ->
  deduce_atom a (Some (VList l)) = deduce_atom a (Some (VList l')).
Proof. intros [sc li ma] l l' H. reflexivity. Qed.

(* well-formed values *)
Lemma wf_list_in : forall l x, wf_value (VList l) = true -> In x l -> wf_value x = true.
Proof. intros l x H Hin. simpl in H. rewrite forallb_forall in H. auto. Qed.

Lemma wf_map_in : forall m k x, wf_value (VMap m) = true -> In (k, x) m -> wf_value x = true.
Proof.
  intros m k x H Hin. simpl in H. apply andb_true_iff in H. destruct H as [_ H].
  rewrite forallb_forall in H. apply (H (k, x) Hin).
Qed.

Lemma wf_map_sorted : forall m, wf_value (VMap m) = true -> sorted_keys m = true.
Proof. intros m H. simpl in H. apply andb_true_iff in H. tauto. Qed.

Lemma oconf_dm : forall s tr dup a mt o k, resolve s tr = Some a -> atom_map a = Some mt ->
  oconf s tr dup o -> oconf s (field_type mt k) dup (assoc_get k (dm o)).
Proof.
  intros s tr dup a mt o k Hr Hm Hc.
  destruct (assoc_get k (dm o)) as [x|] eqn:E; simpl; [|exact I].
  apply assoc_get_in in E.
  destruct o as [[| | | | |l|m]|]; simpl in E; try destruct E.
  destruct Hc as [Hc Hw]. split; [|apply (wf_map_in m k x Hw E)].
  rewrite conforms_unf, Hr in Hc. destruct a as [sc li ma]. simpl in Hm. subst ma.
  unfold conf_fields in Hc. rewrite forallb_forall in Hc. apply (Hc (k, x) E).
Qed.

(* ------------------------------------------------------------------ *)
(* path elements of list items *)
Section KeyedMirror.
  Variables (s : schema) (t : listT) (m : list (string * value)).
  Fixpoint keyed_go (keys : list string) : option fieldlist :=
    match keys with
    | [] => Some []
    | k :: ks =>
        match assoc_get k m with
        | Some v =>
            match keyed_go ks with Some r => Some ((k, v) :: r) | None => None end
        | None =>
            match key_default s t k with
            | Some (Some d) =>
                match keyed_go ks with Some r => Some ((k, d) :: r) | None => None end
            | _ => None
            end
        end
    end.
End KeyedMirror.

Lemma keyed_item_to_pe_eq : forall s t m,
  keyed_item_to_pe s t (VMap m) =
  match keyed_go s t m (list_keys t) with
  | Some fl => Some (PEKey (fl_sort fl))
  | None => None
  end.
Proof. reflexivity. Qed.

Lemma fl_insert_wf' : forall x l, wf_fl (fl_insert x l) = wf_value (snd x) && wf_fl l.
Proof.
  intros x l. unfold wf_fl. induction l as [|y l IH]; simpl.
  - reflexivity.
  - destruct (str_ltb (fst y) (fst x)); simpl.
    + rewrite IH. destruct (wf_value (snd y)), (wf_value (snd x)); reflexivity.
    + reflexivity.
Qed.

Lemma fl_sort_wf' : forall l, wf_fl l = true -> wf_fl (fl_sort l) = true.
Proof.
  induction l as [|x l IH]; intros Hl.
  - reflexivity.
  - unfold wf_fl in Hl. simpl in Hl. apply andb_true_iff in Hl. destruct Hl as [Hx Hl].
    change (fl_sort (x :: l)) with (fl_insert x (fl_sort l)).
    rewrite fl_insert_wf', Hx. simpl. apply IH. exact Hl.
Qed.

Lemma assoc_get_wf' : forall k (m : list (string * value)) v,
  forallb (fun kv => wf_value (snd kv)) m = true -> assoc_get k m = Some v -> wf_value v = true.
Proof.
  intros k m v Hm Hg. apply assoc_get_in in Hg. rewrite forallb_forall in Hm. apply (Hm (k, v) Hg).
Qed.

Lemma find_field_default_wf' : forall fs k f d,
  wf_defaults_fields fs = true -> find_field fs k = Some f -> sf_default f = Some d ->
  wf_value d = true.
Proof.
  intros fs k f d. induction fs as [|[n ty dflt] fs IH]; simpl; intros Hfs Hf Hd.
  - discriminate.
  - apply andb_true_iff in Hfs. destruct Hfs as [Hd0 Hfs].
    destruct (find_field fs k) as [r|] eqn:Er.
    + apply IH; assumption.
    + destruct (String.eqb k n); [|discriminate].
      inversion Hf; subst. simpl in Hd. subst. exact Hd0.
Qed.

(* the defaults of the element type of list type [t] are well formed *)
Definition elem_defaults_ok (s : schema) (t : listT) : Prop :=
  forall a, resolve s (list_elem t) = Some a -> wf_defaults_atom a = true.

Lemma key_default_wf' : forall s t k d, elem_defaults_ok s t ->
  key_default s t k = Some (Some d) -> wf_value d = true.
Proof.
  intros s t k d Hs. unfold key_default.
  destruct (resolve s (list_elem t)) as [a|] eqn:Er; [|discriminate].
  apply Hs in Er. destruct a as [sc li [mt|]]; [|discriminate].
  destruct mt as [fs me mr]. simpl in Er. simpl.
  destruct (find_field fs k) as [f|] eqn:Ef; [|discriminate].
  intros Hd. inversion Hd as [Hd']. eapply find_field_default_wf'; eassumption.
Qed.

Lemma keyed_go_wf' : forall s t m, elem_defaults_ok s t ->
  forallb (fun kv => wf_value (snd kv)) m = true ->
  forall keys fl, keyed_go s t m keys = Some fl -> wf_fl fl = true.
Proof.
  intros s t m Hs Hm keys. induction keys as [|k ks IH]; simpl; intros fl Hgo.
  - inversion Hgo; subst. reflexivity.
  - destruct (assoc_get k m) as [v|] eqn:Eg.
    + destruct (keyed_go s t m ks) as [r|]; [|discriminate].
      inversion Hgo; subst. unfold wf_fl. simpl.
      rewrite (assoc_get_wf' _ _ _ Hm Eg). simpl. apply (IH r). reflexivity.
    + destruct (key_default s t k) as [[d|]|] eqn:Ed; try discriminate.
      destruct (keyed_go s t m ks) as [r|]; [|discriminate].
      inversion Hgo; subst. unfold wf_fl. simpl.
      rewrite (key_default_wf' _ _ _ _ Hs Ed). simpl. apply (IH r). reflexivity.
Qed.

Lemma item_pe_wf : forall s t child e, elem_defaults_ok s t -> wf_value child = true ->
  list_item_to_pe s t child = Some e -> wf_pe e = true.
Proof.
  intros s t child e Hs Hc. unfold list_item_to_pe.
  destruct (negb (rel_is_assoc (list_rel t))); [discriminate|].
  destruct (list_keys t) as [|k0 ks0] eqn:Ek.
  - destruct child; simpl; intros He; try discriminate; inversion He; subst; reflexivity.
  - destruct child as [| | | | |l|m]; try (simpl; discriminate).
    rewrite keyed_item_to_pe_eq.
    destruct (keyed_go s t m (list_keys t)) as [fl|] eqn:Eg; [|discriminate].
    intros He. inversion He; subst. simpl.
    apply fl_sort_wf'. simpl in Hc. apply andb_true_iff in Hc. destruct Hc as [_ Hc].
    eapply keyed_go_wf'; eassumption.
Qed.

Section Items.
  Variables (s : schema) (t : listT).

  Definition ipairs (l : list value) : list (pe * value) :=
    flat_map (fun c => match list_item_to_pe s t c with Some e => [(e, c)] | None => [] end) l.

  Fixpoint lfind (x : pe) (l : list value) : option value :=
    match l with
    | [] => None
    | c :: rest =>
        match list_item_to_pe s t c with
        | Some e => if peeqb x e then Some c else lfind x rest
        | None => lfind x rest
        end
    end.

  Lemma ipairs_fst : forall l, map fst (ipairs l) = pes_of s t l.
  Proof.
    induction l as [|c l IH]; simpl; [reflexivity|].
    rewrite map_app, IH. destruct (list_item_to_pe s t c); reflexivity.
  Qed.

  Lemma ipairs_snd : forall l, forallb (has_pe s t) l = true -> map snd (ipairs l) = l.
  Proof.
    induction l as [|c l IH]; simpl; intros H; [reflexivity|].
    apply andb_true_iff in H. destruct H as [Hc Hl]. unfold has_pe in Hc.
    rewrite map_app, (IH Hl). destruct (list_item_to_pe s t c); [reflexivity|discriminate].
  Qed.

  Lemma ipairs_combine : forall l, forallb (has_pe s t) l = true ->
    combine (pes_of s t l) l = ipairs l.
  Proof.
    induction l as [|c l IH]; simpl; intros H; [reflexivity|].
    apply andb_true_iff in H. destruct H as [Hc Hl]. unfold has_pe in Hc.
    destruct (list_item_to_pe s t c); [|discriminate]. simpl. rewrite (IH Hl). reflexivity.
  Qed.

  Lemma ipairs_in : forall l e c, In (e, c) (ipairs l) -> In c l /\ list_item_to_pe s t c = Some e.
  Proof.
    induction l as [|c0 l IH]; simpl; intros e c H; [destruct H|].
    apply in_app_or in H. destruct H as [H|H].
    - destruct (list_item_to_pe s t c0) as [e0|] eqn:E; simpl in H; [|destruct H].
      destruct H as [H|[]]. inversion H; subst. auto.
    - destruct (IH e c H). auto.
  Qed.

  Lemma ipairs_in_rev : forall l e c, In c l -> list_item_to_pe s t c = Some e -> In (e, c) (ipairs l).
  Proof.
    induction l as [|c0 l IH]; simpl; intros e c H He; [destruct H|].
    apply in_or_app. destruct H as [H|H].
    - subst c0. rewrite He. left. simpl. auto.
    - right. apply IH; auto.
  Qed.

  Lemma ipairs_length : forall l, forallb (has_pe s t) l = true -> List.length (ipairs l) = List.length l.
  Proof. intros l H. rewrite <- (ipairs_snd l H) at 2. rewrite map_length. reflexivity. Qed.

  Lemma pes_of_in : forall l e, In e (pes_of s t l) ->
    exists c, In c l /\ list_item_to_pe s t c = Some e.
  Proof.
    intros l e H. rewrite <- ipairs_fst in H. apply in_map_iff in H.
    destruct H as [[e' c] [H1 H2]]. simpl in H1. subst e'. exists c. apply ipairs_in. exact H2.
  Qed.

  Lemma pes_of_wf : forall l, elem_defaults_ok s t -> forallb wf_value l = true ->
    forall e, In e (pes_of s t l) -> wf_pe e = true.
  Proof.
    intros l Hs Hl e He. apply pes_of_in in He. destruct He as [c [Hc He]].
    rewrite forallb_forall in Hl. eapply item_pe_wf; eauto.
  Qed.

  Lemma pes_of_length : forall l, forallb (has_pe s t) l = true ->
    List.length (pes_of s t l) = List.length l.
  Proof. intros l H. rewrite <- ipairs_fst, map_length. apply ipairs_length. exact H. Qed.

  Lemma lfind_some : forall x l c, lfind x l = Some c ->
    exists e, In (e, c) (ipairs l) /\ peeqb x e = true.
  Proof.
    intros x l c. induction l as [|c0 l IH]; simpl; intros H; [discriminate|].
    destruct (list_item_to_pe s t c0) as [e0|] eqn:E.
    - destruct (peeqb x e0) eqn:Ex.
      + inversion H; subst. exists e0. split; auto. apply in_or_app. left. simpl. auto.
      + destruct (IH H) as [e [H1 H2]]. exists e. split; auto. apply in_or_app. auto.
    - destruct (IH H) as [e [H1 H2]]. exists e. split; auto.
  Qed.

  Lemma lfind_exists : forall x l, existsb (peeqb x) (pes_of s t l) = true -> lfind x l <> None.
  Proof.
    intros x l. induction l as [|c0 l IH]; simpl; intros H; [discriminate|].
    rewrite existsb_app in H.
    destruct (list_item_to_pe s t c0) as [e0|] eqn:E; simpl in H.
    - destruct (peeqb x e0); [discriminate|]. simpl in H. apply IH. exact H.
    - apply IH. exact H.
  Qed.

  Lemma lfind_exists_rev : forall x l, lfind x l <> None -> existsb (peeqb x) (pes_of s t l) = true.
  Proof.
    intros x l. induction l as [|c0 l IH]; simpl; intros H; [congruence|].
    rewrite existsb_app.
    destruct (list_item_to_pe s t c0) as [e0|] eqn:E; simpl.
    - destruct (peeqb x e0); [reflexivity|]. simpl. apply IH. exact H.
    - apply IH. exact H.
  Qed.

  Lemma existsb_false_in : forall (A : Type) (f : A -> bool) l x, existsb f l = false -> In x l -> f x = false.
  Proof.
    intros A f l x H Hin. destruct (f x) eqn:E; auto.
    assert (existsb f l = true) by (apply existsb_exists; exists x; auto). congruence.
  Qed.

  Lemma lfind_in : forall l e c, (forall e', In e' (pes_of s t l) -> wf_pe e' = true) ->
    all_distinct (pes_of s t l) = true -> In (e, c) (ipairs l) -> lfind e l = Some c.
  Proof.
    induction l as [|c0 l IH]; simpl; intros e c Hwf Hd Hin; [destruct Hin|].
    apply in_app_or in Hin.
    destruct (list_item_to_pe s t c0) as [e0|] eqn:E; simpl in *.
    - apply andb_true_iff in Hd. destruct Hd as [Hd0 Hd]. apply negb_true_iff in Hd0.
      destruct Hin as [[Hin|[]]|Hin].
      + inversion Hin; subst. rewrite peeqb_refl by (apply Hwf; auto). reflexivity.
      + assert (Hine : In e (pes_of s t l)).
        { rewrite <- ipairs_fst. apply in_map_iff. exists (e, c). auto. }
        pose proof (existsb_false_in _ _ _ e Hd0 Hine) as Hne.
        rewrite (peeqb_sym e e0) by (apply Hwf; auto). rewrite Hne.
        apply IH; auto.
    - destruct Hin as [[]|Hin]. apply IH; auto.
  Qed.
End Items.

(* ------------------------------------------------------------------ *)
(* indexListPathElements *)
Lemma index_nodup : forall s t b l acc obs err,
  pem_ok obs -> (forall e, In e (pes_of s t l) -> wf_pe e = true) ->
  forallb (has_pe s t) l = true -> all_distinct (pes_of s t l) = true ->
  (forall e, In e (pes_of s t l) -> pem_get e obs = None) ->
  exists obs', index_list_pes s t b l acc obs err = (acc ++ pes_of s t l, obs', err) /\
    pem_ok obs' /\
    forall x, wf_pe x = true ->
      pem_get x obs' = match lfind s t x l with Some v => Some v | None => pem_get x obs end.
Proof.
  intros s t b l. induction l as [|c l IH]; intros acc obs err Hok Hwf Hpe Hd Hfresh.
  - exists obs. simpl. rewrite app_nil_r. auto.
  - simpl in Hpe. apply andb_true_iff in Hpe. destruct Hpe as [Hc Hpe]. unfold has_pe in Hc.
    simpl in *. destruct (list_item_to_pe s t c) as [e|] eqn:E; [|discriminate]. simpl in *.
    apply andb_true_iff in Hd. destruct Hd as [Hd0 Hd]. apply negb_true_iff in Hd0.
    rewrite (Hfresh e (or_introl eq_refl)).
    assert (He : wf_pe e = true) by (apply Hwf; auto).
    destruct (pem_ins_ok _ e c obs Hok He) as [Hok1 Hget1].
    destruct (IH (acc ++ [e]) (pem_insert e c obs) err Hok1) as [obs' [H1 [H2 H3]]]; auto.
    { intros e' He'. rewrite Hget1 by (apply Hwf; auto).
      rewrite (peeqb_sym e' e) by (auto; apply Hwf; auto).
      rewrite (existsb_false_in _ _ _ e' Hd0 He'). apply Hfresh. auto. }
    exists obs'. split; [|split; [exact H2|]].
    + rewrite H1, <- app_assoc. reflexivity.
    + intros x Hx. rewrite (H3 x Hx), (Hget1 x Hx).
      destruct (peeqb x e) eqn:Exe; [|reflexivity].
      destruct (lfind s t x l) as [v|] eqn:El; [|reflexivity].
      exfalso. apply lfind_some in El. destruct El as [e' [Hin Hxe']].
      assert (Hine' : In e' (pes_of s t l)).
      { rewrite <- ipairs_fst. apply in_map_iff. exists (e', v). auto. }
      pose proof (existsb_false_in _ _ _ e' Hd0 Hine') as Hne.
      assert (He' : wf_pe e' = true) by (apply Hwf; auto).
      rewrite (peeqb_cong_l e' e x) in Hne; auto; [congruence|].
      rewrite (peeqb_sym e x); auto.
Qed.

Lemma index_dup : forall s t l acc obs err,
  pem_ok obs -> (forall e, In e (pes_of s t l) -> wf_pe e = true) ->
  forallb (has_pe s t) l = true ->
  exists obs', index_list_pes s t true l acc obs err = (acc ++ pes_of s t l, obs', err) /\
    pem_ok obs' /\
    forall x v, wf_pe x = true -> pem_get x obs' = Some v ->
      (v = VNull /\ l <> []) \/ (exists e, In (e, v) (ipairs s t l) /\ peeqb x e = true) \/ pem_get x obs = Some v.
Proof.
  intros s t l. induction l as [|c l IH]; intros acc obs err Hok Hwf Hpe.
  - exists obs. simpl. rewrite app_nil_r. auto.
  - simpl in Hpe. apply andb_true_iff in Hpe. destruct Hpe as [Hc Hpe]. unfold has_pe in Hc.
    simpl in *. destruct (list_item_to_pe s t c) as [e|] eqn:E; [|discriminate]. simpl in *.
    assert (He : wf_pe e = true) by (apply Hwf; auto).
    destruct (pem_get e obs) as [old|] eqn:Eold.
    + destruct (pem_ins_ok _ e VNull obs Hok He) as [Hok1 Hget1].
      destruct (IH (acc ++ [e]) (pem_insert e VNull obs) err Hok1) as [obs' [H1 [H2 H3]]]; auto.
      exists obs'. split; [|split; [exact H2|]].
      * rewrite H1, <- app_assoc. reflexivity.
      * intros x v Hx Hv. destruct (H3 x v Hx Hv) as [[H _]|[[e' [Hin Hxe']]|H]].
        -- left. split; [exact H|discriminate].
        -- right. left. exists e'. auto.
        -- rewrite (Hget1 x Hx) in H. destruct (peeqb x e); auto.
           inversion H. left. split; [reflexivity|discriminate].
    + destruct (pem_ins_ok _ e c obs Hok He) as [Hok1 Hget1].
      destruct (IH (acc ++ [e]) (pem_insert e c obs) err Hok1) as [obs' [H1 [H2 H3]]]; auto.
      exists obs'. split; [|split; [exact H2|]].
      * rewrite H1, <- app_assoc. reflexivity.
      * intros x v Hx Hv. destruct (H3 x v Hx Hv) as [[H _]|[[e' [Hin Hxe']]|H]].
        -- left. split; [exact H|discriminate].
        -- right. left. exists e'. auto.
        -- rewrite (Hget1 x Hx) in H. destruct (peeqb x e) eqn:Exe; auto.
           inversion H; subst. right. left. exists e. auto.
Qed.

(* ------------------------------------------------------------------ *)
(* association lists and key unions *)
Fixpoint ssorted (l : list string) : Prop :=
  match l with
  | [] => True
  | x :: t => Forall (fun y => String.compare x y = Lt) t /\ ssorted t
  end.

Lemma sorted_keys_ssorted : forall m : list (string * value), sorted_keys m = true -> ssorted (map fst m).
Proof.
  induction m as [|[k v] m IH]; intros H; simpl; [exact I|].
  apply sorted_keys_cons in H. destruct H as [H1 H2]. split; [|apply IH; exact H1].
  unfold keys_gt in H2. rewrite Forall_forall in *. intros y Hy.
  apply in_map_iff in Hy. destruct Hy as [kv [E Hin]]. subst y. apply H2. exact Hin.
Qed.

Lemma ssorted_sorted_keys : forall (g : string -> value) keys, ssorted keys ->
  sorted_keys (map (fun k => (k, g k)) keys) = true.
Proof.
  intros g keys. induction keys as [|k keys IH]; intros H; [reflexivity|].
  destruct H as [H1 H2]. simpl. destruct keys as [|k' keys']; [reflexivity|].
  simpl map at 1. cbv iota. inversion H1 as [|? ? Hk _]; subst. unfold str_ltb. rewrite Hk. simpl.
  apply IH. exact H2.
Qed.

Lemma assoc_get_sorted_in : forall (m : list (string * value)) k x,
  sorted_keys m = true -> In (k, x) m -> assoc_get k m = Some x.
Proof.
  induction m as [|[k' v'] m IH]; intros k x Hs Hin; [destruct Hin|].
  apply sorted_keys_cons in Hs. destruct Hs as [Hs Hgt]. simpl.
  destruct Hin as [Hin|Hin].
  - inversion Hin; subst. rewrite String.eqb_refl. reflexivity.
  - unfold keys_gt in Hgt. rewrite Forall_forall in Hgt. specialize (Hgt _ Hin). simpl in Hgt.
    destruct (String.eqb_spec k k') as [E|E].
    + subst. rewrite str_cmp_refl in Hgt. discriminate.
    + apply IH; auto.
Qed.

Lemma assoc_get_in_keys : forall (A : Type) (m : list (string * A)) k,
  In k (map fst m) -> assoc_get k m <> None.
Proof.
  intros A m k. induction m as [|[k' v'] m IH]; simpl; intros H; [destruct H|].
  destruct (String.eqb_spec k k') as [E|E]; [discriminate|].
  destruct H as [H|H]; [congruence|]. apply IH. exact H.
Qed.

Lemma assoc_get_notin_keys : forall (A : Type) (m : list (string * A)) k,
  ~ In k (map fst m) -> assoc_get k m = None.
Proof.
  intros A m k. induction m as [|[k' v'] m IH]; simpl; intros H; [reflexivity|].
  destruct (String.eqb_spec k k') as [E|E]; [exfalso; apply H; auto|].
  apply IH. intros Hin. apply H. auto.
Qed.

Lemma assoc_get_some_keys : forall (A : Type) (m : list (string * A)) k x,
  assoc_get k m = Some x -> In k (map fst m).
Proof.
  intros A m k x H. apply assoc_get_in in H. apply in_map_iff. exists (k, x). auto.
Qed.

Lemma assoc_get_map_keys : forall (A : Type) (g : string -> A) keys k,
  assoc_get k (map (fun k => (k, g k)) keys) = if in_dec string_dec k keys then Some (g k) else None.
Proof.
  intros A g keys k. induction keys as [|k' keys IH]; simpl; [reflexivity|].
  destruct (String.eqb_spec k k') as [E|E].
  - subst. destruct (string_dec k' k'); [reflexivity|congruence].
  - rewrite IH. destruct (string_dec k' k); [congruence|].
    destruct (in_dec string_dec k keys); reflexivity.
Qed.

Lemma keys_union_nil_l : forall b, keys_union [] b = b.
Proof. intros b. destruct b; reflexivity. Qed.

Lemma keys_union_nil_r : forall a, keys_union a [] = a.
Proof. intros a. destruct a; reflexivity. Qed.

Lemma keys_union_cons : forall x xs y ys,
  keys_union (x :: xs) (y :: ys) =
  match String.compare x y with
  | Lt => x :: keys_union xs (y :: ys)
  | Eq => x :: keys_union xs ys
  | Gt => y :: keys_union (x :: xs) ys
  end.
Proof. reflexivity. Qed.

Lemma keys_union_self : forall a, keys_union a a = a.
Proof.
  induction a as [|x a IH]; [reflexivity|].
  rewrite keys_union_cons, str_cmp_refl, IH. reflexivity.
Qed.

Lemma keys_union_in : forall a b k, In k (keys_union a b) <-> In k a \/ In k b.
Proof.
  induction a as [|x a IHa]; intros b k.
  - rewrite keys_union_nil_l. simpl. tauto.
  - induction b as [|y b IHb].
    + rewrite keys_union_nil_r. simpl. tauto.
    + rewrite keys_union_cons. destruct (String.compare x y) eqn:E.
      * apply str_cmp_eq in E. subst y. simpl. rewrite IHa. tauto.
      * simpl. rewrite IHa. simpl. tauto.
      * simpl. rewrite IHb. simpl. tauto.
Qed.

Lemma keys_union_sorted : forall a b, ssorted a -> ssorted b -> ssorted (keys_union a b).
Proof.
  induction a as [|x a IHa]; intros b Ha Hb.
  - rewrite keys_union_nil_l. exact Hb.
  - induction b as [|y b IHb].
    + rewrite keys_union_nil_r. exact Ha.
    + destruct Ha as [Hx Ha]. destruct Hb as [Hy Hb].
      rewrite keys_union_cons. destruct (String.compare x y) eqn:E.
      * apply str_cmp_eq in E. subst y. split; [|apply IHa; auto].
        rewrite Forall_forall in *. intros z Hz. apply keys_union_in in Hz. destruct Hz; auto.
      * split; [|apply IHa; simpl; auto].
        rewrite Forall_forall in *. intros z Hz. apply keys_union_in in Hz.
        destruct Hz as [Hz|[Hz|Hz]]; auto.
        -- subst z. exact E.
        -- eapply str_cmp_trans; [exact E|]. auto.
      * apply str_cmp_gt_lt in E. split; [|apply IHb; simpl; auto].
        rewrite Forall_forall in *. intros z Hz. apply keys_union_in in Hz.
        destruct Hz as [[Hz|Hz]|Hz]; auto.
        -- subst z. exact E.
        -- eapply str_cmp_trans; [exact E|]. auto.
Qed.

Lemma map_rebuild : forall (g : string -> value) (m : list (string * value)),
  (forall k x, In (k, x) m -> g k = x) -> map (fun k => (k, g k)) (map fst m) = m.
Proof.
  intros g m H. rewrite map_map. rewrite <- (map_id m) at 2. apply map_ext_in.
  intros [k x] Hin. simpl. rewrite (H k x Hin). reflexivity.
Qed.

(* the fold over the keys of a map, when no sub-merge fails and every one has an output *)
Lemma fold_map_ok : forall f s t lm rm (g : string -> value) keys e0 acc0,
  (forall k, In k keys ->
     merge_w f s (field_type t k) (assoc_get k lm) (assoc_get k rm) = (false, Some (g k))) ->
  fold_left (map_step f s t lm rm) keys (e0, acc0) = (e0, acc0 ++ map (fun k => (k, g k)) keys).
Proof.
  intros f s t lm rm g keys. induction keys as [|k keys IH]; intros e0 acc0 H.
  - simpl. rewrite app_nil_r. reflexivity.
  - simpl. unfold map_step at 2. rewrite (H k (or_introl eq_refl)). simpl.
    rewrite IH by (intros k' Hk'; apply H; right; exact Hk').
    rewrite orb_false_r, <- app_assoc. reflexivity.
Qed.

Definition out_of (r : bool * option value) : value :=
  match snd r with Some x => x | None => VNull end.

Lemma out_of_eq : forall r x, r = (false, Some x) -> r = (false, Some (out_of r)).
Proof. intros r x H. subst. reflexivity. Qed.
