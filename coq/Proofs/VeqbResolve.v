(* Equal objects (value.Equals, [veqb]) have the same paths, designating equal things:
   [veqb_resolve].  Consequence: agreement with a configuration passes from an object to
   an equal one ([AgrP_veqb]) -- used for Apply's "no change" answer, where the caller
   keeps the live object because it equals the computed one. *)
From Coq Require Import List ZArith String Bool Arith Lia.
From SMD Require Import Model.Value Model.Order Model.PathElem Model.PathSet Model.Schema
  Model.Walk Spec.PathsAsSets Spec.RefValid Spec.Resolve Spec.Agree
  Proofs.OrderLaws Proofs.KeyLaws Proofs.PathSetLaws Proofs.ValidateLaws Proofs.SchemaOk
  Proofs.FieldSetMirrors Proofs.FieldSetBase Proofs.FieldSetShape Proofs.FieldSetPaths
  Proofs.RemoveAbsent Proofs.ResolveLaws Proofs.MergeBase Proofs.MergeVeqbAux Proofs.RemoveFrame.
Import ListNotations.
Open Scope bool_scope.
Open Scope list_scope.

Lemma veqb_trans : forall a b c, wf_value a = true -> wf_value b = true -> wf_value c = true ->
  veqb a b = true -> veqb b c = true -> veqb a c = true.
Proof.
  intros a b c Ha Hb Hc Hab Hbc.
  apply (vcmp_eq_iff_veqb a b Ha Hb) in Hab. apply (vcmp_eq_iff_veqb b c Hb Hc) in Hbc.
  apply (vcmp_eq_iff_veqb a c Ha Hc). rewrite (vcmp_eq_l a b c Hab). exact Hbc.
Qed.

Lemma values_eqb'_F2 : forall xs ys, Forall2 (fun x y => veqb x y = true) xs ys ->
  values_eqb' xs ys = true.
Proof. intros xs ys H. induction H as [|x y xs ys Hxy _ IH]; [reflexivity|]. simpl. rewrite Hxy, IH. reflexivity. Qed.

Lemma values_eqb'_inv : forall xs ys, values_eqb' xs ys = true ->
  Forall2 (fun x y => veqb x y = true) xs ys.
Proof.
  induction xs as [|x xs IH]; intros [|y ys] H; simpl in H; try discriminate; [constructor|].
  apply andb_true_iff in H. destruct H. constructor; auto.
Qed.

Lemma F2_filter : forall (A : Type) (P : A -> A -> Prop) (f g : A -> bool) l1 l2,
  Forall2 P l1 l2 -> (forall x y, In x l1 -> In y l2 -> P x y -> f x = g y) ->
  Forall2 P (filter f l1) (filter g l2).
Proof.
  intros A P f g l1 l2 H. induction H as [|x y l1 l2 Hxy _ IH]; intros Hfg; [constructor|].
  simpl. rewrite (Hfg x y (or_introl eq_refl) (or_introl eq_refl) Hxy).
  assert (IH' : Forall2 P (filter f l1) (filter g l2)).
  { apply IH. intros x' y' Hx' Hy'. apply Hfg; right; assumption. }
  destruct (g y); [constructor; assumption|exact IH'].
Qed.

Lemma F2_in_l : forall (A B : Type) (P : A -> B -> Prop) l1 l2 x, Forall2 P l1 l2 -> In x l1 ->
  exists y, In y l2 /\ P x y.
Proof.
  intros A B P l1 l2 x H. induction H as [|a b l1 l2 Hab _ IH]; intros Hin; [destruct Hin|].
  destruct Hin as [->|Hin]; [exists b; split; [left; reflexivity|exact Hab]|].
  destruct (IH Hin) as (y & Hy & Hp). exists y. split; [right; exact Hy|exact Hp].
Qed.

Section VeqbResolve.
  Variables (s : schema) (R : typeref -> Prop).
  Hypothesis Hok : schema_ok s R.
  Hypothesis Hfam : family_refs s R.

  Lemma elem_defaults_R : forall t, R (list_elem t) -> elem_defaults_ok s t.
  Proof. intros t Ht a Hr. apply (so_defaults s R Hok (list_elem t) a Ht Hr). Qed.

  (* what a path designates is well formed *)
  Lemma resolve_node_wf : forall p v tr n, R tr -> wf_value v = true -> wf_path p = true ->
    resolve_path s tr v p = Some n ->
    match n with
    | RNode _ x => wf_value x = true
    | RDup _ xs => forall x, In x xs -> wf_value x = true
    end.
  Proof.
    induction p as [|e rest IH]; intros v tr n Htr Hwf Hp Hres.
    - simpl in Hres. inversion Hres; subst. exact Hwf.
    - apply wf_path_cons in Hp. destruct Hp as [He Hrest].
      destruct (kind_of s tr v) as [|t m|t l|] eqn:Ek.
      + rewrite resolve_path_leaf in Hres by (rewrite Ek; exact I). discriminate.
      + destruct (kind_map_inv _ _ _ _ _ Ek) as (a & Hr & Ham & Hv & _ & _). subst v.
        destruct e as [k|fl|ev|i];
          try (rewrite (resolve_path_map_other _ _ _ _ _ _ _ Ek) in Hres by exact I; discriminate).
        rewrite (resolve_path_map _ _ _ _ _ _ _ Ek) in Hres.
        destruct (assoc_get k m) as [c|] eqn:Eg; [|discriminate].
        apply (IH c (field_type t k) n); auto.
        * eapply (so_map s R Hok); eauto.
        * apply (wf_value_map_in m k c Hwf (assoc_get_In m k c Eg)).
      + destruct (kind_list_inv _ _ _ _ _ Ek) as (a & Hr & Hal & Hv & _ & _). subst v.
        assert (Hte : R (list_elem t)) by (eapply (so_list s R Hok); eauto).
        rewrite (resolve_path_list_occ s R Hok tr _ t l e rest Htr Hwf Ek He) in Hres.
        destruct (forallb (ValidateLaws.has_pe s t) l && is_keyval e); [|discriminate].
        assert (Hsub : forall x, In x (occ s t e l) -> wf_value x = true).
        { intros x Hx. apply occ_In in Hx. apply (wf_value_list_in l x Hwf). apply Hx. }
        destruct (occ s t e l) as [|x [|y more]]; [discriminate| |].
        * apply (IH x (list_elem t) n); auto. apply Hsub. left. reflexivity.
        * destruct rest; [|discriminate]. inversion Hres; subst n. exact Hsub.
      + rewrite resolve_path_leaf in Hres by (rewrite Ek; exact I). discriminate.
  Qed.

  Lemma rnode_eqb_trans : forall a b c,
    match a with RNode _ x => wf_value x = true | RDup _ xs => forall x, In x xs -> wf_value x = true end ->
    match b with RNode _ x => wf_value x = true | RDup _ xs => forall x, In x xs -> wf_value x = true end ->
    match c with RNode _ x => wf_value x = true | RDup _ xs => forall x, In x xs -> wf_value x = true end ->
    rnode_eqb a b = true -> rnode_eqb b c = true -> rnode_eqb a c = true.
  Proof.
    intros [ta x|ta xs] [tb y|tb ys] [tc z|tc zs] Ha Hb Hc Hab Hbc; simpl in *; try discriminate.
    - apply (veqb_trans x y z); assumption.
    - apply values_eqb'_F2. apply values_eqb'_inv in Hab. apply values_eqb'_inv in Hbc.
      revert zs Hc Hbc. induction Hab as [|x y xs ys Hxy Hrest IH]; intros zs Hc Hbc;
        inversion Hbc as [|? z ? zs' Hyz Hrest']; subst; constructor.
      + apply (veqb_trans x y z); auto; [apply Ha|apply Hb|apply Hc]; left; reflexivity.
      + apply IH; auto; intros w Hw; [apply Ha|apply Hb|apply Hc]; right; exact Hw.
  Qed.

  (* equal objects resolve the same paths to equal things *)
  Theorem veqb_resolve : forall p a b tr n, R tr -> wf_value a = true -> wf_value b = true ->
    conforms s tr true a = true -> conforms s tr true b = true -> veqb a b = true ->
    wf_path p = true -> resolve_path s tr a p = Some n ->
    exists n', resolve_path s tr b p = Some n' /\ rnode_eqb n n' = true.
  Proof.
    induction p as [|e rest IH]; intros a b tr n Htr Hwa Hwb Hca Hcb Hv Hp Hres.
    - simpl in Hres. inversion Hres; subst. eexists. split; [reflexivity|exact Hv].
    - apply wf_path_cons in Hp. destruct Hp as [He Hrest].
      destruct (kind_of s tr a) as [|t m1|t l1|] eqn:Ek.
      + rewrite resolve_path_leaf in Hres by (rewrite Ek; exact I). discriminate.
      + destruct (kind_map_inv _ _ _ _ _ Ek) as (a0 & Hr & Ham & Hva & Hna & Hne). subst a.
        destruct b as [| | | | |l2|m2]; try (simpl in Hv; discriminate).
        destruct (veqb_map_facts m1 m2 Hwa Hwb Hv) as [Hkeys Hget].
        destruct a0 as [sc li ma]. simpl in Ham. subst ma.
        assert (Hne2 : m2 <> []).
        { intros ->. destruct m1; [congruence|discriminate]. }
        assert (Ek2 : kind_of s tr (VMap m2) = KMap t m2).
        { unfold kind_of. rewrite Hr, Hna. destruct m2; [congruence|reflexivity]. }
        destruct e as [k|fl|ev|i];
          try (rewrite (resolve_path_map_other _ _ _ _ _ _ _ Ek) in Hres by exact I; discriminate).
        rewrite (resolve_path_map _ _ _ _ _ _ _ Ek) in Hres.
        rewrite (resolve_path_map _ _ _ _ _ _ _ Ek2).
        destruct (assoc_get k m1) as [c1|] eqn:Eg1; [|discriminate].
        destruct (Hget k c1 Eg1) as (c2 & Eg2 & Hv12). rewrite Eg2.
        pose proof (assoc_get_In m1 k c1 Eg1) as Hin1. pose proof (assoc_get_In m2 k c2 Eg2) as Hin2.
        apply (IH c1 c2 (field_type t k) n); auto.
        * apply (so_map s R Hok tr _ t k Htr Hr eq_refl).
        * apply (wf_value_map_in m1 k c1 Hwa Hin1).
        * apply (wf_value_map_in m2 k c2 Hwb Hin2).
        * rewrite conforms_eq, Hr in Hca. eapply cmap_each_in; eauto.
        * rewrite conforms_eq, Hr in Hcb. eapply cmap_each_in; eauto.
      + destruct (kind_list_inv _ _ _ _ _ Ek) as (a0 & Hr0 & Hal & Hva & _ & _). subst a.
        destruct b as [| | | | |l2|m2]; try (simpl in Hv; discriminate).
        destruct (conf_list_facts s R Hok Hfam tr true t l1 Htr Hca Ek)
          as (sc & ma & Hr & Hte & Hna & Hne & Hhp1 & Hcs1 & _).
        rewrite veqb_list in Hv. apply all2b_F2 in Hv.
        assert (Hne2 : l2 <> []).
        { intros ->. inversion Hv; subst. congruence. }
        assert (Ek2 : kind_of s tr (VList l2) = KList t l2).
        { unfold kind_of. rewrite Hr, Hna. destruct l2; [congruence|reflexivity]. }
        destruct (conf_list_facts s R Hok Hfam tr true t l2 Htr Hcb Ek2)
          as (_ & _ & _ & _ & _ & _ & Hhp2 & Hcs2 & _).
        destruct (is_keyval e) eqn:Ekv;
          [|rewrite (resolve_path_list_other _ _ _ _ _ _ _ Ek Ekv) in Hres; discriminate].
        rewrite (resolve_path_list_occ s R Hok tr _ t l1 e rest Htr Hwa Ek He), Hhp1, Ekv in Hres.
        rewrite (resolve_path_list_occ s R Hok tr _ t l2 e rest Htr Hwb Ek2 He), Hhp2, Ekv.
        cbn [andb] in *.
        assert (Hiw1 : items_wf s t l1) by (eapply items_wf_R; eauto).
        assert (Hiw2 : items_wf s t l2) by (eapply items_wf_R; eauto).
        assert (Hocc : Forall2 (fun x y => veqb x y = true) (occ s t e l1) (occ s t e l2)).
        { unfold occ. apply F2_filter; [exact Hv|]. intros x y Hx Hy Hxy.
          rewrite forallb_forall in Hhp1, Hhp2.
          pose proof (Hhp1 x Hx) as H1. pose proof (Hhp2 y Hy) as H2. unfold has_pe, ValidateLaws.has_pe in H1, H2.
          unfold pe_matches.
          destruct (list_item_to_pe s t x) as [ex|] eqn:Ex; [|discriminate].
          destruct (list_item_to_pe s t y) as [ey|] eqn:Ey; [|discriminate].
          pose proof (item_pe_veqb s t x y ex ey (elem_defaults_R t Hte)
                        (wf_value_list_in l1 x Hwa Hx) (wf_value_list_in l2 y Hwb Hy) Hxy Ex Ey) as Heq.
          apply peeqb_cong_l; auto; [apply (Hiw1 x ex Hx Ex)|apply (Hiw2 y ey Hy Ey)]. }
        destruct (occ s t e l1) as [|x [|x' more]] eqn:Eo1; [discriminate| |].
        * destruct (occ s t e l2) as [|y [|y' more2]] eqn:Eo2;
            [inversion Hocc| |inversion Hocc as [|? ? ? ? _ Hbad]; inversion Hbad].
          inversion Hocc as [|? ? ? ? Hxy _]; subst.
          assert (Hx : In x (occ s t e l1)) by (rewrite Eo1; left; reflexivity).
          assert (Hy : In y (occ s t e l2)) by (rewrite Eo2; left; reflexivity).
          apply occ_In in Hx. apply occ_In in Hy. destruct Hx as [Hx _]. destruct Hy as [Hy _].
          apply (IH x y (list_elem t) n); auto.
          -- apply (wf_value_list_in l1 x Hwa Hx).
          -- apply (wf_value_list_in l2 y Hwb Hy).
          -- rewrite forallb_forall in Hcs1. exact (Hcs1 x Hx).
          -- rewrite forallb_forall in Hcs2. exact (Hcs2 y Hy).
        * destruct rest; [|discriminate]. inversion Hres; subst n.
          inversion Hocc as [|? y ? ys Hxy Hrest']; subst.
          inversion Hrest' as [|? y' ? ys' Hxy' Hrest'']; subst.
          eexists. split; [reflexivity|]. simpl. rewrite Hxy, Hxy'. simpl.
          apply values_eqb'_F2. exact Hrest''.
      + rewrite resolve_path_leaf in Hres by (rewrite Ek; exact I). discriminate.
  Qed.

  (* agreement with a configuration passes to an equal object *)
  Theorem AgrP_veqb : forall tr cfg a b, R tr -> wf_value cfg = true ->
    wf_value a = true -> wf_value b = true ->
    conforms s tr true a = true -> conforms s tr true b = true -> veqb a b = true ->
    AgrP s tr cfg a -> AgrP s tr cfg b.
  Proof.
    intros tr cfg a b Htr Hwc Hwa Hwb Hca Hcb Hv Hagr p c Hp Hres.
    destruct (Hagr p c Hp Hres) as (o & Ho & Heq).
    destruct (veqb_resolve p a b tr o Htr Hwa Hwb Hca Hcb Hv Hp Ho) as (o' & Ho' & Hoo').
    exists o'. split; [exact Ho'|]. intros Hleaf. specialize (Heq Hleaf).
    apply (rnode_eqb_trans c o o'); auto.
    - apply (resolve_node_wf p cfg tr c Htr Hwc Hp Hres).
    - apply (resolve_node_wf p a tr o Htr Hwa Hp Ho).
    - apply (resolve_node_wf p b tr o' Htr Hwb Hp Ho').
  Qed.
End VeqbResolve.
