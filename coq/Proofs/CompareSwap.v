(* Swapping the operands of the comparing walker swaps removed/added (as sets of paths
   up to Path.Equals) and keeps modified and the error flag. *)
From Coq Require Import List ZArith String Bool Arith Lia.
From SMD Require Import Model.Value Model.Order Model.PathElem Model.PathSet Model.Schema
  Model.Walk Model.Validate Model.Merge Model.Compare Spec.PathsAsSets Spec.RefValid
  Proofs.OrderLaws Proofs.KeyLaws Proofs.PesLaws Proofs.PathSetLaws Proofs.ValidateLaws
  Proofs.SchemaOk Proofs.CompareBase Proofs.CompareWf.
Import ListNotations.
Open Scope bool_scope.

Definition cswap (c c' : cmpacc) : Prop :=
  forall q, wf_path q = true ->
    pmem q (c_removed c') = pmem q (c_added c) /\
    pmem q (c_added c') = pmem q (c_removed c) /\
    pmem q (c_modified c') = pmem q (c_modified c).

Definition sw (x y : bool * cmpacc) : Prop := fst x = fst y /\ cswap (snd x) (snd y).
Definition sw3 (x y : bool * cmpacc * bool) : Prop :=
  fst (fst x) = fst (fst y) /\ cswap (snd (fst x)) (snd (fst y)) /\ snd x = snd y.

Lemma cswap_empty : cswap cmp_empty cmp_empty.
Proof. intros q Hq. auto. Qed.

Lemma cswap_app : forall a a' b b', cswap a a' -> cswap b b' -> cswap (cmp_app a b) (cmp_app a' b').
Proof.
  intros a a' b b' Ha Hb q Hq. destruct (Ha q Hq) as (A1 & A2 & A3). destruct (Hb q Hq) as (B1 & B2 & B3).
  unfold cmp_app. simpl. rewrite !pmem_app. rewrite A1, A2, A3, B1, B2, B3. auto.
Qed.

Lemma cswap_app_comm : forall a a' b b', cswap a a' -> cswap b b' -> cswap (cmp_app a b) (cmp_app b' a').
Proof.
  intros a a' b b' Ha Hb q Hq. destruct (Ha q Hq) as (A1 & A2 & A3). destruct (Hb q Hq) as (B1 & B2 & B3).
  unfold cmp_app. simpl. rewrite !pmem_app. rewrite A1, A2, A3, B1, B2, B3.
  repeat split; apply orb_comm.
Qed.

Lemma pmem_single : forall q p p', wf_path q = true -> wf_path p = true -> wf_path p' = true ->
  patheqb p p' = true -> pmem q [p'] = pmem q [p].
Proof.
  intros q p p' Hq Hp Hp' H. unfold pmem. simpl. rewrite (patheqb_cong_r q p p'); auto.
Qed.

Section Singles.
  Variables p p' : path.
  Hypothesis Hp : wf_path p = true.
  Hypothesis Hp' : wf_path p' = true.
  Hypothesis Hpp : patheqb p p' = true.

  Lemma cswap_rem_add : cswap (cmp_rem p) (cmp_add p').
  Proof. intros q Hq. simpl. repeat split; auto. apply pmem_single; auto. Qed.
  Lemma cswap_add_rem : cswap (cmp_add p) (cmp_rem p').
  Proof. intros q Hq. simpl. repeat split; auto. apply pmem_single; auto. Qed.
  Lemma cswap_mod : cswap (cmp_mod p) (cmp_mod p').
  Proof. intros q Hq. simpl. repeat split; auto. apply pmem_single; auto. Qed.
End Singles.

Lemma cswap_concat : forall (A B : Type) (Rel : A -> B -> Prop) (F : A -> bool * cmpacc)
  (F' : B -> bool * cmpacc) la lb,
  (forall a, In a la -> exists b, In b lb /\ Rel a b) ->
  (forall b, In b lb -> exists a, In a la /\ Rel a b) ->
  (forall a b, In a la -> In b lb -> Rel a b -> sw (F a) (F' b)) ->
  existsb (fun a => fst (F a)) la = existsb (fun b => fst (F' b)) lb /\
  cswap (cmp_concat (map (fun a => snd (F a)) la)) (cmp_concat (map (fun b => snd (F' b)) lb)).
Proof.
  intros A B Rel F F' la lb H1 H2 H3. split.
  - apply (existsb_rel A B Rel); auto. intros a b Ha Hb Hr. apply (H3 a b Ha Hb Hr).
  - intros q Hq. rewrite pmem_concat_removed, pmem_concat_added, pmem_concat_modified.
    rewrite pmem_concat_removed, pmem_concat_added, pmem_concat_modified.
    rewrite !existsb_map.
    assert (H2' : forall a, In a lb -> exists b, In b la /\ Rel b a) by exact H2.
    repeat split; symmetry; apply (existsb_rel A B Rel); auto; intros a b Ha Hb Hr;
      destruct (H3 a b Ha Hb Hr) as [_ Hc]; destruct (Hc q Hq) as (C1 & C2 & C3); auto.
Qed.

Lemma pes_mem_filter : forall (phi : pe -> bool) x l, wf_pe x = true -> forallb wf_pe l = true ->
  (forall y, wf_pe y = true -> peeqb x y = true -> phi y = phi x) ->
  pes_mem x (filter phi l) = phi x && pes_mem x l.
Proof.
  intros phi x l Hx Hl Hphi. induction l as [|y l IH]; simpl.
  - rewrite andb_false_r. reflexivity.
  - simpl in Hl. apply andb_true_iff in Hl. destruct Hl as [Hy Hl]. specialize (IH Hl).
    destruct (peeqb x y) eqn:Exy.
    + rewrite (Hphi y Hy Exy). destruct (phi x); simpl.
      * rewrite Exy. reflexivity.
      * rewrite IH. reflexivity.
    + destruct (phi y); simpl; rewrite ?Exy; rewrite IH; reflexivity.
Qed.

Lemma elem_res_swap : forall item item' pp pp' e e' L Rr,
  (forall lc rc, wf_ov lc = true -> wf_ov rc = true -> sw (item e lc rc) (item' e' rc lc)) ->
  wf_path pp = true -> wf_path pp' = true -> patheqb pp pp' = true ->
  forallb wf_value L = true -> forallb wf_value Rr = true ->
  sw (elem_res item pp e L Rr) (elem_res item' pp' e' Rr L).
Proof.
  intros item item' pp pp' e e' L Rr Hitem Hpp Hpp' Heq HL HR.
  destruct L as [|lv [|lv2 L]]; destruct Rr as [|rv [|rv2 Rr]]; simpl in HL, HR;
    repeat match goal with
    | H : _ && _ = true |- _ => apply andb_true_iff in H; destruct H
    end; cbn [elem_res].
  - split; [reflexivity|apply cswap_empty].
  - apply Hitem; auto.
  - split; [reflexivity|apply cswap_add_rem; auto].
  - apply Hitem; auto.
  - apply Hitem; auto.
  - destruct (Hitem (Some lv) None) as [K1 K2]; auto.
    destruct (item e (Some lv) None) as [e1 c1]. destruct (item' e' None (Some lv)) as [e1' c1'].
    simpl in *. split; auto. apply cswap_app; auto. apply cswap_add_rem; auto.
  - split; [reflexivity|apply cswap_rem_add; auto].
  - destruct (Hitem None (Some rv)) as [K1 K2]; auto.
    destruct (item e None (Some rv)) as [e1 c1]. destruct (item' e' (Some rv) None) as [e1' c1'].
    simpl in *. split; auto. apply cswap_app; auto. apply cswap_rem_add; auto.
  - split; [reflexivity|]. cbn [snd].
    rewrite (values_eqb_sym (rv :: rv2 :: Rr) (lv :: lv2 :: L)) by (simpl; repeat (apply andb_true_iff; split); auto).
    destruct (values_eqb (lv :: lv2 :: L) (rv :: rv2 :: Rr)); [apply cswap_empty|apply cswap_mod; auto].
Qed.

Section BodySwap.
  Variables (s : schema) (R : typeref -> Prop).
  Hypothesis Hok : schema_ok s R.
  Variable rec : typeref -> path -> option value -> option value -> bool * cmpacc.
  Hypothesis Hrec : forall tr p p' l r, R tr -> wf_path p = true -> wf_path p' = true ->
    patheqb p p' = true -> wf_ov l = true -> wf_ov r = true ->
    sw (rec tr p l r) (rec tr p' r l).
  Variables p p' : path.
  Variables lhs rhs : option value.
  Hypothesis Hp : wf_path p = true.
  Hypothesis Hp' : wf_path p' = true.
  Hypothesis Hpp : patheqb p p' = true.
  Hypothesis Hl : wf_ov lhs = true.
  Hypothesis Hr : wf_ov rhs = true.
  Hypothesis Hnn : isSome lhs || isSome rhs = true.

  Lemma do_leaf_swap : sw3 (do_leaf p lhs rhs) (do_leaf p' rhs lhs).
  Proof.
    unfold do_leaf, sw3. cbn [fst snd]. split; [reflexivity|]. split; [|reflexivity].
    destruct lhs as [l|], rhs as [r|]; simpl in *; try discriminate.
    - rewrite (veqb_sym l r Hl Hr). destruct (veqb r l); [apply cswap_empty|apply cswap_mod; auto].
    - apply cswap_rem_add; auto.
    - apply cswap_add_rem; auto.
  Qed.

  Lemma all_pes_mem : forall t lV o1 e1 rV ro e2 ll rl,
    (forall c e, wf_value c = true -> list_item_to_pe s t c = Some e -> wf_pe e = true) ->
    forallb wf_value ll = true -> forallb wf_value rl = true ->
    gather_values s t ll [] [] false = (lV, o1, e1) ->
    gather_values s t rl [] [] false = (rV, ro, e2) ->
    forall x, wf_pe x = true ->
      pes_mem x (all_pes lV o1 ro) = nonnil (grp s t x ll) || nonnil (grp s t x rl).
  Proof.
    intros t lV o1 e1 rV ro e2 ll rl Hpe Hll Hrl El Er x Hx.
    destruct (gather_spec s t Hpe _ _ _ _ Hll El) as (L1 & L2 & L3 & L4 & L5 & L6 & L7).
    destruct (gather_spec s t Hpe _ _ _ _ Hrl Er) as (R1 & R2 & R3 & R4 & R5 & R6 & R7).
    unfold all_pes. rewrite pes_mem_app, (L4 x Hx).
    rewrite (pes_mem_filter _ x ro Hx R3).
    - rewrite (R4 x Hx). pose proof (L6 x Hx) as H6.
      destruct (pem_get x lV); simpl in H6; rewrite <- H6; simpl; auto.
    - intros y Hy Hxy. rewrite (pem_get_cong _ x y lV); auto.
  Qed.

  Lemma handle_list_swap : forall t, R (list_elem t) ->
    sw3 (handle_list rec s p lhs rhs t) (handle_list rec s p' rhs lhs t).
  Proof.
    intros t HR. unfold handle_list.
    rewrite (andb_comm (is_emp (deref_list rhs)) (is_emp (deref_list lhs))).
    destruct (rel_is_atomic (list_rel t) || (is_emp (deref_list lhs) && is_emp (deref_list rhs))).
    - apply do_leaf_swap.
    - pose proof (item_pe_wf_elem s R Hok t) as Hpe. specialize (fun c e => Hpe c e HR).
      pose proof (deref_list_wf _ Hl) as Hll. pose proof (deref_list_wf _ Hr) as Hrl.
      destruct (gather_values s t (ol (deref_list lhs)) [] [] false) as [[lV o1] e1] eqn:El.
      destruct (gather_values s t (ol (deref_list rhs)) [] [] false) as [[rV ro] e2] eqn:Er.
      destruct (gather_spec s t Hpe _ _ _ _ Hll El) as (L1 & L2 & L3 & L4 & L5 & L6 & L7).
      destruct (gather_spec s t Hpe _ _ _ _ Hrl Er) as (R1 & R2 & R3 & R4 & R5 & R6 & R7).
      rewrite !fold_acc_step. cbn [fst snd]. rewrite !cmp_app_empty_l.
      pose proof (all_pes_mem t lV o1 e1 rV ro e2 _ _ Hpe Hll Hrl El Er) as MA.
      pose proof (all_pes_mem t rV ro e2 lV o1 e1 _ _ Hpe Hrl Hll Er El) as MB.
      pose proof (all_pes_wf lV o1 ro L3 R3) as WA.
      pose proof (all_pes_wf rV ro o1 R3 L3) as WB.
      destruct (cswap_concat pe pe (fun a b => wf_pe a = true /\ wf_pe b = true /\ peeqb a b = true)
                  (list_F rec p t lV rV) (list_F rec p' t rV lV)
                  (all_pes lV o1 ro) (all_pes rV ro o1)) as [HE HC].
      + intros a Ha. pose proof (WA a Ha) as Hwa.
        pose proof (pes_mem_In a _ Hwa Ha) as Hm. rewrite (MA a Hwa), orb_comm, <- (MB a Hwa) in Hm.
        apply pes_mem_true in Hm. destruct Hm as (b & Hb & Hab). exists b. auto.
      + intros b Hb. pose proof (WB b Hb) as Hwb.
        pose proof (pes_mem_In b _ Hwb Hb) as Hm. rewrite (MB b Hwb), orb_comm, <- (MA b Hwb) in Hm.
        apply pes_mem_true in Hm. destruct Hm as (a & Ha & Hba). exists a.
        pose proof (WA a Ha) as Hwa. rewrite (peeqb_sym b a Hwb Hwa) in Hba. auto.
      + intros a b Ha Hb (Hwa & Hwb & Hab). unfold list_F.
        rewrite (L5 a Hwa), (R5 a Hwa), (L5 b Hwb), (R5 b Hwb).
        rewrite (grp_cong s t Hpe b a _ Hwb Hwa Hll) by (rewrite (peeqb_sym b a); auto).
        rewrite (grp_cong s t Hpe b a _ Hwb Hwa Hrl) by (rewrite (peeqb_sym b a); auto).
        apply elem_res_swap.
        * intros lc rc Hlc Hrc. apply Hrec; auto; try (apply wf_path_snoc; auto).
          apply patheqb_snoc; auto.
        * apply wf_path_snoc; auto.
        * apply wf_path_snoc; auto.
        * apply patheqb_snoc; auto.
        * apply grp_wf; auto.
        * apply grp_wf; auto.
      + unfold sw3. cbn [fst snd]. split; [|split; [exact HC|reflexivity]].
        rewrite HE, (orb_comm e1 e2). reflexivity.
  Qed.

  Lemma handle_map_swap : forall t, (forall k, R (field_type t k)) ->
    sw3 (handle_map rec p lhs rhs t) (handle_map rec p' rhs lhs t).
  Proof.
    intros t HR. unfold handle_map.
    rewrite (andb_comm (is_emp (deref_map rhs)) (is_emp (deref_map lhs))).
    destruct (rel_is_atomic (map_rel t) || (is_emp (deref_map lhs) && is_emp (deref_map rhs))).
    - apply do_leaf_swap.
    - rewrite !fold_acc_step. cbn [fst snd]. rewrite !cmp_app_empty_l.
      pose proof (deref_map_wf _ Hl) as Hlm. pose proof (deref_map_wf _ Hr) as Hrm.
      destruct (cswap_concat string string (fun a b => a = b)
                  (map_F rec p t (ol (deref_map lhs)) (ol (deref_map rhs)))
                  (map_F rec p' t (ol (deref_map rhs)) (ol (deref_map lhs)))
                  (keys_union (map fst (ol (deref_map lhs))) (map fst (ol (deref_map rhs))))
                  (keys_union (map fst (ol (deref_map rhs))) (map fst (ol (deref_map lhs))))) as [HE HC].
      + intros a Ha. exists a. split; auto. apply keys_union_In. apply keys_union_In in Ha. tauto.
      + intros a Ha. exists a. split; auto. apply keys_union_In. apply keys_union_In in Ha. tauto.
      + intros a b Ha Hb Hab. subst b. unfold map_F. apply Hrec; auto.
        * apply wf_path_snoc; auto.
        * apply wf_path_snoc; auto.
        * apply patheqb_snoc; auto. simpl. apply String.eqb_refl.
        * apply assoc_get_wf_ov; auto.
        * apply assoc_get_wf_ov; auto.
      + unfold sw3. cbn [fst snd]. split; [|split; [exact HC|reflexivity]].
        rewrite HE. reflexivity.
  Qed.

  Lemma cmp_handle_swap : forall h,
    (forall t, h = HList t -> R (list_elem t)) ->
    (forall t, h = HMap t -> forall k, R (field_type t k)) ->
    sw3 (cmp_handle rec s p lhs rhs h) (cmp_handle rec s p' rhs lhs h).
  Proof.
    intros h H1 H2. destruct h as [t|t|t|]; cbn [cmp_handle].
    - apply handle_map_swap. apply H2. reflexivity.
    - rewrite (andb_comm (validate_scalar t rhs) (validate_scalar t lhs)).
      destruct (validate_scalar t lhs && validate_scalar t rhs).
      + unfold sw3. simpl. split; [reflexivity|split; [apply cswap_empty|reflexivity]].
      + apply do_leaf_swap.
    - apply handle_list_swap. apply H1. reflexivity.
    - unfold sw3. simpl. split; [reflexivity|split; [apply cswap_empty|reflexivity]].
  Qed.

  Lemma handle_deduced_swap : forall tr a o, R tr -> resolve s tr = Some a ->
    sw3 (cmp_handle rec s p lhs rhs (handle_atom (deduce_atom a o)))
        (cmp_handle rec s p' rhs lhs (handle_atom (deduce_atom a o))).
  Proof.
    intros tr a o HR Hres. apply cmp_handle_swap.
    - intros t Ht. apply handle_atom_list in Ht. apply deduce_list in Ht.
      eapply (so_list s R Hok); eauto.
    - intros t Ht k. apply handle_atom_map in Ht. apply deduce_map in Ht.
      eapply (so_map s R Hok); eauto.
  Qed.

  Lemma compare_body_swap : forall tr, R tr ->
    sw (compare_body rec s p lhs rhs tr) (compare_body rec s p' rhs lhs tr).
  Proof.
    intros tr HR. unfold compare_body.
    assert (Hmain : sw match resolve s tr with
                       | None => (true, cmp_empty)
                       | Some a => let '(e, c, leafed) := cmp_dispatch rec s p lhs rhs a in
                                   (e, cmp_app c (cmp_tail p lhs rhs leafed))
                       end
                       match resolve s tr with
                       | None => (true, cmp_empty)
                       | Some a => let '(e, c, leafed) := cmp_dispatch rec s p' rhs lhs a in
                                   (e, cmp_app c (cmp_tail p' rhs lhs leafed))
                       end).
    { destruct (resolve s tr) as [a|] eqn:Hres; [|split; [reflexivity|apply cswap_empty]].
      pose proof (handle_deduced_swap tr a lhs HR Hres) as HA.
      pose proof (handle_deduced_swap tr a rhs HR Hres) as HB.
      unfold cmp_dispatch.
      destruct lhs as [lv|], rhs as [rv|]; try discriminate.
      - rewrite (deduce_eqb_sym a (Some rv) (Some lv)).
        destruct (atom_eqb (deduce_atom a (Some lv)) (deduce_atom a (Some rv))) eqn:Eeq.
        + apply deduce_eqb_eq in Eeq. rewrite <- Eeq in HB |- *.
          destruct HA as (A1 & A2 & A3).
          destruct (cmp_handle rec s p (Some lv) (Some rv) (handle_atom (deduce_atom a (Some lv)))) as [[e1 c1] l1].
          destruct (cmp_handle rec s p' (Some rv) (Some lv) (handle_atom (deduce_atom a (Some lv)))) as [[e2 c2] l2].
          simpl in *. subst l2. split; [exact A1|]. simpl.
          destruct l1; simpl; rewrite !cmp_app_empty_r; exact A2.
        + destruct HA as (A1 & A2 & A3). destruct HB as (B1 & B2 & B3).
          destruct (cmp_handle rec s p (Some lv) (Some rv) (handle_atom (deduce_atom a (Some lv)))) as [[e1 c1] l1].
          destruct (cmp_handle rec s p' (Some rv) (Some lv) (handle_atom (deduce_atom a (Some lv)))) as [[e1' c1'] l1'].
          destruct (cmp_handle rec s p (Some lv) (Some rv) (handle_atom (deduce_atom a (Some rv)))) as [[e2 c2] l2].
          destruct (cmp_handle rec s p' (Some rv) (Some lv) (handle_atom (deduce_atom a (Some rv)))) as [[e2' c2'] l2'].
          simpl in *. subst. split; [apply orb_comm|]. simpl.
          assert (T : forall b b', cmp_tail p (Some lv) (Some rv) b = cmp_empty /\
                                   cmp_tail p' (Some rv) (Some lv) b' = cmp_empty)
            by (intros [] []; auto).
          destruct (T l2' l1') as [T1 T2]. rewrite T1, T2, !cmp_app_empty_r.
          apply cswap_app_comm; auto.
      - destruct HA as (A1 & A2 & A3).
        destruct (cmp_handle rec s p (Some lv) None (handle_atom (deduce_atom a (Some lv)))) as [[e1 c1] l1].
        destruct (cmp_handle rec s p' None (Some lv) (handle_atom (deduce_atom a (Some lv)))) as [[e2 c2] l2].
        simpl in *. subst l2. split; [exact A1|]. simpl.
        apply cswap_app; auto. destruct l1; simpl; [apply cswap_empty|apply cswap_rem_add; auto].
      - destruct HB as (A1 & A2 & A3).
        destruct (cmp_handle rec s p None (Some rv) (handle_atom (deduce_atom a (Some rv)))) as [[e1 c1] l1].
        destruct (cmp_handle rec s p' (Some rv) None (handle_atom (deduce_atom a (Some rv)))) as [[e2 c2] l2].
        simpl in *. subst l2. split; [exact A1|]. simpl.
        apply cswap_app; auto. destruct l1; simpl; [apply cswap_empty|apply cswap_add_rem; auto]. }
    destruct lhs, rhs; try exact Hmain. discriminate.
  Qed.
End BodySwap.

Theorem compare_w_swap : forall s R, schema_ok s R -> forall f tr p p' l r,
  R tr -> wf_path p = true -> wf_path p' = true -> patheqb p p' = true ->
  wf_ov l = true -> wf_ov r = true ->
  sw (compare_w f s tr p l r) (compare_w f s tr p' r l).
Proof.
  intros s R Hok f. induction f as [|f IH]; intros tr p p' l r HR Hp Hp' Hpp Hl Hr.
  - split; [reflexivity|apply cswap_empty].
  - rewrite !compare_w_S.
    destruct l as [lv|] eqn:El; [|destruct r as [rv|] eqn:Er].
    + apply (compare_body_swap s R Hok); auto.
    + apply (compare_body_swap s R Hok); auto.
    + split; [reflexivity|apply cswap_empty].
Qed.
