(* Leaf calculus for applies that ABANDON leaves (helper of Proofs/Commute2.v).
   [dstep l r D o]: the object o is "l with the configuration r merged into it and the leaves
   at the paths of D deleted", stated on leaves (extension of [CommuteLeaves.mstep]; the
   deleted paths lie directly beneath nodes of r, [ds_sh]).  Two pairs of such steps commute
   on leaves when the deletion sets of the two orders fit together [commute_lin_d]; the
   analogues of the lemmas of Proofs/CommuteSame.v on "the same node" across steps. *)
From Coq Require Import List ZArith String Bool Arith Lia.
From SMD Require Import Model.Value Model.Order Model.PathElem Model.PathSet Model.Schema Model.Walk
  Model.Validate Model.FieldSet Model.Remove Model.Merge
  Spec.PathsAsSets Spec.RefValid Spec.Resolve Spec.Agree Spec.RefDiff
  Proofs.OrderLaws Proofs.SchemaOk Proofs.FieldSetBase Proofs.FieldSetPaths Proofs.ResolveLaws
  Proofs.RemoveFrame Proofs.TreeFacts Proofs.NodeSet Proofs.KeyFields Proofs.VeqbResolve Proofs.MergeRestBase
  Proofs.RefDiffBoth Proofs.MergeThru Proofs.SameLeaves Proofs.CommuteLeaves Proofs.CommuteMod Proofs.CommuteSame.
From SMD Require Proofs.Partition Proofs.ReconcileBase Proofs.ApplyEffect.
Import ListNotations.
Open Scope bool_scope.
Open Scope list_scope.

Section DLeaves.
  Variables (s : schema) (R : typeref -> Prop).
  Hypothesis Hok : schema_ok s R.
  Hypothesis Hfam : family_refs s R.
  Hypothesis Hpure : lists_pure s R.

  Notation rs := (resolve_path s).

  Record dstep (tr : typeref) (l r : value) (D : path -> Prop) (o : value) : Prop := mkDstep {
    ds_good : good s tr o;
    ds_rw : forall p n, wf_path p = true -> rs tr r p = Some n -> rnode_is_leaf s n = true ->
              has_leaf s tr o p n = true;
    ds_fo : forall p n, wf_path p = true -> rs tr o p = Some n -> rnode_is_leaf s n = true ->
              has_leaf s tr r p n = true \/ (has_leaf s tr l p n = true /\ ~ D p);
    ds_kp : forall p n, wf_path p = true -> open_along s tr r p -> rs tr l p = Some n ->
              rnode_is_leaf s n = true -> ~ D p -> has_leaf s tr o p n = true;
    ds_sh : forall z j, D z -> wf_path z = true -> 1 <= j < List.length z ->
              present s tr r (firstn j z) = true }.

  (* a merging step deletes nothing *)
  Lemma dstep_of_mstep : forall tr l r (D : path -> Prop) o, (forall p, ~ D p) ->
    mstep s tr l r o -> dstep tr l r D o.
  Proof.
    intros tr l r D o HD HM. constructor.
    - exact (ms_good _ _ _ _ _ HM).
    - exact (ms_rw _ _ _ _ _ HM).
    - intros p n Hp Hr Hl. destruct (ms_fo _ _ _ _ _ HM p n Hp Hr Hl) as [H|H]; [left; exact H|right].
      split; [exact H|apply HD].
    - intros p n Hp Hopen Hr Hl _. exact (ms_kp _ _ _ _ _ HM p n Hp Hopen Hr Hl).
    - intros z j Hz. exfalso. exact (HD z Hz).
  Qed.

  (* the part of the notion that does not depend on the left operand *)
  Lemma dstep_self : forall tr l r D o, R tr -> dstep tr l r D o -> mstep s tr o r o.
  Proof.
    intros tr l r D o Htr HD. pose proof (ds_good _ _ _ _ _ HD) as Go. constructor.
    - exact Go.
    - exact (ds_rw _ _ _ _ _ HD).
    - intros p n Hp Hr Hl. right. apply (hl_intro s R Hok tr o p n Htr Go Hp Hr Hl).
    - intros p n Hp _ Hr Hl. apply (hl_intro s R Hok tr o p n Htr Go Hp Hr Hl).
  Qed.

  (* stability under leaf equivalence of the result *)
  Lemma dstep_lin : forall tr l r D M o, R tr -> good s tr l -> cfg_ok s tr r -> good s tr o ->
    lin s tr M o -> lin s tr o M -> dstep tr l r D M -> dstep tr l r D o.
  Proof.
    intros tr l r D M o Htr Gl Cr Go HMo HoM HM.
    pose proof (ds_good tr l r D M HM) as GM. pose proof (cfg_good s tr r Cr) as Gr.
    constructor.
    - exact Go.
    - intros p n Hp Hr Hl.
      apply (lin_hl s R Hok tr M o p n Htr GM Go Hp (good_nwf s R Hok tr r p n Htr Gr Hp Hr) HMo).
      apply (ds_rw tr l r D M HM p n Hp Hr Hl).
    - intros p n Hp Hr Hl.
      pose proof (HoM p n Hp Hr Hl) as H1.
      destruct (hl_inv s tr M p n H1) as (m & Hm & Lm & Em).
      pose proof (good_nwf s R Hok tr M p m Htr GM Hp Hm) as Wm.
      pose proof (good_nwf s R Hok tr o p n Htr Go Hp Hr) as Wn.
      destruct (ds_fo tr l r D M HM p m Hp Hm Lm) as [H|[H HnD]]; [left|right].
      + apply (hl_eqb s R Hok tr r p m n Htr Gr Hp Wm Wn H Em).
      + split; [|exact HnD]. apply (hl_eqb s R Hok tr l p m n Htr Gl Hp Wm Wn H Em).
    - intros p n Hp Hopen Hr Hl HnD.
      apply (lin_hl s R Hok tr M o p n Htr GM Go Hp (good_nwf s R Hok tr l p n Htr Gl Hp Hr) HMo).
      apply (ds_kp tr l r D M HM p n Hp Hopen Hr Hl HnD).
    - exact (ds_sh tr l r D M HM).
  Qed.

  Lemma dstep_veqb : forall tr l r D M o, R tr -> good s tr l -> cfg_ok s tr r -> good s tr o ->
    veqb o M = true -> dstep tr l r D M -> dstep tr l r D o.
  Proof.
    intros tr l r D M o Htr Gl Cr Go Hv HM.
    pose proof (ds_good tr l r D M HM) as GM.
    apply (dstep_lin tr l r D M o Htr Gl Cr Go); [| |exact HM].
    - apply (lin_veqb s R Hok Hfam); auto. rewrite veqb_sym; [exact Hv|apply GM|apply Go].
    - apply (lin_veqb s R Hok Hfam); auto.
  Qed.

  Lemma dich_d : forall tr l r D o p k, R tr -> cfg_ok s tr r -> dstep tr l r D o -> wf_path p = true ->
    rs tr o p = Some k -> rnode_is_leaf s k = true ->
    has_leaf s tr r p k = true \/ open_along s tr r p.
  Proof.
    intros tr l r D o p k Htr Cr HD Hp Hk Lk.
    apply (dich s R Hok Hfam tr o r o p k Htr Cr (dstep_self tr l r D o Htr HD) Hp Hk Lk).
  Qed.

  (* no leaf at a deleted path *)
  Lemma dstep_deleted : forall tr l r D o p n, R tr -> cfg_ok s tr r -> dstep tr l r D o ->
    wf_path p = true -> D p -> rs tr r p = None -> rs tr o p = Some n -> rnode_is_leaf s n = true -> False.
  Proof.
    intros tr l r D o p n Htr Cr HD Hp HDp Hnone Hn Ln.
    destruct (ds_fo _ _ _ _ _ HD p n Hp Hn Ln) as [H|[_ H]]; [|exact (H HDp)].
    destruct (hl_inv s tr r p n H) as (m & Hm & _). congruence.
  Qed.

  (* ---------- the two orders have the same leaves ---------- *)
  Lemma commute_lin_d : forall tr l rA rB DA DB' DB DA' oA oAB oB oBA, R tr -> good s tr l ->
    cfg_ok s tr rA -> cfg_ok s tr rB -> sep s tr rA rB ->
    dstep tr l rA DA oA -> dstep tr oA rB DB' oAB -> dstep tr l rB DB oB -> dstep tr oB rA DA' oBA ->
    (forall p n, wf_path p = true -> rs tr rB p = Some n -> rnode_is_leaf s n = true -> ~ DA' p) ->
    (forall p n, wf_path p = true -> rs tr l p = Some n -> rnode_is_leaf s n = true ->
       open_along s tr rA p -> open_along s tr rB p ->
       has_leaf s tr oA p n = true -> ~ DA p -> ~ DB' p -> ~ DB p) ->
    (forall p n, wf_path p = true -> rs tr l p = Some n -> rnode_is_leaf s n = true ->
       open_along s tr rA p -> open_along s tr rB p ->
       has_leaf s tr oA p n = true -> has_leaf s tr oB p n = true -> ~ DA p -> ~ DB' p -> ~ DA' p) ->
    lin s tr oAB oBA.
  Proof.
    intros tr l rA rB DA DB' DB DA' oA oAB oB oBA Htr Gl CA CB Hsep HA HAB HB HBA X1 X2 X3 p n Hp Hn Ln.
    pose proof (cfg_good s tr rA CA) as GrA. pose proof (cfg_good s tr rB CB) as GrB.
    pose proof (ds_good _ _ _ _ _ HA) as GA. pose proof (ds_good _ _ _ _ _ HAB) as GAB.
    pose proof (ds_good _ _ _ _ _ HB) as GB. pose proof (ds_good _ _ _ _ _ HBA) as GBA.
    pose proof (good_nwf s R Hok tr oAB p n Htr GAB Hp Hn) as Wn.
    assert (C1 : forall k, nwf k -> has_leaf s tr rB p k = true -> has_leaf s tr oBA p k = true).
    { intros k Wk H. destruct (hl_inv s tr rB p k H) as (m & Hm & Lm & Em).
      pose proof (good_nwf s R Hok tr rB p m Htr GrB Hp Hm) as Wm.
      pose proof (ds_rw _ _ _ _ _ HB p m Hp Hm Lm) as H1.
      destruct (hl_inv s tr oB p m H1) as (m1 & Hm1 & Lm1 & Em1).
      pose proof (good_nwf s R Hok tr oB p m1 Htr GB Hp Hm1) as Wm1.
      pose proof (open_of_uncovered s R Hok Hfam tr rA p Htr CA Hp (Hsep p m Hp Hm Lm)) as Hopen.
      pose proof (ds_kp _ _ _ _ _ HBA p m1 Hp Hopen Hm1 Lm1 (X1 p m Hp Hm Lm)) as H2.
      apply (hl_eqb s R Hok tr oBA p m k Htr GBA Hp Wm Wk); [|exact Em].
      apply (hl_eqb s R Hok tr oBA p m1 m Htr GBA Hp Wm1 Wm H2 Em1). }
    assert (C2 : forall k, nwf k -> has_leaf s tr rA p k = true -> has_leaf s tr oBA p k = true).
    { intros k Wk H. destruct (hl_inv s tr rA p k H) as (m & Hm & Lm & Em).
      pose proof (good_nwf s R Hok tr rA p m Htr GrA Hp Hm) as Wm.
      pose proof (ds_rw _ _ _ _ _ HBA p m Hp Hm Lm) as H1.
      apply (hl_eqb s R Hok tr oBA p m k Htr GBA Hp Wm Wk H1 Em). }
    destruct (ds_fo _ _ _ _ _ HAB p n Hp Hn Ln) as [H|[H NDB']]; [apply C1; assumption|].
    destruct (hl_inv s tr oA p n H) as (m & Hm & Lm & Em).
    pose proof (good_nwf s R Hok tr oA p m Htr GA Hp Hm) as Wm.
    destruct (ds_fo _ _ _ _ _ HA p m Hp Hm Lm) as [H2|[H2 NDA]].
    { apply (hl_eqb s R Hok tr oBA p m n Htr GBA Hp Wm Wn); [|exact Em]. apply C2; assumption. }
    destruct (hl_inv s tr l p m H2) as (m' & Hm' & Lm' & Em').
    pose proof (good_nwf s R Hok tr l p m' Htr Gl Hp Hm') as Wm'.
    destruct (dich_d tr oA rB DB' oAB p n Htr CB HAB Hp Hn Ln) as [D1|OB]; [apply C1; assumption|].
    destruct (dich_d tr l rA DA oA p m Htr CA HA Hp Hm Lm) as [D2|OA].
    { apply (hl_eqb s R Hok tr oBA p m n Htr GBA Hp Wm Wn); [|exact Em]. apply C2; assumption. }
    assert (HoA : has_leaf s tr oA p m' = true).
    { unfold has_leaf. rewrite Hm, Lm. cbn [andb].
      apply Partition.rnode_eqb_sym; [exact Wm'|exact Wm|exact Em']. }
    pose proof (ds_kp _ _ _ _ _ HB p m' Hp OB Hm' Lm' (X2 p m' Hp Hm' Lm' OA OB HoA NDA NDB')) as H3.
    destruct (hl_inv s tr oB p m' H3) as (m1 & Hm1 & Lm1 & Em1).
    pose proof (good_nwf s R Hok tr oB p m1 Htr GB Hp Hm1) as Wm1.
    pose proof (ds_kp _ _ _ _ _ HBA p m1 Hp OA Hm1 Lm1 (X3 p m' Hp Hm' Lm' OA OB HoA H3 NDA NDB')) as H4.
    apply (hl_eqb s R Hok tr oBA p m n Htr GBA Hp Wm Wn); [|exact Em].
    apply (hl_eqb s R Hok tr oBA p m' m Htr GBA Hp Wm' Wm); [|exact Em'].
    apply (hl_eqb s R Hok tr oBA p m1 m' Htr GBA Hp Wm1 Wm' H4 Em1).
  Qed.

  (* ---------- no group of duplicates, no hollow value in the result ---------- *)
  Lemma dstep_nodup : forall tr l r D o, R tr -> nodup s tr l -> cfg_ok s tr r -> dstep tr l r D o ->
    nodup s tr o.
  Proof.
    intros tr l r D o Htr Nl Cr HM p t xs Hp Hr.
    destruct (ds_fo _ _ _ _ _ HM p (RDup t xs) Hp Hr eq_refl) as [H|[H _]];
      destruct (hl_inv _ _ _ _ _ H) as (m & Hm & _ & Em);
      destruct m as [t' x|t' ys]; cbn [rnode_eqb] in Em; try discriminate.
    - exact (cfg_nodup s R Hok Hfam tr r Htr Cr p t' ys Hp Hm).
    - exact (Nl p t' ys Hp Hm).
  Qed.

  Lemma solid_dstep : forall tr l r D o, R tr -> good s tr l -> solid s tr l -> cfg_ok s tr r ->
    dstep tr l r D o -> solid s tr o.
  Proof.
    intros tr l r D o Htr Gl Sl Cr HM p t x Hp Hne Hr.
    pose proof (ds_good tr l r D o HM) as Go. pose proof Go as [Wo Co].
    pose proof (cfg_good s tr r Cr) as Gr.
    assert (Sr : solid s tr r).
    { destruct Cr as (Wr & _ & Pr). apply (solid_plain s R Hok); auto. }
    destruct (node_sub s R Hok Hfam p true tr o t x Htr Wo Co Hp Hr) as (_ & _ & Wx & Cx & _).
    destruct (kind_of s t x) as [|t0 m|t0 l0|] eqn:Kx.
    - assert (Lx : rnode_is_leaf s (RNode t x) = true) by (cbn [rnode_is_leaf]; rewrite Kx; reflexivity).
      destruct (ds_fo tr l r D o HM p _ Hp Hr Lx) as [H|[H _]];
        destruct (hl_inv s tr _ p _ H) as (m0 & Hm0 & _ & Ee);
        destruct m0 as [t' y|t' ys]; cbn [rnode_eqb] in Ee; try discriminate;
        rewrite <- (hollow_veqb y x Ee).
      + apply (Sr p t' y Hp Hne Hm0).
      + apply (Sl p t' y Hp Hne Hm0).
    - destruct (kind_map_inv _ _ _ _ _ Kx) as (_ & _ & _ & -> & _ & Hm). destruct m; [contradiction Hm; reflexivity|reflexivity].
    - destruct (kind_list_inv _ _ _ _ _ Kx) as (_ & _ & _ & -> & _ & Hm). destruct l0; [contradiction Hm; reflexivity|reflexivity].
    - exfalso. exact (conforms_kind_not_bad s t true x Cx Kx).
  Qed.

  (* ---------- "the same node" across a step ---------- *)
  Lemma crit_of_same_d : forall tr l0 r D o l p t x, R tr -> cfg_ok s tr r -> dstep tr l0 r D o ->
    good s tr l -> wf_path p = true -> rs tr l p = Some (RNode t x) -> same_at s tr l o p ->
    crit s tr r p t x.
  Proof.
    intros tr l0 r D o l p t x Htr Cr HD Gl Hp El Hs.
    apply (crit_of_same s R Hok Hfam tr o r o l p t x Htr Cr (dstep_self tr l0 r D o Htr HD) Gl Hp El Hs).
  Qed.

  Lemma same_of_crit_d : forall tr l r D o p t x, R tr -> good s tr l -> cfg_ok s tr r ->
    dstep tr l r D o -> nodup s tr o -> wf_path p = true -> p <> [] -> ~ D p ->
    rs tr l p = Some (RNode t x) -> crit s tr r p t x -> same_at s tr l o p.
  Proof.
    intros tr l r D o p t x Htr Gl Cr HM No Hp Hpne HnD El Hc.
    pose proof (cfg_good s tr r Cr) as Gr. pose proof (ds_good tr l r D o HM) as Go.
    pose proof Gr as [Wr Cr0]. pose proof Gl as [Wl Cl]. pose proof Go as [Wo Co].
    destruct (node_sub s R Hok Hfam p true tr l t x Htr Wl Cl Hp El) as (_ & _ & Wx & Cx & _).
    destruct Hc as [[Hnone Hfree]|(y & Er & Hxy)].
    - destruct (node_leaf_beneath s R Hok Hfam tr l p _ Htr Gl Hp El) as (q & k & Hq & Hk & Lk).
      assert (Hpq : wf_path (p ++ q) = true) by (apply ReconcileBase.wf_path_app; split; assumption).
      apply (same_from_leaf s R Hok Hfam tr l o p q t x k Htr Gl Go No Hp Hq El Hk Lk).
      apply (ds_kp tr l r D o HM (p ++ q) k Hpq); [|exact Hk|exact Lk|].
      + split.
        * intros j Hj. unfold interior_or_absent.
          destruct (Nat.lt_ge_cases j (List.length p)) as [Hlt|Hge].
          -- rewrite firstn_app. replace (j - List.length p) with 0 by lia. cbn [firstn]. rewrite app_nil_r.
             destruct (rs tr r (firstn j p)) as [[t' y|t' ys]|] eqn:Ej; [| |exact I].
             ++ destruct (leafy_or_granular s t' y) as [Ly|Gy]; [|exact Gy]. exfalso.
                apply (Hfree j (RNode t' y) Hlt Ej).
                cbn [rnode_is_leaf]. unfold leafy in Ly. destruct (kind_of s t' y); try contradiction; reflexivity.
             ++ exfalso. apply (cfg_nodup s R Hok Hfam tr r Htr Cr (firstn j p) t' ys); [|exact Ej].
                apply ReconcileBase.wf_path_firstn; exact Hp.
          -- rewrite firstn_app, (firstn_all2 p) by lia. rewrite resolve_path_app, Hnone. exact I.
        * rewrite resolve_path_app, Hnone. reflexivity.
      + (* the leaf is not deleted *)
        destruct q as [|e q'].
        * rewrite app_nil_r. exact HnD.
        * intros HDz.
          assert (Hlen : 1 <= List.length p < List.length (p ++ e :: q')).
          { rewrite app_length. cbn [List.length]. destruct p; [congruence|cbn [List.length]; lia]. }
          pose proof (ds_sh tr l r D o HM (p ++ e :: q') (List.length p) HDz Hpq Hlen) as Hpr.
          rewrite firstn_app, Nat.sub_diag, firstn_all in Hpr. cbn [firstn] in Hpr. rewrite app_nil_r in Hpr.
          unfold present in Hpr. rewrite Hnone in Hpr. discriminate.
    - destruct (node_sub s R Hok Hfam p true tr r t y Htr Wr Cr0 Hp Er) as (_ & _ & Wy & Cy & _).
      destruct (node_leaf_beneath s R Hok Hfam tr r p _ Htr Gr Hp Er) as (q & m & Hq & Hm & Lm).
      assert (Hpq : wf_path (p ++ q) = true) by (apply ReconcileBase.wf_path_app; split; assumption).
      pose proof (ds_rw tr l r D o HM (p ++ q) m Hpq Hm Lm) as H1.
      destruct (hl_inv s tr o (p ++ q) m H1) as (m' & Hm' & Lm' & Ee).
      pose proof Hm' as Hm2. rewrite resolve_path_app in Hm2.
      destruct (rs tr o p) as [[t' z|t' zs]|] eqn:Eo; [| |discriminate].
      2:{ exfalso. exact (No p t' zs Hp Eo). }
      pose proof (node_type_det s R Hok Hfam p true true tr l o t x t' z Htr Wl Wo Cl Co Hp El Eo) as Et. subst t'.
      destruct (node_sub s R Hok Hfam p true tr o t z Htr Wo Co Hp Eo) as (_ & _ & Wz & Cz & _).
      apply (same_at_intro s tr l o p t x z El Eo).
      rewrite resolve_path_app, Er in Hm.
      destruct q as [|e q'].
      + cbn [resolve_path] in Hm, Hm2. inversion Hm; subst m. inversion Hm2; subst m'.
        cbn [rnode_eqb] in Ee.
        pose proof (leaf_kind s t y Cy Lm) as Ky. pose proof (leaf_kind s t z Cz Lm') as Kz.
        unfold same_v in *. rewrite Ky in Hxy. rewrite Kz.
        destruct (kind_of s t x); try contradiction.
        apply (veqb_trans z y x Wz Wy Wx Ee Hxy).
      + apply (same_v_cont s t x y z e q' q' m m' Hxy Hm Hm2).
  Qed.

  (* a leaf that a step keeps is the same node before and after *)
  Lemma same_of_kept_leaf : forall tr a b p n, R tr -> good s tr a -> good s tr b -> nodup s tr b ->
    wf_path p = true -> rs tr a p = Some n -> rnode_is_leaf s n = true ->
    has_leaf s tr b p n = true -> nodup s tr a -> same_at s tr a b p.
  Proof.
    intros tr a b p n Htr Ga Gb Nb Hp Ea Ln Hb Na.
    destruct n as [t x|t xs]; [|exfalso; exact (Na p t xs Hp Ea)].
    apply (same_from_leaf s R Hok Hfam tr a b p [] t x (RNode t x) Htr Ga Gb Nb Hp eq_refl Ea);
      rewrite ?app_nil_r; auto.
  Qed.

  (* ---------- a node that the one order leaves alone, the other leaves alone ---------- *)
  Lemma others_same_d : forall tr l rA rB DA DB' DB DA' oA oAB oB oBA p t x, R tr -> good s tr l ->
    nodup s tr l -> cfg_ok s tr rA -> cfg_ok s tr rB ->
    dstep tr l rA DA oA -> dstep tr oA rB DB' oAB -> dstep tr l rB DB oB -> dstep tr oB rA DA' oBA ->
    lin s tr oAB oBA ->
    wf_path p = true -> p <> [] -> ~ DB p -> rs tr l p = Some (RNode t x) ->
    same_at s tr l oA p -> same_at s tr oA oAB p ->
    same_at s tr l oB p /\ same_at s tr oB oBA p.
  Proof.
    intros tr l rA rB DA DB' DB DA' oA oAB oB oBA p t x Htr Gl Nl CA CB HA HAB HB HBA L1 Hp Hpne HnD El H1 H2.
    pose proof (ds_good _ _ _ _ _ HA) as GA. pose proof (ds_good _ _ _ _ _ HAB) as GAB.
    pose proof (ds_good _ _ _ _ _ HB) as GB. pose proof (ds_good _ _ _ _ _ HBA) as GBA.
    pose proof (dstep_nodup tr l rA DA oA Htr Nl CA HA) as NA.
    pose proof (dstep_nodup tr oA rB DB' oAB Htr NA CB HAB) as NAB.
    pose proof (dstep_nodup tr l rB DB oB Htr Nl CB HB) as NB.
    pose proof (dstep_nodup tr oB rA DA' oBA Htr NB CA HBA) as NBA.
    pose proof (same_at_trans s R Hok Hfam tr l oA oAB p Htr Gl GA GAB Hp H1 H2) as H3.
    pose proof (crit_of_same_d tr oA rB DB' oAB l p t x Htr CB HAB Gl Hp El H3) as Hc.
    pose proof (same_of_crit_d tr l rB DB oB p t x Htr Gl CB HB NB Hp Hpne HnD El Hc) as H4.
    split; [exact H4|].
    destruct (same_at_inv s R Hok Hfam tr l oAB p Htr Gl GAB Hp H3) as (t' & x' & z & _ & EAB & _).
    pose proof (same_of_lin s R Hok Hfam tr oAB oBA p t' z Htr GAB GBA NBA Hp L1 EAB) as H5.
    pose proof (same_at_trans s R Hok Hfam tr l oAB oBA p Htr Gl GAB GBA Hp H3 H5) as H6.
    apply (same_at_trans s R Hok Hfam tr oB l oBA p Htr GB Gl GBA Hp); [|exact H6].
    apply (same_at_sym s R Hok Hfam tr l oB p Htr Gl GB Hp H4).
  Qed.

  (* a node of the configuration rA, out of the reach of rB, is left alone by the step with rB *)
  Lemma cfg_node_same_d : forall tr l rA rB DA DB' oA oAB p, R tr -> good s tr l -> nodup s tr l ->
    cfg_ok s tr rA -> cfg_ok s tr rB ->
    dstep tr l rA DA oA -> dstep tr oA rB DB' oAB ->
    wf_path p = true -> p <> [] -> ~ DB' p -> present s tr rA p = true ->
    rs tr rB p = None ->
    (forall j n, j < List.length p -> rs tr rB (firstn j p) = Some n -> rnode_is_leaf s n = true -> False) ->
    same_at s tr oA oAB p.
  Proof.
    intros tr l rA rB DA DB' oA oAB p Htr Gl Nl CA CB HA HAB Hp Hpne HnD Hpr Hnone Hfree.
    pose proof (ds_good _ _ _ _ _ HA) as GA.
    pose proof (dstep_nodup tr l rA DA oA Htr Nl CA HA) as NA.
    pose proof (dstep_nodup tr oA rB DB' oAB Htr NA CB HAB) as NAB.
    pose proof (cfg_good s tr rA CA) as GrA.
    unfold present in Hpr. destruct (rs tr rA p) as [n|] eqn:En; [|discriminate].
    destruct (node_leaf_beneath s R Hok Hfam tr rA p n Htr GrA Hp En) as (q & m & Hq & Hm & Lm).
    assert (Hpq : wf_path (p ++ q) = true) by (apply ReconcileBase.wf_path_app; split; assumption).
    pose proof (ds_rw _ _ _ _ _ HA (p ++ q) m Hpq Hm Lm) as H1.
    destruct (hl_inv s tr oA (p ++ q) m H1) as (m' & Hm' & _ & _).
    pose proof Hm' as Hm2. rewrite resolve_path_app in Hm2.
    destruct (rs tr oA p) as [[t x|t xs]|] eqn:EA; [| |discriminate].
    2:{ exfalso. exact (NA p t xs Hp EA). }
    apply (same_of_crit_d tr oA rB DB' oAB p t x Htr GA CB HAB NAB Hp Hpne HnD EA).
    left. split; assumption.
  Qed.
End DLeaves.
