(* Generic laws of sorted lists keyed by path elements: strict sortedness, lookup,
   bisection location, and a generic two-pointer merge. *)
From Coq Require Import List ZArith String Bool Arith Lia.
From SMD Require Import Base.Search Model.Value Model.Order Model.PathElem Model.PathSet
  Proofs.OrderLaws Proofs.SearchLaws.
Import ListNotations.
Open Scope bool_scope.

(* ---------- derived ordering facts ---------- *)
Lemma pecmp_gt_lt : forall a b, pecmp a b = Gt <-> pecmp b a = Lt.
Proof.
  intros a b. rewrite (pecmp_antisym a b). destruct (pecmp b a); simpl; split; congruence.
Qed.

Lemma pecmp_eq_sym : forall a b, pecmp a b = Eq -> pecmp b a = Eq.
Proof.
  intros a b H. rewrite (pecmp_antisym b a), H. reflexivity.
Qed.

Lemma plt_irrefl : forall a, pecmp a a = Lt -> False.
Proof. intros a H. rewrite pecmp_refl in H. discriminate. Qed.

Lemma plt_asym : forall a b, pecmp a b = Lt -> pecmp b a = Lt -> False.
Proof.
  intros a b H1 H2. apply (plt_irrefl a). apply (pecmp_trans_lt a b a); auto.
Qed.

Lemma peless_false_iff : forall a b, peless a b = false <-> pecmp a b <> Lt.
Proof.
  intros a b. split.
  - intros H Hc. apply peless_iff in Hc. congruence.
  - intros H. destruct (peless a b) eqn:E; auto. apply peless_iff in E. contradiction.
Qed.

Lemma peeqb_cmp : forall a b, wf_pe a = true -> wf_pe b = true -> peeqb a b = true -> pecmp a b = Eq.
Proof. intros a b Ha Hb H. apply pecmp_eq_iff; auto. Qed.

Lemma pecmp_neq_peeqb : forall a b, wf_pe a = true -> wf_pe b = true -> pecmp a b <> Eq -> peeqb a b = false.
Proof.
  intros a b Ha Hb H. destruct (peeqb a b) eqn:E; auto.
  apply pecmp_eq_iff in E; auto. contradiction.
Qed.

Lemma plt_neq : forall a b, wf_pe a = true -> wf_pe b = true -> pecmp a b = Lt -> peeqb a b = false.
Proof. intros a b Ha Hb H. apply pecmp_neq_peeqb; auto. congruence. Qed.

Lemma pgt_neq : forall a b, wf_pe a = true -> wf_pe b = true -> pecmp b a = Lt -> peeqb a b = false.
Proof.
  intros a b Ha Hb H. apply pecmp_neq_peeqb; auto. apply pecmp_gt_lt in H. congruence.
Qed.

Lemma peeqb_cong_r : forall x a b, wf_pe x = true -> wf_pe a = true -> wf_pe b = true ->
  peeqb a b = true -> peeqb x a = peeqb x b.
Proof.
  intros x a b Hx Ha Hb H. apply peeqb_cmp in H; auto.
  apply Bool.eq_iff_eq_true. rewrite <- !pecmp_eq_iff by auto.
  rewrite (pecmp_eq_r x a b H). tauto.
Qed.

Lemma peeqb_cong_l : forall x a b, wf_pe x = true -> wf_pe a = true -> wf_pe b = true ->
  peeqb a b = true -> peeqb a x = peeqb b x.
Proof.
  intros x a b Hx Ha Hb H. apply peeqb_cmp in H; auto.
  apply Bool.eq_iff_eq_true. rewrite <- !pecmp_eq_iff by auto.
  rewrite (pecmp_eq_l a b x H). tauto.
Qed.

(* ---------- keyed lists ---------- *)
Definition ocons {A : Type} (o : option A) (l : list A) : list A :=
  match o with Some z => z :: l | None => l end.

Fixpoint omap {A : Type} (f : A -> option A) (l : list A) : list A :=
  match l with [] => [] | a :: t => ocons (f a) (omap f t) end.

Lemma omap_Some : forall (A : Type) (l : list A), omap (@Some A) l = l.
Proof. intros A l. induction l as [|a t IH]; simpl; congruence. Qed.

Lemma omap_None : forall (A : Type) (l : list A), omap (fun _ => @None A) l = [].
Proof. intros A l. induction l as [|a t IH]; simpl; auto. Qed.

Lemma omap_filter : forall (A : Type) (p : A -> bool) (l : list A),
  omap (fun a => if p a then Some a else None) l = filter p l.
Proof.
  intros A p l. induction l as [|a t IH]; simpl; auto. destruct (p a); simpl; congruence.
Qed.

Section Keyed.
  Context {A : Type}.
  Variable key : A -> pe.

  Definition klt (e : pe) (l : list A) : Prop := Forall (fun a => pecmp e (key a) = Lt) l.

  Fixpoint ksorted (l : list A) : Prop :=
    match l with [] => True | x :: t => klt (key x) t /\ ksorted t end.

  Definition kwf (l : list A) : Prop := Forall (fun a => wf_pe (key a) = true) l.

  Definition klook (e : pe) (l : list A) : option A := List.find (fun a => peeqb e (key a)) l.

  Lemma klt_trans : forall e k l, pecmp e k = Lt -> klt k l -> klt e l.
  Proof.
    intros e k l He Hk. unfold klt in *. rewrite Forall_forall in *.
    intros a Ha. apply (pecmp_trans_lt e k (key a)); auto.
  Qed.

  Lemma klt_eq : forall e k l, pecmp e k = Eq -> klt k l -> klt e l.
  Proof.
    intros e k l He Hk. unfold klt in *. rewrite Forall_forall in *.
    intros a Ha. rewrite (pecmp_eq_l e k (key a) He). auto.
  Qed.

  Lemma ksorted_app : forall l1 l2,
    ksorted (l1 ++ l2) <-> ksorted l1 /\ ksorted l2 /\ Forall (fun a => klt (key a) l2) l1.
  Proof.
    intros l1 l2. induction l1 as [|x t IH]; simpl.
    - split; [intros H; repeat split; auto | tauto].
    - unfold klt in *. rewrite Forall_app, IH. split.
      + intros ((H1 & H2) & H3 & H4 & H5). repeat split; auto.
      + intros ((H1 & H2) & H3 & H4). inversion H4; subst. repeat split; auto.
  Qed.

  Lemma ksorted_nth : forall l i j a b, ksorted l -> i < j ->
    nth_error l i = Some a -> nth_error l j = Some b -> pecmp (key a) (key b) = Lt.
  Proof.
    intros l. induction l as [|x t IH]; intros i j a b Hs Hij Ha Hb.
    - destruct i; discriminate.
    - destruct Hs as [Hx Ht]. destruct j as [|j]; [lia|]. simpl in Hb.
      destruct i as [|i]; simpl in Ha.
      + inversion Ha; subst. apply nth_error_In in Hb.
        unfold klt in Hx. rewrite Forall_forall in Hx. auto.
      + apply (IH i j); auto. lia.
  Qed.

  (* ---- lookup ---- *)
  Lemma klook_app : forall e l1 l2,
    klook e (l1 ++ l2) = match klook e l1 with Some z => Some z | None => klook e l2 end.
  Proof.
    intros e l1 l2. unfold klook. induction l1 as [|x t IH]; simpl; auto.
    destruct (peeqb e (key x)); auto.
  Qed.

  Lemma klook_cons : forall e x t,
    klook e (x :: t) = if peeqb e (key x) then Some x else klook e t.
  Proof. reflexivity. Qed.

  Lemma klook_Some : forall e l a, klook e l = Some a -> In a l /\ peeqb e (key a) = true.
  Proof. intros e l a H. apply find_some in H. auto. Qed.

  Lemma klook_none_all : forall e l, Forall (fun a => peeqb e (key a) = false) l -> klook e l = None.
  Proof.
    intros e l H. unfold klook. induction H as [|x t Hx Ht IH]; simpl; auto. rewrite Hx. auto.
  Qed.

  Lemma klook_below : forall e l, wf_pe e = true -> kwf l ->
    Forall (fun a => pecmp (key a) e = Lt) l -> klook e l = None.
  Proof.
    intros e l He Hwf Hlt. apply klook_none_all. unfold kwf in Hwf.
    rewrite Forall_forall in *. intros a Ha. apply pgt_neq; auto.
  Qed.

  Lemma klook_above : forall e l, wf_pe e = true -> kwf l -> klt e l -> klook e l = None.
  Proof.
    intros e l He Hwf Hlt. apply klook_none_all. unfold kwf, klt in *.
    rewrite Forall_forall in *. intros a Ha. apply plt_neq; auto.
  Qed.

  Lemma klook_above_eq : forall e k l, wf_pe e = true -> wf_pe k = true -> kwf l ->
    peeqb e k = true -> klt k l -> klook e l = None.
  Proof.
    intros e k l He Hk Hwf Heq Hlt. apply klook_above; auto.
    apply (klt_eq e k); auto. apply peeqb_cmp; auto.
  Qed.

  Lemma klook_cong : forall x e l, wf_pe x = true -> wf_pe e = true -> kwf l ->
    peeqb x e = true -> klook x l = klook e l.
  Proof.
    intros x e l Hx He Hwf Heq. unfold klook. induction Hwf as [|a t Ha Ht IH]; simpl; auto.
    rewrite (peeqb_cong_l (key a) x e) by auto. rewrite IH. reflexivity.
  Qed.

  Lemma klook_In : forall a l, wf_pe (key a) = true -> kwf l -> ksorted l -> In a l ->
    klook (key a) l = Some a.
  Proof.
    intros a l Ha Hwf. induction Hwf as [|x t Hx Ht IH]; intros Hs Hin; [destruct Hin|].
    destruct Hs as [Hxt Hst]. unfold klook in *. simpl. destruct Hin as [Heq|Hin].
    - subst x. rewrite peeqb_refl by auto. reflexivity.
    - unfold klt in Hxt. rewrite Forall_forall in Hxt.
      rewrite (pgt_neq (key a) (key x)) by auto. auto.
  Qed.

  (* ---- bisection location ---- *)
  Definition gloc (e : pe) (l : list A) : nat :=
    search (List.length l) (fun i =>
      match nth_error l i with Some a => negb (peless (key a) e) | None => true end).

  Lemma Forall_firstn_nth : forall (P : A -> Prop) l n,
    (forall k a, k < n -> nth_error l k = Some a -> P a) -> Forall P (firstn n l).
  Proof.
    intros P l. induction l as [|x t IH]; intros n H.
    - rewrite firstn_nil. constructor.
    - destruct n as [|n]; simpl; constructor.
      + apply (H 0); [lia|reflexivity].
      + apply IH. intros k a Hk Ha. apply (H (S k)); [lia|exact Ha].
  Qed.

  Lemma Forall_skipn_nth : forall (P : A -> Prop) n l,
    (forall k a, n <= k -> nth_error l k = Some a -> P a) -> Forall P (skipn n l).
  Proof.
    intros P n. induction n as [|n IH]; intros l H.
    - simpl. rewrite Forall_forall. intros a Ha. apply In_nth_error in Ha.
      destruct Ha as [k Hk]. apply (H k); [lia|exact Hk].
    - destruct l as [|x t]; simpl; [constructor|].
      apply IH. intros k a Hk Ha. apply (H (S k)); [lia|exact Ha].
  Qed.

  Lemma gloc_split : forall e l, ksorted l ->
    gloc e l <= List.length l /\
    Forall (fun a => pecmp (key a) e = Lt) (firstn (gloc e l) l) /\
    Forall (fun a => pecmp (key a) e <> Lt) (skipn (gloc e l) l).
  Proof.
    intros e l Hs. unfold gloc.
    set (f := fun i => match nth_error l i with Some a => negb (peless (key a) e) | None => true end).
    assert (Hmono : monotone (List.length l) f).
    { intros i j Hij Hj Hfi. unfold f in *.
      destruct (nth_error l j) as [b|] eqn:Hb; auto.
      destruct (nth_error l i) as [a|] eqn:Ha.
      - destruct (Nat.eq_dec i j) as [->|Hne]; [congruence|].
        assert (pecmp (key a) (key b) = Lt) as Hab by (apply (ksorted_nth l i j); auto; lia).
        apply negb_true_iff in Hfi. apply negb_true_iff.
        apply peless_false_iff in Hfi. apply peless_false_iff. intros Hbe.
        apply Hfi. apply (pecmp_trans_lt _ (key b)); auto.
      - apply nth_error_None in Ha. lia. }
    destruct (search_spec (List.length l) f Hmono) as (R1 & R2 & R3).
    remember (search (List.length l) f) as n eqn:Hn. clear Hn.
    split; [exact R1|]. split.
    - apply Forall_firstn_nth. intros k a Hk Ha. specialize (R2 k Hk). unfold f in R2.
      rewrite Ha in R2. apply negb_false_iff in R2. apply peless_iff. exact R2.
    - apply Forall_skipn_nth. intros k b Hk Hb.
      assert (k < List.length l) as Hkl by (apply nth_error_Some; congruence).
      assert (n < List.length l) as Hlt by lia.
      specialize (R3 Hlt). unfold f in R3.
      destruct (nth_error l n) as [a|] eqn:Ha.
      + apply negb_true_iff in R3. apply peless_false_iff in R3.
        destruct (Nat.eq_dec n k) as [Heq|Hne].
        * rewrite Heq in Ha. congruence.
        * assert (pecmp (key a) (key b) = Lt) as Hab
            by (apply (ksorted_nth l n k); auto; lia).
          intros Hbe. apply R3. apply (pecmp_trans_lt _ (key b)); auto.
      + apply nth_error_None in Ha. lia.
  Qed.

  (* everything after the first element of the upper part is strictly above e *)
  Lemma split_upper_tail : forall e x t, ksorted (x :: t) -> pecmp (key x) e <> Lt -> klt e t.
  Proof.
    intros e x t [Hx Ht] Hxe. unfold klt in *. rewrite Forall_forall in *.
    intros a Ha. specialize (Hx a Ha).
    destruct (pecmp (key x) e) eqn:Hc; try contradiction.
    - apply pecmp_eq_sym in Hc. rewrite (pecmp_eq_l e (key x) (key a) Hc). exact Hx.
    - apply pecmp_gt_lt in Hc. apply (pecmp_trans_lt e (key x)); auto.
  Qed.

  (* lookup through the split *)
  Lemma klook_split : forall e l, wf_pe e = true -> kwf l -> ksorted l ->
    klook e l =
      match skipn (gloc e l) l with
      | [] => None
      | x :: _ => if peeqb (key x) e then Some x else None
      end.
  Proof.
    intros e l He Hwf Hs. destruct (gloc_split e l Hs) as (Hn & Hlo & Hhi).
    assert (Hwf1 : kwf (firstn (gloc e l) l)).
    { unfold kwf. rewrite <- (firstn_skipn (gloc e l) l) in Hwf. apply Forall_app in Hwf. tauto. }
    assert (Hwf2 : kwf (skipn (gloc e l) l)).
    { unfold kwf. rewrite <- (firstn_skipn (gloc e l) l) in Hwf. apply Forall_app in Hwf. tauto. }
    assert (Hs2 : ksorted (skipn (gloc e l) l)).
    { rewrite <- (firstn_skipn (gloc e l) l) in Hs. apply ksorted_app in Hs. tauto. }
    rewrite <- (firstn_skipn (gloc e l) l) at 1. rewrite klook_app.
    rewrite klook_below by auto.
    destruct (skipn (gloc e l) l) as [|x t]; [reflexivity|].
    inversion Hhi as [|? ? Hx Ht]; subst. inversion Hwf2 as [|? ? Hwx Hwt]; subst.
    unfold klook. simpl. rewrite (peeqb_sym e (key x)) by auto.
    destruct (peeqb (key x) e) eqn:Heq; auto.
    apply klook_above; auto. apply (split_upper_tail e x t); auto.
  Qed.

  (* ---------- generic two-pointer merge ---------- *)
  Variables fl fr : A -> option A.
  Variable fb : A -> A -> option A.

  Fixpoint gmerge (l1 : list A) : list A -> list A :=
    fix aux (l2 : list A) : list A :=
      match l1, l2 with
      | [], _ => omap fr l2
      | _, [] => omap fl l1
      | x :: xs, y :: ys =>
          if peless (key x) (key y) then ocons (fl x) (gmerge xs l2)
          else if negb (peless (key y) (key x)) then ocons (fb x y) (gmerge xs ys)
          else ocons (fr y) (aux ys)
      end.

  Lemma gmerge_nil_l : forall l2, gmerge [] l2 = omap fr l2.
  Proof. intros l2. destruct l2; reflexivity. Qed.

  Lemma gmerge_nil_r : forall l1, gmerge l1 [] = omap fl l1.
  Proof. intros l1. destruct l1; reflexivity. Qed.

  Lemma gmerge_cons : forall x xs y ys,
    gmerge (x :: xs) (y :: ys) =
      match pecmp (key x) (key y) with
      | Lt => ocons (fl x) (gmerge xs (y :: ys))
      | Eq => ocons (fb x y) (gmerge xs ys)
      | Gt => ocons (fr y) (gmerge (x :: xs) ys)
      end.
  Proof.
    intros x xs y ys.
    change (gmerge (x :: xs) (y :: ys)) with
      (if peless (key x) (key y) then ocons (fl x) (gmerge xs (y :: ys))
       else if negb (peless (key y) (key x)) then ocons (fb x y) (gmerge xs ys)
       else ocons (fr y) (gmerge (x :: xs) ys)).
    unfold peless. rewrite (pecmp_antisym (key y) (key x)).
    destruct (pecmp (key x) (key y)); reflexivity.
  Qed.

  Lemma gmerge_cons_if : forall x xs y ys,
    gmerge (x :: xs) (y :: ys) =
      if peless (key x) (key y) then ocons (fl x) (gmerge xs (y :: ys))
      else if negb (peless (key y) (key x)) then ocons (fb x y) (gmerge xs ys)
      else ocons (fr y) (gmerge (x :: xs) ys).
  Proof. reflexivity. Qed.

  Lemma merge_ind : forall (P : list A -> list A -> Prop),
    (forall l2, P [] l2) -> (forall l1, P l1 []) ->
    (forall x xs y ys, P xs (y :: ys) -> P xs ys -> P (x :: xs) ys -> P (x :: xs) (y :: ys)) ->
    forall l1 l2, P l1 l2.
  Proof.
    intros P H1 H2 H3 l1. induction l1 as [|x xs IH1]; [auto|].
    intros l2. induction l2 as [|y ys IH2]; auto.
  Qed.

  Variable fl_key : forall x z, fl x = Some z -> key z = key x.
  Variable fr_key : forall y z, fr y = Some z -> key z = key y.
  Variable fb_key : forall x y z, fb x y = Some z -> key z = key x \/ key z = key y.

  Lemma klt_ocons : forall b o l, (forall z, o = Some z -> pecmp b (key z) = Lt) -> klt b l ->
    klt b (ocons o l).
  Proof.
    intros b o l Ho Hl. destruct o as [z|]; simpl; auto. constructor; auto.
  Qed.

  Lemma klt_omap : forall b f l, (forall x z, f x = Some z -> key z = key x) -> klt b l ->
    klt b (omap f l).
  Proof.
    intros b f l Hf Hl. induction Hl as [|x t Hx Ht IH]; simpl; [constructor|].
    apply klt_ocons; auto. intros z Hz. rewrite (Hf x z Hz). exact Hx.
  Qed.

  Lemma klt_gmerge : forall b l1 l2, klt b l1 -> klt b l2 -> klt b (gmerge l1 l2).
  Proof.
    intros b l1 l2. revert l1 l2.
    apply (merge_ind (fun l1 l2 => klt b l1 -> klt b l2 -> klt b (gmerge l1 l2))).
    - intros l2 _ H2. rewrite gmerge_nil_l. apply klt_omap; auto.
    - intros l1 H1 _. rewrite gmerge_nil_r. apply klt_omap; auto.
    - intros x xs y ys IHa IHb IHc H1 H2. rewrite gmerge_cons.
      inversion H1 as [|? ? Hx Hxs]; subst. inversion H2 as [|? ? Hy Hys]; subst.
      destruct (pecmp (key x) (key y)); apply klt_ocons; auto.
      + intros z Hz. destruct (fb_key x y z Hz) as [E|E]; rewrite E; auto.
      + intros z Hz. rewrite (fl_key x z Hz). auto.
      + intros z Hz. rewrite (fr_key y z Hz). auto.
  Qed.

  Lemma ksorted_ocons : forall o l, ksorted l -> (forall z, o = Some z -> klt (key z) l) ->
    ksorted (ocons o l).
  Proof.
    intros o l Hl Ho. destruct o as [z|]; simpl; auto.
  Qed.

  Lemma ksorted_omap : forall f l, (forall x z, f x = Some z -> key z = key x) -> ksorted l ->
    ksorted (omap f l).
  Proof.
    intros f l Hf. induction l as [|x t IH]; simpl; auto. intros [Hx Ht].
    apply ksorted_ocons; auto. intros z Hz. rewrite (Hf x z Hz). apply klt_omap; auto.
  Qed.

  Lemma gmerge_sorted : forall l1 l2, ksorted l1 -> ksorted l2 -> ksorted (gmerge l1 l2).
  Proof.
    apply (merge_ind (fun l1 l2 => ksorted l1 -> ksorted l2 -> ksorted (gmerge l1 l2))).
    - intros l2 _ H2. rewrite gmerge_nil_l. apply ksorted_omap; auto.
    - intros l1 H1 _. rewrite gmerge_nil_r. apply ksorted_omap; auto.
    - intros x xs y ys IHa IHb IHc H1 H2. rewrite gmerge_cons.
      pose proof H1 as [Hx Hxs]. pose proof H2 as [Hy Hys].
      destruct (pecmp (key x) (key y)) eqn:Hc; apply ksorted_ocons; auto.
      + intros z Hz. apply klt_gmerge.
        * destruct (fb_key x y z Hz) as [E|E]; rewrite E; auto.
          apply (klt_eq _ (key x)); auto. apply pecmp_eq_sym; auto.
        * destruct (fb_key x y z Hz) as [E|E]; rewrite E; auto.
          apply (klt_eq _ (key y)); auto.
      + intros z Hz. rewrite (fl_key x z Hz). apply klt_gmerge; auto.
        constructor; auto. apply (klt_trans _ (key y)); auto.
      + intros z Hz. rewrite (fr_key y z Hz). apply pecmp_gt_lt in Hc. apply klt_gmerge; auto.
        constructor; auto. apply (klt_trans _ (key x)); auto.
  Qed.

  Lemma gmerge_Forall : forall (P : A -> Prop) l1 l2,
    (forall x z, In x l1 -> fl x = Some z -> P z) ->
    (forall y z, In y l2 -> fr y = Some z -> P z) ->
    (forall x y z, In x l1 -> In y l2 -> pecmp (key x) (key y) = Eq -> fb x y = Some z -> P z) ->
    Forall P (gmerge l1 l2).
  Proof.
    intros P.
    assert (Hoc : forall o l, (forall z, o = Some z -> P z) -> Forall P l -> Forall P (ocons o l)).
    { intros o l Ho Hl. destruct o; simpl; auto. }
    assert (Hom : forall f l, (forall x z, In x l -> f x = Some z -> P z) -> Forall P (omap f l)).
    { intros f l. induction l as [|x t IH]; intros H; simpl; [constructor|].
      apply Hoc; [intros z Hz; apply (H x); simpl; auto|]. apply IH. intros x' z Hin. apply H. simpl; auto. }
    apply (merge_ind (fun l1 l2 =>
      (forall x z, In x l1 -> fl x = Some z -> P z) ->
      (forall y z, In y l2 -> fr y = Some z -> P z) ->
      (forall x y z, In x l1 -> In y l2 -> pecmp (key x) (key y) = Eq -> fb x y = Some z -> P z) ->
      Forall P (gmerge l1 l2))).
    - intros l2 _ H2 _. rewrite gmerge_nil_l. apply Hom; auto.
    - intros l1 H1 _ _. rewrite gmerge_nil_r. apply Hom; auto.
    - intros x xs y ys IHa IHb IHc H1 H2 H3. rewrite gmerge_cons.
      destruct (pecmp (key x) (key y)) eqn:Hc; apply Hoc.
      + intros z Hz. apply (H3 x y); simpl; auto.
      + apply IHb; intros; [eapply H1|eapply H2|eapply H3]; simpl; eauto.
      + intros z Hz. apply (H1 x); simpl; auto.
      + apply IHa; intros; [eapply H1|eapply H2|eapply H3]; simpl; eauto.
      + intros z Hz. apply (H2 y); simpl; auto.
      + apply IHc; intros; [eapply H1|eapply H2|eapply H3]; simpl; eauto.
  Qed.

  Lemma gmerge_kwf : forall l1 l2, kwf l1 -> kwf l2 -> kwf (gmerge l1 l2).
  Proof.
    intros l1 l2 H1 H2. unfold kwf in *. rewrite Forall_forall in H1, H2.
    apply gmerge_Forall.
    - intros x z Hx Hz. rewrite (fl_key x z Hz). auto.
    - intros y z Hy Hz. rewrite (fr_key y z Hz). auto.
    - intros x y z Hx Hy _ Hz. destruct (fb_key x y z Hz) as [E|E]; rewrite E; auto.
  Qed.

  Definition obind (o : option A) (f : A -> option A) : option A :=
    match o with Some a => f a | None => None end.

  Definition gcomb (o1 o2 : option A) : option A :=
    match o1, o2 with
    | Some x, Some y => fb x y
    | Some x, None => fl x
    | None, Some y => fr y
    | None, None => None
    end.

  Lemma klook_ocons_hit : forall e o l k, wf_pe e = true -> wf_pe k = true ->
    (forall z, o = Some z -> peeqb e (key z) = true) ->
    (o = None -> klook e l = None) ->
    klook e (ocons o l) = o.
  Proof.
    intros e o l k He Hk Ho Hn. destruct o as [z|]; simpl; auto.
    unfold klook. simpl. rewrite (Ho z eq_refl). reflexivity.
  Qed.

  Lemma klook_ocons_miss : forall e o l,
    (forall z, o = Some z -> peeqb e (key z) = false) ->
    klook e (ocons o l) = klook e l.
  Proof.
    intros e o l Ho. destruct o as [z|]; simpl; auto.
    unfold klook. simpl. rewrite (Ho z eq_refl). reflexivity.
  Qed.

  Lemma klook_omap : forall e f l, (forall x z, f x = Some z -> key z = key x) ->
    wf_pe e = true -> kwf l -> ksorted l ->
    klook e (omap f l) = obind (klook e l) f.
  Proof.
    intros e f l Hf He Hwf. induction Hwf as [|x t Hx Ht IH]; intros Hs; [reflexivity|].
    destruct Hs as [Hxt Hst]. rewrite (klook_cons e x t).
    change (omap f (x :: t)) with (ocons (f x) (omap f t)).
    destruct (peeqb e (key x)) eqn:Heq; simpl.
    - apply (klook_ocons_hit e (f x) (omap f t) (key x)); auto.
      + intros z Hz. rewrite (Hf x z Hz). auto.
      + intros _. rewrite IH by auto.
        rewrite (klook_above_eq e (key x) t); auto.
    - rewrite klook_ocons_miss; auto. intros z Hz. rewrite (Hf x z Hz). auto.
  Qed.

  Lemma gmerge_look : forall e l1 l2, wf_pe e = true -> kwf l1 -> kwf l2 ->
    ksorted l1 -> ksorted l2 ->
    klook e (gmerge l1 l2) = gcomb (klook e l1) (klook e l2).
  Proof.
    intros e l1 l2 He. revert l1 l2.
    apply (merge_ind (fun l1 l2 => kwf l1 -> kwf l2 -> ksorted l1 -> ksorted l2 ->
      klook e (gmerge l1 l2) = gcomb (klook e l1) (klook e l2))).
    - intros l2 _ Hw2 _ Hs2. rewrite gmerge_nil_l. rewrite klook_omap by auto.
      simpl. destruct (klook e l2); reflexivity.
    - intros l1 Hw1 _ Hs1 _. rewrite gmerge_nil_r. rewrite klook_omap by auto.
      simpl. destruct (klook e l1); reflexivity.
    - intros x xs y ys IHa IHb IHc Hw1 Hw2 Hs1 Hs2. rewrite gmerge_cons.
      inversion Hw1 as [|? ? Hwx Hwxs]; subst. inversion Hw2 as [|? ? Hwy Hwys]; subst.
      pose proof Hs1 as [Hx Hxs]. pose proof Hs2 as [Hy Hys].
      destruct (pecmp (key x) (key y)) eqn:Hc.
      + (* equal keys *)
        assert (Hexy : peeqb e (key x) = peeqb e (key y)).
        { apply peeqb_cong_r; auto. apply pecmp_eq_iff; auto. }
        rewrite (klook_cons e x xs), (klook_cons e y ys). rewrite <- Hexy.
        destruct (peeqb e (key x)) eqn:Heq.
        * apply (klook_ocons_hit e (fb x y) (gmerge xs ys) (key x)); auto.
          -- intros z Hz. destruct (fb_key x y z Hz) as [E|E]; rewrite E; congruence.
          -- intros _. rewrite IHb by auto.
             rewrite (klook_above_eq e (key x) xs); auto.
             rewrite (klook_above_eq e (key y) ys); auto; try congruence.
        * rewrite klook_ocons_miss; [apply IHb; auto|].
          intros z Hz. destruct (fb_key x y z Hz) as [E|E]; rewrite E; congruence.
      + (* x first *)
        rewrite (klook_cons e x xs).
        destruct (peeqb e (key x)) eqn:Heq.
        * assert (Hl2 : klook e (y :: ys) = None).
          { apply (klook_above_eq e (key x)); auto.
            constructor; auto. apply (klt_trans _ (key y)); auto. }
          rewrite Hl2.
          apply (klook_ocons_hit e (fl x) (gmerge xs (y :: ys)) (key x)); auto.
          -- intros z Hz. rewrite (fl_key x z Hz). auto.
          -- intros _. rewrite IHa by auto. rewrite Hl2.
             rewrite (klook_above_eq e (key x) xs); auto.
        * rewrite klook_ocons_miss; [apply IHa; auto|].
          intros z Hz. rewrite (fl_key x z Hz). auto.
      + (* y first *)
        apply pecmp_gt_lt in Hc.
        rewrite (klook_cons e y ys).
        destruct (peeqb e (key y)) eqn:Heq.
        * assert (Hl1 : klook e (x :: xs) = None).
          { apply (klook_above_eq e (key y)); auto.
            constructor; auto. apply (klt_trans _ (key x)); auto. }
          rewrite Hl1.
          apply (klook_ocons_hit e (fr y) (gmerge (x :: xs) ys) (key y)); auto.
          -- intros z Hz. rewrite (fr_key y z Hz). auto.
          -- intros _. rewrite IHc by auto. rewrite Hl1.
             rewrite (klook_above_eq e (key y) ys); auto.
        * rewrite klook_ocons_miss; [apply IHc; auto|].
          intros z Hz. rewrite (fr_key y z Hz). auto.
  Qed.
End Keyed.
