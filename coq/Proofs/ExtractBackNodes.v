(* C07 (extract and apply back): the nodes of an extraction, for a live object that need
   not be plain (an Update may have written nulls and empty lists or maps elsewhere).
   Setting: x a valid duplicate-free object, T a selection whose members, where they
   designate something in x, designate leaves [lsel]; y = the extraction of T from x,
   ASSUMED to be a plain valid object.  Then
     [xt_nodes_sound]  every node of y is a node of x at or above a member of T; a leaf of y is
                       the same leaf of x, and a leaf of x that y has is the same in y;
     [xt_nodes_keep]   every leaf of x at or above a member of T is a leaf of y.
   Without [lsel] (after the F27 repair of the walker):
     [xt_selected_leafy]  a node of x designated by a member of T with no member of T beneath
                       it is a leaf of x (a granular one would be extracted as null).
   (Proofs/PartExtract.v proves the same for a plain x, and derives the validity of y
   from the key fields being selected; here the validity of y is a hypothesis.) *)
From Coq Require Import List ZArith String Bool Arith Lia.
From SMD Require Import Model.Value Model.Order Model.PathElem Model.PathSet Model.Schema Model.Walk
  Model.Validate Model.FieldSet Model.Remove
  Spec.PathsAsSets Spec.RefValid Spec.Resolve Spec.Agree
  Proofs.OrderLaws Proofs.KeyLaws Proofs.PathSetLaws Proofs.ValidateLaws Proofs.SchemaOk
  Proofs.FieldSetMirrors Proofs.FieldSetBase Proofs.FieldSetShape Proofs.FieldSetPaths
  Proofs.FieldSetLaws Proofs.RemoveBase Proofs.ExtractBase Proofs.ExtractLaws Proofs.RemoveAbsent
  Proofs.RemoveWf Proofs.ResolveLaws Proofs.ReconcileBase Proofs.RemoveFrame
  Proofs.NodeSet Proofs.KeyFields Proofs.TreeFacts Proofs.PartExtract Proofs.MergeDescent
  Proofs.ExtractBackDup Proofs.ExtractBackMerge.
From SMD Require Proofs.MergeBase Proofs.MergeWalk.
Import ListNotations.
Open Scope bool_scope.
Open Scope list_scope.

(* a well-formed set without members is the empty set (as Partition.ps_empty_eq) *)
Lemma ps_empty_is_empty_set : forall S, ps_ok S = true -> ps_empty S = true -> S = ps_empty_set.
Proof.
  intros [m c] Hok Hem. unfold ps_ok in Hok. apply andb_true_iff in Hok. destruct Hok as [Hwf _].
  simpl in Hem. destruct m as [|x m]; [|discriminate].
  destruct c as [|[e sub] c]; [reflexivity|]. exfalso.
  simpl in Hem. apply andb_true_iff in Hem. destruct Hem as [Hsub _].
  simpl in Hwf. rewrite !andb_true_iff in Hwf. destruct Hwf as [_ [[_ Hne] _]].
  rewrite Hsub in Hne. discriminate.
Qed.

Local Arguments ps_has : simpl never.
Local Arguments ps_with_prefix : simpl never.
Local Arguments ps_empty : simpl never.

Lemma filter_app' : forall (A : Type) (f : A -> bool) l1 l2, filter f (l1 ++ l2) = filter f l1 ++ filter f l2.
Proof.
  intros A f l1 l2. induction l1 as [|x l1 IH]; [reflexivity|]. simpl.
  destruct (f x); simpl; rewrite IH; reflexivity.
Qed.

Section Nodes.
  Variables (s : schema) (R : typeref -> Prop).
  Hypothesis Hok : schema_ok s R.
  Hypothesis Hfam : family_refs s R.
  Hypothesis Hnd : keys_nodefault s R.
  Hypothesis Hks : keys_scalar s R.

  (* a selection whose members designate leaves, where they designate anything *)
  Definition lsel (tr : typeref) (x : value) (T : pset) : Prop :=
    ps_ok T = true /\
    forall p n, wf_path p = true -> ps_has p T = true -> resolve_path s tr x p = Some n ->
      rnode_is_leaf s n = true.

  Definition okx (tr : typeref) (x : value) : Prop :=
    R tr /\ wf_value x = true /\ conforms s tr true x = true /\ dup_free s tr x = true.

  Definition oky (tr : typeref) (y : value) : Prop :=
    plain y = true /\ conforms s tr false y = true.

  Lemma lsel_child : forall tr x T e ft c, lsel tr x T -> wf_pe e = true ->
    (forall rest, resolve_path s tr x (e :: rest) = resolve_path s ft c rest) ->
    lsel ft c (ps_with_prefix e T).
  Proof.
    intros tr x T e ft c [HT Hl] He Hstep.
    destruct (ps_with_prefix_spec e T HT He) as [HT' Hw].
    split; [exact HT'|]. intros p n Hp Hhas Hres.
    pose proof (has_nonnil _ _ Hhas) as Hne. rewrite Hw in Hhas by auto.
    apply (Hl (e :: p) n); [apply wf_path_cons; auto|exact Hhas|]. rewrite Hstep. exact Hres.
  Qed.

  (* a leaf whose extraction is plain is extracted whole, whatever the selection *)
  Lemma xt_leaf_plain : forall tr T c, conforms s tr true c = true -> leafy s tr c ->
    plain (remove_items s true tr T c) = true -> remove_items s true tr T c = c.
  Proof.
    intros tr T c Hc Hl Hpl. pose proof Hc as Hc'. rewrite conforms_eq in Hc'.
    destruct (resolve s tr) as [[sc li ma]|] eqn:Er; [|discriminate].
    destruct c as [|b|z|q0|str|l|m];
      try (destruct sc; [|discriminate]; rewrite remove_items_eq, Er; reflexivity).
    - rewrite remove_items_null in Hpl. discriminate.
    - destruct li as [t|]; [|discriminate].
      destruct l as [|x0 l0]; [rewrite remove_items_eq, Er in Hpl; simpl in Hpl; discriminate|].
      rewrite (remove_items_vlist' s true tr T sc t ma (x0 :: l0) Er ltac:(discriminate)).
      unfold leafy, kind_of in Hl. rewrite Er in Hl.
      destruct (rel_is_atomic (list_rel t)); [reflexivity|contradiction].
    - destruct ma as [t|]; [|discriminate].
      destruct m as [|kv0 m0]; [rewrite remove_items_eq, Er in Hpl; simpl in Hpl; discriminate|].
      rewrite (remove_items_vmap' s true tr T sc li t (kv0 :: m0) Er ltac:(discriminate)).
      unfold leafy, kind_of in Hl. rewrite Er in Hl.
      destruct (rel_is_atomic (map_rel t)); [reflexivity|contradiction].
  Qed.

  (* ---------- the members of an extracted list keep their path elements ---------- *)
  Lemma occ_xt : forall tr a t dup T e l, R tr -> resolve s tr = Some a -> atom_list a = Some t ->
    forallb (has_pe s t) l = true -> forallb (conforms s (list_elem t) dup) l = true ->
    forallb (has_pe s t) (flat_map (xt_item s T t) l) = true ->
    occ s t e (flat_map (xt_item s T t) l) = flat_map (xt_item s T t) (occ s t e l).
  Proof.
    intros tr a t dup T e l Htr Hr Hlt. induction l as [|c l IH]; intros Hpe Hcs Hpe'; [reflexivity|].
    cbn [forallb] in Hpe, Hcs. apply andb_true_iff in Hpe. destruct Hpe as [Hc Hpe].
    apply andb_true_iff in Hcs. destruct Hcs as [Hcc Hcs].
    cbn [flat_map] in Hpe' |- *. rewrite forallb_app in Hpe'. apply andb_true_iff in Hpe'.
    destruct Hpe' as [Hpe1 Hpe2].
    unfold occ at 1. rewrite filter_app'. fold (occ s t e (flat_map (xt_item s T t) l)).
    rewrite (IH Hpe Hcs Hpe2). rewrite occ_cons.
    unfold has_pe in Hc. destruct (list_item_to_pe s t c) as [ec|] eqn:Ec; [|discriminate].
    assert (Hf : filter (pe_matches s t e) (xt_item s T t c) =
                 if pe_matches s t e c then xt_item s T t c else []).
    { destruct (xt_item_cases s T t c) as [E|(T' & E)]; rewrite E in *.
      - destruct (pe_matches s t e c); reflexivity.
      - cbn [forallb] in Hpe1. rewrite andb_true_r in Hpe1. unfold has_pe in Hpe1.
        destruct (list_item_to_pe s t (remove_items s true (list_elem t) T' c)) as [e'|] eqn:Ee'; [|discriminate].
        pose proof (xt_same_pe s R Hnd Hks tr a t dup c T' ec e' Htr Hr Hlt Hcc Ec Ee') as Heq. subst e'.
        cbn [filter]. unfold pe_matches. rewrite Ee', Ec. destruct (peeqb ec e); reflexivity. }
    rewrite Hf. destruct (pe_matches s t e c); reflexivity.
  Qed.

  (* ---------- one step down, on both sides ---------- *)

  (* the child of x at e, and what the extraction has there *)
  Definition child_rel (tr : typeref) (x y : value) (T : pset) (e : pe) (ft : typeref) (c : value)
    (oc' : option value) : Prop :=
    (forall rest, resolve_path s tr x (e :: rest) = resolve_path s ft c rest) /\
    (forall rest, resolve_path s tr y (e :: rest) =
                  match oc' with Some c' => resolve_path s ft c' rest | None => None end) /\
    okx ft c /\
    match oc' with
    | Some c' => oky ft c' /\
        (* the walker descends with the selection beneath e, whether or not e itself is
           selected (typed/remove.go as repaired, F27) *)
        exists Tc, c' = remove_items s true ft Tc c /\ ps_ok Tc = true /\
          (forall q, wf_path q = true -> q <> [] -> ps_has q Tc = ps_has (e :: q) T) /\
          (ps_has [e] T = true \/ (ps_has [e] T = false /\ ps_empty Tc = false))
    | None => ps_has [e] T = false /\ ps_empty (ps_with_prefix e T) = true
    end.

  Lemma child_of_map : forall tr t m T k,
    okx tr (VMap m) -> kind_of s tr (VMap m) = KMap t m -> ps_ok T = true ->
    oky tr (remove_items s true tr T (VMap m)) ->
    forall c, assoc_get k m = Some c ->
    exists oc', child_rel tr (VMap m) (remove_items s true tr T (VMap m)) T (PEField k) (field_type t k) c oc'.
  Proof.
    intros tr t m T k (Htr & Hw & Hc & Hdf) Ek HT (Hpl & Hcy) c Eg.
    destruct (kind_map_inv _ _ _ _ _ Ek) as (a & Hr & Ham & _ & Hna & Hne).
    destruct a as [sc li ma]. simpl in Ham. subst ma.
    pose proof (remove_items_wf s true (VMap m) tr T Hw) as Hwy.
    rewrite (remove_items_vmap' s true tr T sc li t m Hr Hne), Hna, rm_map_go_xt in *.
    set (my := flat_map (xt_entry s T t) m) in *.
    assert (Hmyne : my <> []) by (intros E; rewrite E in Hpl; discriminate).
    assert (Ey : match my with [] => VNull | v :: l1 => VMap (v :: l1) end = VMap my)
      by (destruct my; [congruence|reflexivity]).
    rewrite Ey in *. clear Ey.
    pose proof (kind_of_map s tr _ t my Hr eq_refl Hna Hmyne) as Eky.
    pose proof (assoc_get_In m k c Eg) as Hin.
    assert (Hxc : okx (field_type t k) c).
    { split; [apply (so_map s R Hok tr _ t k Htr Hr eq_refl)|].
      split; [apply (wf_value_map_in m k c Hw Hin)|]. split.
      - rewrite conforms_eq, Hr in Hc. eapply cmap_each_in; eauto.
      - apply (dup_free_map s tr (VMap m) t m k c Ek Hdf Hin). }
    assert (Hget : assoc_get k my = xt_value s T t k c).
    { unfold my. rewrite xt_map_assoc_get, Eg. reflexivity. }
    exists (xt_value s T t k c). split; [|split; [|split; [exact Hxc|]]].
    - intros rest. rewrite (resolve_path_map _ _ _ _ _ _ _ Ek), Eg. reflexivity.
    - intros rest. rewrite (resolve_path_map _ _ _ _ _ _ _ Eky), Hget.
      destruct (xt_value s T t k c); reflexivity.
    - destruct (xt_value s T t k c) as [c'|] eqn:Ev.
      + pose proof (assoc_get_In my k c' Hget) as Hiny.
        split.
        * split; [apply (plain_map_in my k c' Hpl Hiny)|].
          rewrite conforms_eq, Hr in Hcy. eapply cmap_each_in; eauto.
        * destruct (ps_with_prefix_spec (PEField k) T HT eq_refl) as [H1 H2].
          unfold xt_value in Ev. destruct (ps_has [PEField k] T) eqn:Eh.
          -- inversion Ev. eexists. split; [reflexivity|]. split; [exact H1|]. split; [exact H2|].
             left. reflexivity.
          -- destruct (ps_empty (ps_with_prefix (PEField k) T)) eqn:Ee; [discriminate|]. cbn [negb] in Ev.
             inversion Ev. eexists. split; [reflexivity|]. split; [exact H1|]. split; [exact H2|].
             right. auto.
      + unfold xt_value in Ev. destruct (ps_has [PEField k] T); [discriminate|].
        destruct (ps_empty (ps_with_prefix (PEField k) T)); [auto|discriminate].
  Qed.

  Lemma child_of_list : forall tr t l T e,
    okx tr (VList l) -> kind_of s tr (VList l) = KList t l -> ps_ok T = true ->
    oky tr (remove_items s true tr T (VList l)) -> wf_pe e = true ->
    forall c, occ s t e l = [c] ->
    exists oc', child_rel tr (VList l) (remove_items s true tr T (VList l)) T e (list_elem t) c oc'.
  Proof.
    intros tr t l T e (Htr & Hw & Hc & Hdf) Ek HT (Hpl & Hcy) He c Hocc.
    destruct (kind_list_inv _ _ _ _ _ Ek) as (a & Hr & Hal & _ & Hna & Hne).
    destruct a as [sc li ma]. simpl in Hal. subst li.
    pose proof (remove_items_wf s true (VList l) tr T Hw) as Hwy.
    rewrite (remove_items_vlist' s true tr T sc t ma l Hr Hne), Hna, rm_list_go_xt in *.
    set (ly := flat_map (xt_item s T t) l) in *.
    assert (Hlyne : ly <> []) by (intros E; rewrite E in Hpl; discriminate).
    assert (Ey : match ly with [] => VNull | v :: l1 => VList (v :: l1) end = VList ly)
      by (destruct ly; [congruence|reflexivity]).
    rewrite Ey in *. clear Ey.
    pose proof (kind_of_list s tr _ t ly Hr eq_refl Hna Hlyne) as Eky.
    destruct (conf_list_facts s R Hok Hfam tr true t l Htr Hc Ek)
      as (sc1 & ma1 & _ & _ & _ & _ & Hpe & Hall & _).
    destruct (conf_list_facts s R Hok Hfam tr false t ly Htr Hcy Eky)
      as (sc2 & ma2 & _ & _ & _ & _ & HpeY & HallY & _).
    destruct (dup_free_list s R Hok tr (VList l) t l Htr Hw Ek Hdf) as (_ & Hdis & Hdfl).
    assert (HRe : R (list_elem t)) by (apply (so_list s R Hok tr _ t Htr Hr eq_refl)).
    assert (Hiw : items_wf s t l) by (apply (items_wf_R s R Hok t l HRe); exact Hw).
    assert (Hcin : In c (occ s t e l)) by (rewrite Hocc; left; reflexivity).
    apply occ_In in Hcin. destruct Hcin as [Hcl Hm]. unfold pe_matches in Hm.
    destruct (list_item_to_pe s t c) as [ec|] eqn:Ec; [|discriminate].
    assert (Hwec : wf_pe ec = true) by (apply (Hiw c ec Hcl Ec)).
    assert (Hxc : okx (list_elem t) c).
    { split; [exact HRe|]. split; [apply (wf_value_list_in l c Hw Hcl)|]. split.
      - rewrite forallb_forall in Hall. apply Hall. exact Hcl.
      - apply Hdfl. exact Hcl. }
    assert (HoccY : occ s t e ly = xt_item s T t c).
    { unfold ly. rewrite (occ_xt tr _ t true T e l Htr Hr eq_refl Hpe Hall HpeY), Hocc.
      cbn [flat_map]. apply app_nil_r. }
    (* the selection tests, at e instead of the member's own element *)
    assert (Hhas : ps_has [ec] T = ps_has [e] T).
    { apply ps_has_patheqb; auto; try (apply wf_path_cons; auto). simpl. rewrite Hm. reflexivity. }
    assert (Hemp : ps_empty (ps_with_prefix ec T) = ps_empty (ps_with_prefix e T)).
    { destruct (ps_with_prefix_spec ec T HT Hwec) as [H1 _].
      destruct (ps_with_prefix_spec e T HT He) as [H2 _].
      apply (empty_cong _ _ H1 H2). apply (with_prefix_cong T ec e HT Hwec He Hm). }
    set (oc' := match xt_item s T t c with [] => None | c' :: _ => Some c' end).
    exists oc'. split; [|split; [|split; [exact Hxc|]]].
    - intros rest. rewrite (resolve_path_list_occ s R Hok tr _ t l e rest Htr Hw Ek He), Hpe, Hocc.
      assert (Hkv : is_keyval e = true).
      { rewrite <- (peeqb_keyval ec e Hm). apply (lipe_keyval s t c ec Ec). }
      rewrite Hkv. reflexivity.
    - intros rest. rewrite (resolve_path_list_occ s R Hok tr _ t ly e rest Htr Hwy Eky He), HpeY, HoccY.
      assert (Hkv : is_keyval e = true).
      { rewrite <- (peeqb_keyval ec e Hm). apply (lipe_keyval s t c ec Ec). }
      rewrite Hkv. cbn [andb]. unfold oc'.
      destruct (xt_item_cases s T t c) as [E|(T' & E)]; rewrite E; reflexivity.
    - unfold oc'. unfold xt_item. rewrite (list_item_pe_or_zero_some s t c ec Ec). cbv zeta.
      rewrite Hhas, Hemp.
      assert (Hiny : forall c', xt_item s T t c = [c'] -> In c' ly).
      { intros c' E. unfold ly. apply in_flat_map. exists c. split; [exact Hcl|]. rewrite E. left. reflexivity. }
      assert (Hoky : forall c', In c' ly -> oky (list_elem t) c').
      { intros c' Hin. split; [apply (plain_list_in ly c' Hpl Hin)|].
        rewrite forallb_forall in HallY. apply HallY. exact Hin. }
      unfold xt_item in Hiny. rewrite (list_item_pe_or_zero_some s t c ec Ec) in Hiny. cbv zeta in Hiny.
      rewrite Hhas, Hemp in Hiny.
      (* the subset is taken at the member's own element *)
      destruct (ps_with_prefix_spec ec T HT Hwec) as [H1 H2].
      assert (H2' : forall q, wf_path q = true -> q <> [] ->
                ps_has q (ps_with_prefix ec T) = ps_has (e :: q) T).
      { intros q Hq Hqne. rewrite (H2 q Hq Hqne).
        apply ps_has_patheqb; auto; try (apply wf_path_cons; auto).
        simpl. rewrite Hm. apply patheqb_refl. exact Hq. }
      destruct (ps_has [e] T) eqn:Eh; destruct (ps_empty (ps_with_prefix e T)) eqn:Ee; cbn [andb negb] in *.
      + split; [apply Hoky; apply Hiny; reflexivity|]. eexists. split; [reflexivity|].
        split; [exact H1|]. split; [exact H2'|]. left. reflexivity.
      + split; [apply Hoky; apply Hiny; reflexivity|]. eexists. split; [reflexivity|].
        split; [exact H1|]. split; [exact H2'|]. left. reflexivity.
      + auto.
      + split; [apply Hoky; apply Hiny; reflexivity|]. eexists. split; [reflexivity|].
        split; [exact H1|]. split; [exact H2'|]. right.
        split; [reflexivity|]. rewrite Hemp. reflexivity.
  Qed.

  (* ---------- the shape of the extraction ---------- *)
  Lemma map_view : forall tr t m T, okx tr (VMap m) -> kind_of s tr (VMap m) = KMap t m ->
    oky tr (remove_items s true tr T (VMap m)) ->
    exists my, remove_items s true tr T (VMap m) = VMap my /\ kind_of s tr (VMap my) = KMap t my /\
      forall k, assoc_get k my = match assoc_get k m with Some c => xt_value s T t k c | None => None end.
  Proof.
    intros tr t m T (Htr & Hw & Hc & Hdf) Ek (Hpl & Hcy).
    destruct (kind_map_inv _ _ _ _ _ Ek) as (a & Hr & Ham & _ & Hna & Hne).
    destruct a as [sc li ma]. simpl in Ham. subst ma.
    rewrite (remove_items_vmap' s true tr T sc li t m Hr Hne), Hna, rm_map_go_xt in *.
    set (my := flat_map (xt_entry s T t) m) in *.
    assert (Hmyne : my <> []) by (intros E; rewrite E in Hpl; discriminate).
    exists my. split; [destruct my; [congruence|reflexivity]|].
    split; [apply (kind_of_map s tr _ t my Hr eq_refl Hna Hmyne)|].
    intros k. apply xt_map_assoc_get.
  Qed.

  Lemma list_view : forall tr t l T, okx tr (VList l) -> kind_of s tr (VList l) = KList t l ->
    oky tr (remove_items s true tr T (VList l)) ->
    exists ly, remove_items s true tr T (VList l) = VList ly /\ kind_of s tr (VList ly) = KList t ly /\
      forallb (has_pe s t) ly = true /\ forallb (has_pe s t) l = true /\
      (forall e, wf_pe e = true -> occ s t e ly = flat_map (xt_item s T t) (occ s t e l)) /\
      (forall e, wf_pe e = true -> Nat.leb 2 (List.length (occ s t e l)) = false).
  Proof.
    intros tr t l T (Htr & Hw & Hc & Hdf) Ek (Hpl & Hcy).
    destruct (kind_list_inv _ _ _ _ _ Ek) as (a & Hr & Hal & _ & Hna & Hne).
    destruct a as [sc li ma]. simpl in Hal. subst li.
    rewrite (remove_items_vlist' s true tr T sc t ma l Hr Hne), Hna, rm_list_go_xt in *.
    set (ly := flat_map (xt_item s T t) l) in *.
    assert (Hlyne : ly <> []) by (intros E; rewrite E in Hpl; discriminate).
    assert (Ey : match ly with [] => VNull | v :: l1 => VList (v :: l1) end = VList ly)
      by (destruct ly; [congruence|reflexivity]).
    rewrite Ey in *. clear Ey.
    pose proof (kind_of_list s tr _ t ly Hr eq_refl Hna Hlyne) as Eky.
    destruct (conf_list_facts s R Hok Hfam tr true t l Htr Hc Ek)
      as (sc1 & ma1 & _ & _ & _ & _ & Hpe & Hall & _).
    destruct (conf_list_facts s R Hok Hfam tr false t ly Htr Hcy Eky)
      as (sc2 & ma2 & _ & _ & _ & _ & HpeY & HallY & _).
    destruct (dup_free_list s R Hok tr (VList l) t l Htr Hw Ek Hdf) as (_ & Hdis & Hdfl).
    assert (HRe : R (list_elem t)) by (apply (so_list s R Hok tr _ t Htr Hr eq_refl)).
    assert (Hiw : items_wf s t l) by (apply (items_wf_R s R Hok t l HRe); exact Hw).
    exists ly. split; [reflexivity|]. split; [exact Eky|]. split; [exact HpeY|]. split; [exact Hpe|].
    split.
    - intros e He. unfold ly. apply (occ_xt tr _ t true T e l Htr Hr eq_refl Hpe Hall HpeY).
    - intros e He. apply (distinct_occ s t l e Hdis Hiw He).
  Qed.

  (* the child at e, when either side has one *)
  Lemma child_of : forall tr x T e, okx tr x -> ps_ok T = true ->
    oky tr (remove_items s true tr T x) -> wf_pe e = true ->
    (exists r1 n1, resolve_path s tr x (e :: r1) = Some n1) \/
    (exists r2 n2, resolve_path s tr (remove_items s true tr T x) (e :: r2) = Some n2) ->
    exists ft c oc', child_rel tr x (remove_items s true tr T x) T e ft c oc'.
  Proof.
    intros tr x T e Hx HT Hy He Hex.
    pose proof Hx as (Htr & Hw & Hc & Hdf). pose proof Hy as (Hpl & Hcy).
    destruct (kind_of s tr x) as [|t m|t l|] eqn:Ek.
    - exfalso. assert (Hl : leafy s tr x) by (unfold leafy; rewrite Ek; exact I).
      rewrite (xt_leaf_plain tr T x Hc Hl Hpl) in Hex.
      destruct Hex as [(r1 & n1 & H)|(r2 & n2 & H)];
        rewrite resolve_path_leaf in H by (rewrite Ek; exact I); discriminate.
    - destruct (kind_map_inv _ _ _ _ _ Ek) as (_ & _ & _ & Hv & _ & _). subst x.
      destruct (map_view tr t m T Hx Ek Hy) as (my & Ey & Eky & Hget).
      assert (Hk : exists k c, e = PEField k /\ assoc_get k m = Some c).
      { destruct Hex as [(r1 & n1 & H)|(r2 & n2 & H)].
        - destruct e as [k|fl|ev|i];
            try (rewrite (resolve_path_map_other _ _ _ _ _ _ _ Ek) in H by exact I; discriminate).
          rewrite (resolve_path_map _ _ _ _ _ _ _ Ek) in H.
          destruct (assoc_get k m) as [c|] eqn:Eg0; [|discriminate]. exists k, c. split; [reflexivity|exact Eg0].
        - rewrite Ey in H.
          destruct e as [k|fl|ev|i];
            try (rewrite (resolve_path_map_other _ _ _ _ _ _ _ Eky) in H by exact I; discriminate).
          rewrite (resolve_path_map _ _ _ _ _ _ _ Eky), Hget in H.
          destruct (assoc_get k m) as [c|] eqn:Eg0; [|discriminate]. exists k, c. split; [reflexivity|exact Eg0]. }
      destruct Hk as (k & c & -> & Eg).
      destruct (child_of_map tr t m T k Hx Ek HT Hy c Eg) as (oc' & Hrel). eauto.
    - destruct (kind_list_inv _ _ _ _ _ Ek) as (_ & _ & _ & Hv & _ & _). subst x.
      destruct (list_view tr t l T Hx Ek Hy) as (ly & Ey & Eky & HpeY & Hpe & Hocc & Hlen).
      pose proof (remove_items_wf s true (VList l) tr T Hw) as Hwy.
      assert (Hc1 : exists c, occ s t e l = [c]).
      { specialize (Hlen e He).
        destruct Hex as [(r1 & n1 & H)|(r2 & n2 & H)].
        - rewrite (resolve_path_list_occ s R Hok tr _ t l e r1 Htr Hw Ek He), Hpe in H.
          destruct (is_keyval e); [|discriminate]. cbn [andb] in H.
          destruct (occ s t e l) as [|c [|c2 more]] eqn:Eo; [discriminate|exists c; reflexivity|simpl in Hlen; discriminate].
        - rewrite Ey in H. rewrite Ey in Hwy.
          rewrite (resolve_path_list_occ s R Hok tr _ t ly e r2 Htr Hwy Eky He), HpeY, (Hocc e He) in H.
          destruct (is_keyval e); [|discriminate]. cbn [andb] in H.
          destruct (occ s t e l) as [|c [|c2 more]] eqn:Eo; [discriminate|exists c; reflexivity|simpl in Hlen; discriminate]. }
      destruct Hc1 as (c & Hc1).
      destruct (child_of_list tr t l T e Hx Ek HT Hy He c Hc1) as (oc' & Hrel). eauto.
    - exfalso. assert (Hl : leafy s tr x) by (unfold leafy; rewrite Ek; exact I).
      rewrite (xt_leaf_plain tr T x Hc Hl Hpl) in Hex.
      destruct Hex as [(r1 & n1 & H)|(r2 & n2 & H)];
        rewrite resolve_path_leaf in H by (rewrite Ek; exact I); discriminate.
  Qed.

  (* the selection passed to a child, given extensionally *)
  Lemma lsel_child_ext : forall tr x T e ft c Tc, lsel tr x T -> wf_pe e = true ->
    (forall rest, resolve_path s tr x (e :: rest) = resolve_path s ft c rest) ->
    ps_ok Tc = true ->
    (forall q, wf_path q = true -> q <> [] -> ps_has q Tc = ps_has (e :: q) T) ->
    lsel ft c Tc.
  Proof.
    intros tr x T e ft c Tc [HT Hl] He Hstep HTc Hw.
    split; [exact HTc|]. intros p n Hp Hhas Hres.
    pose proof (has_nonnil _ _ Hhas) as Hne. rewrite Hw in Hhas by auto.
    apply (Hl (e :: p) n); [apply wf_path_cons; auto|exact Hhas|]. rewrite Hstep. exact Hres.
  Qed.

  Lemma ext_child_ext : forall T e Tc rest, ps_ok T = true -> wf_pe e = true -> ps_ok Tc = true ->
    (forall q, wf_path q = true -> q <> [] -> ps_has q Tc = ps_has (e :: q) T) ->
    wf_path rest = true -> ext rest Tc = ext rest (ps_with_prefix e T).
  Proof.
    intros T e Tc rest HT He HTc Hw Hrest.
    destruct (ps_with_prefix_spec e T HT He) as [H1 H2].
    apply (ext_cong rest Tc _ HTc H1 Hrest). intros q Hq Hqne. rewrite (Hw q Hq Hqne), (H2 q Hq Hqne).
    reflexivity.
  Qed.

  (* ---------- every node of the extraction is a selected node of the object ---------- *)
  Theorem xt_nodes_sound : forall p x tr T n', okx tr x -> lsel tr x T ->
    oky tr (remove_items s true tr T x) -> wf_path p = true -> p <> [] ->
    resolve_path s tr (remove_items s true tr T x) p = Some n' ->
    ext p T = true /\
    exists n, resolve_path s tr x p = Some n /\
      (rnode_is_leaf s n' = true -> n' = n) /\ (rnode_is_leaf s n = true -> n' = n).
  Proof.
    induction p as [|e rest IH]; intros x tr T n' Hx Hsel Hy Hp Hne Hres; [congruence|].
    apply wf_path_cons in Hp. destruct Hp as [He Hrest].
    pose proof (proj1 Hsel) as HT.
    destruct (child_of tr x T e Hx HT Hy He) as (ft & c & oc' & Hsx & Hsy & Hxc & Hrel).
    { right. eauto. }
    rewrite Hsy in Hres. rewrite Hsx.
    destruct oc' as [c'|]; [|discriminate].
    destruct Hrel as (Hyc & Tc & Ec' & HTc & Hw & Hcase).
    pose proof Hxc as (Hft & Hwc & Hcc & Hdfc). pose proof Hyc as (Hplc & Hcyc).
    assert (Hleafcase : leafy s ft c -> c' = c).
    { intros Hl. rewrite Ec' in Hplc |- *. apply (xt_leaf_plain ft Tc c Hcc Hl Hplc). }
    assert (Hgran : granular s ft c -> granular s ft c').
    { intros Hg. rewrite Ec' in Hplc |- *. apply (xt_granular s ft Tc c Hg Hplc). }
    destruct Hcase as [Hh|(Hh & Hemp)].
    - (* the child is selected: it is a leaf, extracted whole *)
      assert (Hl : leafy s ft c).
      { apply rnode_leaf_leafy. apply (proj2 Hsel [e] (RNode ft c)); auto.
        - apply wf_path_cons. auto.
        - rewrite Hsx. reflexivity. }
      rewrite (Hleafcase Hl) in Hres.
      destruct rest as [|e2 rest2].
      + simpl in Hres. inversion Hres; subst n'. cbn [ext]. rewrite Hh. split; [reflexivity|].
        exists (RNode ft c). auto.
      + rewrite resolve_path_leaf in Hres by exact Hl. discriminate.
    - destruct rest as [|e2 rest2].
      + simpl in Hres. inversion Hres; subst n'. cbn [ext]. rewrite Hh. cbn [orb].
        pose proof (ext_child_ext T e Tc [] HT He HTc Hw eq_refl) as Hee. cbn [ext] in Hee.
        rewrite <- Hee, Hemp.
        split; [reflexivity|]. exists (RNode ft c). split; [reflexivity|].
        destruct (leafy_or_granular s ft c) as [Hl|Hg].
        * rewrite (Hleafcase Hl). auto.
        * split; intros Hlf; exfalso.
          -- rewrite (granular_not_leaf s ft c' (Hgran Hg)) in Hlf. discriminate.
          -- rewrite (granular_not_leaf s ft c Hg) in Hlf. discriminate.
      + assert (Hselc : lsel ft c Tc) by (apply (lsel_child_ext tr x T e ft c Tc Hsel He Hsx HTc Hw)).
        rewrite Ec' in Hres, Hyc.
        destruct (IH c ft Tc n' Hxc Hselc Hyc Hrest ltac:(discriminate) Hres) as (Hext & n & Hn & H1 & H2).
        split; [|exists n; auto].
        change (ext (e :: e2 :: rest2) T) with (false || ext (e2 :: rest2) (ps_with_prefix e T)).
        rewrite <- (ext_child_ext T e Tc (e2 :: rest2) HT He HTc Hw Hrest). exact Hext.
  Qed.

  (* ---------- what the extraction keeps ---------- *)
  Theorem xt_nodes_keep : forall p x tr T n, okx tr x -> lsel tr x T ->
    oky tr (remove_items s true tr T x) -> wf_path p = true -> p <> [] ->
    resolve_path s tr x p = Some n -> rnode_is_leaf s n = true -> ext p T = true ->
    resolve_path s tr (remove_items s true tr T x) p = Some n.
  Proof.
    induction p as [|e rest IH]; intros x tr T n Hx Hsel Hy Hp Hne Hres Hleaf Hext; [congruence|].
    apply wf_path_cons in Hp. destruct Hp as [He Hrest].
    pose proof (proj1 Hsel) as HT.
    destruct (child_of tr x T e Hx HT Hy He) as (ft & c & oc' & Hsx & Hsy & Hxc & Hrel).
    { left. eauto. }
    rewrite Hsx in Hres. rewrite Hsy.
    destruct (ps_with_prefix_spec e T HT He) as [HT' _].
    destruct oc' as [c'|].
    2:{ exfalso. destruct Hrel as [Hh Hemp]. cbn [ext] in Hext. rewrite Hh in Hext.
        assert (Hx2 : ext rest (ps_with_prefix e T) = true).
        { destruct rest; cbn [orb] in Hext; exact Hext. }
        rewrite (ext_nonempty rest _ HT' Hrest Hx2) in Hemp. discriminate. }
    destruct Hrel as (Hyc & Tc & Ec' & HTc & Hw & Hcase).
    pose proof Hxc as (Hft & Hwc & Hcc & Hdfc). pose proof Hyc as (Hplc & Hcyc).
    assert (Hleafcase : leafy s ft c -> c' = c).
    { intros Hl. rewrite Ec' in Hplc |- *. apply (xt_leaf_plain ft Tc c Hcc Hl Hplc). }
    destruct Hcase as [Hh|(Hh & Hemp)].
    - assert (Hl : leafy s ft c).
      { apply rnode_leaf_leafy. apply (proj2 Hsel [e] (RNode ft c)); auto.
        - apply wf_path_cons. auto.
        - rewrite Hsx. reflexivity. }
      rewrite (Hleafcase Hl). exact Hres.
    - destruct rest as [|e2 rest2].
      + simpl in Hres. inversion Hres; subst n.
        rewrite (Hleafcase (rnode_leaf_leafy s ft c Hleaf)). reflexivity.
      + assert (Hselc : lsel ft c Tc) by (apply (lsel_child_ext tr x T e ft c Tc Hsel He Hsx HTc Hw)).
        rewrite Ec' in Hyc |- *.
        apply (IH c ft Tc n Hxc Hselc Hyc Hrest ltac:(discriminate) Hres Hleaf).
        change (ext (e :: e2 :: rest2) T) with (false || ext (e2 :: rest2) (ps_with_prefix e T)) in Hext.
        rewrite (ext_child_ext T e Tc (e2 :: rest2) HT He HTc Hw Hrest). exact Hext.
  Qed.

  (* ---------- a selected node with nothing selected beneath it ---------- *)
  (* After the F27 repair the walker descends into a selected entry or member with the
     selection beneath it.  A granular node that is selected with nothing selected beneath it
     is therefore extracted as null: when the extraction is plain, such a node is a leaf. *)
  Lemma rm_list_go_none : forall t l, rm_list_go s true ps_empty_set t l = [].
  Proof.
    intros t l. induction l as [|x l IH]; [reflexivity|]. rewrite rm_list_go_cons, IH. reflexivity.
  Qed.

  Lemma rm_map_go_none : forall t m, rm_map_go s true ps_empty_set t m = [].
  Proof.
    intros t m. induction m as [|kv m IH]; [reflexivity|]. rewrite rm_map_go_cons, IH. reflexivity.
  Qed.

  Lemma xt_nothing_null : forall tr T c, ps_ok T = true -> ps_empty T = true -> granular s tr c ->
    remove_items s true tr T c = VNull.
  Proof.
    intros tr T c HT Hem Hg. rewrite (ps_empty_is_empty_set T HT Hem). unfold granular in Hg.
    destruct (kind_of s tr c) as [|t m|t l|] eqn:Ek; try contradiction.
    - destruct (kind_map_inv _ _ _ _ _ Ek) as (a & Hr & Ham & Hv & Hna & Hne). subst c.
      destruct a as [sc li ma]. simpl in Ham. subst ma.
      rewrite (remove_items_vmap' s true tr _ sc li t m Hr Hne), Hna, rm_map_go_none. reflexivity.
    - destruct (kind_list_inv _ _ _ _ _ Ek) as (a & Hr & Hal & Hv & Hna & Hne). subst c.
      destruct a as [sc li ma]. simpl in Hal. subst li.
      rewrite (remove_items_vlist' s true tr _ sc t ma l Hr Hne), Hna, rm_list_go_none. reflexivity.
  Qed.

  Theorem xt_selected_leafy : forall p x tr T ft c, okx tr x -> ps_ok T = true ->
    oky tr (remove_items s true tr T x) -> wf_path p = true -> p <> [] ->
    ps_has p T = true ->
    (forall q, wf_path q = true -> q <> [] -> ps_has (p ++ q) T = false) ->
    resolve_path s tr x p = Some (RNode ft c) -> leafy s ft c.
  Proof.
    induction p as [|e rest IH]; intros x tr T ft c Hx HT Hy Hp Hne Hh Hno Hres; [congruence|].
    apply wf_path_cons in Hp. destruct Hp as [He Hrest].
    destruct (child_of tr x T e Hx HT Hy He) as (ft0 & c0 & oc' & Hsx & Hsy & Hxc & Hrel).
    { left. eauto. }
    rewrite Hsx in Hres.
    destruct (ps_with_prefix_spec e T HT He) as [HT' Hw'].
    destruct oc' as [c'|].
    2:{ exfalso. destruct Hrel as [Hh0 Hemp]. destruct rest as [|e2 rest2]; [congruence|].
        rewrite <- Hw' in Hh by (auto; discriminate).
        rewrite (ps_has_nonempty _ _ Hh) in Hemp. discriminate. }
    destruct Hrel as (Hyc & Tc & Ec' & HTc & Hw & _).
    destruct rest as [|e2 rest2].
    - simpl in Hres. inversion Hres; subst ft0 c0.
      destruct (leafy_or_granular s ft c) as [Hl|Hg]; [exact Hl|]. exfalso.
      assert (Hemp : ps_empty Tc = true).
      { destruct (ps_empty Tc) eqn:E; [reflexivity|].
        destruct (ps_nonempty_witness Tc HTc E) as (q & Hq & Hhq).
        pose proof (has_nonnil _ _ Hhq) as Hqne. rewrite (Hw q Hq Hqne) in Hhq.
        pose proof (Hno q Hq Hqne) as Hf. cbn [app] in Hf. congruence. }
      destruct Hyc as [Hplc _]. rewrite Ec', (xt_nothing_null ft Tc c HTc Hemp Hg) in Hplc.
      discriminate.
    - rewrite Ec' in Hyc.
      apply (IH c0 ft0 Tc ft c Hxc HTc Hyc Hrest ltac:(discriminate)); [| |exact Hres].
      + rewrite (Hw _ Hrest ltac:(discriminate)). exact Hh.
      + intros q Hq Hqne. rewrite Hw.
        * apply (Hno q Hq Hqne).
        * apply wf_path_app. auto.
        * discriminate.
  Qed.
End Nodes.
