(* The remove/extract walker (Model/Remove.v) preserves well-formedness of values:
   no hypothesis on the schema or on the set of paths. *)
From Coq Require Import List ZArith String Bool.
From SMD Require Import Model.Value Model.Order Model.PathElem Model.PathSet Model.Schema
  Model.Walk Model.FieldSet Model.Remove Proofs.OrderLaws Proofs.PathSetLaws Proofs.UpdaterLaws.
Import ListNotations.
Open Scope bool_scope.

Theorem remove_items_wf : forall s ex v tr items,
  wf_value v = true -> wf_value (remove_items s ex tr items v) = true.
Proof.
  intros s ex v. induction v as [| b | z | q | str | l IH | kvs IH] using value_ind';
    intros tr items Hwf; cbn [remove_items];
    (destruct (resolve s tr) as [a|]; [|reflexivity]);
    match goal with |- context [handle_atom ?x] => destruct (handle_atom x) as [t|sc|t|] end;
    try reflexivity; try exact Hwf.
  - (* list *)
    match goal with |- context [VList (?g l)] =>
      assert (forall l0, Forall (fun v : value => forall (tr : typeref) (items : pset),
                  wf_value v = true -> wf_value (remove_items s ex tr items v) = true) l0 ->
                forallb wf_value l0 = true -> forallb wf_value (g l0) = true) as Hgo
    end.
    { clear. induction l0 as [|item rest IHl]; intros HF Hl; [reflexivity|].
      inversion HF as [|x y Hitem Hrest]; subst. cbn [forallb] in Hl.
      apply andb_true_iff in Hl. destruct Hl as [Hi Hr].
      specialize (IHl Hrest Hr).
      cbv beta iota.
      destruct (list_item_to_pe s t item) as [e|];
        repeat match goal with |- context [if ?b then _ else _] => destruct b end;
        cbn [app forallb]; rewrite ?IHl, ?Hi, ?Hitem by exact Hi; reflexivity. }
    cbn [wf_value] in Hwf. specialize (Hgo l IH Hwf).
    match goal with |- context [VList (?g l)] => set (gl := g l) in * end. clearbody gl.
    destruct l as [|x l']; [reflexivity|].
    destruct (rel_is_atomic (list_rel t)); [destruct ex; [exact Hwf|reflexivity]|].
    destruct gl; [reflexivity|exact Hgo].
  - (* map *)
    match goal with |- context [VMap (?g kvs)] =>
      assert (forall m, Forall (fun kv : string * value => forall (tr : typeref) (items : pset),
                  wf_value (snd kv) = true -> wf_value (remove_items s ex tr items (snd kv)) = true) m ->
                sorted_keys m = true -> forallb (fun kv => wf_value (snd kv)) m = true ->
                sorted_keys (g m) = true /\ forallb (fun kv => wf_value (snd kv)) (g m) = true /\
                forall k v, In (k, v) (g m) -> exists v', In (k, v') m) as Hgo
    end.
    { clear. induction m as [|[k val] rest IHm]; intros HF Hs Hm.
      - split; [reflexivity|]. split; [reflexivity|]. intros k v [].
      - inversion HF as [|x y Hval Hrest]; subst. cbn [snd] in Hval.
        cbn [forallb snd] in Hm. apply andb_true_iff in Hm. destruct Hm as [Hv Hm].
        apply sorted_keys_cons_iff in Hs. destruct Hs as [Hg Hs].
        destruct (IHm Hrest Hs Hm) as [I1 [I2 I3]]. cbv beta iota.
        match type of I1 with sorted_keys ?gr = true => set (gr0 := gr) in * end. clearbody gr0.
        assert (forall v0 : value, wf_value v0 = true ->
                  sorted_keys ((k, v0) :: gr0) = true /\
                  forallb (fun kv : string * value => wf_value (snd kv)) ((k, v0) :: gr0) = true /\
                  forall k1 v1, In (k1, v1) ((k, v0) :: gr0) -> exists v', In (k1, v') ((k, val) :: rest))
          as Hcons.
        { intros v0 Hv0. split; [|split].
          - apply sorted_keys_cons_iff. split; [|exact I1].
            intros k2 v2 Hin. destruct (I3 k2 v2 Hin) as [v' Hin']. eapply Hg; exact Hin'.
          - cbn [forallb snd]. rewrite Hv0. exact I2.
          - intros k1 v1 [Heq|Hin].
            + inversion Heq; subst. exists val. left; reflexivity.
            + destruct (I3 k1 v1 Hin) as [v' Hin']. exists v'. right; exact Hin'. }
        assert (sorted_keys gr0 = true /\
                forallb (fun kv : string * value => wf_value (snd kv)) gr0 = true /\
                forall k1 v1, In (k1, v1) gr0 -> exists v', In (k1, v') ((k, val) :: rest)) as Hskip.
        { split; [exact I1|]. split; [exact I2|].
          intros k1 v1 Hin. destruct (I3 k1 v1 Hin) as [v' Hin']. exists v'. right; exact Hin'. }
        repeat match goal with |- context [if ?b then _ else _] => destruct b end;
          first [exact Hskip | apply Hcons; first [exact Hv | apply Hval; exact Hv]]. }
    cbn [wf_value] in Hwf. apply andb_true_iff in Hwf. destruct Hwf as [Hs Hm].
    destruct (Hgo kvs IH Hs Hm) as [G1 [G2 _]].
    match goal with |- context [VMap (?g kvs)] => set (gm := g kvs) in * end. clearbody gm.
    destruct kvs as [|x m']; [reflexivity|].
    destruct (rel_is_atomic (map_rel t)).
    { destruct ex; [|reflexivity]. cbn [wf_value]. rewrite Hs, Hm. reflexivity. }
    destruct gm; [reflexivity|]. cbn [wf_value]. rewrite G1, G2. reflexivity.
Qed.

Corollary remove_wf : forall s tr v items, wf_value v = true -> wf_value (remove s tr v items) = true.
Proof. intros s tr v items H. unfold remove. apply remove_items_wf. exact H. Qed.

