(* The field-set walker relative to the empty prefix: the inserted paths as a flat_map
   over the members of the root container. *)
From Coq Require Import List ZArith String Bool Arith Lia.
From SMD Require Import Model.Value Model.Order Model.PathElem Model.PathSet Model.Schema
  Model.Walk Model.FieldSet Model.Remove Spec.PathsAsSets Spec.RefValid Spec.Resolve
  Proofs.OrderLaws Proofs.KeyLaws Proofs.PathSetLaws Proofs.ValidateLaws Proofs.SchemaOk
  Proofs.FieldSetMirrors Proofs.FieldSetBase.
Import ListNotations.
Open Scope bool_scope.

Definition fse (s : schema) (tr : typeref) (v : value) : bool := fst (fs_paths s tr [] v).
Definition fsp (s : schema) (tr : typeref) (v : value) : list path := snd (fs_paths s tr [] v).

Definition prefix_ok (s : schema) (v : value) : Prop :=
  forall tr pre, fs_paths s tr pre v = (fse s tr v, map (app pre) (fsp s tr v)).

Definition item_err (s : schema) (t : listT) (dups : pes) (x : value) : bool :=
  let e := list_item_pe_or_zero s t x in
  if pes_has e dups then false else fse s (list_elem t) x.
Definition item_paths (s : schema) (t : listT) (dups : pes) (x : value) : list path :=
  let e := list_item_pe_or_zero s t x in
  if pes_has e dups then [] else map (cons e) (fsp s (list_elem t) x ++ [[]]).

Lemma item_err_some : forall s t dups x e, list_item_to_pe s t x = Some e ->
  item_err s t dups x = if pes_has e dups then false else fse s (list_elem t) x.
Proof. intros s t dups x e H. unfold item_err. rewrite (list_item_pe_or_zero_some s t x e H). reflexivity. Qed.
Lemma item_paths_some : forall s t dups x e, list_item_to_pe s t x = Some e ->
  item_paths s t dups x = if pes_has e dups then [] else map (cons e) (fsp s (list_elem t) x ++ [[]]).
Proof. intros s t dups x e H. unfold item_paths. rewrite (list_item_pe_or_zero_some s t x e H). reflexivity. Qed.
Definition own0 (t : mapT) (k : string) (child : value) : list path :=
  match child with
  | VNull => [[]]
  | VMap [] => [[]]
  | _ => if has_field t k then [] else [[]]
  end.
Definition entry_err (s : schema) (t : mapT) (kv : string * value) : bool :=
  fse s (field_type t (fst kv)) (snd kv).
Definition entry_paths (s : schema) (t : mapT) (kv : string * value) : list path :=
  map (cons (PEField (fst kv)))
      (fsp s (field_type t (fst kv)) (snd kv) ++ own0 t (fst kv) (snd kv)).

Lemma map_app_nil : forall (l : list path), map (app []) l = l.
Proof. induction l as [|q l IH]; simpl; [reflexivity|f_equal; exact IH]. Qed.

Lemma pass1_prefix : forall s t pre l seen dups acc err,
  fs_pass1 s t pre l seen dups (map (app pre) acc) err =
  let '(d, a, e) := fs_pass1 s t [] l seen dups acc err in (d, map (app pre) a, e).
Proof.
  intros s t pre l. induction l as [|x l IH]; intros seen dups acc err.
  - reflexivity.
  - cbn [fs_pass1]. cbv zeta. set (e := list_item_pe_or_zero s t x).
    destruct (pes_has e seen).
    + destruct (pes_has e dups).
      * apply IH.
      * rewrite <- IH. rewrite map_app. reflexivity.
    + apply IH.
Qed.

Lemma fs_own_eq : forall t pre k child,
  fs_own t (pre ++ [PEField k]) k child = map (app pre) (map (cons (PEField k)) (own0 t k child)).
Proof.
  intros t pre k child. unfold fs_own, own0.
  destruct child as [| | | | | |[|kv m]]; try reflexivity; destruct (has_field t k); reflexivity.
Qed.

Lemma pass2_shape : forall s t pre dups l, Forall (prefix_ok s) l ->
  fs_pass2 s t pre dups l =
  (existsb (item_err s t dups) l, map (app pre) (flat_map (item_paths s t dups) l)).
Proof.
  intros s t pre dups l H. induction H as [|x l Hx Hl IH].
  - reflexivity.
  - cbn [fs_pass2 existsb flat_map]. rewrite IH.
    unfold item_err, item_paths. cbv zeta. set (e := list_item_pe_or_zero s t x).
    destruct (pes_has e dups); [reflexivity|].
    rewrite (Hx (list_elem t) (pre ++ [e])). f_equal.
    rewrite !map_app, !map_map. simpl. rewrite <- !app_assoc. simpl.
    f_equal. apply map_ext. intros q. rewrite <- app_assoc. reflexivity.
Qed.

Lemma map_go_shape : forall s t pre m, Forall (fun kv => prefix_ok s (snd kv)) m ->
  fs_map_go s t pre m =
  (existsb (entry_err s t) m, map (app pre) (flat_map (entry_paths s t) m)).
Proof.
  intros s t pre m H. induction H as [|[k child] m Hx Hm IH].
  - reflexivity.
  - simpl in Hx. cbn [fs_map_go existsb flat_map]. rewrite IH.
    rewrite (Hx (field_type t k) (pre ++ [PEField k])), fs_own_eq.
    change (entry_err s t (k, child)) with (fse s (field_type t k) child).
    change (entry_paths s t (k, child)) with
      (map (cons (PEField k)) (fsp s (field_type t k) child ++ own0 t k child)).
    f_equal.
    rewrite !map_app, !map_map. rewrite <- !app_assoc. f_equal.
    apply map_ext. intros q. rewrite <- app_assoc. reflexivity.
Qed.

Lemma fs_paths_prefix : forall s v, prefix_ok s v.
Proof.
  intros s v. induction v as [|b|z|q|str|l IHl|m IHm] using value_ind'; intros tr pre;
    unfold fse, fsp; rewrite (fs_paths_eq s tr pre), (fs_paths_eq s tr []);
    (destruct (resolve s tr) as [a|]; [|reflexivity]);
    (destruct (handle_atom (deduce_atom a _)) as [t|t|t|]; [| | |reflexivity]);
    try (simpl; rewrite app_nil_r; reflexivity);
    try (destruct (rel_is_atomic _); simpl; [rewrite app_nil_r|]; reflexivity).
  - destruct (rel_is_atomic (list_rel t)); [simpl; rewrite app_nil_r; reflexivity|].
    assert (H1 : fs_pass1 s t pre l [] [] [] false =
                 let '(d, a, e) := fs_pass1 s t [] l [] [] [] false in (d, map (app pre) a, e))
      by apply (pass1_prefix s t pre l [] [] [] false).
    rewrite H1.
    destruct (fs_pass1 s t [] l [] [] [] false) as [[d a1] e1].
    rewrite !pass2_shape by exact IHl. simpl. rewrite map_app_nil, map_app. reflexivity.
  - destruct (rel_is_atomic (map_rel t)); [simpl; rewrite app_nil_r; reflexivity|].
    rewrite !map_go_shape by exact IHm. simpl. rewrite map_app_nil. reflexivity.
Qed.

Lemma fs_paths_nil_eq : forall s tr v,
  fs_paths s tr [] v =
  match resolve s tr with
  | None => (true, [])
  | Some a =>
      match handle_atom (deduce_atom a (Some v)) with
      | HInvalid => (true, [])
      | HScalar _ => (false, [[]])
      | HList t =>
          if rel_is_atomic (list_rel t) then (false, [[]])
          else
            match v with
            | VList l =>
                let '(dups, acc1, err1) := fs_pass1 s t [] l [] [] [] false in
                (err1 || existsb (item_err s t dups) l, acc1 ++ flat_map (item_paths s t dups) l)
            | _ => (false, [])
            end
      | HMap t =>
          if rel_is_atomic (map_rel t) then (false, [[]])
          else
            match v with
            | VMap m => (existsb (entry_err s t) m, flat_map (entry_paths s t) m)
            | _ => (false, [])
            end
      end
  end.
Proof.
  intros s tr v. rewrite fs_paths_eq.
  destruct (resolve s tr) as [a|]; [|reflexivity].
  destruct (handle_atom (deduce_atom a (Some v))) as [t|t|t|]; try reflexivity.
  - destruct (rel_is_atomic (map_rel t)); [reflexivity|].
    destruct v; try reflexivity.
    rewrite map_go_shape, map_app_nil; [reflexivity|].
    apply Forall_forall. intros kv _. apply fs_paths_prefix.
  - destruct (rel_is_atomic (list_rel t)); [reflexivity|].
    destruct v; try reflexivity.
    destruct (fs_pass1 s t [] l [] [] [] false) as [[d a1] e1].
    rewrite pass2_shape, map_app_nil; [reflexivity|].
    apply Forall_forall. intros x _. apply fs_paths_prefix.
Qed.

Lemma to_field_set_eq : forall s tr v,
  to_field_set s tr v = if fse s tr v then None else Some (ps_of_paths (fsp s tr v)).
Proof.
  intros s tr v. unfold to_field_set, fse, fsp. destruct (fs_paths s tr [] v); reflexivity.
Qed.
