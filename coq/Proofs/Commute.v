(* C02, last clause: "two managers applying configurations with disjoint field sets reach the
   same object and ownership in either order".  Statements: Proofs/Commute_statements.v.
   Setting of Proofs/History.v (single API version, identity converter, nothing ignored).
   "Same object" is equality up to the order of the members of sets and keyed lists
   ([veq_assoc]); "same ownership" is [Reapply.same_records].

   LEVEL 1  [fresh_disjoint_applies_commute]            PROVED, VERBATIM.
     Two managers without a record (no pruning): both orders of their forced applies end in
     the same object and the same records.  Definitions ([hollow_free], [prefix_disjoint],
     [both]), Section structure and statement as in the statements file.  Of the two side
     conditions of the statement, [prefix_disjoint] is used throughout; [hollow_free live] is
     used only for the records (the reference diff reads a null or an empty container against a
     granular container as "no content", so the exact description of what a step reports,
     [CommuteMod.touched_exact], is stated for values that are neither): NOT SHOWN NECESSARY at
     level 1.  [dup_free live] is used (one of the two objects compared by [veq_assoc] must
     have no group of duplicate members).  The first apply cannot make the second fail: the
     state after it satisfies the invariant [History.apply_step] and a forced apply of an
     admissible configuration always succeeds there [ConflictsApply.forced_apply_succeeds].

   GENERALISATION  [keeping_disjoint_applies_commute]   PROVED (not in the statements file).
     The same conclusion for two managers that may already own fields, provided every member
     of a manager's record is a node of its new configuration ([keeps_all]: it abandons
     nothing).  The prune stage of such an apply returns the merged object [fresh_apply].
     Level 1 is the instance "no record".

   LEVEL 2  [disjoint_applies_commute]                  FALSE AS STATED; NO REPAIRED FORM PROVED.
     Three refutations, each by evaluation on ex_config at a state reached by a history
     (every hypothesis of the statement holds, by the theorems of Proofs/History.v):
       [disjoint_applies_commute_as_stated_refuted]
          a owns a list member and its key, d (by an update) a field in it; both abandon.
          a first: the member goes with d's field in it and "items: null" stays behind;
          d first: the member is down to its key when a abandons it, and the list goes.
          (Known finding F17 arising at the state BETWEEN the two applies: [hollow_free live]
          does not exclude it.)
       [disjoint_applies_commute_hollow_free_steps_refuted]
          adding "the object after the first apply is hollow-free, in either order" does not
          repair it: a third manager's member keeps the list non-empty after the first apply.
       [disjoint_applies_commute_needs_records_disjoint]
          independent of hollowness: the configuration of one manager may name a field of the
          PREVIOUS record of the other (a abandons the member y, the new manager e applies y).
          The orders end in different members y (with / without the field of a third
          manager) and different records, all four objects being hollow-free.
     Open question (NOT PROVED; no counterexample among the 3336 applicable combinations of
     7 states x 7 pairs of managers x 12 x 12 configurations over ex_config that were
     evaluated): the statement holds when, in addition, (i) the previous record of each of the
     two managers is prefix-disjoint from the field set of the other's configuration and
     (ii) the two final objects are hollow-free; under (i) alone the RECORDS agreed in every
     evaluated case and the objects differed by null / empty leftovers only.
     What is missing for a proof: an exact description, on leaves, of what the prune stage of
     an apply removes (Proofs/ApplyPrune.v, PruneShape.v, OrderIndepN.v give the object as
     remove merged T2 and the kept set as a least fixed point over the other managers'
     records) in the form of the step relation [CommuteLeaves.mstep] used here, and the
     invariance of that removal set under the other manager's step.

   The two side conditions of the statements file:
     "disjoint" must exclude a path of one field set being a prefix of a path of the other
       [fresh_commute_needs_prefix_disjoint]: over the schemaless "deduced" type, a applies
       f: 5 and b applies f: {y: 1}; no common member, and the last apply wins;
     hollow-freeness: see level 2 (it has to hold BETWEEN and AFTER the applies, not only before).

   Non-vacuity: [commute_example] (level 1, at the final state of the history of
   Proofs/History.v: two new managers; the two orders give different lists, equal up to member
   order; objects and records also shown by evaluation), [keeping_example] (two managers with
   records).

   Proof of level 1.  An apply by a manager that abandons nothing is "merge + records"
   [fresh_apply, fresh_step].  Helper files:
     Proofs/CommuteLeaves.v  leaf calculus: [mstep l r o] -- o is l with the configuration r
                             merged in, stated on LEAVES (the right-hand side wins
                             [MergeAgree], every leaf comes from an operand [MergeAgree], what
                             r leaves open is kept [MergeThru]), stable under value equality
                             (the apply may answer "no change" and keep the live object,
                             which is [veqb] to the merged one); [commute_lin]: two such steps
                             with configurations whose leaves do not meet give the same leaves
                             in both orders; [same_leaves_nodup_veq_assoc]: same leaves and no
                             duplicate group give [veq_assoc] (Proofs/SameLeaves.v asks for
                             conformance without duplicates, atomic values included; a
                             duplicate-free live object need not have that);
     Proofs/CommuteMod.v     the reference diff reports a path that designates single nodes of
                             different kinds as modified (extension of CompareRestMod.v), hence
                             [touched_exact]: at a node of the left object nothing is reported
                             iff the right object has "the same node" there;
     Proofs/CommuteSame.v    "the same node" across steps: [crit_of_same], [same_of_crit] (what
                             the configuration says at the path), [others_same] (a node that one
                             order leaves alone, the other leaves alone), [cfg_node_same].
   Records: by [RecordsHistory.apply_records_exact] every other manager loses what the
   reference diff reports; [pair_others], [pair_applier] show that the two orders report the
   same paths of every record. *)
From Coq Require Import List ZArith String Bool Arith Lia.
From SMD Require Import Model.Value Model.Order Model.PathElem Model.PathSet Model.Schema Model.Walk
  Model.Validate Model.FieldSet Model.Remove Model.Merge Model.Compare Model.Matcher Model.Reconcile
  Model.Updater
  Spec.PathsAsSets Spec.RefValid Spec.Resolve Spec.Agree Spec.RefDiff Spec.Examples
  Proofs.OrderLaws Proofs.PathSetLaws Proofs.SchemaOk Proofs.FieldSetBase Proofs.FieldSetPaths
  Proofs.FieldSetWf Proofs.FieldSetLaws Proofs.RemoveAbsent Proofs.RemoveWf Proofs.ResolveLaws
  Proofs.UpdaterLaws Proofs.UpdaterLaws2 Proofs.MergeLaws Proofs.MergeAgree
  Proofs.RemoveFrame Proofs.EnLaws Proofs.NodeSet Proofs.KeyFields Proofs.VeqbResolve
  Proofs.SetCheckers Proofs.ApplyEffect Proofs.RefDiffBoth Proofs.RefDiffLaws Proofs.RefDiffPresent
  Proofs.ApplyInv Proofs.History Proofs.Reapply.
From SMD Require Import Proofs.CompareLaws Proofs.ReconcileTotal Proofs.ConflictsApply Proofs.ApplyPruneBase Proofs.RecordsHistory Proofs.TreeFacts
  Proofs.FieldSetShape Proofs.SameLeaves Proofs.CommuteLeaves Proofs.CommuteMod Proofs.CommuteSame.
From SMD Require Proofs.MergeRest Proofs.MergeBase Proofs.ReconcileBase Proofs.MergeRestBase Proofs.RefDiffBase Proofs.RefDiffChar Proofs.ExtractBase.
Import ListNotations.
Open Scope bool_scope.
Open Scope list_scope.

Local Arguments ps_has : simpl never.
Local Arguments ps_empty : simpl never.

Definition hollow_free (v : value) : Prop := v = VNull \/ plain v = true.

(* ================= auxiliary facts ================= *)
Section Aux.
  Variables (s : schema) (R : typeref -> Prop).
  Hypothesis Hok : schema_ok s R.
  Hypothesis Hfam : family_refs s R.

  Notation rs := (resolve_path s).

  (* a duplicate-free object has no group of duplicate members at any path *)
  Lemma nodup_of_dup_free : forall p f tr v, R tr -> good s tr v ->
    dup_free_fuel f s tr v = true -> forall t xs, wf_path p = true -> rs tr v p <> Some (RDup t xs).
  Proof.
    induction p as [|e rest IH]; intros f tr v Htr [Wv Cv] Hd t xs Hp Hr; [discriminate Hr|].
    apply wf_path_cons in Hp. destruct Hp as [He Hrest].
    destruct f as [|f]; [discriminate Hd|]. cbn [dup_free_fuel] in Hd.
    destruct (kind_of s tr v) as [|t0 m|t0 l|] eqn:Ek.
    - rewrite resolve_path_leaf in Hr by (rewrite Ek; exact I). discriminate.
    - destruct e as [k|k|k|k]; try (rewrite (resolve_path_map_other _ _ _ _ _ _ _ Ek) in Hr by exact I; discriminate).
      rewrite (resolve_path_map _ _ _ _ _ k rest Ek) in Hr.
      destruct (assoc_get k m) as [ch|] eqn:Eg; [|discriminate].
      pose proof (assoc_get_In _ _ _ Eg) as Hin.
      destruct (map_child_ok s R Hok tr true t0 v m k ch Htr Wv Cv Ek Hin) as (Rc & Wc & Cc & _ & _).
      rewrite forallb_forall in Hd. pose proof (Hd (k, ch) Hin) as Hdc. cbn [fst snd] in Hdc.
      exact (IH f (field_type t0 k) ch Rc (conj Wc Cc) Hdc t xs Hrest Hr).
    - destruct (list_ok s R Hok Hfam tr true t0 v l Htr Wv Cv Ek) as (_ & Rte & Hhp & Hiw & Hm & _).
      destruct (group_items s t0 l []) as [g|] eqn:Eg; [|discriminate].
      apply andb_true_iff in Hd. destruct Hd as [Hg Hall].
      destruct (group_items_some s t0 l g Hiw Eg) as (_ & _ & Hlk).
      rewrite (resolve_path_list_occ s R Hok tr v t0 l e rest Htr Wv Ek He), Hhp in Hr. cbn [andb] in Hr.
      destruct (is_keyval e); [|discriminate].
      destruct (occ s t0 e l) as [|x [|y more]] eqn:Eo; [discriminate| |].
      + assert (Hx : In x l).
        { assert (In x (occ s t0 e l)) as H0 by (rewrite Eo; left; reflexivity). apply occ_In in H0. tauto. }
        destruct (Hm x Hx) as (Wx & Cx & _).
        rewrite forallb_forall in Hall.
        exact (IH f (list_elem t0) x Rte (conj Wx Cx) (Hall x Hx) t xs Hrest Hr).
      + pose proof (Hlk e He) as Hl. rewrite Eo in Hl.
        destruct (RefDiffBase.lookup_group_In e g _ Hl) as (ex & Hex & _ & Hsnd).
        rewrite forallb_forall in Hg. pose proof (Hg ex Hex) as Hone. rewrite Hsnd in Hone. discriminate.
    - exfalso. exact (conforms_kind_not_bad s tr true v Cv Ek).
  Qed.

  (* a leaf of a configuration is a member of its field set *)
  Lemma leaf_member : forall tr r fs q n, R tr -> cfg_ok s tr r -> to_field_set s tr r = Some fs ->
    wf_path q = true -> q <> [] -> rs tr r q = Some n -> rnode_is_leaf s n = true -> ps_has q fs = true.
  Proof.
    intros tr r fs q n Htr Cr Hfs Hq Hne Hr Hl.
    pose proof (cfg_good s tr r Cr) as [Wr Cr1]. destruct Cr as (_ & Cr0 & Pr).
    rewrite to_field_set_eq, (fse_ok s R Hok Hfam r tr Htr Wr Cr1) in Hfs. inversion Hfs; subst fs.
    rewrite (fs_has s R Hok tr r q Htr Wr Hq Hne).
    destruct n as [t x|t xs].
    - apply (fsp_leaf_mem s R Hok Hfam q r tr t x Htr Wr Cr1 Hq Hne Hr).
      + cbn [rnode_is_leaf] in Hl. unfold leafy. destruct (kind_of s t x); try discriminate; exact I.
      + pose proof (plain_sub s R Hok q r tr t x Htr Wr Hq Pr Hr) as Px. intros ->. discriminate Px.
    - exfalso. exact (MergeRestBase.no_rdup s R Hok Hfam q tr r t xs Htr Wr Cr0 Hq Hr).
  Qed.

  (* the root of a granular configuration is not a leaf *)
  Lemma root_not_leaf : forall tr r n, granular s tr r -> rs tr r [] = Some n -> rnode_is_leaf s n = true -> False.
  Proof.
    intros tr r n Hg Hr Hl. cbn [resolve_path] in Hr. inversion Hr; subst n. cbn [rnode_is_leaf] in Hl.
    unfold granular in Hg. destruct (kind_of s tr r); try discriminate; contradiction.
  Qed.
End Aux.

(* a set that is not empty has a member *)
Lemma nonempty_has : forall S, ps_ok S = true -> ps_empty S = false ->
  exists p, wf_path p = true /\ p <> [] /\ ps_has p S = true.
Proof.
  intros S Hok Hne.
  destruct (ps_elems S) as [|p0 rest] eqn:Ee.
  - apply ps_empty_elems in Ee. congruence.
  - pose proof (ps_elems_wf S Hok) as Hwf. rewrite Ee in Hwf. cbn [forallb] in Hwf.
    apply andb_true_iff in Hwf. destruct Hwf as [Hp0 _].
    assert (Hh : ps_has p0 S = true).
    { rewrite (ps_has_elems S p0 Hok Hp0), Ee. unfold pmem. cbn [existsb]. rewrite (patheqb_refl p0 Hp0). reflexivity. }
    exists p0. split; [exact Hp0|]. split; [|exact Hh]. intros ->. rewrite ps_has_nil in Hh. discriminate.
Qed.

(* a record as a predicate on paths *)
Definition recf (mf : managed) (m : string) (p : path) : bool :=
  match mf_get m mf with Some r => ps_has p (mr_set r) | None => false end.

Lemma same_records_intro : forall mf1 mf2,
  (forall m r, mf_get m mf1 = Some r -> ps_ok (mr_set r) = true /\ ps_empty (mr_set r) = false) ->
  (forall m r, mf_get m mf2 = Some r -> ps_ok (mr_set r) = true /\ ps_empty (mr_set r) = false) ->
  (forall m r1 r2, mf_get m mf1 = Some r1 -> mf_get m mf2 = Some r2 ->
     mr_ver r1 = mr_ver r2 /\ mr_applied r1 = mr_applied r2) ->
  (forall m p, wf_path p = true -> p <> [] -> recf mf1 m p = recf mf2 m p) ->
  same_records mf1 mf2.
Proof.
  intros mf1 mf2 H1 H2 Hfl Hpt m. pose proof (Hpt m) as Hm. unfold recf in Hm.
  destruct (mf_get m mf1) as [r1|] eqn:E1; destruct (mf_get m mf2) as [r2|] eqn:E2.
  - destruct (Hfl m r1 r2 E1 E2) as [Hv Ha]. split; [exact Hv|]. split; [exact Ha|].
    destruct (H1 m r1 E1) as [O1 _]. destruct (H2 m r2 E2) as [O2 _].
    apply ps_equals_ext; auto. intros p Hp. destruct p as [|e p']; [rewrite !ps_has_nil; reflexivity|].
    apply Hm; [exact Hp|discriminate].
  - destruct (H1 m r1 E1) as [O1 N1]. destruct (nonempty_has _ O1 N1) as (p & Hp & Hne & Hh).
    rewrite (Hm p Hp Hne) in Hh. discriminate.
  - destruct (H2 m r2 E2) as [O2 N2]. destruct (nonempty_has _ O2 N2) as (p & Hp & Hne & Hh).
    rewrite <- (Hm p Hp Hne) in Hh. discriminate.
  - exact I.
Qed.

Definition dummy_path : path := [PEField EmptyString].
Lemma dummy_wf : wf_path dummy_path = true. Proof. reflexivity. Qed.
Lemma dummy_ne : dummy_path <> []. Proof. discriminate. Qed.

Section Commute.
  Variables (c : config) (R : typeref -> Prop) (ver : string).
  Let s := schema_of c ver.
  Let tr := tr_of c ver.

  (* no path of A is a prefix of (or equal to) a path of B, nor the other way round *)
  Definition prefix_disjoint (A B : pset) : Prop :=
    forall p q, wf_path p = true -> wf_path q = true -> ps_has p A = true -> ps_has q B = true ->
                is_prefix p q = false /\ is_prefix q p = false.

  Definition both (st : value * managed) (x y : hop) : value * managed :=
    hstep c ver (hstep c ver st x) y.

  (* ================= one forced apply by a manager that abandons nothing ================= *)

  (* every member of the manager's record (if it has one) is a node of the configuration *)
  Definition keeps_all (cfg : value) (mf : managed) (mgr : string) : Prop :=
    forall last p, mf_get mgr mf = Some last -> wf_path p = true -> ps_has p (mr_set last) = true ->
                   present s tr cfg p = true.

  Lemma keeps_all_fresh : forall cfg mf mgr, mf_get mgr mf = None -> keeps_all cfg mf mgr.
  Proof. intros cfg mf mgr H last p Hg. congruence. Qed.

  (* the prune stage is the identity: the apply answers the merged object (or "no change") *)
  Lemma fresh_apply : forall live mf mgr cfg,
    setting_ok c R ver -> state_ok c ver live mf -> op_ok c ver (HApply mgr cfg true) ->
    keeps_all cfg mf mgr ->
    exists M o mf', merge s tr live cfg = Some (Some M) /\
      apply_op c (ver, live) (ver, cfg) ver mf mgr true = UOk (o, mf') /\
      ((o = None /\ veqb live M = true) \/ o = Some (ver, M)).
  Proof.
    intros live mf mgr cfg Hset Hst Hop Hkeep.
    destruct (ConflictsApply.forced_apply_succeeds c R ver live mf mgr cfg Hset Hst Hop) as (o & mf' & Happly).
    pose proof (state_ok_conforms c ver live mf _ Hst Hop) as Hcl. fold s tr in Hcl.
    pose proof Hset as (Hni & Hcid & Hok & Hfam & Hpure & Htr & Hkp).
    fold s tr in Hok, Hfam, Hpure, Htr, Hkp.
    pose proof Hkp as [Hnd Hks].
    pose proof Hop as (Hwc & Hcc & Hpl & Hgr). fold s tr in Hcc, Hgr.
    pose proof (so_wf c ver live mf Hst) as Hwl. pose proof (so_mf c ver live mf Hst) as Hmf.
    pose proof (so_single c ver live mf Hst) as Hsv. pose proof (so_current c ver live mf Hst) as Hcur.
    destruct (apply_full c ver live cfg mf mgr true o mf' Hni Hcid Hsv Hmf Hcur Happly)
      as (M & set0 & n0 & pruned & n1 & cmp & n2 & Em & Eset0 & Epr & Eupd & Ho).
    fold s tr in Em, Eset0.
    destruct (merge_facts s R Hok Hfam tr live cfg M Htr Hwl Hwc Hcl Hcc Hpl Em) as (HwM & HcM & Hagr & Hlf).
    pose proof (to_field_set_ok s R tr cfg set0 Hok Htr Hwc Eset0) as Hset0ok.
    set (rec0 := mkRec set0 ver true) in *.
    set (mfp := mf_set mgr rec0 mf) in *.
    assert (Hothers : forall m r, m <> mgr -> mf_get m mf = Some r -> owns_live_keys s tr live (mr_set r)).
    { intros m r _ Hg. apply (so_records c ver live mf Hst m r Hg). }
    pose proof (managers_sets s tr ver live mf mgr set0 Hsv Hmf Hset0ok Hothers) as HM.
    cbv zeta in HM. fold rec0 in HM. fold mfp in HM.
    destruct HM as (HU & HUcfg & HUown & Hmav & Htarget & _).
    set (U := union_all mfp ps_empty_set) in *.
    assert (Hlast : forall last, mf_get mgr mf = Some last ->
              mr_ver last = ver /\ ps_ok (mr_set last) = true /\ applier_record_ok s tr (mr_set last)).
    { intros last Hg. split; [|split].
      - apply String.eqb_eq. apply (single_version_get ver mf mgr last Hsv Hg).
      - apply (mf_ok_get mf mgr last Hmf Hg).
      - apply (so_records c ver live mf Hst mgr last Hg). }
    assert (Epx : pruned = (ver, M)).
    { destruct (prune_cases s R tr Hok Hfam Htr Hnd Hks live cfg M Hwc Hcc Hpl Hgr HwM HcM Hagr Hlf
                  set0 U Eset0 HU HUcfg HUown c ver Hcid eq_refl eq_refl
                  n0 mfp mgr (mf_get mgr mf) pruned n1 Hmav Htarget Hlast Epr)
        as [E|(last & D & Hl & HnD & HspD & HavD & Hin & ->)]; [exact E|].
      f_equal.
      apply (memberless_remove s R Hok Hfam tr M D Htr HwM HcM).
      - apply (merged_granular s R tr Hok Hfam Htr cfg M Hwc Hcc Hpl Hgr Hagr set0 Eset0).
      - apply (n_ok _ _ _ _ HnD).
      - intros q Hq. destruct (ps_has q D) eqn:Eh; [|reflexivity]. exfalso.
        destruct (Hlast last Hl) as (_ & Hlok & _).
        destruct (en_has_prefix s tr (mr_set last) q Hlok Hq (Hin q Hq Eh)) as (r & Hr & Hm).
        assert (Hqr : wf_path (q ++ r) = true) by (apply ReconcileBase.wf_path_app; auto).
        pose proof (Hkeep last (q ++ r) Hl Hqr Hm) as Hpr. apply present_prefix in Hpr.
        apply present_resolve in Hpr. destruct Hpr as (n & Hn).
        pose proof (HavD q n Hq (has_nonnil _ _ Eh) Hn) as Hto.
        rewrite (touches_self q D (n_ok _ _ _ _ HnD) Hq Eh) in Hto. discriminate. }
    subst pruned. cbn [snd] in Ho.
    exists M, o, mf'. split; [exact Em|]. split; [exact Happly|].
    destruct Ho as [(-> & _ & Hv)| ->]; [left; split; [reflexivity|exact Hv]|right; reflexivity].
  Qed.

  (* what the step does, on leaves and on records *)
  Lemma fresh_step : forall live mf mgr cfg fs,
    setting_ok c R ver -> state_ok c ver live mf -> op_ok c ver (HApply mgr cfg true) ->
    keeps_all cfg mf mgr -> to_field_set s tr cfg = Some fs ->
    exists o mf',
      hstep c ver (live, mf) (HApply mgr cfg true) = (o, mf') /\
      state_ok c ver o mf' /\ mstep s tr live cfg o /\
      (forall p, wf_path p = true -> p <> [] -> recf mf' mgr p = ps_has p fs) /\
      (forall r', mf_get mgr mf' = Some r' -> mr_applied r' = true /\ mr_ver r' = ver) /\
      (forall m p, m <> mgr -> wf_path p = true -> p <> [] ->
         recf mf' m p = recf mf m p && negb (touched (ref_diff s tr live o) p)) /\
      (forall m r', m <> mgr -> mf_get m mf' = Some r' ->
         exists r, mf_get m mf = Some r /\ mr_applied r' = mr_applied r /\ mr_ver r' = mr_ver r).
  Proof.
    intros live mf mgr cfg fs Hset Hst Hop Hfresh Hfs.
    destruct (fresh_apply live mf mgr cfg Hset Hst Hop Hfresh) as (M & o & mf' & Em & Happly & Ho).
    pose proof (state_ok_conforms c ver live mf _ Hst Hop) as Hcl. fold s tr in Hcl.
    pose proof Hset as (Hni & Hcid & Hok & Hfam & Hpure & Htr & Hkp).
    fold s tr in Hok, Hfam, Hpure, Htr, Hkp.
    pose proof Hop as (Hwc & Hcc & Hpl & Hgr). fold s tr in Hcc, Hgr.
    pose proof (so_wf c ver live mf Hst) as Hwl.
    assert (Gl : good s tr live) by (split; assumption).
    assert (Cc : cfg_ok s tr cfg) by (repeat split; assumption).
    pose proof (apply_step c R ver live mf mgr cfg true o mf' Hset Hst Hop Happly) as Hst'.
    pose proof (apply_records_exact c R ver live mf mgr cfg true o mf' fs Hset Hst Hop Happly Hfs) as Hrec.
    cbv zeta in Hrec. fold s tr in Hrec.
    set (res := match o with Some t => snd t | None => live end) in *.
    exists res, mf'.
    assert (Hres : mstep s tr live cfg res).
    { pose proof (mstep_merge s R Hok Hfam Hpure tr live cfg M Htr Gl Cc Em) as HM.
      destruct Ho as [[-> Hv]| ->]; unfold res; cbn [snd]; [|exact HM].
      apply (mstep_veqb s R Hok Hfam tr live cfg M live Htr Gl Cc Gl Hv HM). }
    split.
    { cbn [hstep fst snd]. rewrite Happly. unfold res. destruct o as [t|]; reflexivity. }
    split; [exact Hst'|]. split; [exact Hres|].
    destruct Hrec as [Hmine Hoth].
    split; [|split; [|split]].
    - intros p Hp Hne. unfold recf. destruct (mf_get mgr mf') as [r'|].
      + destruct Hmine as (_ & _ & H). apply H; assumption.
      + symmetry. apply FieldSetBase.ps_empty_has. exact Hmine.
    - intros r' Hg. rewrite Hg in Hmine. tauto.
    - intros m p Hm Hp Hne. pose proof (Hoth m Hm p Hp Hne) as H. unfold recf, touched.
      destruct (mf_get m mf) as [r|]; [|rewrite H; reflexivity].
      destruct (mf_get m mf') as [r'|]; [destruct H as (_ & _ & H); exact H|symmetry; exact H].
    - intros m r' Hm Hg. pose proof (Hoth m Hm dummy_path dummy_wf dummy_ne) as H.
      destruct (mf_get m mf) as [r|]; [|congruence].
      rewrite Hg in H. exists r. tauto.
  Qed.

  (* ================= the semantic side conditions ================= *)
  Lemma touched_same : forall a b p t x, setting_ok c R ver ->
    good s tr a -> good s tr b -> nodup s tr b -> solid s tr a -> solid s tr b ->
    wf_path p = true -> p <> [] -> resolve_path s tr a p = Some (RNode t x) ->
    (touched (ref_diff s tr a b) p = false <-> same_at s tr a b p).
  Proof.
    intros a b p t x (Hni & Hcid & Hok & Hfam & Hpure & Htr & Hkp) [Wa Ca] [Wb Cb] Nb Sa Sb Hp Hne Ea.
    fold s tr in Hok, Hfam, Hpure, Htr.
    apply (touched_exact s R Hok Hfam Hpure tr a b p t x Htr Wa Wb Ca Cb Nb Hp Hne Ea).
    - apply (Sa p t x Hp Hne Ea).
    - intros t' y Eb. apply (Sb p t' y Hp Hne Eb).
  Qed.

  (* disjoint field sets: the leaves of the one configuration are out of the other's way *)
  Lemma sep_of_disjoint : forall cfgA cfgB fsA fsB, setting_ok c R ver ->
    op_ok c ver (HApply EmptyString cfgA true) -> op_ok c ver (HApply EmptyString cfgB true) ->
    to_field_set s tr cfgA = Some fsA -> to_field_set s tr cfgB = Some fsB ->
    prefix_disjoint fsA fsB -> sep s tr cfgA cfgB.
  Proof.
    intros cfgA cfgB fsA fsB (Hni & Hcid & Hok & Hfam & Hpure & Htr & Hkp) (WA & CA & PA & GA) (WB & CB & PB & GB)
      HfA HfB Hd q m Hq Hm Lm.
    fold s tr in Hok, Hfam, Hpure, Htr, CA, CB, GA, GB.
    assert (CfA : cfg_ok s tr cfgA) by (repeat split; assumption).
    assert (CfB : cfg_ok s tr cfgB) by (repeat split; assumption).
    assert (Hqne : q <> []).
    { intros ->. exact (root_not_leaf s tr cfgB m GB Hm Lm). }
    pose proof (leaf_member s R Hok Hfam tr cfgB fsB q m Htr CfB HfB Hq Hqne Hm Lm) as HqB.
    split.
    - intros j n Hj Ej Ln.
      assert (Hpj : wf_path (firstn j q) = true) by (apply ReconcileBase.wf_path_firstn; exact Hq).
      assert (Hjne : firstn j q <> []).
      { intros E. rewrite E in Ej. exact (root_not_leaf s tr cfgA n GA Ej Ln). }
      pose proof (leaf_member s R Hok Hfam tr cfgA fsA (firstn j q) n Htr CfA HfA Hpj Hjne Ej Ln) as HA.
      destruct (Hd (firstn j q) q Hpj Hq HA HqB) as [H1 _].
      rewrite (is_prefix_firstn j q Hq) in H1. discriminate.
    - intros q' n Hq' En Ln.
      assert (Hpq : wf_path (q ++ q') = true) by (apply ReconcileBase.wf_path_app; split; assumption).
      assert (Hne : q ++ q' <> []) by (intros E; apply app_eq_nil in E; destruct E; contradiction).
      pose proof (leaf_member s R Hok Hfam tr cfgA fsA (q ++ q') n Htr CfA HfA Hpq Hne En Ln) as HA.
      destruct (Hd (q ++ q') q Hpq Hq HA HqB) as [_ H2].
      rewrite (is_prefix_app q q' Hq) in H2. discriminate.
  Qed.

  Lemma prefix_disjoint_sym : forall A B, prefix_disjoint A B -> prefix_disjoint B A.
  Proof. intros A B H p q Hp Hq HpB HqA. destruct (H q p Hq Hp HqA HpB). split; assumption. Qed.

  (* a member of the field set of cfgA is a node of cfgA out of the reach of cfgB *)
  Lemma member_unreached : forall cfgA cfgB fsA fsB p, setting_ok c R ver ->
    op_ok c ver (HApply EmptyString cfgA true) -> op_ok c ver (HApply EmptyString cfgB true) ->
    to_field_set s tr cfgA = Some fsA -> to_field_set s tr cfgB = Some fsB ->
    prefix_disjoint fsA fsB -> wf_path p = true -> ps_has p fsA = true ->
    present s tr cfgA p = true /\ resolve_path s tr cfgB p = None /\
    (forall j n, j < List.length p -> resolve_path s tr cfgB (firstn j p) = Some n ->
                 rnode_is_leaf s n = true -> False).
  Proof.
    intros cfgA cfgB fsA fsB p (Hni & Hcid & Hok & Hfam & Hpure & Htr & Hkp) (WA & CA & PA & GA) (WB & CB & PB & GB)
      HfA HfB Hd Hp HpA.
    fold s tr in Hok, Hfam, Hpure, Htr, CA, CB, GA, GB.
    assert (CfA : cfg_ok s tr cfgA) by (repeat split; assumption).
    assert (CfB : cfg_ok s tr cfgB) by (repeat split; assumption).
    pose proof (cfg_good s tr cfgB CfB) as GrB.
    assert (Hpne : p <> []) by (intros ->; rewrite ps_has_nil in HpA; discriminate).
    split; [|split].
    - apply (field_set_paths_resolve s R tr cfgA fsA p Hok Htr Hfam WA (MergeBase.conforms_dup_mono s cfgA tr CA) HfA Hp HpA).
    - destruct (resolve_path s tr cfgB p) as [n|] eqn:En; [exfalso|reflexivity].
      destruct (node_leaf_beneath s R Hok Hfam tr cfgB p n Htr GrB Hp En) as (q & m & Hq & Hm & Lm).
      assert (Hpq : wf_path (p ++ q) = true) by (apply ReconcileBase.wf_path_app; split; assumption).
      assert (Hne : p ++ q <> []) by (intros E; apply app_eq_nil in E; destruct E; contradiction).
      pose proof (leaf_member s R Hok Hfam tr cfgB fsB (p ++ q) m Htr CfB HfB Hpq Hne Hm Lm) as HB.
      destruct (Hd p (p ++ q) Hp Hpq HpA HB) as [H1 _].
      rewrite (is_prefix_app p q Hp) in H1. discriminate.
    - intros j n Hj Ej Ln.
      assert (Hpj : wf_path (firstn j p) = true) by (apply ReconcileBase.wf_path_firstn; exact Hp).
      assert (Hjne : firstn j p <> []).
      { intros E. rewrite E in Ej. exact (root_not_leaf s tr cfgB n GB Ej Ln). }
      pose proof (leaf_member s R Hok Hfam tr cfgB fsB (firstn j p) n Htr CfB HfB Hpj Hjne Ej Ln) as HB.
      destruct (Hd p (firstn j p) Hp Hpj HpA HB) as [_ H2].
      rewrite (is_prefix_firstn j p Hp) in H2. discriminate.
  Qed.

  (* ================= two steps, both orders: the reports of the reference diff ================= *)
  Section Pair.
    Variables (l rA rB oA oAB oB oBA : value).
    Hypothesis Hset : setting_ok c R ver.
    Hypothesis Gl : good s tr l.
    Hypothesis Nl : nodup s tr l.
    Hypothesis Sl : solid s tr l.
    Hypothesis CA : cfg_ok s tr rA.
    Hypothesis CB : cfg_ok s tr rB.
    Hypothesis SAB : sep s tr rA rB.
    Hypothesis HA : mstep s tr l rA oA.
    Hypothesis HAB : mstep s tr oA rB oAB.
    Hypothesis HB : mstep s tr l rB oB.
    Hypothesis HBA : mstep s tr oB rA oBA.

    Lemma pair_others : forall p t x, wf_path p = true -> p <> [] ->
      resolve_path s tr l p = Some (RNode t x) ->
      touched (ref_diff s tr l oA) p = false -> touched (ref_diff s tr oA oAB) p = false ->
      touched (ref_diff s tr l oB) p = false /\ touched (ref_diff s tr oB oBA) p = false.
    Proof.
      intros p t x Hp Hne El T1 T2.
      pose proof Hset as (Hni & Hcid & Hok & Hfam & Hpure & Htr & Hkp). fold s tr in Hok, Hfam, Hpure, Htr.
      pose proof (ms_good _ _ _ _ _ HA) as GA. pose proof (ms_good _ _ _ _ _ HAB) as GAB.
      pose proof (ms_good _ _ _ _ _ HB) as GB. pose proof (ms_good _ _ _ _ _ HBA) as GBA.
      pose proof (mstep_nodup s R Hok Hfam tr l rA oA Htr Nl CA HA) as NA.
      pose proof (mstep_nodup s R Hok Hfam tr oA rB oAB Htr NA CB HAB) as NAB.
      pose proof (mstep_nodup s R Hok Hfam tr l rB oB Htr Nl CB HB) as NB.
      pose proof (mstep_nodup s R Hok Hfam tr oB rA oBA Htr NB CA HBA) as NBA.
      pose proof (solid_mstep s R Hok Hfam tr l rA oA Htr Gl Sl CA HA) as SA.
      pose proof (solid_mstep s R Hok Hfam tr oA rB oAB Htr GA SA CB HAB) as SAB'.
      pose proof (solid_mstep s R Hok Hfam tr l rB oB Htr Gl Sl CB HB) as SB.
      pose proof (solid_mstep s R Hok Hfam tr oB rA oBA Htr GB SB CA HBA) as SBA'.
      apply (touched_same l oA p t x Hset Gl GA NA Sl SA Hp Hne El) in T1.
      destruct (same_at_inv s R Hok Hfam tr l oA p Htr Gl GA Hp T1) as (t1 & x1 & y1 & E1 & EA & _).
      apply (touched_same oA oAB p t1 y1 Hset GA GAB NAB SA SAB' Hp Hne EA) in T2.
      destruct (others_same s R Hok Hfam tr l rA rB oA oAB oB oBA p t x Htr Gl Nl CA CB SAB HA HAB HB HBA Hp El T1 T2)
        as [T3 T4].
      split.
      - apply (touched_same l oB p t x Hset Gl GB NB Sl SB Hp Hne El). exact T3.
      - destruct (same_at_inv s R Hok Hfam tr oB oBA p Htr GB GBA Hp T4) as (t2 & x2 & y2 & EB & _).
        apply (touched_same oB oBA p t2 x2 Hset GB GBA NBA SB SBA' Hp Hne EB). exact T4.
    Qed.

    (* the second step leaves alone what the first applier now owns *)
    Lemma pair_applier : forall p, wf_path p = true -> p <> [] ->
      present s tr rA p = true -> resolve_path s tr rB p = None ->
      (forall j n, j < List.length p -> resolve_path s tr rB (firstn j p) = Some n ->
                   rnode_is_leaf s n = true -> False) ->
      touched (ref_diff s tr oA oAB) p = false.
    Proof.
      intros p Hp Hne Hpr Hnone Hfree.
      pose proof Hset as (Hni & Hcid & Hok & Hfam & Hpure & Htr & Hkp). fold s tr in Hok, Hfam, Hpure, Htr.
      pose proof (ms_good _ _ _ _ _ HA) as GA. pose proof (ms_good _ _ _ _ _ HAB) as GAB.
      pose proof (mstep_nodup s R Hok Hfam tr l rA oA Htr Nl CA HA) as NA.
      pose proof (mstep_nodup s R Hok Hfam tr oA rB oAB Htr NA CB HAB) as NAB.
      pose proof (solid_mstep s R Hok Hfam tr l rA oA Htr Gl Sl CA HA) as SA.
      pose proof (solid_mstep s R Hok Hfam tr oA rB oAB Htr GA SA CB HAB) as SAB'.
      pose proof (cfg_node_same s R Hok Hfam tr l rA rB oA oAB p Htr Gl Nl CA CB HA HAB Hp Hpr Hnone Hfree) as Hs.
      destruct (same_at_inv s R Hok Hfam tr oA oAB p Htr GA GAB Hp Hs) as (t1 & x1 & y1 & EA & _).
      apply (touched_same oA oAB p t1 x1 Hset GA GAB NAB SA SAB' Hp Hne EA). exact Hs.
    Qed.
  End Pair.

  (* ================= two managers that abandon nothing (no pruning) ================= *)
  (* Level 1 generalised: each of the two managers may already own fields, provided every
     member of its record is a node of its new configuration [keeps_all] -- it abandons
     nothing, so that the prune stage of its apply removes nothing. *)
  Theorem keeping_disjoint_applies_commute : forall live mf a b cfgA cfgB fsA fsB,
    setting_ok c R ver -> state_ok c ver live mf -> dup_free s tr live = true -> hollow_free live ->
    a <> b -> keeps_all cfgA mf a -> keeps_all cfgB mf b ->
    op_ok c ver (HApply a cfgA true) -> op_ok c ver (HApply b cfgB true) ->
    to_field_set s tr cfgA = Some fsA -> to_field_set s tr cfgB = Some fsB ->
    prefix_disjoint fsA fsB ->
    let sAB := both (live, mf) (HApply a cfgA true) (HApply b cfgB true) in
    let sBA := both (live, mf) (HApply b cfgB true) (HApply a cfgA true) in
    veq_assoc s tr (fst sAB) (fst sBA) = true /\ same_records (snd sAB) (snd sBA).
  Proof.
    intros live mf a b cfgA cfgB fsA fsB Hset Hst Hdf Hhf Hab Ha Hb HopA HopB HfA HfB Hd sAB sBA.
    pose proof Hset as (Hni & Hcid & Hok & Hfam & Hpure & Htr & Hkp). fold s tr in Hok, Hfam, Hpure, Htr.
    assert (Hba : b <> a) by (intros E; apply Hab; symmetry; exact E).
    pose proof (state_ok_conforms c ver live mf _ Hst HopA) as Hcl. fold s tr in Hcl.
    pose proof (so_wf c ver live mf Hst) as Hwl.
    assert (Gl : good s tr live) by (split; assumption).
    assert (Nl : nodup s tr live).
    { intros p t xs Hp. apply (nodup_of_dup_free s R Hok Hfam p (S (vdepth live)) tr live Htr Gl Hdf t xs Hp). }
    assert (Sl : solid s tr live) by (apply (solid_plain s R Hok tr live Htr Hwl Hhf)).
    assert (CA : cfg_ok s tr cfgA) by (destruct HopA as (W & C & P & _); repeat split; assumption).
    assert (CB : cfg_ok s tr cfgB) by (destruct HopB as (W & C & P & _); repeat split; assumption).
    pose proof (sep_of_disjoint cfgA cfgB fsA fsB Hset HopA HopB HfA HfB Hd) as SAB.
    pose proof (sep_of_disjoint cfgB cfgA fsB fsA Hset HopB HopA HfB HfA (prefix_disjoint_sym _ _ Hd)) as SBA.
    (* A then B *)
    destruct (fresh_step live mf a cfgA fsA Hset Hst HopA Ha HfA)
      as (oA & mfA & EA & StA & MA & RA1 & RA2 & RA3 & RA4).
    assert (HbA : keeps_all cfgB mfA b).
    { intros last p Hg Hp Hh. pose proof (has_nonnil _ _ Hh) as Hne.
      pose proof (RA3 b p Hba Hp Hne) as E. unfold recf in E at 1. rewrite Hg, Hh in E.
      symmetry in E. apply andb_true_iff in E. destruct E as [E _]. unfold recf in E.
      destruct (mf_get b mf) as [r0|] eqn:Eg; [|discriminate]. exact (Hb r0 p Eg Hp E). }
    destruct (fresh_step oA mfA b cfgB fsB Hset StA HopB HbA HfB)
      as (oAB & mfAB & EAB & StAB & MAB & RAB1 & RAB2 & RAB3 & RAB4).
    (* B then A *)
    destruct (fresh_step live mf b cfgB fsB Hset Hst HopB Hb HfB)
      as (oB & mfB & EB & StB & MB & RB1 & RB2 & RB3 & RB4).
    assert (HaB : keeps_all cfgA mfB a).
    { intros last p Hg Hp Hh. pose proof (has_nonnil _ _ Hh) as Hne.
      pose proof (RB3 a p Hab Hp Hne) as E. unfold recf in E at 1. rewrite Hg, Hh in E.
      symmetry in E. apply andb_true_iff in E. destruct E as [E _]. unfold recf in E.
      destruct (mf_get a mf) as [r0|] eqn:Eg; [|discriminate]. exact (Ha r0 p Eg Hp E). }
    destruct (fresh_step oB mfB a cfgA fsA Hset StB HopA HaB HfA)
      as (oBA & mfBA & EBA & StBA & MBA & RBA1 & RBA2 & RBA3 & RBA4).
    assert (EsAB : sAB = (oAB, mfAB)) by (unfold sAB, both; rewrite EA; exact EAB).
    assert (EsBA : sBA = (oBA, mfBA)) by (unfold sBA, both; rewrite EB; exact EBA).
    rewrite EsAB, EsBA. cbn [fst snd].
    pose proof (ms_good _ _ _ _ _ MA) as GA. pose proof (ms_good _ _ _ _ _ MAB) as GAB.
    pose proof (ms_good _ _ _ _ _ MB) as GB. pose proof (ms_good _ _ _ _ _ MBA) as GBA.
    pose proof (mstep_nodup s R Hok Hfam tr live cfgB oB Htr Nl CB MB) as NB.
    pose proof (mstep_nodup s R Hok Hfam tr oB cfgA oBA Htr NB CA MBA) as NBA.
    split.
    - (* the objects *)
      apply (same_leaves_nodup_veq_assoc s R Hok Hfam tr oBA oAB Htr GBA NBA GAB).
      + apply (commute_lin s R Hok Hfam tr live cfgB cfgA oB oBA oA oAB Htr Gl CB CA SBA MB MBA MA MAB).
      + apply (commute_lin s R Hok Hfam tr live cfgA cfgB oA oAB oB oBA Htr Gl CA CB SAB MA MAB MB MBA).
    - (* the records *)
      apply same_records_intro.
      + intros m r Hg. split; [apply (mf_ok_get mfAB m r (so_mf _ _ _ _ StAB) Hg)|apply (so_nonempty _ _ _ _ StAB m r Hg)].
      + intros m r Hg. split; [apply (mf_ok_get mfBA m r (so_mf _ _ _ _ StBA) Hg)|apply (so_nonempty _ _ _ _ StBA m r Hg)].
      + intros m r1 r2 E1 E2.
        destruct (String.eqb_spec m a) as [->|Hma]; [|destruct (String.eqb_spec m b) as [->|Hmb]].
        * destruct (RAB4 a r1 Hab E1) as (r & Hr & Fa & Fv). destruct (RA2 r Hr) as [Fa' Fv'].
          destruct (RBA2 r2 E2) as [Ga' Gv']. split; congruence.
        * destruct (RBA4 b r2 Hba E2) as (r & Hr & Fa & Fv). destruct (RB2 r Hr) as [Fa' Fv'].
          destruct (RAB2 r1 E1) as [Ga' Gv']. split; congruence.
        * destruct (RAB4 m r1 Hmb E1) as (r & Hr & Fa & Fv). destruct (RA4 m r Hma Hr) as (r0 & Hr0 & Fa0 & Fv0).
          destruct (RBA4 m r2 Hma E2) as (r' & Hr' & Ga' & Gv'). destruct (RB4 m r' Hmb Hr') as (r0' & Hr0' & Ga0 & Gv0).
          rewrite Hr0 in Hr0'. inversion Hr0'; subst r0'. split; congruence.
      + intros m p Hp Hne.
        destruct (String.eqb_spec m a) as [->|Hma]; [|destruct (String.eqb_spec m b) as [->|Hmb]].
        * rewrite (RAB3 a p Hab Hp Hne), (RA1 p Hp Hne), (RBA1 p Hp Hne).
          destruct (ps_has p fsA) eqn:Eh; [|reflexivity]. cbn [andb].
          destruct (member_unreached cfgA cfgB fsA fsB p Hset HopA HopB HfA HfB Hd Hp Eh) as (Hpr & Hnone & Hfree).
          rewrite (pair_applier live cfgA cfgB oA oAB Hset Gl Nl Sl CA CB MA MAB p Hp Hne Hpr Hnone Hfree).
          reflexivity.
        * rewrite (RAB1 p Hp Hne), (RBA3 b p Hba Hp Hne), (RB1 p Hp Hne).
          destruct (ps_has p fsB) eqn:Eh; [|reflexivity]. cbn [andb].
          destruct (member_unreached cfgB cfgA fsB fsA p Hset HopB HopA HfB HfA (prefix_disjoint_sym _ _ Hd) Hp Eh)
            as (Hpr & Hnone & Hfree).
          rewrite (pair_applier live cfgB cfgA oB oBA Hset Gl Nl Sl CB CA MB MBA p Hp Hne Hpr Hnone Hfree).
          reflexivity.
        * rewrite (RAB3 m p Hmb Hp Hne), (RA3 m p Hma Hp Hne), (RBA3 m p Hma Hp Hne), (RB3 m p Hmb Hp Hne).
          destruct (recf mf m p) eqn:Er; [|reflexivity]. cbn [andb].
          unfold recf in Er. destruct (mf_get m mf) as [r|] eqn:Eg; [|discriminate].
          pose proof (so_present c ver live mf Hst m r p Eg Hp Er) as Hpr. fold s tr in Hpr. unfold present in Hpr.
          destruct (resolve_path s tr live p) as [[t x|t xs]|] eqn:El; [| |discriminate].
          2:{ exfalso. exact (Nl p t xs Hp El). }
          pose proof (pair_others live cfgA cfgB oA oAB oB oBA Hset Gl Nl Sl CA CB SAB MA MAB MB MBA p t x Hp Hne El) as F.
          pose proof (pair_others live cfgB cfgA oB oBA oA oAB Hset Gl Nl Sl CB CA SBA MB MBA MA MAB p t x Hp Hne El) as G.
          destruct (touched (ref_diff s tr live oA) p); destruct (touched (ref_diff s tr oA oAB) p);
            destruct (touched (ref_diff s tr live oB) p); destruct (touched (ref_diff s tr oB oBA) p);
            try reflexivity; exfalso;
            try (destruct (F eq_refl eq_refl) as [F1 F2]; discriminate);
            try (destruct (G eq_refl eq_refl) as [G1 G2]; discriminate).
  Qed.

  (* ================= level 1: two managers that own nothing yet ================= *)
  Theorem fresh_disjoint_applies_commute : forall live mf a b cfgA cfgB fsA fsB,
    setting_ok c R ver -> state_ok c ver live mf -> dup_free s tr live = true -> hollow_free live ->
    a <> b -> mf_get a mf = None -> mf_get b mf = None ->
    op_ok c ver (HApply a cfgA true) -> op_ok c ver (HApply b cfgB true) ->
    to_field_set s tr cfgA = Some fsA -> to_field_set s tr cfgB = Some fsB ->
    prefix_disjoint fsA fsB ->
    let sAB := both (live, mf) (HApply a cfgA true) (HApply b cfgB true) in
    let sBA := both (live, mf) (HApply b cfgB true) (HApply a cfgA true) in
    veq_assoc s tr (fst sAB) (fst sBA) = true /\ same_records (snd sAB) (snd sBA).
  Proof.
    intros live mf a b cfgA cfgB fsA fsB Hset Hst Hdf Hhf Hab Ha Hb HopA HopB HfA HfB Hd.
    apply (keeping_disjoint_applies_commute live mf a b cfgA cfgB fsA fsB Hset Hst Hdf Hhf Hab
             (keeps_all_fresh cfgA mf a Ha) (keeps_all_fresh cfgB mf b Hb) HopA HopB HfA HfB Hd).
  Qed.
End Commute.

(* ================= checking disjointness of two concrete field sets ================= *)
Definition prefix_disjoint_b (A B : pset) : bool :=
  forallb (fun p => forallb (fun q => negb (is_prefix p q) && negb (is_prefix q p)) (ps_elems B)) (ps_elems A).

Lemma prefix_disjoint_of_check : forall A B, ps_ok A = true -> ps_ok B = true ->
  prefix_disjoint_b A B = true -> prefix_disjoint A B.
Proof.
  intros A B HA HB Hchk p q Hp Hq HpA HqB.
  rewrite (ps_has_elems A p HA Hp) in HpA. rewrite (ps_has_elems B q HB Hq) in HqB.
  unfold pmem in HpA, HqB. apply existsb_exists in HpA. apply existsb_exists in HqB.
  destruct HpA as (p' & Hp'in & Hpp'). destruct HqB as (q' & Hq'in & Hqq').
  pose proof (ps_elems_wf A HA) as WA. pose proof (ps_elems_wf B HB) as WB.
  rewrite forallb_forall in WA, WB. pose proof (WA p' Hp'in) as Hp'. pose proof (WB q' Hq'in) as Hq'.
  unfold prefix_disjoint_b in Hchk. rewrite forallb_forall in Hchk. pose proof (Hchk p' Hp'in) as H1.
  rewrite forallb_forall in H1. pose proof (H1 q' Hq'in) as H2.
  apply andb_true_iff in H2. destruct H2 as [H2 H3]. apply negb_true_iff in H2. apply negb_true_iff in H3.
  rewrite (ExtractBase.is_prefix_cong p q q' Hp Hq Hq' Hqq'), (is_prefix_cong_l p p' q' Hp Hp' Hq' Hpp').
  rewrite (ExtractBase.is_prefix_cong q p p' Hq Hp Hp' Hpp'), (is_prefix_cong_l q q' p' Hq Hq' Hp' Hqq').
  split; assumption.
Qed.

(* checking [keeps_all] on a concrete record *)
Lemma keeps_all_of_check : forall c R ver cfg mf mgr,
  setting_ok c R ver -> mf_ok mf -> wf_value cfg = true ->
  match mf_get mgr mf with
  | Some last => forallb (fun p => present (schema_of c ver) (tr_of c ver) cfg p) (ps_elems (mr_set last))
  | None => true
  end = true ->
  keeps_all c ver cfg mf mgr.
Proof.
  intros c R ver cfg mf mgr (Hni & Hcid & Hok & Hfam & Hpure & Htr & Hkp) Hmf Hwc Hchk last p Hg Hp Hh.
  rewrite Hg in Hchk. pose proof (mf_ok_get mf mgr last Hmf Hg) as Hlok.
  rewrite (ps_has_elems (mr_set last) p Hlok Hp) in Hh. unfold pmem in Hh. apply existsb_exists in Hh.
  destruct Hh as (p' & Hin & Hpp).
  pose proof (ps_elems_wf (mr_set last) Hlok) as W. rewrite forallb_forall in W. pose proof (W p' Hin) as Hp'.
  rewrite forallb_forall in Hchk. pose proof (Hchk p' Hin) as Hpr.
  unfold present in *.
  rewrite (RefDiffChar.resolve_patheqb (schema_of c ver) R Hok p p' Hpp Hp Hp' cfg (tr_of c ver) Htr Hwc). exact Hpr.
Qed.

(* ================= non-vacuity ================= *)
Section Examples.
  Open Scope string_scope.
  Let F := PEField.
  Let K (n : string) := PEKey [("name", VStr n)].
  Let item (n : string) (v : Z) := VMap [("name", VStr n); ("vv", VInt v)].
  Let itemn (n : string) := VMap [("name", VStr n)].
  Let s := schema_of ex_config "v1".
  Let tr := tr_of ex_config "v1".

  (* At the final state of the history of Proofs/History.v (four managers a, b, c, d with
     records) two NEW managers e and f apply: e sets the number (owned by a) and adds the
     member q, f changes mm.k (owned by c) and adds the member r.  Every hypothesis of the
     level-1 theorem holds; the two orders end in objects that differ (the members q and r
     are appended in the order of the applies) and are equal up to member order, with the
     same records -- by the theorem, and by evaluation. *)
  Definition cx_cfgA : value := VMap [("aa", VInt 9); ("items", VList [item "q" 1])].
  Definition cx_cfgB : value := VMap [("items", VList [item "r" 2]); ("mm", VMap [("k", VInt 5)])].
  Definition cx_fsA : pset := ps_of_paths [[F "aa"]; [F "items"; K "q"]; [F "items"; K "q"; F "name"]; [F "items"; K "q"; F "vv"]].
  Definition cx_fsB : pset := ps_of_paths [[F "items"; K "r"]; [F "items"; K "r"; F "name"]; [F "items"; K "r"; F "vv"]; [F "mm"; F "k"]].

  Definition cx_objAB : value :=
    VMap [("aa", VInt 9); ("items", VList [item "y" 7; item "z" 3; item "q" 1; item "r" 2]); ("mm", VMap [("k", VInt 5)])].
  Definition cx_objBA : value :=
    VMap [("aa", VInt 9); ("items", VList [item "y" 7; item "z" 3; item "r" 2; item "q" 1]); ("mm", VMap [("k", VInt 5)])].

  Lemma cx_hyps :
    setting_ok ex_config FieldSetLaws.ex_R "v1" /\ state_ok ex_config "v1" hx_obj hx_mf /\
    dup_free s tr hx_obj = true /\ hollow_free hx_obj /\ "e" <> "f" /\
    mf_get "e" hx_mf = None /\ mf_get "f" hx_mf = None /\
    op_ok ex_config "v1" (HApply "e" cx_cfgA true) /\ op_ok ex_config "v1" (HApply "f" cx_cfgB true) /\
    to_field_set s tr cx_cfgA = Some cx_fsA /\ to_field_set s tr cx_cfgB = Some cx_fsB /\
    prefix_disjoint cx_fsA cx_fsB.
  Proof.
    split; [exact ex_setting_ok|]. split; [exact rx_state_ok|].
    split; [vm_compute; reflexivity|]. split; [right; vm_compute; reflexivity|].
    split; [discriminate|]. split; [reflexivity|]. split; [reflexivity|].
    split; [repeat split; try (vm_compute; reflexivity); vm_compute; exact I|].
    split; [repeat split; try (vm_compute; reflexivity); vm_compute; exact I|].
    split; [vm_compute; reflexivity|]. split; [vm_compute; reflexivity|].
    apply prefix_disjoint_of_check; vm_compute; reflexivity.
  Qed.

  Example commute_example :
    let sAB := both ex_config "v1" (hx_obj, hx_mf) (HApply "e" cx_cfgA true) (HApply "f" cx_cfgB true) in
    let sBA := both ex_config "v1" (hx_obj, hx_mf) (HApply "f" cx_cfgB true) (HApply "e" cx_cfgA true) in
    (* by the theorem *)
    (veq_assoc s tr (fst sAB) (fst sBA) = true /\ same_records (snd sAB) (snd sBA)) /\
    (* by evaluation: the objects, which are different lists *)
    fst sAB = cx_objAB /\ fst sBA = cx_objBA /\ veqb (fst sAB) (fst sBA) = false /\
    (* a lost the number, c lost mm.k, e and f own their configurations *)
    map (fun mr : string * mrec => (fst mr, ps_elems (mr_set (snd mr)))) (snd sAB) =
      [("a", [[F "items"; K "y"]; [F "items"; K "y"; F "name"]]);
       ("b", [[F "items"; K "z"]; [F "items"; K "z"; F "name"]; [F "items"; K "z"; F "vv"]]);
       ("d", [[F "items"; K "y"; F "vv"]]);
       ("e", [[F "aa"]; [F "items"; K "q"]; [F "items"; K "q"; F "name"]; [F "items"; K "q"; F "vv"]]);
       ("f", [[F "items"; K "r"]; [F "items"; K "r"; F "name"]; [F "items"; K "r"; F "vv"]; [F "mm"; F "k"]])].
  Proof.
    cbv zeta.
    destruct cx_hyps as (H1 & H2 & H3 & H4 & H5 & H6 & H7 & H8 & H9 & H10 & H11 & H12).
    split.
    - exact (fresh_disjoint_applies_commute ex_config FieldSetLaws.ex_R "v1" hx_obj hx_mf "e" "f" cx_cfgA cx_cfgB
               cx_fsA cx_fsB H1 H2 H3 H4 H5 H6 H7 H8 H9 H10 H11 H12).
    - split; [vm_compute; reflexivity|]. split; [vm_compute; reflexivity|].
      split; [vm_compute; reflexivity|]. vm_compute. reflexivity.
  Qed.

  (* The generalisation to managers that already own fields: at the same state manager a
     (owning the number, the member y and its name) re-applies all it owns with a new value of
     the number, manager c (owning mm.k) re-applies mm.k with a new value and adds mm.j.
     Neither abandons anything. *)
  Definition kx_cfgA : value := VMap [("aa", VInt 3); ("items", VList [itemn "y"])].
  Definition kx_cfgB : value := VMap [("mm", VMap [("j", VInt 1); ("k", VInt 7)])].
  Definition kx_fsA : pset := ps_of_paths [[F "aa"]; [F "items"; K "y"]; [F "items"; K "y"; F "name"]].
  Definition kx_fsB : pset := ps_of_paths [[F "mm"; F "j"]; [F "mm"; F "k"]].

  Example keeping_example :
    let sAB := both ex_config "v1" (hx_obj, hx_mf) (HApply "a" kx_cfgA true) (HApply "c" kx_cfgB true) in
    let sBA := both ex_config "v1" (hx_obj, hx_mf) (HApply "c" kx_cfgB true) (HApply "a" kx_cfgA true) in
    (exists ra rc, mf_get "a" hx_mf = Some ra /\ mf_get "c" hx_mf = Some rc) /\
    (veq_assoc s tr (fst sAB) (fst sBA) = true /\ same_records (snd sAB) (snd sBA)) /\
    fst sAB = VMap [("aa", VInt 3); ("items", VList [item "y" 7; item "z" 3]); ("mm", VMap [("j", VInt 1); ("k", VInt 7)])].
  Proof.
    cbv zeta. split; [eexists; eexists; split; reflexivity|]. split.
    - apply (keeping_disjoint_applies_commute ex_config FieldSetLaws.ex_R "v1" hx_obj hx_mf "a" "c" kx_cfgA kx_cfgB
               kx_fsA kx_fsB ex_setting_ok rx_state_ok).
      + vm_compute; reflexivity.
      + right; vm_compute; reflexivity.
      + discriminate.
      + apply (keeps_all_of_check ex_config FieldSetLaws.ex_R "v1" kx_cfgA hx_mf "a" ex_setting_ok);
          [apply (so_mf _ _ _ _ rx_state_ok)|reflexivity|vm_compute; reflexivity].
      + apply (keeps_all_of_check ex_config FieldSetLaws.ex_R "v1" kx_cfgB hx_mf "c" ex_setting_ok);
          [apply (so_mf _ _ _ _ rx_state_ok)|reflexivity|vm_compute; reflexivity].
      + repeat split; try (vm_compute; reflexivity); vm_compute; exact I.
      + repeat split; try (vm_compute; reflexivity); vm_compute; exact I.
      + vm_compute; reflexivity.
      + vm_compute; reflexivity.
      + apply prefix_disjoint_of_check; vm_compute; reflexivity.
    - vm_compute. reflexivity.
  Qed.

  (* ================= level 2 (managers that abandon fields): the statement is FALSE ================= *)

  (* History: a applies the member x (it owns the member and its key field "name"); d adds the
     field vv to that member by an update (it owns vv, not the member).  Now a applies a
     configuration without the member, d one without vv; the two configurations own disjoint
     fields.  If a goes first, its prune stage removes the member with the field of d in it
     and leaves "items: null" behind, which nobody owns and the apply of d does not touch; if d
     goes first, the member is down to its key when a abandons it and the whole list goes.
     Every hypothesis of [disjoint_applies_commute] (Proofs/Commute_statements.v) holds. *)
  Definition l2_ops : list hop :=
    [HApply "a" (VMap [("items", VList [itemn "x"])]) true;
     HUpdate "d" (VMap [("items", VList [item "x" 5])])].
  Definition l2_obj : value := VMap [("items", VList [item "x" 5])].
  Definition l2_mf : managed :=
    [("a", mkRec (ps_of_paths [[F "items"; K "x"]; [F "items"; K "x"; F "name"]]) "v1" true);
     ("d", mkRec (ps_of_paths [[F "items"; K "x"; F "vv"]]) "v1" false)].
  Definition l2_cfgA : value := VMap [("aa", VInt 1)].
  Definition l2_cfgB : value := VMap [("mm", VMap [("k", VInt 1)])].
  Definition l2_fsA : pset := ps_of_paths [[F "aa"]].
  Definition l2_fsB : pset := ps_of_paths [[F "mm"; F "k"]].

  Lemma l2_run : run ex_config "v1" l2_ops = (l2_obj, l2_mf).
  Proof. vm_compute. reflexivity. Qed.

  Lemma l2_state_ok : state_ok ex_config "v1" l2_obj l2_mf.
  Proof.
    assert (Hops : Forall (op_ok ex_config "v1") l2_ops).
    { repeat constructor; try (vm_compute; reflexivity); vm_compute; exact I. }
    pose proof (reachable_states_ok ex_config FieldSetLaws.ex_R "v1" l2_ops ex_setting_ok Hops) as H.
    rewrite l2_run in H. exact H.
  Qed.

  Theorem disjoint_applies_commute_as_stated_refuted :
    setting_ok ex_config FieldSetLaws.ex_R "v1" /\ state_ok ex_config "v1" l2_obj l2_mf /\
    dup_free s tr l2_obj = true /\ hollow_free l2_obj /\ "a" <> "d" /\
    op_ok ex_config "v1" (HApply "a" l2_cfgA true) /\ op_ok ex_config "v1" (HApply "d" l2_cfgB true) /\
    to_field_set s tr l2_cfgA = Some l2_fsA /\ to_field_set s tr l2_cfgB = Some l2_fsB /\
    prefix_disjoint l2_fsA l2_fsB /\
    let sAB := both ex_config "v1" (l2_obj, l2_mf) (HApply "a" l2_cfgA true) (HApply "d" l2_cfgB true) in
    let sBA := both ex_config "v1" (l2_obj, l2_mf) (HApply "d" l2_cfgB true) (HApply "a" l2_cfgA true) in
    fst sAB = VMap [("aa", VInt 1); ("items", VNull); ("mm", VMap [("k", VInt 1)])] /\
    fst sBA = VMap [("aa", VInt 1); ("mm", VMap [("k", VInt 1)])] /\
    veq_assoc s tr (fst sAB) (fst sBA) = false.
  Proof.
    split; [exact ex_setting_ok|]. split; [exact l2_state_ok|].
    split; [vm_compute; reflexivity|]. split; [right; vm_compute; reflexivity|].
    split; [discriminate|].
    split; [repeat split; try (vm_compute; reflexivity); vm_compute; exact I|].
    split; [repeat split; try (vm_compute; reflexivity); vm_compute; exact I|].
    split; [vm_compute; reflexivity|]. split; [vm_compute; reflexivity|].
    split; [apply prefix_disjoint_of_check; vm_compute; reflexivity|].
    cbv zeta. split; [vm_compute; reflexivity|]. split; [vm_compute; reflexivity|]. vm_compute. reflexivity.
  Qed.

  (* The object after the first apply is hollow in that example ("items: null").  Requiring
     the objects after the first apply of either order to be hollow-free does NOT repair the
     statement: with a second member y owned by b, which b abandons, both intermediate
     objects are hollow-free, and the orders still differ by "items: null". *)
  Definition l3_ops : list hop :=
    [HApply "a" (VMap [("items", VList [itemn "x"])]) true;
     HApply "b" (VMap [("items", VList [itemn "y"])]) true;
     HUpdate "d" (VMap [("items", VList [item "x" 5; itemn "y"])])].
  Definition l3_obj : value := VMap [("items", VList [item "x" 5; itemn "y"])].
  Definition l3_mf : managed :=
    [("a", mkRec (ps_of_paths [[F "items"; K "x"]; [F "items"; K "x"; F "name"]]) "v1" true);
     ("b", mkRec (ps_of_paths [[F "items"; K "y"]; [F "items"; K "y"; F "name"]]) "v1" true);
     ("d", mkRec (ps_of_paths [[F "items"; K "x"; F "vv"]]) "v1" false)].

  Lemma l3_run : run ex_config "v1" l3_ops = (l3_obj, l3_mf).
  Proof. vm_compute. reflexivity. Qed.

  Lemma l3_state_ok : state_ok ex_config "v1" l3_obj l3_mf.
  Proof.
    assert (Hops : Forall (op_ok ex_config "v1") l3_ops).
    { repeat constructor; try (vm_compute; reflexivity); vm_compute; exact I. }
    pose proof (reachable_states_ok ex_config FieldSetLaws.ex_R "v1" l3_ops ex_setting_ok Hops) as H.
    rewrite l3_run in H. exact H.
  Qed.

  Theorem disjoint_applies_commute_hollow_free_steps_refuted :
    setting_ok ex_config FieldSetLaws.ex_R "v1" /\ state_ok ex_config "v1" l3_obj l3_mf /\
    dup_free s tr l3_obj = true /\ hollow_free l3_obj /\ "a" <> "b" /\
    op_ok ex_config "v1" (HApply "a" l2_cfgA true) /\ op_ok ex_config "v1" (HApply "b" l2_cfgB true) /\
    to_field_set s tr l2_cfgA = Some l2_fsA /\ to_field_set s tr l2_cfgB = Some l2_fsB /\
    prefix_disjoint l2_fsA l2_fsB /\
    hollow_free (fst (hstep ex_config "v1" (l3_obj, l3_mf) (HApply "a" l2_cfgA true))) /\
    hollow_free (fst (hstep ex_config "v1" (l3_obj, l3_mf) (HApply "b" l2_cfgB true))) /\
    let sAB := both ex_config "v1" (l3_obj, l3_mf) (HApply "a" l2_cfgA true) (HApply "b" l2_cfgB true) in
    let sBA := both ex_config "v1" (l3_obj, l3_mf) (HApply "b" l2_cfgB true) (HApply "a" l2_cfgA true) in
    fst sAB = VMap [("aa", VInt 1); ("mm", VMap [("k", VInt 1)])] /\
    fst sBA = VMap [("aa", VInt 1); ("items", VNull); ("mm", VMap [("k", VInt 1)])] /\
    veq_assoc s tr (fst sAB) (fst sBA) = false.
  Proof.
    split; [exact ex_setting_ok|]. split; [exact l3_state_ok|].
    split; [vm_compute; reflexivity|]. split; [right; vm_compute; reflexivity|].
    split; [discriminate|].
    split; [repeat split; try (vm_compute; reflexivity); vm_compute; exact I|].
    split; [repeat split; try (vm_compute; reflexivity); vm_compute; exact I|].
    split; [vm_compute; reflexivity|]. split; [vm_compute; reflexivity|].
    split; [apply prefix_disjoint_of_check; vm_compute; reflexivity|].
    split; [right; vm_compute; reflexivity|]. split; [right; vm_compute; reflexivity|].
    cbv zeta. split; [vm_compute; reflexivity|]. split; [vm_compute; reflexivity|]. vm_compute. reflexivity.
  Qed.

  (* A second, independent defect of the level-2 statement: the configuration of the one
     manager may name fields of the PREVIOUS record of the other.  At the final state of the
     history of Proofs/History.v manager a (owner of the number, the member y and its name)
     applies the number alone, a new manager e applies the member y (its name).  If a goes
     first the member y disappears with the field vv that d owns in it, and e creates it anew;
     if e goes first it co-owns the member when a abandons it, and y keeps vv.  All four
     objects are hollow-free; the objects AND the records differ. *)
  Definition l4_cfgA : value := VMap [("aa", VInt 1)].
  Definition l4_cfgB : value := VMap [("items", VList [itemn "y"])].
  Definition l4_fsB : pset := ps_of_paths [[F "items"; K "y"]; [F "items"; K "y"; F "name"]].

  Theorem disjoint_applies_commute_needs_records_disjoint :
    setting_ok ex_config FieldSetLaws.ex_R "v1" /\ state_ok ex_config "v1" hx_obj hx_mf /\
    dup_free s tr hx_obj = true /\ hollow_free hx_obj /\ "a" <> "e" /\
    op_ok ex_config "v1" (HApply "a" l4_cfgA true) /\ op_ok ex_config "v1" (HApply "e" l4_cfgB true) /\
    to_field_set s tr l4_cfgA = Some l2_fsA /\ to_field_set s tr l4_cfgB = Some l4_fsB /\
    prefix_disjoint l2_fsA l4_fsB /\
    let sA := hstep ex_config "v1" (hx_obj, hx_mf) (HApply "a" l4_cfgA true) in
    let sB := hstep ex_config "v1" (hx_obj, hx_mf) (HApply "e" l4_cfgB true) in
    let sAB := both ex_config "v1" (hx_obj, hx_mf) (HApply "a" l4_cfgA true) (HApply "e" l4_cfgB true) in
    let sBA := both ex_config "v1" (hx_obj, hx_mf) (HApply "e" l4_cfgB true) (HApply "a" l4_cfgA true) in
    hollow_free (fst sA) /\ hollow_free (fst sB) /\ hollow_free (fst sAB) /\ hollow_free (fst sBA) /\
    fst sAB = VMap [("aa", VInt 1); ("items", VList [item "z" 3; itemn "y"]); ("mm", VMap [("k", VInt 2)])] /\
    fst sBA = VMap [("aa", VInt 1); ("items", VList [item "y" 7; item "z" 3]); ("mm", VMap [("k", VInt 2)])] /\
    veq_assoc s tr (fst sAB) (fst sBA) = false /\ ~ same_records (snd sAB) (snd sBA).
  Proof.
    split; [exact ex_setting_ok|]. split; [exact rx_state_ok|].
    split; [vm_compute; reflexivity|]. split; [right; vm_compute; reflexivity|].
    split; [discriminate|].
    split; [repeat split; try (vm_compute; reflexivity); vm_compute; exact I|].
    split; [repeat split; try (vm_compute; reflexivity); vm_compute; exact I|].
    split; [vm_compute; reflexivity|]. split; [vm_compute; reflexivity|].
    split; [apply prefix_disjoint_of_check; vm_compute; reflexivity|].
    cbv zeta.
    split; [right; vm_compute; reflexivity|]. split; [right; vm_compute; reflexivity|].
    split; [right; vm_compute; reflexivity|]. split; [right; vm_compute; reflexivity|].
    split; [vm_compute; reflexivity|]. split; [vm_compute; reflexivity|].
    split; [vm_compute; reflexivity|].
    intros H. specialize (H "d"). vm_compute in H. exact H.
  Qed.
End Examples.

(* ================= why "disjoint" must mean "no path a prefix of another" ================= *)
(* Field sets without a common member are not enough: with the schemaless "deduced" type a
   field may hold a scalar or a map with separately owned fields.  Manager a applies f: 5
   (it owns f), manager b applies f: {y: 1} (it owns f.y, not f).  The last apply wins. *)
Section PrefixNeeded.
  Open Scope string_scope.
  Definition kc_config : config :=
    mkConfig (fun _ => (MergeRest.kc_schema, MergeRest.kc_tr)) (fun _ _ _ v => COk v) None None false (fun l => l).

  Lemma kc_setting_ok : setting_ok kc_config MergeRest.kc_R "v1".
  Proof.
    split; [split; reflexivity|]. split; [intros n from to v; reflexivity|].
    split; [exact MergeRest.kc_schema_ok|]. split; [exact MergeRest.kc_family|].
    split; [exact MergeRest.kc_lists_pure|]. split; [left; reflexivity|].
    split.
    - intros t a lt k d Ht Hr Ha Hk. unfold MergeRest.kc_R in Ht.
      destruct Ht as [<-|[<-|[<-|[<-|[]]]]]; vm_compute in Hr; inversion Hr; subst a;
        simpl in Ha; try discriminate; inversion Ha; subst lt; destruct Hk.
    - intros t a lt k ea mt Ht Hr Ha Hk. unfold MergeRest.kc_R in Ht.
      destruct Ht as [<-|[<-|[<-|[<-|[]]]]]; vm_compute in Hr; inversion Hr; subst a;
        simpl in Ha; try discriminate; inversion Ha; subst lt; destruct Hk.
  Qed.

  Definition pn_cfgA : value := VMap [("f", VInt 5)].
  Definition pn_cfgB : value := VMap [("f", VMap [("y", VInt 1)])].
  Definition pn_fsA : pset := ps_of_paths [[PEField "f"]].
  Definition pn_fsB : pset := ps_of_paths [[PEField "f"; PEField "y"]].

  Theorem fresh_commute_needs_prefix_disjoint :
    let s := schema_of kc_config "v1" in let tr := tr_of kc_config "v1" in
    setting_ok kc_config MergeRest.kc_R "v1" /\ state_ok kc_config "v1" VNull [] /\
    dup_free s tr VNull = true /\ hollow_free VNull /\ "a" <> "b" /\
    mf_get "a" [] = None /\ mf_get "b" [] = None /\
    op_ok kc_config "v1" (HApply "a" pn_cfgA true) /\ op_ok kc_config "v1" (HApply "b" pn_cfgB true) /\
    to_field_set s tr pn_cfgA = Some pn_fsA /\ to_field_set s tr pn_cfgB = Some pn_fsB /\
    (* no common member *)
    (forall p, wf_path p = true -> ps_has p pn_fsA = true -> ps_has p pn_fsB = false) /\
    let sAB := both kc_config "v1" (VNull, []) (HApply "a" pn_cfgA true) (HApply "b" pn_cfgB true) in
    let sBA := both kc_config "v1" (VNull, []) (HApply "b" pn_cfgB true) (HApply "a" pn_cfgA true) in
    fst sAB = pn_cfgB /\ fst sBA = pn_cfgA /\ veq_assoc s tr (fst sAB) (fst sBA) = false.
  Proof.
    cbv zeta.
    split; [exact kc_setting_ok|]. split; [exact (initial_state_ok kc_config "v1")|].
    split; [vm_compute; reflexivity|]. split; [left; reflexivity|]. split; [discriminate|].
    split; [reflexivity|]. split; [reflexivity|].
    split; [repeat split; try (vm_compute; reflexivity); vm_compute; exact I|].
    split; [repeat split; try (vm_compute; reflexivity); vm_compute; exact I|].
    split; [vm_compute; reflexivity|]. split; [vm_compute; reflexivity|].
    split.
    - intros p Hp Hh.
      assert (OA : ps_ok pn_fsA = true) by (vm_compute; reflexivity).
      assert (OB : ps_ok pn_fsB = true) by (vm_compute; reflexivity).
      rewrite (ps_has_elems pn_fsA p OA Hp) in Hh. rewrite (ps_has_elems pn_fsB p OB Hp).
      change (ps_elems pn_fsA) with [[PEField "f"]] in Hh.
      change (ps_elems pn_fsB) with [[PEField "f"; PEField "y"]].
      unfold pmem in *. cbn [existsb] in *. rewrite orb_false_r in *.
      destruct p as [|e [|e' p']].
      + discriminate Hh.
      + cbn [patheqb]. rewrite andb_false_r. reflexivity.
      + cbn [patheqb] in Hh. rewrite andb_false_r in Hh. discriminate Hh.
    - split; [vm_compute; reflexivity|]. split; [vm_compute; reflexivity|]. vm_compute. reflexivity.
  Qed.
End PrefixNeeded.

(* ================= assumptions ================= *)
