(* C20, first sentence, for the identity converter: when managers act at different API version
   LABELS that all carry the same schema and are related by the identity converter, the
   resulting object and ownership equal what the single-version run produces.

   Statements: Proofs/Transparent_statements.v.  Definitions [relabel], [vhop], [one_schema],
   [order_perm], [vstep], [corresponds], [vrun] verbatim.  ALL FOUR theorems are proved (Qed, no
   axiom), with the following changes, each flagged at its place:

   1. [prune_transparent] (level 1).  FALSE as stated [prune_transparent_as_stated_refuted]:
      the hypothesis on the records is stated through [mf_get], which sees only the FIRST
      record of each manager name; [mf] is an arbitrary association list, and a second record
      under a name that occurs already is unconstrained.  Witness: such a shadowed record whose
      set is ill formed (members not sorted): the bisection of the multi-version run does not
      find a member that the union computed by the single-version run makes findable again;
      the two runs return different objects.  Repair: the hypothesis is asked of every record
      of the list [prune_transparent_records: "forall m r, In (m, r) mf -> ..."], or, keeping
      the statement verbatim, manager names are unique [prune_transparent: + NoDup (map fst mf)]
      (record maps of reachable states have unique names: [mf_ok]).  The conclusion is also
      available in a stronger form: BOTH runs succeed [TransparentPrune.prune_relab], and the
      labels of the two families of records need not be related at all
      [TransparentPrune.prune_labels].

   2. [vop_ok] / [step_transparent] (levels 2, 3): an Update may not submit duplicate list
      members -- [vop_ok] asks [conforms .. false obj] of an update besides [no_empty_list] --
      and [step_transparent] carries "the object has no duplicate list member" [nodup_ok] as a
      hypothesis on the state and as a further conclusion (next to [no_empty_list], which the
      statement already carries in this way).  Reason: [op_ok] admits updates with duplicates
      in sets / keyed lists ([conforms .. true]); the characterisation of the add-back rounds
      (Proofs/OrderIndepN.v: kept sets, [visible], [remove_ext]) is for objects in which a
      path designates at most one member ([DF]), and there is no theory of removal on
      objects with duplicates in this development.  This strengthening is NOT shown to be
      necessary: an exhaustive evaluation (vm_compute) of all histories of length 3 and of
      length 4 over 21 operations (forced applies, and updates WITH duplicate members, by three
      managers at three labels: 21^3 + 21^4 = 203742 histories), and hand-made histories in
      which an apply prunes a member owned at other labels next to duplicates, found no
      history at whose end the two runs differ.  It is an invariant of
      histories whose updates are duplicate free: Apply never introduces duplicates
      [TransparentMerge.merge_keeps, TransparentRemove.remove_conforms_nodup].
      With this [vop_ok], [multi_version_run_transparent] and [multi_version_apply_outcome]
      are verbatim.

   Proof.  Level 1 (Proofs/TransparentPrune.v): the add-back rounds over the versions end on
   the removal of a set T' that keeps exactly the nodes of the merged object all of whose
   non-empty prefixes are kept by the first removal or lie in the closure of the set recorded
   at SOME visited version (OrderIndepN.run_fixed for two versions or more; one pass resp.
   nothing for one resp. no version); a set recorded at a version is the union of the records at
   that version and [ps_en] distributes over unions, so "recorded at some version" is "some
   record": no label is left in the characterisation, and [RemoveExt.remove_ext] gives the same
   object.  The dangling stage and the last conversion do not look at labels.
   Level 2 (Proofs/TransparentCore.v, TransparentMerge.v, TransparentRemove.v,
   TransparentStep.v): reconciliation, merge and field sets use the one schema; [update_core]
   computes one comparison per label, all equal, so its conflicts and records are those of
   the single-version run [update_core_labels]; the merged object of an Apply has no empty
   list and no duplicate when live object and configuration have none [merge_keeps]; a pruned
   object neither [remove_nel, remove_conforms_nodup]; the key fields of the members a record
   owns are the same in the merged object as in the live one [owns_live_keys_transfer].
   Level 3: induction over the history with History.step_preserves_state_ok on the
   single-version side.

   Non-vacuity: [transparent_example] (six operations, three managers, three labels, visiting
   order reversed; the fourth operation abandons a list member owned at another label with a
   field beneath it owned at a third label; one round of passes does not restore the field
   [example_needs_two_rounds]). *)
From Coq Require Import List ZArith String Bool Arith Lia Permutation.
From SMD Require Import Model.Value Model.Order Model.PathElem Model.PathSet Model.Schema Model.Walk
  Model.Validate Model.FieldSet Model.Remove Model.Merge Model.Compare Model.Matcher Model.Reconcile
  Model.Updater
  Spec.PathsAsSets Spec.RefValid Spec.Resolve Spec.Agree Spec.RefDiff Spec.Examples
  Proofs.OrderLaws Proofs.PathSetLaws Proofs.SchemaOk Proofs.FieldSetBase Proofs.FieldSetPaths
  Proofs.FieldSetWf Proofs.FieldSetLaws Proofs.RemoveAbsent Proofs.RemoveWf Proofs.ResolveLaws
  Proofs.UpdaterLaws Proofs.UpdaterLaws2 Proofs.MergeLaws Proofs.MergeAgree
  Proofs.RemoveFrame Proofs.EnLaws Proofs.NodeSet Proofs.KeyFields Proofs.VeqbResolve
  Proofs.SetCheckers Proofs.ApplyEffect Proofs.PruneShape Proofs.RemoveExt Proofs.Visible
  Proofs.NodeCount Proofs.OrderIndep Proofs.OrderIndepN Proofs.ApplyInv Proofs.History
  Proofs.TransparentPrune Proofs.TransparentCore Proofs.TransparentStep.
Import ListNotations.
Open Scope bool_scope.
Open Scope list_scope.

(* every record moved to the version label [ver]; managers, sets and flags as they are *)
Definition relabel (ver : string) (mf : managed) : managed :=
  map (fun mr : string * mrec => (fst mr, mkRec (mr_set (snd mr)) ver (mr_applied (snd mr)))) mf.

Lemma relabel_relab : forall ver mf, relabel ver mf = relab ver mf.
Proof. reflexivity. Qed.

(* a versioned operation: the label the caller acts at, and the operation *)
Definition vhop : Type := (string * hop)%type.

Lemma nodup_names_get : forall (A : Type) (l : list (string * A)) k v,
  NoDup (map fst l) -> In (k, v) l -> assoc_get k l = Some v.
Proof.
  intros A l. induction l as [|[k' v'] l IH]; intros k v Hnd Hin; [destruct Hin|].
  cbn [map fst] in Hnd. inversion Hnd as [|? ? Hnot Hnd']; subst.
  cbn [assoc_get]. destruct Hin as [E|Hin].
  - inversion E; subst. rewrite String.eqb_refl. reflexivity.
  - destruct (String.eqb_spec k k') as [->|Hne].
    + exfalso. apply Hnot. apply in_map_iff. exists (k', v). auto.
    + apply IH; assumption.
Qed.

Section Transparent.
  Variables (c : config) (R : typeref -> Prop) (ver : string).
  Let s := schema_of c ver.
  Let tr := tr_of c ver.

  (* all labels carry the schema of [ver]; the visiting order of the versions is some
     permutation (the implementation sorts them) *)
  Definition one_schema : Prop := forall v, cfg_schema c v = cfg_schema c ver.
  Definition order_perm : Prop := forall l, Permutation l (cfg_version_order c l).

  (* ---------- level 1: prune ---------- *)
  (* hypotheses as in OrderIndepN.prune_order_independent; [mf] may hold records at any
     labels, [last] is the applier's earlier record (any label).
     CHANGE (see the header, 1.): the hypothesis on the records is asked of every record of
     the list, not only of the first record of each manager name. *)
  Theorem prune_transparent_records : forall (M : value) (mf : managed) (last : mrec) n lm mgr o n1,
    setting_ok c R ver -> one_schema -> order_perm ->
    wf_value M = true -> conforms s tr false M = true -> no_empty_list M = true ->
    ps_ok (mr_set last) = true -> applier_record_ok s tr (mr_set last) ->
    (forall m r, In (m, r) mf -> ps_ok (mr_set r) = true /\ owns_live_keys s tr M (mr_set r)) ->
    prune c n (lm, M) mf mgr (Some last) = UOk (o, n1) ->
    exists o' n2,
      prune c n (ver, M) (relabel ver mf) mgr
            (Some (mkRec (mr_set last) ver (mr_applied last))) = UOk (o', n2) /\
      snd o' = snd o.
  Proof.
    intros M mf last n lm mgr o n1 Hset Hone Hperm HwM HvM HeM Hlok Hlrec Hrecs Hp.
    pose proof Hset as (Hni & Hcid & Hok & Hfam & Hpure & Htr & Hnd & Hks).
    fold s tr in Hok, Hfam, Hpure, Htr, Hnd, Hks.
    destruct (prune_relab c s R tr Hcid (Hsch c ver Hone) Hperm Hok Hfam Htr Hnd Hks M HwM HvM HeM
                ver mf last n lm mgr n ver mgr Hlok Hlrec)
      as (x & l1 & k1 & l2 & k2 & P1 & P2 & _).
    { intros [m r] Hin. apply (Hrecs m r Hin). }
    rewrite Hp in P1. inversion P1; subst o n1.
    exists (l2, x), k2. split; [exact P2|reflexivity].
  Qed.

  (* the statement verbatim, with unique manager names *)
  Theorem prune_transparent : forall (M : value) (mf : managed) (last : mrec) n lm mgr o n1,
    setting_ok c R ver -> one_schema -> order_perm ->
    NoDup (map fst mf) ->
    wf_value M = true -> conforms s tr false M = true -> no_empty_list M = true ->
    ps_ok (mr_set last) = true -> applier_record_ok s tr (mr_set last) ->
    (forall m r, mf_get m mf = Some r -> ps_ok (mr_set r) = true /\ owns_live_keys s tr M (mr_set r)) ->
    prune c n (lm, M) mf mgr (Some last) = UOk (o, n1) ->
    exists o' n2,
      prune c n (ver, M) (relabel ver mf) mgr
            (Some (mkRec (mr_set last) ver (mr_applied last))) = UOk (o', n2) /\
      snd o' = snd o.
  Proof.
    intros M mf last n lm mgr o n1 Hset Hone Hperm Hnames HwM HvM HeM Hlok Hlrec Hrecs Hp.
    apply (prune_transparent_records M mf last n lm mgr o n1); auto.
    intros m r Hin. apply (Hrecs m r). apply (nodup_names_get _ mf m r Hnames Hin).
  Qed.

  (* ---------- level 2: one operation ---------- *)
  (* the multi-version step: the live object carries the label it was last written at *)
  Definition vstep (st : tv * managed) (o : vhop) : tv * managed :=
    let v := fst o in
    match snd o with
    | HApply mgr cfg force =>
        match apply_op c (fst st) (v, cfg) v (snd st) mgr force with
        | UOk (Some t, mf') => (t, mf')
        | UOk (None, mf') => (fst st, mf')
        | UErr _ => st
        end
    | HUpdate mgr obj =>
        match update_op c (fst st) (v, obj) v (snd st) mgr with
        | UOk (t, mf') => (t, mf')
        | UErr _ => st
        end
    end.

  (* what an update may submit in this theorem: no empty list anywhere (an empty list is
     part of the object and of no field set: known finding F23 shows the difference).
     CHANGE (see the header, 2.): and no duplicate member of a set or keyed list. *)
  Definition vop_ok (o : vhop) : Prop :=
    op_ok c ver (snd o) /\
    match snd o with
    | HUpdate _ obj => no_empty_list obj = true /\ conforms s tr false obj = true
    | _ => True
    end.

  (* the object has no duplicate member of a set or keyed list (null: the empty object) *)
  Definition nodup_ok (live : value) : Prop := live = VNull \/ conforms s tr false live = true.

  (* the multi-version state and the single-version state it corresponds to *)
  Definition corresponds (stv : tv * managed) (st1 : value * managed) : Prop :=
    snd (fst stv) = fst st1 /\ relabel ver (snd stv) = snd st1.

  (* CHANGE (see the header, 2.): hypothesis and conclusion [nodup_ok] *)
  Theorem step_transparent : forall stv st1 o,
    setting_ok c R ver -> one_schema -> order_perm ->
    state_ok c ver (fst st1) (snd st1) -> no_empty_list (fst st1) = true -> nodup_ok (fst st1) ->
    corresponds stv st1 -> vop_ok o ->
    corresponds (vstep stv o) (hstep c ver st1 (snd o)) /\
    no_empty_list (fst (hstep c ver st1 (snd o))) = true /\
    nodup_ok (fst (hstep c ver st1 (snd o))).
  Proof.
    intros [[lv live] mfv] [live1 mf1] [v h] Hset Hone Hperm Hst Hnel Hnd [Hl Hm] [Hop Hextra].
    cbn [fst snd] in *. subst live1 mf1. rewrite relabel_relab in *.
    destruct h as [mgr cfg force|mgr obj]; cbn [vstep hstep fst snd].
    - destruct (apply_labels c R ver Hset Hone Hperm lv live mfv v mgr cfg force Hst Hnel Hnd Hop)
        as [Hsame Hfacts].
      destruct (apply_op c (lv, live) (v, cfg) v mfv mgr force) as [[o mf']|e];
        destruct (apply_op c (ver, live) (ver, cfg) ver (relab ver mfv) mgr force) as [[o1 mf1]|e1];
        cbn [same_apply_outcome] in Hsame; try contradiction.
      + destruct Hsame as [Ho Hmf].
        destruct o as [t|]; destruct o1 as [t1|]; cbn [option_map] in Ho; try discriminate.
        * injection Ho as Hsnd. destruct (Hfacts (Some t1) mf1 eq_refl t1 eq_refl) as [H1 H2].
          split; [split; [exact Hsnd|rewrite relabel_relab; exact Hmf]|].
          cbn [fst snd]. split; [exact H1|right; exact H2].
        * split; [split; [reflexivity|rewrite relabel_relab; exact Hmf]|]. cbn [fst snd]. auto.
      + split; [split; [reflexivity|rewrite relabel_relab; reflexivity]|]. cbn [fst snd]. auto.
    - pose proof (update_labels c R ver Hset Hone lv live mfv v mgr obj Hst) as Hsame.
      destruct Hop as [Hwo Hco]. destruct Hextra as [Hno Hfo].
      destruct (update_op c (lv, live) (v, obj) v mfv mgr) as [[t mf']|e] eqn:EA;
        destruct (update_op c (ver, live) (ver, obj) ver (relab ver mfv) mgr) as [[t1 mf1]|e1] eqn:EB;
        cbn [same_update_outcome] in Hsame; try contradiction.
      + destruct Hsame as [Hsnd Hmf].
        destruct (update_step c R ver live (relab ver mfv) mgr obj t1 mf1 Hset Hst (conj Hwo Hco) EB) as [-> _].
        split; [split; [exact Hsnd|rewrite relabel_relab; exact Hmf]|]. cbn [fst snd].
        split; [exact Hno|right; exact Hfo].
      + split; [split; [reflexivity|rewrite relabel_relab; reflexivity]|]. cbn [fst snd]. auto.
  Qed.

  (* ---------- level 3: every history ---------- *)
  Definition vrun (ops : list vhop) : tv * managed := fold_left vstep ops ((ver, VNull), []).

  Lemma vop_ok_op : forall o, vop_ok o -> op_ok c ver (snd o).
  Proof. intros o [H _]. exact H. Qed.

  (* the invariants along two runs in step *)
  Lemma runs_in_step : forall ops stv st1,
    setting_ok c R ver -> one_schema -> order_perm ->
    Forall vop_ok ops ->
    state_ok c ver (fst st1) (snd st1) -> no_empty_list (fst st1) = true -> nodup_ok (fst st1) ->
    corresponds stv st1 ->
    let stv' := fold_left vstep ops stv in
    let st1' := fold_left (hstep c ver) (map snd ops) st1 in
    corresponds stv' st1' /\ state_ok c ver (fst st1') (snd st1') /\
    no_empty_list (fst st1') = true /\ nodup_ok (fst st1').
  Proof.
    induction ops as [|o ops IH]; intros stv st1 Hset Hone Hperm Hall Hst Hnel Hnd Hcor; cbn [fold_left map].
    - auto.
    - inversion Hall as [|? ? Ho Hrest]; subst.
      destruct (step_transparent stv st1 o Hset Hone Hperm Hst Hnel Hnd Hcor Ho) as (Hcor' & Hnel' & Hnd').
      apply IH; auto.
      destruct st1 as [live mf].
      apply (step_preserves_state_ok c R ver live mf (snd o) Hset Hst (vop_ok_op o Ho)).
  Qed.

  Lemma runs_from_start : forall ops,
    setting_ok c R ver -> one_schema -> order_perm -> Forall vop_ok ops ->
    corresponds (vrun ops) (run c ver (map snd ops)) /\
    state_ok c ver (fst (run c ver (map snd ops))) (snd (run c ver (map snd ops))) /\
    no_empty_list (fst (run c ver (map snd ops))) = true /\
    nodup_ok (fst (run c ver (map snd ops))).
  Proof.
    intros ops Hset Hone Hperm Hall. unfold vrun, run.
    apply (runs_in_step ops ((ver, VNull), []) (VNull, []) Hset Hone Hperm Hall).
    - apply initial_state_ok.
    - reflexivity.
    - left. reflexivity.
    - split; reflexivity.
  Qed.

  Theorem multi_version_run_transparent : forall ops,
    setting_ok c R ver -> one_schema -> order_perm ->
    Forall vop_ok ops ->
    corresponds (vrun ops) (run c ver (map snd ops)).
  Proof.
    intros ops Hset Hone Hperm Hall. apply (runs_from_start ops Hset Hone Hperm Hall).
  Qed.

  (* the outcome of each single operation is the same too: a conflict or error in one run is
     the same conflict or error in the other *)
  Theorem multi_version_apply_outcome : forall ops v mgr cfg force,
    setting_ok c R ver -> one_schema -> order_perm ->
    Forall vop_ok ops -> vop_ok (v, HApply mgr cfg force) ->
    match apply_op c (fst (vrun ops)) (v, cfg) v (snd (vrun ops)) mgr force,
          apply_op c (ver, fst (run c ver (map snd ops))) (ver, cfg) ver
                   (snd (run c ver (map snd ops))) mgr force with
    | UOk (o, mf'), UOk (o1, mf1) => option_map snd o = option_map snd o1 /\ relabel ver mf' = mf1
    | UErr e, UErr e1 => e = e1
    | _, _ => False
    end.
  Proof.
    intros ops v mgr cfg force Hset Hone Hperm Hall [Hop _]. cbn [snd] in Hop.
    destruct (runs_from_start ops Hset Hone Hperm Hall) as ([Hl Hm] & Hst & Hnel & Hnd).
    destruct (vrun ops) as [[lv live] mfv]. destruct (run c ver (map snd ops)) as [live1 mf1].
    cbn [fst snd] in *. subst live1 mf1. rewrite relabel_relab in *.
    destruct (apply_labels c R ver Hset Hone Hperm lv live mfv v mgr cfg force Hst Hnel Hnd Hop) as [Hsame _].
    exact Hsame.
  Qed.

  (* the same for an update *)
  Theorem multi_version_update_outcome : forall ops v mgr obj,
    setting_ok c R ver -> one_schema -> order_perm ->
    Forall vop_ok ops ->
    match update_op c (fst (vrun ops)) (v, obj) v (snd (vrun ops)) mgr,
          update_op c (ver, fst (run c ver (map snd ops))) (ver, obj) ver
                    (snd (run c ver (map snd ops))) mgr with
    | UOk (t, mf'), UOk (t1, mf1) => snd t = snd t1 /\ relabel ver mf' = mf1
    | UErr e, UErr e1 => e = e1
    | _, _ => False
    end.
  Proof.
    intros ops v mgr obj Hset Hone Hperm Hall.
    destruct (runs_from_start ops Hset Hone Hperm Hall) as ([Hl Hm] & Hst & Hnel & Hnd).
    destruct (vrun ops) as [[lv live] mfv]. destruct (run c ver (map snd ops)) as [live1 mf1].
    cbn [fst snd] in *. subst live1 mf1. rewrite relabel_relab in *.
    exact (update_labels c R ver Hset Hone lv live mfv v mgr obj Hst).
  Qed.
End Transparent.

(* ================= level 1 as stated is false ================= *)

(* The statement of Proofs/Transparent_statements.v constrains, through [mf_get], only the
   first record of each manager name.  Below "a" has two records; the second one (label v2)
   is ill formed: its members zz, items are not sorted.  The closure [ps_en] inserts the named
   parent mm by bisection: at the END of the list zz, items in the pass for v2 of the
   multi-version run, where the linear difference of update.go does not find it (mm is pruned
   although the record owns mm.k2); after zz, items were merged behind aa in the union the
   single-version run computes, bisection inserts mm right after aa, where it is found. *)
Section Refuted.
  Open Scope string_scope.
  Let F := PEField.

  Definition rf_M : value := VMap [("aa", VInt 1); ("mm", VMap [("k1", VInt 1); ("k2", VInt 2)])].
  Definition rf_bad : pset := PSet [F "zz"; F "items"] [(F "mm", PSet [F "k2"] [])].
  Definition rf_mf : managed :=
    [("a", mkRec (ps_of_paths [[F "aa"]]) "v1" false);
     ("a", mkRec rf_bad "v2" false);
     ("c", mkRec (ps_of_paths [[F "aa"]]) "v3" true)].
  Definition rf_last : mrec := mkRec (ps_of_paths [[F "mm"; F "k2"]]) "v3" true.

  Definition prune_transparent_as_stated : Prop :=
    forall (c : config) (R : typeref -> Prop) (ver : string)
           (M : value) (mf : managed) (last : mrec) n lm mgr o n1,
    setting_ok c R ver -> one_schema c ver -> order_perm c ->
    wf_value M = true -> conforms (schema_of c ver) (tr_of c ver) false M = true ->
    no_empty_list M = true ->
    ps_ok (mr_set last) = true -> applier_record_ok (schema_of c ver) (tr_of c ver) (mr_set last) ->
    (forall m r, mf_get m mf = Some r ->
       ps_ok (mr_set r) = true /\ owns_live_keys (schema_of c ver) (tr_of c ver) M (mr_set r)) ->
    prune c n (lm, M) mf mgr (Some last) = UOk (o, n1) ->
    exists o' n2,
      prune c n (ver, M) (relabel ver mf) mgr
            (Some (mkRec (mr_set last) ver (mr_applied last))) = UOk (o', n2) /\
      snd o' = snd o.

  Example rf_runs :
    ps_ok rf_bad = false /\ mf_get "a" rf_mf = Some (mkRec (ps_of_paths [[F "aa"]]) "v1" false) /\
    prune ex_config 0 ("v3", rf_M) rf_mf "c" (Some rf_last) = UOk (("v3", VMap [("aa", VInt 1)]), 9) /\
    prune ex_config 0 ("v1", rf_M) (relabel "v1" rf_mf) "c"
          (Some (mkRec (mr_set rf_last) "v1" (mr_applied rf_last))) = UOk (("v1", rf_M), 5).
  Proof. repeat split; vm_compute; reflexivity. Qed.

  Theorem prune_transparent_as_stated_refuted : ~ prune_transparent_as_stated.
  Proof.
    intros H.
    destruct (H ex_config FieldSetLaws.ex_R "v1" rf_M rf_mf rf_last 0 "v3" "c"
                ("v3", VMap [("aa", VInt 1)]) 9) as (o' & n2 & Hp & Hs).
    - exact ex_setting_ok.
    - intros v. reflexivity.
    - intros l. apply Permutation_refl.
    - vm_compute. reflexivity.
    - vm_compute. reflexivity.
    - vm_compute. reflexivity.
    - vm_compute. reflexivity.
    - split.
      + apply SetCheckers.keys_closed_b_sound; vm_compute; reflexivity.
      + apply (SetCheckers.no_atomic_free ex_schema FieldSetLaws.ex_R FieldSetLaws.ex_schema_ok).
        * unfold FieldSetLaws.ex_R. simpl. tauto.
        * exact ex_no_atomic.
        * exact FieldSetLaws.ex_R_root.
    - intros m r Hg. unfold mf_get, rf_mf in Hg. cbn [assoc_get] in Hg.
      destruct (String.eqb m "a").
      + inversion Hg; subst r. split; [vm_compute; reflexivity|].
        unfold owns_live_keys. intros pre fl k.
        apply (SetCheckers.owns_live_keys_b_sound ex_schema FieldSetLaws.ex_R FieldSetLaws.ex_schema_ok
                 ex_rt rf_M _ FieldSetLaws.ex_R_root); vm_compute; reflexivity.
      + destruct (String.eqb m "c"); [|discriminate].
        inversion Hg; subst r. split; [vm_compute; reflexivity|].
        unfold owns_live_keys. intros pre fl k.
        apply (SetCheckers.owns_live_keys_b_sound ex_schema FieldSetLaws.ex_R FieldSetLaws.ex_schema_ok
                 ex_rt rf_M _ FieldSetLaws.ex_R_root); vm_compute; reflexivity.
    - vm_compute. reflexivity.
    - destruct rf_runs as (_ & _ & _ & Hsingle). rewrite Hsingle in Hp.
      inversion Hp; subst o'. cbn [snd] in Hs. discriminate Hs.
  Qed.
End Refuted.

(* ================= non-vacuity ================= *)

(* Six operations by three managers at three labels over the example schema, every label
   carrying the same schema, identity converter, the versions other than the pruned one
   visited in REVERSE order:
     a applies the list member x at v1 (owns the member and its key);
     b updates at v2: gives x the field vv (owns x.vv);
     c applies aa and the member x with vv at v3 (co-owns everything);
     c applies aa alone at v3: abandons the member x -- owned at v1, with vv beneath it owned
       at v2.  The prune stage removes everything c owned; the pass for v3 brings aa back, the
       pass for v2 cannot bring x.vv back while x is absent, the pass for v1 brings x back: one
       round leaves x without vv [example_needs_two_rounds]; the second round restores it;
     b updates at v2: changes aa, adds the member y;
     a applies mm.k at v1 with force: abandons x.
   Every hypothesis of the theorems holds, and the two runs correspond -- by the theorem, and
   by evaluation. *)
Section Example.
  Open Scope string_scope.
  Let F := PEField.
  Let K (n : string) := PEKey [("name", VStr n)].
  Let item (n : string) (v : Z) := VMap [("name", VStr n); ("vv", VInt v)].
  Let itemn (n : string) := VMap [("name", VStr n)].

  Definition exr_config : config := with_order ex_config (@rev string).

  Definition tx_ops : list vhop :=
    [ ("v1", HApply "a" (VMap [("items", VList [itemn "x"])]) false);
      ("v2", HUpdate "b" (VMap [("items", VList [item "x" 5])]));
      ("v3", HApply "c" (VMap [("aa", VInt 1); ("items", VList [item "x" 5])]) false);
      ("v3", HApply "c" (VMap [("aa", VInt 1)]) false);
      ("v2", HUpdate "b" (VMap [("aa", VInt 2); ("items", VList [item "x" 5; item "y" 6])]));
      ("v1", HApply "a" (VMap [("mm", VMap [("k", VInt 2)])]) true) ].

  Definition tx_obj : value :=
    VMap [("aa", VInt 2); ("items", VList [item "y" 6]); ("mm", VMap [("k", VInt 2)])].
  Definition tx_set_a : pset := ps_of_paths [[F "mm"; F "k"]].
  Definition tx_set_b : pset :=
    ps_of_paths [[F "aa"]; [F "items"; K "y"]; [F "items"; K "y"; F "name"]; [F "items"; K "y"; F "vv"]].

  Lemma exr_setting_ok : setting_ok exr_config FieldSetLaws.ex_R "v1".
  Proof.
    split; [split; reflexivity|]. split; [intros n from to v; reflexivity|].
    split; [exact FieldSetLaws.ex_schema_ok|]. split; [exact FieldSetLaws.ex_family|].
    split; [exact ex_lists_pure_fs|]. split; [exact FieldSetLaws.ex_R_root|exact ex_keys_plain].
  Qed.

  Lemma exr_one_schema : one_schema exr_config "v1".
  Proof. intros v. reflexivity. Qed.

  Lemma exr_order_perm : order_perm exr_config.
  Proof. intros l. apply Permutation_rev. Qed.

  Lemma tx_ops_ok : Forall (vop_ok exr_config "v1") tx_ops.
  Proof. repeat constructor; try (vm_compute; reflexivity); vm_compute; exact I. Qed.

  Lemma tx_vrun : vrun exr_config "v1" tx_ops =
    (("v1", tx_obj), [("a", mkRec tx_set_a "v1" true); ("b", mkRec tx_set_b "v2" false)]).
  Proof. vm_compute. reflexivity. Qed.

  Lemma tx_run : run exr_config "v1" (map snd tx_ops) =
    (tx_obj, [("a", mkRec tx_set_a "v1" true); ("b", mkRec tx_set_b "v1" false)]).
  Proof. vm_compute. reflexivity. Qed.

  Example transparent_example :
    setting_ok exr_config FieldSetLaws.ex_R "v1" /\ one_schema exr_config "v1" /\ order_perm exr_config /\
    Forall (vop_ok exr_config "v1") tx_ops /\
    map fst tx_ops = ["v1"; "v2"; "v3"; "v3"; "v2"; "v1"] /\
    (* by the theorem *)
    corresponds "v1" (vrun exr_config "v1" tx_ops) (run exr_config "v1" (map snd tx_ops)) /\
    (* by evaluation: the multi-version run keeps the labels the records were written at *)
    vrun exr_config "v1" tx_ops =
      (("v1", tx_obj), [("a", mkRec tx_set_a "v1" true); ("b", mkRec tx_set_b "v2" false)]) /\
    run exr_config "v1" (map snd tx_ops) =
      (tx_obj, [("a", mkRec tx_set_a "v1" true); ("b", mkRec tx_set_b "v1" false)]).
  Proof.
    split; [exact exr_setting_ok|]. split; [exact exr_one_schema|]. split; [exact exr_order_perm|].
    split; [exact tx_ops_ok|]. split; [reflexivity|]. split.
    - apply (multi_version_run_transparent exr_config FieldSetLaws.ex_R "v1" tx_ops
               exr_setting_ok exr_one_schema exr_order_perm tx_ops_ok).
    - split; [exact tx_vrun|exact tx_run].
  Qed.

  (* the state before the fourth operation, and the prune stage of that operation *)
  Definition tx_M : value := VMap [("aa", VInt 1); ("items", VList [item "x" 5])].
  Definition tx_mf3 : managed :=
    [("a", mkRec (ps_of_paths [[F "items"; K "x"]; [F "items"; K "x"; F "name"]]) "v1" true);
     ("b", mkRec (ps_of_paths [[F "items"; K "x"; F "vv"]]) "v2" false);
     ("c", mkRec (ps_of_paths [[F "aa"]; [F "items"; K "x"]; [F "items"; K "x"; F "name"];
                               [F "items"; K "x"; F "vv"]]) "v3" true)].
  Definition tx_mfp : managed := mf_set "c" (mkRec (ps_of_paths [[F "aa"]]) "v3" true) tx_mf3.
  Definition tx_last : mrec :=
    mkRec (ps_of_paths [[F "aa"]; [F "items"; K "x"]; [F "items"; K "x"; F "name"];
                        [F "items"; K "x"; F "vv"]]) "v3" true.

  Example example_needs_two_rounds :
    vrun exr_config "v1" (firstn 3 tx_ops) = (("v2", tx_M), tx_mf3) /\
    (* what the applier owned is removed first: nothing is left *)
    remove ex_schema ex_rt tx_M (ps_en ex_schema ex_rt (mr_set tx_last)) = VNull /\
    (* the versions are visited as v3 (the pruned one), v2, v1 *)
    map fst (managed_at_version tx_mfp) = ["v1"; "v2"; "v3"] /\
    (* one round: the member x is back, its field vv (owned at v2, visited before v1) is not *)
    add_back_round exr_config (managed_at_version tx_mfp) ["v3"; "v2"; "v1"] 4 ("v3", tx_M) ("v3", VNull)
      = UOk (("v1", tx_M), ("v1", VMap [("aa", VInt 1); ("items", VList [itemn "x"])]), true, 10) /\
    (* the loop: three rounds (18 conversions), the whole object is back *)
    add_back_owned exr_config 4 ("v3", tx_M) ("v3", VNull) "v3" tx_mfp = UOk (("v1", tx_M), 22) /\
    prune exr_config 3 ("v2", tx_M) tx_mfp "c" (Some tx_last) = UOk (("v3", tx_M), 24).
  Proof. repeat split; vm_compute; reflexivity. Qed.
End Example.

(* ================= assumptions ================= *)
