(* Serialisation laws, part 2: the parsing loop over abstract actions: well-formedness of
   the result for any input, and the meaning of the result for clean inputs. *)
From Coq Require Import List ZArith String Bool Arith Lia Permutation.
From SMD Require Import Base.Search Model.Value Model.Order Model.PathElem Model.PathSet Model.Serialize
  Spec.PathsAsSets Proofs.OrderLaws Proofs.SearchLaws Proofs.KeyLaws Proofs.PesLaws Proofs.TrieBase
  Proofs.SerializeBase.
Import ListNotations.
Open Scope bool_scope.

(* ---------- any input: the state stays well formed ---------- *)
Definition wfk_act (a : jkey * pres) : Prop :=
  match fst a with JPe e => wf_pe e = true | _ => True end /\ good_grand (fst (fst (snd a))).

Lemma run_ok : forall l st i e, Forall wfk_act l -> stok st -> stok (fst (fst (run l st i e))).
Proof.
  induction l as [|[k [[grand cim] err']] rest IH]; intros st i e Hl Hst; [exact Hst|].
  inversion Hl as [|? ? [Hk Hg] Hrest]; subst. cbn [run]. destruct e; [exact Hst|].
  destruct k; try (apply IH; auto).
  apply pstep_ok; auto.
Qed.

Lemma stok_good : forall st, stok st -> good_grand st.
Proof. intros st [Hok Hne] g E. subst st. split; auto. Qed.

Lemma finish_fst : forall r, fst (fst (finish r)) = fst (fst r).
Proof. intros [[c i] e]. reflexivity. Qed.

Fixpoint jtree_wf0 (t : jtree) : bool :=
  match t with
  | JObj ms => forallb (fun km : jkey * jtree =>
                          match fst km with JPe e => wf_pe e | _ => true end && jtree_wf0 (snd km)) ms
  end.

Lemma parse_good : forall t, jtree_wf0 t = true -> stok (fst (fst (parse t))).
Proof.
  induction t as [ms IH] using jtree_ind'. intros Hwf.
  rewrite parse_run, finish_fst. apply run_ok; [|apply stok_None].
  cbn [jtree_wf0] in Hwf. rewrite forallb_forall in Hwf.
  rewrite Forall_forall in *. intros a Ha. apply in_map_iff in Ha. destruct Ha as (km & <- & Hkm).
  specialize (Hwf km Hkm). apply andb_true_iff in Hwf. destruct Hwf as [Hk Ht].
  unfold wfk_act, act_of. cbn [fst snd]. split.
  - destruct (fst km); auto.
  - apply stok_good. apply IH; auto.
Qed.

Lemma from_json_norm : forall t, fst (from_json t) = norm (fst (fst (parse t))).
Proof. intros t. unfold from_json. destruct (parse t) as [[c i] e]. reflexivity. Qed.

Lemma parse_any_ok0 : forall t, jtree_wf0 t = true -> ps_ok (fst (from_json t)) = true.
Proof. intros t H. rewrite from_json_norm. apply (parse_good t H). Qed.

(* ---------- clean input: the meaning of the result ---------- *)
Definition amatch_mem (x : pe) (a : jkey * pres) : bool :=
  match a with (JPe e, (_, true, _)) => peeqb x e | _ => false end.
Definition amem (x : pe) (acts : list (jkey * pres)) : bool := existsb (amatch_mem x) acts.

Definition amatch_child (x : pe) (a : jkey * pres) : option pset :=
  match a with (JPe e, (Some g, _, _)) => if peeqb x e then Some g else None | _ => None end.
(* the last matching key wins *)
Fixpoint alook (x : pe) (acts : list (jkey * pres)) : option pset :=
  match acts with
  | [] => None
  | a :: rest => match alook x rest with Some g => Some g | None => amatch_child x a end
  end.

Definition is_self (a : jkey * pres) : bool := match fst a with JSelf => true | _ => false end.
Definition aself (acts : list (jkey * pres)) : bool := existsb is_self acts.

Definition clean_act (a : jkey * pres) : Prop :=
  match a with
  | (JPe e, (grand, cim, err)) => wf_pe e = true /\ good_grand grand /\ err = false
  | (JBad, _) => False
  | _ => True
  end.

Lemma alook_nonpe : forall x k r l, (forall e, k <> JPe e) -> alook x ((k, r) :: l) = alook x l.
Proof.
  intros x k r l Hk. cbn [alook]. destruct (alook x l); [reflexivity|].
  destruct k; try reflexivity. exfalso. apply (Hk e). reflexivity.
Qed.
Lemma amem_nonpe : forall x k r l, (forall e, k <> JPe e) -> amem x ((k, r) :: l) = amem x l.
Proof.
  intros x k r l Hk. unfold amem. cbn [existsb].
  destruct k; try reflexivity. exfalso. apply (Hk e). reflexivity.
Qed.

Lemma run_sem : forall acts st i, Forall clean_act acts -> stok st ->
  exists st', run acts st i false = (st', i || aself acts, false) /\ stok st' /\
    (forall x, wf_pe x = true -> ps_has [x] (norm st') = ps_has [x] (norm st) || amem x acts) /\
    (forall x p0 p', wf_pe x = true ->
       ps_has (x :: p0 :: p') (norm st') =
         match alook x acts with
         | Some g => ps_has (p0 :: p') g
         | None => ps_has (x :: p0 :: p') (norm st)
         end).
Proof.
  induction acts as [|[k [[grand cim] err']] rest IH]; intros st i Hc Hst.
  - exists st. split; [cbn; rewrite orb_false_r; reflexivity|]. split; [exact Hst|]. split.
    + intros x _. cbn [amem existsb]. rewrite orb_false_r. reflexivity.
    + intros x p0 p' _. reflexivity.
  - inversion Hc as [|? ? Ha Hrest]; subst. cbn [run]. destruct k; cbn [clean_act] in Ha.
    + (* JSelf *)
      destruct (IH st true Hrest Hst) as (st' & Hr & Hok & H1 & H2).
      exists st'. rewrite Hr. unfold aself. cbn [existsb is_self fst]. rewrite orb_true_r.
      split; [reflexivity|]. split; [exact Hok|]. split.
      * intros x Hx. rewrite amem_nonpe by discriminate. auto.
      * intros x p0 p' Hx. rewrite alook_nonpe by discriminate. auto.
    + (* JPe *)
      destruct Ha as (He & Hg & ->).
      assert (Hst2 : stok (pstep e grand cim st)) by (apply pstep_ok; auto).
      destruct (IH (pstep e grand cim st) i Hrest Hst2) as (st' & Hr & Hok & H1 & H2).
      exists st'. rewrite orb_false_r. rewrite Hr.
      split; [reflexivity|]. split; [exact Hok|]. split.
      * intros x Hx. rewrite (H1 x Hx). rewrite pstep_has_one by auto.
        unfold amem. cbn [existsb amatch_mem].
        destruct cim, (peeqb x e), (ps_has [x] (norm st)), (existsb (amatch_mem x) rest); reflexivity.
      * intros x p0 p' Hx. rewrite (H2 x p0 p' Hx). cbn [alook].
        destruct (alook x rest) as [g'|]; [reflexivity|].
        rewrite pstep_has_more by auto. cbn [amatch_child].
        destruct grand as [g|]; [|reflexivity]. destruct (peeqb x e); reflexivity.
    + (* JUnknown *)
      destruct (IH st i Hrest Hst) as (st' & Hr & Hok & H1 & H2).
      exists st'. rewrite Hr. split; [reflexivity|]. split; [exact Hok|]. split.
      * intros x Hx. rewrite amem_nonpe by discriminate. auto.
      * intros x p0 p' Hx. rewrite alook_nonpe by discriminate. auto.
    + destruct Ha.
Qed.

(* ---------- permutations ---------- *)
Lemma existsb_perm : forall (A : Type) (f : A -> bool) l l', Permutation l l' -> existsb f l = existsb f l'.
Proof.
  intros A f l l' H. induction H as [|x l l' H IH|x y l|l l' l'' H1 IH1 H2 IH2]; simpl; auto.
  - rewrite IH. reflexivity.
  - destruct (f x), (f y); reflexivity.
  - congruence.
Qed.

Definition uniq (acts : list (jkey * pres)) : Prop :=
  forall a b, In a acts -> In b acts -> forall e1 e2, fst a = JPe e1 -> fst b = JPe e2 ->
    pecmp e1 e2 = Eq -> a = b.

Lemma uniq_perm : forall l l', Permutation l l' -> uniq l -> uniq l'.
Proof.
  intros l l' Hp Hu a b Ha Hb. apply Hu; eapply Permutation_in; try apply Permutation_sym; eauto.
Qed.

Lemma uniq_tail : forall a l, uniq (a :: l) -> uniq l.
Proof. intros a l Hu x y Hx Hy. apply Hu; simpl; auto. Qed.

Definition wfkey (a : jkey * pres) : Prop := match fst a with JPe e => wf_pe e = true | _ => True end.

Lemma alook_Some : forall x acts g, alook x acts = Some g ->
  exists e cim er, In (JPe e, (Some g, cim, er)) acts /\ peeqb x e = true.
Proof.
  intros x acts g. induction acts as [|a rest IH]; [discriminate|]. cbn [alook].
  destruct (alook x rest) as [g'|].
  - intros E. inversion E; subst. destruct (IH eq_refl) as (e & cim & er & Hin & Heq).
    exists e, cim, er. simpl. auto.
  - intros E. destruct a as [[| e | |] [[[g'|] cim] er]]; cbn [amatch_child] in E; try discriminate.
    destruct (peeqb x e) eqn:Heq; [|discriminate]. inversion E; subst.
    exists e, cim, er. simpl. auto.
Qed.

Lemma alook_In : forall x acts e g cim er, uniq acts -> Forall wfkey acts -> wf_pe x = true ->
  In (JPe e, (Some g, cim, er)) acts -> peeqb x e = true -> alook x acts = Some g.
Proof.
  intros x acts e g cim er. induction acts as [|a rest IH]; intros Hu Hw Hx Hin Heq; [destruct Hin|].
  inversion Hw as [|? ? Hwa Hwr]; subst. cbn [alook].
  assert (He : wf_pe e = true).
  { rewrite Forall_forall in Hw. apply (Hw _ Hin). }
  destruct (alook x rest) as [g'|] eqn:El.
  - destruct (alook_Some x rest g' El) as (e' & cim' & er' & Hin' & Heq').
    assert (He' : wf_pe e' = true).
    { rewrite Forall_forall in Hwr. apply (Hwr _ Hin'). }
    assert (Hc : pecmp e e' = Eq).
    { rewrite <- (pecmp_eq_l x e e'); apply peeqb_cmp; auto. }
    assert (E := Hu _ _ Hin (or_intror Hin') e e' eq_refl eq_refl Hc).
    inversion E; subst. reflexivity.
  - destruct Hin as [->|Hin].
    + cbn [amatch_child]. rewrite Heq. reflexivity.
    + discriminate (IH (uniq_tail _ _ Hu) Hwr Hx Hin Heq).
Qed.

Lemma alook_perm : forall x l l', Permutation l l' -> uniq l -> Forall wfkey l -> wf_pe x = true ->
  alook x l = alook x l'.
Proof.
  intros x l l' Hp Hu Hw Hx.
  assert (Hu' : uniq l') by (eapply uniq_perm; eauto).
  assert (Hw' : Forall wfkey l') by (eapply Permutation_Forall; eauto).
  destruct (alook x l) as [g|] eqn:E1.
  - destruct (alook_Some x l g E1) as (e & cim & er & Hin & Heq).
    symmetry. eapply alook_In; eauto. eapply Permutation_in; eauto.
  - destruct (alook x l') as [g|] eqn:E2; [|reflexivity].
    destruct (alook_Some x l' g E2) as (e & cim & er & Hin & Heq).
    rewrite <- E1. eapply alook_In; eauto. eapply Permutation_in; [apply Permutation_sym|]; eauto.
Qed.

(* a marker in front changes nothing *)
Lemma amem_self : forall x r l, amem x ((JSelf, r) :: l) = amem x l.
Proof. reflexivity. Qed.
Lemma alook_self : forall x r l, alook x ((JSelf, r) :: l) = alook x l.
Proof. intros x r l. cbn [alook]. destruct (alook x l); reflexivity. Qed.
Lemma uniq_self : forall r l, uniq l -> uniq ((JSelf, r) :: l).
Proof.
  intros r l Hu a b [<-|Ha] [<-|Hb] e1 e2 E1 E2; try discriminate. apply Hu; auto.
Qed.

(* sorted keys are unique *)
Definition akey (a : jkey * pres) : pe := match fst a with JPe e => e | _ => pe_default end.

Lemma ksorted_uniq : forall l, ksorted akey l -> uniq l.
Proof.
  induction l as [|x t IH]; intros Hs a b Ha Hb e1 e2 E1 E2 Hc; [destruct Ha|].
  destruct Hs as [Hx Ht]. unfold klt in Hx. rewrite Forall_forall in Hx.
  destruct Ha as [<-|Ha], Hb as [<-|Hb]; auto.
  - exfalso. specialize (Hx b Hb). unfold akey in Hx. rewrite E1, E2 in Hx. congruence.
  - exfalso. specialize (Hx a Ha). unfold akey in Hx. rewrite E1, E2 in Hx.
    rewrite pecmp_antisym, Hx in Hc. discriminate.
  - apply (IH Ht a b Ha Hb e1 e2 E1 E2 Hc).
Qed.
