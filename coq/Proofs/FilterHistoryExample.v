(* Non-vacuity of Proofs/FilterHistory.v.

   Configuration [fh_config]: Spec/Examples.v's [ex_config] with, for version v1, the include
   filter NewIncludeMatcherFilter(PrefixMatcher(mm), PrefixMatcher(items, *, vv)): kept are
   mm and everything beneath, items, every element of items, and the field vv of every
   element; IGNORED are aa, and the fields name and tags of every element of items.
   All hypotheses of the theorems are proved for it.

   History [fh_ops]: five operations by two managers; the first four all succeed, every one
   of them writes the ignored field aa (1, 5, 7, 9) and the ignored items[a].tags with a new
   value.  The invariant holds by the theorem and by evaluation; the records are non-empty.
   - The fourth operation (m1 applies aa = 9 WITHOUT force, after m2 applied aa = 7) succeeds:
     no conflict on the ignored field, although both managers set it differently.  With
     nothing ignored (ex_config) the very same operation is refused with a conflict on aa.
   - The fifth operation (m2 applies items[a].vv = 2, m1 owns it) IS refused, with a conflict
     on the kept path items[a].vv: conflicts do arise, on kept paths only
     (conflicts_only_on_kept_along_histories applied to it).

   Schema change [fh_config_at]: the same filter over a schema in which the list items has
   turned ATOMIC.  The reconciliation that opens the next operation rewrites both records
   (items[a], items[a].vv  ~>  items); the new member items is a strict prefix of the pattern
   (items, *, vv) and is kept: the invariant survives (by reconcile_only_kept, by
   only_kept_along_changing_histories for the whole six-operation history, and by evaluation). *)
From Coq Require Import List ZArith String Bool.
From SMD Require Import Model.Value Model.PathElem Model.PathSet Model.Schema Model.Matcher Model.Updater
  Spec.PathsAsSets Spec.Patterns Spec.Examples Proofs.OrderLaws Proofs.PathSetLaws Proofs.UpdaterLaws Proofs.UpdaterLaws2
  Proofs.IgnoredHistory Proofs.FilterHistoryBase Proofs.FilterHistory.
From SMD Require Proofs.SchemaOk Proofs.ValidateLaws Proofs.IncludeLaws.
Import ListNotations.
Open Scope string_scope.

(* ================= the configuration ================= *)

Definition fh_patterns : list (list pematcher) :=
  [ [PMElem (PEField "mm")];
    [PMElem (PEField "items"); PMWild; PMElem (PEField "vv")] ].

Definition fh_table : pattern_table := [("v1", fh_patterns)].

Definition fh_config : config :=
  mkConfig (cfg_schema ex_config) (cfg_convert ex_config)
    None (Some (filters_of_table fh_table))
    (cfg_return_input_on_noop ex_config) (cfg_version_order ex_config).

(* the matcher NewIncludeMatcherFilter builds: members sorted, the wildcard under items *)
Example fh_filter_computed :
  cfg_ignore_filter fh_config =
  Some [("v1", FInclude
     (SM false
        [(PMElem (PEField "items"),
          SM false [(PMWild, SM false [(PMElem (PEField "vv"), SM true [])])]);
         (PMElem (PEField "mm"), SM true [])]))].
Proof. vm_compute. reflexivity. Qed.

Theorem fh_config_patterns : pattern_config fh_table fh_config.
Proof.
  split; [reflexivity|]. split; [reflexivity|].
  repeat constructor.
Qed.

Theorem fh_config_filter : filter_config fh_config.
Proof. exact (pattern_config_filter_config fh_table fh_config fh_config_patterns). Qed.

Theorem fh_config_compare_ok : compare_ok_wf fh_config.
Proof. apply compare_ok_wf_of_schema_ok. exact ex_config_schemas_ok. Qed.

Theorem fh_config_fs_ok : fs_ok_wf fh_config.
Proof. apply fs_ok_wf_of_schema_ok. exact ex_config_schemas_ok. Qed.

Theorem fh_config_conv_wf : conv_wf fh_config.
Proof. intros n from to v v' Hv H. cbn in H. inversion H; subst v'. exact Hv. Qed.

Definition p_aa : path := [PEField "aa"].
Definition p_item : path := [PEField "items"; PEKey [("name", VStr "a")]].
Definition p_vv : path := (p_item ++ [PEField "vv"])%list.
Definition p_name : path := (p_item ++ [PEField "name"])%list.
Definition p_tag (t : string) : path := (p_item ++ [PEField "tags"; PEValue (VStr t)])%list.
Definition p_mm (k : string) : path := [PEField "mm"; PEField k].

(* what is kept and what is ignored at v1 (reference notion and model notion agree) *)
Example fh_kept_and_ignored :
  map (kept_by fh_table "v1") [p_aa; p_item; p_vv; p_name; p_tag "t1"; p_mm "x"; [PEField "items"]]
    = [false; true; true; false; false; true; true] /\
  map (kept_at fh_config "v1") [p_aa; p_item; p_vv; p_name; p_tag "t1"; p_mm "x"; [PEField "items"]]
    = [false; true; true; false; false; true; true].
Proof. split; vm_compute; reflexivity. Qed.

(* ================= the history ================= *)

Definition item (n : string) (vv : Z) (tag : string) : value :=
  VMap [("name", VStr n); ("tags", VList [VStr tag]); ("vv", VInt vv)].

Definition fh_obj (aa : Z) (vv : Z) (tag : string) (mm : list (string * value)) : value :=
  VMap [("aa", VInt aa); ("items", VList [item "a" vv tag]); ("mm", VMap mm)].

Definition fh_op4 : value := fh_obj 9 1 "t4" [("x", VInt 2)].
Definition fh_op5 : value := VMap [("items", VList [item "a" 2 "t5"])].

Definition fh_ops : list vop :=
  [ VApply "m1" "v1" (fh_obj 1 1 "t1" [("x", VInt 1)]) false;
    VUpdate "m2" "v1" (fh_obj 5 1 "t2" [("x", VInt 1); ("y", VInt 2)]);
    VApply "m2" "v1" (fh_obj 7 1 "t3" [("z", VInt 3)]) false;
    VApply "m1" "v1" fh_op4 false;
    VApply "m2" "v1" fh_op5 false ].

Theorem fh_ops_ok : Forall vop_ok fh_ops.
Proof. repeat constructor. Qed.

Definition fh_rec (k : string) : mrec := mkRec (ps_of_paths [p_item; p_vv; p_mm k]) "v1" true.

Definition fh_final_mf : managed := [("m1", fh_rec "x"); ("m2", fh_rec "z")].

(* the first four operations succeed and take effect on the ignored fields: aa = 1, 5, 7, 9,
   the tags change; the fifth is refused and leaves the state *)
Example fh_history_computed :
  map (fun n => snd (fst (vrun fh_config "v1" (firstn n fh_ops)))) [1; 2; 3; 4; 5]%nat =
  [ fh_obj 1 1 "t1" [("x", VInt 1)];
    fh_obj 5 1 "t2" [("x", VInt 1); ("y", VInt 2)];
    VMap [("aa", VInt 7);
          ("items", VList [VMap [("name", VStr "a"); ("tags", VList [VStr "t2"; VStr "t3"]); ("vv", VInt 1)]]);
          ("mm", VMap [("x", VInt 1); ("z", VInt 3)])];
    VMap [("aa", VInt 9);
          ("items", VList [VMap [("name", VStr "a"); ("tags", VList [VStr "t2"; VStr "t3"; VStr "t4"]); ("vv", VInt 1)]]);
          ("mm", VMap [("x", VInt 2); ("z", VInt 3)])];
    VMap [("aa", VInt 9);
          ("items", VList [VMap [("name", VStr "a"); ("tags", VList [VStr "t2"; VStr "t3"; VStr "t4"]); ("vv", VInt 1)]]);
          ("mm", VMap [("x", VInt 2); ("z", VInt 3)])] ] /\
  map (fun n => map (fun mr => (fst mr, ps_elems (mr_set (snd mr)))) (snd (vrun fh_config "v1" (firstn n fh_ops))))
      [1; 2; 3]%nat =
  [ [("m1", [p_item; p_vv; p_mm "x"])];
    [("m1", [p_item; p_vv; p_mm "x"]); ("m2", [p_mm "y"])];
    [("m1", [p_item; p_vv; p_mm "x"]); ("m2", [p_item; p_vv; p_mm "z"])] ] /\
  snd (vrun fh_config "v1" (firstn 4 fh_ops)) = fh_final_mf /\
  snd (vrun fh_config "v1" fh_ops) = fh_final_mf.
Proof. repeat split; vm_compute; reflexivity. Qed.

(* the instance of the theorem, with the reference notion of Spec/Patterns.v *)
Theorem fh_history_only_patterns_owned :
  wf_value (snd (fst (vrun fh_config "v1" fh_ops))) = true /\
  records_inv (snd (vrun fh_config "v1" fh_ops)) /\
  only_patterns_owned fh_table (snd (vrun fh_config "v1" fh_ops)).
Proof.
  exact (only_patterns_along_histories fh_config fh_table "v1" fh_ops fh_config_patterns
           fh_config_compare_ok fh_config_fs_ok fh_config_conv_wf fh_ops_ok).
Qed.

Theorem fh_history_only_kept_owned :
  only_kept_owned fh_config (snd (vrun fh_config "v1" fh_ops)).
Proof.
  apply (only_kept_along_histories fh_config "v1" fh_ops fh_config_filter
           fh_config_compare_ok fh_config_fs_ok fh_config_conv_wf fh_ops_ok).
Qed.

(* ... and by evaluation: every member of every record of every intermediate state is kept *)
Example fh_history_kept_by_evaluation :
  forallb (fun n =>
    forallb (fun mr : string * mrec =>
      forallb (kept_by fh_table (mr_ver (snd mr))) (ps_elems (mr_set (snd mr))))
      (snd (vrun fh_config "v1" (firstn n fh_ops)))) [0; 1; 2; 3; 4; 5]%nat = true.
Proof. vm_compute. reflexivity. Qed.

(* not degenerate: both managers hold a non-empty record at the end; neither contains an
   ignored field, though each manager wrote them *)
Example fh_history_not_degenerate :
  exists r1 r2,
    mf_get "m1" (snd (vrun fh_config "v1" fh_ops)) = Some r1 /\
    mf_get "m2" (snd (vrun fh_config "v1" fh_ops)) = Some r2 /\
    ps_empty (mr_set r1) = false /\ ps_empty (mr_set r2) = false /\
    ps_has p_vv (mr_set r1) = true /\ ps_has (p_mm "x") (mr_set r1) = true /\
    ps_has p_vv (mr_set r2) = true /\ ps_has (p_mm "z") (mr_set r2) = true /\
    forallb (fun p => negb (ps_has p (mr_set r1)) && negb (ps_has p (mr_set r2)))
      [p_aa; p_name; p_tag "t1"; p_tag "t2"; p_tag "t3"; p_tag "t4"] = true.
Proof.
  exists (fh_rec "x"), (fh_rec "z"). repeat split; vm_compute; reflexivity.
Qed.

(* ---- the conflict that does NOT arise: m2 applied aa = 7, then m1 applies aa = 9 without
   force.  Under the filter the operation succeeds and aa becomes 9; with nothing ignored the
   same four operations make m2 the owner of aa and the fourth is refused with a conflict on
   aa, leaving aa = 7 ---- *)
Example fh_no_conflict_on_ignored :
  (exists o mf',
     apply_op fh_config (fst (vrun fh_config "v1" (firstn 3 fh_ops))) ("v1", fh_op4) "v1"
       (snd (vrun fh_config "v1" (firstn 3 fh_ops))) "m1" false = UOk (Some o, mf') /\
     assoc_get "aa" (match snd o with VMap m => m | _ => [] end) = Some (VInt 9) /\
     assoc_get "aa" (match snd (fst (vrun fh_config "v1" (firstn 3 fh_ops))) with VMap m => m | _ => [] end)
       = Some (VInt 7)) /\
  (exists r, mf_get "m2" (snd (vrun ex_config "v1" (firstn 3 fh_ops))) = Some r /\
             ps_has p_aa (mr_set r) = true) /\
  apply_op ex_config (fst (vrun ex_config "v1" (firstn 3 fh_ops))) ("v1", fh_op4) "v1"
    (snd (vrun ex_config "v1" (firstn 3 fh_ops))) "m1" false
  = UErr (EConflict [("m2", p_aa)]) /\
  assoc_get "aa" (match snd (fst (vrun ex_config "v1" fh_ops)) with VMap m => m | _ => [] end)
    = Some (VInt 7).
Proof.
  split; [eexists; eexists; split; [vm_compute; reflexivity|split; vm_compute; reflexivity]|].
  split; [eexists; split; vm_compute; reflexivity|].
  split; vm_compute; reflexivity.
Qed.

(* ---- a conflict that DOES arise, on a kept path: the fifth operation ---- *)
Example fh_conflict_on_kept_computed :
  apply_op fh_config (fst (vrun fh_config "v1" (firstn 4 fh_ops))) ("v1", fh_op5) "v1"
    (snd (vrun fh_config "v1" (firstn 4 fh_ops))) "m2" false
  = UErr (EConflict [("m1", p_vv)]).
Proof. vm_compute. reflexivity. Qed.

(* the theorem applied to it: whatever conflict that operation reports is by another manager
   on a path of its record, kept at its version *)
Theorem fh_conflict_on_kept_by_theorem : forall cs,
  apply_op fh_config (fst (vrun fh_config "v1" (firstn 4 fh_ops))) ("v1", fh_op5) "v1"
    (snd (vrun fh_config "v1" (firstn 4 fh_ops))) "m2" false = UErr (EConflict cs) ->
  forall m p, In (m, p) cs ->
    m <> "m2" /\
    exists mf0 n0 r,
      reconcile_managed fh_config 0 (fst (vrun fh_config "v1" (firstn 4 fh_ops)))
        (snd (vrun fh_config "v1" (firstn 4 fh_ops))) = UOk (mf0, n0) /\
      mf_get m mf0 = Some r /\ wf_path p = true /\ ps_has p (mr_set r) = true /\
      kept_at fh_config (mr_ver r) p = true.
Proof.
  intros cs H.
  apply (conflicts_only_on_kept_along_histories fh_config "v1" (firstn 4 fh_ops) "m2" "v1" fh_op5 false cs
           fh_config_filter fh_config_compare_ok fh_config_fs_ok fh_config_conv_wf).
  - repeat constructor.
  - reflexivity.
  - exact H.
Qed.

(* ================= a schema change: items turns atomic ================= *)

Definition ex_items_at_tr : typeref :=
  TR None (Atom None (Some (ListT (ex_named "item") RAtomic ["name"])) None) None.

Definition ex_root_at : atom :=
  Atom None None
    (Some (MapT [SField "aa" ex_num None;
                 SField "items" ex_items_at_tr None;
                 SField "mm" (TR None (Atom None None (Some (MapT [] ex_num RUnset))) None) None]
                empty_tr RUnset)).

Definition ex_schema_at : schema := [("root", ex_root_at); ("item", ex_item)].

Definition fh_config_at : config :=
  mkConfig (fun _ => (ex_schema_at, ex_rt)) (cfg_convert ex_config)
    None (Some (filters_of_table fh_table))
    (cfg_return_input_on_noop ex_config) (cfg_version_order ex_config).

Definition at_R : typeref -> Prop := fun tr =>
  In tr [ex_rt; ex_named "item"; ex_items_at_tr; ValidateLaws.ex_tags_tr; ValidateLaws.ex_mm_tr;
         ex_str; ex_num; empty_tr].

Ltac at_in_list :=
  solve [unfold at_R; simpl; repeat (first [left; reflexivity | right])].

Ltac at_cases H :=
  unfold at_R in H; simpl in H;
  repeat (destruct H as [H|H]; [subst|]); [..|contradiction].

Lemma at_schema_ok : SchemaOk.schema_ok ex_schema_at at_R.
Proof.
  constructor.
  - intros tr a t Htr Hr Ha.
    at_cases Htr; vm_compute in Hr; inversion Hr; subst a; vm_compute in Ha;
      try discriminate; inversion Ha; subst t; at_in_list.
  - intros tr a m k Htr Hr Ha.
    at_cases Htr; vm_compute in Hr; inversion Hr; subst a; vm_compute in Ha;
      try discriminate; inversion Ha; subst m; unfold field_type; simpl;
      repeat match goal with
             | |- context [String.eqb k ?x] => destruct (String.eqb k x)
             end; at_in_list.
  - intros tr a Htr Hr.
    at_cases Htr; vm_compute in Hr; inversion Hr; subst a; reflexivity.
Qed.

Lemma fh_config_at_schemas_ok : forall ver,
  exists R, SchemaOk.schema_ok (schema_of fh_config_at ver) R /\ R (tr_of fh_config_at ver).
Proof. intros ver. exists at_R. split; [exact at_schema_ok|at_in_list]. Qed.

Theorem fh_config_at_filter : filter_config fh_config_at.
Proof.
  apply (pattern_config_filter_config fh_table).
  split; [reflexivity|]. split; [reflexivity|]. repeat constructor.
Qed.

(* the state after the four successful operations *)
Definition fh_st4 : tv * managed := vrun fh_config "v1" (firstn 4 fh_ops).

(* reconciliation under the new schema rewrites both records: items[a] and items[a].vv are
   replaced by their atomic ancestor items -- a strict prefix of the pattern (items, *, vv) *)
Example fh_reconcile_computed :
  exists n0,
    reconcile_managed fh_config_at 0 (fst fh_st4) (snd fh_st4) =
    UOk ([("m1", mkRec (ps_of_paths [[PEField "items"]; p_mm "x"]) "v1" true);
          ("m2", mkRec (ps_of_paths [[PEField "items"]; p_mm "z"]) "v1" true)], n0) /\
    kept_by fh_table "v1" [PEField "items"] = true.
Proof. eexists. split; vm_compute; reflexivity. Qed.

(* by the theorem: the reconciled records satisfy the invariant *)
Theorem fh_reconcile_only_kept : forall mf0 n0,
  reconcile_managed fh_config_at 0 (fst fh_st4) (snd fh_st4) = UOk (mf0, n0) ->
  only_kept_owned fh_config_at mf0.
Proof.
  intros mf0 n0 H.
  destruct (only_kept_along_histories fh_config "v1" (firstn 4 fh_ops) fh_config_filter
              fh_config_compare_ok fh_config_fs_ok fh_config_conv_wf) as [_ [Hinv Hno]];
    [repeat constructor|].
  apply (reconcile_only_kept fh_config_at 0 (fst fh_st4) (snd fh_st4) mf0 n0 fh_config_at_filter
           (proj1 Hinv)); [|exact H].
  apply (only_kept_same_filter fh_config fh_config_at); [reflexivity|exact Hno].
Qed.

(* the whole history with the schema change after the fourth operation: four operations
   under the old schema, the refused fifth, then m3 updates under the new schema *)
Definition fh_op6 : vop :=
  VUpdate "m3" "v1" (VMap [("aa", VInt 11); ("items", VList [item "b" 1 "t"]);
                           ("mm", VMap [("x", VInt 2); ("z", VInt 3)])]).

Definition fh_cops : list (config * vop) :=
  (map (fun o => (fh_config, o)) fh_ops ++ [(fh_config_at, fh_op6)])%list.

Theorem fh_cops_ok : Forall (cop_ok (Some (filters_of_table fh_table))) fh_cops.
Proof.
  apply Forall_app. split.
  - apply Forall_forall. intros co Hin. apply in_map_iff in Hin. destruct Hin as [o [Heq Hin]].
    subst co. cbn [fst snd]. split; [reflexivity|]. split; [exact fh_config_filter|].
    split; [exact fh_config_compare_ok|]. split; [exact fh_config_fs_ok|].
    split; [exact fh_config_conv_wf|].
    pose proof fh_ops_ok as Hall. rewrite Forall_forall in Hall. exact (Hall o Hin).
  - constructor; [|constructor]. cbn [fst snd]. split; [reflexivity|].
    split; [exact fh_config_at_filter|].
    split; [apply compare_ok_wf_of_schema_ok; exact fh_config_at_schemas_ok|].
    split; [apply fs_ok_wf_of_schema_ok; exact fh_config_at_schemas_ok|].
    split; [intros n from to v v' Hv H; cbn in H; inversion H; subst v'; exact Hv|reflexivity].
Qed.

Theorem fh_changing_history_only_kept :
  wf_value (snd (fst (cvrun "v1" fh_cops))) = true /\
  records_inv (snd (cvrun "v1" fh_cops)) /\
  only_kept_owned fh_config_at (snd (cvrun "v1" fh_cops)).
Proof.
  destruct (only_kept_along_changing_histories _ "v1" fh_cops fh_cops_ok) as [H1 [H2 H3]].
  split; [exact H1|]. split; [exact H2|]. apply H3. reflexivity.
Qed.

(* by evaluation: the update goes through, the reconciled records lose items to the updater
   (who rewrote the atomic list), the updater owns items and NOT the ignored aa it also set *)
Example fh_changing_history_computed :
  map (fun mr => (fst mr, ps_elems (mr_set (snd mr)), mr_applied (snd mr))) (snd (cvrun "v1" fh_cops)) =
  [("m1", [p_mm "x"], true); ("m2", [p_mm "z"], true); ("m3", [[PEField "items"]], false)] /\
  assoc_get "aa" (match snd (fst (cvrun "v1" fh_cops)) with VMap m => m | _ => [] end) = Some (VInt 11).
Proof. split; vm_compute; reflexivity. Qed.

