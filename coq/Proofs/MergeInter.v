(* The index loop of visitListItems, exactly: its output is an interleaving of the
   right-hand members (in the right-hand order, each merged with its left counterpart)
   and of the left-only members (in the left-hand order, unchanged); and the loop replayed
   on such an interleaving with the same right-hand side returns it unchanged. *)
From Coq Require Import List ZArith String Bool Arith Lia.
From SMD Require Import Model.Value Model.Order Model.PathElem Model.PathSet Model.Schema
  Model.Walk Model.Merge Proofs.OrderLaws Proofs.KeyLaws Proofs.PesLaws Proofs.MergeBase
  Proofs.MergeLoop.
Import ListNotations.
Open Scope bool_scope.

Inductive interleave {A : Type} : list A -> list A -> list A -> Prop :=
| il_nil : interleave [] [] []
| il_l : forall x a b c, interleave a b c -> interleave (x :: a) b (x :: c)
| il_r : forall x a b c, interleave a b c -> interleave a (x :: b) (x :: c).

Lemma interleave_nil_l : forall (A : Type) (b c : list A), interleave [] b c -> c = b.
Proof.
  intros A b c H. remember (@nil A) as a eqn:Ea. induction H as [|x a b c H IH|x a b c H IH].
  - reflexivity.
  - discriminate.
  - rewrite (IH Ea). reflexivity.
Qed.

Lemma interleave_nil_r : forall (A : Type) (a c : list A), interleave a [] c -> c = a.
Proof.
  intros A a c H. remember (@nil A) as b eqn:Eb. induction H as [|x a b c H IH|x a b c H IH].
  - reflexivity.
  - rewrite (IH Eb). reflexivity.
  - discriminate.
Qed.

Lemma interleave_filter : forall (A : Type) (p : A -> bool) (a b c : list A),
  interleave a b c -> interleave (filter p a) (filter p b) (filter p c).
Proof.
  intros A p a b c H. induction H as [|x a b c H IH|x a b c H IH]; simpl.
  - constructor.
  - destruct (p x); [constructor|]; exact IH.
  - destruct (p x); [constructor|]; exact IH.
Qed.

Lemma interleave_in : forall (A : Type) (a b c : list A) x,
  interleave a b c -> (In x c <-> In x a \/ In x b).
Proof.
  intros A a b c x H. induction H as [|y a b c H IH|y a b c H IH]; simpl.
  - tauto.
  - rewrite IH. tauto.
  - rewrite IH. tauto.
Qed.

Lemma interleave_length : forall (A : Type) (a b c : list A),
  interleave a b c -> List.length c = List.length a + List.length b.
Proof.
  intros A a b c H. induction H as [|y a b c H IH|y a b c H IH]; simpl; lia.
Qed.

Lemma interleave_left : forall (A : Type) (a : list A), interleave a [] a.
Proof. intros A a. induction a as [|x a IH]; constructor. exact IH. Qed.

Lemma interleave_right : forall (A : Type) (b : list A), interleave [] b b.
Proof. intros A b. induction b as [|x b IH]; constructor. exact IH. Qed.

Section Inter.
  Variable M : option value -> option value -> bool * option value.
  Variables oL oR : pem value.
  Hypothesis HoL_ok : pem_ok oL.
  Hypothesis HoR_ok : pem_ok oR.

  Definition mi_of : pe -> option value -> option value -> bool * option value :=
    fun _ lc rc => M lc rc.

  Definition notR (ec : pe * value) : bool :=
    match pem_get (fst ec) oR with None => true | Some _ => false end.

  Variable gR : pe -> value.

  (* partial correctness of the loop *)
  Lemma loop_partial : forall fuel lhs rhs ns so merged out err res e',
    (forall e c, In (e, c) lhs -> wf_pe e = true) ->
    (forall e, In e rhs -> wf_pe e = true /\ pem_get e oR <> None /\
                 M (pem_get e oL) (pem_get e oR) = (false, Some (gR e))) ->
    (forall e c, In (e, c) lhs -> pem_get e oR = None -> M (Some c) None = (false, Some c)) ->
    merge_loop mi_of oL oR fuel lhs rhs ns so merged out err = Some (res, e') ->
    e' = err /\
    exists tl, res = rev out ++ map snd tl /\
      interleave (map (fun e => (e, gR e)) rhs) (filter notR lhs) tl.
  Proof.
    induction fuel as [|fuel IH]; intros lhs rhs ns so merged out err res e' HwL HR HL Hrun;
      [discriminate|].
    rewrite merge_loop_S in Hrun.
    (* third block *)
    assert (Hthird : forall lhs', incl lhs' lhs -> filter notR lhs' = filter notR lhs ->
              loop_third mi_of oL oR (merge_loop mi_of oL oR fuel) lhs' rhs ns so merged out err
                = Some (res, e') ->
              e' = err /\
              exists tl, res = rev out ++ map snd tl /\
                interleave (map (fun e => (e, gR e)) rhs) (filter notR lhs) tl).
    { intros lhs' Hincl Hfil Hrun3. unfold loop_third in Hrun3.
      destruct rhs as [|rpe rrest].
      - apply IH in Hrun3.
        + rewrite Hfil in Hrun3. exact Hrun3.
        + intros e c Hin. apply (HwL e c). apply Hincl. exact Hin.
        + exact HR.
        + intros e c Hin. apply (HL e c). apply Hincl. exact Hin.
      - destruct (HR rpe (or_introl eq_refl)) as (Hwr & HneR & HM).
        unfold mi_of in Hrun3 at 1. rewrite HM in Hrun3.
        destruct (match ns with
                  | Some n => if peeqb n rpe then pop_shared so else (ns, so)
                  | None => (ns, so)
                  end) as [ns' so'].
        apply IH in Hrun3.
        + destruct Hrun3 as [He [tl [Hres Hil]]]. split; [rewrite He; apply orb_false_r|].
          exists ((rpe, gR rpe) :: tl). split.
          * rewrite Hres. simpl. rewrite <- app_assoc. reflexivity.
          * simpl map. rewrite <- Hfil. constructor. exact Hil.
        + intros e c Hin. apply (HwL e c). apply Hincl. exact Hin.
        + intros e Hin. apply HR. right. exact Hin.
        + intros e c Hin. apply (HL e c). apply Hincl. exact Hin. }
    (* second block *)
    assert (Hsecond :
              loop_second mi_of oL oR (merge_loop mi_of oL oR fuel) lhs rhs ns so merged out err
                = Some (res, e') ->
              e' = err /\
              exists tl, res = rev out ++ map snd tl /\
                interleave (map (fun e => (e, gR e)) rhs) (filter notR lhs) tl).
    { intros Hrun2. unfold loop_second in Hrun2.
      destruct lhs as [|[lpe lc] lrest].
      - apply (Hthird []); [apply incl_refl|reflexivity|exact Hrun2].
      - destruct (pem_get lpe oR) as [rv|] eqn:EoR.
        + assert (Hfil : filter notR lrest = filter notR ((lpe, lc) :: lrest)).
          { simpl. unfold notR at 2. simpl. rewrite EoR. reflexivity. }
          destruct (pem_get lpe merged).
          * apply (Hthird lrest); [intros x Hx; right; exact Hx|exact Hfil|exact Hrun2].
          * apply (Hthird ((lpe, lc) :: lrest)); [apply incl_refl|reflexivity|exact Hrun2].
        + unfold mi_of in Hrun2 at 1.
          rewrite (HL lpe lc (or_introl eq_refl) EoR) in Hrun2.
          apply IH in Hrun2.
          * destruct Hrun2 as [He [tl [Hres Hil]]]. split; [rewrite He; apply orb_false_r|].
            exists ((lpe, lc) :: tl). split.
            -- rewrite Hres. simpl. rewrite <- app_assoc. reflexivity.
            -- simpl filter. unfold notR at 1. simpl. rewrite EoR. constructor. exact Hil.
          * intros e c Hin. apply (HwL e c). right. exact Hin.
          * exact HR.
          * intros e c Hin. apply (HL e c). right. exact Hin. }
    unfold loop_body in Hrun.
    destruct lhs as [|[lpe lc] lrest].
    - destruct rhs as [|rpe rrest].
      + inversion Hrun; subst. split; [reflexivity|]. exists []. simpl. rewrite app_nil_r.
        split; [reflexivity|constructor].
      + apply Hsecond. exact Hrun.
    - destruct rhs as [|rpe rrest]; [apply Hsecond; exact Hrun|].
      assert (Hwl : wf_pe lpe = true) by (apply (HwL lpe lc); left; reflexivity).
      destruct (HR rpe (or_introl eq_refl)) as (Hwr & HneR & HM).
      destruct (peeqb lpe rpe) eqn:Eeq.
      + unfold mi_of in Hrun at 1.
        rewrite (pem_get_cong _ lpe rpe oL HoL_ok Hwl Hwr Eeq),
                (pem_get_cong _ lpe rpe oR HoR_ok Hwl Hwr Eeq), HM in Hrun.
        destruct (pop_shared so) as [ns' so'].
        apply IH in Hrun.
        * destruct Hrun as [He [tl [Hres Hil]]]. split; [rewrite He; apply orb_false_r|].
          exists ((rpe, gR rpe) :: tl). split.
          -- rewrite Hres. simpl. rewrite <- app_assoc. reflexivity.
          -- simpl map. simpl filter. unfold notR at 1. simpl.
             rewrite (pem_get_cong _ lpe rpe oR HoR_ok Hwl Hwr Eeq).
             destruct (pem_get rpe oR); [|congruence]. constructor. exact Hil.
        * intros e c Hin. apply (HwL e c). right. exact Hin.
        * intros e Hin. apply HR. right. exact Hin.
        * intros e c Hin. apply (HL e c). right. exact Hin.
      + destruct (pem_get lpe oR) as [rv|] eqn:EoR; [|apply Hsecond; exact Hrun].
        destruct (opt_pe_eqb_neg ns lpe); [|apply Hsecond; exact Hrun].
        apply IH in Hrun.
        * destruct Hrun as [He [tl [Hres Hil]]]. split; [exact He|].
          exists tl. split; [exact Hres|].
          simpl filter. unfold notR at 1. simpl. rewrite EoR. exact Hil.
        * intros e c Hin. apply (HwL e c). right. exact Hin.
        * exact HR.
        * intros e c Hin. apply (HL e c). right. exact Hin.
  Qed.

  (* the loop replayed on an interleaving: [ap] gives the actual path element of an item *)
  Variable ap : pe * value -> pe.

  Lemma loop_replay : forall A B tl, interleave A B tl ->
    (forall x, In x A -> wf_pe (fst x) = true /\ wf_pe (ap x) = true /\
                 peeqb (ap x) (fst x) = true /\ pem_get (fst x) oR <> None /\
                 M (pem_get (ap x) oL) (pem_get (ap x) oR) = (false, Some (snd x))) ->
    (forall x, In x B -> wf_pe (fst x) = true /\ ap x = fst x /\ pem_get (fst x) oR = None /\
                 M (Some (snd x)) None = (false, Some (snd x))) ->
    forall fuel ns so merged out err, List.length tl < fuel ->
    merge_loop mi_of oL oR fuel (map (fun x => (ap x, snd x)) tl) (map fst A) ns so merged out err
    = Some (rev out ++ map snd tl, err).
  Proof.
    intros A B tl H. induction H as [|x A B tl H IH|x A B tl H IH]; intros HA HB fuel ns so merged out err Hf;
      (destruct fuel as [|fuel]; [simpl in Hf; lia|]); rewrite merge_loop_S.
    - simpl. rewrite app_nil_r. reflexivity.
    - destruct (HA x (or_introl eq_refl)) as (Hw & Hwa & Heq & HneR & HM).
      simpl map. unfold loop_body. rewrite Heq.
      change (mi_of (ap x) (pem_get (ap x) oL) (pem_get (ap x) oR))
        with (M (pem_get (ap x) oL) (pem_get (ap x) oR)). rewrite HM.
      destruct (pop_shared so) as [ns' so'].
      rewrite IH.
      + simpl. rewrite <- app_assoc, orb_false_r. reflexivity.
      + intros y Hy. apply HA. right. exact Hy.
      + exact HB.
      + simpl in Hf. lia.
    - destruct (HB x (or_introl eq_refl)) as (Hw & Hap & HnoR & HM).
      assert (Hsec : loop_second mi_of oL oR (merge_loop mi_of oL oR fuel)
                       (map (fun x => (ap x, snd x)) (x :: tl)) (map fst A) ns so merged out err
                     = Some (rev out ++ map snd (x :: tl), err)).
      { simpl map. unfold loop_second. rewrite Hap, HnoR.
        change (mi_of (fst x) (Some (snd x)) None) with (M (Some (snd x)) None). rewrite HM.
        rewrite IH.
        - simpl. rewrite <- app_assoc, orb_false_r. reflexivity.
        - exact HA.
        - intros y Hy. apply HB. right. exact Hy.
        - simpl in Hf. lia. }
      destruct A as [|a A'].
      + exact Hsec.
      + destruct (HA a (or_introl eq_refl)) as (Hwa & _ & _ & HneRa & _).
        assert (Eeq : peeqb (ap x) (fst a) = false).
        { destruct (peeqb (ap x) (fst a)) eqn:Eeq; [|reflexivity]. exfalso. apply HneRa.
          rewrite Hap in Eeq.
          rewrite <- (pem_get_cong _ (fst x) (fst a) oR HoR_ok Hw Hwa Eeq). exact HnoR. }
        rewrite <- Hsec. simpl map. unfold loop_body. rewrite Eeq.
        rewrite Hap, HnoR. reflexivity.
  Qed.
End Inter.
