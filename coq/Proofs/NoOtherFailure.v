(* C06, third sentence: "No operation on valid inputs fails for any reason other than a
   reported conflict".  Statements: Proofs/NoOtherFailure_statements.v -- the three theorems
   and the definition [step_outcome_ok] are VERBATIM, same Section structure; no statement
   had to be changed, no refutation was found.

   At every state satisfying the invariant [state_ok] of Proofs/History.v -- hence at every
   reachable state --
     update_succeeds                    an update with an admissible object (well formed,
                                        valid with duplicates allowed) succeeds;
     apply_fails_only_with_conflicts    an apply of an admissible configuration succeeds or,
                                        when not forced, fails with [EConflict cs], cs <> [];
     no_other_failure_along_histories   the same for every operation at the state [run ops]
                                        of every history of admissible operations:
                                        never [EOther], never [EPanic].
   Extra (not in the statements file):
     refused_apply_keeps_state          a step whose operation is refused leaves the state
                                        (by definition of [hstep]); together with the above:
                                        every step of a history either succeeds or is a
                                        non-forced apply refused with conflicts;
     no_other_failure_example           non-vacuity on ex_config at the final state of the
                                        history of Proofs/History.v: an update (with
                                        duplicate members of a keyed list and of a set, in
                                        the live object AND in the new one), a forced apply,
                                        a non-forced apply that succeeds and a non-forced
                                        apply refused with one conflict pair; the outcome is
                                        shown by the theorem and by evaluation.

   Proof.  Apply: [ConflictsApply.forced_apply_succeeds] and
   [ConflictsApply.apply_conflicts_exact] ([op_ok] does not look at [force]).
   Update: the opening reconciliation is the identity [ReconcileTotal.reconcile_managed_id]
   (records are current at such a state), the comparison of the live object with the new
   one succeeds [CompareLaws.compare_total] -- that theorem allows duplicates in both
   operands, and [History.state_ok_conforms] gives the validity of the live object even at
   the initial state (null is valid as soon as anything is) --, [update_core] with force
   never reports a conflict and, all records being at the one version, never converts
   [UpdaterLaws.update_core_single]; nothing is ignored [no_ignore_filter]. *)
From Coq Require Import List ZArith String Bool Arith Lia.
From SMD Require Import Model.Value Model.Order Model.PathElem Model.PathSet Model.Schema Model.Walk
  Model.Validate Model.FieldSet Model.Remove Model.Merge Model.Compare Model.Matcher Model.Reconcile
  Model.Updater
  Spec.PathsAsSets Spec.RefValid Spec.Resolve Spec.Agree Spec.RefDiff Spec.Examples
  Proofs.OrderLaws Proofs.PathSetLaws Proofs.SchemaOk Proofs.FieldSetBase Proofs.FieldSetPaths
  Proofs.FieldSetWf Proofs.FieldSetLaws Proofs.RemoveAbsent Proofs.RemoveWf Proofs.ResolveLaws
  Proofs.UpdaterLaws Proofs.UpdaterLaws2 Proofs.MergeLaws Proofs.MergeAgree
  Proofs.RemoveFrame Proofs.EnLaws Proofs.NodeSet Proofs.KeyFields Proofs.VeqbResolve
  Proofs.SetCheckers Proofs.ApplyEffect Proofs.RefDiffBoth Proofs.RefDiffLaws Proofs.RefDiffPresent
  Proofs.ApplyInv Proofs.History Proofs.Reapply Proofs.ConflictsApply.
From SMD Require Import Proofs.CompareLaws Proofs.ReconcileTotal.
Import ListNotations.
Open Scope bool_scope.
Open Scope list_scope.

Local Arguments ps_has : simpl never.
Local Arguments ps_empty : simpl never.

Section NoOtherFailure.
  Variables (c : config) (R : typeref -> Prop) (ver : string).

  Theorem update_succeeds : forall live mf mgr obj,
    setting_ok c R ver -> state_ok c ver live mf -> op_ok c ver (HUpdate mgr obj) ->
    exists o mf', update_op c (ver, live) (ver, obj) ver mf mgr = UOk (o, mf').
  Proof.
    intros live mf mgr obj Hset Hst Hop.
    pose proof (state_ok_conforms c ver live mf _ Hst Hop) as Hcl.
    pose proof Hset as (Hni & Hcid & Hok & Hfam & Hpure & Htr & Hkp).
    pose proof Hop as (Hwn & Hcn).
    pose proof (so_wf c ver live mf Hst) as Hwl. pose proof (so_mf c ver live mf Hst) as Hmf.
    pose proof (so_single c ver live mf Hst) as Hsv.
    (* reconciliation *)
    destruct (reconcile_managed_id c R ver live mf Hcid Hok Hfam Hpure Htr Hwl Hcl Hmf Hsv
                (so_nonempty c ver live mf Hst) (so_present c ver live mf Hst)) as (n0 & Erec).
    (* the comparison: duplicates allowed on both sides *)
    destruct (compare_total (schema_of c ver) R (tr_of c ver) live obj Hok Hfam Htr Hwl Hwn Hcl Hcn)
      as (cmp & Hcmp).
    assert (Hcmp_tv : compare_tv c (ver, live) (ver, obj) = Some cmp) by exact Hcmp.
    unfold update_op. rewrite Erec.
    rewrite (update_core_single c n0 (ver, live) (ver, obj) ver mf mgr true cmp Hni Hsv Hcmp_tv).
    unfold ufinish. cbn [negb andb].
    rewrite (no_ignore_filter c ver Hni).
    eexists. eexists. reflexivity.
  Qed.

  Theorem apply_fails_only_with_conflicts : forall live mf mgr cfg force,
    setting_ok c R ver -> state_ok c ver live mf -> op_ok c ver (HApply mgr cfg force) ->
    (exists o mf', apply_op c (ver, live) (ver, cfg) ver mf mgr force = UOk (o, mf')) \/
    (force = false /\ exists cs, cs <> [] /\
       apply_op c (ver, live) (ver, cfg) ver mf mgr force = UErr (EConflict cs)).
  Proof.
    intros live mf mgr cfg force Hset Hst Hop.
    assert (Hop1 : op_ok c ver (HApply mgr cfg true)) by exact Hop.
    destruct (forced_apply_succeeds c R ver live mf mgr cfg Hset Hst Hop1) as (o & mf' & Hf).
    destruct force.
    - left. exists o, mf'. exact Hf.
    - destruct (apply_conflicts_exact c R ver live mf mgr cfg o mf' Hset Hst Hop1 Hf)
        as [[Hsame _]|(cs & Hcs & Hne & _)].
      + left. exists o, mf'. exact Hsame.
      + right. split; [reflexivity|]. exists cs. split; [exact Hne|exact Hcs].
  Qed.

  (* every operation of every history: the step either succeeds or is an apply refused with
     conflicts (and then leaves the state as it is, by definition of hstep) *)
  Definition step_outcome_ok (st : value * managed) (o : hop) : Prop :=
    match o with
    | HApply mgr cfg force =>
        (exists ob mf', apply_op c (ver, fst st) (ver, cfg) ver (snd st) mgr force = UOk (ob, mf')) \/
        (force = false /\ exists cs, cs <> [] /\
           apply_op c (ver, fst st) (ver, cfg) ver (snd st) mgr force = UErr (EConflict cs))
    | HUpdate mgr obj =>
        exists ob mf', update_op c (ver, fst st) (ver, obj) ver (snd st) mgr = UOk (ob, mf')
    end.

  (* the same at any state that satisfies the invariant *)
  Lemma step_outcome_ok_at : forall live mf o,
    setting_ok c R ver -> state_ok c ver live mf -> op_ok c ver o ->
    step_outcome_ok (live, mf) o.
  Proof.
    intros live mf o Hset Hst Hop. destruct o as [mgr cfg force|mgr obj]; cbn [step_outcome_ok fst snd].
    - apply (apply_fails_only_with_conflicts live mf mgr cfg force Hset Hst Hop).
    - apply (update_succeeds live mf mgr obj Hset Hst Hop).
  Qed.

  Theorem no_other_failure_along_histories : forall ops o,
    setting_ok c R ver -> Forall (op_ok c ver) ops -> op_ok c ver o ->
    step_outcome_ok (run c ver ops) o.
  Proof.
    intros ops o Hset Hall Hop.
    pose proof (reachable_states_ok c R ver ops Hset Hall) as Hst.
    destruct (run c ver ops) as [live mf]. cbn [fst snd] in Hst.
    apply (step_outcome_ok_at live mf o Hset Hst Hop).
  Qed.

  (* a refused operation leaves the state of the history as it is *)
  Lemma refused_apply_keeps_state : forall st mgr cfg force e,
    apply_op c (ver, fst st) (ver, cfg) ver (snd st) mgr force = UErr e ->
    hstep c ver st (HApply mgr cfg force) = st.
  Proof. intros st mgr cfg force e H. cbn [hstep]. rewrite H. reflexivity. Qed.

  (* the error of an operation of a history, if any *)
  Definition step_error (st : value * managed) (o : hop) : option uerr :=
    match o with
    | HApply mgr cfg force =>
        match apply_op c (ver, fst st) (ver, cfg) ver (snd st) mgr force with
        | UOk _ => None | UErr e => Some e end
    | HUpdate mgr obj =>
        match update_op c (ver, fst st) (ver, obj) ver (snd st) mgr with
        | UOk _ => None | UErr e => Some e end
    end.

  (* the sentence itself: whatever error an operation of a history reports is a non-empty
     list of conflicts, reported by a non-forced apply; never EOther, never EPanic *)
  Corollary errors_are_conflicts_along_histories : forall ops o e,
    setting_ok c R ver -> Forall (op_ok c ver) ops -> op_ok c ver o ->
    step_error (run c ver ops) o = Some e ->
    (exists cs, e = EConflict cs /\ cs <> []) /\
    (exists mgr cfg, o = HApply mgr cfg false) /\
    hstep c ver (run c ver ops) o = run c ver ops.
  Proof.
    intros ops o e Hset Hall Hop He.
    pose proof (no_other_failure_along_histories ops o Hset Hall Hop) as H.
    destruct o as [mgr cfg force|mgr obj]; cbn [step_outcome_ok step_error] in H, He.
    - destruct H as [(ob & mf' & H)|(-> & cs & Hne & H)].
      + rewrite H in He. discriminate He.
      + rewrite H in He. inversion He; subst e. split; [exists cs; split; [reflexivity|exact Hne]|].
        split; [exists mgr, cfg; reflexivity|].
        apply (refused_apply_keeps_state _ mgr cfg false _ H).
    - destruct H as (ob & mf' & H). rewrite H in He. discriminate He.
  Qed.
End NoOtherFailure.

(* ================= non-vacuity ================= *)

(* At the final state (hx_obj, hx_mf) of the history of Proofs/History.v (four managers):
   - manager "e" updates with an object that repeats the member x of the keyed list and a
     tag of a set: the update succeeds; at the state it produces (duplicates in the live
     object) manager "f" updates with another object with duplicates: it succeeds too;
   - manager "b" applies hx_cfg (Proofs/ConflictsApply.v): forced it succeeds, not forced
     it is refused with one conflict pair;
   - manager "c" applies, not forced, a configuration over what it owns: it succeeds. *)
Section Example.
  Open Scope string_scope.
  Let F := PEField.
  Let item (n : string) (v : Z) := VMap [("name", VStr n); ("vv", VInt v)].
  Let titem (n : string) (ts : list string) := VMap [("name", VStr n); ("tags", VList (map VStr ts))].

  Definition nx_obj1 : value :=
    VMap [("aa", VInt 2);
          ("items", VList [item "y" 7; item "x" 1; item "z" 3; item "x" 2; titem "t" ["p"; "q"; "p"]])].
  Definition nx_obj2 : value :=
    VMap [("items", VList [item "x" 2; titem "t" ["q"; "q"]; item "x" 2; item "y" 7; titem "t" ["p"]])].
  Definition nx_cfg : value := VMap [("mm", VMap [("k", VInt 3); ("l", VInt 4)])].

  Definition nx_ops : list (hop) := hx_ops ++ [HUpdate "e" nx_obj1].

  Lemma nx_ops_ok : Forall (op_ok ex_config "v1") nx_ops.
  Proof.
    apply Forall_app. split; [exact hx_ops_ok|].
    repeat constructor; vm_compute; reflexivity.
  Qed.

  Lemma nx_op2_ok : op_ok ex_config "v1" (HUpdate "f" nx_obj2).
  Proof. split; vm_compute; reflexivity. Qed.

  Lemma nx_cfg_ok : forall force, op_ok ex_config "v1" (HApply "c" nx_cfg force).
  Proof. intros force. repeat split; try (vm_compute; reflexivity); vm_compute; exact I. Qed.

  (* the live object after the first update is that object, duplicates included *)
  Lemma nx_run : fst (run ex_config "v1" nx_ops) = nx_obj1.
  Proof. vm_compute. reflexivity. Qed.

  Example no_other_failure_example :
    Forall (op_ok ex_config "v1") nx_ops /\ fst (run ex_config "v1" nx_ops) = nx_obj1 /\
    (* by the theorem *)
    step_outcome_ok ex_config "v1" (run ex_config "v1" hx_ops) (HUpdate "e" nx_obj1) /\
    step_outcome_ok ex_config "v1" (run ex_config "v1" nx_ops) (HUpdate "f" nx_obj2) /\
    step_outcome_ok ex_config "v1" (run ex_config "v1" hx_ops) (HApply "b" hx_cfg true) /\
    step_outcome_ok ex_config "v1" (run ex_config "v1" hx_ops) (HApply "b" hx_cfg false) /\
    step_outcome_ok ex_config "v1" (run ex_config "v1" hx_ops) (HApply "c" nx_cfg false) /\
    (* by evaluation *)
    update_op ex_config ("v1", hx_obj) ("v1", nx_obj1) "v1" hx_mf "e" =
      UOk (("v1", nx_obj1), snd (run ex_config "v1" nx_ops)) /\
    (exists mf', update_op ex_config ("v1", nx_obj1) ("v1", nx_obj2) "v1"
                   (snd (run ex_config "v1" nx_ops)) "f" = UOk (("v1", nx_obj2), mf')) /\
    apply_op ex_config ("v1", hx_obj) ("v1", hx_cfg) "v1" hx_mf "b" false =
      UErr (EConflict [("a", [F "aa"])]) /\
    (exists o mf', apply_op ex_config ("v1", hx_obj) ("v1", nx_cfg) "v1" hx_mf "c" false = UOk (Some o, mf')).
  Proof.
    split; [exact nx_ops_ok|]. split; [exact nx_run|].
    split; [|split; [|split; [|split; [|split]]]].
    - apply (no_other_failure_along_histories ex_config FieldSetLaws.ex_R "v1" hx_ops _ ex_setting_ok hx_ops_ok).
      split; vm_compute; reflexivity.
    - apply (no_other_failure_along_histories ex_config FieldSetLaws.ex_R "v1" nx_ops _ ex_setting_ok nx_ops_ok).
      exact nx_op2_ok.
    - apply (no_other_failure_along_histories ex_config FieldSetLaws.ex_R "v1" hx_ops _ ex_setting_ok hx_ops_ok).
      exact cx_op_ok.
    - apply (no_other_failure_along_histories ex_config FieldSetLaws.ex_R "v1" hx_ops _ ex_setting_ok hx_ops_ok).
      exact cx_op_ok.
    - apply (no_other_failure_along_histories ex_config FieldSetLaws.ex_R "v1" hx_ops _ ex_setting_ok hx_ops_ok).
      exact (nx_cfg_ok false).
    - split; [vm_compute; reflexivity|].
      split; [eexists; vm_compute; reflexivity|].
      split; [vm_compute; reflexivity|].
      eexists. eexists. vm_compute. reflexivity.
  Qed.

  (* the refused apply of the example, through the corollary: its error is a conflict list *)
  Example no_other_failure_example_error : forall e,
    step_error ex_config "v1" (run ex_config "v1" hx_ops) (HApply "b" hx_cfg false) = Some e ->
    exists cs, e = EConflict cs /\ cs <> [].
  Proof.
    intros e He.
    apply (errors_are_conflicts_along_histories ex_config FieldSetLaws.ex_R "v1" hx_ops
             (HApply "b" hx_cfg false) e ex_setting_ok hx_ops_ok cx_op_ok He).
  Qed.
End Example.

