(* The four binary operations of the trie refine the set operations. *)
From Coq Require Import List ZArith String Bool Arith Lia.
From SMD Require Import Base.Search Model.Value Model.Order Model.PathElem Model.PathSet
  Spec.PathsAsSets Proofs.OrderLaws Proofs.SearchLaws Proofs.KeyLaws Proofs.PesLaws
  Proofs.TrieBase.
Import ListNotations.
Open Scope bool_scope.

Notation cnode := (pe * pset)%type (only parsing).
Definition cnone (a : cnode) : option cnode := None.

Create HintDb fbdb.
Ltac key_side :=
  solve [ intros; autounfold with fbdb in *; cbv zeta in *;
          repeat match goal with
          | H : (if ?b then _ else _) = Some _ |- _ => destruct b
          | H : Some _ = Some _ |- _ => inversion H; subst; clear H
          | H : None = Some _ |- _ => discriminate H
          | H : cnone _ = Some _ |- _ => discriminate H
          end; auto ].

(* ---------- union ---------- *)
Fixpoint cunion (c1 : list cnode) : list cnode -> list cnode :=
  fix cu2 (c2 : list cnode) : list cnode :=
    match c1, c2 with
    | [], _ => c2
    | _, [] => c1
    | (e1, s1) :: t1, (e2, s2) :: t2 =>
        if peless e1 e2 then (e1, s1) :: cunion t1 c2
        else if negb (peless e2 e1) then (e1, ps_union s1 s2) :: cunion t1 t2
        else (e2, s2) :: cu2 t2
    end.

Lemma ps_union_eq : forall m1 c1 m2 c2,
  ps_union (PSet m1 c1) (PSet m2 c2) = PSet (pes_union m1 m2) (cunion c1 c2).
Proof. reflexivity. Qed.

Definition union_fb (a b : cnode) : option cnode := Some (fst a, ps_union (snd a) (snd b)).
#[export] Hint Unfold union_fb : fbdb.

Lemma cunion_cons : forall e1 s1 t1 e2 s2 t2,
  cunion ((e1, s1) :: t1) ((e2, s2) :: t2) =
    if peless e1 e2 then (e1, s1) :: cunion t1 ((e2, s2) :: t2)
    else if negb (peless e2 e1) then (e1, ps_union s1 s2) :: cunion t1 t2
    else (e2, s2) :: cunion ((e1, s1) :: t1) t2.
Proof. reflexivity. Qed.

Lemma cunion_gmerge : forall c1 c2,
  cunion c1 c2 = gmerge fst (@Some cnode) (@Some cnode) union_fb c1 c2.
Proof.
  apply merge_ind.
  - intros l2. rewrite gmerge_nil_l, omap_Some. destruct l2; reflexivity.
  - intros l1. rewrite gmerge_nil_r, omap_Some. destruct l1 as [|[? ?] ?]; reflexivity.
  - intros [e1 s1] xs [e2 s2] ys IHa IHb IHc.
    rewrite cunion_cons, gmerge_cons_if, IHa, IHb, IHc. reflexivity.
Qed.

Lemma ps_union_spec : forall a b, ps_ok a = true -> ps_ok b = true ->
  ps_ok (ps_union a b) = true /\
  forall p, wf_path p = true -> ps_has p (ps_union a b) = ps_has p a || ps_has p b.
Proof.
  intros a. induction a as [m1 c1 IH] using pset_ind'. intros [m2 c2] Hoka Hokb.
  rewrite ps_union_eq, cunion_gmerge.
  pose proof Hoka as Ha. pose proof Hokb as Hb. apply ps_ok_PSet in Ha, Hb.
  destruct Ha as (A1 & A2 & A3 & A4). destruct Hb as (B1 & B2 & B3 & B4).
  destruct (pes_union_spec m1 m2 pe_default A1 B1 A2 B2 wf_pe_default) as (M1 & M2 & _).
  rewrite Forall_forall in IH.
  assert (HF : Forall cok (gmerge fst (@Some cnode) (@Some cnode) union_fb c1 c2)).
  { rewrite Forall_forall in A4, B4. apply gmerge_Forall.
    - intros x z Hx Hz. inversion Hz; subst. auto.
    - intros y z Hy Hz. inversion Hz; subst. auto.
    - intros x y z Hx Hy _ Hz. unfold union_fb in Hz. inversion Hz; subst; clear Hz.
      destruct (A4 x Hx) as (X1 & X2 & X3). destruct (B4 y Hy) as (Y1 & Y2 & Y3).
      destruct (IH x Hx (snd y) X2 Y2) as [U1 U2].
      split; [exact X1|]. split; [exact U1|]. cbn [snd].
      destruct (ps_nonempty_witness (snd x) X2 X3) as (p & Hp & Hh).
      apply (ps_has_nonempty _ p). rewrite U2 by auto. rewrite Hh. reflexivity. }
  assert (Hok : ps_ok (PSet (pes_union m1 m2) (gmerge fst (@Some cnode) (@Some cnode) union_fb c1 c2)) = true).
  { apply ps_ok_PSet. repeat split; auto. apply gmerge_sorted; auto; key_side. }
  split; [exact Hok|].
  intros p Hp. destruct p as [|e [|p0 p']]; [reflexivity| |].
  - apply wf_path_cons in Hp. destruct Hp as [He _]. rewrite !ps_has_one by auto.
    destruct (pes_union_spec m1 m2 e A1 B1 A2 B2 He) as (_ & _ & M3). exact M3.
  - apply wf_path_cons in Hp. destruct Hp as [He Hp]. rewrite !ps_has_more by auto.
    rewrite gmerge_look; auto; try key_side; try (apply cok_kwf; auto).
    destruct (klook fst e c1) as [x|] eqn:L1; destruct (klook fst e c2) as [y|] eqn:L2;
      cbn [gcomb chas].
    + destruct (klook_cok e c1 x A4 L1) as (Hx & (X1 & X2 & X3) & _).
      destruct (klook_cok e c2 y B4 L2) as (Hy & (Y1 & Y2 & Y3) & _).
      unfold union_fb. cbn [chas snd].
      destruct (IH x Hx (snd y) X2 Y2) as [_ U2]. apply U2; auto.
    + rewrite orb_false_r. reflexivity.
    + reflexivity.
    + reflexivity.
Qed.

(* ---------- intersection ---------- *)
Fixpoint cinter (c1 : list cnode) : list cnode -> list cnode :=
  fix ci2 (c2 : list cnode) : list cnode :=
    match c1, c2 with
    | [], _ => []
    | _, [] => []
    | (e1, s1) :: t1, (e2, s2) :: t2 =>
        if peless e1 e2 then cinter t1 c2
        else if negb (peless e2 e1) then
          let r := ps_inter s1 s2 in
          if ps_empty r then cinter t1 t2 else (e1, r) :: cinter t1 t2
        else ci2 t2
    end.

Lemma ps_inter_eq : forall m1 c1 m2 c2,
  ps_inter (PSet m1 c1) (PSet m2 c2) = PSet (pes_inter m1 m2) (cinter c1 c2).
Proof. reflexivity. Qed.

Definition inter_fb (a b : cnode) : option cnode :=
  let r := ps_inter (snd a) (snd b) in if ps_empty r then None else Some (fst a, r).
#[export] Hint Unfold inter_fb : fbdb.

Lemma cinter_cons : forall e1 s1 t1 e2 s2 t2,
  cinter ((e1, s1) :: t1) ((e2, s2) :: t2) =
    if peless e1 e2 then cinter t1 ((e2, s2) :: t2)
    else if negb (peless e2 e1) then
      let r := ps_inter s1 s2 in
      if ps_empty r then cinter t1 t2 else (e1, r) :: cinter t1 t2
    else cinter ((e1, s1) :: t1) t2.
Proof. reflexivity. Qed.

Lemma cinter_gmerge : forall c1 c2, cinter c1 c2 = gmerge fst cnone cnone inter_fb c1 c2.
Proof.
  apply merge_ind.
  - intros l2. rewrite gmerge_nil_l. unfold cnone. rewrite omap_None. destruct l2; reflexivity.
  - intros l1. rewrite gmerge_nil_r. unfold cnone. rewrite omap_None.
    destruct l1 as [|[? ?] ?]; reflexivity.
  - intros [e1 s1] xs [e2 s2] ys IHa IHb IHc.
    rewrite cinter_cons, gmerge_cons_if, IHa, IHb, IHc.
    unfold inter_fb, cnone. cbv zeta. cbn [fst snd].
    destruct (ps_empty (ps_inter s1 s2)); reflexivity.
Qed.

Lemma ps_inter_spec : forall a b, ps_ok a = true -> ps_ok b = true ->
  ps_ok (ps_inter a b) = true /\
  forall p, wf_path p = true -> ps_has p (ps_inter a b) = ps_has p a && ps_has p b.
Proof.
  intros a. induction a as [m1 c1 IH] using pset_ind'. intros [m2 c2] Hoka Hokb.
  rewrite ps_inter_eq, cinter_gmerge.
  pose proof Hoka as Ha. pose proof Hokb as Hb. apply ps_ok_PSet in Ha, Hb.
  destruct Ha as (A1 & A2 & A3 & A4). destruct Hb as (B1 & B2 & B3 & B4).
  destruct (pes_inter_spec m1 m2 pe_default A1 B1 A2 B2 wf_pe_default) as (M1 & M2 & _).
  rewrite Forall_forall in IH.
  assert (HF : Forall cok (gmerge fst cnone cnone inter_fb c1 c2)).
  { rewrite Forall_forall in A4, B4. apply gmerge_Forall.
    - intros x z Hx Hz. discriminate Hz.
    - intros y z Hy Hz. discriminate Hz.
    - intros x y z Hx Hy _ Hz. unfold inter_fb in Hz. cbv zeta in Hz.
      destruct (ps_empty (ps_inter (snd x) (snd y))) eqn:E; [discriminate|].
      inversion Hz; subst; clear Hz.
      destruct (A4 x Hx) as (X1 & X2 & X3). destruct (B4 y Hy) as (Y1 & Y2 & Y3).
      destruct (IH x Hx (snd y) X2 Y2) as [U1 U2].
      split; [exact X1|]. split; [exact U1|exact E]. }
  assert (Hok : ps_ok (PSet (pes_inter m1 m2) (gmerge fst cnone cnone inter_fb c1 c2)) = true).
  { apply ps_ok_PSet. repeat split; auto. apply gmerge_sorted; auto; key_side. }
  split; [exact Hok|].
  intros p Hp. destruct p as [|e [|p0 p']]; [reflexivity| |].
  - apply wf_path_cons in Hp. destruct Hp as [He _]. rewrite !ps_has_one by auto.
    destruct (pes_inter_spec m1 m2 e A1 B1 A2 B2 He) as (_ & _ & M3). exact M3.
  - apply wf_path_cons in Hp. destruct Hp as [He Hp]. rewrite !ps_has_more by auto.
    rewrite gmerge_look; auto; try key_side; try (apply cok_kwf; auto).
    destruct (klook fst e c1) as [x|] eqn:L1; destruct (klook fst e c2) as [y|] eqn:L2;
      cbn [gcomb chas].
    + destruct (klook_cok e c1 x A4 L1) as (Hx & (X1 & X2 & X3) & _).
      destruct (klook_cok e c2 y B4 L2) as (Hy & (Y1 & Y2 & Y3) & _).
      destruct (IH x Hx (snd y) X2 Y2) as [_ U2].
      unfold inter_fb. cbv zeta. rewrite <- (U2 (p0 :: p') Hp).
      destruct (ps_empty (ps_inter (snd x) (snd y))) eqn:E; cbn [chas snd].
      * symmetry. apply ps_empty_has. exact E.
      * reflexivity.
    + rewrite andb_false_r. reflexivity.
    + reflexivity.
    + reflexivity.
Qed.

(* ---------- difference ---------- *)
Fixpoint cdiff (c1 : list cnode) : list cnode -> list cnode :=
  fix cd2 (c2 : list cnode) : list cnode :=
    match c1, c2 with
    | [], _ => []
    | _, [] => c1
    | (e1, s1) :: t1, (e2, s2) :: t2 =>
        if peless e1 e2 then (e1, s1) :: cdiff t1 c2
        else if negb (peless e2 e1) then
          let r := ps_diff s1 s2 in
          if ps_empty r then cdiff t1 t2 else (e1, r) :: cdiff t1 t2
        else cd2 t2
    end.

Lemma ps_diff_eq : forall m1 c1 m2 c2,
  ps_diff (PSet m1 c1) (PSet m2 c2) = PSet (pes_diff m1 m2) (cdiff c1 c2).
Proof. reflexivity. Qed.

Definition diff_fb (a b : cnode) : option cnode :=
  let r := ps_diff (snd a) (snd b) in if ps_empty r then None else Some (fst a, r).
#[export] Hint Unfold diff_fb : fbdb.

Lemma cdiff_cons : forall e1 s1 t1 e2 s2 t2,
  cdiff ((e1, s1) :: t1) ((e2, s2) :: t2) =
    if peless e1 e2 then (e1, s1) :: cdiff t1 ((e2, s2) :: t2)
    else if negb (peless e2 e1) then
      let r := ps_diff s1 s2 in
      if ps_empty r then cdiff t1 t2 else (e1, r) :: cdiff t1 t2
    else cdiff ((e1, s1) :: t1) t2.
Proof. reflexivity. Qed.

Lemma cdiff_gmerge : forall c1 c2, cdiff c1 c2 = gmerge fst (@Some cnode) cnone diff_fb c1 c2.
Proof.
  apply merge_ind.
  - intros l2. rewrite gmerge_nil_l. unfold cnone. rewrite omap_None. destruct l2; reflexivity.
  - intros l1. rewrite gmerge_nil_r. rewrite omap_Some.
    destruct l1 as [|[? ?] ?]; reflexivity.
  - intros [e1 s1] xs [e2 s2] ys IHa IHb IHc.
    rewrite cdiff_cons, gmerge_cons_if, IHa, IHb, IHc.
    unfold diff_fb, cnone. cbv zeta. cbn [fst snd].
    destruct (ps_empty (ps_diff s1 s2)); reflexivity.
Qed.

Lemma ps_diff_spec : forall a b, ps_ok a = true -> ps_ok b = true ->
  ps_ok (ps_diff a b) = true /\
  forall p, wf_path p = true -> ps_has p (ps_diff a b) = ps_has p a && negb (ps_has p b).
Proof.
  intros a. induction a as [m1 c1 IH] using pset_ind'. intros [m2 c2] Hoka Hokb.
  rewrite ps_diff_eq, cdiff_gmerge.
  pose proof Hoka as Ha. pose proof Hokb as Hb. apply ps_ok_PSet in Ha, Hb.
  destruct Ha as (A1 & A2 & A3 & A4). destruct Hb as (B1 & B2 & B3 & B4).
  destruct (pes_diff_spec m1 m2 pe_default A1 B1 A2 B2 wf_pe_default) as (M1 & M2 & _).
  rewrite Forall_forall in IH.
  assert (HF : Forall cok (gmerge fst (@Some cnode) cnone diff_fb c1 c2)).
  { rewrite Forall_forall in A4, B4. apply gmerge_Forall.
    - intros x z Hx Hz. inversion Hz; subst. auto.
    - intros y z Hy Hz. discriminate Hz.
    - intros x y z Hx Hy _ Hz. unfold diff_fb in Hz. cbv zeta in Hz.
      destruct (ps_empty (ps_diff (snd x) (snd y))) eqn:E; [discriminate|].
      inversion Hz; subst; clear Hz.
      destruct (A4 x Hx) as (X1 & X2 & X3). destruct (B4 y Hy) as (Y1 & Y2 & Y3).
      destruct (IH x Hx (snd y) X2 Y2) as [U1 U2].
      split; [exact X1|]. split; [exact U1|exact E]. }
  assert (Hok : ps_ok (PSet (pes_diff m1 m2) (gmerge fst (@Some cnode) cnone diff_fb c1 c2)) = true).
  { apply ps_ok_PSet. repeat split; auto. apply gmerge_sorted; auto; key_side. }
  split; [exact Hok|].
  intros p Hp. destruct p as [|e [|p0 p']]; [reflexivity| |].
  - apply wf_path_cons in Hp. destruct Hp as [He _]. rewrite !ps_has_one by auto.
    destruct (pes_diff_spec m1 m2 e A1 B1 A2 B2 He) as (_ & _ & M3). exact M3.
  - apply wf_path_cons in Hp. destruct Hp as [He Hp]. rewrite !ps_has_more by auto.
    rewrite gmerge_look; auto; try key_side; try (apply cok_kwf; auto).
    destruct (klook fst e c1) as [x|] eqn:L1; destruct (klook fst e c2) as [y|] eqn:L2;
      cbn [gcomb chas].
    + destruct (klook_cok e c1 x A4 L1) as (Hx & (X1 & X2 & X3) & _).
      destruct (klook_cok e c2 y B4 L2) as (Hy & (Y1 & Y2 & Y3) & _).
      destruct (IH x Hx (snd y) X2 Y2) as [_ U2].
      unfold diff_fb. cbv zeta. rewrite <- (U2 (p0 :: p') Hp).
      destruct (ps_empty (ps_diff (snd x) (snd y))) eqn:E; cbn [chas snd].
      * symmetry. apply ps_empty_has. exact E.
      * reflexivity.
    + rewrite andb_true_r. reflexivity.
    + reflexivity.
    + reflexivity.
Qed.

(* ---------- recursive difference ---------- *)
Definition has_prefix_in (p : path) (b : pset) : bool :=
  existsb (fun n => ps_has (firstn n p) b) (seq 1 (List.length p)).

Lemma existsb_map : forall (A B : Type) (f : B -> bool) (g : A -> B) l,
  existsb f (map g l) = existsb (fun x => f (g x)) l.
Proof. intros A B f g l. induction l as [|a t IH]; simpl; congruence. Qed.

Lemma existsb_ext_in : forall (A : Type) (f g : A -> bool) l,
  (forall x, In x l -> f x = g x) -> existsb f l = existsb g l.
Proof.
  intros A f g l. induction l as [|a t IH]; intros H; simpl; auto.
  rewrite (H a) by (simpl; auto). rewrite IH; auto. intros x Hx. apply H. simpl; auto.
Qed.

Lemma existsb_false : forall (A : Type) (l : list A), existsb (fun _ => false) l = false.
Proof. intros A l. induction l; simpl; auto. Qed.

Lemma hpi_one : forall e b, has_prefix_in [e] b = ps_has [e] b.
Proof. intros e b. unfold has_prefix_in. cbn [List.length seq existsb firstn]. apply orb_false_r. Qed.

Lemma hpi_more : forall e p0 p' m c, ps_ok (PSet m c) = true -> wf_pe e = true ->
  has_prefix_in (e :: p0 :: p') (PSet m c) =
    pes_mem e m ||
    match klook fst e c with Some y => has_prefix_in (p0 :: p') (snd y) | None => false end.
Proof.
  intros e p0 p' m c Hok He. unfold has_prefix_in.
  change (seq 1 (List.length (e :: p0 :: p'))) with (1 :: seq 2 (List.length (p0 :: p'))).
  rewrite <- seq_shift. cbn [existsb]. rewrite existsb_map.
  change (firstn 1 (e :: p0 :: p')) with [e]. rewrite ps_has_one by auto. f_equal.
  rewrite (existsb_ext_in _ _ (fun n => chas (firstn n (p0 :: p')) (klook fst e c))).
  - destruct (klook fst e c); [reflexivity|]. cbn [chas]. apply existsb_false.
  - intros n Hn. apply in_seq in Hn. destruct n as [|n]; [lia|].
    change (firstn (S (S n)) (e :: p0 :: p')) with (e :: p0 :: firstn n p').
    change (firstn (S n) (p0 :: p')) with (p0 :: firstn n p'). apply ps_has_more; auto.
Qed.

Section CRDiff.
  Variable m2 : pes.
  Fixpoint crdiff (c1 : list cnode) : list cnode -> list cnode :=
    fix cr2 (c2 : list cnode) : list cnode :=
      match c1, c2 with
      | [], _ => []
      | _, [] => filter (fun ec => negb (pes_has (fst ec) m2)) c1
      | (e1, s1) :: t1, (e2, s2) :: t2 =>
          if peless e1 e2 then
            if negb (pes_has e1 m2) then (e1, s1) :: crdiff t1 c2 else crdiff t1 c2
          else if negb (peless e2 e1) then
            if negb (pes_has e1 m2) then
              let r := ps_rdiff s1 s2 in
              if ps_empty r then crdiff t1 t2 else (e1, r) :: crdiff t1 t2
            else crdiff t1 t2
          else cr2 t2
      end.
End CRDiff.

Lemma ps_rdiff_eq : forall m1 c1 m2 c2,
  ps_rdiff (PSet m1 c1) (PSet m2 c2) = PSet (pes_diff m1 m2) (crdiff m2 c1 c2).
Proof. reflexivity. Qed.

Definition rdiff_fl (m2 : pes) (a : cnode) : option cnode :=
  if negb (pes_has (fst a) m2) then Some a else None.
Definition rdiff_fb (m2 : pes) (a b : cnode) : option cnode :=
  if negb (pes_has (fst a) m2) then
    let r := ps_rdiff (snd a) (snd b) in if ps_empty r then None else Some (fst a, r)
  else None.
#[export] Hint Unfold rdiff_fl rdiff_fb : fbdb.

Lemma crdiff_cons : forall m2 e1 s1 t1 e2 s2 t2,
  crdiff m2 ((e1, s1) :: t1) ((e2, s2) :: t2) =
    if peless e1 e2 then
      if negb (pes_has e1 m2) then (e1, s1) :: crdiff m2 t1 ((e2, s2) :: t2)
      else crdiff m2 t1 ((e2, s2) :: t2)
    else if negb (peless e2 e1) then
      if negb (pes_has e1 m2) then
        let r := ps_rdiff s1 s2 in
        if ps_empty r then crdiff m2 t1 t2 else (e1, r) :: crdiff m2 t1 t2
      else crdiff m2 t1 t2
    else crdiff m2 ((e1, s1) :: t1) t2.
Proof. reflexivity. Qed.

Lemma crdiff_gmerge : forall m2 c1 c2,
  crdiff m2 c1 c2 = gmerge fst (rdiff_fl m2) cnone (rdiff_fb m2) c1 c2.
Proof.
  intros m2. apply merge_ind.
  - intros l2. rewrite gmerge_nil_l. unfold cnone. rewrite omap_None. destruct l2; reflexivity.
  - intros l1. rewrite gmerge_nil_r. unfold rdiff_fl.
    rewrite (omap_filter _ (fun ec : cnode => negb (pes_has (fst ec) m2))).
    destruct l1 as [|[? ?] ?]; reflexivity.
  - intros [e1 s1] xs [e2 s2] ys IHa IHb IHc.
    rewrite crdiff_cons, gmerge_cons_if, IHa, IHb, IHc.
    unfold rdiff_fl, rdiff_fb, cnone. cbv zeta. cbn [fst snd].
    destruct (negb (pes_has e1 m2)); [|reflexivity].
    destruct (ps_empty (ps_rdiff s1 s2)); reflexivity.
Qed.

Lemma ps_rdiff_spec : forall a b, ps_ok a = true -> ps_ok b = true ->
  ps_ok (ps_rdiff a b) = true /\
  forall p, wf_path p = true -> ps_has p (ps_rdiff a b) = ps_has p a && negb (has_prefix_in p b).
Proof.
  intros a. induction a as [m1 c1 IH] using pset_ind'. intros [m2 c2] Hoka Hokb.
  rewrite ps_rdiff_eq, crdiff_gmerge.
  pose proof Hoka as Ha. pose proof Hokb as Hb. apply ps_ok_PSet in Ha, Hb.
  destruct Ha as (A1 & A2 & A3 & A4). destruct Hb as (B1 & B2 & B3 & B4).
  destruct (pes_diff_spec m1 m2 pe_default A1 B1 A2 B2 wf_pe_default) as (M1 & M2 & _).
  rewrite Forall_forall in IH.
  assert (HF : Forall cok (gmerge fst (rdiff_fl m2) cnone (rdiff_fb m2) c1 c2)).
  { rewrite Forall_forall in A4, B4. apply gmerge_Forall.
    - intros x z Hx Hz. unfold rdiff_fl in Hz.
      destruct (negb (pes_has (fst x) m2)); [|discriminate]. inversion Hz; subst. auto.
    - intros y z Hy Hz. discriminate Hz.
    - intros x y z Hx Hy _ Hz. unfold rdiff_fb in Hz. cbv zeta in Hz.
      destruct (negb (pes_has (fst x) m2)); [|discriminate].
      destruct (ps_empty (ps_rdiff (snd x) (snd y))) eqn:E; [discriminate|].
      inversion Hz; subst; clear Hz.
      destruct (A4 x Hx) as (X1 & X2 & X3). destruct (B4 y Hy) as (Y1 & Y2 & Y3).
      destruct (IH x Hx (snd y) X2 Y2) as [U1 U2].
      split; [exact X1|]. split; [exact U1|exact E]. }
  assert (Hok : ps_ok (PSet (pes_diff m1 m2) (gmerge fst (rdiff_fl m2) cnone (rdiff_fb m2) c1 c2)) = true).
  { apply ps_ok_PSet. repeat split; auto. apply gmerge_sorted; auto; key_side. }
  split; [exact Hok|].
  intros p Hp. destruct p as [|e [|p0 p']]; [reflexivity| |].
  - apply wf_path_cons in Hp. destruct Hp as [He _]. rewrite hpi_one. rewrite !ps_has_one by auto.
    destruct (pes_diff_spec m1 m2 e A1 B1 A2 B2 He) as (_ & _ & M3). exact M3.
  - apply wf_path_cons in Hp. destruct Hp as [He Hp]. rewrite hpi_more by auto.
    rewrite !ps_has_more by auto.
    rewrite gmerge_look; auto; try key_side; try (apply cok_kwf; auto).
    destruct (klook fst e c1) as [x|] eqn:L1; destruct (klook fst e c2) as [y|] eqn:L2;
      cbn [gcomb chas].
    + destruct (klook_cok e c1 x A4 L1) as (Hx & (X1 & X2 & X3) & Hex).
      destruct (klook_cok e c2 y B4 L2) as (Hy & (Y1 & Y2 & Y3) & _).
      destruct (IH x Hx (snd y) X2 Y2) as [_ U2].
      unfold rdiff_fb. cbv zeta. rewrite (pes_has_spec (fst x) m2) by auto.
      rewrite <- (pes_mem_cong e (fst x) m2) by auto.
      destruct (pes_mem e m2); cbn [negb orb chas].
      * rewrite andb_false_r. reflexivity.
      * rewrite <- (U2 (p0 :: p') Hp).
        destruct (ps_empty (ps_rdiff (snd x) (snd y))) eqn:E; cbn [chas snd].
        -- symmetry. apply ps_empty_has. exact E.
        -- reflexivity.
    + destruct (klook_cok e c1 x A4 L1) as (Hx & (X1 & X2 & X3) & Hex).
      unfold rdiff_fl. rewrite (pes_has_spec (fst x) m2) by auto.
      rewrite <- (pes_mem_cong e (fst x) m2) by auto.
      destruct (pes_mem e m2); cbn [negb orb chas].
      * rewrite andb_false_r. reflexivity.
      * rewrite andb_true_r. reflexivity.
    + reflexivity.
    + reflexivity.
Qed.
