(* Keyed-list members and their key fields under the comparison of two objects, and the
   condition on recorded sets that histories preserve:
     [key_sync v S]: for every key field that the object v spells out for a keyed-list
     member, S holds the member iff it holds the key field.
   Together with "every member of S designates a node of v" this gives the side conditions
   of Proofs/ApplyEffect.v ([keys_closed], [atomic_items_free], [owns_live_keys]); it is
   preserved by what Update and Apply do to the records. *)
From Coq Require Import List ZArith String Bool Arith Lia.
From SMD Require Import Model.Value Model.Order Model.PathElem Model.PathSet Model.Schema Model.Walk
  Model.Validate Model.FieldSet Model.Remove Model.Merge Model.Compare Model.Matcher Model.Reconcile
  Model.Updater
  Spec.PathsAsSets Spec.RefValid Spec.Resolve Spec.Agree Spec.RefDiff
  Proofs.OrderLaws Proofs.KeyLaws Proofs.PathSetLaws Proofs.ValidateLaws Proofs.SchemaOk Proofs.FieldSetBase Proofs.FieldSetShape Proofs.FieldSetPaths
  Proofs.FieldSetWf Proofs.FieldSetLaws Proofs.RemoveAbsent Proofs.RemoveWf Proofs.ResolveLaws
  Proofs.UpdaterLaws Proofs.UpdaterLaws2 Proofs.MergeLaws Proofs.MergeAgree
  Proofs.RemoveFrame Proofs.EnLaws Proofs.NodeSet Proofs.KeyFields Proofs.VeqbResolve
  Proofs.SetCheckers Proofs.ApplyEffect Proofs.RefDiffBoth Proofs.RefDiffLaws Proofs.RefDiffPresent
  Proofs.RefDiffChar Proofs.CompareLaws.
From SMD Require Proofs.MergeVeqbAux Proofs.UpdateInv Proofs.ReconcileBase.
Import ListNotations.
Open Scope bool_scope.
Open Scope list_scope.

Local Arguments ps_has : simpl never.
Local Arguments ps_with_prefix : simpl never.
Local Arguments ps_empty : simpl never.

Definition members_present (s : schema) (tr : typeref) (v : value) (S : pset) : Prop :=
  forall p, wf_path p = true -> ps_has p S = true -> present s tr v p = true.

Definition key_sync (s : schema) (tr : typeref) (v : value) (S : pset) : Prop :=
  forall (pre : path) fl k,
    wf_path (pre ++ [PEKey fl; PEField k]) = true -> In k (map fst fl) ->
    present s tr v (pre ++ [PEKey fl; PEField k]) = true ->
    ps_has (pre ++ [PEKey fl]) S = ps_has (pre ++ [PEKey fl; PEField k]) S.

Lemma app2 : forall (pre : path) a b, pre ++ [a; b] = (pre ++ [a]) ++ [b].
Proof. intros. rewrite <- app_assoc. reflexivity. Qed.

Lemma isso_present : forall s tr v p, isso (resolve_path s tr v p) = present s tr v p.
Proof. intros. unfold present, isso. destruct (resolve_path s tr v p); reflexivity. Qed.

Lemma F2_flr_join : forall A B C, Forall2 MergeVeqbAux.flr A C -> Forall2 MergeVeqbAux.flr B C ->
  wf_fl A = true -> wf_fl B = true -> wf_fl C = true -> Forall2 MergeVeqbAux.flr A B.
Proof.
  intros A B C H. revert B. induction H as [|a c A C [Hn Hv] _ IH]; intros B HB WA WB WC.
  - inversion HB. constructor.
  - inversion HB as [|b c' B' C' [Hn' Hv'] HB']; subst.
    unfold wf_fl in *. simpl in WA, WB, WC.
    apply andb_true_iff in WA. apply andb_true_iff in WB. apply andb_true_iff in WC.
    constructor.
    + split; [congruence|].
      apply (veqb_trans (snd a) (snd c) (snd b)); try tauto.
      rewrite (veqb_sym (snd c) (snd b)); tauto.
    + apply IH; tauto.
Qed.

Section KeyNodes.
  Variables (s : schema) (R : typeref -> Prop).
  Hypothesis Hok : schema_ok s R.
  Hypothesis Hfam : family_refs s R.
  Hypothesis Hnd : keys_nodefault s R.
  Hypothesis Hks : keys_scalar s R.

  Notation rs := (resolve_path s).

  (* ---------- the type a path leads to does not depend on the object ---------- *)
  Lemma resolve_type_det : forall p a b tr t1 x t2 y,
    rs tr a p = Some (RNode t1 x) -> rs tr b p = Some (RNode t2 y) -> t1 = t2.
  Proof.
    induction p as [|e rest IH]; intros a b tr t1 x t2 y Ha Hb.
    - simpl in Ha, Hb. inversion Ha; inversion Hb; subst. reflexivity.
    - destruct (kind_of s tr a) as [|ta ma|ta la|] eqn:Ka;
        try (rewrite resolve_path_leaf in Ha by (rewrite Ka; exact I); discriminate);
        (destruct (kind_of s tr b) as [|tb mb|tb lb|] eqn:Kb;
         try (rewrite resolve_path_leaf in Hb by (rewrite Kb; exact I); discriminate)).
      + destruct (kind_map_inv _ _ _ _ _ Ka) as (a1 & Hr1 & Ham1 & _).
        destruct (kind_map_inv _ _ _ _ _ Kb) as (a2 & Hr2 & Ham2 & _).
        rewrite Hr1 in Hr2. inversion Hr2; subst a2. rewrite Ham1 in Ham2. inversion Ham2; subst tb.
        destruct e as [k|k|k|k];
          try (rewrite (resolve_path_map_other _ _ _ _ _ _ _ Ka) in Ha by exact I; discriminate).
        rewrite (resolve_path_map _ _ _ _ _ _ _ Ka) in Ha. rewrite (resolve_path_map _ _ _ _ _ _ _ Kb) in Hb.
        destruct (assoc_get k ma) as [ca|]; [|discriminate].
        destruct (assoc_get k mb) as [cb|]; [|discriminate].
        apply (IH ca cb (field_type ta k) t1 x t2 y Ha Hb).
      + destruct e as [k|k|k|k];
          try (rewrite (resolve_path_map_other _ _ _ _ _ _ _ Ka) in Ha by exact I; discriminate).
        rewrite (resolve_path_list_other _ _ _ _ _ _ _ Kb) in Hb by reflexivity. discriminate.
      + destruct e as [k|k|k|k];
          try (rewrite (resolve_path_map_other _ _ _ _ _ _ _ Kb) in Hb by exact I; discriminate).
        rewrite (resolve_path_list_other _ _ _ _ _ _ _ Ka) in Ha by reflexivity. discriminate.
      + destruct (kind_list_inv _ _ _ _ _ Ka) as (a1 & Hr1 & Hal1 & _).
        destruct (kind_list_inv _ _ _ _ _ Kb) as (a2 & Hr2 & Hal2 & _).
        rewrite Hr1 in Hr2. inversion Hr2; subst a2. rewrite Hal1 in Hal2. inversion Hal2; subst tb.
        destruct (is_keyval e) eqn:Ekv.
        2:{ rewrite (resolve_path_list_other _ _ _ _ _ _ _ Ka Ekv) in Ha. discriminate. }
        rewrite (resolve_path_list _ _ _ _ _ _ _ Ka Ekv) in Ha.
        rewrite (resolve_path_list _ _ _ _ _ _ _ Kb Ekv) in Hb.
        destruct (group_items s ta la []) as [ga|]; [|discriminate].
        destruct (group_items s ta lb []) as [gb|]; [|discriminate].
        destruct (lookup_group e ga) as [[|xa [|ya morea]]|]; try discriminate;
          [|destruct rest; discriminate].
        destruct (lookup_group e gb) as [[|xb [|yb moreb]]|]; try discriminate;
          [|destruct rest; discriminate].
        apply (IH xa xb (list_elem ta) t1 x t2 y Ha Hb).
  Qed.

  (* ---------- a path ending in a key, with the key values ---------- *)
  Lemma item_inv2 : forall (pre : path) fl v tr dup ti xi, R tr -> wf_value v = true ->
    conforms s tr dup v = true -> wf_path (pre ++ [PEKey fl]) = true ->
    rs tr v (pre ++ [PEKey fl]) = Some (RNode ti xi) ->
    exists tp vp t l m fl0,
      rs tr v pre = Some (RNode tp vp) /\ R tp /\ kind_of s tp vp = KList t l /\
      (exists sc ma, resolve s tp = Some (Atom sc (Some t) ma)) /\
      ti = list_elem t /\ In xi l /\ xi = VMap m /\ wf_value xi = true /\
      keyed_go s t m (list_keys t) = Some fl0 /\ list_keys t <> [] /\
      Forall2 MergeVeqbAux.flr (fl_sort fl0) fl /\ wf_fl (fl_sort fl0) = true.
  Proof.
    intros pre fl v tr dup ti xi Htr Hwf Hc Hp Hres.
    apply ReconcileBase.wf_path_app in Hp. destruct Hp as [Hpre Hfl].
    apply wf_path_cons in Hfl. destruct Hfl as [Hfl _].
    rewrite resolve_path_app in Hres.
    destruct (rs tr v pre) as [[tp vp|tp vs]|] eqn:Epre; try discriminate.
    destruct (resolve_sub s R Hok Hfam pre v tr dup tp vp Htr Hwf Hc Hpre Epre) as (Htp & Hwp & Hcp).
    destruct (kind_of s tp vp) as [|t m0|t l|] eqn:Ek.
    - rewrite resolve_path_leaf in Hres by (rewrite Ek; exact I). discriminate.
    - rewrite (resolve_path_map_other _ _ _ _ _ _ _ Ek) in Hres by exact I. discriminate.
    - destruct (kind_list_inv _ _ _ _ _ Ek) as (a & Hr0 & Hal & Hv & _ & _). subst vp.
      destruct (conf_list_facts s R Hok Hfam tp dup t l Htp Hcp Ek)
        as (sc & ma & Hr & Hte & Hna & Hlne & Hhp & Hcs & _).
      rewrite (resolve_path_list_occ s R Hok tp _ t l (PEKey fl) [] Htp Hwp Ek Hfl), Hhp in Hres.
      cbn [andb is_keyval] in Hres.
      destruct (occ s t (PEKey fl) l) as [|x0 [|y more]] eqn:Eo; try discriminate.
      simpl in Hres. inversion Hres; subst ti xi. clear Hres.
      assert (Hx0 : In x0 (occ s t (PEKey fl) l)) by (rewrite Eo; left; reflexivity).
      apply occ_In in Hx0. destruct Hx0 as [Hx0 Hm]. unfold pe_matches in Hm.
      destruct (list_item_to_pe s t x0) as [ex|] eqn:Ex; [|discriminate].
      assert (Hiw : items_wf s t l).
      { apply (items_wf_R s R Hok t l Hte). simpl in Hwp. exact Hwp. }
      pose proof (Hiw x0 ex Hx0 Ex) as Hwex.
      unfold list_item_to_pe in Ex.
      destruct (negb (rel_is_assoc (list_rel t))); [discriminate|].
      destruct (list_keys t) as [|k0 ks] eqn:Ekeys.
      { destruct x0; simpl in Ex; try discriminate; inversion Ex; subst ex; discriminate. }
      destruct x0 as [| | | | |l'|m]; try (simpl in Ex; discriminate).
      rewrite keyed_item_to_pe_eq in Ex.
      destruct (keyed_go s t m (list_keys t)) as [fl0|] eqn:Eg; [|discriminate].
      inversion Ex; subst ex. clear Ex. simpl in Hm, Hwex.
      apply MergeVeqbAux.fl_eqb_F2 in Hm.
      exists tp, (VList l), t, l, m, fl0.
      repeat match goal with |- _ /\ _ => split end; auto;
        try (exists sc, ma; exact Hr).
      * apply (wf_value_list_in l _ Hwp Hx0).
      * rewrite Ekeys. discriminate.
    - rewrite resolve_path_leaf in Hres by (rewrite Ek; exact I). discriminate.
  Qed.
  (* ---------- a key field that the object spells out ---------- *)
  Lemma key_field_nodes : forall (pre : path) fl k v tr dup, R tr -> wf_value v = true ->
    conforms s tr dup v = true -> wf_path (pre ++ [PEKey fl; PEField k]) = true ->
    In k (map fst fl) ->
    present s tr v (pre ++ [PEKey fl; PEField k]) = true ->
    exists tp vp t l m fl0 tm val,
      rs tr v pre = Some (RNode tp vp) /\ R tp /\ kind_of s tp vp = KList t l /\
      (exists sc ma, resolve s tp = Some (Atom sc (Some t) ma)) /\
      rs tr v (pre ++ [PEKey fl]) = Some (RNode (list_elem t) (VMap m)) /\
      wf_value (VMap m) = true /\
      keyed_go s t m (list_keys t) = Some fl0 /\ In k (list_keys t) /\
      Forall2 MergeVeqbAux.flr (fl_sort fl0) fl /\ wf_fl (fl_sort fl0) = true /\
      kind_of s (list_elem t) (VMap m) = KMap tm m /\ assoc_get k m = Some val /\
      rs tr v (pre ++ [PEKey fl; PEField k]) = Some (RNode (field_type tm k) val) /\
      kind_of s (field_type tm k) val = KLeaf.
  Proof.
    intros pre fl k v tr dup Htr Hwf Hc Hp Hk Hpr.
    assert (Hp1 : wf_path (pre ++ [PEKey fl]) = true) by (apply (wf_path_key_prefix pre fl k []); exact Hp).
    rewrite app2 in Hpr. unfold present in Hpr. rewrite resolve_path_app in Hpr.
    destruct (rs tr v (pre ++ [PEKey fl])) as [[ti xi|ti xs]|] eqn:Eitem; try discriminate.
    destruct (item_inv2 pre fl v tr dup ti xi Htr Hwf Hc Hp1 Eitem)
      as (tp & vp & t & l & m & fl0 & Epre & Htp & Ek & (sc & ma & Hr) & -> & Hin & -> & Hwx & Eg & Hkne & HF & HwF).
    destruct (resolve_sub s R Hok Hfam (pre ++ [PEKey fl]) v tr dup _ _ Htr Hwf Hc Hp1 Eitem) as (Hti & Hwi & Hci).
    assert (Hkk : In k (list_keys t)).
    { rewrite (F2_flr_names _ _ HF) in Hk || rewrite <- (F2_flr_names _ _ HF) in Hk.
      apply (proj1 (fl_sort_names fl0 k)) in Hk. rewrite (keyed_go_names _ _ _ _ _ Eg) in Hk. exact Hk. }
    destruct (kind_of s (list_elem t) (VMap m)) as [|tm m'|tm l'|] eqn:Ekm;
      try (rewrite resolve_path_leaf in Hpr by (rewrite Ekm; exact I); discriminate).
    2:{ pose proof (kind_vmap_cases s (list_elem t) m) as Hkc. rewrite Ekm in Hkc. contradiction. }
    destruct (kind_map_inv _ _ _ _ _ Ekm) as (ea & Hre & Hame & Hv & _ & _). inversion Hv; subst m'.
    rewrite (resolve_path_map _ _ _ _ _ _ _ Ekm) in Hpr.
    destruct (assoc_get k m) as [val|] eqn:Ev; [|discriminate].
    destruct (Hks tp _ t k ea tm Htp Hr eq_refl Hkk Hre Hame) as (sck & Hrk).
    assert (Hcv : conforms s (field_type tm k) dup val = true).
    { destruct ea as [sce lie mae]. simpl in Hame. subst mae.
      rewrite conforms_eq, Hre in Hci. eapply cmap_each_in; eauto. apply assoc_get_In. exact Ev. }
    assert (Hleaf : kind_of s (field_type tm k) val = KLeaf).
    { pose proof (conforms_kind_not_bad s (field_type tm k) dup val Hcv) as Hnb.
      rewrite conforms_eq, Hrk in Hcv. unfold kind_of in *. rewrite Hrk in *.
      destruct val; try discriminate; reflexivity. }
    exists tp, vp, t, l, m, fl0, tm, val.
    repeat match goal with |- _ /\ _ => split end; auto;
      try (exists sc, ma; exact Hr).
    rewrite app2, resolve_path_app, Eitem, (resolve_path_map _ _ _ _ _ _ _ Ekm), Ev. reflexivity.
  Qed.

  (* a member that is a granular map spells out its key fields *)
  Lemma member_has_key : forall (pre : path) fl k v tr dup ti xi tm m, R tr -> wf_value v = true ->
    conforms s tr dup v = true -> wf_path (pre ++ [PEKey fl; PEField k]) = true ->
    In k (map fst fl) ->
    rs tr v (pre ++ [PEKey fl]) = Some (RNode ti xi) -> kind_of s ti xi = KMap tm m ->
    present s tr v (pre ++ [PEKey fl; PEField k]) = true.
  Proof.
    intros pre fl k v tr dup ti xi tm m Htr Hwf Hc Hp Hk Eitem Ekm.
    assert (Hp1 : wf_path (pre ++ [PEKey fl]) = true) by (apply (wf_path_key_prefix pre fl k []); exact Hp).
    destruct (item_key_explicit s R Hok Hfam Hnd pre fl k v tr dup ti xi Htr Hwf Hc Hp1 Eitem Hk)
      as (m0 & val & -> & Ev).
    destruct (kind_map_inv _ _ _ _ _ Ekm) as (ea & Hre & Hame & Hv & _ & _). inversion Hv; subst m0.
    rewrite app2. unfold present. rewrite resolve_path_app, Eitem, (resolve_path_map _ _ _ _ _ _ _ Ekm), Ev.
    reflexivity.
  Qed.

  (* the key field has the same value in two objects *)
  Lemma key_values_agree : forall (pre : path) fl k a b tr da db, R tr ->
    wf_value a = true -> wf_value b = true ->
    conforms s tr da a = true -> conforms s tr db b = true ->
    wf_path (pre ++ [PEKey fl; PEField k]) = true -> In k (map fst fl) ->
    present s tr a (pre ++ [PEKey fl; PEField k]) = true ->
    present s tr b (pre ++ [PEKey fl; PEField k]) = true ->
    exists t1 x t2 y,
      rs tr a (pre ++ [PEKey fl; PEField k]) = Some (RNode t1 x) /\
      rs tr b (pre ++ [PEKey fl; PEField k]) = Some (RNode t2 y) /\
      kind_of s t1 x = KLeaf /\ kind_of s t2 y = KLeaf /\ veqb y x = true.
  Proof.
    intros pre fl k a b tr da db Htr Hwa Hwb Hca Hcb Hp Hk Hpa Hpb.
    destruct (key_field_nodes pre fl k a tr da Htr Hwa Hca Hp Hk Hpa)
      as (tpa & vpa & ta & la & ma & fa & tma & x & Epa & Htpa & Eka & (sca & maa & Hra) & Eia & Hwma &
          Ega & Hkka & HFa & HwFa & Ekma & Eva & Era & Ela).
    destruct (key_field_nodes pre fl k b tr db Htr Hwb Hcb Hp Hk Hpb)
      as (tpb & vpb & tb & lb & mb & fb & tmb & y & Epb & Htpb & Ekb & (scb & mab & Hrb) & Eib & Hwmb &
          Egb & Hkkb & HFb & HwFb & Ekmb & Evb & Erb & Elb).
    pose proof (resolve_type_det pre a b tr tpa vpa tpb vpb Epa Epb) as Et. subst tpb.
    rewrite Hra in Hrb. inversion Hrb; subst tb. clear Hrb.
    exists (field_type tma k), x, (field_type tmb k), y.
    split; [exact Era|]. split; [exact Erb|]. split; [exact Ela|]. split; [exact Elb|].
    assert (Hwfl : wf_fl fl = true).
    { apply ReconcileBase.wf_path_app in Hp. destruct Hp as [_ Hp]. apply wf_path_cons in Hp. apply Hp. }
    pose proof (F2_flr_join _ _ _ HFa HFb HwFa HwFb Hwfl) as HF.
    pose proof (MergeVeqbAux.keyed_go_nm s ta ma mb (list_keys ta) fa fb Ega Egb) as Hnm.
    apply (MergeVeqbAux.fl_sort_F2_inv MergeVeqbAux.flr fa fb Hnm) in HF.
    destruct (MergeVeqbAux.keyed_go_rel_inv s ta ma mb (list_keys ta) fa fb Ega Egb HF k Hkka)
      as (x' & y' & Hx' & Hy' & Hxy).
    unfold MergeVeqbAux.kval in Hx', Hy'. rewrite Eva in Hx'. rewrite Evb in Hy'.
    inversion Hx'; inversion Hy'; subst x' y'.
    assert (Hwx : wf_value x = true).
    { simpl in Hwma. apply andb_true_iff in Hwma. eapply assoc_get_wf; [apply Hwma|exact Eva]. }
    assert (Hwy : wf_value y = true).
    { simpl in Hwmb. apply andb_true_iff in Hwmb. eapply assoc_get_wf; [apply Hwmb|exact Evb]. }
    rewrite (veqb_sym y x Hwy Hwx). exact Hxy.
  Qed.
End KeyNodes.

(* ================= the comparison of two objects at keyed-list members ================= *)
Section CompareKeys.
  Variables (s : schema) (R : typeref -> Prop).
  Hypothesis Hok : schema_ok s R.
  Hypothesis Hfam : family_refs s R.
  Hypothesis Hpure : lists_pure s R.
  Hypothesis Hnd : keys_nodefault s R.
  Hypothesis Hks : keys_scalar s R.
  Variables (tr : typeref) (l r : value) (c : comparison3).
  Hypothesis Htr : R tr.
  Hypothesis Hwl : wf_value l = true.
  Hypothesis Hwr : wf_value r = true.
  Hypothesis Hcl : conforms s tr true l = true.
  Hypothesis Hcr : conforms s tr true r = true.
  Hypothesis Hc : compare s tr l r = Some c.

  Notation rs := (resolve_path s).

  Definition changed (p : path) : bool :=
    ps_has p (removed c) || ps_has p (modified c) || ps_has p (added c).

  (* a node of the right-hand object that is not reported added is a node of the left-hand one *)
  Lemma not_added_present_l : forall p, wf_path p = true -> p <> [] ->
    present s tr r p = true -> ps_has p (added c) = false -> present s tr l p = true.
  Proof.
    intros p Hp Hne Hpr Hna.
    destruct (compare_swap s R tr l r c Hok Htr Hwl Hwr Hc) as (c' & Hc' & E1 & _ & _).
    destruct (compare_sets_ok s R tr l r c Hok Htr Hwl Hwr Hc) as (_ & _ & HA).
    destruct (compare_sets_ok s R tr r l c' Hok Htr Hwr Hwl Hc') as (HR' & _ & _).
    destruct (UpdateInv.compare_present s R tr r l c' Hok Hfam Hpure Htr Hwr Hwl Hcr Hcl Hc' p Hp Hne)
      as (K1 & _ & _).
    apply K1; [exact Hpr|].
    rewrite (proj1 (ps_equals_ext (removed c') (added c) HR' HA) E1 p Hp). exact Hna.
  Qed.

  Section AtKey.
    Variables (pre : path) (fl : fieldlist) (k : string).
    Hypothesis Hp : wf_path (pre ++ [PEKey fl; PEField k]) = true.
    Hypothesis Hk : In k (map fst fl).

    Let Hp1 : wf_path (pre ++ [PEKey fl]) = true := wf_path_key_prefix pre fl k [] Hp.

    Lemma m_nonnil : pre ++ [PEKey fl] <> [].
    Proof. destruct pre; discriminate. Qed.
    Lemma mk_nonnil : pre ++ [PEKey fl; PEField k] <> [].
    Proof. destruct pre; discriminate. Qed.

    (* a key field that both objects spell out: nothing is reported at the member or at
       the key field *)
    Lemma key_stable :
      present s tr l (pre ++ [PEKey fl; PEField k]) = true ->
      present s tr r (pre ++ [PEKey fl; PEField k]) = true ->
      changed (pre ++ [PEKey fl]) = false /\ changed (pre ++ [PEKey fl; PEField k]) = false.
    Proof.
      intros Hpl Hpr.
      destruct (key_field_nodes s R Hok Hfam Hks pre fl k l tr true Htr Hwl Hcl Hp Hk Hpl)
        as (tpa & vpa & ta & la & ma & fa & tma & x & _ & _ & _ & _ & Eia & _ & _ & _ & _ & _ & Ekma & _).
      destruct (key_field_nodes s R Hok Hfam Hks pre fl k r tr true Htr Hwr Hcr Hp Hk Hpr)
        as (tpb & vpb & tb & lb & mb & fb & tmb & y & _ & _ & _ & _ & Eib & _ & _ & _ & _ & _ & Ekmb & _).
      destruct (key_values_agree s R Hok Hfam Hks pre fl k l r tr true true Htr Hwl Hwr Hcl Hcr Hp Hk Hpl Hpr)
        as (t1 & x1 & t2 & y1 & Ex & Ey & Lx & Ly & Hv).
      destruct (compare_char s R Hok Hfam Hpure tr l r c Htr Hwl Hwr Hcl Hcr Hc _ Hp1 m_nonnil)
        as (A1 & A2 & A3 & _).
      destruct (compare_char s R Hok Hfam Hpure tr l r c Htr Hwl Hwr Hcl Hcr Hc _ Hp mk_nonnil)
        as (B1 & B2 & B3 & _).
      rewrite Eia, Eib in A1, A2, A3. rewrite Ex, Ey in B1, B2, B3.
      unfold changed. split.
      - destruct (ps_has (pre ++ [PEKey fl]) (removed c)) eqn:E1.
        { destruct (A2 eq_refl) as [_ [H|H]]; [discriminate|exfalso; apply H; reflexivity]. }
        destruct (ps_has (pre ++ [PEKey fl]) (modified c)) eqn:E2.
        { exfalso. pose proof (A3 eq_refl) as H. simpl in H. rewrite Ekma, Ekmb in H. exact H. }
        destruct (ps_has (pre ++ [PEKey fl]) (added c)) eqn:E3; [|reflexivity].
        destruct (A1 eq_refl) as [_ [H|H]]; [discriminate|exfalso; apply H; reflexivity].
      - destruct (ps_has (pre ++ [PEKey fl; PEField k]) (removed c)) eqn:E1.
        { destruct (B2 eq_refl) as [_ [H|H]]; [discriminate|exfalso; apply H; reflexivity]. }
        destruct (ps_has (pre ++ [PEKey fl; PEField k]) (modified c)) eqn:E2.
        { exfalso. pose proof (B3 eq_refl) as H. simpl in H. rewrite Lx, Ly, Hv in H. discriminate. }
        destruct (ps_has (pre ++ [PEKey fl; PEField k]) (added c)) eqn:E3; [|reflexivity].
        destruct (B1 eq_refl) as [_ [H|H]]; [discriminate|exfalso; apply H; reflexivity].
    Qed.

    (* a key field that only the right-hand object spells out: the member is reported added *)
    Lemma key_new :
      present s tr r (pre ++ [PEKey fl; PEField k]) = true ->
      present s tr l (pre ++ [PEKey fl; PEField k]) = false ->
      ps_has (pre ++ [PEKey fl]) (added c) = true.
    Proof.
      intros Hpr Hpl.
      destruct (key_field_nodes s R Hok Hfam Hks pre fl k r tr true Htr Hwr Hcr Hp Hk Hpr)
        as (tpb & vpb & tb & lb & mb & fb & tmb & y & _ & _ & _ & _ & Eib & _ & _ & _ & _ & _ & Ekmb & _).
      destruct (compare_char s R Hok Hfam Hpure tr l r c Htr Hwl Hwr Hcl Hcr Hc _ Hp1 m_nonnil)
        as (_ & _ & _ & A4).
      destruct (rs tr l (pre ++ [PEKey fl])) as [[ti xi|ti xs]|] eqn:Eia.
      - (* a single member on the left: it spells out the key *)
        exfalso.
        pose proof (resolve_type_det s _ l r tr ti xi _ _ Eia Eib) as Et. subst ti.
        destruct (item_key_explicit s R Hok Hfam Hnd pre fl k l tr true _ xi Htr Hwl Hcl Hp1 Eia Hk)
          as (m0 & val & -> & Ev).
        destruct (kind_map_inv _ _ _ _ _ Ekmb) as (ea & Hre & Hame & _ & Hna & _).
        assert (Ekma : kind_of s (list_elem tb) (VMap m0) = KMap tmb m0).
        { unfold kind_of. rewrite Hre. destruct ea as [sc li ma]. simpl in Hame. subst ma.
          rewrite Hna. destruct m0; [discriminate Ev|reflexivity]. }
        rewrite (member_has_key s R Hok Hfam Hnd pre fl k l tr true _ _ tmb m0 Htr Hwl Hcl Hp Hk Eia Ekma) in Hpl.
        discriminate.
      - (* a group of duplicates on the left *)
        apply A4; [reflexivity|rewrite Eib; reflexivity|rewrite Eib; simpl; discriminate].
      - (* nothing on the left *)
        destruct (ps_has (pre ++ [PEKey fl]) (added c)) eqn:E; [reflexivity|].
        assert (Hprm : present s tr r (pre ++ [PEKey fl]) = true) by (unfold present; rewrite Eib; reflexivity).
        pose proof (not_added_present_l _ Hp1 m_nonnil Hprm E) as H. unfold present in H. rewrite Eia in H.
        discriminate.
    Qed.
  End AtKey.
End CompareKeys.

(* ================= recorded sets ================= *)
Section SetFacts.
  Variables (s : schema) (R : typeref -> Prop).
  Hypothesis Hok : schema_ok s R.
  Hypothesis Hfam : family_refs s R.
  Hypothesis Hpure : lists_pure s R.
  Hypothesis Hnd : keys_nodefault s R.
  Hypothesis Hks : keys_scalar s R.

  Notation rs := (resolve_path s).

  (* ---------- the conditions of Proofs/ApplyEffect.v, to and fro ---------- *)
  Lemma key_sync_of : forall tr v S, keys_closed S -> owns_live_keys s tr v S -> key_sync s tr v S.
  Proof.
    intros tr v S Hkc Holk pre fl k Hwf Hk Hpr.
    destruct (ps_has (pre ++ [PEKey fl]) S) eqn:E1.
    - symmetry. apply Holk; auto.
    - destruct (ps_has (pre ++ [PEKey fl; PEField k]) S) eqn:E2; [|reflexivity].
      rewrite <- E1. apply (Hkc pre fl k [] Hwf Hk E2).
  Qed.

  Lemma owns_of_key_sync : forall tr v S, key_sync s tr v S -> owns_live_keys s tr v S.
  Proof. intros tr v S H pre fl k Hwf Hk Hm Hpr. rewrite <- (H pre fl k Hwf Hk Hpr). exact Hm. Qed.

  Lemma keys_closed_of_key_sync : forall tr v dup S, R tr -> wf_value v = true ->
    conforms s tr dup v = true -> members_present s tr v S -> key_sync s tr v S -> keys_closed S.
  Proof.
    intros tr v dup S Htr Hwf Hc Hmp Hsync pre fl k rest Hp Hk Hhas.
    pose proof (Hmp _ Hp Hhas) as Hpr.
    destruct (key_field_leaf s R Hok Hfam Hks pre fl k rest v tr dup Htr Hwf Hc Hp Hk Hpr) as (-> & _).
    rewrite (Hsync pre fl k Hp Hk Hpr). exact Hhas.
  Qed.

  (* the type [ps_en] works with along a path that leads to a granular node *)
  Lemma resolve_en_type : forall p v tr dup ti xi, R tr -> wf_value v = true ->
    conforms s tr dup v = true -> wf_path p = true ->
    rs tr v p = Some (RNode ti xi) ->
    match kind_of s ti xi with KMap _ _ | KList _ _ => True | _ => False end ->
    en_type s tr p = ti.
  Proof.
    induction p as [|e rest IH]; intros v tr dup ti xi Htr Hwf Hc Hp Hres Hk.
    - simpl in Hres. inversion Hres; subst. reflexivity.
    - apply wf_path_cons in Hp. destruct Hp as [He Hrest].
      destruct (kind_of s tr v) as [|t m|t l|] eqn:Ek.
      + rewrite resolve_path_leaf in Hres by (rewrite Ek; exact I). discriminate.
      + destruct (kind_map_inv _ _ _ _ _ Ek) as (a & Hr & Ham & Hv & _ & _). subst v.
        destruct e as [k|fl|ev|i];
          try (rewrite (resolve_path_map_other _ _ _ _ _ _ _ Ek) in Hres by exact I; discriminate).
        rewrite (resolve_path_map _ _ _ _ _ _ _ Ek) in Hres.
        destruct (assoc_get k m) as [c|] eqn:Eg; [|discriminate].
        pose proof (assoc_get_In m k c Eg) as Hin.
        destruct a as [sc li ma]. simpl in Ham. subst ma.
        cbn [en_type]. unfold atom_at. rewrite Hr. cbn [en_child_tr].
        apply (IH c (field_type t k) dup ti xi); auto.
        * apply (so_map s R Hok tr _ t k Htr Hr eq_refl).
        * apply (wf_value_map_in m k c Hwf Hin).
        * rewrite conforms_eq, Hr in Hc. eapply cmap_each_in; eauto.
      + destruct (kind_list_inv _ _ _ _ _ Ek) as (a & Hr0 & Hal & Hv & _ & _). subst v.
        destruct (conf_list_facts s R Hok Hfam tr dup t l Htr Hc Ek)
          as (sc & ma & Hr & Hte & Hna & Hlne & Hhp & Hcs & _).
        rewrite (resolve_path_list_occ s R Hok tr _ t l e rest Htr Hwf Ek He), Hhp in Hres.
        destruct (is_keyval e) eqn:Ekv; [|discriminate]. cbn [andb] in Hres.
        destruct (occ s t e l) as [|x0 [|y more]] eqn:Eo; [discriminate| |destruct rest; discriminate].
        assert (Hx0 : In x0 (occ s t e l)) by (rewrite Eo; left; reflexivity).
        apply occ_In in Hx0. destruct Hx0 as [Hx0 Hm0].
        destruct e as [k|fl|ev|i]; try discriminate.
        * cbn [en_type]. unfold atom_at. rewrite Hr. cbn [en_child_tr].
          apply (IH x0 (list_elem t) dup ti xi); auto.
          -- apply (wf_value_list_in l x0 Hwf Hx0).
          -- rewrite forallb_forall in Hcs. exact (Hcs x0 Hx0).
        * exfalso. unfold pe_matches in Hm0.
          destruct (list_item_to_pe s t x0) as [ex|] eqn:Ex; [|discriminate].
          pose proof (pe_value_scalar s t x0 ex ev Ex Hm0) as Hsc.
          pose proof (scalar_leafy s (list_elem t) x0 Hsc) as Hlf. unfold leafy in Hlf.
          destruct rest as [|e2 rest2].
          -- simpl in Hres. inversion Hres; subst ti xi.
             destruct (kind_of s (list_elem t) x0); contradiction.
          -- rewrite resolve_path_leaf in Hres by exact Hlf. discriminate.
      + rewrite resolve_path_leaf in Hres by (rewrite Ek; exact I). discriminate.
  Qed.

  Lemma atomic_free_of_present : forall tr v dup S, R tr -> wf_value v = true ->
    conforms s tr dup v = true -> members_present s tr v S -> atomic_items_free s tr S.
  Proof.
    intros tr v dup S Htr Hwf Hc Hmp pre e q Hp Hq Hkv Hhas.
    pose proof (Hmp _ Hp Hhas) as Hpr.
    replace (pre ++ e :: q) with ((pre ++ [e]) ++ q) in Hpr, Hp by (rewrite <- app_assoc; reflexivity).
    unfold present in Hpr. rewrite resolve_path_app in Hpr.
    apply ReconcileBase.wf_path_app in Hp. destruct Hp as [Hp1 _].
    destruct (rs tr v (pre ++ [e])) as [[ti xi|ti xs]|] eqn:Ei; [| destruct q; [contradiction Hq; reflexivity|discriminate] |discriminate].
    assert (Hkind : match kind_of s ti xi with KMap _ _ | KList _ _ => True | _ => False end).
    { destruct (kind_of s ti xi) eqn:Ek; try exact I;
        (destruct q as [|e2 q2]; [contradiction Hq; reflexivity|];
         rewrite resolve_path_leaf in Hpr by (rewrite Ek; exact I); discriminate). }
    rewrite (resolve_en_type (pre ++ [e]) v tr dup ti xi Htr Hwf Hc Hp1 Ei Hkind).
    destruct (resolve_sub s R Hok Hfam (pre ++ [e]) v tr dup ti xi Htr Hwf Hc Hp1 Ei) as (Hti & _ & _).
    unfold atomic_map_type.
    destruct (kind_of s ti xi) as [|t m|t l|] eqn:Ek; try contradiction.
    - destruct (kind_map_inv _ _ _ _ _ Ek) as (a & Hr & Ham & _ & Hna & _).
      rewrite Hr. destruct a as [sc li ma]. simpl in Ham. subst ma. exact Hna.
    - destruct (kind_list_inv _ _ _ _ _ Ek) as (a & Hr & Hal & _ & Hna & _).
      rewrite Hr. destruct a as [sc li ma]. simpl in Hal. subst li.
      destruct (Hpure ti sc t ma Hti Hr Hna) as [_ ->]. reflexivity.
  Qed.
End SetFacts.

(* ================= what Update and Apply do to the records ================= *)
Section Steps.
  Variables (s : schema) (R : typeref -> Prop).
  Hypothesis Hok : schema_ok s R.
  Hypothesis Hfam : family_refs s R.
  Hypothesis Hpure : lists_pure s R.
  Hypothesis Hnd : keys_nodefault s R.
  Hypothesis Hks : keys_scalar s R.

  Notation rs := (resolve_path s).

  Section Compared.
    Variables (tr : typeref) (l r : value) (c : comparison3).
    Hypothesis Htr : R tr.
    Hypothesis Hwl : wf_value l = true.
    Hypothesis Hwr : wf_value r = true.
    Hypothesis Hcl : conforms s tr true l = true.
    Hypothesis Hcr : conforms s tr true r = true.
    Hypothesis Hc : compare s tr l r = Some c.

    Lemma changed_false : forall p, changed c p = false ->
      ps_has p (removed c) = false /\ ps_has p (modified c) = false /\ ps_has p (added c) = false.
    Proof.
      intros p H. unfold changed in H. apply orb_false_iff in H. destruct H as [H H3].
      apply orb_false_iff in H. tauto.
    Qed.

    (* a record of another manager: what it keeps *)
    Lemma key_sync_keeps : forall r0 S',
      members_present s tr l (mr_set r0) -> key_sync s tr l (mr_set r0) ->
      (forall p, wf_path p = true -> p <> [] -> ps_has p S' = keeps r0 c p) ->
      key_sync s tr r S'.
    Proof.
      intros r0 S' Hmp Hsync HS' pre fl k Hp Hk Hpr.
      pose proof (wf_path_key_prefix pre fl k [] Hp) as Hp1.
      rewrite (HS' _ Hp1 (m_nonnil pre fl k Hp)), (HS' _ Hp (mk_nonnil pre fl k Hp)). unfold keeps.
      destruct (present s tr l (pre ++ [PEKey fl; PEField k])) eqn:Hpl.
      - destruct (key_stable s R Hok Hfam Hpure Hks tr l r c Htr Hwl Hwr Hcl Hcr Hc pre fl k Hp Hk Hpl Hpr)
          as [C1 C2].
        apply changed_false in C1. apply changed_false in C2.
        destruct C1 as (A1 & A2 & A3). destruct C2 as (B1 & B2 & B3).
        rewrite A1, A2, A3, B1, B2, B3, (Hsync pre fl k Hp Hk Hpl). reflexivity.
      - rewrite (key_new s R Hok Hfam Hpure Hnd Hks tr l r c Htr Hwl Hwr Hcl Hcr Hc pre fl k Hp Hk Hpr Hpl).
        destruct (ps_has (pre ++ [PEKey fl; PEField k]) (mr_set r0)) eqn:E.
        + rewrite (Hmp _ Hp E) in Hpl. discriminate.
        + rewrite orb_true_r. cbn [negb andb]. rewrite andb_false_r. reflexivity.
    Qed.

    (* the record of the updating manager *)
    Lemma key_sync_update_set : forall U U',
      members_present s tr l U -> key_sync s tr l U ->
      (forall p, wf_path p = true -> p <> [] ->
         ps_has p U' = (ps_has p U && negb (ps_has p (removed c))) || ps_has p (modified c) || ps_has p (added c)) ->
      key_sync s tr r U'.
    Proof.
      intros U U' Hmp Hsync HU' pre fl k Hp Hk Hpr.
      pose proof (wf_path_key_prefix pre fl k [] Hp) as Hp1.
      rewrite (HU' _ Hp1 (m_nonnil pre fl k Hp)), (HU' _ Hp (mk_nonnil pre fl k Hp)).
      destruct (present s tr l (pre ++ [PEKey fl; PEField k])) eqn:Hpl.
      - destruct (key_stable s R Hok Hfam Hpure Hks tr l r c Htr Hwl Hwr Hcl Hcr Hc pre fl k Hp Hk Hpl Hpr)
          as [C1 C2].
        apply changed_false in C1. apply changed_false in C2.
        destruct C1 as (A1 & A2 & A3). destruct C2 as (B1 & B2 & B3).
        rewrite A1, A2, A3, B1, B2, B3, (Hsync pre fl k Hp Hk Hpl). reflexivity.
      - rewrite (key_new s R Hok Hfam Hpure Hnd Hks tr l r c Htr Hwl Hwr Hcl Hcr Hc pre fl k Hp Hk Hpr Hpl).
        destruct (ps_has (pre ++ [PEKey fl; PEField k]) (added c)) eqn:E.
        + rewrite !orb_true_r. reflexivity.
        + rewrite (not_added_present_l s R Hok Hfam Hpure tr l r c Htr Hwl Hwr Hcl Hcr Hc _ Hp (mk_nonnil pre fl k Hp) Hpr E) in Hpl.
          discriminate.
    Qed.
  End Compared.

  (* the record of the applying manager: the field set of a configuration, against any object *)
  Lemma key_sync_field_set : forall tr cfg set0 v, R tr ->
    wf_value cfg = true -> conforms s tr false cfg = true ->
    to_field_set s tr cfg = Some set0 ->
    wf_value v = true -> conforms s tr true v = true ->
    key_sync s tr v set0.
  Proof.
    intros tr cfg set0 v Htr Hwc Hcc Hset0 Hwv Hcv pre fl k Hp Hk Hpr.
    pose proof (MergeBase.conforms_dup_mono s cfg tr Hcc) as Hcc'.
    pose proof (wf_path_key_prefix pre fl k [] Hp) as Hp1.
    destruct (key_field_nodes s R Hok Hfam Hks pre fl k v tr true Htr Hwv Hcv Hp Hk Hpr)
      as (tpb & vpb & tb & lb & mb & fb & tmb & y & _ & _ & _ & _ & Eib & _ & _ & _ & _ & _ & Ekmb & _).
    assert (Hhas : forall p, wf_path p = true -> p <> [] -> ps_has p set0 = pmem p (fsp s tr cfg)).
    { intros p Hwp Hne. rewrite to_field_set_eq in Hset0. destruct (fse s tr cfg); [discriminate|].
      inversion Hset0; subst set0. apply (fs_has s R Hok tr cfg p Htr Hwc Hwp Hne). }
    destruct (ps_has (pre ++ [PEKey fl]) set0) eqn:E1.
    - (* the configuration has the member: it spells out the key, which is a leaf *)
      symmetry.
      pose proof (field_set_paths_resolve s R tr cfg set0 _ Hok Htr Hfam Hwc Hcc' Hset0 Hp1 E1) as Hprm.
      unfold present in Hprm.
      destruct (rs tr cfg (pre ++ [PEKey fl])) as [[ti xi|ti xs]|] eqn:Eia; [| |discriminate].
      2:{ exfalso. apply (conforms_no_dup s R Hok Hfam (pre ++ [PEKey fl]) cfg tr ti xs Htr Hwc Hcc Hp1 Eia). }
      pose proof (resolve_type_det s _ cfg v tr ti xi _ _ Eia Eib) as Et. subst ti.
      destruct (item_key_explicit s R Hok Hfam Hnd pre fl k cfg tr false _ xi Htr Hwc Hcc Hp1 Eia Hk)
        as (m0 & val & -> & Ev).
      destruct (kind_map_inv _ _ _ _ _ Ekmb) as (ea & Hre & Hame & _ & Hna & _).
      assert (Ekma : kind_of s (list_elem tb) (VMap m0) = KMap tmb m0).
      { unfold kind_of. rewrite Hre. destruct ea as [sc li ma]. simpl in Hame. subst ma.
        rewrite Hna. destruct m0; [discriminate Ev|reflexivity]. }
      pose proof (member_has_key s R Hok Hfam Hnd pre fl k cfg tr false _ _ tmb m0 Htr Hwc Hcc Hp Hk Eia Ekma) as Hprk.
      destruct (key_field_leaf s R Hok Hfam Hks pre fl k [] cfg tr false Htr Hwc Hcc Hp Hk Hprk)
        as (_ & tk & x & Ek & Hx).
      rewrite (Hhas _ Hp (mk_nonnil pre fl k Hp)).
      apply (fsp_leaf_mem s R Hok Hfam (pre ++ [PEKey fl; PEField k]) cfg tr tk x Htr Hwc Hcc' Hp
               (mk_nonnil pre fl k Hp) Ek).
      + destruct Hx as [Hx| ->]; [apply (scalar_leafy s tk x Hx)|apply kind_null].
      + destruct Hx as [Hx| ->]; [intros ->; discriminate|discriminate].
    - (* the configuration does not have the member *)
      destruct (ps_has (pre ++ [PEKey fl; PEField k]) set0) eqn:E2; [|reflexivity].
      exfalso.
      pose proof (field_set_paths_resolve s R tr cfg set0 _ Hok Htr Hfam Hwc Hcc' Hset0 Hp E2) as Hprk.
      rewrite app2 in Hprk. unfold present in Hprk. rewrite resolve_path_app in Hprk.
      destruct (rs tr cfg (pre ++ [PEKey fl])) as [[ti xi|ti xs]|] eqn:Eia; try discriminate.
      rewrite (Hhas _ Hp1 (m_nonnil pre fl k Hp)) in E1.
      rewrite (fsp_item_mem s R Hok Hfam pre cfg tr (PEKey fl) _ Htr Hwc Hcc' Hp1 eq_refl Eia) in E1;
        [discriminate|]. exists ti, xi. reflexivity.
  Qed.
End Steps.
