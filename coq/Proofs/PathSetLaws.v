(* STATEMENTS of the field-set laws (C15): the trie operations of Model/PathSet.v refine
   plain finite sets of paths.  Every lemma is proved with Qed; the proofs live in
   Proofs/SearchLaws.v, KeyLaws.v, PesLaws.v, TrieBase.v, TrieOps.v, TrieElems.v. *)
From Coq Require Import List ZArith String Bool Arith Lia Permutation.
From SMD Require Import Base.Search Model.Value Model.Order Model.PathElem Model.PathSet
  Spec.PathsAsSets Proofs.OrderLaws.
From SMD Require Proofs.SearchLaws Proofs.KeyLaws Proofs.PesLaws Proofs.TrieBase Proofs.TrieOps
  Proofs.TrieElems.
Import ListNotations.
Open Scope bool_scope.

(* ---- bisection ---- *)
Definition monotone (n : nat) (f : nat -> bool) :=
  forall i j, i <= j -> j < n -> f i = true -> f j = true.

Lemma search_spec : forall n f, monotone n f ->
  search n f <= n /\
  (forall k, k < search n f -> f k = false) /\
  (search n f < n -> f (search n f) = true).
Proof. exact SearchLaws.search_spec. Qed.

(* ---- PathElementSet ---- *)
Definition wf_pes (l : pes) : bool := forallb wf_pe l.
Definition pes_mem (e : pe) (l : pes) : bool := existsb (peeqb e) l.

Lemma pes_has_spec : forall e l, sorted_pes l = true -> wf_pes l = true -> wf_pe e = true ->
  pes_has e l = pes_mem e l.
Proof. exact PesLaws.pes_has_spec. Qed.
Lemma pes_insert_sorted : forall e l, sorted_pes l = true -> wf_pes l = true -> wf_pe e = true ->
  sorted_pes (pes_insert e l) = true /\ wf_pes (pes_insert e l) = true.
Proof. exact PesLaws.pes_insert_sorted. Qed.
Lemma pes_insert_mem : forall e x l, sorted_pes l = true -> wf_pes l = true -> wf_pe e = true -> wf_pe x = true ->
  pes_mem x (pes_insert e l) = peeqb x e || pes_mem x l.
Proof. exact PesLaws.pes_insert_mem. Qed.
Lemma pes_union_spec : forall a b x, sorted_pes a = true -> sorted_pes b = true ->
  wf_pes a = true -> wf_pes b = true -> wf_pe x = true ->
  sorted_pes (pes_union a b) = true /\ wf_pes (pes_union a b) = true /\
  pes_mem x (pes_union a b) = pes_mem x a || pes_mem x b.
Proof. exact PesLaws.pes_union_spec. Qed.
Lemma pes_inter_spec : forall a b x, sorted_pes a = true -> sorted_pes b = true ->
  wf_pes a = true -> wf_pes b = true -> wf_pe x = true ->
  sorted_pes (pes_inter a b) = true /\ wf_pes (pes_inter a b) = true /\
  pes_mem x (pes_inter a b) = pes_mem x a && pes_mem x b.
Proof. exact PesLaws.pes_inter_spec. Qed.
Lemma pes_diff_spec : forall a b x, sorted_pes a = true -> sorted_pes b = true ->
  wf_pes a = true -> wf_pes b = true -> wf_pe x = true ->
  sorted_pes (pes_diff a b) = true /\ wf_pes (pes_diff a b) = true /\
  pes_mem x (pes_diff a b) = pes_mem x a && negb (pes_mem x b).
Proof. exact PesLaws.pes_diff_spec. Qed.
(* same members, both sorted: positionally equal *)
Lemma pes_equals_ext : forall a b, sorted_pes a = true -> sorted_pes b = true ->
  wf_pes a = true -> wf_pes b = true ->
  (pes_equals a b = true <-> forall x, wf_pe x = true -> pes_mem x a = pes_mem x b).
Proof. exact PesLaws.pes_equals_ext. Qed.

(* ---- PathElementMap ---- *)
Lemma pem_get_insert : forall (A : Type) e x (v : A) l,
  sorted_fst l = true -> forallb (fun ec => wf_pe (fst ec)) l = true -> wf_pe e = true -> wf_pe x = true ->
  sorted_fst (pem_insert e v l) = true /\
  pem_get x (pem_insert e v l) = if peeqb x e then Some v else pem_get x l.
Proof. exact PesLaws.pem_get_insert. Qed.

(* ---- the trie ---- *)
Fixpoint ps_wfv (s : pset) : bool :=
  match s with
  | PSet m c => wf_pes m && forallb (fun ec => wf_pe (fst ec) && ps_wfv (snd ec)) c
  end.
Definition ps_ok (s : pset) : bool := ps_wf s && ps_wfv s.

Lemma ps_ok_empty : ps_ok ps_empty_set = true.
Proof. exact TrieBase.ps_ok_empty. Qed.
Lemma ps_insert_ok : forall p s, ps_ok s = true -> wf_path p = true -> ps_ok (ps_insert p s) = true.
Proof. exact TrieBase.ps_insert_ok. Qed.
Lemma ps_has_insert : forall p q s, ps_ok s = true -> wf_path p = true -> wf_path q = true -> q <> [] ->
  ps_has p (ps_insert q s) = patheqb p q || ps_has p s.
Proof. exact TrieBase.ps_has_insert. Qed.
Lemma ps_of_paths_ok : forall l, forallb wf_path l = true -> ps_ok (ps_of_paths l) = true.
Proof. exact TrieBase.ps_of_paths_ok. Qed.
Lemma ps_has_of_paths : forall l p, forallb wf_path l = true -> wf_path p = true -> p <> [] ->
  ps_has p (ps_of_paths l) = pmem p l.
Proof. exact TrieBase.ps_has_of_paths. Qed.

Lemma ps_union_spec : forall a b, ps_ok a = true -> ps_ok b = true ->
  ps_ok (ps_union a b) = true /\
  forall p, wf_path p = true -> ps_has p (ps_union a b) = ps_has p a || ps_has p b.
Proof. exact TrieOps.ps_union_spec. Qed.
Lemma ps_inter_spec : forall a b, ps_ok a = true -> ps_ok b = true ->
  ps_ok (ps_inter a b) = true /\
  forall p, wf_path p = true -> ps_has p (ps_inter a b) = ps_has p a && ps_has p b.
Proof. exact TrieOps.ps_inter_spec. Qed.
Lemma ps_diff_spec : forall a b, ps_ok a = true -> ps_ok b = true ->
  ps_ok (ps_diff a b) = true /\
  forall p, wf_path p = true -> ps_has p (ps_diff a b) = ps_has p a && negb (ps_has p b).
Proof. exact TrieOps.ps_diff_spec. Qed.
(* recursive difference: drop members at or beneath a member of b *)
Definition has_prefix_in (p : path) (b : pset) : bool :=
  existsb (fun n => ps_has (firstn n p) b) (seq 1 (List.length p)).
Lemma ps_rdiff_spec : forall a b, ps_ok a = true -> ps_ok b = true ->
  ps_ok (ps_rdiff a b) = true /\
  forall p, wf_path p = true -> ps_has p (ps_rdiff a b) = ps_has p a && negb (has_prefix_in p b).
Proof. exact TrieOps.ps_rdiff_spec. Qed.

(* elements *)
Lemma ps_has_elems : forall s p, ps_ok s = true -> wf_path p = true ->
  ps_has p s = pmem p (ps_elems s).
Proof. exact TrieElems.ps_has_elems. Qed.
Lemma ps_elems_wf : forall s, ps_ok s = true -> forallb wf_path (ps_elems s) = true.
Proof. exact TrieElems.ps_elems_wf. Qed.
Lemma ps_elems_nodup : forall s, ps_ok s = true -> pnodup (ps_elems s) = true.
Proof. exact TrieElems.ps_elems_nodup. Qed.
Lemma ps_elems_sorted : forall s, ps_ok s = true -> iter_sorted (ps_elems s) = true.
Proof. exact TrieElems.ps_elems_sorted. Qed.
Lemma ps_size_elems : forall s, ps_size s = List.length (ps_elems s).
Proof. exact TrieBase.ps_size_elems. Qed.
Lemma ps_empty_elems : forall s, ps_empty s = true <-> ps_elems s = [].
Proof. exact TrieBase.ps_empty_elems. Qed.

(* leaves: members with no member strictly beneath them *)
Lemma ps_leaves_spec : forall a, ps_ok a = true ->
  ps_ok (ps_leaves a) = true /\
  forall p, wf_path p = true ->
    ps_has p (ps_leaves a) = ps_has p a && negb (existsb (fun q => proper_prefix p q) (ps_elems a)).
Proof. exact TrieElems.ps_leaves_spec. Qed.
(* prefix selection *)
Lemma ps_with_prefix_spec : forall e a, ps_ok a = true -> wf_pe e = true ->
  ps_ok (ps_with_prefix e a) = true /\
  forall p, wf_path p = true -> p <> [] -> ps_has p (ps_with_prefix e a) = ps_has (e :: p) a.
Proof. exact TrieElems.ps_with_prefix_spec. Qed.

(* extensional equality: same members means Equals, however the set was built *)
Lemma ps_equals_ext : forall a b, ps_ok a = true -> ps_ok b = true ->
  (ps_equals a b = true <-> forall p, wf_path p = true -> ps_has p a = ps_has p b).
Proof. exact TrieElems.ps_equals_ext. Qed.
Lemma ps_of_paths_perm : forall l l', forallb wf_path l = true -> Permutation l l' ->
  ps_equals (ps_of_paths l) (ps_of_paths l') = true.
Proof. exact TrieElems.ps_of_paths_perm. Qed.
(* Equals sets iterate to pairwise Path.Equals sequences *)
Lemma ps_equals_elems : forall a b, ps_ok a = true -> ps_ok b = true -> ps_equals a b = true ->
  Forall2 (fun p q => patheqb p q = true) (ps_elems a) (ps_elems b).
Proof. exact TrieElems.ps_equals_elems. Qed.
