(* The node set of an object has fewer members than the object has values:
   [node_set_size].  This is what makes the fuel of the add-back loop of the updater
   ([add_back_owned], 2 + value_size merged) sufficient: every round that continues the
   loop adds at least one member of the node set of the merged object. *)
From Coq Require Import List ZArith String Bool Arith Lia.
From SMD Require Import Model.Value Model.Order Model.PathElem Model.PathSet Model.Schema Model.Walk
  Model.Validate Model.FieldSet Model.Remove Model.Merge Model.Updater
  Spec.PathsAsSets Spec.RefValid Spec.Resolve Spec.RefDiff
  Proofs.OrderLaws Proofs.KeyLaws Proofs.PathSetLaws Proofs.ValidateLaws Proofs.SchemaOk
  Proofs.FieldSetBase Proofs.FieldSetPaths Proofs.ReconcileBase
  Proofs.RefDiffBase Proofs.RefDiffPresent Proofs.RemoveFrame Proofs.EnLaws Proofs.NodeSet.
From SMD Require Proofs.ResolveLaws.
Import ListNotations.
Open Scope bool_scope.

Local Arguments ps_has : simpl never.

(* ---------- sizes ---------- *)

Definition lsize (l : list value) : nat := fold_right (fun x acc => value_size x + acc) O l.
Definition msize (m : list (string * value)) : nat :=
  fold_right (fun kv acc => value_size (snd kv) + acc) O m.
Definition gsize (g : list (pe * list value)) : nat :=
  fold_right (fun ex acc => lsize (snd ex) + acc) O g.

Lemma value_size_pos : forall v, 1 <= value_size v.
Proof. intros v. destruct v; simpl; lia. Qed.

Lemma value_size_list : forall l, value_size (VList l) = S (lsize l).
Proof. reflexivity. Qed.
Lemma value_size_map : forall m, value_size (VMap m) = S (msize m).
Proof. reflexivity. Qed.

Lemma lsize_app : forall a b, lsize (a ++ b) = lsize a + lsize b.
Proof. induction a as [|x a IH]; intros b; simpl; [reflexivity|]. rewrite IH. lia. Qed.

Lemma lsize_nonempty : forall l, l <> [] -> 1 <= lsize l.
Proof. intros [|x l] H; [congruence|]. simpl. pose proof (value_size_pos x). lia. Qed.

Lemma g_ins_size : forall e x acc, gsize (g_ins e x acc) = gsize acc + value_size x.
Proof.
  intros e x acc. induction acc as [|[e' xs] acc IH]; simpl; [lia|].
  destruct (peeqb e' e); simpl; [rewrite lsize_app; simpl; lia|rewrite IH; lia].
Qed.

Lemma g_ins_nonempty : forall e x acc, (forall ex, In ex acc -> snd ex <> []) ->
  forall ex, In ex (g_ins e x acc) -> snd ex <> [].
Proof.
  intros e x acc. induction acc as [|[e' xs] acc IH]; simpl; intros Hacc ex Hin.
  - destruct Hin as [<-|[]]. simpl. discriminate.
  - destruct (peeqb e' e).
    + destruct Hin as [<-|Hin]; [simpl; destruct xs; discriminate|apply Hacc; right; exact Hin].
    + destruct Hin as [<-|Hin]; [apply (Hacc (e', xs)); left; reflexivity|].
      apply IH; [intros ex' H'; apply Hacc; right; exact H'|exact Hin].
Qed.

Lemma group_items_size : forall s t l acc g, group_items s t l acc = Some g ->
  (forall ex, In ex acc -> snd ex <> []) ->
  gsize g = gsize acc + lsize l /\ forall ex, In ex g -> snd ex <> [].
Proof.
  intros s t l. induction l as [|x l IH]; intros acc g Hg Hacc.
  - simpl in Hg. inversion Hg; subst. split; [simpl; lia|exact Hacc].
  - rewrite group_items_cons in Hg. destruct (list_item_to_pe s t x) as [e|]; [|discriminate].
    destruct (IH (g_ins e x acc) g Hg (g_ins_nonempty e x acc Hacc)) as [H1 H2].
    split; [|exact H2]. rewrite H1, g_ins_size. simpl. lia.
Qed.

Lemma flat_map_length_le : forall (A B : Type) (F : A -> list B) (w : A -> nat) l,
  (forall a, In a l -> List.length (F a) <= w a) ->
  List.length (flat_map F l) <= fold_right (fun a acc => w a + acc) O l.
Proof.
  intros A B F w l. induction l as [|a l IH]; intros H; simpl; [lia|].
  rewrite app_length. pose proof (H a (or_introl eq_refl)).
  assert (List.length (flat_map F l) <= fold_right (fun a acc => w a + acc) O l)
    by (apply IH; intros b Hb; apply H; right; exact Hb).
  lia.
Qed.

Lemma flat_len : forall (A B : Type) (F : A -> list B) (w : A -> nat) l k,
  (forall a, In a l -> List.length (F a) <= w a) ->
  fold_right (fun a acc => w a + acc) O l = k ->
  List.length (flat_map F l) + 1 <= S k.
Proof. intros A B F w l k H <-. pose proof (flat_map_length_le A B F w l H). lia. Qed.

(* the enumeration of the nodes beneath the root *)
Lemma nodes_fuel_size : forall f s tr v p, List.length (nodes_fuel f s tr v p) + 1 <= value_size v.
Proof.
  induction f as [|f IH]; intros s tr v p; [simpl; pose proof (value_size_pos v); lia|].
  destruct (kind_of s tr v) as [|t m|t l|] eqn:Ek.
  - simpl. rewrite Ek. simpl. pose proof (value_size_pos v). lia.
  - destruct (kind_map_inv _ _ _ _ _ Ek) as (a & _ & _ & Hv & _ & _). subst v.
    rewrite (nodes_fuel_map f s tr (VMap m) p t m Ek), value_size_map.
    apply (flat_len _ _ _ (fun kv : string * value => value_size (snd kv))); [|reflexivity].
    intros kv _. simpl.
    pose proof (IH s (field_type t (fst kv)) (snd kv) (p ++ [PEField (fst kv)])). lia.
  - destruct (kind_list_inv _ _ _ _ _ Ek) as (a & _ & _ & Hv & _ & _). subst v.
    rewrite (nodes_fuel_list f s tr (VList l) p t l Ek), value_size_list.
    destruct (group_items s t l []) as [g|] eqn:Eg; [|simpl; lia].
    destruct (group_items_size s t l [] g Eg) as [Hsz Hne]; [intros ex []|]. simpl in Hsz.
    apply (flat_len _ _ _ (fun ex : pe * list value => lsize (snd ex))); [|exact Hsz].
    intros ex Hex. specialize (Hne ex Hex).
    destruct (snd ex) as [|x [|y more]]; [congruence| |].
    + simpl. pose proof (IH s (list_elem t) x (p ++ [fst ex])). lia.
    + simpl. pose proof (value_size_pos x). lia.
  - simpl. rewrite Ek. simpl. pose proof (value_size_pos v). lia.
Qed.

(* ---------- pairwise distinct paths covered by a list ---------- *)

Lemma pnodup_cover_length : forall L Ln, forallb wf_path L = true ->
  (forall y, In y Ln -> wf_path y = true) -> pnodup L = true ->
  (forall x, In x L -> exists y, In y Ln /\ patheqb x y = true) ->
  List.length L <= List.length Ln.
Proof.
  induction L as [|x L IH]; intros Ln HwL HwLn Hnd Hcov; [simpl; lia|].
  cbn [forallb] in HwL. apply andb_true_iff in HwL. destruct HwL as [Hwx HwL].
  cbn [pnodup] in Hnd. apply andb_true_iff in Hnd. destruct Hnd as [Hnx Hnd].
  apply negb_true_iff in Hnx.
  destruct (Hcov x (or_introl eq_refl)) as (y & Hy & Hxy).
  destruct (in_split y Ln Hy) as (A & B & ->).
  rewrite app_length. simpl.
  assert (Hwy : wf_path y = true) by (apply HwLn; exact Hy).
  cut (List.length L <= List.length (A ++ B)); [rewrite app_length; lia|].
  apply IH; auto.
  - intros z Hz. apply HwLn. apply in_app_or in Hz. apply in_or_app.
    destruct Hz as [Hz|Hz]; [left; exact Hz|right; right; exact Hz].
  - intros x' Hx'. destruct (Hcov x' (or_intror Hx')) as (y' & Hy' & Hxy').
    exists y'. split; [|exact Hxy'].
    apply in_app_or in Hy'. apply in_or_app. destruct Hy' as [H|[H|H]]; [left; exact H| |right; exact H].
    exfalso. subst y'.
    assert (Hwx' : wf_path x' = true) by (rewrite forallb_forall in HwL; apply HwL; exact Hx').
    assert (Hxx' : patheqb x x' = true).
    { apply (patheqb_trans x y x' Hwx Hwy Hwx' Hxy). apply patheqb_sym_true; auto. }
    unfold pmem in Hnx. assert (Hex : existsb (patheqb x) L = true).
    { apply existsb_exists. exists x'. auto. }
    rewrite Hex in Hnx. discriminate.
Qed.

Section Count.
  Variables (s : schema) (R : typeref -> Prop).
  Hypothesis Hok : schema_ok s R.
  Hypothesis Hfam : family_refs s R.

  Theorem node_set_size : forall tr M, R tr -> wf_value M = true -> conforms s tr true M = true ->
    List.length (ps_elems (node_set s tr M)) + 1 <= value_size M.
  Proof.
    intros tr M Htr Hwf Hc.
    pose proof (node_set_ok s R Hok tr M Htr Hwf) as HN.
    pose proof (nodes_fuel_size (S (vdepth M)) s tr M []) as Hsz.
    cut (List.length (ps_elems (node_set s tr M))
         <= List.length (map fst (nodes_fuel (S (vdepth M)) s tr M []))); [rewrite map_length; lia|].
    apply pnodup_cover_length.
    - apply ps_elems_wf. exact HN.
    - intros y Hy. destruct (nodes_snd s R Hok (S (vdepth M)) M tr [] Htr Hwf y Hy) as (p2 & -> & Hp2 & _).
      exact Hp2.
    - apply ps_elems_nodup. exact HN.
    - intros x Hx.
      assert (Hwx : wf_path x = true).
      { pose proof (ps_elems_wf _ HN) as H. rewrite forallb_forall in H. apply H. exact Hx. }
      assert (Hhas : ps_has x (node_set s tr M) = true).
      { rewrite (ps_has_elems _ x HN Hwx). unfold pmem. apply existsb_exists. exists x.
        split; [exact Hx|apply patheqb_refl; exact Hwx]. }
      pose proof (node_set_present s R Hok Hfam tr M x Htr Hwf Hc Hwx Hhas) as Hpr.
      destruct (nodes_cov s R Hok (S (vdepth M)) M tr [] x Htr Hwf (Nat.lt_succ_diag_r _) Hwx
                  (has_nonnil _ _ Hhas) Hpr) as (p2 & Heq & Hin).
      exists p2. split; [exact Hin|exact Heq].
  Qed.
End Count.

