(* C11, the clauses so far only checked on the implementation's outcomes
   (statements: Proofs/CompareRest_statements.v).

   1. [compare_disjoint]     -- as stated.
   2. [compare_same_iff_equal] -- as stated PLUS the hypothesis [keys_scalar s R]
      (Proofs/KeyFields.v: key fields of keyed lists are of scalar types), needed for the
      direction <= only:
        [compare_same_implies_equal]  (=>, no side condition),
        [compare_equal_implies_same]  (<=, under [keys_scalar]),
        [compare_same_iff_equal_literal_refuted]: the statement as written is false
        (a keyed list whose key field is a set; evaluated with vm_compute).
      The reference diff's convention "null / empty container = no content against a
      granular container" does not endanger =>: a null or an empty container is a leaf
      node, and a leaf against a leaf with another value, or against a container (which has
      members), is always reported ([nv_null_vs_empty] below).
   3. [compare_from_nothing] -- as stated.

   Auxiliary developments: Proofs/CompareRestMod.v (completeness of "modified"),
   Proofs/CompareRestCanon.v (objects equal up to member order have an empty reference
   diff). *)
From Coq Require Import List ZArith String Bool Arith Lia.
From SMD Require Import Model.Value Model.Order Model.PathElem Model.PathSet Model.Schema Model.Walk
  Model.Validate Model.Merge Model.FieldSet Model.Compare
  Spec.PathsAsSets Spec.RefValid Spec.Resolve Spec.Agree Spec.RefDiff Spec.Examples
  Proofs.OrderLaws Proofs.PathSetLaws Proofs.ValidateLaws Proofs.SchemaOk Proofs.MergeBase
  Proofs.FieldSetPaths Proofs.ResolveLaws Proofs.CompareLaws
  Proofs.RefDiffBoth Proofs.RefDiffLaws Proofs.RefDiffPresent Proofs.RefDiffChar
  Proofs.RemoveFrame Proofs.KeyFields Proofs.SameLeaves
  Proofs.CompareRestMod Proofs.CompareRestCanon.
From SMD Require Proofs.UpdaterLaws Proofs.NodeSet Proofs.ReconcileBase Proofs.FieldSetBase.
Import ListNotations.
Open Scope bool_scope.

(* ------------------------------------------------------------------ *)
(* helpers *)
Lemma conforms_null : forall s tr dup dup' x, conforms s tr dup x = true -> conforms s tr dup' VNull = true.
Proof.
  intros s tr dup dup' x H. rewrite conforms_eq in *.
  destruct (resolve s tr) as [[sc li ma]|]; [|discriminate].
  destruct x; destruct sc, li, ma; try discriminate; reflexivity.
Qed.

Lemma null_leaf : forall s tr dup x, conforms s tr dup x = true -> kind_of s tr VNull = KLeaf.
Proof.
  intros s tr dup x H. rewrite conforms_eq in H. unfold kind_of.
  destruct (resolve s tr) as [[sc li ma]|]; [reflexivity|discriminate].
Qed.

(* 1. without duplicate list members on either side the three sets are pairwise disjoint *)
Theorem compare_disjoint : forall s R tr l r c p,
  schema_ok s R -> family_refs s R -> lists_pure s R -> R tr ->
  wf_value l = true -> wf_value r = true ->
  conforms s tr false l = true -> conforms s tr false r = true ->
  compare s tr l r = Some c -> wf_path p = true -> p <> [] ->
  (ps_has p (removed c) = true -> ps_has p (modified c) = false /\ ps_has p (added c) = false) /\
  (ps_has p (modified c) = true -> ps_has p (added c) = false).
Proof.
  intros s R tr l r c p Hok Hfam Hpure Htr Hl Hr Cl Cr Hc Hp Hne.
  pose proof (conforms_dup_mono s l tr Cl) as Cl'.
  pose proof (conforms_dup_mono s r tr Cr) as Cr'.
  destruct (compare_char s R Hok Hfam Hpure tr l r c Htr Hl Hr Cl' Cr' Hc p Hp Hne)
    as (Ha & Hrm & Hm & _).
  assert (Dl : isdup (resolve_path s tr l p) = false).
  { destruct (resolve_path s tr l p) as [[t x|t xs]|] eqn:E; try reflexivity.
    exfalso. exact (KeyFields.conforms_no_dup s R Hok Hfam p l tr t xs Htr Hl Cl Hp E). }
  assert (Dr : isdup (resolve_path s tr r p) = false).
  { destruct (resolve_path s tr r p) as [[t x|t xs]|] eqn:E; try reflexivity.
    exfalso. exact (KeyFields.conforms_no_dup s R Hok Hfam p r tr t xs Htr Hr Cr Hp E). }
  split.
  - intros H. destruct (Hrm H) as (Sl & [Sr|Sd]); [|rewrite Dl, Dr in Sd; congruence].
    split.
    + destruct (ps_has p (modified c)) eqn:Em; [|reflexivity]. exfalso.
      specialize (Hm eq_refl). unfold mod_o in Hm.
      destruct (resolve_path s tr l p) as [[? ?|? ?]|]; destruct (resolve_path s tr r p) as [[? ?|? ?]|];
        try contradiction; discriminate.
    + destruct (ps_has p (added c)) eqn:Ea; [|reflexivity]. exfalso.
      destruct (Ha eq_refl) as (Sr' & _). congruence.
  - intros H. destruct (ps_has p (added c)) eqn:Ea; [|reflexivity]. exfalso.
    destruct (Ha eq_refl) as (_ & [Sl|Sd]); [|rewrite Dl, Dr in Sd; congruence].
    specialize (Hm H). unfold mod_o in Hm.
    destruct (resolve_path s tr l p) as [[? ?|? ?]|]; try contradiction; discriminate.
Qed.

(* 3. comparing nothing with X reports precisely X's nodes as added *)
Theorem compare_from_nothing : forall s R tr x c p,
  schema_ok s R -> family_refs s R -> lists_pure s R -> R tr ->
  wf_value x = true -> conforms s tr true x = true ->
  compare s tr VNull x = Some c -> wf_path p = true -> p <> [] ->
  ps_has p (removed c) = false /\ ps_has p (modified c) = false /\
  (ps_has p (added c) = true <-> present s tr x p = true).
Proof.
  intros s R tr x c p Hok Hfam Hpure Htr Hx Cx Hc Hp Hne.
  pose proof (conforms_null s tr true true x Cx) as Cn.
  pose proof (null_leaf s tr true x Cx) as Kn.
  assert (Hnone : resolve_path s tr VNull p = None).
  { apply (leaf_none s tr VNull p Kn Hne). }
  destruct (compare_char s R Hok Hfam Hpure tr VNull x c Htr eq_refl Hx Cn Cx Hc p Hp Hne)
    as (Ha & Hrm & Hm & _).
  rewrite Hnone in Ha, Hrm, Hm.
  split; [|split; [|split]].
  - destruct (ps_has p (removed c)); [|reflexivity]. destruct (Hrm eq_refl) as (H & _). discriminate.
  - destruct (ps_has p (modified c)); [|reflexivity]. destruct (Hm eq_refl).
  - intros H. destruct (Ha H) as (H1 & _). unfold present.
    destruct (resolve_path s tr x p); [reflexivity|discriminate].
  - intros Hpr.
    (* completeness, through the swapped comparison *)
    destruct (compare_swap s R tr VNull x c Hok Htr eq_refl Hx Hc) as (c' & Hc' & Er & _ & _).
    destruct (compare_refines_ref_diff_restricted s R tr x VNull c' Hok Hfam Hpure Htr Hx eq_refl Cx Cn Hc' p Hp Hne)
      as (E1 & _ & _).
    destruct (ref_diff_present s R Hok Hfam tr x VNull Htr Hx eq_refl Cx Cn p Hp Hne) as (Hcov & _ & _).
    destruct (compare_sets_ok s R tr VNull x c Hok Htr eq_refl Hx Hc) as (_ & _ & Oa).
    destruct (compare_sets_ok s R tr x VNull c' Hok Htr Hx eq_refl Hc') as (Or & _ & _).
    rewrite <- (proj1 (ps_equals_ext _ _ Or Oa) Er p Hp). rewrite E1.
    destruct (pmem p (rd_removed (ref_diff s tr x VNull))) eqn:Em; [reflexivity|].
    specialize (Hcov Hpr eq_refl). unfold present in Hcov. rewrite Hnone in Hcov. discriminate.
Qed.

(* ------------------------------------------------------------------ *)
(* 2. all three sets are empty exactly when the objects are equal up to member order *)

(* nothing is reported at any (well-formed, non-empty) path *)
Definition quiet (c : comparison3) : Prop :=
  forall p, wf_path p = true -> p <> [] ->
    ps_has p (removed c) = false /\ ps_has p (modified c) = false /\ ps_has p (added c) = false.

Lemma same_quiet : forall s R tr l r c, schema_ok s R -> R tr ->
  wf_value l = true -> wf_value r = true -> compare s tr l r = Some c ->
  (c3_is_same c = true <-> quiet c).
Proof.
  intros s R tr l r c Hok Htr Hl Hr Hc.
  destruct (compare_sets_ok s R tr l r c Hok Htr Hl Hr Hc) as (O1 & O2 & O3).
  unfold c3_is_same. split.
  - intros H. apply andb_true_iff in H. destruct H as [H H3]. apply andb_true_iff in H. destruct H as [H1 H2].
    intros p _ _. rewrite !FieldSetBase.ps_empty_has by assumption. auto.
  - intros Hq.
    assert (E : forall X, ps_ok X = true -> (forall p, wf_path p = true -> p <> [] -> ps_has p X = false) ->
              ps_empty X = true).
    { intros X OX HX. destruct (ps_empty X) eqn:E; [reflexivity|].
      destruct (UpdaterLaws.ps_nonempty_has X OX E) as (p & Hp & Hne & Hh). rewrite (HX p Hp Hne) in Hh. discriminate. }
    rewrite (E _ O1), (E _ O2), (E _ O3); [reflexivity| | |]; intros p Hp Hne; apply (Hq p Hp Hne).
Qed.

Section Same.
  Variables (s : schema) (R : typeref -> Prop).
  Hypothesis Hok : schema_ok s R.
  Hypothesis Hfam : family_refs s R.
  Hypothesis Hpure : lists_pure s R.

  Lemma quiet_swap : forall tr l r c, R tr -> wf_value l = true -> wf_value r = true ->
    compare s tr l r = Some c -> quiet c ->
    exists c', compare s tr r l = Some c' /\ quiet c'.
  Proof.
    intros tr l r c Htr Hl Hr Hc Hq.
    destruct (compare_swap s R tr l r c Hok Htr Hl Hr Hc) as (c' & Hc' & E1 & E2 & E3).
    exists c'. split; [exact Hc'|].
    destruct (compare_sets_ok s R tr l r c Hok Htr Hl Hr Hc) as (O1 & O2 & O3).
    destruct (compare_sets_ok s R tr r l c' Hok Htr Hr Hl Hc') as (O1' & O2' & O3').
    intros p Hp Hne. destruct (Hq p Hp Hne) as (Q1 & Q2 & Q3).
    rewrite (proj1 (ps_equals_ext _ _ O1' O3) E1 p Hp), (proj1 (ps_equals_ext _ _ O3' O1) E2 p Hp),
      (proj1 (ps_equals_ext _ _ O2' O2) E3 p Hp). auto.
  Qed.

  (* nothing removed: every node of the left-hand object is a node of the right-hand one *)
  Lemma quiet_present : forall tr l r c, R tr -> wf_value l = true -> wf_value r = true ->
    conforms s tr true l = true -> conforms s tr true r = true ->
    compare s tr l r = Some c -> quiet c ->
    forall p, wf_path p = true -> present s tr l p = true -> present s tr r p = true.
  Proof.
    intros tr l r c Htr Hl Hr Cl Cr Hc Hq p Hp Hpr.
    destruct p as [|e rest]; [reflexivity|].
    assert (Hne : e :: rest <> []) by discriminate.
    destruct (compare_refines_ref_diff_restricted s R tr l r c Hok Hfam Hpure Htr Hl Hr Cl Cr Hc _ Hp Hne)
      as (E1 & _ & _).
    destruct (ref_diff_present s R Hok Hfam tr l r Htr Hl Hr Cl Cr _ Hp Hne) as (Hcov & _ & _).
    apply Hcov; [exact Hpr|]. rewrite <- E1. apply (Hq _ Hp Hne).
  Qed.

  (* nothing reported either way: the leaves of the one are leaves of the other, with equal values *)
  Lemma quiet_leaves : forall tr l r c c', R tr -> wf_value l = true -> wf_value r = true ->
    conforms s tr false l = true -> conforms s tr false r = true ->
    compare s tr l r = Some c -> quiet c -> compare s tr r l = Some c' -> quiet c' ->
    granular s tr l ->
    leaves_in s tr l r.
  Proof.
    intros tr l r c c' Htr Hl Hr Cl Cr Hc Hq Hc' Hq' Gl p n Hp Hres Hleaf.
    pose proof (MergeBase.conforms_dup_mono s l tr Cl) as Cl'.
    pose proof (MergeBase.conforms_dup_mono s r tr Cr) as Cr'.
    destruct p as [|e rest].
    { cbn [resolve_path] in Hres. inversion Hres; subst n. cbn [rnode_is_leaf] in Hleaf.
      unfold granular in Gl. destruct (kind_of s tr l); try discriminate; contradiction. }
    assert (Hne : e :: rest <> []) by discriminate.
    set (p := e :: rest) in *.
    assert (Hpl : present s tr l p = true) by (unfold present; rewrite Hres; reflexivity).
    pose proof (quiet_present tr l r c Htr Hl Hr Cl' Cr' Hc Hq p Hp Hpl) as Hpr.
    unfold present in Hpr. destruct (resolve_path s tr r p) as [m|] eqn:Em; [|discriminate].
    destruct n as [t1 x|t1 xs]; [|exfalso; exact (conforms_no_dup s R Hok Hfam p l tr t1 xs Htr Hl Cl Hp Hres)].
    destruct m as [t2 y|t2 ys]; [|exfalso; exact (conforms_no_dup s R Hok Hfam p r tr t2 ys Htr Hr Cr Hp Em)].
    destruct (resolve_sub s R Hok Hfam p l tr false t1 x Htr Hl Cl Hp Hres) as (R1 & W1 & C1).
    destruct (resolve_sub s R Hok Hfam p r tr false t2 y Htr Hr Cr Hp Em) as (R2 & W2 & C2).
    cbn [rnode_is_leaf] in Hleaf.
    assert (K1 : kind_of s t1 x = KLeaf).
    { pose proof (NodeSet.conforms_kind_not_bad s t1 false x C1) as Nb.
      destruct (kind_of s t1 x); try discriminate; [reflexivity|contradiction Nb; reflexivity]. }
    assert (K2 : kind_of s t2 y = KLeaf).
    { pose proof (NodeSet.conforms_kind_not_bad s t2 false y C2) as Nb.
      destruct (kind_of s t2 y) as [|tm m|tl0 l0|] eqn:Ky; [reflexivity| | |contradiction Nb; reflexivity]; exfalso.
      - destruct (first_leaf s R Hok Hfam t2 false y R2 W2 C2) as (e2 & r2 & n2 & Hp2 & Hr2 & _);
          [unfold granular; rewrite Ky; exact I|].
        assert (Hpp : wf_path (p ++ e2 :: r2) = true) by (apply ReconcileBase.wf_path_app; auto).
        assert (Hpr2 : present s tr r (p ++ e2 :: r2) = true).
        { unfold present. rewrite resolve_path_app, Em, Hr2. reflexivity. }
        pose proof (quiet_present tr r l c' Htr Hr Hl Cr' Cl' Hc' Hq' _ Hpp Hpr2) as Hpl2.
        unfold present in Hpl2. rewrite resolve_path_app, Hres in Hpl2.
        rewrite resolve_path_leaf in Hpl2 by (rewrite K1; exact I). discriminate.
      - destruct (first_leaf s R Hok Hfam t2 false y R2 W2 C2) as (e2 & r2 & n2 & Hp2 & Hr2 & _);
          [unfold granular; rewrite Ky; exact I|].
        assert (Hpp : wf_path (p ++ e2 :: r2) = true) by (apply ReconcileBase.wf_path_app; auto).
        assert (Hpr2 : present s tr r (p ++ e2 :: r2) = true).
        { unfold present. rewrite resolve_path_app, Em, Hr2. reflexivity. }
        pose proof (quiet_present tr r l c' Htr Hr Hl Cr' Cl' Hc' Hq' _ Hpp Hpr2) as Hpl2.
        unfold present in Hpl2. rewrite resolve_path_app, Hres in Hpl2.
        rewrite resolve_path_leaf in Hpl2 by (rewrite K1; exact I). discriminate. }
    unfold has_leaf. rewrite Em. cbn [rnode_is_leaf rnode_eqb]. rewrite K2. cbn [andb].
    destruct (veqb y x) eqn:Ev; [reflexivity|]. exfalso.
    assert (Hd : leafdiff_o s (resolve_path s tr l p) (resolve_path s tr r p)).
    { rewrite Hres, Em. cbn [leafdiff_o]. auto. }
    pose proof (compare_mod_complete s R Hok Hfam Hpure tr l r c Htr Hl Hr Cl' Cr' Hc p Hp Hne Hd) as Hm.
    destruct (Hq p Hp Hne) as (_ & Q2 & _). congruence.
  Qed.

  (* => : no side condition beyond those of the statement *)
  Theorem compare_same_implies_equal : forall tr l r c, R tr ->
    wf_value l = true -> wf_value r = true ->
    conforms s tr false l = true -> conforms s tr false r = true ->
    granular s tr l -> granular s tr r ->
    compare s tr l r = Some c ->
    c3_is_same c = true -> veq_assoc s tr l r = true.
  Proof.
    intros tr l r c Htr Hl Hr Cl Cr Gl Gr Hc Hs.
    apply (proj1 (same_quiet s R tr l r c Hok Htr Hl Hr Hc)) in Hs.
    destruct (quiet_swap tr l r c Htr Hl Hr Hc Hs) as (c' & Hc' & Hs').
    unfold veq_assoc.
    apply (same_leaves_fuel s R Hok Hfam (S (vdepth r)) r tr l); auto.
    - apply MergeBase.conforms_dup_mono. exact Cl.
    - apply (quiet_leaves tr r l c' c); assumption.
    - apply (quiet_leaves tr l r c c'); assumption.
  Qed.

  (* <= : for schemas whose key fields are of scalar types *)
  Theorem compare_equal_implies_same : keys_scalar s R -> forall tr l r c, R tr ->
    wf_value l = true -> wf_value r = true ->
    conforms s tr false l = true -> conforms s tr false r = true ->
    compare s tr l r = Some c ->
    veq_assoc s tr l r = true -> c3_is_same c = true.
  Proof.
    intros Hks tr l r c Htr Hl Hr Cl Cr Hc Hv.
    apply (proj2 (same_quiet s R tr l r c Hok Htr Hl Hr Hc)).
    intros p Hp Hne.
    destruct (compare_refines_ref_diff_restricted s R tr l r c Hok Hfam Hpure Htr Hl Hr
                (MergeBase.conforms_dup_mono s l tr Cl) (MergeBase.conforms_dup_mono s r tr Cr) Hc p Hp Hne)
      as (E1 & E2 & E3).
    rewrite (ref_diff_veq_assoc s R Hok Hfam Hks tr l r Htr Hl Hr Cl Cr Hv) in E1, E2, E3.
    cbn in E1, E2, E3. auto.
  Qed.
End Same.

(* 2, as delivered.  ADDED HYPOTHESIS: [keys_scalar s R] (Proofs/KeyFields.v: the key fields
   of every keyed list reached are of a scalar type -- the rule of Kubernetes list-map keys,
   already a hypothesis of C09 and C14).  It is needed for the direction <= only
   ([compare_same_implies_equal] above has no side condition), and the statement without it
   is false: [compare_same_iff_equal_literal_refuted] below. *)
Theorem compare_same_iff_equal : forall s R tr l r c,
  schema_ok s R -> family_refs s R -> lists_pure s R -> keys_scalar s R -> R tr ->
  wf_value l = true -> wf_value r = true ->
  conforms s tr false l = true -> conforms s tr false r = true ->
  (match kind_of s tr l, kind_of s tr r with
   | (KMap _ _ | KList _ _), (KMap _ _ | KList _ _) => True
   | _, _ => False
   end) ->
  compare s tr l r = Some c ->
  (c3_is_same c = true <-> veq_assoc s tr l r = true).
Proof.
  intros s R tr l r c Hok Hfam Hpure Hks Htr Hl Hr Cl Cr Hk Hc.
  assert (Gl : granular s tr l).
  { unfold granular. destruct (kind_of s tr l); try exact I; destruct Hk. }
  assert (Gr : granular s tr r).
  { unfold granular. destruct (kind_of s tr l); destruct (kind_of s tr r); try exact I; destruct Hk. }
  split.
  - apply (compare_same_implies_equal s R Hok Hfam Hpure tr l r c); assumption.
  - apply (compare_equal_implies_same s R Hok Hfam Hpure Hks tr l r c); assumption.
Qed.

(* ------------------------------------------------------------------ *)
(* The statement of 2 as written (without [keys_scalar]) is false: a keyed list whose key
   field is itself a set.  The two objects below are equal up to the order of the members
   of the set held by the key field -- [veq_assoc] sorts it -- but the key field's value is
   part of the member's path element, which is compared as a value, in order: the walker
   (and the Go implementation, against which [compare] is checked on every run) sees two
   different members, one removed and one added. *)
Definition kx_tags : typeref := TR None (Atom None (Some (ListT ex_str RAssociative [])) None) None.
Definition kx_item : typeref :=
  TR None (Atom None None (Some (MapT [SField "k" kx_tags None; SField "v" ex_num None] empty_tr RUnset))) None.
Definition kx_root : typeref := TR None (Atom None (Some (ListT kx_item RAssociative ["k"%string])) None) None.
Definition kx_R (tr : typeref) : Prop := In tr [kx_root; kx_item; kx_tags; ex_str; ex_num; empty_tr].
Definition kx_l : value := VList [VMap [("k"%string, VList [VStr "a"; VStr "b"]); ("v"%string, VInt 1)]].
Definition kx_r : value := VList [VMap [("k"%string, VList [VStr "b"; VStr "a"]); ("v"%string, VInt 1)]].

Ltac kx_cases H :=
  unfold kx_R in H; simpl in H;
  repeat (destruct H as [H|H]; [symmetry in H; subst|]); [..|destruct H].

Lemma kx_schema_ok : schema_ok [] kx_R.
Proof.
  constructor.
  - intros tr a t H Hres Ha. kx_cases H; simpl in Hres; inversion Hres; subst a;
      simpl in Ha; inversion Ha; subst t; unfold kx_R; simpl; auto 10.
  - intros tr a m k H Hres Ha. kx_cases H; simpl in Hres; inversion Hres; subst a;
      simpl in Ha; inversion Ha; subst m; unfold kx_R, field_type; simpl;
      repeat match goal with
      | |- context [String.eqb k ?c] => destruct (String.eqb k c)
      end; simpl; auto 10.
  - intros tr a H Hres. kx_cases H; simpl in Hres; inversion Hres; subst a; reflexivity.
Qed.

Lemma kx_family_refs : family_refs [] kx_R.
Proof.
  intros tr a t H Hres Ha. kx_cases H; simpl in Hres; inversion Hres; subst a;
    simpl in Ha; inversion Ha; subst t; simpl; auto.
Qed.

Lemma kx_lists_pure : lists_pure [] kx_R.
Proof.
  intros tr sc t ma H Hres Hna. kx_cases H; simpl in Hres; inversion Hres; subst; auto.
Qed.

Example kx_compare :
  match compare [] kx_root kx_l kx_r with
  | Some c => Some (c3_is_same c, ps_elems (removed c), ps_elems (modified c), ps_elems (added c))
  | None => None
  end =
  Some (false,
        [[PEKey [("k"%string, VList [VStr "a"; VStr "b"])]];
         [PEKey [("k"%string, VList [VStr "a"; VStr "b"])]; PEField "k"];
         [PEKey [("k"%string, VList [VStr "a"; VStr "b"])]; PEField "v"];
         [PEKey [("k"%string, VList [VStr "a"; VStr "b"])]; PEField "k"; PEValue (VStr "a")];
         [PEKey [("k"%string, VList [VStr "a"; VStr "b"])]; PEField "k"; PEValue (VStr "b")]],
        [],
        [[PEKey [("k"%string, VList [VStr "b"; VStr "a"])]];
         [PEKey [("k"%string, VList [VStr "b"; VStr "a"])]; PEField "k"];
         [PEKey [("k"%string, VList [VStr "b"; VStr "a"])]; PEField "v"];
         [PEKey [("k"%string, VList [VStr "b"; VStr "a"])]; PEField "k"; PEValue (VStr "a")];
         [PEKey [("k"%string, VList [VStr "b"; VStr "a"])]; PEField "k"; PEValue (VStr "b")]]).
Proof. vm_compute. reflexivity. Qed.

Example kx_equal_up_to_order : veq_assoc [] kx_root kx_l kx_r = true.
Proof. vm_compute. reflexivity. Qed.

Theorem compare_same_iff_equal_literal_refuted :
  ~ (forall s R tr l r c,
       schema_ok s R -> family_refs s R -> lists_pure s R -> R tr ->
       wf_value l = true -> wf_value r = true ->
       conforms s tr false l = true -> conforms s tr false r = true ->
       (match kind_of s tr l, kind_of s tr r with
        | (KMap _ _ | KList _ _), (KMap _ _ | KList _ _) => True
        | _, _ => False
        end) ->
       compare s tr l r = Some c ->
       (c3_is_same c = true <-> veq_assoc s tr l r = true)).
Proof.
  intros H.
  destruct (compare [] kx_root kx_l kx_r) as [c|] eqn:Hc; [|vm_compute in Hc; discriminate Hc].
  pose proof (H [] kx_R kx_root kx_l kx_r c kx_schema_ok kx_family_refs kx_lists_pure
                (or_introl eq_refl) eq_refl eq_refl eq_refl eq_refl I Hc) as [_ H2].
  specialize (H2 kx_equal_up_to_order).
  vm_compute in Hc. inversion Hc; subst c. vm_compute in H2. discriminate H2.
Qed.

(* and [keys_scalar] is what fails there *)
Example kx_not_keys_scalar : ~ keys_scalar [] kx_R.
Proof.
  intros H.
  destruct (H kx_root _ (ListT kx_item RAssociative ["k"%string]) "k"%string _
              (MapT [SField "k" kx_tags None; SField "v" ex_num None] empty_tr RUnset)
              (or_introl eq_refl) eq_refl eq_refl (or_introl eq_refl) eq_refl eq_refl) as (sc & Hsc).
  vm_compute in Hsc. discriminate Hsc.
Qed.

(* ------------------------------------------------------------------ *)
(* Non-vacuity, on the example schema: a keyed list whose members come in different orders
   on the two sides, one leaf changed. *)
Open Scope string_scope.

Lemma ex_keys_scalar : keys_scalar ex_schema ex_R.
Proof.
  intros tr a t k ea mt H Hres Hal Hk Hre Ham.
  ex_cases H; vm_compute in Hres; inversion Hres; subst a; simpl in Hal; inversion Hal; subst t;
    simpl in Hk; try (destruct Hk; fail).
  destruct Hk as [<-|[]]. vm_compute in Hre. inversion Hre; subst ea. simpl in Ham. inversion Ham; subst mt.
  exists SString. reflexivity.
Qed.

Definition nv_l : value :=
  VMap [("aa", VInt 1);
        ("items", VList [VMap [("name", VStr "a"); ("vv", VInt 1)];
                         VMap [("name", VStr "b"); ("vv", VInt 2)]])].
(* the members in the other order, b's vv changed *)
Definition nv_r : value :=
  VMap [("aa", VInt 1);
        ("items", VList [VMap [("name", VStr "b"); ("vv", VInt 3)];
                         VMap [("name", VStr "a"); ("vv", VInt 1)]])].
(* the members in the other order, nothing changed (a's vv written as the float 1.0) *)
Definition nv_r' : value :=
  VMap [("aa", VInt 1);
        ("items", VList [VMap [("name", VStr "b"); ("vv", VInt 2)];
                         VMap [("name", VStr "a"); ("vv", VFloat (QArith_base.Qmake 1%Z 1%positive))]])].

Example nv_hyps :
  wf_value nv_l = true /\ wf_value nv_r = true /\ wf_value nv_r' = true /\
  conforms ex_schema ex_rt false nv_l = true /\ conforms ex_schema ex_rt false nv_r = true /\
  conforms ex_schema ex_rt false nv_r' = true /\
  match kind_of ex_schema ex_rt nv_l, kind_of ex_schema ex_rt nv_r, kind_of ex_schema ex_rt nv_r' with
  | KMap _ _, KMap _ _, KMap _ _ => True
  | _, _, _ => False
  end.
Proof. vm_compute. repeat split. Qed.

Definition show (o : option comparison3) :=
  match o with
  | Some c => Some (c3_is_same c, ps_elems (removed c), ps_elems (modified c), ps_elems (added c))
  | None => None
  end.

(* the reordering is not reported; the changed leaf is, as modified only *)
Example nv_compare :
  show (compare ex_schema ex_rt nv_l nv_r) =
  Some (false, [], [[PEField "items"; PEKey [("name", VStr "b")]; PEField "vv"]], []).
Proof. vm_compute. reflexivity. Qed.

Example nv_not_equal : veq_assoc ex_schema ex_rt nv_l nv_r = false.
Proof. vm_compute. reflexivity. Qed.

(* the same members in another order, 1 against 1.0: nothing is reported, and the objects are
   equal up to member order although not equal as values *)
Example nv_compare' : show (compare ex_schema ex_rt nv_l nv_r') = Some (true, [], [], []).
Proof. vm_compute. reflexivity. Qed.

Example nv_equal' : veq_assoc ex_schema ex_rt nv_l nv_r' = true /\ veqb nv_l nv_r' = false.
Proof. vm_compute. split; reflexivity. Qed.

(* instances of the three theorems on these objects (all hypotheses discharged) *)
Example nv_disjoint : forall c p, compare ex_schema ex_rt nv_l nv_r = Some c ->
  wf_path p = true -> p <> [] ->
  (ps_has p (removed c) = true -> ps_has p (modified c) = false /\ ps_has p (added c) = false) /\
  (ps_has p (modified c) = true -> ps_has p (added c) = false).
Proof.
  intros c p Hc. apply (compare_disjoint ex_schema ex_R ex_rt nv_l nv_r c p ex_schema_ok ex_family_refs
                          ex_lists_pure ex_R_root eq_refl eq_refl eq_refl eq_refl Hc).
Qed.

Example nv_same_iff : forall r c, In r [nv_r; nv_r'] -> compare ex_schema ex_rt nv_l r = Some c ->
  (c3_is_same c = true <-> veq_assoc ex_schema ex_rt nv_l r = true).
Proof.
  intros r c Hr Hc.
  apply (compare_same_iff_equal ex_schema ex_R ex_rt nv_l r c ex_schema_ok ex_family_refs ex_lists_pure
           ex_keys_scalar ex_R_root eq_refl); try exact Hc;
    destruct Hr as [<-|[<-|[]]]; try reflexivity; exact I.
Qed.

Example nv_from_nothing :
  show (compare ex_schema ex_rt VNull nv_r) =
  Some (false, [], [],
        [[PEField "aa"]; [PEField "items"];
         [PEField "items"; PEKey [("name", VStr "a")]];
         [PEField "items"; PEKey [("name", VStr "b")]];
         [PEField "items"; PEKey [("name", VStr "a")]; PEField "name"];
         [PEField "items"; PEKey [("name", VStr "a")]; PEField "vv"];
         [PEField "items"; PEKey [("name", VStr "b")]; PEField "name"];
         [PEField "items"; PEKey [("name", VStr "b")]; PEField "vv"]]) /\
  map fst (nodes ex_schema ex_rt nv_r) =
        [[PEField "aa"]; [PEField "items"];
         [PEField "items"; PEKey [("name", VStr "b")]];
         [PEField "items"; PEKey [("name", VStr "b")]; PEField "name"];
         [PEField "items"; PEKey [("name", VStr "b")]; PEField "vv"];
         [PEField "items"; PEKey [("name", VStr "a")]];
         [PEField "items"; PEKey [("name", VStr "a")]; PEField "name"];
         [PEField "items"; PEKey [("name", VStr "a")]; PEField "vv"]].
Proof. vm_compute. split; reflexivity. Qed.

Example nv_from_nothing_thm : forall c p, compare ex_schema ex_rt VNull nv_r = Some c ->
  wf_path p = true -> p <> [] ->
  ps_has p (removed c) = false /\ ps_has p (modified c) = false /\
  (ps_has p (added c) = true <-> present ex_schema ex_rt nv_r p = true).
Proof.
  intros c p Hc. apply (compare_from_nothing ex_schema ex_R ex_rt nv_r c p ex_schema_ok ex_family_refs
                          ex_lists_pure ex_R_root eq_refl eq_refl Hc).
Qed.

(* null against an empty container, and against a missing field: reported *)
Example nv_null_vs_empty :
  show (compare ex_schema ex_rt (VMap [("aa", VInt 1); ("mm", VNull)]) (VMap [("aa", VInt 1); ("mm", VMap [])])) =
    Some (false, [], [[PEField "mm"]], []) /\
  show (compare ex_schema ex_rt (VMap [("aa", VInt 1); ("mm", VNull)]) (VMap [("aa", VInt 1)])) =
    Some (false, [[PEField "mm"]], [], []) /\
  show (compare ex_schema ex_rt (VMap [("aa", VInt 1); ("mm", VNull)]) (VMap [("aa", VInt 1); ("mm", VMap [("x", VInt 1)])])) =
    Some (false, [], [], [[PEField "mm"; PEField "x"]]).
Proof. vm_compute. repeat split. Qed.

