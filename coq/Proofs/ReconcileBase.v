(* C20, groundwork: the type a path designates (type_at) is compositional and insensitive
   to Path.Equals; the relative form [aroot] of atomic_root_from; and the exact description
   of the list of paths reported by the walker reconcile_w. *)
From Coq Require Import List ZArith String Bool Arith Lia.
From SMD Require Import Model.Value Model.Order Model.PathElem Model.PathSet Model.Schema Model.Walk
  Model.Reconcile Spec.PathsAsSets Spec.TypeAt Proofs.OrderLaws Proofs.KeyLaws Proofs.PathSetLaws
  Proofs.SchemaOk.
From SMD Require Proofs.PesLaws Proofs.TrieBase Proofs.TrieElems.
Import ListNotations.
Open Scope bool_scope.

(* ================= Path.Equals on well-formed paths ================= *)

Lemma patheqb_trans : forall a b c, wf_path a = true -> wf_path b = true -> wf_path c = true ->
  patheqb a b = true -> patheqb b c = true -> patheqb a c = true.
Proof.
  intros a b c Wa Wb Wc H1 H2.
  apply (pathcmp_eq_iff a b Wa Wb) in H1. apply (pathcmp_eq_iff b c Wb Wc) in H2.
  apply (pathcmp_eq_iff a c Wa Wc). rewrite (pathcmp_eq_l a b c H1). exact H2.
Qed.

Lemma patheqb_sym_true : forall a b, wf_path a = true -> wf_path b = true ->
  patheqb a b = true -> patheqb b a = true.
Proof. intros a b Wa Wb H. rewrite patheqb_sym by assumption. exact H. Qed.

Lemma patheqb_cons : forall x p y q, patheqb (x :: p) (y :: q) = peeqb x y && patheqb p q.
Proof. reflexivity. Qed.

Lemma wf_path_cons : forall e p, wf_path (e :: p) = true <-> wf_pe e = true /\ wf_path p = true.
Proof. intros e p. unfold wf_path. simpl. apply andb_true_iff. Qed.

Lemma wf_path_app : forall p q, wf_path (p ++ q) = true <-> wf_path p = true /\ wf_path q = true.
Proof. intros p q. unfold wf_path. rewrite forallb_app. apply andb_true_iff. Qed.

Lemma wf_path_firstn : forall n p, wf_path p = true -> wf_path (firstn n p) = true.
Proof.
  induction n as [|n IH]; intros [|e p] H; try reflexivity.
  cbn [firstn]. apply wf_path_cons in H. apply wf_path_cons. split; [tauto|apply IH; tauto].
Qed.

Lemma patheqb_app_l : forall p a b, wf_path p = true -> patheqb (p ++ a) (p ++ b) = patheqb a b.
Proof.
  induction p as [|x p IH]; intros a b W; [reflexivity|].
  apply wf_path_cons in W. cbn [app]. rewrite patheqb_cons, peeqb_refl by tauto.
  apply IH. tauto.
Qed.

Lemma patheqb_length : forall p q, patheqb p q = true -> List.length p = List.length q.
Proof.
  induction p as [|x p IH]; intros [|y q] H; try discriminate; [reflexivity|].
  rewrite patheqb_cons in H. apply andb_true_iff in H. simpl. f_equal. apply IH. tauto.
Qed.

Lemma patheqb_firstn : forall n p q, patheqb p q = true -> patheqb (firstn n p) (firstn n q) = true.
Proof.
  induction n as [|n IH]; intros [|x p] [|y q] H; try discriminate; try reflexivity.
  cbn [firstn]. rewrite patheqb_cons in *. apply andb_true_iff in H. apply andb_true_iff.
  split; [tauto|apply IH; tauto].
Qed.

Lemma firstn_length_id : forall (A : Type) (l : list A), firstn (List.length l) l = l.
Proof. intros A l. apply firstn_all. Qed.

(* ================= type_at ================= *)

Lemma type_at_cons : forall s t e r,
  type_at s t (e :: r) = match type_at s t [e] with Some ct => type_at s ct r | None => None end.
Proof.
  intros s t e r. cbn [type_at]. destruct (resolve s t) as [[sc li ma]|]; [|reflexivity].
  destruct e, ma as [m|], li as [l|]; try reflexivity;
    destruct (is_empty_tr (field_type m name)); reflexivity.
Qed.

Lemma type_at_app : forall s p t q,
  type_at s t (p ++ q) = match type_at s t p with Some ct => type_at s ct q | None => None end.
Proof.
  intros s p. induction p as [|e p IH]; intros t q; [reflexivity|].
  cbn [app]. rewrite type_at_cons, (type_at_cons s t e p).
  destruct (type_at s t [e]) as [ct|]; [apply IH|reflexivity].
Qed.

Lemma type_at_one_eqb : forall s t e e', peeqb e e' = true -> type_at s t [e] = type_at s t [e'].
Proof.
  intros s t e e' H. destruct e, e'; simpl in H; try discriminate.
  - apply String.eqb_eq in H. subst. reflexivity.
  - cbn [type_at]. destruct (resolve s t) as [[sc li ma]|]; [|reflexivity].
    destruct ma, li; reflexivity.
  - cbn [type_at]. destruct (resolve s t) as [[sc li ma]|]; [|reflexivity].
    destruct ma, li; reflexivity.
  - cbn [type_at]. destruct (resolve s t) as [[sc li ma]|]; [|reflexivity].
    destruct ma, li; reflexivity.
Qed.

Lemma type_at_eqb : forall s p q t, patheqb p q = true -> type_at s t p = type_at s t q.
Proof.
  intros s p. induction p as [|x p IH]; intros [|y q] t H; try discriminate; [reflexivity|].
  rewrite patheqb_cons in H. apply andb_true_iff in H. destruct H as [H1 H2].
  rewrite type_at_cons, (type_at_cons s t y q), (type_at_one_eqb s t x y H1).
  destruct (type_at s t [y]); [apply IH; exact H2|reflexivity].
Qed.

Lemma type_at_prefix : forall s t p q, type_at s t (p ++ q) <> None -> type_at s t p <> None.
Proof. intros s t p q H E. apply H. rewrite type_at_app, E. reflexivity. Qed.

(* ================= the atomic root, relative form ================= *)

(* the outermost non-empty prefix of m whose type (from t) is atomic *)
Fixpoint aroot (s : schema) (t : typeref) (m : path) : option path :=
  match m with
  | [] => None
  | e :: r =>
      match type_at s t [e] with
      | None => None
      | Some ct => if is_atomic_type s ct then Some [e] else option_map (cons e) (aroot s ct r)
      end
  end.

Lemma aroot_cons : forall s t e r,
  aroot s t (e :: r) =
  match type_at s t [e] with
  | None => None
  | Some ct => if is_atomic_type s ct then Some [e] else option_map (cons e) (aroot s ct r)
  end.
Proof. reflexivity. Qed.

Lemma arf_aroot : forall s tr rest done t, type_at s tr done = Some t ->
  atomic_root_from s tr done rest = option_map (app done) (aroot s t rest).
Proof.
  intros s tr rest. induction rest as [|e r IH]; intros done t H; [reflexivity|].
  cbn [atomic_root_from aroot]. rewrite type_at_app, H.
  destruct (type_at s t [e]) as [ct|] eqn:E; [|reflexivity].
  destruct (is_atomic_type s ct); [reflexivity|].
  rewrite (IH (done ++ [e]) ct) by (rewrite type_at_app, H; exact E).
  destruct (aroot s ct r); simpl; [rewrite <- app_assoc; reflexivity|reflexivity].
Qed.

Lemma reconcile_path_aroot : forall s tr p,
  reconcile_path s tr p = match aroot s tr p with Some q => q | None => p end.
Proof.
  intros s tr p. unfold reconcile_path. rewrite (arf_aroot s tr p [] tr eq_refl).
  destruct (aroot s tr p); reflexivity.
Qed.

Lemma aroot_prefix : forall s m t q, aroot s t m = Some q ->
  q = firstn (List.length q) m /\ 1 <= List.length q <= List.length m.
Proof.
  intros s m. induction m as [|e r IH]; intros t q H; [discriminate|].
  cbn [aroot] in H. destruct (type_at s t [e]) as [ct|]; [|discriminate].
  destruct (is_atomic_type s ct).
  - inversion H; subst. simpl. split; [reflexivity|lia].
  - destruct (aroot s ct r) as [q'|] eqn:E; [|discriminate]. inversion H; subst.
    destruct (IH ct q' E) as [H1 H2]. simpl. split; [f_equal; exact H1|lia].
Qed.

(* the atomic root only depends on the path up to Path.Equals, and only on the part of
   the path that reaches it *)
Lemma aroot_sim : forall s m t q m0, aroot s t m = Some q ->
  patheqb (firstn (List.length q) m0) q = true ->
  aroot s t m0 = Some (firstn (List.length q) m0).
Proof.
  intros s m. induction m as [|e r IH]; intros t q m0 H Hq; [discriminate|].
  cbn [aroot] in H. destruct (type_at s t [e]) as [ct|] eqn:Et; [|discriminate].
  destruct (is_atomic_type s ct) eqn:Ea.
  - inversion H; subst q. destruct m0 as [|e0 r0]; [discriminate|].
    cbn [List.length firstn] in *. rewrite patheqb_cons in Hq. apply andb_true_iff in Hq.
    cbn [aroot]. rewrite (type_at_one_eqb s t e0 e) by tauto. rewrite Et, Ea. reflexivity.
  - destruct (aroot s ct r) as [q'|] eqn:E; [|discriminate]. inversion H; subst q.
    destruct m0 as [|e0 r0]; [discriminate|].
    cbn [List.length firstn] in *. rewrite patheqb_cons in Hq. apply andb_true_iff in Hq.
    cbn [aroot]. rewrite (type_at_one_eqb s t e0 e) by tauto. rewrite Et, Ea.
    rewrite (IH ct q' r0 E) by tauto. reflexivity.
Qed.

Lemma aroot_eqb : forall s t m m0 q, wf_path m = true -> wf_path m0 = true ->
  patheqb m m0 = true -> aroot s t m = Some q ->
  exists q0, aroot s t m0 = Some q0 /\ patheqb q q0 = true /\ List.length q0 = List.length q.
Proof.
  intros s t m m0 q Wm Wm0 He H.
  destruct (aroot_prefix s m t q H) as [Hq Hl].
  assert (patheqb (firstn (List.length q) m0) q = true) as Hp.
  { rewrite Hq at 2. apply patheqb_firstn. apply patheqb_sym_true; assumption. }
  exists (firstn (List.length q) m0). split; [apply (aroot_sim s m t q m0 H Hp)|]. split.
  - apply patheqb_sym_true; [apply wf_path_firstn; exact Wm0| |exact Hp].
    rewrite Hq. apply wf_path_firstn. exact Wm.
  - apply patheqb_length in Hp. exact Hp.
Qed.

Lemma aroot_none_eqb : forall s t m m0, wf_path m = true -> wf_path m0 = true ->
  patheqb m m0 = true -> aroot s t m = None -> aroot s t m0 = None.
Proof.
  intros s t m m0 Wm Wm0 He H. destruct (aroot s t m0) as [q0|] eqn:E; [|reflexivity].
  destruct (aroot_eqb s t m0 m q0 Wm0 Wm (patheqb_sym_true _ _ Wm Wm0 He) E) as [q [Hq _]].
  congruence.
Qed.

(* the atomic root is its own atomic root *)
Lemma aroot_idem : forall s t m q, wf_path m = true -> aroot s t m = Some q -> aroot s t q = Some q.
Proof.
  intros s t m q Wm H. destruct (aroot_prefix s m t q H) as [Hq _].
  assert (wf_path q = true) as Wq by (rewrite Hq; apply wf_path_firstn; exact Wm).
  pose proof (aroot_sim s m t q q H) as H1. rewrite firstn_length_id in H1.
  apply H1. apply patheqb_refl. exact Wq.
Qed.

(* ================= the walker, unfolded ================= *)

Definition has_sub (o : option pset) : bool := match o with Some _ => true | None => false end.

(* one call of handle_element, as an optional contribution *)
Definition rw_call (rec : typeref -> path -> option pset -> bool -> bool * list path)
  (p : path) (child_tr : pe -> option typeref) (cs : list (pe * pset)) (isMember : bool) (e : pe)
  : option (bool * list path) :=
  match child_tr e with
  | None => None
  | Some ctr => Some (rec ctr (p ++ [e]) (snm_get e cs) (isMember && negb (has_sub (snm_get e cs))))
  end.

Definition rw_add (acc : bool * list path) (o : option (bool * list path)) : bool * list path :=
  match o with None => acc | Some er => (fst acc || fst er, snd acc ++ snd er) end.

Definition rw_visit (rec : typeref -> path -> option pset -> bool -> bool * list path)
  (p : path) (child_tr : pe -> option typeref) (element : pset) : bool * list path :=
  let acc1 :=
    fold_left (fun acc (ec : pe * pset) =>
                 rw_add acc (if pes_has (fst ec) (ps_members element) then None
                             else rw_call rec p child_tr (ps_children element) false (fst ec)))
              (ps_children element) (false, []) in
  fold_left (fun acc e => rw_add acc (rw_call rec p child_tr (ps_children element) true e))
            (ps_members element) acc1.

Lemma fold_left_ext_in : forall (A B : Type) (f g : A -> B -> A) (l : list B) (a : A),
  (forall a b, In b l -> f a b = g a b) -> fold_left f l a = fold_left g l a.
Proof.
  intros A B f g l. induction l as [|b l IH]; intros a H; [reflexivity|].
  cbn [fold_left]. rewrite (H a b) by (left; reflexivity). apply IH.
  intros a' b' Hin. apply H. right; exact Hin.
Qed.

Lemma reconcile_w_S : forall fuel s tr p fs isAtomic,
  reconcile_w (S fuel) s tr p fs isAtomic =
  match resolve s tr with
  | None => (true, [])
  | Some a =>
      match handle_atom a with
      | HInvalid => (true, [])
      | HScalar _ => (false, [])
      | HList t =>
          if negb isAtomic && rel_is_atomic (list_rel t) then (false, [p])
          else match fs with
               | Some f => rw_visit (reconcile_w fuel s) p (fun _ => Some (list_elem t)) f
               | None => (false, [])
               end
      | HMap t =>
          if is_untyped_deduced_map t then (false, [])
          else if negb isAtomic && rel_is_atomic (map_rel t) then
            match fs with
            | Some f => if Nat.ltb 0 (ps_size f) then (false, [p]) else (false, [])
            | None => (false, [])
            end
          else match fs with
               | Some f => rw_visit (reconcile_w fuel s) p (type_ref_at_path t) f
               | None => (false, [])
               end
      end
  end.
Proof.
  intros fuel s tr p fs isAtomic. cbn [reconcile_w].
  destruct (resolve s tr) as [a|]; [|reflexivity].
  assert (forall child_tr f,
    fold_left
      (fun (acc : bool * list path) (e : pe) =>
         match child_tr e with
         | Some ctr =>
             let '(e1, r1) := reconcile_w fuel s ctr (p ++ [e]) (snm_get e (ps_children f))
                                (true && negb match snm_get e (ps_children f) with Some _ => true | None => false end) in
             (fst acc || e1, snd acc ++ r1)
         | None => acc
         end) (ps_members f)
      (fold_left
         (fun (acc : bool * list path) (ec : pe * pset) =>
            if pes_has (fst ec) (ps_members f) then acc
            else match child_tr (fst ec) with
                 | Some ctr =>
                     let '(e1, r1) := reconcile_w fuel s ctr (p ++ [fst ec]) (snm_get (fst ec) (ps_children f))
                                        (false && negb match snm_get (fst ec) (ps_children f) with Some _ => true | None => false end) in
                     (fst acc || e1, snd acc ++ r1)
                 | None => acc
                 end) (ps_children f) (false, [])) =
    rw_visit (reconcile_w fuel s) p child_tr f) as Hv.
  { intros child_tr f. unfold rw_visit.
    match goal with |- fold_left ?f1 ?l1 ?a1 = fold_left ?f2 ?l1 ?a2 =>
      replace a1 with a2; [apply fold_left_ext_in|] end.
    - intros acc e _. unfold rw_call, rw_add, has_sub. destruct (child_tr e); [|reflexivity].
      destruct (reconcile_w fuel s t (p ++ [e]) (snm_get e (ps_children f))); reflexivity.
    - apply fold_left_ext_in. intros acc ec _.
      destruct (pes_has (fst ec) (ps_members f)); [reflexivity|].
      unfold rw_call, rw_add, has_sub. destruct (child_tr (fst ec)); [|reflexivity].
      destruct (reconcile_w fuel s t (p ++ [fst ec]) (snm_get (fst ec) (ps_children f))); reflexivity. }
  destruct (handle_atom a) as [t|k|t|]; try reflexivity.
  - destruct (is_untyped_deduced_map t); [reflexivity|].
    destruct (negb isAtomic && rel_is_atomic (map_rel t)); [reflexivity|].
    destruct fs as [f|]; [|reflexivity]. apply Hv.
  - destruct (negb isAtomic && rel_is_atomic (list_rel t)); [reflexivity|].
    destruct fs as [f|]; [|reflexivity]. apply (Hv (fun _ => Some (list_elem t))).
Qed.

Lemma fold_rw_add : forall (X : Type) (g : X -> option (bool * list path)) (l : list X) acc,
  fold_left (fun acc x => rw_add acc (g x)) l acc =
  (fst acc || existsb (fun x => match g x with Some er => fst er | None => false end) l,
   snd acc ++ flat_map (fun x => match g x with Some er => snd er | None => [] end) l).
Proof.
  intros X g l. induction l as [|x l IH]; intros [b r].
  - simpl. rewrite orb_false_r, app_nil_r. reflexivity.
  - cbn [fold_left existsb flat_map]. rewrite IH. unfold rw_add. destruct (g x) as [[e1 r1]|]; simpl.
    + rewrite orb_assoc, app_assoc. reflexivity.
    + reflexivity.
Qed.

Lemma existsb_false_in : forall (A : Type) (f : A -> bool) l,
  (forall x, In x l -> f x = false) -> existsb f l = false.
Proof.
  intros A f l H. induction l as [|x l IH]; [reflexivity|]. simpl.
  rewrite (H x) by (left; reflexivity). apply IH. intros y Hy. apply H. right; exact Hy.
Qed.

(* the result of visiting a node: no error iff no call errs; the reports are those of the
   calls on the children that are not members, then those of the calls on the members *)
Lemma rw_visit_spec : forall rec p child_tr ms cs,
  let gc := fun ec : pe * pset =>
              if pes_has (fst ec) ms then None else rw_call rec p child_tr cs false (fst ec) in
  let gm := fun e => rw_call rec p child_tr cs true e in
  (forall ec er, In ec cs -> gc ec = Some er -> fst er = false) ->
  (forall e er, In e ms -> gm e = Some er -> fst er = false) ->
  exists L, rw_visit rec p child_tr (PSet ms cs) = (false, L) /\
    forall q, In q L <->
      (exists ec er, In ec cs /\ gc ec = Some er /\ In q (snd er)) \/
      (exists e er, In e ms /\ gm e = Some er /\ In q (snd er)).
Proof.
  intros rec p child_tr ms cs gc gm Hc Hm. unfold rw_visit. cbn [ps_members ps_children].
  rewrite (fold_rw_add _ gc), (fold_rw_add _ gm). cbn [fst snd orb app].
  rewrite (existsb_false_in _ _ cs), (existsb_false_in _ _ ms).
  - eexists. split; [reflexivity|]. intros q. rewrite in_app_iff, !in_flat_map. split.
    + intros [[ec [Hin Hq]]|[e [Hin Hq]]].
      * left. destruct (gc ec) as [er|] eqn:E; [|destruct Hq]. exists ec, er. auto.
      * right. destruct (gm e) as [er|] eqn:E; [|destruct Hq]. exists e, er. auto.
    + intros [[ec [er [Hin [E Hq]]]]|[e [er [Hin [E Hq]]]]].
      * left. exists ec. rewrite E. auto.
      * right. exists e. rewrite E. auto.
  - intros e Hin. destruct (gm e) as [er|] eqn:E; [|reflexivity]. apply (Hm e er Hin E).
  - intros ec Hin. destruct (gc ec) as [er|] eqn:E; [|reflexivity]. apply (Hc ec er Hin E).
Qed.

(* ================= hypotheses on the schema ================= *)

(* handle_atom (map, then scalar, then list) and type_at / is_atomic_type (map, else list)
   dispatch alike, and the atom is not the invalid empty atom *)
Definition dispatch_ok (a : atom) : bool :=
  match a with
  | Atom None None None => false
  | Atom (Some _) (Some _) None => false
  | _ => true
  end.

(* every non-empty reference reached resolves to an atom on which walker and reference
   dispatch alike, whose map (if any) is not the schemaless map the walker skips; and the
   element type of a list is a non-empty reference *)
Definition walkable_gen (s : schema) (R : typeref -> Prop) : Prop :=
  (forall t, R t -> is_empty_tr t = false ->
     exists a, resolve s t = Some a /\ dispatch_ok a = true /\
       (forall m, atom_map a = Some m -> is_untyped_deduced_map m = false)) /\
  (forall t a l, R t -> resolve s t = Some a -> atom_map a = None -> atom_list a = Some l ->
     is_empty_tr (list_elem l) = false).

Definition typed_has (s : schema) (t : typeref) (sub : pset) : Prop :=
  forall m, wf_path m = true -> ps_has m sub = true -> type_at s t m <> None.

(* every reported path is p ++ the atomic root of a member strictly beneath that root *)
Definition rw_sound (s : schema) (t : typeref) (p : path) (sub : pset) (L : list path) : Prop :=
  forall q0, In q0 L ->
    exists m q', wf_path m = true /\ ps_has m sub = true /\ aroot s t m = Some q' /\
                 List.length q' < List.length m /\ q0 = p ++ q'.
(* and every such root is reported, up to Path.Equals *)
Definition rw_complete (s : schema) (t : typeref) (p : path) (sub : pset) (L : list path) : Prop :=
  forall m q', wf_path m = true -> ps_has m sub = true -> aroot s t m = Some q' ->
    List.length q' < List.length m ->
    exists q0, In q0 L /\ patheqb q0 (p ++ q') = true.

Lemma rw_sound_wf : forall s t p sub L, wf_path p = true -> rw_sound s t p sub L ->
  forall q0, In q0 L -> wf_path q0 = true.
Proof.
  intros s t p sub L Wp Hs q0 Hin. destruct (Hs q0 Hin) as (m & q' & Wm & _ & Ha & _ & Eq).
  subst q0. apply wf_path_app. split; [exact Wp|].
  destruct (aroot_prefix s m t q' Ha) as [E _]. rewrite E. apply wf_path_firstn. exact Wm.
Qed.

Lemma depth_child : forall ms cs (ec : pe * pset), In ec cs -> ps_depth (snd ec) < ps_depth (PSet ms cs).
Proof.
  intros ms cs ec Hin. cbn [ps_depth]. induction cs as [|x cs IH]; [destruct Hin|].
  cbn [fold_right]. destruct Hin as [E|Hin]; [subst; lia|]. specialize (IH Hin). lia.
Qed.

Lemma ps_depth_pos : forall sub, 1 <= ps_depth sub.
Proof. intros [m c]. cbn [ps_depth]. lia. Qed.

Lemma ps_has_nil_false : forall sub, ps_has [] sub = true -> False.
Proof. intros sub H. discriminate. Qed.

Lemma ps_has_more_get : forall e x r ms cs,
  ps_has (e :: x :: r) (PSet ms cs) =
  match snm_get e cs with Some sub => ps_has (x :: r) sub | None => false end.
Proof. reflexivity. Qed.

Lemma snm_get_cong : forall ms cs e0 e, ps_ok (PSet ms cs) = true ->
  wf_pe e0 = true -> wf_pe e = true -> peeqb e0 e = true -> snm_get e0 cs = snm_get e cs.
Proof.
  intros ms cs e0 e Hok W0 W He. apply TrieBase.ps_ok_PSet in Hok. destruct Hok as (_ & _ & Hs & Hc).
  rewrite !TrieBase.snm_get_look by assumption.
  rewrite (klook_cong fst e0 e cs W0 W (TrieBase.cok_kwf cs Hc) He). reflexivity.
Qed.

Lemma snm_get_In : forall ms cs (ec : pe * pset), ps_ok (PSet ms cs) = true -> In ec cs ->
  wf_pe (fst ec) = true /\ snm_get (fst ec) cs = Some (snd ec).
Proof.
  intros ms cs ec Hok Hin. apply TrieBase.ps_ok_PSet in Hok. destruct Hok as (_ & _ & Hs & Hc).
  assert (wf_pe (fst ec) = true) as W.
  { rewrite Forall_forall in Hc. apply (Hc ec Hin). }
  split; [exact W|]. rewrite TrieBase.snm_get_look by assumption.
  rewrite (klook_In fst ec cs W (TrieBase.cok_kwf cs Hc) Hs Hin). reflexivity.
Qed.

Lemma snm_get_cok : forall ms cs e sube, ps_ok (PSet ms cs) = true -> snm_get e cs = Some sube ->
  ps_ok sube = true /\ ps_empty sube = false /\ ps_depth sube < ps_depth (PSet ms cs) /\
  exists e2, In (e2, sube) cs /\ wf_pe e2 = true /\ peeqb e2 e = true.
Proof.
  intros ms cs e sube Hok Hg. pose proof Hok as Hok'.
  apply TrieBase.ps_ok_PSet in Hok'. destruct Hok' as (_ & _ & Hs & Hc).
  unfold snm_get in Hg. apply PesLaws.pem_get_In in Hg. destruct Hg as [e2 [Hin He]].
  rewrite Forall_forall in Hc. destruct (Hc (e2, sube) Hin) as (W2 & Hoks & Hne).
  split; [exact Hoks|]. split; [exact Hne|]. split; [apply (depth_child ms cs (e2, sube) Hin)|].
  exists e2. auto.
Qed.

Lemma member_has : forall ms cs e, ps_ok (PSet ms cs) = true -> In e ms ->
  wf_pe e = true /\ ps_has [e] (PSet ms cs) = true.
Proof.
  intros ms cs e Hok Hin. pose proof Hok as Hok'.
  apply TrieBase.ps_ok_PSet in Hok'. destruct Hok' as (_ & Hw & _ & _).
  assert (wf_pe e = true) as W.
  { unfold PesLaws.wf_pes in Hw. rewrite forallb_forall in Hw. apply (Hw e Hin). }
  split; [exact W|]. rewrite TrieBase.ps_has_one by assumption.
  apply existsb_exists. exists e. split; [exact Hin|apply peeqb_refl; exact W].
Qed.

Lemma has_member : forall ms cs e, ps_ok (PSet ms cs) = true -> wf_pe e = true ->
  pes_has e ms = true -> exists e1, In e1 ms /\ wf_pe e1 = true /\ peeqb e e1 = true.
Proof.
  intros ms cs e Hok W H. pose proof Hok as Hok'.
  apply TrieBase.ps_ok_PSet in Hok'. destruct Hok' as (Hs & Hw & _ & _).
  rewrite PesLaws.pes_has_spec in H by assumption. apply existsb_exists in H.
  destruct H as [e1 [Hin He]]. exists e1. split; [exact Hin|]. split; [|exact He].
  unfold PesLaws.wf_pes in Hw. rewrite forallb_forall in Hw. apply (Hw e1 Hin).
Qed.

Section Walker.
  Variable s : schema.
  Variable R : typeref -> Prop.
  Hypothesis Hso : schema_ok s R.
  Hypothesis Hw : walkable_gen s R.

  Lemma child_R : forall t a e ct, R t -> resolve s t = Some a -> type_at s t [e] = Some ct ->
    R ct /\ is_empty_tr ct = false.
  Proof.
    intros t a e ct Rt Hres H. cbn [type_at] in H. rewrite Hres in H. destruct a as [sc li ma].
    destruct e, ma as [m|], li as [l|]; try discriminate.
    - destruct (is_empty_tr (field_type m name)) eqn:E; [discriminate|]. inversion H; subst.
      split; [|exact E]. eapply (so_map s R Hso); [exact Rt|exact Hres|reflexivity].
    - destruct (is_empty_tr (field_type m name)) eqn:E; [discriminate|]. inversion H; subst.
      split; [|exact E]. eapply (so_map s R Hso); [exact Rt|exact Hres|reflexivity].
    - inversion H; subst. split; [eapply (so_list s R Hso); [exact Rt|exact Hres|reflexivity]|].
      eapply (proj2 Hw); [exact Rt|exact Hres|reflexivity|reflexivity].
    - inversion H; subst. split; [eapply (so_list s R Hso); [exact Rt|exact Hres|reflexivity]|].
      eapply (proj2 Hw); [exact Rt|exact Hres|reflexivity|reflexivity].
    - inversion H; subst. split; [eapply (so_list s R Hso); [exact Rt|exact Hres|reflexivity]|].
      eapply (proj2 Hw); [exact Rt|exact Hres|reflexivity|reflexivity].
  Qed.

  (* a member without children: visited "atomic", nothing reported *)
  Lemma leaf_call : forall fuel ct p, 1 <= fuel -> R ct -> is_empty_tr ct = false ->
    reconcile_w fuel s ct p None true = (false, []).
  Proof.
    intros fuel ct p Hf Rt Hne. destruct fuel as [|fuel]; [lia|]. rewrite reconcile_w_S.
    destruct (proj1 Hw ct Rt Hne) as (a & Hres & Hd & Hud). rewrite Hres.
    destruct a as [[sc|] [l|] [m|]]; simpl in Hd; try discriminate Hd; cbn [handle_atom];
      try rewrite (Hud m eq_refl); reflexivity.
  Qed.

  (* a node with something beneath it whose type is atomic: exactly the node is reported *)
  Lemma atomic_call : forall fuel t p sub, 1 <= fuel -> R t -> is_empty_tr t = false ->
    is_atomic_type s t = true -> ps_empty sub = false ->
    reconcile_w fuel s t p (Some sub) false = (false, [p]).
  Proof.
    intros fuel t p sub Hf Rt Hne Ha Hsub. destruct fuel as [|fuel]; [lia|]. rewrite reconcile_w_S.
    destruct (proj1 Hw t Rt Hne) as (a & Hres & Hd & Hud).
    unfold is_atomic_type in Ha. rewrite Hres in Ha. rewrite Hres.
    assert (Nat.ltb 0 (ps_size sub) = true) as Hsz.
    { apply Nat.ltb_lt. rewrite ps_size_elems. destruct (ps_elems sub) eqn:E; [|simpl; lia].
      apply ps_empty_elems in E. congruence. }
    destruct a as [[sc|] [l|] [m|]]; simpl in Hd; try discriminate Hd; try discriminate Ha;
      cbn [handle_atom]; try rewrite (Hud m eq_refl); cbn [negb andb]; rewrite Ha;
      try rewrite Hsz; reflexivity.
  Qed.

  Section Visit.
    Variable fuel : nat.
    Hypothesis IH : forall t p sub, ps_depth sub < fuel -> R t -> is_empty_tr t = false ->
      wf_path p = true -> ps_ok sub = true -> typed_has s t sub -> is_atomic_type s t = false ->
      exists L, reconcile_w fuel s t p (Some sub) false = (false, L) /\
                rw_sound s t p sub L /\ rw_complete s t p sub L.

    (* the call on an element that has children *)
    Lemma call_some : forall t a p ms cs e0 sube,
      R t -> resolve s t = Some a -> wf_path p = true -> ps_ok (PSet ms cs) = true ->
      typed_has s t (PSet ms cs) -> ps_depth (PSet ms cs) <= fuel ->
      wf_pe e0 = true -> snm_get e0 cs = Some sube ->
      exists ct Le, type_at s t [e0] = Some ct /\
        reconcile_w fuel s ct (p ++ [e0]) (Some sube) false = (false, Le) /\
        rw_sound s t p (PSet ms cs) Le /\
        (forall e m' q', wf_path (e :: m') = true -> peeqb e0 e = true -> ps_has m' sube = true ->
           aroot s t (e :: m') = Some q' -> List.length q' < List.length (e :: m') ->
           exists q0, In q0 Le /\ patheqb q0 (p ++ q') = true).
    Proof.
      intros t a p ms cs e0 sube Rt Hres Wp Hok Hty Hd W0 Hg.
      destruct (snm_get_cok ms cs e0 sube Hok Hg) as (Hoks & Hnes & Hds & _).
      destruct (TrieBase.ps_nonempty_witness sube Hoks Hnes) as (mw & Wmw & Hmw).
      destruct mw as [|xw rw]; [discriminate|].
      assert (ps_has (e0 :: xw :: rw) (PSet ms cs) = true) as Hhw
        by (rewrite ps_has_more_get, Hg; exact Hmw).
      assert (wf_path (e0 :: xw :: rw) = true) as Wew by (apply wf_path_cons; auto).
      pose proof (Hty _ Wew Hhw) as Htw. rewrite type_at_cons in Htw.
      destruct (type_at s t [e0]) as [ct|] eqn:Hct; [|congruence].
      destruct (child_R t a e0 ct Rt Hres Hct) as [Rct Hnec].
      assert (wf_path (p ++ [e0]) = true) as Wp0.
      { apply wf_path_app. split; [exact Wp|]. apply wf_path_cons. auto. }
      assert (typed_has s ct sube) as Htys.
      { intros m' Wm' Hm'. destruct m' as [|x r]; [discriminate|].
        assert (ps_has (e0 :: x :: r) (PSet ms cs) = true) as Hh
          by (rewrite ps_has_more_get, Hg; exact Hm').
        assert (wf_path (e0 :: x :: r) = true) as We by (apply wf_path_cons; auto).
        pose proof (Hty _ We Hh) as Ht. rewrite type_at_cons, Hct in Ht. exact Ht. }
      exists ct. destruct (is_atomic_type s ct) eqn:Ea.
      - exists [p ++ [e0]]. split; [reflexivity|]. split.
        { apply atomic_call; auto. pose proof (ps_depth_pos sube). lia. }
        split.
        + intros q0 [E|[]]. subst q0. exists (e0 :: xw :: rw), [e0].
          split; [exact Wew|]. split; [exact Hhw|]. split.
          { rewrite aroot_cons. rewrite Hct, Ea. reflexivity. }
          split; [simpl; lia|reflexivity].
        + intros e m' q' We He Hm' Har _. exists (p ++ [e0]). split; [left; reflexivity|].
          rewrite aroot_cons in Har. rewrite <- (type_at_one_eqb s t e0 e He), Hct, Ea in Har.
          inversion Har; subst q'. rewrite patheqb_app_l by exact Wp.
          rewrite patheqb_cons, He. reflexivity.
      - destruct (IH ct (p ++ [e0]) sube) as (Le & HLe & Hs & Hc); auto; [lia|].
        exists Le. split; [reflexivity|]. split; [exact HLe|]. split.
        + intros q0 Hin. destruct (Hs q0 Hin) as (m' & q'' & Wm' & Hm' & Har & Hlen & Eq).
          destruct m' as [|x r]; [discriminate|].
          exists (e0 :: x :: r), (e0 :: q''). split; [apply wf_path_cons; auto|]. split.
          { rewrite ps_has_more_get, Hg. exact Hm'. }
          split. { rewrite aroot_cons. rewrite Hct, Ea, Har. reflexivity. }
          split; [simpl in *; lia|]. subst q0. rewrite <- app_assoc. reflexivity.
        + intros e m' q' We He Hm' Har Hlen.
          rewrite aroot_cons in Har. rewrite <- (type_at_one_eqb s t e0 e He), Hct, Ea in Har.
          destruct (aroot s ct m') as [q''|] eqn:Har'; [|discriminate].
          inversion Har; subst q'. apply wf_path_cons in We. destruct We as [We Wm'].
          destruct (Hc m' q'' Wm' Hm' Har') as (q0 & Hin & Hq0); [simpl in Hlen; lia|].
          exists q0. split; [exact Hin|].
          assert (wf_path q'' = true) as Wq''.
          { destruct (aroot_prefix s m' ct q'' Har') as [E _]. rewrite E.
            apply wf_path_firstn. exact Wm'. }
          apply (patheqb_trans q0 ((p ++ [e0]) ++ q'') (p ++ e :: q'')).
          * apply (rw_sound_wf s ct (p ++ [e0]) sube Le Wp0 Hs q0 Hin).
          * apply wf_path_app. auto.
          * apply wf_path_app. split; [exact Wp|]. apply wf_path_cons. auto.
          * exact Hq0.
          * rewrite <- app_assoc. cbn [app]. rewrite patheqb_app_l by exact Wp.
            rewrite patheqb_cons, He. apply patheqb_refl. exact Wq''.
    Qed.

    Lemma visit_main : forall t a p ms cs child_tr,
      R t -> resolve s t = Some a -> wf_path p = true -> ps_ok (PSet ms cs) = true ->
      typed_has s t (PSet ms cs) -> ps_depth (PSet ms cs) <= fuel ->
      (forall e0 ct, type_at s t [e0] = Some ct -> child_tr e0 = Some ct) ->
      exists L, rw_visit (reconcile_w fuel s) p child_tr (PSet ms cs) = (false, L) /\
                rw_sound s t p (PSet ms cs) L /\ rw_complete s t p (PSet ms cs) L.
    Proof.
      intros t a p ms cs child_tr Rt Hres Wp Hok Hty Hd Hch.
      assert (1 <= fuel) as Hf1 by (pose proof (ps_depth_pos (PSet ms cs)); lia).
      (* the call on a child key *)
      assert (forall ec er, In ec cs ->
                rw_call (reconcile_w fuel s) p child_tr cs false (fst ec) = Some er ->
                exists ct Le, type_at s t [fst ec] = Some ct /\ er = (false, Le) /\
                  reconcile_w fuel s ct (p ++ [fst ec]) (Some (snd ec)) false = (false, Le)) as Hcc.
      { intros ec er Hin Hcall. destruct (snm_get_In ms cs ec Hok Hin) as [W Hg].
        destruct (call_some t a p ms cs (fst ec) (snd ec) Rt Hres Wp Hok Hty Hd W Hg)
          as (ct & Le & Hct & HLe & _).
        exists ct, Le. split; [exact Hct|]. split; [|exact HLe].
        unfold rw_call in Hcall. rewrite (Hch _ _ Hct), Hg in Hcall. cbn [has_sub andb] in Hcall.
        rewrite HLe in Hcall. inversion Hcall. reflexivity. }
      (* the call on a member *)
      assert (forall e er, In e ms ->
                rw_call (reconcile_w fuel s) p child_tr cs true e = Some er ->
                (snm_get e cs = None /\ er = (false, [])) \/
                (exists sube ct Le, snm_get e cs = Some sube /\ type_at s t [e] = Some ct /\
                   er = (false, Le) /\
                   reconcile_w fuel s ct (p ++ [e]) (Some sube) false = (false, Le))) as Hcm.
      { intros e er Hin Hcall. destruct (member_has ms cs e Hok Hin) as [W Hh].
        destruct (snm_get e cs) as [sube|] eqn:Hg.
        - right. destruct (call_some t a p ms cs e sube Rt Hres Wp Hok Hty Hd W Hg)
            as (ct & Le & Hct & HLe & _).
          exists sube, ct, Le. split; [reflexivity|]. split; [exact Hct|]. split; [|exact HLe].
          unfold rw_call in Hcall. rewrite (Hch _ _ Hct), Hg in Hcall. cbn [has_sub andb negb] in Hcall.
          rewrite HLe in Hcall. inversion Hcall. reflexivity.
        - left. split; [reflexivity|].
          assert (wf_path [e] = true) as We by (apply wf_path_cons; auto).
          pose proof (Hty [e] We Hh) as Ht.
          destruct (type_at s t [e]) as [ct|] eqn:Hct; [|congruence].
          destruct (child_R t a e ct Rt Hres Hct) as [Rct Hnec].
          unfold rw_call in Hcall. rewrite (Hch _ _ Hct), Hg in Hcall. cbn [has_sub andb negb] in Hcall.
          rewrite (leaf_call fuel ct (p ++ [e]) Hf1 Rct Hnec) in Hcall. inversion Hcall. reflexivity. }
      destruct (rw_visit_spec (reconcile_w fuel s) p child_tr ms cs) as (L & HL & HLin).
      { intros ec er Hin Hgc. destruct (pes_has (fst ec) ms); [discriminate|].
        destruct (Hcc ec er Hin Hgc) as (ct & Le & _ & E & _). subst er. reflexivity. }
      { intros e er Hin Hgm. destruct (Hcm e er Hin Hgm) as [[_ E]|(sube & ct & Le & _ & _ & E & _)];
          subst er; reflexivity. }
      exists L. split; [exact HL|]. split.
      - (* sound *)
        intros q0 Hq0. apply HLin in Hq0.
        destruct Hq0 as [(ec & er & Hin & Hgc & Hq)|(e & er & Hin & Hgm & Hq)].
        + destruct (pes_has (fst ec) ms); [discriminate|].
          destruct (Hcc ec er Hin Hgc) as (ct & Le & Hct & E & HLe). subst er. cbn [snd] in Hq.
          destruct (snm_get_In ms cs ec Hok Hin) as [W Hg].
          destruct (call_some t a p ms cs (fst ec) (snd ec) Rt Hres Wp Hok Hty Hd W Hg)
            as (ct' & Le' & Hct' & HLe' & Hs' & _).
          rewrite Hct in Hct'. inversion Hct'; subst ct'. rewrite HLe in HLe'. inversion HLe'; subst Le'.
          apply (Hs' q0 Hq).
        + destruct (Hcm e er Hin Hgm) as [[_ E]|(sube & ct & Le & Hg & Hct & E & HLe)];
            subst er; cbn [snd] in Hq; [destruct Hq|].
          destruct (member_has ms cs e Hok Hin) as [W _].
          destruct (call_some t a p ms cs e sube Rt Hres Wp Hok Hty Hd W Hg)
            as (ct' & Le' & Hct' & HLe' & Hs' & _).
          rewrite Hct in Hct'. inversion Hct'; subst ct'. rewrite HLe in HLe'. inversion HLe'; subst Le'.
          apply (Hs' q0 Hq).
      - (* complete *)
        intros m q' Wm Hm Har Hlen. destruct m as [|e [|x r]]; [discriminate| |].
        + destruct (aroot_prefix s [e] t q' Har) as [_ Hl]. simpl in *. lia.
        + rewrite ps_has_more_get in Hm. destruct (snm_get e cs) as [sube|] eqn:Hg; [|discriminate].
          pose proof Wm as Wm'. apply wf_path_cons in Wm'. destruct Wm' as [We Wxr].
          destruct (snm_get_cok ms cs e sube Hok Hg) as (_ & _ & _ & e2 & Hin2 & W2 & He2).
          destruct (pes_has e2 ms) eqn:Hmem.
          * (* the key is also a member: the call is made from the member loop *)
            destruct (has_member ms cs e2 Hok W2 Hmem) as (e1 & Hin1 & W1 & He21).
            assert (peeqb e1 e = true) as He1.
            { rewrite <- (peeqb_cong_l e e2 e1 We W2 W1 He21). exact He2. }
            assert (snm_get e1 cs = Some sube) as Hg1
              by (rewrite (snm_get_cong ms cs e1 e Hok W1 We He1); exact Hg).
            destruct (call_some t a p ms cs e1 sube Rt Hres Wp Hok Hty Hd W1 Hg1)
              as (ct & Le & Hct & HLe & _ & Hc').
            destruct (Hc' e (x :: r) q' Wm He1 Hm Har Hlen) as (q0 & Hq0 & Hp0).
            exists q0. split; [|exact Hp0]. apply HLin. right.
            exists e1, (false, Le). split; [exact Hin1|]. split; [|exact Hq0].
            unfold rw_call. rewrite (Hch _ _ Hct), Hg1. cbn [has_sub andb negb]. rewrite HLe. reflexivity.
          * (* the call is made from the children loop *)
            destruct (snm_get_In ms cs (e2, sube) Hok Hin2) as [_ Hg2]. cbn [fst snd] in Hg2.
            destruct (call_some t a p ms cs e2 sube Rt Hres Wp Hok Hty Hd W2 Hg2)
              as (ct & Le & Hct & HLe & _ & Hc').
            destruct (Hc' e (x :: r) q' Wm He2 Hm Har Hlen) as (q0 & Hq0 & Hp0).
            exists q0. split; [|exact Hp0]. apply HLin. left.
            exists (e2, sube), (false, Le). split; [exact Hin2|]. split; [|exact Hq0].
            cbn [fst]. rewrite Hmem. unfold rw_call. rewrite (Hch _ _ Hct), Hg2.
            cbn [has_sub andb negb]. rewrite HLe. reflexivity.
    Qed.
  End Visit.

  (* the walker below a node whose type is not atomic: no error, and the reported paths are
     exactly the atomic roots of the members that lie strictly beneath their root *)
  Lemma rw_main : forall fuel t p sub, ps_depth sub < fuel -> R t -> is_empty_tr t = false ->
    wf_path p = true -> ps_ok sub = true -> typed_has s t sub -> is_atomic_type s t = false ->
    exists L, reconcile_w fuel s t p (Some sub) false = (false, L) /\
              rw_sound s t p sub L /\ rw_complete s t p sub L.
  Proof.
    induction fuel as [|fuel IH]; intros t p sub Hd Rt Hne Wp Hok Hty Hna; [lia|].
    destruct sub as [ms cs].
    destruct (proj1 Hw t Rt Hne) as (a & Hres & Hdis & Hud).
    rewrite reconcile_w_S, Hres.
    assert (ps_depth (PSet ms cs) <= fuel) as Hd' by lia.
    unfold is_atomic_type in Hna. rewrite Hres in Hna.
    destruct a as [sc [l|] [m|]].
    - (* map (a list member is ignored by both sides) *)
      assert (handle_atom (Atom sc (Some l) (Some m)) = HMap m) as Hh by (destruct sc; reflexivity).
      rewrite Hh. rewrite (Hud m eq_refl). cbn [negb andb]. rewrite Hna.
      apply (visit_main fuel IH t _ p ms cs (type_ref_at_path m) Rt Hres Wp Hok Hty Hd').
      intros e0 ct Hct. cbn [type_at] in Hct. rewrite Hres in Hct.
      destruct e0; try discriminate. unfold type_ref_at_path.
      destruct (is_empty_tr (field_type m name)); [discriminate|]. exact Hct.
    - (* list *)
      destruct sc as [k|]; [discriminate Hdis|]. cbn [handle_atom]. cbn [negb andb]. rewrite Hna.
      apply (visit_main fuel IH t _ p ms cs (fun _ => Some (list_elem l)) Rt Hres Wp Hok Hty Hd').
      intros e0 ct Hct. cbn [type_at] in Hct. rewrite Hres in Hct.
      destruct e0; try discriminate; exact Hct.
    - (* map *)
      assert (handle_atom (Atom sc None (Some m)) = HMap m) as Hh by (destruct sc; reflexivity).
      rewrite Hh. rewrite (Hud m eq_refl). cbn [negb andb]. rewrite Hna.
      apply (visit_main fuel IH t _ p ms cs (type_ref_at_path m) Rt Hres Wp Hok Hty Hd').
      intros e0 ct Hct. cbn [type_at] in Hct. rewrite Hres in Hct.
      destruct e0; try discriminate. unfold type_ref_at_path.
      destruct (is_empty_tr (field_type m name)); [discriminate|]. exact Hct.
    - (* scalar: nothing is typed beneath *)
      destruct sc as [k|]; [|discriminate Hdis]. cbn [handle_atom].
      exists []. split; [reflexivity|]. split; [intros q0 []|].
      intros m q' Wm Hm Har _. destruct m as [|e r]; [discriminate|].
      rewrite aroot_cons in Har. cbn [type_at] in Har. rewrite Hres in Har.
      destruct e; discriminate.
  Qed.
End Walker.
