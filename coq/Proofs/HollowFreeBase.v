(* Helper of Proofs/HollowFree.v: what removal (typed/remove.go) makes of a plain object.

   remove.go drops a list member / map entry it is told to drop, and replaces a list or map
   ALL of whose members it dropped by nil -- but it writes that nil back into the parent
   (remove.go: newMap[k] = val.Unstructured(), newItems = append(newItems, item.Unstructured())):
   a container that removal empties is left behind as an explicit NULL, it does not disappear.

     [no_empty]               no empty map, no empty list anywhere (nulls allowed)
     [remove_no_empty]        removal never produces an empty map or list, whatever the set
     [covered]                every container of v that T leaves in place keeps a member
     [remove_covered_plain]   nice T, T within v, covered  ==>  remove v T is null or plain
     [remove_plain_covered]   the converse: the condition is the weakest possible *)
From Coq Require Import List ZArith String Bool Arith Lia.
From SMD Require Import Model.Value Model.Order Model.PathElem Model.PathSet Model.Schema
  Model.Walk Model.FieldSet Model.Remove Spec.PathsAsSets Spec.RefValid Spec.Resolve Spec.Agree
  Proofs.OrderLaws Proofs.KeyLaws Proofs.PathSetLaws Proofs.ValidateLaws Proofs.SchemaOk
  Proofs.FieldSetMirrors Proofs.FieldSetBase Proofs.FieldSetShape Proofs.FieldSetPaths
  Proofs.RemoveBase Proofs.ExtractBase Proofs.ExtractLaws Proofs.RemoveAbsent Proofs.RemoveWf
  Proofs.ResolveLaws Proofs.ReconcileBase Proofs.RemoveFrame Proofs.RemoveMono Proofs.RemoveExt
  Proofs.KeyFields.
From SMD Require Proofs.ApplyEffect.
Import ListNotations.
Open Scope bool_scope.

Local Arguments ps_has : simpl never.
Local Arguments ps_with_prefix : simpl never.
Local Arguments ps_empty : simpl never.

(* ================= definitions ================= *)

(* the object is null (nothing left) or holds no null, no empty map, no empty list *)
Definition hollow_free (v : value) : Prop := v = VNull \/ plain v = true.

(* no empty map and no empty list anywhere inside v (explicit nulls are allowed) *)
Fixpoint no_empty (v : value) : bool :=
  match v with
  | VList [] => false
  | VMap [] => false
  | VList l => forallb no_empty l
  | VMap m => forallb (fun kv => no_empty (snd kv)) m
  | _ => true
  end.

(* no explicit null anywhere inside v, the root included *)
Fixpoint no_null (v : value) : bool :=
  match v with
  | VNull => false
  | VList l => forallb no_null l
  | VMap m => forallb (fun kv => no_null (snd kv)) m
  | _ => true
  end.

Lemma plain_split : forall v, plain v = no_empty v && no_null v.
Proof.
  intros v. induction v as [|b|z|q0|str|l IHl|m IHm] using value_ind'; try reflexivity.
  - destruct l as [|x l]; [reflexivity|].
    change (forallb plain (x :: l) = forallb no_empty (x :: l) && forallb no_null (x :: l)).
    induction IHl as [|y ys Hy _ IH]; [reflexivity|].
    cbn [forallb]. rewrite Hy, IH.
    destruct (no_empty y), (no_null y), (forallb no_empty ys); reflexivity.
  - destruct m as [|x m]; [reflexivity|].
    change (forallb (fun kv => plain (snd kv)) (x :: m) =
            forallb (fun kv => no_empty (snd kv)) (x :: m) && forallb (fun kv => no_null (snd kv)) (x :: m)).
    induction IHm as [|y ys Hy _ IH]; [reflexivity|].
    cbn [forallb]. rewrite Hy, IH.
    destruct (no_empty (snd y)), (no_null (snd y)), (forallb (fun kv => no_empty (snd kv)) ys); reflexivity.
Qed.

Lemma plain_no_empty : forall v, plain v = true -> no_empty v = true.
Proof. intros v H. rewrite plain_split in H. apply andb_true_iff in H. apply H. Qed.

Lemma hollow_free_no_empty : forall v, hollow_free v -> no_empty v = true.
Proof. intros v [->|H]; [reflexivity|apply plain_no_empty; exact H]. Qed.

(* hollow-free = no empty container, and no null except a null root *)
Lemma hollow_free_iff : forall v,
  hollow_free v <-> no_empty v = true /\ (v = VNull \/ no_null v = true).
Proof.
  intros v. unfold hollow_free. rewrite plain_split. split.
  - intros [->|H]; [split; [reflexivity|left; reflexivity]|].
    apply andb_true_iff in H. destruct H as [H1 H2]. auto.
  - intros [H1 [->|H2]]; [left; reflexivity|right]. rewrite H1, H2. reflexivity.
Qed.

Lemma no_empty_list_in : forall l x, no_empty (VList l) = true -> In x l -> no_empty x = true.
Proof.
  intros l x H Hx. destruct l as [|y l]; [contradiction|].
  change (forallb no_empty (y :: l) = true) in H. rewrite forallb_forall in H. auto.
Qed.

Lemma no_empty_map_in : forall m k c, no_empty (VMap m) = true -> In (k, c) m -> no_empty c = true.
Proof.
  intros m k c H Hx. destruct m as [|y m]; [contradiction|].
  change (forallb (fun kv => no_empty (snd kv)) (y :: m) = true) in H.
  rewrite forallb_forall in H. apply (H (k, c) Hx).
Qed.

(* ================= removal never produces an empty container ================= *)

Lemma remove_no_empty : forall s v tr T, no_empty v = true ->
  no_empty (remove_items s false tr T v) = true.
Proof.
  intros s v. induction v as [|b|z|q0|str|l IHl|m IHm] using value_ind'; intros tr T Hn;
    rewrite remove_items_eq; (destruct (resolve s tr) as [a|]; [|reflexivity]);
    match goal with |- context [handle_atom ?x] => destruct (handle_atom x) as [t|t|t|] end;
    try reflexivity; try exact Hn.
  - (* list *)
    destruct l as [|x0 l0]; [reflexivity|]. set (l := x0 :: l0) in *.
    destruct (rel_is_atomic (list_rel t)); [reflexivity|]. cbv zeta.
    assert (Hall : forallb no_empty (rm_list_go s false T t l) = true).
    { assert (Hl : forallb no_empty l = true) by exact Hn.
      clearbody l. clear Hn. induction l as [|x l IH]; [reflexivity|].
      inversion IHl as [|? ? Hx Hrest]; subst.
      cbn [forallb] in Hl. apply andb_true_iff in Hl. destruct Hl as [Hnx Hnl].
      specialize (IH Hrest Hnl).
      rewrite rm_list_go_cons. unfold rm_list_step. cbv zeta.
      destruct (rm_has T (list_item_pe_or_zero s t x) && negb false); [exact IH|].
      destruct (rm_has T (list_item_pe_or_zero s t x) &&
                ps_empty (rm_subset T (list_item_pe_or_zero s t x))).
      { cbn [forallb]. rewrite IH, (Hx _ _ Hnx). reflexivity. }
      destruct (negb (ps_empty (rm_subset T (list_item_pe_or_zero s t x)))).
      { cbn [forallb]. rewrite IH, (Hx _ _ Hnx). reflexivity. }
      cbn [forallb]. rewrite IH, Hnx. reflexivity. }
    destruct (rm_list_go s false T t l) as [|y ys]; [reflexivity|exact Hall].
  - (* map *)
    destruct m as [|kv0 m0]; [reflexivity|]. set (m := kv0 :: m0) in *.
    destruct (rel_is_atomic (map_rel t)); [reflexivity|]. cbv zeta.
    assert (Hall : forallb (fun kv => no_empty (snd kv)) (rm_map_go s false T t m) = true).
    { assert (Hm : forallb (fun kv => no_empty (snd kv)) m = true) by exact Hn.
      clearbody m. clear Hn. induction m as [|[k x] m IH]; [reflexivity|].
      inversion IHm as [|? ? Hx Hrest]; subst. cbn [snd] in Hx.
      cbn [forallb snd] in Hm. apply andb_true_iff in Hm. destruct Hm as [Hnx Hnm].
      specialize (IH Hrest Hnm).
      rewrite rm_map_go_cons. unfold rm_map_step. cbn [fst snd]. cbv zeta.
      destruct (ps_has [PEField k] T); [exact IH|].
      destruct (negb (ps_empty (ps_with_prefix (PEField k) T))).
      - cbn [forallb snd]. rewrite IH, (Hx _ _ Hnx). reflexivity.
      - cbn [forallb snd]. rewrite IH, Hnx. reflexivity. }
    destruct (rm_map_go s false T t m) as [|y ys]; [reflexivity|exact Hall].
Qed.

(* ================= the members of the result of a removal ================= *)

Lemma rm_map_go_in : forall s T t m k c', In (k, c') (rm_map_go s false T t m) ->
  exists c, In (k, c) m /\ ps_has [PEField k] T = false /\ c' = kept_value s T t k c.
Proof.
  intros s T t m k c'. induction m as [|[k0 c0] m IH]; intros H; [destruct H|].
  rewrite rm_map_go_cons in H. unfold rm_map_step in H. cbn [fst snd] in H. cbv zeta in H.
  destruct (ps_has [PEField k0] T) eqn:Eh.
  - destruct (IH H) as (c & Hin & Hno & Hc). exists c. split; [right; exact Hin|auto].
  - assert (Hhead : (k0, kept_value s T t k0 c0) = (k, c') \/ In (k, c') (rm_map_go s false T t m)).
    { unfold kept_value. destruct (negb (ps_empty (ps_with_prefix (PEField k0) T))); exact H. }
    destruct Hhead as [E|Hin].
    + inversion E; subst k c'. exists c0. split; [left; reflexivity|]. split; [exact Eh|reflexivity].
    + destruct (IH Hin) as (c & Hin' & Hno & Hc). exists c. split; [right; exact Hin'|auto].
Qed.

Lemma rm_list_go_in : forall s T t l y, In y (rm_list_go s false T t l) ->
  exists x, In x l /\ ps_has [list_item_pe_or_zero s t x] T = false /\ y = kept_item s T t x.
Proof.
  intros s T t l y H. rewrite rm_list_go_flat in H. apply in_flat_map in H.
  destruct H as (x & Hx & Hy). rewrite keep_item_kept in Hy.
  destruct (ps_has [list_item_pe_or_zero s t x] T) eqn:Eh; [destruct Hy|].
  destruct Hy as [<-|[]]. exists x. auto.
Qed.

Lemma resolve_null_cons : forall s tr e rest, resolve_path s tr VNull (e :: rest) = None.
Proof. intros s tr e rest. apply resolve_path_leaf. apply kind_null. Qed.

(* ================= the condition on the removed set ================= *)

(* every container of v (other than the root) that T leaves in place -- T holds neither its
   path nor a path above it -- keeps at least one member *)
Definition covered (s : schema) (tr : typeref) (v : value) (T : pset) : Prop :=
  forall q tq x, wf_path q = true -> q <> [] ->
    resolve_path s tr v q = Some (RNode tq x) -> granular s tq x -> touches q T = false ->
    exists e, wf_pe e = true /\ present s tr v (q ++ [e]) = true /\ touches (q ++ [e]) T = false.

Section Covered.
  Variables (s : schema) (R : typeref -> Prop).
  Hypothesis Hok : schema_ok s R.
  Hypothesis Hfam : family_refs s R.
  Hypothesis Hnd : keys_nodefault s R.

  Lemma covered_map_child : forall tr m T t k c, ps_ok T = true ->
    kind_of s tr (VMap m) = KMap t m -> assoc_get k m = Some c -> ps_has [PEField k] T = false ->
    covered s tr (VMap m) T -> covered s (field_type t k) c (ps_with_prefix (PEField k) T).
  Proof.
    intros tr m T t k c HT Ek Eg Hno Hcov q tq x Hq Hne Hres Hg Hto.
    assert (Hq' : wf_path (PEField k :: q) = true) by (apply wf_path_cons; auto).
    destruct (Hcov (PEField k :: q) tq x Hq' ltac:(discriminate)) as (e & He & Hpr & Hto'); auto.
    - rewrite (resolve_path_map _ _ _ _ _ _ _ Ek), Eg. exact Hres.
    - cbn [touches]. rewrite Hno, Hto. reflexivity.
    - exists e. split; [exact He|]. cbn [app] in Hpr, Hto'. split.
      + rewrite <- (present_map_step s tr (VMap m) t m k c (q ++ [e]) Ek Eg). exact Hpr.
      + cbn [touches] in Hto'. rewrite Hno in Hto'. exact Hto'.
  Qed.

  Lemma covered_item_child : forall tr l T t x ex, R tr -> wf_value (VList l) = true ->
    ps_ok T = true -> kind_of s tr (VList l) = KList t l -> forallb (has_pe s t) l = true ->
    wf_pe ex = true -> is_keyval ex = true -> occ s t ex l = [x] -> ps_has [ex] T = false ->
    covered s tr (VList l) T -> covered s (list_elem t) x (ps_with_prefix ex T).
  Proof.
    intros tr l T t x ex Htr Hwf HT Ek Hhp Hwex Hkv Hocc Hno Hcov q tq y Hq Hne Hres Hg Hto.
    assert (Hstep : forall r, resolve_path s tr (VList l) (ex :: r) = resolve_path s (list_elem t) x r).
    { intros r. rewrite (resolve_path_list_occ s R Hok tr _ t l ex r Htr Hwf Ek Hwex), Hhp, Hkv, Hocc.
      reflexivity. }
    assert (Hq' : wf_path (ex :: q) = true) by (apply wf_path_cons; auto).
    destruct (Hcov (ex :: q) tq y Hq' ltac:(discriminate)) as (e & He & Hpr & Hto'); auto.
    - rewrite Hstep. exact Hres.
    - cbn [touches]. rewrite Hno, Hto. reflexivity.
    - exists e. split; [exact He|]. cbn [app] in Hpr, Hto'. split.
      + unfold present in *. rewrite Hstep in Hpr. exact Hpr.
      + cbn [touches] in Hto'. rewrite Hno in Hto'. exact Hto'.
  Qed.

  (* ================= covered ==> the result is null or plain ================= *)

  Theorem remove_covered_plain : forall v tr dup T, R tr -> wf_value v = true ->
    conforms s tr dup v = true -> nice s tr v T -> sub_present s tr v T -> covered s tr v T ->
    plain v = true -> hollow_free (remove_items s false tr T v).
  Proof.
    intros v. induction v as [|b|z|q0|str|l IHl|m IHm] using value_ind';
      intros tr dup T Htr Hwf Hc Hn Hsp Hcov Hpl;
      try (rewrite (scalar_removed s tr dup T _ Hc eq_refl); right; exact Hpl).
    - discriminate.
    - (* list *)
      pose proof (n_ok _ _ _ _ Hn) as HT.
      pose proof Hc as Hc'. rewrite conforms_eq in Hc'.
      destruct (resolve s tr) as [[sc li ma]|] eqn:Er; [|discriminate].
      destruct li as [t|]; [|discriminate].
      pose proof (plain_list_ne l Hpl) as Hlne.
      rewrite (remove_items_vlist' s false tr T sc t ma l Er Hlne).
      destruct (rel_is_atomic (list_rel t)) eqn:Ena; [left; reflexivity|].
      assert (Ek : kind_of s tr (VList l) = KList t l).
      { unfold kind_of. rewrite Er, Ena. destruct l; [congruence|reflexivity]. }
      destruct (conf_list_facts s R Hok Hfam tr dup t l Htr Hc Ek)
        as (sc' & ma' & Hr & Hte & _ & _ & Hhp & Hcs & _).
      assert (Hiw : items_wf s t l) by (apply (items_wf_R s R Hok t l Hte); exact Hwf).
      destruct (rm_list_go s false T t l) as [|y0 ys] eqn:Ei; [left; reflexivity|].
      right. rewrite <- Ei.
      assert (Hall : forallb plain (rm_list_go s false T t l) = true).
      { apply forallb_forall. intros y Hy.
        destruct (rm_list_go_in s T t l y Hy) as (x & Hx & Hno & ->).
        assert (Hplx : plain x = true) by (apply (plain_list_in l x Hpl Hx)).
        pose proof (proj1 (forallb_forall _ _) Hhp x Hx) as Hpx. unfold has_pe in Hpx.
        destruct (list_item_to_pe s t x) as [ex|] eqn:Ex; [|discriminate]. clear Hpx.
        rewrite (list_item_pe_or_zero_some s t x ex Ex) in Hno.
        unfold kept_item. rewrite (list_item_pe_or_zero_some s t x ex Ex). cbv zeta.
        destruct (ps_empty (ps_with_prefix ex T)) eqn:Ee; cbn [negb]; [exact Hplx|].
        assert (Hwex : wf_pe ex = true) by (apply (Hiw x ex Hx Ex)).
        assert (Hkv : is_keyval ex = true) by (eapply lipe_keyval; eauto).
        destruct (ps_with_prefix_spec ex T HT Hwex) as [HTx Hwx].
        (* something of T lies beneath the member: the member is not duplicated *)
        destruct (ps_nonempty_witness _ HTx Ee) as (p & Hp & Hhas).
        pose proof (has_nonnil _ _ Hhas) as Hpne.
        rewrite Hwx in Hhas by auto.
        assert (Hprp : present s tr (VList l) (ex :: p) = true).
        { apply Hsp; [apply wf_path_cons; auto|exact Hhas]. }
        assert (Hxo : In x (occ s t ex l)).
        { apply In_occ; [exact Hx|]. unfold pe_matches. rewrite Ex. apply peeqb_refl. exact Hwex. }
        assert (Hocc : occ s t ex l = [x]).
        { unfold present in Hprp.
          rewrite (resolve_path_list_occ s R Hok tr _ t l ex p Htr Hwf Ek Hwex) in Hprp.
          destruct (occ s t ex l) as [|x1 [|y1 more]].
          - destruct Hxo.
          - destruct Hxo as [->|[]]. reflexivity.
          - destruct (forallb (has_pe s t) l && is_keyval ex); [|discriminate].
            destruct p; [congruence|discriminate]. }
        pose proof Hhp as Hhp'.
        assert (Hstep : forall r, resolve_path s tr (VList l) (ex :: r) = resolve_path s (list_elem t) x r).
        { intros r. rewrite (resolve_path_list_occ s R Hok tr _ t l ex r Htr Hwf Ek Hwex), Hhp', Hkv, Hocc.
          reflexivity. }
        assert (Hwx' : wf_value x = true) by (eapply wf_value_list_in; eauto).
        assert (Hcx : conforms s (list_elem t) dup x = true).
        { rewrite forallb_forall in Hcs. exact (Hcs x Hx). }
        assert (Hnx : nice s (list_elem t) x (ps_with_prefix ex T))
          by (apply (nice_item_child s tr l T t x ex Hn Ek Hx Ex Hwex Hno)).
        assert (Hspx : sub_present s (list_elem t) x (ps_with_prefix ex T))
          by (apply (sub_present_item_child s R Hok tr (VList l) T t l x ex); auto).
        assert (Hcovx : covered s (list_elem t) x (ps_with_prefix ex T))
          by (apply (covered_item_child tr l T t x ex); auto).
        rewrite Forall_forall in IHl.
        destruct (IHl x Hx (list_elem t) dup _ Hte Hwx' Hcx Hnx Hspx Hcovx Hplx) as [Hnull|Hpl']; [|exact Hpl'].
        exfalso.
        (* the member is a container that T leaves in place: it keeps a member *)
        assert (Hgx : granular s (list_elem t) x).
        { destruct (leafy_or_granular s (list_elem t) x) as [Hl|Hg]; [|exact Hg].
          rewrite (sub_present_leaf_empty s (list_elem t) x _ HTx Hspx Hl) in Ee. discriminate. }
        assert (Hw1 : wf_path [ex] = true) by (apply wf_path_cons; auto).
        destruct (Hcov [ex] (list_elem t) x Hw1 ltac:(discriminate)) as (e & He & Hpr & Hto); auto.
        { rewrite Hstep. reflexivity. }
        { cbn [touches]. rewrite Hno. reflexivity. }
        cbn [app] in Hpr, Hto.
        assert (Hw2 : wf_path [ex; e] = true) by (apply wf_path_cons; split; [exact Hwex|apply wf_path_cons; auto]).
        unfold present in Hpr.
        destruct (resolve_path s tr (VList l) [ex; e]) as [n|] eqn:En; [|discriminate].
        destruct (remove_keeps s R Hok Hfam Hnd [ex; e] (VList l) tr dup T n Htr Hwf Hc Hn Hw2
                    ltac:(discriminate) En Hto) as (n' & Hn' & _).
        rewrite (rm_resolve_list s R Hok Hfam Hnd tr dup t l T ex [e] Htr Hwf Hc Ek Hn Hwex Hkv) in Hn'.
        rewrite Hno, Hocc in Hn'. unfold kept_item in Hn'.
        rewrite (list_item_pe_or_zero_some s t x ex Ex) in Hn'. cbv zeta in Hn'.
        rewrite Ee in Hn'. cbn [negb] in Hn'. rewrite Hnull, resolve_null_cons in Hn'. discriminate. }
      destruct (rm_list_go s false T t l) as [|y1 ys1]; [discriminate|exact Hall].
    - (* map *)
      pose proof (n_ok _ _ _ _ Hn) as HT.
      pose proof Hc as Hc'. rewrite conforms_eq in Hc'.
      destruct (resolve s tr) as [[sc li ma]|] eqn:Er; [|discriminate].
      destruct ma as [t|]; [|discriminate].
      pose proof (plain_map_ne m Hpl) as Hmne.
      rewrite (remove_items_vmap' s false tr T sc li t m Er Hmne).
      destruct (rel_is_atomic (map_rel t)) eqn:Ena; [left; reflexivity|].
      assert (Ek : kind_of s tr (VMap m) = KMap t m).
      { unfold kind_of. rewrite Er, Ena. destruct m; [congruence|reflexivity]. }
      destruct (rm_map_go s false T t m) as [|o0 out0] eqn:Eo; [left; reflexivity|].
      right. rewrite <- Eo.
      assert (Hall : forallb (fun kv => plain (snd kv)) (rm_map_go s false T t m) = true).
      { apply forallb_forall. intros [k c'] Hy. cbn [snd].
        destruct (rm_map_go_in s T t m k c' Hy) as (c & Hin & Hno & ->).
        assert (Hplc : plain c = true) by (apply (plain_map_in m k c Hpl Hin)).
        assert (Eg : assoc_get k m = Some c).
        { apply assoc_get_in_sorted; [|exact Hin]. apply andb_true_iff in Hwf. apply Hwf. }
        unfold kept_value.
        destruct (ps_empty (ps_with_prefix (PEField k) T)) eqn:Ee; cbn [negb]; [exact Hplc|].
        destruct (ps_with_prefix_spec (PEField k) T HT eq_refl) as [HTk _].
        assert (Hft : R (field_type t k)) by (apply (so_map s R Hok tr _ t k Htr Er eq_refl)).
        assert (Hwc : wf_value c = true) by (apply (wf_value_map_in m k c Hwf Hin)).
        assert (Hcc : conforms s (field_type t k) dup c = true) by (eapply cmap_each_in; eauto).
        assert (Hnc : nice s (field_type t k) c (ps_with_prefix (PEField k) T))
          by (apply (nice_map_child s tr m T t k c Hn Ek Eg Hno)).
        assert (Hspc : sub_present s (field_type t k) c (ps_with_prefix (PEField k) T))
          by (apply (sub_present_map_child s tr (VMap m) T t m k c HT Ek Eg Hsp)).
        assert (Hcovc : covered s (field_type t k) c (ps_with_prefix (PEField k) T))
          by (apply (covered_map_child tr m T t k c HT Ek Eg Hno Hcov)).
        rewrite Forall_forall in IHm.
        destruct (IHm (k, c) Hin (field_type t k) dup _ Hft Hwc Hcc Hnc Hspc Hcovc Hplc) as [Hnull|Hpl'];
          [|exact Hpl'].
        exfalso. cbn [snd] in Hnull.
        assert (Hgc : granular s (field_type t k) c).
        { destruct (leafy_or_granular s (field_type t k) c) as [Hl|Hg]; [|exact Hg].
          rewrite (sub_present_leaf_empty s (field_type t k) c _ HTk Hspc Hl) in Ee. discriminate. }
        assert (Hw1 : wf_path [PEField k] = true) by reflexivity.
        destruct (Hcov [PEField k] (field_type t k) c Hw1 ltac:(discriminate)) as (e & He & Hpr & Hto); auto.
        { rewrite (resolve_path_map _ _ _ _ _ _ _ Ek), Eg. reflexivity. }
        { cbn [touches]. rewrite Hno. reflexivity. }
        cbn [app] in Hpr, Hto.
        assert (Hw2 : wf_path [PEField k; e] = true)
          by (apply wf_path_cons; split; [reflexivity|apply wf_path_cons; auto]).
        unfold present in Hpr.
        destruct (resolve_path s tr (VMap m) [PEField k; e]) as [n|] eqn:En; [|discriminate].
        destruct (remove_keeps s R Hok Hfam Hnd [PEField k; e] (VMap m) tr dup T n Htr Hwf Hc Hn Hw2
                    ltac:(discriminate) En Hto) as (n' & Hn' & _).
        rewrite (rm_resolve_map s tr t m T k [e] Ek), Hno, Eg in Hn'. unfold kept_value in Hn'.
        rewrite Ee in Hn'. cbn [negb] in Hn'. rewrite Hnull, resolve_null_cons in Hn'. discriminate. }
      destruct (rm_map_go s false T t m) as [|o1 out1]; [discriminate|exact Hall].
  Qed.

  (* ================= the converse: the condition is necessary ================= *)

  Theorem remove_plain_covered : forall v tr T, R tr -> wf_value v = true ->
    conforms s tr true v = true -> nice s tr v T ->
    hollow_free (remove_items s false tr T v) -> covered s tr v T.
  Proof.
    intros v tr T Htr Hwf Hc Hn Hhf q tq x Hq Hne Hres Hg Hto.
    set (res := remove_items s false tr T v) in *.
    destruct (remove_node s R Hok Hfam Hnd q v tr true T tq x Htr Hwf Hc Hn Hq Hne Hres Hto)
      as (T' & HT' & Hres').
    fold res in Hres'.
    assert (Hplr : plain res = true).
    { destruct Hhf as [Hnull|H]; [|exact H]. rewrite Hnull in Hres'.
      destruct q; [congruence|]. rewrite resolve_null_cons in Hres'. discriminate. }
    assert (Hwr : wf_value res = true) by (apply remove_items_wf; exact Hwf).
    assert (Hcr : conforms s tr true res = true) by (apply (remove_conforms s R Hok Hfam Hnd v tr T Htr Hwf Hc Hn)).
    remember (kept_node s tq T' x) as x' eqn:Ex'.
    pose proof (ApplyEffect.plain_sub s R Hok q res tr tq x' Htr Hwr Hq Hplr Hres') as Hplx.
    destruct (resolve_sub s R Hok Hfam q res tr true tq x' Htr Hwr Hcr Hq Hres') as (Htq & Hwx & Hcx).
    (* a member of the kept node, in the result *)
    assert (Hchild : exists e, wf_pe e = true /\ present s tq x' [e] = true).
    { unfold granular in Hg. destruct (kind_of s tq x) as [|t m|t l|] eqn:Ek; try contradiction.
      - destruct (kind_map_inv _ _ _ _ _ Ek) as ([sc li ma] & Hr & Ham & Hv & Hna & Hmne).
        simpl in Ham. subst ma x.
        assert (Hx' : exists out, out <> [] /\ x' = VMap out).
        { rewrite Ex' in Hplx |- *. unfold kept_node in Hplx |- *.
          destruct (negb (ps_empty T')) eqn:Eb; [|exists m; auto].
          rewrite (remove_items_vmap' s false tq T' sc li t m Hr Hmne), Hna in Hplx |- *.
          destruct (rm_map_go s false T' t m) as [|o out] eqn:Eo; [discriminate|].
          exists (o :: out). split; [discriminate|reflexivity]. }
        destruct Hx' as (out & Hone & Hx'). clear Ex'. subst x'.
        destruct out as [|[k c] out]; [congruence|].
        exists (PEField k). split; [reflexivity|]. unfold present.
        assert (Ek' : kind_of s tq (VMap ((k, c) :: out)) = KMap t ((k, c) :: out)).
        { unfold kind_of. rewrite Hr, Hna. reflexivity. }
        rewrite (resolve_path_map _ _ _ _ _ _ _ Ek'). cbn [assoc_get]. rewrite String.eqb_refl. reflexivity.
      - destruct (kind_list_inv _ _ _ _ _ Ek) as ([sc li ma] & Hr & Hal & Hv & Hna & Hlne).
        simpl in Hal. subst li x.
        assert (Hx' : exists items, items <> [] /\ x' = VList items).
        { rewrite Ex' in Hplx |- *. unfold kept_node in Hplx |- *.
          destruct (negb (ps_empty T')) eqn:Eb; [|exists l; auto].
          rewrite (remove_items_vlist' s false tq T' sc t ma l Hr Hlne), Hna in Hplx |- *.
          destruct (rm_list_go s false T' t l) as [|o out] eqn:Eo; [discriminate|].
          exists (o :: out). split; [discriminate|reflexivity]. }
        destruct Hx' as (items & Hine & Hx'). clear Ex'. subst x'.
        destruct items as [|y items]; [congruence|].
        assert (Ek' : kind_of s tq (VList (y :: items)) = KList t (y :: items)).
        { unfold kind_of. rewrite Hr, Hna. reflexivity. }
        destruct (conf_list_facts s R Hok Hfam tq true t (y :: items) Htq Hcx Ek')
          as (sc' & ma' & Hr' & Hte & _ & _ & Hhp & _ & _).
        assert (Hiw : items_wf s t (y :: items)) by (apply (items_wf_R s R Hok t _ Hte); exact Hwx).
        assert (Hy : In y (y :: items)) by (left; reflexivity).
        pose proof (proj1 (forallb_forall _ _) Hhp y Hy) as Hpy. unfold has_pe in Hpy.
        destruct (list_item_to_pe s t y) as [ey|] eqn:Ey; [|discriminate]. clear Hpy.
        assert (Hwey : wf_pe ey = true) by (apply (Hiw y ey Hy Ey)).
        assert (Hkv : is_keyval ey = true) by (eapply lipe_keyval; eauto).
        exists ey. split; [exact Hwey|]. unfold present.
        rewrite (resolve_path_list_occ s R Hok tq _ t (y :: items) ey [] Htq Hwx Ek' Hwey), Hhp, Hkv.
        cbn [andb].
        assert (Hyo : In y (occ s t ey (y :: items))).
        { apply In_occ; [exact Hy|]. unfold pe_matches. rewrite Ey. apply peeqb_refl. exact Hwey. }
        destruct (occ s t ey (y :: items)) as [|y1 [|y2 more]]; [destruct Hyo|reflexivity|reflexivity]. }
    destruct Hchild as (e & He & Hpe).
    assert (Hqe : wf_path (q ++ [e]) = true).
    { apply wf_path_app. split; [exact Hq|]. apply wf_path_cons. auto. }
    assert (Hprr : present s tr res (q ++ [e]) = true).
    { unfold present in *. rewrite resolve_path_app, Hres'. exact Hpe. }
    exists e. split; [exact He|]. split.
    - apply (remove_mono s R Hok Hfam Hnd (q ++ [e]) v tr true T Htr Hwf Hc Hn Hqe); [|exact Hprr].
      destruct q; discriminate.
    - destruct (touches (q ++ [e]) T) eqn:Et; [|reflexivity].
      pose proof (remove_drops s R Hok Hfam Hnd (q ++ [e]) v tr true T Htr Hwf Hc Hn Hqe Et) as Hd.
      fold res in Hd. rewrite Hd in Hprr. discriminate.
  Qed.

  (* ================= where the nulls are ================= *)

  (* the only nulls in the result of a removal from a plain object are containers of the
     object that the removal emptied *)
  Theorem remove_nulls_are_emptied : forall v tr T q tq, R tr -> wf_value v = true ->
    conforms s tr true v = true -> nice s tr v T -> sub_present s tr v T -> plain v = true ->
    wf_path q = true -> q <> [] ->
    resolve_path s tr (remove_items s false tr T v) q = Some (RNode tq VNull) ->
    exists x, resolve_path s tr v q = Some (RNode tq x) /\ granular s tq x /\ touches q T = false.
  Proof.
    intros v tr T q tq Htr Hwf Hc Hn Hsp Hpl Hq Hne Hres.
    set (res := remove_items s false tr T v) in *.
    assert (Hprr : present s tr res q = true) by (unfold present; rewrite Hres; reflexivity).
    pose proof (remove_mono s R Hok Hfam Hnd q v tr true T Htr Hwf Hc Hn Hq Hne Hprr) as Hprv.
    assert (Hto : touches q T = false).
    { destruct (touches q T) eqn:Et; [|reflexivity].
      pose proof (remove_drops s R Hok Hfam Hnd q v tr true T Htr Hwf Hc Hn Hq Et) as Hd.
      fold res in Hd. rewrite Hd in Hprr. discriminate. }
    unfold present in Hprv. destruct (resolve_path s tr v q) as [n|] eqn:Ev; [|discriminate].
    destruct (remove_keeps s R Hok Hfam Hnd q v tr true T n Htr Hwf Hc Hn Hq Hne Ev Hto) as (n' & Hn' & Hleaf).
    fold res in Hn'. rewrite Hres in Hn'. inversion Hn'; subst n'. clear Hn'.
    destruct n as [tq' x|tq' xs].
    - destruct (remove_node s R Hok Hfam Hnd q v tr true T tq' x Htr Hwf Hc Hn Hq Hne Ev Hto)
        as (T' & HT' & Hres').
      fold res in Hres'. rewrite Hres in Hres'. inversion Hres'; subst tq'.
      exists x. split; [reflexivity|]. split; [|exact Hto].
      destruct (leafy_or_granular s tq x) as [Hl|Hg]; [exfalso|exact Hg].
      assert (Hlf : rnode_is_leaf s (RNode tq x) = true).
      { simpl. unfold leafy in Hl. destruct (kind_of s tq x); try contradiction; reflexivity. }
      pose proof (Hleaf (or_introl Hsp) Hlf) as E. inversion E as [Ex]. 
      pose proof (ApplyEffect.plain_sub s R Hok q v tr tq x Htr Hwf Hq Hpl Ev) as Hplx.
      rewrite <- Ex in Hplx. discriminate.
    - exfalso. pose proof (Hleaf (or_introl Hsp) eq_refl) as E. discriminate.
  Qed.

  (* the exact criterion *)
  Corollary remove_hollow_free_iff : forall v tr T, R tr -> wf_value v = true ->
    conforms s tr true v = true -> nice s tr v T -> sub_present s tr v T -> plain v = true ->
    (hollow_free (remove_items s false tr T v) <-> covered s tr v T).
  Proof.
    intros v tr T Htr Hwf Hc Hn Hsp Hpl. split.
    - apply remove_plain_covered; assumption.
    - intros Hcov. apply (remove_covered_plain v tr true T); assumption.
  Qed.
End Covered.
